(* C06: the theorems about reachable states of the channel transition system (items 1, 2, 4, 5). *)
From Coq Require Import List NArith Bool Arith Lia.
From SV Require Import Clock.VClock Prim.Objects Engine.Exec Prim.Semaphore Prim.SemInv Lang.Code Lang.SyncOps Lang.SyncOps2.
From SV Require Import Proofs.VClockProofs Proofs.SemBase Proofs.ChanBase Proofs.ChanFun Proofs.ChanOps Proofs.ChanProofs.
Import ListNotations.
Open Scope nat_scope.

(* ------------------------------------------------------------------ *)
(* what a step does to the buffer, the histories and the handle counts *)
(* ------------------------------------------------------------------ *)
Inductive shape (s : cst) (l : lbl) (s' : cst) : Prop :=
| sh_same :
    ch_msgs (cs_c s') = ch_msgs (cs_c s) -> cs_sent s' = cs_sent s -> cs_rcvd s' = cs_rcvd s -> shape s l s'
| sh_deliver : forall v mc,
    ch_msgs (cs_c s') = ch_msgs (cs_c s) ++ [(v, mc)] -> cs_sent s' = cs_sent s ++ [v] -> cs_rcvd s' = cs_rcvd s ->
    ch_receivers (cs_c s) <> 0 ->
    ((exists t cb, l = LSend t v cb /\ sender_must_block (cs_c s) = false) \/
     (exists t rest, l = LSendWoken t v /\ ch_wsend (cs_c s) = t :: rest)) -> shape s l s'
| sh_take : forall v vc rest,
    ch_msgs (cs_c s) = (v, vc) :: rest -> ch_msgs (cs_c s') = rest ->
    cs_sent s' = cs_sent s -> cs_rcvd s' = cs_rcvd s ++ [v] ->
    ((exists t cb, l = LRecv t cb) \/ (exists t, l = LRecvWoken t)) -> shape s l s'.

Definition counts (s s' : cst) : Prop :=
  ch_bound (cs_c s') = ch_bound (cs_c s) /\
  ch_receivers (cs_c s') <= ch_receivers (cs_c s) /\
  (ch_senders (cs_c s) = 0 -> ch_senders (cs_c s') = 0).

Lemma counts_refl : forall s, counts s s.
Proof. intros s; repeat split; auto. Qed.

Lemma step_shape : forall s l s', step s l s' -> counts s s' /\ shape s l s'.
Proof.
  intros [e c sent rcvd] l s' (Hg & Hx).
  destruct l as [t v cb|t v|t cb|t|t|t|t|e']; cbn [guard exec_lbl] in Hg, Hx; csimpl.
  - destruct Hg as ((Hme & _) & _).
    destruct (chan_send_pre e c cb) as [[[e1 c1] r]|] eqn:Hp; [|discriminate].
    pose proof (chan_send_pre_spec _ _ _ _ _ _ _ Hp Hme) as Hs.
    destruct r.
    + destruct Hs as (Hrcv & Hsmb & -> & ->). unfold deliver_then in Hx; csimpl.
      destruct (chan_send_deliver e c v) as [[e2 c2]|] eqn:Hd; [|discriminate]. inversion Hx; subst.
      destruct (chan_send_deliver_spec _ _ _ _ _ _ Hd Hme) as (mc & -> & _).
      split; [repeat split; auto|]. eapply sh_deliver with (mc := mc); csimpl; chsimpl; eauto.
    + destruct Hs as (_ & _ & _ & -> & ->). inversion Hx; subst. split; [apply counts_refl|apply sh_same; reflexivity].
    + destruct Hs as (_ & -> & ->). inversion Hx; subst. split; [apply counts_refl|apply sh_same; reflexivity].
    + destruct Hs as (_ & _ & _ & _ & ->). inversion Hx; subst. split; [repeat split; auto|apply sh_same; reflexivity].
  - destruct Hg as ((Hme & _) & _).
    destruct (chan_send_woken e c) as [[[e1 c1] r]|] eqn:Hp; [|discriminate].
    destruct (chan_send_woken_spec _ _ _ _ _ _ Hp Hme) as (-> & Hs).
    destruct r; try contradiction.
    + destruct Hs as (Hrcv & rest & Hw & ->). unfold deliver_then in Hx; csimpl.
      destruct (chan_send_deliver e (set_wsend c rest) v) as [[e2 c2]|] eqn:Hd; [|discriminate]. inversion Hx; subst.
      destruct (chan_send_deliver_spec _ _ _ _ _ _ Hd Hme) as (mc & -> & _).
      split; [repeat split; auto|]. eapply sh_deliver with (mc := mc); csimpl; chsimpl; eauto.
    + destruct Hs as (_ & ->). inversion Hx; subst. split; [repeat split; auto|apply sh_same; reflexivity].
  - destruct Hg as ((Hme & _) & _).
    destruct (chan_recv_pre e c cb) as [[[e1 c1] r]|] eqn:Hp; [|discriminate].
    pose proof (chan_recv_pre_spec _ _ _ _ _ _ _ Hp Hme) as Hs.
    destruct r as [v0| | |].
    + destruct Hs as (_ & _ & _ & _ & -> & (Hm1 & _)). unfold take_then in Hx; csimpl.
      destruct (chan_recv_take e1 c) as [[[e2 c2] v]|] eqn:Ht; [|discriminate]. inversion Hx; subst.
      rewrite <- Hm1 in Hme.
      destruct (chan_recv_take_spec _ _ _ _ _ _ Ht Hme) as (vc & rest & rc' & Hmsgs & -> & _).
      split; [repeat split; auto|]. eapply sh_take; csimpl; chsimpl; eauto.
    + destruct Hs as (_ & _ & _ & -> & ->). inversion Hx; subst. split; [apply counts_refl|apply sh_same; reflexivity].
    + destruct Hs as (_ & -> & ->). inversion Hx; subst. split; [apply counts_refl|apply sh_same; reflexivity].
    + destruct Hs as (_ & _ & _ & -> & _). inversion Hx; subst. split; [repeat split; auto|apply sh_same; reflexivity].
  - destruct Hg as ((Hme & _) & _).
    destruct (chan_recv_woken e c) as [[[e1 c1] r]|] eqn:Hp; [|discriminate].
    destruct (chan_recv_woken_spec _ _ _ _ _ _ Hp Hme) as (-> & Hs).
    destruct r as [v0| | |]; try contradiction.
    + destruct Hs as (_ & _ & rest & _ & ->). unfold take_then in Hx; csimpl.
      destruct (chan_recv_take e (set_wrecv c rest)) as [[[e2 c2] v]|] eqn:Ht; [|discriminate]. inversion Hx; subst.
      destruct (chan_recv_take_spec _ _ _ _ _ _ Ht Hme) as (vc & rest' & rc' & Hmsgs & -> & _).
      split; [repeat split; auto|]. eapply sh_take; csimpl; chsimpl; eauto.
    + destruct Hs as (_ & ->). inversion Hx; subst. split; [repeat split; auto|apply sh_same; reflexivity].
  - destruct Hg as (_ & _ & Hpos).
    destruct (chan_clone_tx e [OChan c] 0) as [[e1 st1]|] eqn:Hc; [|discriminate].
    destruct (chan_clone_tx_spec _ _ _ _ Hc) as (-> & ->). inversion Hx; subst.
    split; [repeat split; auto; csimpl; lia|apply sh_same; reflexivity].
  - destruct Hg as ((Hme & _) & _).
    destruct (chan_drop_tx e [OChan c] 0) as [[e1 st1]|] eqn:Hc; [|discriminate].
    destruct (chan_drop_tx_spec _ _ _ _ _ Hc Hme) as [(_ & -> & ->)|(_ & n & Hsn & -> & Hcase)]; inversion Hx; subst.
    + split; [apply counts_refl|apply sh_same; reflexivity].
    + split; [repeat split; auto; csimpl; chsimpl; lia|apply sh_same; reflexivity].
  - destruct Hg as ((Hme & _) & _).
    destruct (chan_drop_rx e [OChan c] 0) as [[e1 st1]|] eqn:Hc; [|discriminate].
    destruct (chan_drop_rx_spec _ _ _ _ _ Hc Hme) as [(_ & -> & ->)|(_ & n & Hsn & -> & Hcase)]; inversion Hx; subst.
    + split; [apply counts_refl|apply sh_same; reflexivity].
    + split; [repeat split; auto; csimpl; chsimpl; lia|apply sh_same; reflexivity].
  - inversion Hx; subst. split; [repeat split; auto|apply sh_same; reflexivity].
Qed.

(* ------------------------------------------------------------------ *)
(* item 1: FIFO, exactly once, nothing invented                        *)
(* ------------------------------------------------------------------ *)
Theorem chan_fifo_exactly_once : forall b s, reachable b s ->
  cs_sent s = cs_rcvd s ++ map fst (ch_msgs (cs_c s)) /\
  (exists rest, cs_sent s = cs_rcvd s ++ rest).
Proof.
  intros b s Hr. pose proof (i_fifo _ (i_0 _ (reachable_inv b s Hr))) as H. split; [exact H|eauto].
Qed.

(* order within any class of values, e.g. the values of one sender *)
Corollary chan_fifo_per_class : forall b s (p : N -> bool), reachable b s ->
  exists rest, filter p (cs_sent s) = filter p (cs_rcvd s) ++ rest.
Proof.
  intros b s p Hr. destruct (chan_fifo_exactly_once b s Hr) as (H & _).
  rewrite H, filter_app. eauto.
Qed.

Corollary chan_received_was_sent : forall b s v, reachable b s ->
  In v (cs_rcvd s) -> In v (cs_sent s).
Proof.
  intros b s v Hr Hin. destruct (chan_fifo_exactly_once b s Hr) as (H & _). rewrite H. apply in_or_app; auto.
Qed.

Corollary chan_received_at_most_once : forall b s v, reachable b s ->
  count_occ N.eq_dec (cs_rcvd s) v <= count_occ N.eq_dec (cs_sent s) v.
Proof.
  intros b s v Hr. destruct (chan_fifo_exactly_once b s Hr) as (H & _). rewrite H, count_occ_app. lia.
Qed.

(* the histories only grow, one value at a time, and a receive returns the oldest buffered value *)
Theorem chan_histories_grow : forall s l s', step s l s' ->
  (cs_sent s' = cs_sent s \/ exists v, cs_sent s' = cs_sent s ++ [v]) /\
  (cs_rcvd s' = cs_rcvd s \/ exists v vc rest, cs_rcvd s' = cs_rcvd s ++ [v] /\ ch_msgs (cs_c s) = (v, vc) :: rest).
Proof.
  intros s l s' Hst. destruct (step_shape _ _ _ Hst) as (_ & [H1 H2 H3|v mc H1 H2 H3 _ _|v vc rest H0 H1 H2 H3 _]).
  - rewrite H2, H3; auto.
  - rewrite H2, H3; eauto.
  - rewrite H2, H3; split; [auto|right; eauto].
Qed.

(* ------------------------------------------------------------------ *)
(* item 2: capacity                                                    *)
(* ------------------------------------------------------------------ *)
Theorem chan_capacity : forall b s, reachable (Some b) s ->
  length (ch_msgs (cs_c s)) <= Nat.max b 1.
Proof.
  intros b s Hr. apply (i_cap _ (i_0 _ (reachable_inv _ s Hr))). exact (reachable_bound _ s Hr).
Qed.

(* a delivery happens only when there is room; `room` is: unbounded, or fewer than b messages (b > 0), or -
   rendezvous - an empty buffer and a waiting receiver.  It is decided either by chan_send_pre (SdOk) or by
   the sender having been woken as head of the queue. *)
Theorem deliver_needs_room : forall b s l s', reachable b s -> step s l s' ->
  length (ch_msgs (cs_c s)) < length (ch_msgs (cs_c s')) ->
  room (cs_c s) /\ ch_receivers (cs_c s) <> 0 /\
  ((exists t v cb, l = LSend t v cb /\ ch_wsend (cs_c s) = []) \/
   (exists t v rest, l = LSendWoken t v /\ ch_wsend (cs_c s) = t :: rest /\ sts (cs_e s) t = Some Runnable)).
Proof.
  intros b s l s' Hr Hst Hlen. pose proof (reachable_inv b s Hr) as HI.
  destruct (step_shape _ _ _ Hst) as (_ & [H1 H2 H3|v mc H1 H2 H3 Hrcv Hwho|v vc rest H0 H1 H2 H3 _]).
  - rewrite H1 in Hlen; lia.
  - destruct Hwho as [(t & cb & -> & Hsmb)|(t & rest & -> & Hw)].
    + destruct (smb_false_room _ Hsmb) as (Hws & Hroom). split; [exact Hroom|]. split; [exact Hrcv|]. left; eauto.
    + destruct Hst as (((_ & Hrun) & _) & _). destruct (i_send _ HI) as (_ & Hs1).
      destruct (Hs1 Hrcv t rest Hw) as (_ & Hh). split; [apply Hh; assumption|]. split; [assumption|]. right. exists t, v, rest. auto.
  - rewrite H0, H1 in Hlen. cbn [length] in Hlen. lia.
Qed.

(* rendezvous: a message is in the channel only while it is being handed to the (woken) waiting receiver *)
Theorem rdv_message_only_in_handoff : forall s, reachable (Some 0) s -> ch_msgs (cs_c s) <> [] ->
  exists r mv, ch_wrecv (cs_c s) = [r] /\ sts (cs_e s) r = Some Runnable /\ ch_msgs (cs_c s) = [mv].
Proof.
  intros s Hr Hne. pose proof (reachable_inv _ s Hr) as HI. pose proof (reachable_bound _ s Hr) as Hb.
  destruct (i_rdv _ HI Hb Hne) as (r & Hw). pose proof (chan_capacity 0 s Hr) as Hc. cbn [Nat.max] in Hc.
  destruct (ch_msgs (cs_c s)) as [|mv [|mv2 ms]] eqn:Hm; [congruence| |cbn [length] in Hc; lia].
  exists r, mv. repeat split; auto. apply (i_recv _ HI r); [rewrite Hw; left; reflexivity|]. left; rewrite Hm; discriminate.
Qed.

(* rendezvous: the hand-off is to a receiver that is blocked in recv at that moment *)
Theorem rdv_handoff : forall s l s', reachable (Some 0) s -> step s l s' ->
  length (ch_msgs (cs_c s)) < length (ch_msgs (cs_c s')) ->
  ch_msgs (cs_c s) = [] /\ exists r, ch_wrecv (cs_c s) = [r] /\ sts (cs_e s) r = Some (Blocked false).
Proof.
  intros s l s' Hr Hst Hlen. pose proof (reachable_inv _ s Hr) as HI. pose proof (reachable_bound _ s Hr) as Hb.
  destruct (deliver_needs_room _ s l s' Hr Hst Hlen) as (Hroom & Hrcv & Hwho).
  unfold room in Hroom; rewrite Hb in Hroom. destruct Hroom as (Hm & Hw). split; [assumption|].
  pose proof (i_wrecv1 _ (i_0 _ HI)) as Hl.
  destruct (ch_wrecv (cs_c s)) as [|r [|r2 wr]] eqn:Hwr; [congruence| |cbn [length] in Hl; lia].
  exists r. split; [reflexivity|].
  assert (Hsnd : 0 < ch_senders (cs_c s)).
  { destruct Hwho as [(t & v & cb & -> & _)|(t & v & rest & -> & Hws & _)].
    - destruct Hst as ((_ & _ & Hpos) & _). exact Hpos.
    - apply (i_borrow_s _ (i_0 _ HI)). rewrite Hws; discriminate. }
  destruct (i_states _ (i_0 _ HI) r) as [Hs|Hs]; [apply in_or_app; right; rewrite Hwr; left; reflexivity| |assumption].
  exfalso. apply (i_recv _ HI r) in Hs; [|rewrite Hwr; left; reflexivity]. destruct Hs as [Hs|Hs]; [contradiction|lia].
Qed.

(* ------------------------------------------------------------------ *)
(* item 5: no lost wake-up                                             *)
(* ------------------------------------------------------------------ *)
Theorem chan_blocked_exact : forall b s, reachable b s ->
  let e := cs_e s in let c := cs_c s in
  (* waiting tasks are Runnable (woken) or Blocked, never anything else *)
  (forall t, In t (ch_wsend c ++ ch_wrecv c) -> sts e t = Some Runnable \/ sts e t = Some (Blocked false)) /\
  (* senders, receiver alive: the head is woken exactly when there is room, the others are blocked *)
  (ch_receivers c <> 0 -> forall h rest, ch_wsend c = h :: rest ->
     (sts e h = Some Runnable <-> room c) /\ (forall t, In t rest -> sts e t = Some (Blocked false))) /\
  (* senders, receiver gone: all woken *)
  (ch_receivers c = 0 -> forall t, In t (ch_wsend c) -> sts e t = Some Runnable) /\
  (* the receiver is woken exactly when a message is available or all senders are gone *)
  (forall r, In r (ch_wrecv c) -> ch_wrecv c = [r] /\ (sts e r = Some Runnable <-> ch_msgs c <> [] \/ ch_senders c = 0)).
Proof.
  intros b s Hr e c. pose proof (reachable_inv b s Hr) as HI.
  destruct (i_send _ HI) as (HS0 & HS1). repeat split.
  - exact (i_states _ (i_0 _ HI)).
  - apply (HS1 H h rest H0).
  - apply (HS1 H h rest H0).
  - apply (HS1 H h rest H0).
  - exact HS0.
  - pose proof (i_wrecv1 _ (i_0 _ HI)) as Hl. fold c in Hl. destruct (ch_wrecv c) as [|r0 [|r2 wr]]; [destruct H| |cbn [length] in Hl; lia].
    destruct H as [->|[]]; reflexivity.
  - apply (i_recv _ HI r H).
  - apply (i_recv _ HI r H).
Qed.

(* in particular: whenever a waiting task could proceed it is Runnable - the engine will schedule it *)
Corollary no_lost_wakeup_sender : forall b s h rest, reachable b s ->
  ch_wsend (cs_c s) = h :: rest -> (room (cs_c s) \/ ch_receivers (cs_c s) = 0) -> sts (cs_e s) h = Some Runnable.
Proof.
  intros b s h rest Hr Hw Hcan. destruct (chan_blocked_exact b s Hr) as (_ & H1 & H0 & _).
  destruct (Nat.eq_dec (ch_receivers (cs_c s)) 0) as [Hz|Hnz].
  - apply (H0 Hz). rewrite Hw; left; reflexivity.
  - destruct Hcan as [Hroom|Hz]; [|contradiction]. apply (H1 Hnz h rest Hw). assumption.
Qed.

Corollary no_lost_wakeup_receiver : forall b s r, reachable b s ->
  In r (ch_wrecv (cs_c s)) -> (ch_msgs (cs_c s) <> [] \/ ch_senders (cs_c s) = 0) -> sts (cs_e s) r = Some Runnable.
Proof.
  intros b s r Hr Hin Hcan. destruct (chan_blocked_exact b s Hr) as (_ & _ & _ & H). apply (H r Hin). assumption.
Qed.

(* ------------------------------------------------------------------ *)
(* item 4: disconnection                                               *)
(* ------------------------------------------------------------------ *)
Lemma reachable_step : forall b s l s', reachable b s -> step s l s' -> reachable b s'.
Proof. intros; eapply reach_step; eassumption. Qed.

(* once 0, the handle counts stay 0 *)
Theorem disconnected_stable : forall s l s', step s l s' ->
  (ch_receivers (cs_c s) = 0 -> ch_receivers (cs_c s') = 0) /\ (ch_senders (cs_c s) = 0 -> ch_senders (cs_c s') = 0).
Proof.
  intros s l s' Hst. destruct (step_shape _ _ _ Hst) as ((_ & Hr & Hs) & _). split; [lia|assumption].
Qed.

(* the receiver is gone: every waiting sender has been woken, the queue only shrinks, and every send segment
   answers Disconnected without delivering *)
Theorem disconnect_rx : forall b s, reachable b s -> ch_receivers (cs_c s) = 0 ->
  (forall t, In t (ch_wsend (cs_c s)) -> sts (cs_e s) t = Some Runnable) /\
  ch_wrecv (cs_c s) = [] /\
  (forall t v cb s', step s (LSend t v cb) s' -> s' = s /\
      exists r, chan_send_pre (cs_e s) (cs_c s) cb = Some (cs_e s, cs_c s, r) /\ r = SdDisconnected) /\
  (forall t v s', step s (LSendWoken t v) s' ->
      chan_send_woken (cs_e s) (cs_c s) = Some (cs_e s, set_wsend (cs_c s) (remove_t t (ch_wsend (cs_c s))), SdDisconnected) /\
      s' = mkCst (cs_e s) (set_wsend (cs_c s) (remove_t t (ch_wsend (cs_c s)))) (cs_sent s) (cs_rcvd s)).
Proof.
  intros b s Hr Hz. pose proof (reachable_inv b s Hr) as HI. repeat split.
  - exact (proj1 (i_send _ HI) Hz).
  - destruct (ch_wrecv (cs_c s)) eqn:Hw; [reflexivity|]. assert (0 < ch_receivers (cs_c s)) by (apply (i_borrow_r _ (i_0 _ HI)); rewrite Hw; discriminate). lia.
  - destruct H as (((Hme & _) & _) & Hx). destruct s as [e c sent rcvd]; cbn [exec_lbl] in Hx; csimpl.
    destruct (chan_send_pre e c cb) as [[[e1 c1] r]|] eqn:Hp; [|discriminate].
    destruct (send_pre_disconnected _ _ _ _ _ _ _ Hme Hz Hp) as (-> & -> & ->). inversion Hx; reflexivity.
  - destruct H as (((Hme & _) & _) & Hx). destruct s as [e c sent rcvd]; cbn [exec_lbl] in Hx; csimpl.
    destruct (chan_send_pre e c cb) as [[[e1 c1] r]|] eqn:Hp; [|discriminate].
    destruct (send_pre_disconnected _ _ _ _ _ _ _ Hme Hz Hp) as (-> & -> & ->). eauto.
  - destruct H as (((Hme & _) & _) & Hx). destruct s as [e c sent rcvd]; cbn [exec_lbl] in Hx; csimpl.
    destruct (chan_send_woken e c) as [[[e1 c1] r]|] eqn:Hp; [|discriminate].
    destruct (send_woken_disconnected _ _ _ _ _ _ Hme Hz Hp) as (-> & -> & ->). reflexivity.
  - destruct H as (((Hme & _) & _) & Hx). destruct s as [e c sent rcvd]; cbn [exec_lbl] in Hx; csimpl.
    destruct (chan_send_woken e c) as [[[e1 c1] r]|] eqn:Hp; [|discriminate].
    destruct (send_woken_disconnected _ _ _ _ _ _ Hme Hz Hp) as (-> & -> & ->). inversion Hx; reflexivity.
Qed.

(* the step that drops the Receiver wakes every waiting sender *)
Theorem drop_rx_wakes_senders : forall b s t s', reachable b s -> step s (LDropRx t) s' ->
  ch_receivers (cs_c s') = 0 -> forall x, In x (ch_wsend (cs_c s')) -> sts (cs_e s') x = Some Runnable.
Proof.
  intros b s t s' Hr Hst Hz. exact (proj1 (disconnect_rx b s' (reachable_step _ _ _ _ Hr Hst) Hz)).
Qed.

(* all senders are gone: the waiting receiver has been woken; recv keeps delivering the buffered messages
   in order and answers Disconnected exactly when the buffer is empty *)
Theorem disconnect_tx : forall b s, reachable b s -> ch_senders (cs_c s) = 0 ->
  (forall r, In r (ch_wrecv (cs_c s)) -> sts (cs_e s) r = Some Runnable) /\
  ch_wsend (cs_c s) = [] /\
  (forall t cb s', step s (LRecv t cb) s' ->
      match ch_msgs (cs_c s) with
      | [] => s' = s /\ chan_recv_pre (cs_e s) (cs_c s) cb = Some (cs_e s, cs_c s, RvDisconnected)
      | (v, _) :: rest => cs_rcvd s' = cs_rcvd s ++ [v] /\ ch_msgs (cs_c s') = rest
      end) /\
  (forall t s', step s (LRecvWoken t) s' ->
      match ch_msgs (cs_c s) with
      | [] => s' = mkCst (cs_e s) (set_wrecv (cs_c s) []) (cs_sent s) (cs_rcvd s) /\
              exists c1, chan_recv_woken (cs_e s) (cs_c s) = Some (cs_e s, c1, RvDisconnected)
      | (v, _) :: rest => cs_rcvd s' = cs_rcvd s ++ [v] /\ ch_msgs (cs_c s') = rest
      end).
Proof.
  intros b s Hr Hz. pose proof (reachable_inv b s Hr) as HI. repeat split.
  - intros r Hin. apply (i_recv _ HI r Hin). right; assumption.
  - destruct (ch_wsend (cs_c s)) eqn:Hw; [reflexivity|]. assert (0 < ch_senders (cs_c s)) by (apply (i_borrow_s _ (i_0 _ HI)); rewrite Hw; discriminate). lia.
  - intros t cb s' Hst. pose proof (step_shape _ _ _ Hst) as (_ & Hsh).
    destruct Hst as (((Hme & _) & _ & _ & Hwr) & Hx). destruct s as [e c sent rcvd]; cbn [exec_lbl] in Hx; csimpl.
    destruct (chan_recv_pre e c cb) as [[[e1 c1] r]|] eqn:Hp; [|discriminate].
    pose proof (chan_recv_pre_spec _ _ _ _ _ _ _ Hp Hme) as Hs. unfold rv_disc in Hs.
    destruct (ch_msgs c) as [|[v vc] rest] eqn:Hm.
    + destruct r as [v0| | |]; try (exfalso; destruct Hs as (Hs1 & Hs2); first [apply Hs1|apply (proj1 Hs2)]; split; auto; fail).
      destruct Hs as (_ & -> & ->). inversion Hx; subst. auto.
    + destruct r as [v0| | |].
      * destruct Hs as (_ & _ & _ & _ & -> & (Hm1 & _)). unfold take_then in Hx; csimpl.
        destruct (chan_recv_take e1 c) as [[[e2 c2] v2]|] eqn:Ht; [|discriminate]. inversion Hx; subst; csimpl.
        rewrite <- Hm1 in Hme.
        destruct (chan_recv_take_spec _ _ _ _ _ _ Ht Hme) as (vc2 & rest2 & rc' & Hmsgs & -> & _).
        rewrite Hm in Hmsgs; inversion Hmsgs; subst. auto.
      * destruct Hs as (_ & _ & Hemp & _). exfalso. destruct Hemp as [(_ & Hc & _)|(_ & Hc)]; [congruence|].
        rewrite Hm, Hwr in Hc; cbn [length] in Hc; lia.
      * destruct Hs as ((Hc & _) & _). discriminate Hc.
      * destruct Hs as (_ & _ & Hrmb & _). apply receiver_must_block_iff in Hrmb. rewrite Hm, Hwr in Hrmb.
        destruct Hrmb as [Hc|Hc]; [discriminate Hc|congruence].
  - intros t s' Hst. pose proof (step_shape _ _ _ Hst) as (_ & Hsh).
    destruct Hst as (((Hme & _) & Hin) & Hx). destruct s as [e c sent rcvd]; cbn [exec_lbl] in Hx; csimpl.
    destruct (chan_recv_woken e c) as [[[e1 c1] r]|] eqn:Hp; [|discriminate].
    destruct (chan_recv_woken_spec _ _ _ _ _ _ Hp Hme) as (-> & Hs). unfold rv_disc in Hs.
    destruct (ch_msgs c) as [|[v vc] rest] eqn:Hm.
    + destruct r as [v0| | |]; try contradiction.
      * exfalso. destruct Hs as (_ & Hnd & _). apply Hnd; split; auto.
      * destruct Hs as (_ & ->). inversion Hx; subst.
        assert (Hrem : remove_t t (ch_wrecv c) = []).
        { pose proof (i_wrecv1 _ (i_0 _ HI)) as Hl; csimpl. destruct (ch_wrecv c) as [|r0 [|r2 wr]]; [reflexivity| |cbn [length] in Hl; lia].
          destruct Hin as [->|[]]. unfold remove_t; cbn [filter]. rewrite Nat.eqb_refl. reflexivity. }
        rewrite Hrem. split; [reflexivity|eauto].
    + destruct r as [v0| | |]; try contradiction.
      * destruct Hs as (_ & _ & rest0 & _ & ->). unfold take_then in Hx; csimpl.
        destruct (chan_recv_take e (set_wrecv c rest0)) as [[[e2 c2] v2]|] eqn:Ht; [|discriminate]. inversion Hx; subst; csimpl.
        destruct (chan_recv_take_spec _ _ _ _ _ _ Ht Hme) as (vc2 & rest2 & rc' & Hmsgs & -> & _). chsimpl.
        rewrite Hm in Hmsgs; inversion Hmsgs; subst. auto.
      * destruct Hs as ((Hc & _) & _). discriminate Hc.
Qed.

(* the step that drops the last Sender wakes the waiting receiver *)
Theorem drop_tx_wakes_receiver : forall b s t s', reachable b s -> step s (LDropTx t) s' ->
  ch_senders (cs_c s') = 0 -> forall r, In r (ch_wrecv (cs_c s')) -> sts (cs_e s') r = Some Runnable.
Proof.
  intros b s t s' Hr Hst Hz. exact (proj1 (disconnect_tx b s' (reachable_step _ _ _ _ Hr Hst) Hz)).
Qed.
