(* ------------------------------------------------------------------------- *)
(*  SV.Proofs.VClockProofs : proofs about the model SV.Clock.VClock.          *)
(*  No Admitted / admit / Axiom / Parameter.                                  *)
(* ------------------------------------------------------------------------- *)

From Coq Require Import List NArith Bool Lia PeanoNat.
Import ListNotations.
From SV Require Import Clock.VClock.
Local Open Scope N_scope.

Arguments N.add : simpl never.
Arguments N.sub : simpl never.
Arguments N.eqb : simpl never.
Arguments N.ltb : simpl never.
Arguments N.leb : simpl never.
Arguments N.max : simpl never.
Arguments N.modulo : simpl never.

(* ========================================================================= *)
(*  Specification-level vocabulary                                           *)
(* ========================================================================= *)

(* "a is pointwise below b, and not longer": the meaning of a <= b. *)
Definition ple (a b : vclock) : Prop :=
  (length a <= length b)%nat /\
  forall i, (i < length a)%nat -> nth i a 0 <= nth i b 0.

(* "there is evidence that a is strictly below b somewhere": a is shorter,
   or some common coordinate of a is strictly smaller. *)
Definition ev_lt (a b : vclock) : Prop :=
  (length a < length b)%nat \/
  exists i, (i < length a)%nat /\ (i < length b)%nat /\ nth i a 0 < nth i b 0.

(* ========================================================================= *)
(*  set_nth                                                                  *)
(* ========================================================================= *)

Lemma set_nth_length : forall l i v, length (set_nth l i v) = length l.
Proof.
  induction l as [|h t IH]; intros [|i] v; cbn [set_nth length]; auto.
Qed.

Lemma nth_set_nth_eq : forall l i v d,
  (i < length l)%nat -> nth i (set_nth l i v) d = v.
Proof.
  induction l as [|h t IH]; intros [|i] v d Hi; cbn [set_nth length nth] in *;
    try lia; auto.
  apply IH. lia.
Qed.

Lemma nth_set_nth_neq : forall l i j v d,
  j <> i -> nth j (set_nth l i v) d = nth j l d.
Proof.
  induction l as [|h t IH]; intros [|i] [|j] v d Hne; cbn [set_nth nth];
    try reflexivity; try congruence.
  apply IH. congruence.
Qed.

Lemma Forall_set_nth : forall (P : N -> Prop) l i v,
  Forall P l -> P v -> Forall P (set_nth l i v).
Proof.
  intros P l. induction l as [|h t IH]; intros [|i] v Hl Hv; cbn [set_nth];
    try assumption.
  - inversion Hl; subst. constructor; assumption.
  - inversion Hl; subst. constructor; [assumption | apply IH; assumption].
Qed.

(* ========================================================================= *)
(*  partial_cmp : the two "flags" carried by an Option<Ordering>             *)
(*                                                                           *)
(*  Some Less = {L}, Some Equal = {}, Some Greater = {G}, None = {L,G}.      *)
(*  unify is union of flag sets, and the early exit on None is harmless      *)
(*  because {L,G} is absorbing.                                              *)
(* ========================================================================= *)

Definition hasL (o : option ord) : bool :=
  match o with Some Less | None => true | _ => false end.
Definition hasG (o : option ord) : bool :=
  match o with Some Greater | None => true | _ => false end.

Lemma flags_inj : forall o1 o2,
  hasL o1 = hasL o2 -> hasG o1 = hasG o2 -> o1 = o2.
Proof.
  intros [[]|] [[]|]; cbn; intros HL HG; congruence.
Qed.

Lemma hasL_flip : forall o, hasL (flip o) = hasG o.
Proof. intros [[]|]; reflexivity. Qed.

Lemma hasG_flip : forall o, hasG (flip o) = hasL o.
Proof. intros [[]|]; reflexivity. Qed.

Lemma loop_hasL : forall a b is o,
  hasL (partial_cmp_loop a b is o) =
  hasL (Some o) || existsb (fun i => nth i a 0 <? nth i b 0) is.
Proof.
  intros a b is. induction is as [|i is IH]; intros o.
  - cbn [partial_cmp_loop existsb]. rewrite orb_false_r. reflexivity.
  - cbn [partial_cmp_loop existsb]. unfold cmp_N.
    destruct (N.ltb_spec (nth i a 0) (nth i b 0)) as [Hlt|Hge];
      destruct (N.compare_spec (nth i a 0) (nth i b 0)) as [Heq|Hlt'|Hgt];
      try lia; destruct o; cbn [unify hasL orb];
      try rewrite IH; cbn [hasL orb]; reflexivity.
Qed.

Lemma loop_hasG : forall a b is o,
  hasG (partial_cmp_loop a b is o) =
  hasG (Some o) || existsb (fun i => nth i b 0 <? nth i a 0) is.
Proof.
  intros a b is. induction is as [|i is IH]; intros o.
  - cbn [partial_cmp_loop existsb]. rewrite orb_false_r. reflexivity.
  - cbn [partial_cmp_loop existsb]. unfold cmp_N.
    destruct (N.ltb_spec (nth i b 0) (nth i a 0)) as [Hlt|Hge];
      destruct (N.compare_spec (nth i a 0) (nth i b 0)) as [Heq|Hlt'|Hgt];
      try lia; destruct o; cbn [unify hasG orb];
      try rewrite IH; cbn [hasG orb]; reflexivity.
Qed.

Lemma hasL_cmp_nat : forall n m, hasL (Some (cmp_nat n m)) = true <-> (n < m)%nat.
Proof.
  intros n m. unfold cmp_nat.
  destruct (Nat.compare_spec n m) as [H|H|H]; cbn [hasL]; split; intros H';
    try reflexivity; try discriminate; lia.
Qed.

Lemma hasG_cmp_nat : forall n m, hasG (Some (cmp_nat n m)) = true <-> (m < n)%nat.
Proof.
  intros n m. unfold cmp_nat.
  destruct (Nat.compare_spec n m) as [H|H|H]; cbn [hasG]; split; intros H';
    try reflexivity; try discriminate; lia.
Qed.

Lemma hasL_partial_cmp : forall a b, hasL (partial_cmp a b) = true <-> ev_lt a b.
Proof.
  intros a b. unfold partial_cmp, ev_lt. rewrite loop_hasL, orb_true_iff.
  rewrite hasL_cmp_nat, existsb_exists. split.
  - intros [Hl | (i & Hin & Hlt)]; [left; assumption | right].
    apply in_seq in Hin. apply N.ltb_lt in Hlt.
    exists i. repeat split; try lia.
  - intros [Hl | (i & Hi1 & Hi2 & Hlt)]; [left; assumption | right].
    exists i. split; [apply in_seq; lia | apply N.ltb_lt; assumption].
Qed.

Lemma hasG_partial_cmp : forall a b, hasG (partial_cmp a b) = true <-> ev_lt b a.
Proof.
  intros a b. unfold partial_cmp, ev_lt. rewrite loop_hasG, orb_true_iff.
  rewrite hasG_cmp_nat, existsb_exists. split.
  - intros [Hl | (i & Hin & Hlt)]; [left; assumption | right].
    apply in_seq in Hin. apply N.ltb_lt in Hlt.
    exists i. repeat split; try lia.
  - intros [Hl | (i & Hi1 & Hi2 & Hlt)]; [left; assumption | right].
    exists i. split; [apply in_seq; lia | apply N.ltb_lt; assumption].
Qed.

(* ---- the four outcomes, in terms of evidence ---------------------------- *)

Lemma bool_true_or_not : forall b : bool, b = true \/ ~ b = true.
Proof. intros []; [left; reflexivity | right; discriminate]. Qed.

Theorem partial_cmp_Less_ev : forall a b,
  partial_cmp a b = Some Less <-> ev_lt a b /\ ~ ev_lt b a.
Proof.
  intros a b. rewrite <- hasL_partial_cmp, <- hasG_partial_cmp.
  destruct (partial_cmp a b) as [[]|]; cbn [hasL hasG]; split;
    try (intros H; discriminate H);
    try (intros [H1 H2]; try discriminate H1; exfalso; apply H2; reflexivity).
  - intros _. split; [reflexivity | discriminate].
  - intros _. reflexivity.
Qed.

Theorem partial_cmp_Greater_ev : forall a b,
  partial_cmp a b = Some Greater <-> ~ ev_lt a b /\ ev_lt b a.
Proof.
  intros a b. rewrite <- hasL_partial_cmp, <- hasG_partial_cmp.
  destruct (partial_cmp a b) as [[]|]; cbn [hasL hasG]; split;
    try (intros H; discriminate H);
    try (intros [H1 H2]; try discriminate H2; exfalso; apply H1; reflexivity).
  - intros _. split; [discriminate | reflexivity].
  - intros _. reflexivity.
Qed.

Theorem partial_cmp_Equal_ev : forall a b,
  partial_cmp a b = Some Equal <-> ~ ev_lt a b /\ ~ ev_lt b a.
Proof.
  intros a b. rewrite <- hasL_partial_cmp, <- hasG_partial_cmp.
  destruct (partial_cmp a b) as [[]|]; cbn [hasL hasG]; split;
    try (intros H; discriminate H);
    try (intros [H1 H2]; exfalso; (apply H1; reflexivity) || (apply H2; reflexivity)).
  - intros _. split; discriminate.
  - intros _. reflexivity.
Qed.

Theorem partial_cmp_None_ev : forall a b,
  partial_cmp a b = None <-> ev_lt a b /\ ev_lt b a.
Proof.
  intros a b. rewrite <- hasL_partial_cmp, <- hasG_partial_cmp.
  destruct (partial_cmp a b) as [[]|]; cbn [hasL hasG]; split;
    try (intros H; discriminate H);
    try (intros [H1 H2]; discriminate H1 || discriminate H2).
  - intros _. split; reflexivity.
  - intros _. reflexivity.
Qed.

(* ---- evidence versus the pointwise order -------------------------------- *)

Lemma not_ev_lt_ple : forall a b, ~ ev_lt b a <-> ple a b.
Proof.
  intros a b. unfold ev_lt, ple. split.
  - intros Hn. split.
    + destruct (Nat.le_gt_cases (length a) (length b)) as [H|H]; [assumption|].
      exfalso. apply Hn. left. lia.
    + intros i Hi.
      destruct (Nat.le_gt_cases (length a) (length b)) as [Hl|Hl];
        [| exfalso; apply Hn; left; lia].
      destruct (N.le_gt_cases (nth i a 0) (nth i b 0)) as [H|H]; [assumption|].
      exfalso. apply Hn. right. exists i. repeat split; try lia.
  - intros [Hl Hp] [H | (i & Hi1 & Hi2 & Hlt)]; [lia|].
    specialize (Hp i Hi2). lia.
Qed.

Lemma ev_lt_not_ple : forall a b, ev_lt b a <-> ~ ple a b.
Proof.
  intros a b. rewrite <- not_ev_lt_ple, <- hasL_partial_cmp.
  destruct (hasL (partial_cmp b a)); split; intros H; try reflexivity;
    try discriminate.
  - intros Hn. apply Hn. reflexivity.
  - exfalso. apply H. discriminate.
Qed.

Lemma ple_antisym : forall a b, ple a b -> ple b a -> a = b.
Proof.
  intros a b [Hl1 Hp1] [Hl2 Hp2].
  apply nth_ext with (d := 0) (d' := 0); [lia|].
  intros i Hi. specialize (Hp1 i Hi). specialize (Hp2 i ltac:(lia)). lia.
Qed.

Lemma ple_refl : forall a, ple a a.
Proof. intros a. split; [lia | intros i _; lia]. Qed.

Lemma ple_trans : forall a b c, ple a b -> ple b c -> ple a c.
Proof.
  intros a b c [Hl1 Hp1] [Hl2 Hp2]. split; [lia|].
  intros i Hi. specialize (Hp1 i Hi). specialize (Hp2 i ltac:(lia)). lia.
Qed.

(* ple extends to every index (missing entries read as 0). *)
Lemma ple_all_indices : forall a b, ple a b -> forall i, nth i a 0 <= nth i b 0.
Proof.
  intros a b [Hl Hp] i.
  destruct (Nat.lt_ge_cases i (length a)) as [Hi|Hi]; [apply Hp; assumption|].
  rewrite (nth_overflow a) by assumption. lia.
Qed.

(* ========================================================================= *)
(*  vle / vlt / concurrent                                                   *)
(* ========================================================================= *)

Lemma vle_negb_hasG : forall a b, vle a b = negb (hasG (partial_cmp a b)).
Proof. intros a b. unfold vle. destruct (partial_cmp a b) as [[]|]; reflexivity. Qed.

Theorem vle_spec : forall a b,
  vle a b = true <->
  ((length a <= length b)%nat /\
   forall i, (i < length a)%nat -> nth i a 0 <= nth i b 0).
Proof.
  intros a b. change (vle a b = true <-> ple a b).
  rewrite <- not_ev_lt_ple, <- hasG_partial_cmp, vle_negb_hasG.
  destruct (hasG (partial_cmp a b)); cbn [negb]; split; intros H;
    try reflexivity; try discriminate.
  exfalso. apply H. reflexivity.
Qed.

Lemma vle_ple : forall a b, vle a b = true <-> ple a b.
Proof. exact vle_spec. Qed.

Theorem partial_cmp_Equal_iff : forall a b, partial_cmp a b = Some Equal <-> a = b.
Proof.
  intros a b. rewrite partial_cmp_Equal_ev, !not_ev_lt_ple. split.
  - intros [H1 H2]. apply ple_antisym; assumption.
  - intros ->. split; apply ple_refl.
Qed.

Theorem partial_cmp_Less_iff : forall a b,
  partial_cmp a b = Some Less <-> ple a b /\ a <> b.
Proof.
  intros a b. rewrite partial_cmp_Less_ev, not_ev_lt_ple, ev_lt_not_ple. split.
  - intros [Hn Hp]. split; [assumption|]. intros ->. apply Hn, ple_refl.
  - intros [Hp Hne]. split; [|assumption]. intros Hq. apply Hne.
    apply ple_antisym; assumption.
Qed.

Theorem partial_cmp_Greater_iff : forall a b,
  partial_cmp a b = Some Greater <-> ple b a /\ a <> b.
Proof.
  intros a b. rewrite partial_cmp_Greater_ev.
  rewrite not_ev_lt_ple, (ev_lt_not_ple a b). split.
  - intros [Hp Hn]. split; [assumption|]. intros ->. apply Hn, ple_refl.
  - intros [Hp Hne]. split; [assumption|]. intros Hq. apply Hne.
    apply ple_antisym; assumption.
Qed.

Theorem partial_cmp_None_iff : forall a b,
  partial_cmp a b = None <-> ~ ple a b /\ ~ ple b a.
Proof.
  intros a b. rewrite partial_cmp_None_ev, !ev_lt_not_ple. tauto.
Qed.

Theorem partial_cmp_Less_witness : forall a b,
  partial_cmp a b = Some Less <->
  ple a b /\
  ((length a < length b)%nat \/
   exists i, (i < length a)%nat /\ nth i a 0 < nth i b 0).
Proof.
  intros a b. rewrite partial_cmp_Less_ev, not_ev_lt_ple. unfold ev_lt. split.
  - intros [[Hl | (i & Hi1 & Hi2 & Hlt)] Hp]; split; try assumption.
    + left; assumption.
    + right. exists i. split; assumption.
  - intros [Hp [Hl | (i & Hi & Hlt)]]; split; try assumption.
    + left; assumption.
    + right. exists i. destruct Hp as [Hlen _]. repeat split; try lia.
Qed.

Theorem partial_cmp_antisym : forall a b, partial_cmp b a = flip (partial_cmp a b).
Proof.
  intros a b. apply flags_inj.
  - rewrite hasL_flip. apply eq_iff_eq_true.
    rewrite hasL_partial_cmp, hasG_partial_cmp. tauto.
  - rewrite hasG_flip. apply eq_iff_eq_true.
    rewrite hasL_partial_cmp, hasG_partial_cmp. tauto.
Qed.

Theorem vlt_spec : forall a b, vlt a b = true <-> ple a b /\ a <> b.
Proof.
  intros a b. rewrite <- partial_cmp_Less_iff. unfold vlt.
  destruct (partial_cmp a b) as [[]|]; split; intros H; try reflexivity;
    try discriminate.
Qed.

Theorem vlt_vle_ne : forall a b, vlt a b = true <-> vle a b = true /\ a <> b.
Proof. intros a b. rewrite vlt_spec, vle_ple. tauto. Qed.

Theorem concurrent_spec : forall a b,
  concurrent a b = true <-> vle a b = false /\ vle b a = false.
Proof.
  intros a b. unfold concurrent, vle. rewrite (partial_cmp_antisym a b).
  destruct (partial_cmp a b) as [[]|]; cbn [flip]; split; intros H;
    try reflexivity; try discriminate; try (destruct H; discriminate).
  split; reflexivity.
Qed.

Theorem concurrent_sym : forall a b, concurrent a b = concurrent b a.
Proof.
  intros a b. unfold concurrent. rewrite (partial_cmp_antisym a b).
  destruct (partial_cmp a b) as [[]|]; reflexivity.
Qed.

Theorem vge_vle : forall a b, vge a b = vle b a.
Proof.
  intros a b. unfold vge, vle. rewrite (partial_cmp_antisym a b).
  destruct (partial_cmp a b) as [[]|]; reflexivity.
Qed.

Theorem vgt_vlt : forall a b, vgt a b = vlt b a.
Proof.
  intros a b. unfold vgt, vlt. rewrite (partial_cmp_antisym a b).
  destruct (partial_cmp a b) as [[]|]; reflexivity.
Qed.

(* ---- partial order ------------------------------------------------------- *)

Theorem vle_refl : forall a, vle a a = true.
Proof. intros a. apply vle_ple, ple_refl. Qed.

Theorem vle_trans : forall a b c, vle a b = true -> vle b c = true -> vle a c = true.
Proof. intros a b c. rewrite !vle_ple. apply ple_trans. Qed.

Theorem vle_antisym : forall a b, vle a b = true -> vle b a = true -> a = b.
Proof. intros a b. rewrite !vle_ple. apply ple_antisym. Qed.

Theorem vlt_irrefl : forall a, vlt a a = false.
Proof.
  intros a. destruct (vlt a a) eqn:E; [|reflexivity].
  apply vlt_spec in E. destruct E as [_ E]. congruence.
Qed.

Theorem vlt_trans : forall a b c, vlt a b = true -> vlt b c = true -> vlt a c = true.
Proof.
  intros a b c. rewrite !vlt_spec. intros [H1 N1] [H2 N2]. split.
  - eapply ple_trans; eassumption.
  - intros ->. apply N1. apply ple_antisym; assumption.
Qed.

(* vle is sound for the "semantic" order in which a clock is the function
   task -> time with missing entries read as 0. *)
Theorem vle_sound_sem : forall a b,
  vle a b = true -> forall i, nth i a 0 <= nth i b 0.
Proof. intros a b H. apply ple_all_indices, vle_ple, H. Qed.

(* ========================================================================= *)
(*  update                                                                   *)
(* ========================================================================= *)

Lemma update_loop1_snoc : forall b is i a,
  update_loop1 b (is ++ [i]) a =
  set_nth (update_loop1 b is a) i
          (N.max (nth i (update_loop1 b is a) 0) (nth i b 0)).
Proof.
  intros b is i a. unfold update_loop1. rewrite fold_left_app. reflexivity.
Qed.

Lemma update_loop1_spec : forall b a m,
  (m <= length a)%nat ->
  length (update_loop1 b (seq 0 m) a) = length a /\
  forall j, nth j (update_loop1 b (seq 0 m) a) 0 =
            if (j <? m)%nat then N.max (nth j a 0) (nth j b 0) else nth j a 0.
Proof.
  intros b a m. induction m as [|m IH]; intros Hm.
  - cbn. split; [reflexivity|]. intros j. reflexivity.
  - destruct (IH ltac:(lia)) as [IHlen IHnth].
    rewrite seq_S, update_loop1_snoc. cbn [Nat.add].
    split.
    + rewrite set_nth_length. exact IHlen.
    + intros j. destruct (Nat.eq_dec j m) as [->|Hne].
      * rewrite nth_set_nth_eq by lia.
        rewrite IHnth.
        replace (m <? m)%nat with false by (symmetry; apply Nat.ltb_ge; lia).
        replace (m <? S m)%nat with true by (symmetry; apply Nat.ltb_lt; lia).
        reflexivity.
      * rewrite nth_set_nth_neq by assumption. rewrite IHnth.
        destruct (Nat.ltb_spec j m) as [H1|H1];
          destruct (Nat.ltb_spec j (S m)) as [H2|H2]; try lia; reflexivity.
Qed.

Lemma update_loop2_spec : forall b is a,
  update_loop2 b is a = a ++ map (fun i => nth i b 0) is.
Proof.
  intros b is. unfold update_loop2.
  induction is as [|i is IH]; intros a; cbn [fold_left map].
  - rewrite app_nil_r. reflexivity.
  - rewrite IH, <- app_assoc. reflexivity.
Qed.

Lemma nth_map_seq : forall (f : nat -> N) s len k d,
  (k < len)%nat -> nth k (map f (seq s len)) d = f (s + k)%nat.
Proof.
  intros f s len k d Hk.
  rewrite nth_indep with (d' := f 0%nat) by (rewrite map_length, seq_length; lia).
  rewrite map_nth, seq_nth by assumption. reflexivity.
Qed.

Theorem update_length : forall a b,
  length (update a b) = Nat.max (length a) (length b).
Proof.
  intros a b. unfold update. rewrite update_loop2_spec.
  rewrite app_length, map_length, seq_length.
  destruct (update_loop1_spec b a (Nat.min (length a) (length b)) ltac:(lia))
    as [Hlen _].
  rewrite Hlen. lia.
Qed.

Theorem update_nth : forall a b j,
  nth j (update a b) 0 = N.max (nth j a 0) (nth j b 0).
Proof.
  intros a b j. unfold update. rewrite update_loop2_spec.
  destruct (update_loop1_spec b a (Nat.min (length a) (length b)) ltac:(lia))
    as [Hlen Hnth].
  destruct (Nat.lt_ge_cases j (length a)) as [Hj|Hj].
  - rewrite app_nth1 by lia. rewrite Hnth.
    destruct (Nat.ltb_spec j (Nat.min (length a) (length b))) as [H|H];
      [reflexivity|].
    rewrite (nth_overflow b) by lia. lia.
  - rewrite app_nth2 by lia. rewrite Hlen.
    rewrite (nth_overflow a) by lia.
    destruct (Nat.lt_ge_cases j (length b)) as [Hjb|Hjb].
    + rewrite nth_map_seq by lia.
      replace (length a + (j - length a))%nat with j by lia. lia.
    + rewrite (nth_overflow b) by lia.
      rewrite nth_overflow by (rewrite map_length, seq_length; lia). lia.
Qed.

(* The structural presentation of the same function (handy for extraction
   cross-checks): zip with max, keep the longer tail. *)
Fixpoint update_rec (a b : vclock) : vclock :=
  match a, b with
  | [], _ => b
  | _, [] => a
  | x :: a', y :: b' => N.max x y :: update_rec a' b'
  end.

Lemma update_rec_length : forall a b,
  length (update_rec a b) = Nat.max (length a) (length b).
Proof.
  induction a as [|x a IH]; intros [|y b]; cbn [update_rec length]; try lia.
  rewrite IH. lia.
Qed.

Lemma update_rec_nth : forall a b j,
  nth j (update_rec a b) 0 = N.max (nth j a 0) (nth j b 0).
Proof.
  induction a as [|x a IH]; intros [|y b] j; cbn [update_rec].
  - destruct j; cbn [nth]; lia.
  - destruct j; cbn [nth]; lia.
  - destruct j; cbn [nth]; lia.
  - destruct j; cbn [nth]; [reflexivity | apply IH].
Qed.

Theorem update_eq_rec : forall a b, update a b = update_rec a b.
Proof.
  intros a b. apply nth_ext with (d := 0) (d' := 0).
  - rewrite update_length, update_rec_length. reflexivity.
  - intros j _. rewrite update_nth, update_rec_nth. reflexivity.
Qed.

Theorem update_ub_l : forall a b, vle a (update a b) = true.
Proof.
  intros a b. apply vle_ple. split.
  - rewrite update_length. lia.
  - intros i _. rewrite update_nth. lia.
Qed.

Theorem update_ub_r : forall a b, vle b (update a b) = true.
Proof.
  intros a b. apply vle_ple. split.
  - rewrite update_length. lia.
  - intros i _. rewrite update_nth. lia.
Qed.

Theorem update_least : forall a b c,
  vle a c = true -> vle b c = true -> vle (update a b) c = true.
Proof.
  intros a b c. rewrite !vle_ple. intros Ha Hb.
  pose proof (ple_all_indices _ _ Ha) as Ha'.
  pose proof (ple_all_indices _ _ Hb) as Hb'.
  destruct Ha as [Hla _]. destruct Hb as [Hlb _]. split.
  - rewrite update_length. lia.
  - intros i _. rewrite update_nth. specialize (Ha' i). specialize (Hb' i). lia.
Qed.

Theorem update_idem : forall a, update a a = a.
Proof.
  intros a. apply nth_ext with (d := 0) (d' := 0).
  - rewrite update_length. lia.
  - intros j _. rewrite update_nth. lia.
Qed.

Theorem update_comm : forall a b, update a b = update b a.
Proof.
  intros a b. apply nth_ext with (d := 0) (d' := 0).
  - rewrite !update_length. lia.
  - intros j _. rewrite !update_nth. lia.
Qed.

Theorem update_assoc : forall a b c,
  update (update a b) c = update a (update b c).
Proof.
  intros a b c. apply nth_ext with (d := 0) (d' := 0).
  - rewrite !update_length. lia.
  - intros j _. rewrite !update_nth. lia.
Qed.

Theorem update_new_l : forall b, update new b = b.
Proof.
  intros b. apply nth_ext with (d := 0) (d' := 0).
  - rewrite update_length. cbn [new length]. lia.
  - intros j _. rewrite update_nth. unfold new. destruct j; cbn [nth]; lia.
Qed.

Theorem update_new_r : forall a, update a new = a.
Proof. intros a. rewrite update_comm. apply update_new_l. Qed.

Theorem update_absorb : forall a b, vle b a = true <-> update a b = a.
Proof.
  intros a b. split.
  - intros H. apply vle_antisym.
    + apply update_least; [apply vle_refl | assumption].
    + apply update_ub_l.
  - intros H. rewrite <- H. apply update_ub_r.
Qed.

Theorem update_monotone : forall a a' b b',
  vle a a' = true -> vle b b' = true -> vle (update a b) (update a' b') = true.
Proof.
  intros a a' b b' Ha Hb. apply update_least.
  - eapply vle_trans; [exact Ha | apply update_ub_l].
  - eapply vle_trans; [exact Hb | apply update_ub_r].
Qed.

Theorem update_wf : forall a b, wf a -> wf b -> wf (update a b).
Proof.
  intros a b Ha Hb. unfold wf in *. rewrite Forall_nth in *.
  intros i d Hi. rewrite nth_indep with (d' := 0) by assumption.
  rewrite update_nth. rewrite update_length in Hi.
  assert (Ha' : nth i a 0 <= u32_max).
  { destruct (Nat.lt_ge_cases i (length a)) as [H|H]; [apply Ha; assumption|].
    rewrite nth_overflow by assumption. unfold u32_max. lia. }
  assert (Hb' : nth i b 0 <= u32_max).
  { destruct (Nat.lt_ge_cases i (length b)) as [H|H]; [apply Hb; assumption|].
    rewrite nth_overflow by assumption. unfold u32_max. lia. }
  lia.
Qed.

(* ========================================================================= *)
(*  increment                                                                *)
(* ========================================================================= *)

Lemma nth_error_some_nth : forall (l : vclock) i x,
  nth_error l i = Some x -> (i < length l)%nat /\ nth i l 0 = x.
Proof.
  intros l i x H. split.
  - apply nth_error_Some. congruence.
  - apply nth_error_nth. assumption.
Qed.

Theorem increment_Some_iff : forall a i,
  (exists a', increment a i = Some a') <->
  ((i < length a)%nat /\ nth i a 0 < u32_max).
Proof.
  intros a i. unfold increment. split.
  - intros [a' H]. destruct (nth_error a i) as [x|] eqn:E; [|discriminate].
    apply nth_error_some_nth in E. destruct E as [Hi Hx].
    destruct (N.ltb_spec x u32_max) as [Hlt|Hge]; [|discriminate].
    split; [assumption | rewrite Hx; assumption].
  - intros [Hi Hlt]. destruct (nth_error a i) as [x|] eqn:E.
    + apply nth_error_some_nth in E. destruct E as [_ Hx]. rewrite <- Hx.
      destruct (N.ltb_spec (nth i a 0) u32_max) as [H|H]; [eauto | lia].
    + exfalso. apply nth_error_Some in Hi. apply Hi. assumption.
Qed.

Theorem increment_spec : forall a i a',
  increment a i = Some a' ->
  (i < length a)%nat /\
  length a' = length a /\
  nth i a' 0 = nth i a 0 + 1 /\
  nth i a 0 < u32_max /\
  forall j, j <> i -> nth j a' 0 = nth j a 0.
Proof.
  intros a i a' H. unfold increment in H.
  destruct (nth_error a i) as [x|] eqn:E; [|discriminate].
  apply nth_error_some_nth in E. destruct E as [Hi Hx].
  destruct (N.ltb_spec x u32_max) as [Hlt|Hge]; [|discriminate].
  injection H as <-. subst x. repeat split.
  - assumption.
  - apply set_nth_length.
  - apply nth_set_nth_eq. assumption.
  - assumption.
  - intros j Hj. apply nth_set_nth_neq. assumption.
Qed.

Theorem increment_tot_agrees : forall a i a',
  increment a i = Some a' -> increment_tot a i = a'.
Proof.
  intros a i a'. unfold increment, increment_tot.
  destruct (nth_error a i) as [x|]; [|discriminate].
  destruct (x <? u32_max); [|discriminate]. congruence.
Qed.

Theorem increment_grows : forall a i a',
  increment a i = Some a' -> vle a a' = true /\ a' <> a.
Proof.
  intros a i a' H. apply increment_spec in H.
  destruct H as (Hi & Hlen & Hnth & _ & Hother). split.
  - apply vle_ple. split; [lia|]. intros j Hj.
    destruct (Nat.eq_dec j i) as [->|Hne].
    + rewrite Hnth. lia.
    + rewrite Hother by assumption. lia.
  - intros ->. lia.
Qed.

Theorem increment_strict : forall a i a',
  increment a i = Some a' -> vlt a a' = true.
Proof.
  intros a i a' H. apply increment_grows in H. destruct H as [H1 H2].
  apply vlt_vle_ne. split; [assumption | congruence].
Qed.

Theorem increment_wf : forall a i a', wf a -> increment a i = Some a' -> wf a'.
Proof.
  intros a i a' Hwf H. unfold increment in H.
  destruct (nth_error a i) as [x|] eqn:E; [|discriminate].
  destruct (N.ltb_spec x u32_max) as [Hlt|Hge]; [|discriminate].
  injection H as <-. apply Forall_set_nth; [assumption | lia].
Qed.

(* Not comparable-from-below by anything that did not see the increment:
   after task i increments its own entry, the new clock is not <= any clock
   whose i-th entry is at most the old value. *)
Theorem increment_not_le_old : forall a i a' c,
  increment a i = Some a' -> nth i c 0 <= nth i a 0 -> vle a' c = false.
Proof.
  intros a i a' c H Hc. apply increment_spec in H.
  destruct H as (Hi & Hlen & Hnth & _ & _).
  destruct (vle a' c) eqn:E; [|reflexivity].
  apply vle_ple in E. destruct E as [_ Hp]. specialize (Hp i ltac:(lia)). lia.
Qed.

(* ========================================================================= *)
(*  extend                                                                   *)
(* ========================================================================= *)

Theorem extend_safe : forall c id,
  (exists c', extend c id = Some c') <-> (length c <= 1 + id)%nat.
Proof.
  intros c id. unfold extend.
  destruct (Nat.leb_spec (length c) (1 + id)) as [H|H]; split; intros H'.
  - assumption.
  - eauto.
  - destruct H' as [c' H']. discriminate.
  - lia.
Qed.

Theorem extend_None_iff : forall c id,
  extend c id = None <-> (length c > 1 + id)%nat.
Proof.
  intros c id. unfold extend.
  destruct (Nat.leb_spec (length c) (1 + id)) as [H|H]; split; intros H';
    try discriminate; try lia. reflexivity.
Qed.

Theorem extend_spec : forall c id c',
  extend c id = Some c' ->
  c' = c ++ repeat 0 (1 + id - length c) /\
  length c' = (1 + id)%nat /\
  forall i, nth i c' 0 = nth i c 0.
Proof.
  intros c id c' H. unfold extend in H.
  destruct (Nat.leb_spec (length c) (1 + id)) as [Hl|Hl]; [|discriminate].
  assert (Hc : c' = c ++ repeat 0 (1 + id - length c)) by congruence.
  clear H. subst c'. repeat split.
  - rewrite app_length, repeat_length. lia.
  - intros i. destruct (Nat.lt_ge_cases i (length c)) as [Hi|Hi].
    + apply app_nth1. assumption.
    + rewrite app_nth2 by lia. rewrite nth_repeat.
      rewrite nth_overflow by assumption. reflexivity.
Qed.

Theorem extend_grows : forall c id c',
  extend c id = Some c' -> vle c c' = true.
Proof.
  intros c id c' H. pose proof H as H0. apply extend_spec in H.
  destruct H as (_ & Hlen & Hnth).
  assert (Hl : (length c <= 1 + id)%nat) by (apply extend_safe; eauto).
  apply vle_ple. split; [lia|]. intros i _. rewrite Hnth. lia.
Qed.

Theorem extend_strict : forall c id c',
  extend c id = Some c' -> (length c < 1 + id)%nat -> vlt c c' = true.
Proof.
  intros c id c' H Hlt. apply vlt_vle_ne. split.
  - eapply extend_grows; eassumption.
  - apply extend_spec in H. destruct H as (_ & Hlen & _). intros ->. lia.
Qed.

Theorem extend_noop : forall c id,
  length c = (1 + id)%nat -> extend c id = Some c.
Proof.
  intros c id H. unfold extend. rewrite H.
  rewrite Nat.leb_refl, Nat.sub_diag. cbn [repeat]. rewrite app_nil_r. reflexivity.
Qed.

Theorem extend_wf : forall c id c', wf c -> extend c id = Some c' -> wf c'.
Proof.
  intros c id c' Hwf H. apply extend_spec in H. destruct H as (-> & _ & _).
  unfold wf. apply Forall_app. split; [assumption|].
  apply Forall_forall. intros x Hx. apply repeat_spec in Hx. subst x.
  unfold u32_max. lia.
Qed.

(* After extend(id) the new slot can be incremented (index in range). *)
Theorem extend_then_increment_in_range : forall c id c',
  extend c id = Some c' -> (id < length c')%nat.
Proof.
  intros c id c' H. apply extend_spec in H. destruct H as (_ & Hlen & _). lia.
Qed.

(* ========================================================================= *)
(*  The length invariant the runtime relies on:                              *)
(*  "every clock is at most as long as the number n of tasks created so far" *)
(*  New task ids are n = tasks.len(), and the clock extended at a spawn is   *)
(*  either fresh (main thread) or the parent's.                              *)
(* ========================================================================= *)

Theorem bounded_extend_ok : forall c n,
  (length c <= n)%nat ->
  exists c', extend c n = Some c' /\ length c' = S n.
Proof.
  intros c n H. destruct (proj2 (extend_safe c n) ltac:(lia)) as [c' Hc'].
  exists c'. split; [assumption|].
  apply extend_spec in Hc'. destruct Hc' as (_ & Hlen & _). lia.
Qed.

Theorem bounded_update : forall a b n,
  (length a <= n)%nat -> (length b <= n)%nat -> (length (update a b) <= n)%nat.
Proof. intros a b n Ha Hb. rewrite update_length. lia. Qed.

Theorem bounded_increment : forall a i a' n,
  (length a <= n)%nat -> increment a i = Some a' -> (length a' <= n)%nat.
Proof.
  intros a i a' n Ha H. apply increment_spec in H.
  destruct H as (_ & Hlen & _). lia.
Qed.

Theorem bounded_new : forall n, (length new <= n)%nat.
Proof. intros n. cbn. lia. Qed.

(* ========================================================================= *)
(*  Laws that do NOT hold (with their counterexamples)                       *)
(* ========================================================================= *)

(* (1) partial_cmp is sensitive to trailing zeros.  Reading a clock as the
   function task -> time with absent entries = 0 (which is how `update`
   treats them), vle is sound (vle_sound_sem) but not complete: *)
Theorem vle_incomplete_sem :
  exists a b, (forall i, nth i a 0 <= nth i b 0) /\ partial_cmp a b = None.
Proof.
  exists [1; 0], [2]. split; [|reflexivity].
  intros i. destruct i as [|[|i]]; cbn [nth]; try lia. destruct i; lia.
Qed.

Theorem equal_sem_not_Equal :
  exists a b, (forall i, nth i a 0 = nth i b 0) /\ partial_cmp a b = Some Less.
Proof.
  exists [1], [1; 0]. split; [|reflexivity].
  intros i. destruct i as [|[|i]]; cbn [nth]; try lia. destruct i; lia.
Qed.

(* (2) With release-build wrapping arithmetic `increment` is not monotone. *)
Theorem increment_wrapping_not_monotone :
  exists a i a',
    wf a /\ increment_wrapping a i = Some a' /\ vle a a' = false /\ vlt a' a = true.
Proof.
  exists [u32_max], 0%nat, [0]. repeat split.
  - constructor; [unfold u32_max; lia | constructor].
Qed.

(* (3) extend is not total. *)
Theorem extend_partial : exists c id, wf c /\ extend c id = None.
Proof.
  exists [0; 0; 0], 1%nat. split; [|reflexivity].
  repeat constructor; unfold u32_max; lia.
Qed.

(* wfb decides wf. *)
Theorem wfb_wf : forall c, wfb c = true <-> wf c.
Proof.
  intros c. unfold wfb, wf. rewrite forallb_forall, Forall_forall.
  split; intros H x Hx; specialize (H x Hx); apply N.leb_le; assumption.
Qed.
