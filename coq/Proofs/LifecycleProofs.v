(* Thread lifecycle: JoinHandle::join, the thread epilogue (destructor loop, publication of the result),
   thread::scope, and the fact that a finished task never runs again.  No Admitted / Axiom. *)
From Coq Require Import List NArith Bool Arith Lia.
From SV Require Import Params Clock.VClock Prim.Objects Prim.Atomic Prim.Tls Engine.Exec Engine.Inv Sched.Replay Engine.Stmt
  Prim.Semaphore Lang.Code Lang.ThreadOps Lang.SyncOps Lang.SyncOps2 Lang.AsyncOps Lang.Prog
  Proofs.EngineBase Proofs.SchedSpec Proofs.EngineInv Proofs.EngineRun Proofs.ProgOk Proofs.TlsProofs.
Import ListNotations.
Local Open Scope nat_scope.

(* ------------------------------------------------------------------ *)
(* finished tasks                                                      *)
(* ------------------------------------------------------------------ *)
Definition fin_in (e : exec) (t : nat) : Prop := exists tk, get_task e t = Some tk /\ is_finished tk = true.

Lemma fin_in_tasks : forall e e' t, tasks e' = tasks e -> fin_in e t -> fin_in e' t.
Proof. intros e e' t H (tk & Hg & Hf). exists tk. rewrite (get_task_tasks _ _ _ H). auto. Qed.

Lemma fin_in_upd : forall e x f e' t,
  upd_task e x f = Some e' -> (forall tk, is_finished tk = true -> is_finished (f tk) = true) -> fin_in e t -> fin_in e' t.
Proof.
  intros e x f e' t H Hf (tk & Hg & Hfin). apply upd_task_inv in H. destruct H as (tkx & Hgx & ->).
  destruct (Nat.eq_dec x t) as [->|Hne].
  - exists (f tk). rewrite (get_task_upd_eq _ _ _ _ Hg). auto.
  - exists tk. rewrite (get_task_upd_neq _ _ _ _ Hne). auto.
Qed.

Lemma fin_in_frame : forall e e' t, same_frame e e' -> fin_in e t -> fin_in e' t.
Proof.
  intros e e' t F (tk & Hg & Hf).
  pose proof F as (_ & _ & _ & _ & _ & _ & _ & A8 & A9 & _).
  destruct (get_task_some e' t) as [tk' Hg']. { rewrite A8. eapply get_task_lt; eauto. }
  exists tk'; split; auto. rewrite (A9 _ _ _ Hg Hg'). exact Hf.
Qed.

Lemma e_unblock_fin : forall e x e' t, e_unblock e x = Some e' -> fin_in e t -> fin_in e' t.
Proof.
  intros e x e' t H (tk & Hg & Hf). unfold e_unblock in H.
  destruct (get_task e x) as [tkx|] eqn:Hgx; [|discriminate].
  destruct (is_finished tkx) eqn:Hfx; [discriminate|].
  apply upd_task_inv in H. destruct H as (_ & _ & ->).
  destruct (Nat.eq_dec x t) as [->|Hne]; [congruence|].
  exists tk. rewrite (get_task_upd_neq _ _ _ _ Hne). auto.
Qed.

(* ================================================================== *)
(* B1: JoinHandle::join                                                *)
(* ================================================================== *)
Definition join_check (target : nat) : exec -> store -> option (exec * store * bool) :=
  fun e s => match get_task e target with Some tk => Some (e, s, is_finished tk) | None => None end.

Definition join_wait (target : nat) : exec -> store -> option (exec * store * bool) :=
  fun e s =>
    match me e with
    | None => None
    | Some m =>
      match e_set_waiter e target m with
      | None => None
      | Some (e', true) => match e_block e' m false with Some e'' => Some (e'', s, true) | None => None end
      | Some (e', false) => Some (e', s, false)
      end
    end.

(* the last block of join: "waiting thread inherits the clock of the finished thread", and the
   `.expect("target should have finished")` on the result *)
Definition join_final (target : nat) : exec -> store -> option (exec * store) :=
  fun e s =>
    match me e, e_clock e target, get_task e target with
    | Some m, Some c, Some tk =>
      if is_finished tk then match e_update_clock e m c with Some e' => Some (e', s) | None => None end else None
    | _, _, _ => None
    end.

Lemma join_code_shape : forall target k,
  join_code target k =
  atomic_b (join_check target)
    (fun fin => switch_if fin (atomic_b (join_wait target) (fun sb => switch_if sb (atomic_u (join_final target) k)))).
Proof. reflexivity. Qed.

Lemma e_update_clock_fin : forall e m c e' t, e_update_clock e m c = Some e' -> fin_in e t -> fin_in e' t.
Proof.
  intros e m c e' t H Hf. unfold e_update_clock, e_increment_clock, e_join_clock in H.
  destruct (get_task e m) as [tkm|]; [|discriminate].
  destruct (increment (t_clock tkm) m) as [c1|]; [|discriminate].
  destruct (upd_task e m (fun tk => set_clock tk c1)) as [e1|] eqn:E1; [|discriminate].
  eapply fin_in_upd; [exact H|auto|]. eapply fin_in_upd; [exact E1|auto|exact Hf].
Qed.

(* update_clock: the own entry is incremented, then the other clock is joined in *)
Lemma e_update_clock_value : forall e m c e', e_update_clock e m c = Some e' ->
  exists cm c1, e_clock e m = Some cm /\ increment cm m = Some c1 /\ e_clock e' m = Some (update c1 c).
Proof.
  intros e m c e' H. unfold e_update_clock, e_increment_clock, e_join_clock in H. unfold e_clock.
  destruct (get_task e m) as [tkm|] eqn:Hg; [|discriminate].
  destruct (increment (t_clock tkm) m) as [c1|] eqn:Hi; [|discriminate].
  rewrite (upd_task_some _ _ _ _ Hg) in H.
  pose proof (get_task_upd_eq e m (fun tk => set_clock tk c1) tkm Hg) as Hg1.
  rewrite (upd_task_some _ _ _ _ Hg1) in H. inversion H; subst e'.
  exists (t_clock tkm), c1. split; [reflexivity|]. split; [exact Hi|].
  pose proof (get_task_upd_eq _ m (fun tk => set_clock tk (update (t_clock tk) c)) _ Hg1) as Hg2.
  cbn [tasks with_tasks] in Hg2 |- *. rewrite Hg2. reflexivity.
Qed.

(* The last block of join succeeds only if the target task is Finished; it leaves the store alone, the target stays
   finished, and the joiner's clock becomes (its clock, own entry incremented) joined with the target's final clock. *)
Theorem join_final_spec : forall target e s e' s',
  join_final target e s = Some (e', s') ->
  s' = s /\ fin_in e target /\ fin_in e' target
  /\ exists m tk, me e = Some m /\ get_task e target = Some tk /\ is_finished tk = true
       /\ e_update_clock e m (t_clock tk) = Some e'
       /\ exists cm c1, e_clock e m = Some cm /\ increment cm m = Some c1 /\ e_clock e' m = Some (update c1 (t_clock tk)).
Proof.
  intros target e s e' s' H. unfold join_final in H.
  destruct (me e) as [m|] eqn:Hm; [|discriminate].
  unfold e_clock in H at 1.
  destruct (get_task e target) as [tk|] eqn:Hg; [|discriminate].
  destruct (is_finished tk) eqn:Hf; [|discriminate].
  destruct (e_update_clock e m (t_clock tk)) as [e1|] eqn:Hu; [|discriminate].
  inversion H; subst.
  assert (Hfin : fin_in e target) by (exists tk; auto).
  split; [reflexivity|]. split; [exact Hfin|]. split; [eapply e_update_clock_fin; eauto|].
  exists m, tk. repeat split; auto. eapply e_update_clock_value; exact Hu.
Qed.

Theorem join_final_unfinished : forall target e s tk,
  get_task e target = Some tk -> is_finished tk = false -> join_final target e s = None.
Proof.
  intros target e s tk Hg Hf. unfold join_final, e_clock. rewrite Hg, Hf.
  destruct (me e); reflexivity.
Qed.

(* the middle block: the joiner blocks exactly when the target has not finished, having registered as its waiter *)
Theorem join_wait_spec : forall target e s e' s' b,
  join_wait target e s = Some (e', s', b) ->
  s' = s /\ exists m tk, me e = Some m /\ get_task e target = Some tk /\ b = negb (is_finished tk)
    /\ (b = true ->
        (exists tk', get_task e' target = Some tk' /\ t_waiter tk' = Some m)
        /\ (exists tkm, get_task e' m = Some tkm /\ t_state tkm = Blocked false)).
Proof.
  intros target e s e' s' b H. unfold join_wait in H.
  destruct (me e) as [m|] eqn:Hm; [|discriminate].
  destruct (e_set_waiter e target m) as [[e1 sb]|] eqn:Es; [|discriminate].
  assert (Hsw : exists tk, get_task e target = Some tk /\ sb = negb (is_finished tk)
                 /\ (sb = true -> e1 = with_tasks e (list_upd (tasks e) target (fun tk => set_waiter_f tk (Some m))))).
  { unfold e_set_waiter in Es. destruct (get_task e target) as [tk|] eqn:Hg; [|discriminate].
    exists tk. split; [reflexivity|].
    assert (Hcore : (if is_finished tk then Some (e, false)
                     else match upd_task e target (fun tk => set_waiter_f tk (Some m)) with
                          | Some e' => Some (e', true) | None => None end) = Some (e1, sb) ->
                    sb = negb (is_finished tk)
                    /\ (sb = true -> e1 = with_tasks e (list_upd (tasks e) target (fun tk => set_waiter_f tk (Some m))))).
    { intros Hc. destruct (is_finished tk).
      - inversion Hc; subst. split; [reflexivity|discriminate].
      - rewrite (upd_task_some _ _ _ _ Hg) in Hc. inversion Hc; subst. split; [reflexivity|auto]. }
    destruct (t_waiter tk) as [w'|].
    - destruct (Nat.eqb w' m); [apply Hcore; exact Es|discriminate].
    - apply Hcore; exact Es. }
  destruct Hsw as (tk & Hg & Hsb & He1).
  destruct sb.
  - destruct (e_block e1 m false) as [e2|] eqn:Eb; [|discriminate].
    inversion H; subst. split; [reflexivity|]. exists m, tk.
    split; [reflexivity|]. split; [exact Hg|]. split; [exact Hsb|]. intros _.
    rewrite (He1 eq_refl) in Eb. unfold e_block in Eb.
    destruct (get_task (with_tasks e (list_upd (tasks e) target (fun tk0 => set_waiter_f tk0 (Some m)))) m) as [tkm|] eqn:Hgm;
      [|discriminate].
    destruct (is_finished tkm); [discriminate|].
    rewrite (upd_task_some _ _ _ _ Hgm) in Eb. inversion Eb; subst e'.
    pose proof (get_task_upd_eq e target (fun tk0 => set_waiter_f tk0 (Some m)) tk Hg) as Hgt.
    split.
    + destruct (Nat.eq_dec m target) as [->|Hne].
      * rewrite Hgt in Hgm; inversion Hgm; subst tkm.
        eexists. split; [apply get_task_upd_eq; exact Hgt|reflexivity].
      * eexists. split; [rewrite get_task_upd_neq by exact Hne; exact Hgt|reflexivity].
    + eexists. split; [apply get_task_upd_eq; exact Hgm|reflexivity].
  - inversion H; subst. split; [reflexivity|]. exists m, tk.
    split; [reflexivity|]. split; [exact Hg|]. split; [exact Hsb|]. discriminate.
Qed.

Section JoinSeg.
Context {SS : Type} (sch : scheduler SS) (ms : max_steps).

(* the continuation of join (where the program records the join and uses the value) starts only in a state in which
   the target is finished *)
Theorem join_continues_after_finish : forall target k w st w' st' r,
  run_seg sch ms (atomic_u (join_final target) k) w st = (w', st', r) ->
  (join_final target (w_e w) (w_s w) = None /\ r = SegPanic /\ w' = w /\ st' = st)
  \/ exists e1, join_final target (w_e w) (w_s w) = Some (e1, w_s w) /\ fin_in (w_e w) target /\ fin_in e1 target
       /\ run_seg sch ms k (mkWorld e1 (w_s w) (w_conts w) (w_trace w)) st = (w', st', r).
Proof.
  intros target k w st w' st' r H. unfold atomic_u in H. cbn [run_seg] in H.
  destruct (join_final target (w_e w) (w_s w)) as [[e1 s1]|] eqn:Ej.
  - right. destruct (join_final_spec _ _ _ _ _ Ej) as (-> & Hf & Hf1 & _).
    exists e1. auto.
  - left. inversion H; subst. auto.
Qed.
End JoinSeg.

(* ================================================================== *)
(* C1: thread::scope, block-level facts                                *)
(* ================================================================== *)
Definition scope_end_block (z : nat) : exec -> store -> option (exec * store * bool) :=
  fun e st => match me e, scope_get st z with
              | Some m, Some (r, mt, _) =>
                if Nat.eqb r 0 then Some (e, st, false)
                else match e_block e m false with
                     | Some e' => Some (e', set_obj st z (OScope r mt true), true)
                     | None => None end
              | _, _ => None end.

Lemma scope_end_shape : forall z k, scope_end z k = atomic_b (scope_end_block z) (fun blk => switch_if blk k).
Proof. reflexivity. Qed.

(* the end of scope(): the caller blocks iff some scoped thread is still running, and then records that it waits *)
Theorem scope_end_block_spec : forall z e st e' st' blk,
  scope_end_block z e st = Some (e', st', blk) ->
  exists m r mt w, me e = Some m /\ scope_get st z = Some (r, mt, w) /\ blk = negb (Nat.eqb r 0)
    /\ ((r = 0 /\ e' = e /\ st' = st)
        \/ (r <> 0 /\ e_block e m false = Some e' /\ st' = set_obj st z (OScope r mt true)
            /\ scope_get st' z = Some (r, mt, true))).
Proof.
  intros z e st e' st' blk H. unfold scope_end_block in H.
  destruct (me e) as [m|]; [|discriminate].
  destruct (scope_get st z) as [[[r mt] w]|] eqn:Eg; [|discriminate].
  exists m, r, mt, w. split; [reflexivity|]. split; [reflexivity|].
  destruct (Nat.eqb r 0) eqn:Er.
  - inversion H; subst. split; [reflexivity|]. left. apply Nat.eqb_eq in Er. auto.
  - destruct (e_block e m false) as [e1|] eqn:Eb; [|discriminate].
    inversion H; subst. split; [reflexivity|]. right. apply Nat.eqb_neq in Er. repeat split; auto.
    unfold scope_get in *. destruct (get_obj st z) as [o|] eqn:Eo; [|discriminate].
    rewrite (gso_eq _ _ _ _ Eo). reflexivity.
Qed.

Definition scoped_exit_block (z : nat) : exec -> store -> option (exec * store) :=
  fun e s => match scope_get s z with
             | Some (S r, m, w) =>
               let s' := set_obj s z (OScope r m w) in
               if Nat.eqb r 0 && w
               then match e_unblock e m with Some e' => Some (e', s') | None => None end
               else Some (e, s')
             | _ => None end.

Definition exit_point_block : exec -> store -> option (exec * store * bool) :=
  fun e s => match exit_truncates e with Some b => Some (e, s, b) | None => None end.

Lemma scoped_epilogue_shape : forall z tls dtor,
  scoped_epilogue_d z tls dtor =
  atomic_b exit_point_block
    (fun b => switch_if b (atomic_u (scoped_exit_block z) (tls_loop TLS_ROUNDS tls dtor publish_code))).
Proof. reflexivity. Qed.

Lemma thread_epilogue_shape : forall tls dtor,
  thread_epilogue_d tls dtor =
  atomic_b exit_point_block (fun b => switch_if b (tls_loop TLS_ROUNDS tls dtor publish_code)).
Proof. reflexivity. Qed.

(* the exit block of a scoped thread: the count goes down by one; the scope's main task is unblocked iff the count
   reaches 0 AND that task waits at the end of scope() - otherwise the execution state is not touched at all *)
Theorem scoped_exit_block_spec : forall z e s e' s',
  scoped_exit_block z e s = Some (e', s') ->
  exists r m w, scope_get s z = Some (S r, m, w) /\ s' = set_obj s z (OScope r m w) /\ scope_get s' z = Some (r, m, w)
    /\ ((r = 0 /\ w = true /\ e_unblock e m = Some e') \/ (~ (r = 0 /\ w = true) /\ e' = e)).
Proof.
  intros z e s e' s' H. unfold scoped_exit_block in H.
  destruct (scope_get s z) as [[[[|r] m] w]|] eqn:Eg; try discriminate.
  exists r, m, w. cbv zeta in H.
  assert (Hs : scope_get (set_obj s z (OScope r m w)) z = Some (r, m, w)).
  { unfold scope_get in *. destruct (get_obj s z) as [o|] eqn:Eo; [|discriminate].
    rewrite (gso_eq _ _ _ _ Eo). reflexivity. }
  destruct (Nat.eqb r 0) eqn:Er; destruct w; cbn [andb] in H.
  - destruct (e_unblock e m) as [e1|] eqn:Eu; [|discriminate]. inversion H; subst.
    apply Nat.eqb_eq in Er. repeat split; auto.
  - inversion H; subst. repeat split; auto. right. split; [|reflexivity]. intros [_ X]; discriminate.
  - inversion H; subst. repeat split; auto. right. split; [|reflexivity]. apply Nat.eqb_neq in Er. tauto.
  - inversion H; subst. repeat split; auto. right. split; [|reflexivity]. apply Nat.eqb_neq in Er. tauto.
Qed.

(* a scoped thread that is not the last one, or whose scope's main task is not waiting in scope(), unblocks nobody *)
Corollary scoped_exit_no_spurious_unblock : forall z e s e' s' r m,
  scoped_exit_block z e s = Some (e', s') -> scope_get s z = Some (S r, m, false) -> e' = e.
Proof.
  intros z e s e' s' r m H Hg. apply scoped_exit_block_spec in H.
  destruct H as (r0 & m0 & w0 & Hg0 & _ & _ & [(_ & Hw & _)|(_ & He)]); [|exact He].
  rewrite Hg in Hg0. inversion Hg0; subst. discriminate.
Qed.

(* scope() itself resets the count, the owner and the flag *)
Definition scope_enter_block (z : nat) : exec -> store -> option (exec * store) :=
  fun e st => match me e, get_obj st z with
              | Some m, Some (OScope _ _ _) => Some (e, set_obj st z (OScope 0 m false))
              | _, _ => None end.
Definition scope_spawn_block (z : nat) : exec -> store -> option (exec * store) :=
  fun e st => match scope_get st z with
              | Some (rn, m, w) => Some (e, set_obj st z (OScope (S rn) m w))
              | None => None end.

Theorem scope_enter_block_spec : forall z e st e' st',
  scope_enter_block z e st = Some (e', st') -> e' = e /\ exists m, me e = Some m /\ scope_get st' z = Some (0, m, false).
Proof.
  intros z e st e' st' H. unfold scope_enter_block in H.
  destruct (me e) as [m|]; [|discriminate].
  destruct (get_obj st z) as [o|] eqn:Eo; [|discriminate].
  destruct o; try discriminate. inversion H; subst. split; [reflexivity|]. exists m. split; [reflexivity|].
  unfold scope_get. rewrite (gso_eq _ _ _ _ Eo). reflexivity.
Qed.

Theorem scope_spawn_block_spec : forall z e st e' st',
  scope_spawn_block z e st = Some (e', st') ->
  e' = e /\ exists r m w, scope_get st z = Some (r, m, w) /\ scope_get st' z = Some (S r, m, w).
Proof.
  intros z e st e' st' H. unfold scope_spawn_block in H.
  destruct (scope_get st z) as [[[r m] w]|] eqn:Eg; [|discriminate].
  inversion H; subst. split; [reflexivity|]. exists r, m, w. split; [reflexivity|].
  unfold scope_get in *. destruct (get_obj st z) as [o|] eqn:Eo; [|discriminate].
  rewrite (gso_eq _ _ _ _ Eo). reflexivity.
Qed.

(* ================================================================== *)
(* B2: the result is published only after the destructor queue drained *)
(* ================================================================== *)
(* one round of `while let Some(local) = pop_local()` *)
Definition tls_round (tls : nat) : exec -> store -> option (exec * store * list N) :=
  fun e s => match me e with
             | Some m => match tls_pop s tls m with
                         | Some (s', Some (key, v, d)) =>
                           Some (e, s', [1; N.of_nat key; v; match d with Some b => N.of_nat (S b) | None => 0 end]%N)
                         | Some (_, None) => Some (e, s, [0%N])
                         | None => None end
             | None => None end.
Definition tls_next (n tls : nat) (dtor : nat -> code -> code) (k : code) : list N -> code :=
  fun a => match a with
           | [1; key; v; d]%N =>
             Log TAG_TLSDROP [key; v]
               (match N.to_nat d with
                | O => tls_loop n tls dtor k
                | S b => dtor b (tls_loop n tls dtor k)
                end)
           | _ => k
           end.
Lemma tls_loop_S : forall n tls dtor k, tls_loop (S n) tls dtor k = Atomic (tls_round tls) (tls_next n tls dtor k).
Proof. reflexivity. Qed.

(* the answers of a round other than "a value was taken out" *)
Definition is_exit_answer (a : list N) : bool := match a with [1; _; _; _]%N => false | _ => true end.

(* a block answers `a` only without changing anything and only when the current task has nothing left to destruct *)
Definition empty_answer (tls : nat) (f : exec -> store -> option (exec * store * list N)) (a : list N) : Prop :=
  forall e s e' s', f e s = Some (e', s', a) ->
    e' = e /\ s' = s /\ exists m, me e = Some m /\ tl_order (task_of s tls m) = [].

Lemma tls_round_exit : forall tls a, is_exit_answer a = true -> empty_answer tls (tls_round tls) a.
Proof.
  intros tls a Ha e s e' s' H. unfold tls_round in H.
  destruct (me e) as [m|] eqn:Hm; [|discriminate].
  destruct (tls_pop s tls m) as [[s1 [[[key v] d]|]]|] eqn:Ep; [| |discriminate].
  - inversion H; subst. discriminate Ha.
  - inversion H; subst. split; [reflexivity|]. split; [reflexivity|]. exists m. split; [reflexivity|].
    apply tls_pop_spec in Ep. inversion Ep as [l Ht Ho|]; subst. unfold task_of. rewrite Ht. exact Ho.
Qed.

Lemma tls_next_exit : forall n tls dtor k a, is_exit_answer a = true -> tls_next n tls dtor k a = k.
Proof.
  intros n tls dtor k a Ha. unfold tls_next, is_exit_answer in *.
  repeat match goal with
         | |- context [match ?x with _ => _ end] => is_var x; destruct x; try reflexivity; try discriminate Ha
         end.
Qed.

(* `drains tls last c`: the code c can return only through `last`, entered from a block that found the current task's
   destructor queue empty.  (Panic leaves are error exits; the child of a spawn is another thread's code.) *)
Inductive drains (tls : nat) (last : code) : code -> Prop :=
| dr_panic : drains tls last Panic
| dr_atomic f k (ex : list N -> bool) :
    (forall a, ex a = true -> k a = last /\ empty_answer tls f a) ->
    (forall a, ex a = false -> drains tls last (k a)) ->
    drains tls last (Atomic f k)
| dr_switch k : drains tls last k -> drains tls last (Switch k)
| dr_rand k : (forall v, drains tls last (k v)) -> drains tls last (Rand k)
| dr_spawn c k : (forall t, drains tls last (k t)) -> drains tls last (SpawnNow c k)
| dr_log tag vals k : drains tls last k -> drains tls last (Log tag vals k).

Lemma dr_atomic_plain : forall tls last f k, (forall a, drains tls last (k a)) -> drains tls last (Atomic f k).
Proof. intros tls last f k H. apply (dr_atomic tls last f k (fun _ => false)); [discriminate|auto]. Qed.

Lemma dr_atomic_u : forall tls last f k, drains tls last k -> drains tls last (atomic_u f k).
Proof. intros; unfold atomic_u. apply dr_atomic_plain. auto. Qed.
Lemma dr_atomic_b : forall tls last f k, (forall b, drains tls last (k b)) -> drains tls last (atomic_b f k).
Proof. intros; unfold atomic_b. apply dr_atomic_plain. auto. Qed.
Lemma dr_switch_if : forall tls last b k, drains tls last k -> drains tls last (switch_if b k).
Proof. intros tls last [|] k H; unfold switch_if; [apply dr_switch|]; exact H. Qed.

Definition dtor_drains (tls : nat) (last : code) (dtor : nat -> code -> code) : Prop :=
  forall d k, drains tls last k -> drains tls last (dtor d k).

(* the destructor loop reaches its continuation only from a round that found nothing left, however many values the
   destructors themselves initialise on the way *)
Theorem tls_loop_drains : forall n tls dtor last,
  dtor_drains tls last dtor -> drains tls last (tls_loop n tls dtor last).
Proof.
  induction n as [|n IH]; intros tls dtor last Hd; [apply dr_panic|].
  rewrite tls_loop_S. apply (dr_atomic tls last _ _ is_exit_answer).
  - intros a Ha. split; [apply tls_next_exit; exact Ha|apply tls_round_exit; exact Ha].
  - intros a Ha. unfold tls_next, is_exit_answer in *.
    repeat match goal with
           | |- context [match ?x with _ => _ end] => is_var x; destruct x; try discriminate Ha
           end.
    apply dr_log. destruct (N.to_nat _); [apply IH; exact Hd|apply Hd; apply IH; exact Hd].
Qed.

(* publish_code is the last block of both epilogues *)
Theorem thread_epilogue_drains : forall tls dtor,
  dtor_drains tls publish_code dtor -> drains tls publish_code (thread_epilogue_d tls dtor).
Proof.
  intros tls dtor Hd. rewrite thread_epilogue_shape. apply dr_atomic_b. intros b. apply dr_switch_if.
  apply tls_loop_drains; exact Hd.
Qed.

Theorem scoped_epilogue_drains : forall z tls dtor,
  dtor_drains tls publish_code dtor -> drains tls publish_code (scoped_epilogue_d z tls dtor).
Proof.
  intros z tls dtor Hd. rewrite scoped_epilogue_shape. apply dr_atomic_b. intros b. apply dr_switch_if.
  apply dr_atomic_u. apply tls_loop_drains; exact Hd.
Qed.

(* what `drains` means for executions: a segment of such code either panics, or suspends in code that still drains,
   or passes - in a state where the running task's destructor queue is empty - into `last`, whose run gives the
   segment's result *)
Section DrainsSound.
Context {SS : Type} (sch : scheduler SS) (ms : max_steps).

Definition via_last (tls : nat) (last : code) (w' : world) (st' : SS) (r : seg_end) : Prop :=
  exists w1 st1 m, me (w_e w1) = Some m /\ tl_order (task_of (w_s w1) tls m) = []
                   /\ run_seg sch ms last w1 st1 = (w', st', r).

Theorem drains_sound : forall tls last c, drains tls last c -> forall w st w' st' r,
  run_seg sch ms c w st = (w', st', r) ->
  r = SegPanic \/ via_last tls last w' st' r \/ (exists k', r = SegYield k' /\ drains tls last k').
Proof.
  intros tls last c D.
  induction D as [ | f k ex Hex Hk IH | k Hk IH | k Hk IH | child k Hk IH | tag vals k Hk IH];
    intros w st w' st' r H; cbn [run_seg] in H.
  - inversion H; subst. left; reflexivity.
  - destruct (f (w_e w) (w_s w)) as [[[e1 s1] a]|] eqn:Ef.
    + destruct (ex a) eqn:Ea.
      * destruct (Hex a Ea) as [Hka Hemp]. destruct (Hemp _ _ _ _ Ef) as (-> & -> & m & Hm & Ho).
        right; left. rewrite Hka in H. exists (mkWorld (w_e w) (w_s w) (w_conts w) (w_trace w)), st, m.
        cbn [w_e w_s]. auto.
      * eapply (IH a Ea); exact H.
    + inversion H; subst. left; reflexivity.
  - destruct (do_switch sch ms w st) as [w1 st1|w1 st1|w1 st1].
    + eapply IH; exact H.
    + inversion H; subst. right; right. exists k; auto.
    + inversion H; subst. left; reflexivity.
  - cbv zeta in H.
    assert (Hdraw : forall w0 st0,
              (let e := with_recorded (w_e w0) (StRandom :: recorded (w_e w0)) in
               let (v, st1) := s_next_u64 sch st0 in
               match v with
               | None => (mkWorld e (w_s w0) (w_conts w0) (w_trace w0), st1, SegPanic)
               | Some v => run_seg sch ms (k v) (mkWorld e (w_s w0) (w_conts w0) (EvRandom v :: w_trace w0)) st1
               end) = (w', st', r) ->
              r = SegPanic \/ via_last tls last w' st' r \/ (exists k', r = SegYield k' /\ drains tls last k')).
    { intros w0 st0 H0. cbv zeta in H0. destruct (s_next_u64 sch st0) as [[v|] st1].
      - eapply IH; exact H0.
      - inversion H0; subst. left; reflexivity. }
    destruct (bound_exhausted ms (w_e w)).
    + destruct (do_switch sch ms w st) as [w1 st1|w1 st1|w1 st1].
      * eapply Hdraw; exact H.
      * inversion H; subst. right; right. exists (Rand k). split; [reflexivity|]. apply dr_rand; exact Hk.
      * inversion H; subst. left; reflexivity.
    + eapply Hdraw; exact H.
  - destruct (spawn_thread_now (w_e w)) as [[e1 tid]|].
    + eapply IH; exact H.
    + inversion H; subst. left; reflexivity.
  - destruct (me (w_e w)) as [t|].
    + eapply IH; exact H.
    + inversion H; subst. left; reflexivity.
Qed.
End DrainsSound.

(* ================================================================== *)
(* B3: a finished task never runs again                                *)
(* ================================================================== *)
(* an event that does not involve task t: not an operation of t, and a decision taken in a state in which t is
   finished and in which t was not offered to the scheduler *)
Definition quiet (t : nat) (ev : event) : Prop :=
  match ev with
  | EvOp t' _ _ _ => t' <> t
  | EvDecision pre off _ _ _ => fin_in pre t /\ ~ In t off
  | EvRandom _ => True
  end.

Lemma fin_not_offered : forall e t, fin_in e t -> ~ In t (offered_of e).
Proof.
  intros e t (tk & Hg & Hf) Hin. unfold offered_of in Hin. apply filter_In in Hin. destruct Hin as [_ H].
  rewrite Hg in H. unfold is_runnable, can_spur in H. unfold is_finished in Hf.
  destruct (t_state tk) as [|[|]| |]; discriminate.
Qed.

Lemma finish_current_fin : forall e e3 t, finish_current e = Some e3 -> fin_in e t -> fin_in e3 t.
Proof.
  intros e e3 t H Hf. unfold finish_current in H.
  destruct (me e) as [m|]; [|discriminate].
  destruct (get_task e m) as [tkm|]; [|discriminate].
  destruct (is_finished tkm); [discriminate|].
  destruct (upd_task e m (fun tk => set_state tk Finished)) as [e1|] eqn:E1; [|discriminate].
  inversion H; subst. eapply (fin_in_tasks e1); [reflexivity|].
  eapply fin_in_upd; [exact E1|reflexivity|exact Hf].
Qed.

Lemma spawn_fin : forall e e' tid t, rok e -> spawn_thread_now e = Some (e', tid) -> fin_in e t -> fin_in e' t.
Proof.
  intros e e' tid t Hr H Hf. destruct (spawn_inv _ _ _ Hr H) as (e2 & c & F & _ & ->).
  destruct (fin_in_frame _ _ _ F Hf) as (tk & Hg & Hfin). exists tk. split; [|exact Hfin].
  unfold get_task in *; cbn [tasks with_live with_tasks]. rewrite nth_error_app1; [exact Hg|].
  apply nth_error_Some; congruence.
Qed.

(* Some recorded operations certify that a task has finished: `A tag vals t` says that a record (tag, vals) does so
   for task t (for the programs of Lang/Prog.v: the record of a join).  `lg A c`: in the code c, every record that
   certifies anything comes right after the last block of a join on exactly the task it certifies. *)
Inductive lg (A : N -> list N -> nat -> Prop) : code -> Prop :=
| lg_ret : lg A Ret
| lg_panic : lg A Panic
| lg_atomic f k : (forall a, lg A (k a)) -> lg A (Atomic f k)
| lg_join target tag vals k : (forall t, A tag vals t -> t = target) -> lg A k ->
    lg A (atomic_u (join_final target) (Log tag vals k))
| lg_switch k : lg A k -> lg A (Switch k)
| lg_rand k : (forall v, lg A (k v)) -> lg A (Rand k)
| lg_spawn c k : lg A c -> (forall t, lg A (k t)) -> lg A (SpawnNow c k)
| lg_log tag vals k : (forall t, ~ A tag vals t) -> lg A k -> lg A (Log tag vals k).

Lemma lg_trivial : forall c, lg (fun _ _ _ => False) c.
Proof.
  induction c as [ | | f k IH | k IH | k IH | child IHc k IH | tag vals k IH].
  - apply lg_ret.
  - apply lg_panic.
  - apply lg_atomic; exact IH.
  - apply lg_switch; exact IH.
  - apply lg_rand; exact IH.
  - apply lg_spawn; assumption.
  - apply lg_log; [intros t []|exact IH].
Qed.

Lemma code_ok_atomic_inv : forall f k, code_ok (Atomic f k) -> atomic_ok f /\ forall a, code_ok (k a).
Proof. intros f k H. inversion H; subst. auto. Qed.
Lemma code_ok_switch_inv : forall k, code_ok (Switch k) -> code_ok k.
Proof. intros k H. inversion H; subst. auto. Qed.
Lemma code_ok_rand_inv : forall k, code_ok (Rand k) -> forall v, code_ok (k v).
Proof. intros k H. inversion H; subst. auto. Qed.
Lemma code_ok_spawn_inv : forall c k, code_ok (SpawnNow c k) -> code_ok c /\ forall t, code_ok (k t).
Proof. intros c k H. inversion H; subst. auto. Qed.
Lemma code_ok_log_inv : forall tag vals k, code_ok (Log tag vals k) -> code_ok k.
Proof. intros tag vals k H. inversion H; subst. auto. Qed.

Section Quiet.
Context {SS : Type} (sch : scheduler SS) (ms : max_steps).
Notation LInv := (LInv sch ms).

(* F: tasks known to be finished at the start; tr0: the trace at the start (only the events added since are judged);
   A: the certifying records *)
Variable F : nat -> Prop.
Variable tr0 : list event.
Variable A : N -> list N -> nat -> Prop.

(* t is known to be finished: from the start, or because some recorded decision was taken in a state where it was,
   or because a recorded operation certifies it *)
Definition known (tr : list event) (t : nat) : Prop :=
  F t
  \/ (exists pre off cur y ch, In (EvDecision pre off cur y ch) tr /\ fin_in pre t)
  \/ (exists m tag vals clk, In (EvOp m tag vals clk) tr /\ A tag vals t).

(* newest first: every event is quiet for every task known to be finished before it *)
Fixpoint tq (tr : list event) : Prop :=
  match tr with
  | [] => True
  | ev :: r => (forall t, known r t -> quiet t ev) /\ tq r
  end.

Definition TQ (e : exec) (tr : list event) : Prop := tq tr /\ forall t, known tr t -> fin_in e t.

Lemma known_cons_op : forall m tag vals clk tr t,
  known (EvOp m tag vals clk :: tr) t -> known tr t \/ A tag vals t.
Proof.
  intros m tag vals clk tr t [H|[(pre & off & cur & y & ch & Hin & Hf)|(m0 & tag0 & vals0 & clk0 & Hin & Ha)]].
  - left; left; exact H.
  - destruct Hin as [E|Hin]; [discriminate|]. left; right; left. exists pre, off, cur, y, ch; auto.
  - destruct Hin as [E|Hin].
    + inversion E; subst. right; exact Ha.
    + left; right; right. exists m0, tag0, vals0, clk0; auto.
Qed.

Lemma known_cons_random : forall v tr t, known (EvRandom v :: tr) t -> known tr t.
Proof.
  intros v tr t [H|[(pre & off & cur & y & ch & Hin & Hf)|(m0 & tag0 & vals0 & clk0 & Hin & Ha)]].
  - left; exact H.
  - destruct Hin as [E|Hin]; [discriminate|]. right; left. exists pre, off, cur, y, ch; auto.
  - destruct Hin as [E|Hin]; [discriminate|]. right; right. exists m0, tag0, vals0, clk0; auto.
Qed.

Lemma known_cons_dec : forall pre off cur y ch tr t,
  known (EvDecision pre off cur y ch :: tr) t -> known tr t \/ fin_in pre t.
Proof.
  intros pre off cur y ch tr t [H|[(pre0 & off0 & cur0 & y0 & ch0 & Hin & Hf)|(m0 & tag0 & vals0 & clk0 & Hin & Ha)]].
  - left; left; exact H.
  - destruct Hin as [E|Hin].
    + inversion E; subst. right; exact Hf.
    + left; right; left. exists pre0, off0, cur0, y0, ch0; auto.
  - destruct Hin as [E|Hin]; [discriminate|]. left; right; right. exists m0, tag0, vals0, clk0; auto.
Qed.

Lemma TQ_mono : forall e e' tr, (forall t, fin_in e t -> fin_in e' t) -> TQ e tr -> TQ e' tr.
Proof. intros e e' tr H [X Y]. split; auto. Qed.

Lemma TQ_op : forall e tr m tag vals clk tk,
  get_task e m = Some tk -> is_finished tk = false -> (forall t, A tag vals t -> fin_in e t) ->
  TQ e tr -> TQ e (EvOp m tag vals clk :: tr).
Proof.
  intros e tr m tag vals clk tk Hg Hf Ha [X Y]. split.
  - cbn [tq]. split; [|exact X]. intros t Hk. cbn [quiet]. intros ->.
    destruct (Y _ Hk) as (tk' & Hg' & Hf'). congruence.
  - intros t Hk. apply known_cons_op in Hk. destruct Hk as [Hk|Hk]; [apply Y; exact Hk|apply Ha; exact Hk].
Qed.

Lemma TQ_random : forall e tr v, TQ e tr -> TQ e (EvRandom v :: tr).
Proof.
  intros e tr v [X Y]. split.
  - cbn [tq]. split; [|exact X]. intros t _. exact I.
  - intros t Hk. apply Y. eapply known_cons_random; exact Hk.
Qed.

Lemma choice_fin : forall pre ch err e' t, choice_res pre ch err e' -> fin_in pre t -> fin_in e' t.
Proof.
  intros pre ch err e' t C Hf. destruct C as [ | t0 tk Hg Hr | t0 tk e1 Hg Hr Hs Hu | t0 Hb].
  - eapply fin_in_tasks; [|exact Hf]. reflexivity.
  - eapply fin_in_tasks; [|exact Hf]. reflexivity.
  - eapply (fin_in_tasks e1); [reflexivity|]. eapply e_unblock_fin; eauto.
  - exact Hf.
Qed.

(* one call of `schedule` *)
Lemma TQ_sched : forall e st err e' st' evs tr,
  sched_res sch ms e st err e' st' evs -> TQ e tr -> TQ e' (evs ++ tr).
Proof.
  intros e st err e' st' evs tr R T.
  destruct R as [Hn | n Hn Hms Hm | n Hn Hms Hm | Hn Hb Hf | ch st' err e' Hn Hb Hf Hc R]; cbn [app].
  - exact T.
  - eapply TQ_mono; [|exact T]. intros t. apply fin_in_tasks. reflexivity.
  - eapply TQ_mono; [|exact T]. intros t. apply fin_in_tasks. reflexivity.
  - eapply TQ_mono; [|exact T]. intros t. apply fin_in_tasks. reflexivity.
  - destruct T as [X Y].
    assert (Hpre : forall t, fin_in e t -> fin_in (pre_of e) t) by (intros t; apply fin_in_tasks; reflexivity).
    assert (Hcons : forall t, fin_in (pre_of e) t -> fin_in (cons_of e) t) by (intros t; apply fin_in_tasks; reflexivity).
    split.
    + cbn [tq]. split; [|exact X]. intros t Hk. cbn [quiet]. specialize (Hpre _ (Y _ Hk)).
      split; [exact Hpre|apply fin_not_offered; exact Hpre].
    + intros t Hk. apply known_cons_dec in Hk. eapply choice_fin; [exact R|]. apply Hcons.
      destruct Hk as [Hk|Hk]; [apply Hpre, Y; exact Hk|exact Hk].
Qed.

(* the world's trace extends tr0 by events that satisfy the discipline; every suspended continuation is lg *)
Definition ext (w : world) : Prop :=
  (exists evs, w_trace w = evs ++ tr0 /\ TQ (w_e w) evs)
  /\ forall t c, nth_error (w_conts w) t = Some (Some c) -> lg A c.

Lemma ext_sched : forall w st err e' st' evs,
  sched_res sch ms (w_e w) st err e' st' evs -> ext w -> ext (mkWorld e' (w_s w) (w_conts w) (evs ++ w_trace w)).
Proof.
  intros w st err e' st' evs R [(evs0 & Htr & T) C]. split; [|exact C]. exists (evs ++ evs0). cbn [w_trace w_e]. split.
  - rewrite Htr, app_assoc; reflexivity.
  - eapply TQ_sched; eauto.
Qed.

Lemma ext_mono : forall w e' s', (forall t, fin_in (w_e w) t -> fin_in e' t) -> ext w -> ext (mkWorld e' s' (w_conts w) (w_trace w)).
Proof.
  intros w e' s' H [(evs0 & Htr & T) C]. split; [|exact C]. exists evs0. cbn [w_trace w_e].
  split; [exact Htr|]. eapply TQ_mono; eauto.
Qed.

Lemma ext_set_cont : forall w e' t c, (forall x, fin_in (w_e w) x -> fin_in e' x) ->
  (forall k, c = Some k -> lg A k) -> ext w -> ext (mkWorld e' (w_s w) (set_cont (w_conts w) t c) (w_trace w)).
Proof.
  intros w e' t c H Hc [(evs0 & Htr & T) C]. split.
  - exists evs0. cbn [w_trace w_e]. split; [exact Htr|]. eapply TQ_mono; eauto.
  - cbn [w_conts]. intros t' c' Hn. unfold set_cont in Hn.
    apply nth_error_list_upd_some in Hn. destruct Hn as (y & Hy & [E|[_ E]]).
    + subst y. eapply C; exact Hy.
    + apply Hc. symmetry; exact E.
Qed.

Lemma ext_op : forall w m tag vals clk tk,
  get_task (w_e w) m = Some tk -> is_finished tk = false -> (forall t, A tag vals t -> fin_in (w_e w) t) ->
  ext w -> ext (mkWorld (w_e w) (w_s w) (w_conts w) (EvOp m tag vals clk :: w_trace w)).
Proof.
  intros w m tag vals clk tk Hg Hf Ha [(evs0 & Htr & T) C]. split; [|exact C].
  exists (EvOp m tag vals clk :: evs0). cbn [w_trace w_e]. split; [rewrite Htr; reflexivity|eapply TQ_op; eauto].
Qed.

Lemma ext_random : forall w v, ext w -> ext (mkWorld (w_e w) (w_s w) (w_conts w) (EvRandom v :: w_trace w)).
Proof.
  intros w v [(evs0 & Htr & T) C]. split; [|exact C].
  exists (EvRandom v :: evs0). cbn [w_trace w_e]. split; [rewrite Htr; reflexivity|apply TQ_random; exact T].
Qed.

Lemma ext_spawn : forall w e' child, (forall t, fin_in (w_e w) t -> fin_in e' t) -> lg A child ->
  ext w -> ext (mkWorld e' (w_s w) (w_conts w ++ [Some child]) (w_trace w)).
Proof.
  intros w e' child H Hc [(evs0 & Htr & T) C]. split.
  - exists evs0. cbn [w_trace w_e]. split; [exact Htr|]. eapply TQ_mono; eauto.
  - cbn [w_conts]. intros t c Hn. destruct (Nat.lt_ge_cases t (length (w_conts w))) as [Hlt|Hge].
    + rewrite nth_error_app1 in Hn by exact Hlt. eapply C; exact Hn.
    + rewrite nth_error_app2 in Hn by exact Hge. destruct (t - length (w_conts w)) as [|x]; cbn in Hn.
      * inversion Hn; subst. exact Hc.
      * destruct x; discriminate.
Qed.

Lemma do_switch_ext : forall w st, ext w ->
  match do_switch sch ms w st with
  | SwContinue w' _ | SwYield w' _ | SwPanic w' _ => ext w'
  end.
Proof.
  intros w st X. unfold do_switch. cbv zeta.
  destruct (panicking (w_e w) && negb (in_cleanup (w_e w))); [exact X|].
  destruct (schedule sch ms (w_e w) st) as [[[err e1] st1] evs] eqn:Hs.
  apply schedule_spec in Hs. pose proof (ext_sched _ _ _ _ _ _ Hs X) as X1.
  destruct err as [[|]|]; try exact X1.
  destruct (sched_eqb (current e1) (next e1)); [|exact X1].
  apply (ext_mono (mkWorld e1 (w_s w) (w_conts w) (evs ++ w_trace w))); [|exact X1].
  intros t. apply fin_in_tasks. apply advance_tasks.
Qed.

Theorem seg_ext : forall c, lg A c -> code_ok c -> forall w st w' st' r m,
  LInv w -> running (w_e w) (w_trace w) m -> ext w ->
  run_seg sch ms c w st = (w', st', r) -> ext w' /\ (forall k', r = SegYield k' -> lg A k').
Proof.
  induction 1 as [ | | f k Hk IH | target tag vals k Ha Hk IH | k Hk IH | k Hk IH | child k Hc IHc Hk IH | tag vals k Ha Hk IH];
    intros Hok w st w' st' r m L R X H.
  - cbn [run_seg] in H. inversion H; subst. split; [exact X|discriminate].
  - cbn [run_seg] in H. inversion H; subst. split; [exact X|discriminate].
  - (* Atomic *)
    cbn [run_seg] in H. apply code_ok_atomic_inv in Hok. destruct Hok as [Hf Hoks].
    destruct (f (w_e w) (w_s w)) as [[[e1 s1] a]|] eqn:Ef.
    + pose proof (Hf _ _ _ _ _ (wf_reset _ (li_wf _ _ _ _ _ L)) Ef) as Fr.
      destruct (rinv_atomic sch ms _ _ _ _ _ L R Fr) as [L1 R1].
      eapply (IH a (Hoks a) _ _ _ _ _ m); [| | |exact H]; cbn [w_e w_conts w_trace]; try assumption.
      apply ext_mono; [|exact X]. intros t. apply fin_in_frame. exact Fr.
    + inversion H; subst. split; [exact X|discriminate].
  - (* the last block of join, then the record *)
    unfold atomic_u in H, Hok. apply code_ok_atomic_inv in Hok. destruct Hok as [_ Hoks].
    pose proof (code_ok_log_inv _ _ _ (Hoks [])) as Hokk.
    cbn [run_seg] in H.
    destruct (join_final target (w_e w) (w_s w)) as [[e1 s1]|] eqn:Ej.
    + destruct (join_final_spec _ _ _ _ _ Ej) as (-> & _ & Hf1 & m0 & tk0 & _ & _ & _ & Hu & _).
      assert (Fr : same_frame (w_e w) e1).
      { eapply e_update_clock_frame; [exact (wf_reset _ (li_wf _ _ _ _ _ L))|exact Hu]. }
      destruct (rinv_atomic sch ms _ _ _ _ _ L R Fr) as [L1 R1].
      pose proof R1 as (Rc & _ & _ & tkm & Hgm & Hfm).
      cbn [run_seg] in H. unfold me in H. cbn [w_e] in H. rewrite Rc in H. cbn [sched_id] in H.
      match type of H with run_seg _ _ _ (mkWorld _ _ _ (EvOp _ _ _ ?clk :: _)) _ = _ =>
        destruct (rinv_log sch ms _ _ _ _ tag vals clk L1 R1) as [L2 R2];
        eapply (IH Hokk (mkWorld e1 (w_s w) (w_conts w) (EvOp m tag vals clk :: w_trace w)) _ _ _ _ m); [| | |exact H];
          cbn [w_e w_conts w_trace]; try assumption;
        apply (ext_op (mkWorld e1 (w_s w) (w_conts w) (w_trace w)) m tag vals clk tkm); cbn [w_e]; try assumption;
          [intros t Ht; rewrite (Ha t Ht); exact Hf1
          |apply ext_mono; [|exact X]; intros t; apply fin_in_frame; exact Fr]
      end.
    + inversion H; subst. split; [exact X|discriminate].
  - (* Switch *)
    cbn [run_seg] in H. apply code_ok_switch_inv in Hok.
    pose proof (do_switch_inv sch ms w st m L R) as DS. pose proof (do_switch_ext w st X) as DX.
    destruct (do_switch sch ms w st) as [w1 st1|w1 st1|w1 st1].
    + destruct DS as (L1 & R1 & _). eapply IH; eauto.
    + inversion H; subst. split; [exact DX|]. intros k' E; inversion E; subst; exact Hk.
    + inversion H; subst. split; [exact DX|discriminate].
  - (* Rand *)
    cbn [run_seg] in H. cbv zeta in H. pose proof (code_ok_rand_inv _ Hok) as Hoks.
    assert (Hdraw : forall w0 st0, LInv w0 -> running (w_e w0) (w_trace w0) m -> ext w0 ->
              (let e := with_recorded (w_e w0) (StRandom :: recorded (w_e w0)) in
               let (v, st1) := s_next_u64 sch st0 in
               match v with
               | None => (mkWorld e (w_s w0) (w_conts w0) (w_trace w0), st1, SegPanic)
               | Some v => run_seg sch ms (k v) (mkWorld e (w_s w0) (w_conts w0) (EvRandom v :: w_trace w0)) st1
               end) = (w', st', r) -> ext w' /\ (forall k', r = SegYield k' -> lg A k')).
    { intros w0 st0 L0 R0 X0 H0. cbv zeta in H0.
      destruct (rinv_record sch ms _ _ _ _ StRandom L0 R0) as [L1 R1].
      assert (X1 : ext (mkWorld (with_recorded (w_e w0) (StRandom :: recorded (w_e w0))) (w_s w0) (w_conts w0) (w_trace w0))).
      { apply ext_mono; [|exact X0]. intros t. apply fin_in_tasks. reflexivity. }
      destruct (s_next_u64 sch st0) as [[v|] st1].
      - destruct (rinv_evrandom sch ms _ _ _ _ v L1 R1) as [L2 R2].
        eapply (IH v (Hoks v) _ _ _ _ _ m); [| | |exact H0]; cbn [w_e w_conts w_trace]; try assumption.
        apply (ext_random (mkWorld _ _ _ _)). exact X1.
      - inversion H0; subst. split; [exact X1|discriminate]. }
    destruct (bound_exhausted ms (w_e w)).
    + pose proof (do_switch_inv sch ms w st m L R) as DS. pose proof (do_switch_ext w st X) as DX.
      destruct (do_switch sch ms w st) as [w1 st1|w1 st1|w1 st1].
      * destruct DS as (L1 & R1 & _). eapply Hdraw; eauto.
      * inversion H; subst. split; [exact DX|]. intros k' E; inversion E; subst. apply lg_rand; exact Hk.
      * inversion H; subst. split; [exact DX|discriminate].
    + eapply Hdraw; eauto.
  - (* SpawnNow *)
    cbn [run_seg] in H. apply code_ok_spawn_inv in Hok. destruct Hok as [Hokc Hoks].
    destruct (spawn_thread_now (w_e w)) as [[e1 tid]|] eqn:Esp.
    + destruct (rinv_spawn sch ms _ _ _ _ _ _ _ L R Esp Hokc) as [L1 R1].
      eapply (IH tid (Hoks tid) _ _ _ _ _ m); [| | |exact H]; cbn [w_e w_conts w_trace]; try assumption.
      apply ext_spawn; [|exact Hc|exact X]. intros t. eapply spawn_fin; [|exact Esp]. exact (wf_reset _ (li_wf _ _ _ _ _ L)).
    + inversion H; subst. split; [exact X|discriminate].
  - (* Log *)
    cbn [run_seg] in H. apply code_ok_log_inv in Hok.
    pose proof R as (Rc & _ & _ & tk & Hg & Hfin).
    unfold me in H. rewrite Rc in H. cbn [sched_id] in H.
    match type of H with run_seg _ _ _ (mkWorld _ _ _ (EvOp _ _ _ ?clk :: _)) _ = _ =>
      destruct (rinv_log sch ms _ _ _ _ tag vals clk L R) as [L1 R1];
      eapply (IH Hok (mkWorld (w_e w) (w_s w) (w_conts w) (EvOp m tag vals clk :: w_trace w)) _ _ _ _ m); [| | |exact H];
        cbn [w_e w_conts w_trace]; try assumption;
      eapply ext_op; eauto; intros t Ht; exfalso; exact (Ha t Ht)
    end.
Qed.

Theorem loop_ext : forall fuel w st w' st' out,
  LInv w -> ext w -> run_loop sch ms fuel w st = (w', st', out) -> ext w'.
Proof.
  induction fuel as [|fuel IH]; intros w st w' st' out L X H; cbn [run_loop] in H.
  - inversion H; subst. exact X.
  - destruct (schedule sch ms (w_e w) st) as [[[err e1] st1] evs] eqn:Hs.
    apply schedule_spec in Hs.
    destruct (sched_linv sch ms _ _ _ _ _ _ _ _ L Hs) as (L1 & T1 & Hcur & Hrec & Hnn & Hsb).
    pose proof (ext_sched _ _ _ _ _ _ Hs X) as X1.
    destruct err as [[|]|].
    + inversion H; subst. exact X1.
    + inversion H; subst. exact X1.
    + specialize (L1 ltac:(discriminate)). specialize (Hnn eq_refl). cbv zeta in H.
      rewrite advance_current in H. cbn [w_conts w_e w_s w_trace] in H.
      assert (X2 : ext (mkWorld (advance e1) (w_s w) (w_conts w) (evs ++ w_trace w))).
      { apply (ext_mono (mkWorld e1 (w_s w) (w_conts w) (evs ++ w_trace w))); [|exact X1].
        intros t. apply fin_in_tasks. apply advance_tasks. }
      destruct (next e1) as [|t| |] eqn:Hn1; [congruence| | |].
      * destruct (advance_rinv sch ms _ _ _ _ L1 Hn1) as [L2 R2].
        pose proof R2 as (Rc & Rn & Rl & tk & Hg & Hf).
        pose proof (li_conts _ _ _ _ _ L2) as (C1 & C2 & C3).
        destruct (C3 _ _ Hg Hf) as [c Hc]. rewrite Hc in H.
        pose proof (C2 _ _ Hc) as Hok.
        assert (Hlg : lg A c) by (apply (proj2 X2 t c); exact Hc).
        destruct (run_seg sch ms c (mkWorld (advance e1) (w_s w) (w_conts w) (evs ++ w_trace w)) st1)
          as [[w2 st2] r] eqn:Hseg.
        destruct (run_seg_inv sch ms c Hok (mkWorld (advance e1) (w_s w) (w_conts w) (evs ++ w_trace w)) _ _ _ _ t L2 R2 Hseg)
          as (Hc3 & Hle3 & Hr).
        destruct (seg_ext c Hlg Hok (mkWorld (advance e1) (w_s w) (w_conts w) (evs ++ w_trace w)) _ _ _ _ t L2 R2 X2 Hseg)
          as [X3 Hy].
        destruct r as [k| |].
        -- destruct Hr as [L3 Hk].
           assert (L4 : LInv (mkWorld (w_e w2) (w_s w2) (set_cont (w_conts w2) t (Some k)) (w_trace w2))).
           { unfold EngineInv.LInv; cbn [w_e w_conts w_trace]. apply linv_set_cont; assumption. }
           eapply (IH _ _ _ _ _ L4); [|exact H]. apply ext_set_cont; [auto| |exact X3].
           intros k0 E; inversion E; subst. apply Hy. reflexivity.
        -- destruct Hr as [L3 R3].
           destruct (rinv_finish sch ms _ _ _ _ L3 R3) as (e3 & Hfin & L4). rewrite Hfin in H.
           eapply (IH (mkWorld e3 (w_s w2) (set_cont (w_conts w2) t None) (w_trace w2)) _ _ _ _ L4); [|exact H].
           apply ext_set_cont; [|discriminate|exact X3]. intros t0. eapply finish_current_fin; exact Hfin.
        -- inversion H; subst. exact X3.
      * inversion H; subst. exact X2.
      * destruct (existsb _ (tasks (advance e1))); inversion H; subst; exact X2.
Qed.

Lemma tq_known_quiet : forall evs t, tq evs -> F t -> Forall (quiet t) evs.
Proof.
  induction evs as [|ev r IH]; intros t H Hk; [constructor|].
  destruct H as [H1 H2]. constructor; [apply H1; left; exact Hk|apply IH; assumption].
Qed.

Lemma tq_after_decision : forall a pre off cur y ch b t,
  tq (a ++ EvDecision pre off cur y ch :: b) -> fin_in pre t -> Forall (quiet t) a.
Proof.
  induction a as [|ev r IH]; intros pre off cur y ch b t H Hf; [constructor|].
  cbn [app tq] in H. destruct H as [H1 H2]. constructor.
  - apply H1. right; left. exists pre, off, cur, y, ch. split; [apply in_or_app; right; left; reflexivity|exact Hf].
  - eapply IH; eauto.
Qed.

Lemma tq_after_record : forall a m tag vals clk b t,
  tq (a ++ EvOp m tag vals clk :: b) -> A tag vals t -> Forall (quiet t) a.
Proof.
  induction a as [|ev r IH]; intros m tag vals clk b t H Ha; [constructor|].
  cbn [app tq] in H. destruct H as [H1 H2]. constructor.
  - apply H1. right; right. exists m, tag, vals, clk. split; [apply in_or_app; right; left; reflexivity|exact Ha].
  - eapply IH; eauto.
Qed.

End Quiet.

(* ---- consequences ---- *)
Definition no_record : N -> list N -> nat -> Prop := fun _ _ _ => False.
(* the record of a join certifies that the joined task has finished *)
Definition join_record : N -> list N -> nat -> Prop :=
  fun tag vals t => tag = TAG_JOIN /\ exists v, vals = [N.of_nat t; v].

Section QuietThms.
Context {SS : Type} (sch : scheduler SS) (ms : max_steps).
Notation LInv := (LInv sch ms).

Lemma ext_start : forall w, ext (fun t => fin_in (w_e w) t) (w_trace w) no_record w.
Proof.
  intros w. split.
  - exists []. split; [reflexivity|]. split; [exact I|].
    intros t [H|[(pre & off & cur & y & ch & [] & _)|(m & tag & vals & clk & [] & _)]]. exact H.
  - intros t c _. apply lg_trivial.
Qed.

(* from any point of a run on: a task finished there stays finished, and none of the later events involves it *)
Theorem finished_quiet_loop : forall fuel w st w' st' out t,
  LInv w -> fin_in (w_e w) t -> run_loop sch ms fuel w st = (w', st', out) ->
  fin_in (w_e w') t /\ exists evs, w_trace w' = evs ++ w_trace w /\ Forall (quiet t) evs.
Proof.
  intros fuel w st w' st' out t L Hf H.
  destruct (loop_ext sch ms _ _ _ fuel w st w' st' out L (ext_start w) H) as [(evs & Htr & [X Y]) _].
  split; [apply Y; left; exact Hf|]. exists evs. split; [exact Htr|].
  eapply tq_known_quiet; [exact X|exact Hf].
Qed.

Theorem finished_quiet_seg : forall c w st w' st' r m t,
  code_ok c -> LInv w -> running (w_e w) (w_trace w) m -> fin_in (w_e w) t ->
  run_seg sch ms c w st = (w', st', r) ->
  fin_in (w_e w') t /\ exists evs, w_trace w' = evs ++ w_trace w /\ Forall (quiet t) evs.
Proof.
  intros c w st w' st' r m t Hc L R Hf H.
  destruct (seg_ext sch ms _ _ _ c (lg_trivial c) Hc w st w' st' r m L R (ext_start w) H) as [[(evs & Htr & [X Y]) _] _].
  split; [apply Y; left; exact Hf|]. exists evs. split; [exact Htr|].
  eapply tq_known_quiet; [exact X|exact Hf].
Qed.

(* join: once the last block of join has run, the join is recorded and everything the joiner's segment does afterwards
   happens with the target finished; no event after the record involves the target *)
Theorem join_then_quiet_seg : forall target tag vals k w st w' st' r m,
  code_ok k -> LInv w -> running (w_e w) (w_trace w) m ->
  run_seg sch ms (atomic_u (join_final target) (Log tag vals k)) w st = (w', st', r) ->
  (join_final target (w_e w) (w_s w) = None /\ r = SegPanic /\ w' = w)
  \/ (fin_in (w_e w) target /\ fin_in (w_e w') target /\ m <> target
      /\ exists clk evs, w_trace w' = evs ++ EvOp m tag vals clk :: w_trace w /\ Forall (quiet target) evs).
Proof.
  intros target tag vals k w st w' st' r m Hk L R H.
  destruct (join_continues_after_finish sch ms _ _ _ _ _ _ _ H) as [(A & B & C & _)|(e1 & Ej & Hf & Hf1 & H1)]; [left; auto|right].
  assert (Fr : same_frame (w_e w) e1).
  { destruct (join_final_spec _ _ _ _ _ Ej) as (_ & _ & _ & m0 & tk & _ & _ & _ & Hu & _).
    eapply e_update_clock_frame; [exact (wf_reset _ (li_wf _ _ _ _ _ L))|exact Hu]. }
  destruct (rinv_atomic sch ms _ _ _ _ _ L R Fr) as [L1 R1].
  pose proof R1 as (Rc & _ & _ & tkm & Hgm & Hfm).
  assert (Hne : m <> target).
  { intros ->. destruct Hf1 as (tk & Hg & Hfin). congruence. }
  cbn [run_seg] in H1. unfold me in H1. cbn [w_e] in H1. rewrite Rc in H1. cbn [sched_id] in H1.
  match type of H1 with run_seg _ _ _ (mkWorld _ _ _ (EvOp _ _ _ ?clk :: _)) _ = _ =>
    destruct (rinv_log sch ms _ _ _ _ tag vals clk L1 R1) as [L2 R2];
    destruct (finished_quiet_seg k (mkWorld e1 (w_s w) (w_conts w) (EvOp m tag vals clk :: w_trace w))
                _ _ _ _ m target Hk L2 R2 Hf1 H1) as (Hf2 & evs & Htr & Hq);
    split; [exact Hf|]; split; [exact Hf2|]; split; [exact Hne|]; exists clk, evs; split; [exact Htr|exact Hq]
  end.
Qed.

End QuietThms.

Lemma ext_init : forall A main objs, lg A main -> ext (fun _ => False) [] A (init_world main objs).
Proof.
  intros A main objs Hm. split.
  - exists []. split; [reflexivity|]. split; [exact I|].
    intros t0 [[]|[(p & o & c & y0 & ch0 & [] & _)|(m & tag & vals & clk & [] & _)]].
  - cbn [init_world w_conts]. intros [|t] c Hn; cbn in Hn; [inversion Hn; subst; exact Hm|destruct t; discriminate].
Qed.

Lemma chrono_split_rev : forall w l1 ev l2, chrono w = l1 ++ ev :: l2 -> w_trace w = rev l2 ++ ev :: rev l1.
Proof.
  intros w l1 ev l2 Hc. unfold chrono in Hc.
  rewrite <- (rev_involutive (w_trace w)), Hc, rev_app_distr. cbn [rev]. rewrite <- app_assoc. reflexivity.
Qed.

(* whole runs: after any decision taken in a state in which t is finished, no event involves t; in particular t is
   never offered again, no operation of t is recorded, and (if the scheduler only answers offered tasks) t is never
   chosen again *)
Theorem finished_never_runs : forall SS (sch : scheduler SS) ms fuel main objs st w st' out,
  Run sch ms fuel main objs st w st' out ->
  forall l1 pre off cur y ch l2 t,
    chrono w = l1 ++ EvDecision pre off cur y ch :: l2 -> fin_in pre t ->
    Forall (quiet t) l2.
Proof.
  intros SS sch ms fuel main objs st w st' out [Hm H] l1 pre off cur y ch l2 t Hc Hf.
  unfold run_exec in H.
  destruct (loop_ext sch ms _ _ _ fuel _ _ _ _ _ (init_LInv _ sch ms main objs Hm) (ext_init no_record main objs (lg_trivial main)) H)
    as [(evs & Htr & [X _]) _].
  rewrite app_nil_r in Htr. subst evs.
  rewrite (chrono_split_rev _ _ _ _ Hc) in X.
  assert (Q : Forall (quiet t) (rev l2)) by (eapply tq_after_decision; [exact X|exact Hf]).
  apply Forall_rev in Q. rewrite rev_involutive in Q. exact Q.
Qed.

Corollary finished_never_chosen : forall SS (sch : scheduler SS) ms fuel main objs st w st' out,
  Run sch ms fuel main objs st w st' out -> sane sch ->
  forall l1 pre off cur y ch l2 t,
    chrono w = l1 ++ EvDecision pre off cur y ch :: l2 -> fin_in pre t ->
    forall pre' off' cur' y' ch', In (EvDecision pre' off' cur' y' ch') l2 -> ch' <> Some t.
Proof.
  intros SS sch ms fuel main objs st w st' out HR Hs l1 pre off cur y ch l2 t Hc Hf pre' off' cur' y' ch' Hin E.
  pose proof (finished_never_runs _ _ _ _ _ _ _ _ _ _ HR _ _ _ _ _ _ _ _ Hc Hf) as Q.
  rewrite Forall_forall in Q. specialize (Q _ Hin). cbn [quiet] in Q. destruct Q as [_ Hno].
  pose proof (run_post _ _ _ _ _ _ _ _ _ _ HR) as (_ & D & _).
  rewrite Forall_forall in D.
  assert (Hin' : In (EvDecision pre' off' cur' y' ch') (w_trace w)).
  { apply in_rev. fold (chrono w). rewrite Hc. apply in_or_app; right; right; exact Hin. }
  specialize (D _ Hin'). cbn [dec_ok] in D.
  destruct D as (_ & _ & _ & _ & _ & _ & _ & st0 & st1 & Hch). subst ch'.
  apply Hno. eapply Hs; exact Hch.
Qed.

(* whole runs of code in which every join record follows the last block of that join: once a join on t has been
   recorded, no later event involves t, and t is finished at the end *)
Theorem joined_never_runs : forall SS (sch : scheduler SS) ms fuel main objs st w st' out,
  Run sch ms fuel main objs st w st' out -> lg join_record main ->
  forall l1 m t v clk l2,
    chrono w = l1 ++ EvOp m TAG_JOIN [N.of_nat t; v] clk :: l2 ->
    Forall (quiet t) l2 /\ fin_in (w_e w) t.
Proof.
  intros SS sch ms fuel main objs st w st' out [Hm H] Hlg l1 m t v clk l2 Hc.
  unfold run_exec in H.
  destruct (loop_ext sch ms _ _ _ fuel _ _ _ _ _ (init_LInv _ sch ms main objs Hm) (ext_init join_record main objs Hlg) H)
    as [(evs & Htr & [X Y]) _].
  rewrite app_nil_r in Htr. subst evs.
  pose proof (chrono_split_rev _ _ _ _ Hc) as Hrev.
  assert (Hrec : join_record TAG_JOIN [N.of_nat t; v] t) by (split; [reflexivity|exists v; reflexivity]).
  split.
  - rewrite Hrev in X.
    assert (Q : Forall (quiet t) (rev l2)) by (eapply tq_after_record; [exact X|exact Hrec]).
    apply Forall_rev in Q. rewrite rev_involutive in Q. exact Q.
  - apply Y. right; right. exists m, TAG_JOIN, [N.of_nat t; v], clk. split; [|exact Hrec].
    rewrite Hrev. apply in_or_app; right; left; reflexivity.
Qed.

(* ---- the programs of Lang/Prog.v ---- *)
Notation J := join_record.

Ltac lg_log99 := apply lg_log; [let t0 := fresh in let E := fresh in intros t0 [E _]; discriminate E|].
Ltac lg_plain_log := lg_log99.

Lemma lg_atomic_u : forall f k, lg J k -> lg J (atomic_u f k).
Proof. intros; unfold atomic_u. apply lg_atomic. auto. Qed.
Lemma lg_atomic_b : forall f k, (forall b, lg J (k b)) -> lg J (atomic_b f k).
Proof. intros; unfold atomic_b. apply lg_atomic. auto. Qed.
Lemma lg_switch_if : forall b k, lg J k -> lg J (switch_if b k).
Proof. intros [|] k H; unfold switch_if; [apply lg_switch|]; exact H. Qed.

Lemma join_code_lg : forall t v k, lg J k -> lg J (join_code t (Log TAG_JOIN [N.of_nat t; v] k)).
Proof.
  intros t v k Hk. rewrite join_code_shape. apply lg_atomic_b. intros fin. apply lg_switch_if.
  apply lg_atomic_b. intros sb. apply lg_switch_if. apply lg_join; [|exact Hk].
  intros t0 [_ (v0 & E)]. inversion E as [[E1 E2]]. apply Nat2N.inj. symmetry. exact E1.
Qed.

Lemma publish_code_lg : lg J publish_code.
Proof. unfold publish_code. apply lg_atomic_u. apply lg_ret. Qed.

Lemma tls_loop_lg : forall n tls dtor k,
  (forall d k', lg J k' -> lg J (dtor d k')) -> lg J k -> lg J (tls_loop n tls dtor k).
Proof.
  induction n as [|n IH]; intros tls dtor k Hd Hk; [apply lg_panic|].
  rewrite tls_loop_S. apply lg_atomic. intros a. unfold tls_next.
  assert (Hrec : lg J (tls_loop n tls dtor k)) by (apply IH; assumption).
  repeat match goal with
         | |- lg _ (match ?x with _ => _ end) => destruct x
         end; try exact Hk; try exact Hrec.
  all: lg_plain_log;
       repeat match goal with
              | |- lg _ (match ?x with _ => _ end) => destruct x
              end; first [exact Hrec | apply Hd; exact Hrec].
Qed.

(* ---- all programs of Lang/Prog.v: the library operations record nothing of their own except the model's fuel
   marker (tag 99), so a join record can only come from the continuation handed to them ---- *)
Ltac lg_step :=
  match goal with
  | |- lg _ _ => assumption
  | |- lg _ Ret => apply lg_ret
  | |- lg _ Panic => apply lg_panic
  | |- lg _ (Switch _) => apply lg_switch
  | |- lg _ (atomic_u _ _) => apply lg_atomic_u
  | |- lg _ (atomic_b _ _) => apply lg_atomic_b; intros ?
  | |- lg _ (switch_if _ _) => apply lg_switch_if
  | |- lg _ (Atomic _ _) => apply lg_atomic; intros ?
  | |- lg _ (Log _ _ _) => lg_log99
  | |- lg _ (match ?x with _ => _ end) => destruct x
  | H : forall _, lg _ (?k _) |- lg _ (?k _) => apply H
  end.
Ltac lg_auto := repeat lg_step.

Lemma poll_loop_lg : forall fuel oid wid np kont, (forall b, lg J (kont b)) -> lg J (poll_loop fuel oid wid np kont).
Proof.
  induction fuel as [|f IH]; intros oid wid np kont Hk; cbn [poll_loop]; [lg_auto|].
  apply lg_atomic_b; intros sw. apply lg_switch_if. apply lg_atomic; intros a.
  assert (Hrec : lg J (poll_loop f oid wid false kont)) by (apply IH; exact Hk).
  lg_auto.
Qed.

Lemma acquire_blocking_lg : forall oid k kont, (forall b, lg J (kont b)) -> lg J (acquire_blocking oid k kont).
Proof. intros oid k kont Hk. unfold acquire_blocking. apply lg_atomic; intros a. lg_auto. apply poll_loop_lg; exact Hk. Qed.

Lemma sem_try_code_lg : forall oid k kont, (forall r, lg J (kont r)) -> lg J (sem_try_code oid k kont).
Proof. intros oid k kont Hk. unfold sem_try_code. lg_auto. Qed.

Lemma sem_release_code_lg : forall oid k kont, lg J kont -> lg J (sem_release_code oid k kont).
Proof. intros oid k kont Hk. unfold sem_release_code. lg_auto. Qed.

Lemma sem_close_code_lg : forall oid kont, lg J kont -> lg J (sem_close_code oid kont).
Proof. intros oid kont Hk. unfold sem_close_code. lg_auto. Qed.

Lemma mutex_lock_code_lg : forall oid kont, (forall r, lg J (kont r)) -> lg J (mutex_lock_code oid kont).
Proof.
  intros oid kont Hk. unfold mutex_lock_code. cbv zeta. apply lg_atomic_b; intros closed.
  destruct closed; [lg_auto|]. apply acquire_blocking_lg. intros ok. destruct ok; lg_auto.
Qed.

Lemma mutex_try_lock_code_lg : forall oid kont, (forall r, lg J (kont r)) -> lg J (mutex_try_lock_code oid kont).
Proof. intros oid kont Hk. unfold mutex_try_lock_code. apply sem_try_code_lg. intros r. destruct r; lg_auto. Qed.

Lemma mutex_unlock_code_lg : forall oid kont, lg J kont -> lg J (mutex_unlock_code oid kont).
Proof. intros oid kont Hk. unfold mutex_unlock_code. lg_auto. Qed.

Lemma rw_lock_code_lg : forall oid w kont, (forall r, lg J (kont r)) -> lg J (rw_lock_code oid w kont).
Proof.
  intros oid w kont Hk. unfold rw_lock_code. cbv zeta. apply lg_atomic_b; intros closed.
  destruct closed; [lg_auto|]. apply acquire_blocking_lg. intros ok. destruct ok; lg_auto.
Qed.

Lemma rw_try_code_lg : forall oid w kont, (forall r, lg J (kont r)) -> lg J (rw_try_code oid w kont).
Proof.
  intros oid w kont Hk. unfold rw_try_code. apply sem_try_code_lg. intros r. destruct r; try apply Hk.
  apply lg_atomic; intros a.
  repeat match goal with |- lg _ (match ?x with _ => _ end) => destruct x end;
    first [apply Hk | apply sem_release_code_lg; apply Hk].
Qed.

Lemma rw_unlock_code_lg : forall oid w kont, lg J kont -> lg J (rw_unlock_code oid w kont).
Proof. intros oid w kont Hk. unfold rw_unlock_code. lg_auto. Qed.

Lemma cv_wait_code_lg : forall cv m kont, (forall r, lg J (kont r)) -> lg J (cv_wait_code cv m kont).
Proof.
  intros cv m kont Hk. unfold cv_wait_code. apply mutex_unlock_code_lg. apply lg_atomic_u. apply lg_switch.
  apply lg_atomic_u. apply mutex_lock_code_lg. exact Hk.
Qed.

Lemma cv_notify_code_lg : forall cv all kont, lg J kont -> lg J (cv_notify_code cv all kont).
Proof. intros cv all kont Hk. unfold cv_notify_code. lg_auto. Qed.

Lemma chan_send_code_lg : forall ch v cb kont, (forall r, lg J (kont r)) -> lg J (chan_send_code ch v cb kont).
Proof. intros ch v cb kont Hk. unfold chan_send_code. cbv zeta. lg_auto. Qed.

Lemma chan_recv_code_lg : forall ch cb kont, (forall r, lg J (kont r)) -> lg J (chan_recv_code ch cb kont).
Proof. intros ch cb kont Hk. unfold chan_recv_code. cbv zeta. lg_auto. Qed.

Lemma recv_all_code_lg : forall n ch k, lg J k -> lg J (recv_all_code n ch k).
Proof.
  induction n as [|n IHn]; intros ch k Hk; cbn [recv_all_code]; [lg_log99; apply lg_panic|].
  apply chan_recv_code_lg. intros res. destruct res; try (lg_log99; apply IHn; exact Hk);
    (lg_log99; apply lg_atomic_u; lg_log99; exact Hk).
Qed.

Lemma barrier_wait_code_lg : forall b kont, (forall r, lg J (kont r)) -> lg J (barrier_wait_code b kont).
Proof.
  intros b kont Hk. unfold barrier_wait_code. apply lg_atomic_b; intros wb. apply lg_switch_if.
  apply lg_atomic; intros a. destruct a as [|ep [|blk [|x l]]]; try apply lg_panic. cbv zeta.
  destruct (N.eqb blk 1); lg_auto.
Qed.

Lemma call_once_code_lg : forall o mx body kont,
  (forall k, lg J k -> lg J (body k)) -> lg J kont -> lg J (call_once_code o mx body kont).
Proof.
  intros o mx body kont Hb Hk. unfold call_once_code. apply lg_atomic_b; intros need.
  destruct (negb need); [exact Hk|]. apply mutex_lock_code_lg. intros res.
  assert (Hu : lg J (mutex_unlock_code mx kont)) by (apply mutex_unlock_code_lg; exact Hk).
  destruct res; try apply lg_panic.
  - apply lg_atomic_b; intros done. destruct done; [exact Hu|]. apply Hb. apply lg_switch. apply lg_atomic_u. exact Hu.
  - apply lg_atomic_b; intros done. destruct done; [exact Hu|]. apply Hb. apply lg_switch. apply lg_atomic_u. exact Hu.
Qed.

Lemma suspend_lg : forall ctx jt on_abort retry, lg J on_abort -> lg J retry -> lg J (suspend ctx jt on_abort retry).
Proof.
  intros ctx jt on_abort retry Ha Hr. unfold suspend. apply lg_atomic_u. apply lg_switch.
  destruct ctx; [exact Hr|]. apply lg_atomic_b; intros ab. destruct ab; assumption.
Qed.

Lemma await_join_lg : forall fuel ctx jt target on_abort kont,
  lg J on_abort -> (forall r, lg J (kont r)) -> lg J (await_join fuel ctx jt target on_abort kont).
Proof.
  induction fuel as [|f IH]; intros ctx jt target on_abort kont Ha Hk; cbn [await_join]; [lg_auto|].
  apply lg_atomic; intros a.
  assert (Hs : lg J (suspend ctx jt on_abort (await_join f ctx jt target on_abort kont))).
  { apply suspend_lg; [exact Ha|]. apply IH; assumption. }
  repeat match goal with |- lg _ (match ?x with _ => _ end) => destruct x end; first [exact Hs | apply Hk].
Qed.

Lemma await_yield_lg : forall ctx jt on_abort kont, lg J on_abort -> lg J kont -> lg J (await_yield ctx jt on_abort kont).
Proof. intros ctx jt on_abort kont Ha Hk. unfold await_yield. apply lg_atomic_u. apply suspend_lg; assumption. Qed.

Lemma abort_code_lg : forall jt target kont, lg J kont -> lg J (abort_code jt target kont).
Proof. intros jt target kont Hk. unfold abort_code. lg_auto. Qed.

Lemma drop_guards_lg : forall logit gs k, lg J k -> lg J (drop_guards logit gs k).
Proof.
  intros logit gs k Hk. induction gs as [|[o w] r IH]; cbn [drop_guards]; [exact Hk|].
  apply lg_atomic; intros a.
  assert (H1 : lg J (mutex_unlock_code o (if logit then Log TAG_UNLOCK [N.of_nat o] (drop_guards logit r k) else drop_guards logit r k))).
  { apply mutex_unlock_code_lg. destruct logit; [lg_log99|]; exact IH. }
  assert (H2 : lg J (rw_unlock_code o w (if logit then Log TAG_RWUNLOCK [b2n w; N.of_nat o] (drop_guards logit r k) else drop_guards logit r k))).
  { apply rw_unlock_code_lg. destruct logit; [lg_log99|]; exact IH. }
  repeat match goal with |- lg _ (match ?x with _ => _ end) => destruct x end; first [exact H1 | exact H2].
Qed.

Lemma detach_all_lg : forall ahs k, lg J k -> lg J (detach_all ahs k).
Proof. intros ahs k Hk. induction ahs as [|t r IH]; cbn [detach_all]; [exact Hk|]. apply lg_atomic_u. exact IH. Qed.

Definition dtor_lg (dtor : nat -> code -> code) : Prop := forall d k', lg J k' -> lg J (dtor d k').

Lemma thread_fin_lg_all : forall tls dtor gs ahs, dtor_lg dtor -> lg J (thread_fin tls dtor gs ahs).
Proof.
  intros tls dtor gs ahs Hd. unfold thread_fin. lg_log99. apply drop_guards_lg. apply detach_all_lg.
  rewrite thread_epilogue_shape. apply lg_atomic_b. intros b. apply lg_switch_if.
  apply tls_loop_lg; [exact Hd|apply publish_code_lg].
Qed.

Lemma scoped_fin_lg_all : forall z tls dtor gs ahs, dtor_lg dtor -> lg J (scoped_fin z tls dtor gs ahs).
Proof.
  intros z tls dtor gs ahs Hd. unfold scoped_fin. lg_log99. apply drop_guards_lg. apply detach_all_lg.
  rewrite scoped_epilogue_shape. apply lg_atomic_b. intros b. apply lg_switch_if. apply lg_atomic_u.
  apply tls_loop_lg; [exact Hd|apply publish_code_lg].
Qed.

Lemma scope_end_lg : forall z k, lg J k -> lg J (scope_end z k).
Proof. intros z k Hk. rewrite scope_end_shape. apply lg_atomic_b. intros blk. apply lg_switch_if. exact Hk. Qed.

Lemma async_fin_lg : forall tls dtor jt v gs ahs, dtor_lg dtor -> lg J (async_fin tls dtor jt v gs ahs).
Proof.
  intros tls dtor jt v gs ahs Hd. unfold async_fin. lg_log99. apply drop_guards_lg. apply detach_all_lg.
  apply tls_loop_lg; [exact Hd|]. apply lg_atomic_u. apply lg_ret.
Qed.

Lemma async_abort_lg : forall tls dtor jt gs ahs, dtor_lg dtor -> lg J (async_abort tls dtor jt gs ahs).
Proof.
  intros tls dtor jt gs ahs Hd. unfold async_abort. apply drop_guards_lg. apply detach_all_lg.
  apply tls_loop_lg; [exact Hd|]. apply lg_atomic_u. apply lg_ret.
Qed.

Lemma comp_lg_all : forall fuel jt bodies b ctx fin outer,
  (forall gs ahs, lg J (fin gs ahs)) -> lg J (comp fuel jt bodies b ctx fin outer).
Proof.
  intros fuel jt bodies.
  induction fuel as [|f IHf]; intros b ctx fin outer Hfin; cbn [comp]; [apply lg_ret|].
  assert (Hd : dtor_lg (fun (d : nat) (k : code) =>
                 comp f jt bodies d CtxBlockOn (fun gs' ahs' => drop_guards true gs' (detach_all ahs' k)) [])).
  { intros d k' Hk'. apply IHf. intros gs' ahs'. apply drop_guards_lg. apply detach_all_lg. exact Hk'. }
  match goal with
  | |- lg _ (?g _ _ _ _ _) => assert (Hgo : forall ops hs js gs ahs, lg J (g ops hs js gs ahs))
  end.
  2:{ apply Hgo. }
  induction ops as [|o r IHr]; intros hs js gs ahs.
  - cbv beta match fix. apply Hfin.
  - destruct o; cbv beta match fix.
    + (* PSpawn *)
      apply lg_switch. apply lg_spawn.
      * apply IHf. intros gs' ahs'. apply thread_fin_lg_all. exact Hd.
      * intros tid. lg_log99. apply IHr.
    + (* PJoin *)
      destruct (nth_handle hs h) as [t|]; [|apply lg_panic].
      destruct (existsb (Nat.eqb h) js); [apply lg_panic|].
      apply join_code_lg. apply IHr.
    + (* PYield *)
      unfold yield_code. apply lg_atomic_u. apply lg_switch. lg_log99. apply IHr.
    + (* PPark *)
      unfold park_code. apply lg_atomic_b. intros sw. apply lg_switch_if. lg_log99. apply IHr.
    + (* PUnparkH *)
      destruct (nth_handle hs h) as [t|]; [|apply lg_panic].
      unfold unpark_code. apply lg_switch. apply lg_atomic_u. lg_log99. apply IHr.
    + (* PUnparkT *)
      unfold unpark_code. apply lg_switch. apply lg_atomic_u. lg_log99. apply IHr.
    + (* PRand *)
      apply lg_rand. intros v. lg_log99. apply IHr.
    + (* PAtomic *)
      unfold atomic_code. apply lg_switch. apply lg_atomic. intros ans.
      destruct ans as [|fl [|rt [|x l]]]; try apply lg_panic. lg_log99. apply IHr.
    + (* PResetSteps *)
      apply lg_atomic_u. lg_log99. apply IHr.
    + (* PPanic *)
      apply lg_atomic_u. apply drop_guards_lg. apply lg_panic.
    + (* PSemAcq *)
      apply acquire_blocking_lg. intros ok. lg_log99. apply IHr.
    + (* PSemTry *)
      apply sem_try_code_lg. intros res. lg_log99. apply IHr.
    + (* PSemRel *)
      apply sem_release_code_lg. lg_log99. apply IHr.
    + (* PSemClose *)
      apply sem_close_code_lg. lg_log99. apply IHr.
    + (* PSemAvail *)
      apply lg_atomic. intros a. lg_log99. apply IHr.
    + (* PLock *)
      apply mutex_lock_code_lg. intros res. lg_log99. apply IHr.
    + (* PTryLock *)
      apply mutex_try_lock_code_lg. intros res. lg_log99. apply IHr.
    + (* PUnlock *)
      destruct (take_guard m gs) as [[w gs']|]; [|apply lg_panic].
      apply mutex_unlock_code_lg. lg_log99. apply IHr.
    + (* PRwLock *)
      apply rw_lock_code_lg. intros res. lg_log99. apply IHr.
    + (* PRwTry *)
      apply rw_try_code_lg. intros res. lg_log99. apply IHr.
    + (* PRwUnlock *)
      destruct (take_guard r0 gs) as [[w gs']|]; [|apply lg_panic].
      apply rw_unlock_code_lg. lg_log99. apply IHr.
    + (* PCvWait *)
      destruct (take_guard m gs) as [[w gs']|]; [|apply lg_panic].
      apply cv_wait_code_lg. intros res. lg_log99. apply IHr.
    + (* PCvNotify *)
      apply cv_notify_code_lg. lg_log99. apply IHr.
    + (* PSend *)
      apply lg_atomic_b. intros alive. destruct alive; [|apply lg_panic].
      apply chan_send_code_lg. intros res. lg_log99. apply IHr.
    + (* PTrySend *)
      apply lg_atomic_b. intros alive. destruct alive; [|apply lg_panic].
      apply chan_send_code_lg. intros res. lg_log99. apply IHr.
    + (* PRecv *)
      apply lg_atomic_b. intros alive. destruct alive; [|apply lg_panic].
      apply chan_recv_code_lg. intros res. lg_log99. apply IHr.
    + (* PTryRecv *)
      apply lg_atomic_b. intros alive. destruct alive; [|apply lg_panic].
      apply chan_recv_code_lg. intros res. lg_log99. apply IHr.
    + (* PDropTx *)
      apply lg_atomic_b. intros alive. destruct alive; [|apply lg_panic].
      apply lg_atomic_u. lg_log99. apply IHr.
    + (* PDropRx *)
      apply lg_atomic_b. intros alive. destruct alive; [|apply lg_panic].
      apply lg_atomic_u. lg_log99. apply IHr.
    + (* PBarrier *)
      apply barrier_wait_code_lg. intros leader. lg_log99. apply IHr.
    + (* PCallOnce *)
      apply lg_atomic. intros a. destruct a as [|mx [|x l]]; try apply lg_panic.
      apply call_once_code_lg.
      * intros k Hk. lg_log99. apply IHf. intros gs' ahs'. apply drop_guards_lg. apply detach_all_lg. exact Hk.
      * lg_log99. apply IHr.
    + (* PIsCompleted *)
      apply lg_switch. apply lg_atomic_b. intros c. lg_log99. apply IHr.
    + (* PASpawn *)
      apply lg_switch. apply lg_spawn.
      * apply lg_atomic_b. intros ab. destruct ab; [apply async_abort_lg; exact Hd|]. apply IHf. intros gs' ahs'. apply async_fin_lg. exact Hd.
      * intros tid. apply lg_atomic_u. lg_log99. apply IHr.
    + (* PAwait *)
      destruct (nth_error ahs h) as [[t [|]]|]; try apply lg_panic.
      apply await_join_lg; [apply async_abort_lg; exact Hd|]. intros res. lg_log99. apply lg_atomic_u. apply IHr.
    + (* PAbort *)
      destruct (nth_error ahs h) as [[t [|]]|]; try apply lg_panic.
      apply abort_code_lg. lg_log99. apply IHr.
    + (* PDetach *)
      destruct (nth_error ahs h) as [[t [|]]|]; try apply lg_panic.
      apply lg_atomic_u. lg_log99. apply IHr.
    + (* PAYield *)
      apply await_yield_lg; [apply async_abort_lg; exact Hd|]. lg_log99. apply IHr.
    + (* PBlockOn *)
      lg_log99. apply IHf. intros gs' ahs'. apply drop_guards_lg. apply detach_all_lg. lg_log99. apply IHr.
    + (* PIsFinished *)
      destruct (nth_error ahs h) as [[t [|]]|]; try apply lg_panic.
      apply lg_atomic_b. intros c. lg_log99. apply IHr.
    + (* PTlsWith *)
      apply lg_atomic. intros a. lg_log99. apply IHr.
    + (* PThreadId *)
      apply lg_atomic. intros a. lg_log99. apply IHr.
    + (* PScope *)
      apply lg_atomic_u. lg_log99. apply IHf. intros gs' ahs'. apply drop_guards_lg. apply detach_all_lg.
      apply scope_end_lg. lg_log99. apply IHr.
    + (* PScopeSpawn *)
      apply lg_atomic_u. apply lg_switch. apply lg_spawn.
      * apply IHf. intros gs' ahs'. apply scoped_fin_lg_all. exact Hd.
      * intros tid. lg_log99. apply IHr.
    + (* PAcqNew *)
      unfold acq_new_code. apply lg_atomic_u. lg_log99. apply IHr.
    + (* PAcqPoll *)
      unfold acq_poll_code. apply lg_atomic; intros a.
      repeat first [ lg_log99; apply IHr | lg_step ].
    + (* PAcqDrop *)
      unfold acq_drop_code. apply lg_atomic; intros a.
      repeat first [ lg_log99; apply IHr | (apply sem_release_code_lg; lg_log99; apply IHr) | lg_step ].
    + (* PRecvAll *)
      apply lg_atomic_b. intros alive. destruct alive; [|apply lg_panic].
      apply recv_all_code_lg. apply IHr.
Qed.

(* every program of Lang/Prog.v records a join only right after the last block of that join *)
Theorem compile_lg_all : forall jt bodies, lg join_record (compile jt bodies).
Proof.
  intros jt bodies. unfold compile. apply comp_lg_all.
  intros gs ahs. apply thread_fin_lg_all.
  intros d k' Hk'. unfold top_dtor. apply comp_lg_all.
  intros gs' ahs'. apply drop_guards_lg. apply detach_all_lg. exact Hk'.
Qed.

(* hence, for every program and every schedule: once a join on t has been recorded (the JoinHandle::join call has
   returned), no later event of the execution involves t - it is not offered, not chosen by a scheduler that answers
   offered tasks, records no operation - and t is finished at the end *)
Theorem join_returned_never_runs : forall fuel ms objs bodies script seed w st' out,
  run_prog fuel ms objs bodies script seed = (w, st', out) ->
  forall l1 m t v clk l2,
    chrono w = l1 ++ EvOp m TAG_JOIN [N.of_nat t; v] clk :: l2 ->
    Forall (quiet t) l2 /\ fin_in (w_e w) t.
Proof.
  intros fuel ms objs bodies script seed w st' out H.
  eapply joined_never_runs; [split; [apply ProgOk.compile_ok|exact H]|apply compile_lg_all].
Qed.

(* ================================================================== *)
(* C2: thread::scope as a transition system                            *)
(* ================================================================== *)
(* where the scope's main task is: running the scope body, waiting at the end of scope(), or returned from scope() *)
Inductive scope_pc := MBody | MWaiting | MReturned.

Record scope_abs := mkScopeAbs {
  sa_running : nat;        (* Scope.num_running_threads *)
  sa_waiting : bool;       (* the flag added by the repair: the main task waits at the end of scope() *)
  sa_pc : scope_pc;
  sa_blocked : bool;       (* the main task is blocked at the end of scope() *)
  sa_spawned : nat;        (* ghost: scoped threads spawned *)
  sa_ended : nat;          (* ghost: scoped threads whose closure has returned *)
}.

Definition scope_init : scope_abs := mkScopeAbs 0 false MBody false 0 0.

Inductive scope_step : scope_abs -> scope_abs -> Prop :=
| SS_spawn s :      (* s.spawn: by the main task inside the body, or by a scoped thread that is still running *)
    sa_pc s = MBody \/ 0 < sa_running s ->
    scope_step s (mkScopeAbs (S (sa_running s)) (sa_waiting s) (sa_pc s) (sa_blocked s) (S (sa_spawned s)) (sa_ended s))
| SS_closure_end s r :   (* the exit block of a scoped thread *)
    sa_running s = S r ->
    scope_step s (mkScopeAbs r (sa_waiting s) (sa_pc s)
                    (if Nat.eqb r 0 && sa_waiting s then false else sa_blocked s) (sa_spawned s) (S (sa_ended s)))
| SS_end_pass s :        (* the end of scope() finds no scoped thread running *)
    sa_pc s = MBody -> sa_running s = 0 ->
    scope_step s (mkScopeAbs 0 (sa_waiting s) MReturned false (sa_spawned s) (sa_ended s))
| SS_end_block s :       (* the end of scope() blocks *)
    sa_pc s = MBody -> sa_running s <> 0 ->
    scope_step s (mkScopeAbs (sa_running s) true MWaiting true (sa_spawned s) (sa_ended s))
| SS_end_wake s :        (* the blocked main task has been unblocked and is scheduled again *)
    sa_pc s = MWaiting -> sa_blocked s = false ->
    scope_step s (mkScopeAbs (sa_running s) (sa_waiting s) MReturned false (sa_spawned s) (sa_ended s)).

Inductive scope_reach : scope_abs -> Prop :=
| SR_init : scope_reach scope_init
| SR_step s s' : scope_reach s -> scope_step s s' -> scope_reach s'.

Definition scope_inv (s : scope_abs) : Prop :=
  sa_running s + sa_ended s = sa_spawned s
  /\ (sa_waiting s = true -> sa_pc s <> MBody)
  /\ (sa_pc s = MBody -> sa_blocked s = false)
  /\ (sa_pc s = MWaiting -> sa_waiting s = true)
  /\ (sa_pc s = MWaiting -> sa_blocked s = false -> sa_running s = 0)
  /\ (sa_pc s = MReturned -> sa_running s = 0).

Lemma scope_inv_init : scope_inv scope_init.
Proof. unfold scope_inv, scope_init; cbn. repeat split; auto; try discriminate. Qed.

Ltac scope_split := split; [|split; [|split; [|split; [|split]]]].

Lemma scope_inv_step : forall s s', scope_inv s -> scope_step s s' -> scope_inv s'.
Proof.
  intros s s' (I1 & I2 & I3 & I4 & I5 & I6) St.
  destruct St as [s Hp | s r Hr | s Hp Hr | s Hp Hr | s Hp Hb]; unfold scope_inv;
    cbn [sa_running sa_waiting sa_pc sa_blocked sa_spawned sa_ended]; scope_split.
  - lia.
  - exact I2.
  - exact I3.
  - exact I4.
  - intros Hw Hb. specialize (I5 Hw Hb). destruct Hp as [Hp|Hp]; [congruence|lia].
  - intros Hret. specialize (I6 Hret). destruct Hp as [Hp|Hp]; [congruence|lia].
  - lia.
  - exact I2.
  - intros Hp. specialize (I3 Hp). destruct (Nat.eqb r 0 && sa_waiting s); auto.
  - exact I4.
  - intros Hp Hb. destruct (Nat.eqb r 0) eqn:Er; [apply Nat.eqb_eq in Er; exact Er|].
    cbn [andb] in Hb. specialize (I5 Hp Hb). lia.
  - intros Hp. specialize (I6 Hp). lia.
  - lia.
  - intros _; discriminate.
  - discriminate.
  - discriminate.
  - discriminate.
  - reflexivity.
  - lia.
  - intros _; discriminate.
  - discriminate.
  - reflexivity.
  - intros _; discriminate.
  - discriminate.
  - lia.
  - intros _; discriminate.
  - discriminate.
  - discriminate.
  - discriminate.
  - intros _. apply I5; assumption.
Qed.

Theorem scope_reach_inv : forall s, scope_reach s -> scope_inv s.
Proof. induction 1; [apply scope_inv_init|eapply scope_inv_step; eauto]. Qed.

(* running = spawned - ended, always *)
Theorem scope_count : forall s, scope_reach s -> sa_running s + sa_ended s = sa_spawned s.
Proof. intros s H. apply (scope_reach_inv s H). Qed.

(* scope() returns only when every scoped thread's closure has ended *)
Theorem scope_returns_after_all : forall s, scope_reach s -> sa_pc s = MReturned -> sa_ended s = sa_spawned s.
Proof.
  intros s H Hp. destruct (scope_reach_inv s H) as (I1 & _ & _ & _ & _ & I6). specialize (I6 Hp). lia.
Qed.

(* the step by which it returns happens with nothing running *)
Theorem scope_return_step : forall s s', scope_reach s -> scope_step s s' -> sa_pc s <> MReturned -> sa_pc s' = MReturned ->
  sa_running s = 0 /\ sa_ended s = sa_spawned s.
Proof.
  intros s s' H St Hn Hr. destruct (scope_reach_inv s H) as (I1 & _ & _ & _ & I5 & _).
  destruct St as [s Hp | s r Hr0 | s Hp Hr0 | s Hp Hr0 | s Hp Hb]; cbn [sa_pc] in Hr; try congruence.
  - split; [exact Hr0|lia].
  - specialize (I5 Hp Hb). split; [exact I5|lia].
Qed.

(* the main task is unblocked by a scoped thread only while it waits at the end of scope(), blocked there *)
Theorem scope_unblock_only_waiting : forall s r, scope_reach s -> sa_running s = S r ->
  Nat.eqb r 0 && sa_waiting s = true -> sa_pc s = MWaiting /\ sa_blocked s = true.
Proof.
  intros s r H Hr Hc. destruct (scope_reach_inv s H) as (I1 & I2 & I3 & I4 & I5 & I6).
  apply andb_true_iff in Hc. destruct Hc as [_ Hw]. specialize (I2 Hw).
  destruct (sa_pc s) eqn:Hp; [congruence| |specialize (I6 eq_refl); lia].
  split; [reflexivity|]. destruct (sa_blocked s) eqn:Hb; [reflexivity|]. specialize (I5 eq_refl eq_refl). lia.
Qed.

(* once returned, nothing more happens to the scope *)
Theorem scope_returned_final : forall s s', scope_reach s -> sa_pc s = MReturned -> ~ scope_step s s'.
Proof.
  intros s s' H Hp St. destruct (scope_reach_inv s H) as (_ & _ & _ & _ & _ & I6). specialize (I6 Hp).
  destruct St as [s [Hq|Hq] | s r Hr | s Hq Hr | s Hq Hr | s Hq Hb]; try congruence; lia.
Qed.

(* ---- the concrete blocks perform the abstract steps on (running, waiting) ---- *)
Definition scope_rep (st : store) (z : nat) (s : scope_abs) : Prop :=
  exists m, scope_get st z = Some (sa_running s, m, sa_waiting s).

Theorem scope_spawn_refines : forall z e st e' st' s,
  scope_rep st z s -> sa_pc s = MBody \/ 0 < sa_running s ->
  scope_spawn_block z e st = Some (e', st') ->
  exists s', scope_step s s' /\ scope_rep st' z s' /\ e' = e.
Proof.
  intros z e st e' st' s [m Hg] Hp H. apply scope_spawn_block_spec in H.
  destruct H as (-> & r & m0 & w & Hg0 & Hg1). rewrite Hg in Hg0. inversion Hg0; subst.
  eexists. split; [apply SS_spawn; exact Hp|]. split; [|reflexivity]. exists m0. exact Hg1.
Qed.

Theorem scoped_exit_refines : forall z e st e' st' s,
  scope_rep st z s -> scoped_exit_block z e st = Some (e', st') ->
  exists s' r, sa_running s = S r /\ scope_step s s' /\ scope_rep st' z s'
    /\ (sa_blocked s' <> sa_blocked s -> exists m, scope_get st z = Some (S r, m, true) /\ e_unblock e m = Some e')
    /\ (Nat.eqb r 0 && sa_waiting s = false -> e' = e).
Proof.
  intros z e st e' st' s [m Hg] H. apply scoped_exit_block_spec in H.
  destruct H as (r & m0 & w & Hg0 & _ & Hg1 & Hcase). rewrite Hg in Hg0. inversion Hg0 as [[Hr Hm Hw]]. subst m0 w.
  eexists. exists r. split; [exact Hr|]. split; [apply (SS_closure_end s r Hr)|].
  split; [exists m; exact Hg1|]. cbn [sa_blocked]. split.
  - intros Hb. destruct Hcase as [(-> & Hw' & Hu)|(Hn & ->)].
    + exists m. rewrite Hg, Hr, Hw'. auto.
    + exfalso. apply Hb. destruct (Nat.eqb r 0) eqn:Er; [|reflexivity]. destruct (sa_waiting s) eqn:Ew; [|reflexivity].
      apply Nat.eqb_eq in Er. exfalso; apply Hn; auto.
  - intros Hc. destruct Hcase as [(-> & Hw' & Hu)|(Hn & ->)]; [|reflexivity].
    rewrite Hw' in Hc. discriminate.
Qed.

Theorem scope_end_refines : forall z e st e' st' blk s,
  scope_rep st z s -> sa_pc s = MBody ->
  scope_end_block z e st = Some (e', st', blk) ->
  exists s', scope_step s s' /\ scope_rep st' z s' /\ blk = sa_blocked s'
    /\ (blk = false -> sa_pc s' = MReturned /\ e' = e)
    /\ (blk = true -> sa_pc s' = MWaiting /\ exists m, me e = Some m /\ e_block e m false = Some e').
Proof.
  intros z e st e' st' blk s [m Hg] Hp H. apply scope_end_block_spec in H.
  destruct H as (m0 & r & mt & w & Hm & Hg0 & Hblk & Hcase). rewrite Hg in Hg0. inversion Hg0; subst r mt w.
  destruct Hcase as [(Hr & -> & ->)|(Hr & Hb & -> & Hg1)].
  - eexists. split; [apply SS_end_pass; assumption|]. cbn [sa_blocked sa_pc].
    rewrite Hr in Hblk; cbn in Hblk. subst blk.
    split; [exists m; cbn [sa_running sa_waiting]; rewrite <- Hr; exact Hg|].
    split; [reflexivity|]. split; [auto|discriminate].
  - eexists. split; [apply SS_end_block; assumption|]. cbn [sa_blocked sa_pc].
    assert (blk = true) as -> by (rewrite Hblk; destruct (sa_running s); [congruence|reflexivity]).
    split; [exists m; exact Hg1|]. split; [reflexivity|]. split; [discriminate|].
    intros _. split; [reflexivity|]. exists m0; auto.
Qed.

(* ================================================================== *)
(* thread ids; the end of a thread's closure                           *)
(* ================================================================== *)
(* spawn hands out a fresh id: the next position of the task table *)
Theorem spawn_fresh_id : forall e e' tid, rok e -> spawn_thread_now e = Some (e', tid) ->
  tid = length (tasks e) /\ get_task e tid = None /\ length (tasks e') = S (length (tasks e))
  /\ (exists tk, get_task e' tid = Some tk /\ t_state tk = Runnable /\ t_waiter tk = None)
  /\ current e' = current e.
Proof.
  intros e e' tid Hr H. destruct (spawn_inv _ _ _ Hr H) as (e2 & c & Fr & Htid & ->).
  pose proof Fr as (A1 & _ & _ & _ & _ & _ & _ & A8 & _).
  split; [exact Htid|]. split; [subst tid; unfold get_task; apply nth_error_None; lia|].
  cbn [tasks with_live with_tasks current]. rewrite app_length, A8. cbn [length]. split; [lia|]. split; [|exact A1].
  exists (mkTask Runnable false false false false None c). split; [|split; reflexivity].
  unfold get_task; cbn [tasks with_live with_tasks]. rewrite nth_error_app2 by lia.
  rewrite Htid, A8, Nat.sub_diag. reflexivity.
Qed.

(* thread::current().id() inside a thread is that thread's task id *)
Definition thread_id_block : exec -> store -> option (exec * store * list N) :=
  fun e st => match me e with Some m => Some (e, st, [N.of_nat m; 1%N]) | None => None end.
Theorem thread_id_block_spec : forall e st e' st' a,
  thread_id_block e st = Some (e', st', a) -> e' = e /\ st' = st /\ exists m, current e = SSome m /\ a = [N.of_nat m; 1%N].
Proof.
  intros e st e' st' a H. unfold thread_id_block, me in H. destruct (current e) as [|m| |] eqn:Hc; try discriminate.
  cbn in H. inversion H; subst. repeat split; auto. exists m; auto.
Qed.

(* a thread that holds no guards and no async handles at the end of its closure *)
Theorem thread_fin_drains : forall tls dtor,
  dtor_drains tls publish_code dtor -> drains tls publish_code (thread_fin tls dtor [] []).
Proof. intros tls dtor Hd. unfold thread_fin. cbn [drop_guards detach_all]. apply dr_log. apply thread_epilogue_drains; exact Hd. Qed.

Theorem scoped_fin_drains : forall z tls dtor,
  dtor_drains tls publish_code dtor -> drains tls publish_code (scoped_fin z tls dtor [] []).
Proof. intros z tls dtor Hd. unfold scoped_fin. cbn [drop_guards detach_all]. apply dr_log. apply scoped_epilogue_drains; exact Hd. Qed.

(* publish_code: the waiter registered by join, if any, is unblocked; nothing else *)
Definition publish_block : exec -> store -> option (exec * store) :=
  fun e s => match me e with
             | None => None
             | Some t =>
               match e_take_waiter e t with
               | None => None
               | Some (e', None) => Some (e', s)
               | Some (e', Some w) => match e_unblock e' w with Some e'' => Some (e'', s) | None => None end
               end
             end.
Lemma publish_code_shape : publish_code = atomic_u publish_block Ret.
Proof. reflexivity. Qed.

Theorem publish_block_spec : forall e s e' s',
  publish_block e s = Some (e', s') ->
  s' = s /\ exists t tk, me e = Some t /\ get_task e t = Some tk
    /\ match t_waiter tk with
       | None => e' = with_tasks e (list_upd (tasks e) t (fun tk => set_waiter_f tk None))
       | Some w => e_unblock (with_tasks e (list_upd (tasks e) t (fun tk => set_waiter_f tk None))) w = Some e'
       end.
Proof.
  intros e s e' s' H. unfold publish_block in H.
  destruct (me e) as [t|]; [|discriminate].
  unfold e_take_waiter in H. destruct (get_task e t) as [tk|] eqn:Hg; [|discriminate].
  rewrite (upd_task_some _ _ _ _ Hg) in H.
  destruct (t_waiter tk) as [w|] eqn:Hw.
  - destruct (e_unblock _ w) as [e2|] eqn:Eu; [|discriminate]. inversion H; subst.
    split; [reflexivity|]. exists t, tk. rewrite Hw. auto.
  - inversion H; subst. split; [reflexivity|]. exists t, tk. rewrite Hw. auto.
Qed.
