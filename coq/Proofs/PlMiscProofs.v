(* C20 — DashMap: the contents after any sequence of table blocks are the fold of the abstract steps; rand adapters: each
   entry point's value is the pure function of the drawn words the model uses (Lang/PlOps.v). *)
From Coq Require Import List NArith Bool Arith Lia.
From SV Require Import Clock.VClock Prim.Objects Engine.Exec Lang.PlMap Lang.PlOps.
From SV Require Sched.Random.
Import ListNotations.

(* ---------------- DashMap ---------------- *)
Lemma pairs_flat : forall m, pairs_of (flat_of m) = m.
Proof. induction m as [|[k v] r IH]; simpl; [reflexivity|rewrite IH; reflexivity]. Qed.

Lemma get_set_same : forall st i x y, get_obj st i = Some y -> get_obj (set_obj st i x) i = Some x.
Proof.
  unfold get_obj. induction st as [|a r IH]; intros i x y H; destruct i; simpl in *; try discriminate; [reflexivity|eapply IH; eauto].
Qed.

(* the table blocks of the operations that completed, in the order in which they ran (= the order in which the operations
   held the lock: writers exclude everybody, Props/C04.v), each possibly run by another task in another engine state *)
Fixpoint dm_run (o : nat) (fs : list (exec * (amap -> amap * list N))) (st : store) : option (store * list (list N)) :=
  match fs with
  | [] => Some (st, [])
  | (e, f) :: r => match dm_block o f e st with
                   | Some (_, st', out) => match dm_run o r st' with Some (st'', outs) => Some (st'', out :: outs) | None => None end
                   | None => None end
  end.

(* the same operations on the plain map *)
Fixpoint spec_run (fs : list (exec * (amap -> amap * list N))) (m : amap) : amap * list (list N) :=
  match fs with
  | [] => (m, [])
  | (_, f) :: r => let '(m', out) := f m in let '(m'', outs) := spec_run r m' in (m'', out :: outs)
  end.

Theorem dashmap_contents_fold : forall o fs st m c,
  get_obj st (MAPCELL o) = Some (OCell (flat_of m) c) ->
  exists st', dm_run o fs st = Some (st', snd (spec_run fs m)) /\
              get_obj st' (MAPCELL o) = Some (OCell (flat_of (fst (spec_run fs m))) c).
Proof.
  intros o. induction fs as [|[e f] r IH]; intros st m c H; simpl.
  - exists st. auto.
  - unfold dm_block. rewrite H, pairs_flat. destruct (f m) as [m' out] eqn:F.
    assert (H' : get_obj (set_obj st (MAPCELL o) (OCell (flat_of m') c)) (MAPCELL o) = Some (OCell (flat_of m') c)) by (eapply get_set_same; eauto).
    destruct (IH _ m' c H') as (st' & Hr & Hg). rewrite Hr. destruct (spec_run r m') as [m'' outs]. simpl in *. exists st'. auto.
Qed.

(* ---------------- rand adapters ---------------- *)
(* feeding drawn words to a call tree that only draws *)
Fixpoint feed (c : code) (vs : list N) {struct vs} : code :=
  match vs with [] => c | v :: r => match c with Rand k => feed (k v) r | _ => c end end.

Lemma rand_n_feed : forall n acc k vs, length vs = n -> feed (rand_n n acc k) vs = k (rev acc ++ vs).
Proof.
  induction n as [|n IH]; intros acc k vs H; destruct vs as [|v r]; simpl in H; try discriminate.
  - cbn [rand_n feed]. rewrite app_nil_r. reflexivity.
  - cbn [rand_n feed]. rewrite IH by lia. cbn [rev]. rewrite <- app_assoc. reflexivity.
Qed.

(* fill_bytes(n): ceil(n/8) words, the first n of their little-endian bytes *)
Theorem fill_bytes_value : forall n k vs, length vs = Nat.div (n + 7) 8 ->
  feed (fill_bytes_code n k) vs = k (firstn n (flat_map (le_bytes 8) vs)).
Proof. intros n k vs H. unfold fill_bytes_code. rewrite rand_n_feed by assumption. reflexivity. Qed.

Lemma le_bytes_length : forall n v, length (le_bytes n v) = n.
Proof. induction n; intros v; simpl; [reflexivity|rewrite IHn; reflexivity]. Qed.

Lemma le_bytes_byte : forall n v b, In b (le_bytes n v) -> (b < 256)%N.
Proof.
  induction n; intros v b H; simpl in H; [contradiction|]. destruct H as [<-|H]; [apply N.mod_lt; discriminate|eapply IHn; eauto].
Qed.

(* gen_range(0..n): the words rejected by rand's zone test are skipped, the first accepted word decides *)
Theorem gen_range_value : forall rej v hi fuel n k,
  Forall (fun x => Random.accept_w 64 n x = None) rej -> Random.accept_w 64 n v = Some hi -> (length rej < fuel)%nat ->
  feed (gen_range_code fuel n k) (rej ++ [v]) = k hi.
Proof.
  induction rej as [|x r IH]; intros v hi fuel n k Hr Ha Hf; destruct fuel as [|f]; simpl in Hf; try lia; simpl.
  - rewrite Ha. reflexivity.
  - inversion Hr; subst. rewrite H1. apply IH; auto. lia.
Qed.

(* the single-word entry points, as the model computes them *)
Definition v_next_u32 (v : N) : N := (v mod 4294967296)%N.
Definition v_bool (v : N) : bool := N.leb 2147483648 (v mod 4294967296).
Theorem next_u32_is_low_half : forall v, (v_next_u32 v < 4294967296)%N /\ (exists hi, v = hi * 4294967296 + v_next_u32 v)%N.
Proof.
  intros v. unfold v_next_u32. split; [apply N.mod_lt; discriminate|].
  exists (v / 4294967296)%N. rewrite N.mul_comm. apply N.div_mod'.
Qed.
