(* The Condvar / mpsc / Barrier / Once operations (Lang/SyncOps2.v) and the async executor's
   operations (Lang/AsyncOps.v) are trees of blocks that respect the strong frame, hence any frame
   relation F implied by it.  No Admitted / Axiom. *)
From Coq Require Import List NArith Bool Arith Lia.
From SV Require Import Params Clock.VClock Prim.Objects Engine.Exec Engine.Inv Prim.Semaphore Lang.Code Lang.SyncOps Lang.SyncOps2 Lang.AsyncOps Proofs.EngineBase Proofs.ThreadOk Proofs.SemFrame Proofs.SyncFrame Proofs.SyncOk.
Import ListNotations.

Lemma on_chan_inv : forall A st ch (f : chan -> option A) a,
  on_chan st ch f = Some a -> exists c, f c = Some a.
Proof.
  intros A st ch f a H. unfold on_chan in H.
  destruct (get_obj st ch) as [o|]; [|discriminate].
  destruct o; try discriminate. eexists; exact H.
Qed.

Section Sync2Ok.
Variable F : exec -> exec -> Prop.
Hypothesis HF : forall e e', sframe e e' -> F e e'.

(* ------------------------------------------------------------------ *)
(* Condvar                                                             *)
(* ------------------------------------------------------------------ *)
Lemma cv_wait_code_okP : forall cv m kont,
  (forall r, code_okP F (kont r)) -> code_okP F (cv_wait_code cv m kont).
Proof.
  intros cv m kont Hk. unfold cv_wait_code.
  apply (mutex_unlock_code_okP F HF).
  apply (atomic_u_okP F HF).
  - intros e s e' s' Hr H. eapply cv_enqueue_sframe; [exact Hr|exact H].
  - apply okP_switch. apply (atomic_u_okP F HF).
    + intros e s e' s' Hr H. eapply cv_wake_sframe; [exact Hr|exact H].
    + apply (mutex_lock_code_okP F HF). exact Hk.
Qed.

Lemma cv_notify_code_okP : forall cv all kont,
  code_okP F kont -> code_okP F (cv_notify_code cv all kont).
Proof.
  intros cv all kont Hk. unfold cv_notify_code. apply okP_switch.
  apply (atomic_u_okP F HF); [|exact Hk].
  intros e s e' s' Hr H. destruct all.
  - eapply cv_notify_all_sframe; [exact Hr|exact H].
  - eapply cv_notify_one_sframe; [exact Hr|exact H].
Qed.

(* ------------------------------------------------------------------ *)
(* mpsc                                                                *)
(* ------------------------------------------------------------------ *)
Lemma chan_send_code_okP : forall ch v cb kont,
  (forall r, code_okP F (kont r)) -> code_okP F (chan_send_code ch v cb kont).
Proof.
  intros ch v cb kont Hk. cbv beta delta [chan_send_code].
  match goal with |- code_okP _ (let d := ?X in @?B d) => assert (Hd : code_okP F X) end.
  { apply (atomic_u_okP F HF); [|apply Hk].
    intros e s e' s' Hr H. apply on_chan_inv in H. destruct H as [c H].
    destruct (chan_send_deliver e c v) as [[e1 c1]|] eqn:E; [|discriminate].
    inversion H; subst. eapply chan_send_deliver_sframe; [exact Hr|exact E]. }
  cbv zeta. apply okP_switch. apply (atomic_okP_intro F HF).
  - intros e s e' s' a Hr H. apply on_chan_inv in H. destruct H as [c H].
    destruct (chan_send_pre e c cb) as [[[e1 c1] r]|] eqn:E; [|discriminate].
    inversion H; subst. eapply chan_send_pre_sframe; [exact Hr|exact E].
  - intros a.
    match goal with |- code_okP _ (match a with nil => ?W | _ => _ end) => assert (Hw : code_okP F W) end.
    { apply okP_switch. apply (atomic_okP_intro F HF).
      - intros e s e' s' a2 Hr H. apply on_chan_inv in H. destruct H as [c H].
        destruct (chan_send_woken e c) as [[[e1 c1] r]|] eqn:E; [|discriminate].
        inversion H; subst. eapply chan_send_woken_sframe; [exact Hr|exact E].
      - intros a2. split_ans; first [exact Hd | apply Hk]. }
    split_ans; first [exact Hd | exact Hw | apply Hk].
Qed.

Lemma chan_recv_code_okP : forall ch cb kont,
  (forall r, code_okP F (kont r)) -> code_okP F (chan_recv_code ch cb kont).
Proof.
  intros ch cb kont Hk. cbv beta delta [chan_recv_code].
  match goal with |- code_okP _ (let d := ?X in @?B d) => assert (Hd : code_okP F X) end.
  { apply (atomic_okP_intro F HF).
    - intros e s e' s' a Hr H. apply on_chan_inv in H. destruct H as [c H].
      destruct (chan_recv_take e c) as [[[e1 c1] v]|] eqn:E; [|discriminate].
      inversion H; subst. eapply chan_recv_take_sframe; [exact Hr|exact E].
    - intros a. destruct a as [|v [|x l]]; try apply okP_panic. apply Hk. }
  cbv zeta. apply okP_switch. apply (atomic_okP_intro F HF).
  - intros e s e' s' a Hr H. apply on_chan_inv in H. destruct H as [c H].
    destruct (chan_recv_pre e c cb) as [[[e1 c1] r]|] eqn:E; [|discriminate].
    inversion H; subst. eapply chan_recv_pre_sframe; [exact Hr|exact E].
  - intros a.
    match goal with |- code_okP _ (match a with nil => ?W | _ => _ end) => assert (Hw : code_okP F W) end.
    { apply okP_switch. apply (atomic_okP_intro F HF).
      - intros e s e' s' a2 Hr H. apply on_chan_inv in H. destruct H as [c H].
        destruct (chan_recv_woken e c) as [[[e1 c1] r]|] eqn:E; [|discriminate].
        inversion H; subst. eapply chan_recv_woken_sframe; [exact Hr|exact E].
      - intros a2. split_ans; first [exact Hd | apply Hk]. }
    split_ans; first [exact Hd | exact Hw | apply Hk].
Qed.

(* ------------------------------------------------------------------ *)
(* Barrier                                                             *)
(* ------------------------------------------------------------------ *)
Lemma barrier_wait_code_okP : forall b kont,
  (forall l, code_okP F (kont l)) -> code_okP F (barrier_wait_code b kont).
Proof.
  intros b kont Hk. unfold barrier_wait_code. apply (atomic_b_okP F HF).
  - intros e s e' s' wb Hr H.
    destruct (barrier_will_block s b) as [wb0|]; [|discriminate].
    inversion H; subst. apply sframe_refl; exact Hr.
  - intros wb. apply (switch_if_okP F). apply (atomic_okP_intro F HF).
    + intros e s e' s' a Hr H.
      destruct (barrier_arrive e s b) as [[[[e1 s1] ep] blk]|] eqn:E; [|discriminate].
      inversion H; subst. eapply barrier_arrive_sframe; [exact Hr|exact E].
    + intros a. destruct a as [|ep [|blk [|x l]]]; try apply okP_panic.
      cbv zeta.
      assert (Hl : code_okP F (atomic_b (fun e st => barrier_leave e st b (N.to_nat ep)) kont)).
      { apply (atomic_b_okP F HF); [|exact Hk].
        intros e s e' s' ld Hr H. eapply barrier_leave_sframe; [exact Hr|exact H]. }
      destruct (N.eqb blk 1); [apply okP_switch|]; exact Hl.
Qed.

(* ------------------------------------------------------------------ *)
(* Once                                                                *)
(* ------------------------------------------------------------------ *)
Lemma call_once_code_okP : forall o mx body kont,
  (forall k, code_okP F k -> code_okP F (body k)) -> code_okP F kont ->
  code_okP F (call_once_code o mx body kont).
Proof.
  intros o mx body kont Hb Hk. unfold call_once_code. apply (atomic_b_okP F HF).
  - intros e s e' s' b Hr H. eapply once_enter_sframe; [exact Hr|exact H].
  - intros need. destruct need; cbn [negb]; [|exact Hk].
    apply (mutex_lock_code_okP F HF).
    assert (Hin : code_okP F
              (atomic_b (fun e st => match once_flag st o with Some f => Some (e, st, f) | None => None end)
                 (fun done => if done then mutex_unlock_code mx kont
                              else body (Switch (atomic_u (fun e st => once_complete e st o) (mutex_unlock_code mx kont)))))).
    { apply (atomic_b_okP F HF).
      - intros e s e' s' b Hr H.
        destruct (once_flag s o) as [f|]; [|discriminate].
        inversion H; subst. apply sframe_refl; exact Hr.
      - intros done. destruct done.
        + apply (mutex_unlock_code_okP F HF). exact Hk.
        + apply Hb. apply okP_switch. apply (atomic_u_okP F HF).
          * intros e s e' s' Hr H. eapply once_complete_sframe; [exact Hr|exact H].
          * apply (mutex_unlock_code_okP F HF). exact Hk. }
    intros res. destruct res; first [exact Hin | apply okP_panic].
Qed.

(* ------------------------------------------------------------------ *)
(* async executor                                                      *)
(* ------------------------------------------------------------------ *)
Lemma suspend_okP : forall ctx jt on_abort retry,
  code_okP F on_abort -> code_okP F retry -> code_okP F (suspend ctx jt on_abort retry).
Proof.
  intros ctx jt on_abort retry Ha Hrt. unfold suspend. apply (atomic_u_okP F HF).
  - intros e s e' s' Hr H.
    destruct (me e) as [m|]; [|discriminate].
    destruct (e_sleep_unless_woken e m) as [e1|] eqn:E1; [|discriminate].
    inversion H; subst. eapply e_sleep_unless_woken_sframe; [exact Hr|exact E1].
  - apply okP_switch. destruct ctx; [exact Hrt|].
    apply (atomic_b_okP F HF).
    + intros e s e' s' b Hr H.
      destruct (wrapper_aborted e s jt) as [b0|]; [|discriminate].
      inversion H; subst. apply sframe_refl; exact Hr.
    + intros ab. destruct ab; [exact Ha|exact Hrt].
Qed.

Lemma await_join_okP : forall fuel ctx jt target on_abort kont,
  code_okP F on_abort -> (forall r, code_okP F (kont r)) ->
  code_okP F (await_join fuel ctx jt target on_abort kont).
Proof.
  induction fuel as [|fuel IH]; intros ctx jt target on_abort kont Ha Hk; cbn [await_join].
  - apply okP_log. apply okP_panic.
  - apply (atomic_okP_intro F HF).
    + intros e s e' s' a Hr H.
      destruct (join_poll e s jt target) as [[[e1 s1] r]|] eqn:E; [|discriminate].
      pose proof (join_poll_sframe _ _ _ _ _ _ _ Hr E) as F1.
      destruct r as [[v|]|]; inversion H; subst; exact F1.
    + assert (Hs : code_okP F (suspend ctx jt on_abort (await_join fuel ctx jt target on_abort kont))).
      { apply suspend_okP; [exact Ha|]. apply IH; [exact Ha|exact Hk]. }
      intros a. split_ans; first [exact Hs | apply Hk].
Qed.

Lemma await_yield_okP : forall ctx jt on_abort kont,
  code_okP F on_abort -> code_okP F kont -> code_okP F (await_yield ctx jt on_abort kont).
Proof.
  intros ctx jt on_abort kont Ha Hk. unfold await_yield. apply (atomic_u_okP F HF).
  - intros e s e' s' Hr H.
    destruct (me e) as [m|]; [|discriminate].
    destruct (e_waker_wake e m) as [e1|] eqn:E1; [|discriminate].
    inversion H; subst.
    pose proof (e_waker_wake_sframe _ _ _ Hr E1) as F1.
    eapply sframe_trans; [exact F1|].
    apply e_request_yield_sframe. eapply sframe_rok; exact F1.
  - apply suspend_okP; [exact Ha|exact Hk].
Qed.

Lemma abort_code_okP : forall jt target kont,
  code_okP F kont -> code_okP F (abort_code jt target kont).
Proof.
  intros jt target kont Hk. unfold abort_code. apply okP_switch.
  apply (atomic_u_okP F HF); [|exact Hk].
  intros e s e' s' Hr H.
  destruct (joins_get s jt target) as [j|]; [|discriminate].
  destruct (ji_aborted j).
  - inversion H; subst. apply sframe_refl; exact Hr.
  - cbv zeta in H. destruct (exec_is_finished e).
    + inversion H; subst. apply sframe_refl; exact Hr.
    + destruct (e_abort e target) as [e1|] eqn:E1; [|discriminate].
      inversion H; subst. eapply e_abort_sframe; [exact Hr|exact E1].
Qed.

End Sync2Ok.

Print Assumptions call_once_code_okP.
Print Assumptions await_join_okP.
