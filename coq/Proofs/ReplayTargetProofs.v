(* C15, last clause: "replay restricted to a target clock never drops a step the target depends on" - at the level of
   the scheduler's decision (Sched/ReplayTarget.v). *)
From Coq Require Import List NArith Bool Arith Lia.
From SV Require Import Clock.VClock Engine.Exec Sched.ReplayTarget Proofs.VClockProofs.
Import ListNotations.

(* every task step that a call of next_task consumes without running it belongs to an offered task whose clock is NOT
   below the target *)
Lemma rt_dropped_not_below : forall target offered steps t c,
  In (t, c) (rt_dropped target offered steps) -> find_task offered t = Some c /\ vle c target = false.
Proof.
  induction steps as [|s r IH]; intros t c H; simpl in H; [contradiction|].
  destruct s as [t0|]; [|apply IH; exact H].
  destruct (find_task offered t0) as [c0|] eqn:F; [|contradiction].
  destruct (vle c0 target) eqn:L; [contradiction|].
  destruct H as [H|H]; [inversion H; subst; auto|apply IH; exact H].
Qed.

(* with a target clock, the answer of the loop: either it runs the first task step whose task is offered with a clock
   below the target, having dropped exactly rt_dropped before it, or it stops *)
Lemma rt_loop_run_below : forall tc offered steps sk vals n t st,
  rt_loop (Some tc) offered sk steps vals n = (RtRun t, st) ->
  exists c, find_task offered t = Some c /\ vle c tc = true.
Proof.
  induction steps as [|s r IH]; intros sk vals n t st H; simpl in H; [discriminate|].
  destruct s as [t0|].
  - destruct (find_task offered t0) as [c0|] eqn:F; [|discriminate].
    destruct (vle c0 tc) eqn:L.
    + inversion H; subst. exists c0. auto.
    + eapply IH; exact H.
  - destruct sk; [eapply IH; exact H|discriminate].
Qed.

(* the head step is never dropped when its task is offered with a clock below the target ... *)
Lemma rt_keeps_head : forall tc offered t c r vals n,
  find_task offered t = Some c -> vle c tc = true ->
  rt_loop (Some tc) offered false (StTask t :: r) vals n = (RtRun t, mkRt r vals n).
Proof. intros. simpl. rewrite H, H0. reflexivity. Qed.

(* ... and, by monotonicity, whenever the clock the task will have AFTER the step is below the target (the step is one
   the target depends on): a task's clock only grows, so the clock it has before the step is below the target too *)
Lemma rt_keeps_dependency : forall tc offered t c c_after r vals n,
  find_task offered t = Some c -> vle c c_after = true -> vle c_after tc = true ->
  rt_loop (Some tc) offered false (StTask t :: r) vals n = (RtRun t, mkRt r vals n).
Proof. intros. eapply rt_keeps_head; eauto. eapply vle_trans; eauto. Qed.

(* without a target clock nothing is ever dropped: the scheduler is the plain replay scheduler *)
Lemma rt_no_target : forall offered t r vals n,
  rt_loop None offered false (StTask t :: r) vals n =
  match find_task offered t with Some _ => (RtRun t, mkRt r vals n) | None => (RtNotRunnable t, mkRt (StTask t :: r) vals n) end.
Proof. intros. simpl. destruct (find_task offered t); reflexivity. Qed.

(* accounting: what a call consumes = the dropped task steps + the random steps that follow them + (if it runs) one
   step; the data source advances by exactly the random steps consumed *)
Fixpoint count_random (steps : list sstep) : nat :=
  match steps with [] => 0 | StRandom :: r => S (count_random r) | StTask _ :: r => count_random r end.

Lemma rt_loop_accounting : forall tg offered steps sk vals n a st,
  rt_loop tg offered sk steps vals n = (a, st) ->
  exists consumed, steps = consumed ++ match a with RtRun t => StTask t :: rt_steps st | _ => rt_steps st end /\
                   rt_skipped st = n + length consumed /\
                   rt_vals st = skipn (count_random consumed) vals.
Proof.
  induction steps as [|s r IH]; intros sk vals n a st H; simpl in H.
  - inversion H; subst. exists []. simpl. split; [reflexivity|]. split; [lia|reflexivity].
  - destruct s as [t0|].
    + destruct (find_task offered t0) as [c0|] eqn:F.
      * destruct tg as [tc|].
        -- destruct (vle c0 tc) eqn:L.
           ++ inversion H; subst. exists []. simpl. split; [reflexivity|]. split; [lia|reflexivity].
           ++ destruct (IH _ _ _ _ _ H) as (cs & E & Hs & Hv). exists (StTask t0 :: cs). simpl.
              split; [rewrite E at 1; reflexivity|]. split; [lia|exact Hv].
        -- inversion H; subst. exists []. simpl. split; [reflexivity|]. split; [lia|reflexivity].
      * inversion H; subst. exists []. simpl. split; [reflexivity|]. split; [lia|reflexivity].
    + destruct sk.
      * destruct (IH _ _ _ _ _ H) as (cs & E & Hs & Hv). exists (StRandom :: cs). simpl.
        split; [rewrite E at 1; reflexivity|]. split; [lia|].
        rewrite Hv. destruct vals; simpl; [destruct (count_random cs); reflexivity|reflexivity].
      * inversion H; subst. exists []. simpl. split; [reflexivity|]. split; [lia|reflexivity].
Qed.
