(* Function-level facts about the channel blocks (C06 items 3 and 4, and the specifications used by
   the transition-system proofs): what each block answers, and what it does to the channel and to
   the scheduling states of the tasks. *)
From Coq Require Import List NArith Bool Arith Lia.
From SV Require Import Clock.VClock Prim.Objects Engine.Exec Prim.Semaphore Prim.SemInv Lang.Code Lang.SyncOps Lang.SyncOps2.
From SV Require Import Proofs.VClockProofs Proofs.SemBase Proofs.ChanBase.
Import ListNotations.
Open Scope nat_scope.

Ltac chsimpl :=
  cbn [ch_bound ch_msgs ch_rclock ch_senders ch_receivers ch_wsend ch_wrecv
       set_msgs set_rclock set_senders set_receivers set_wsend set_wrecv] in *.

Definition nilb {A} (l : list A) : bool := match l with [] => true | _ => false end.

Lemma nilb_true : forall {A} (l : list A), nilb l = true <-> l = [].
Proof. intros A [|x l]; cbn; split; congruence. Qed.
Lemma nilb_false : forall {A} (l : list A), nilb l = false <-> l <> [].
Proof. intros A [|x l]; cbn; split; congruence. Qed.

(* ------------------------------------------------------------------ *)
(* item 3: when must a sender / receiver block                         *)
(* ------------------------------------------------------------------ *)
Definition buffer_full (c : chan) : Prop := exists b, ch_bound c = Some b /\ Nat.max b 1 <= length (ch_msgs c).

Lemma sender_must_block_iff : forall c,
  sender_must_block c = true <->
  buffer_full c \/ ch_wsend c <> [] \/ (ch_bound c = Some 0 /\ ch_wrecv c = []).
Proof.
  intros c; unfold sender_must_block, buffer_full.
  destruct (ch_bound c) as [b|]; cbv beta iota.
  - rewrite !orb_true_iff, andb_true_iff, negb_true_iff, Nat.leb_le, Nat.eqb_eq.
    fold (nilb (ch_wsend c)); fold (nilb (ch_wrecv c)). rewrite nilb_false, nilb_true.
    split.
    + intros [[H|H]|[H1 H2]]; [left; eauto|right; left; assumption|right; right; subst; auto].
    + intros [(b' & Hb & H)|[H|[Hb H]]]; [inversion Hb; subst; auto|auto|inversion Hb; subst; auto].
  - cbn [orb andb]. rewrite orb_false_r, negb_true_iff. fold (nilb (ch_wsend c)). rewrite nilb_false.
    split; [intros H; right; left; exact H|].
    intros [(b' & Hb & _)|[H|[Hb _]]]; [discriminate|exact H|discriminate].
Qed.

Lemma sender_must_block_false_iff : forall c,
  sender_must_block c = false <->
  ch_wsend c = [] /\
  match ch_bound c with
  | None => True
  | Some 0 => ch_msgs c = [] /\ ch_wrecv c <> []
  | Some b => length (ch_msgs c) < b
  end.
Proof.
  intros c; unfold sender_must_block.
  destruct (ch_bound c) as [b|]; cbv beta iota.
  - rewrite !orb_false_iff, andb_false_iff, negb_false_iff, Nat.leb_gt, Nat.eqb_neq.
    fold (nilb (ch_wsend c)); fold (nilb (ch_wrecv c)). rewrite nilb_false, nilb_true.
    destruct b as [|b].
    + cbn [Nat.max]. split.
      * intros ((H1 & H2) & [H3|H3]); [congruence|]. repeat split; auto.
        destruct (ch_msgs c); [reflexivity|cbn [length] in H1; lia].
      * intros (H1 & H2 & H3). rewrite H2; cbn [length]. repeat split; auto.
    + split.
      * intros ((H1 & H2) & _). split; [assumption|lia].
      * intros (H1 & H2). repeat split; auto; lia.
  - cbn [orb andb]. rewrite orb_false_r, negb_false_iff. fold (nilb (ch_wsend c)). rewrite nilb_true. tauto.
Qed.

Lemma receiver_must_block_iff : forall c,
  receiver_must_block c = true <-> ch_msgs c = [] \/ ch_wrecv c <> [].
Proof.
  intros c; unfold receiver_must_block.
  fold (nilb (ch_msgs c)); fold (nilb (ch_wrecv c)).
  rewrite orb_true_iff, negb_true_iff, nilb_true, nilb_false. tauto.
Qed.

Lemma receiver_must_block_false_iff : forall c,
  receiver_must_block c = false <-> ch_msgs c <> [] /\ ch_wrecv c = [].
Proof.
  intros c; unfold receiver_must_block.
  fold (nilb (ch_msgs c)); fold (nilb (ch_wrecv c)).
  rewrite orb_false_iff, negb_false_iff, nilb_true, nilb_false. tauto.
Qed.

(* ------------------------------------------------------------------ *)
(* chan_send_pre                                                       *)
(* ------------------------------------------------------------------ *)
Lemma chan_send_pre_spec : forall e c cb e' c' r m,
  chan_send_pre e c cb = Some (e', c', r) -> me e = Some m ->
  match r with
  | SdDisconnected => ch_receivers c = 0 /\ e' = e /\ c' = c
  | SdFull => ch_receivers c <> 0 /\ sender_must_block c = true /\ cb = false /\ e' = e /\ c' = c
  | SdBlock => ch_receivers c <> 0 /\ sender_must_block c = true /\ cb = true /\
               e_block e m false = Some e' /\ c' = set_wsend c (ch_wsend c ++ [m])
  | SdOk => ch_receivers c <> 0 /\ sender_must_block c = false /\ e' = e /\ c' = c
  end.
Proof.
  intros e c cb e' c' r m Hp Hme; unfold chan_send_pre in Hp; rewrite Hme in Hp.
  destruct (Nat.eqb_spec (ch_receivers c) 0) as [Hr|Hr].
  - inversion Hp; subst; auto.
  - destruct (sender_must_block c) eqn:Hsmb.
    + destruct cb; cbn [negb] in Hp.
      * destruct (e_block e m false) as [e1|] eqn:Hb; [|discriminate]. inversion Hp; subst. auto.
      * inversion Hp; subst; auto.
    + inversion Hp; subst; auto.
Qed.

Theorem send_blocks_iff : forall e c e' c' r m,
  chan_send_pre e c true = Some (e', c', r) -> me e = Some m ->
  (r = SdBlock <-> ch_receivers c <> 0 /\ sender_must_block c = true) /\
  (r = SdDisconnected <-> ch_receivers c = 0) /\
  (r = SdOk <-> ch_receivers c <> 0 /\ sender_must_block c = false) /\
  r <> SdFull.
Proof.
  intros e c e' c' r m Hp Hme. pose proof (chan_send_pre_spec _ _ _ _ _ _ _ Hp Hme) as Hs.
  destruct r.
  - destruct Hs as (H1 & H2 & _). repeat split; try discriminate; try tauto.
    + intros (_ & Hc); congruence.
  - destruct Hs as (H1 & H2 & H3 & _). discriminate.
  - destruct Hs as (H1 & _). repeat split; try discriminate; try tauto.
  - destruct Hs as (H1 & H2 & H3 & _). repeat split; try discriminate; try tauto.
    + intros (_ & Hc); congruence.
Qed.

Theorem try_full_iff : forall e c e' c' r m,
  chan_send_pre e c false = Some (e', c', r) -> me e = Some m ->
  (r = SdFull <-> ch_receivers c <> 0 /\ sender_must_block c = true) /\
  (r = SdDisconnected <-> ch_receivers c = 0) /\
  (r = SdOk <-> ch_receivers c <> 0 /\ sender_must_block c = false) /\
  r <> SdBlock.
Proof.
  intros e c e' c' r m Hp Hme. pose proof (chan_send_pre_spec _ _ _ _ _ _ _ Hp Hme) as Hs.
  destruct r.
  - destruct Hs as (H1 & H2 & _). repeat split; try discriminate; try tauto.
    + intros (_ & Hc); congruence.
  - destruct Hs as (H1 & H2 & H3 & _). repeat split; try discriminate; try tauto.
    + intros (_ & Hc); congruence.
  - destruct Hs as (H1 & _). repeat split; try discriminate; try tauto.
  - destruct Hs as (H1 & H2 & H3 & _). discriminate.
Qed.

(* chan_send_pre never panics for a live actor *)
Lemma chan_send_pre_ok : forall e c cb m s,
  me e = Some m -> sts e m = Some s -> s <> Finished -> chan_send_pre e c cb <> None.
Proof.
  intros e c cb m s Hme Hs Hne; unfold chan_send_pre; rewrite Hme.
  destruct (Nat.eqb (ch_receivers c) 0); [discriminate|].
  destruct (sender_must_block c); [|discriminate].
  destruct (negb cb); [discriminate|].
  destruct (e_block_ok e m false s Hs Hne) as (e1 & ->). discriminate.
Qed.

(* ------------------------------------------------------------------ *)
(* chan_send_woken                                                     *)
(* ------------------------------------------------------------------ *)
Definition remove_t (m : nat) (l : list nat) : list nat := filter (fun t => negb (Nat.eqb t m)) l.

Lemma chan_send_woken_spec : forall e c e' c' r m,
  chan_send_woken e c = Some (e', c', r) -> me e = Some m ->
  e' = e /\
  match r with
  | SdDisconnected => ch_receivers c = 0 /\ c' = set_wsend c (remove_t m (ch_wsend c))
  | SdOk => ch_receivers c <> 0 /\ exists rest, ch_wsend c = m :: rest /\ c' = set_wsend c rest
  | _ => False
  end.
Proof.
  intros e c e' c' r m Hp Hme; unfold chan_send_woken in Hp; rewrite Hme in Hp.
  destruct (Nat.eqb_spec (ch_receivers c) 0) as [Hr|Hr].
  - inversion Hp; subst; auto.
  - destruct (ch_wsend c) as [|h rest] eqn:Hw; [discriminate|].
    destruct (Nat.eqb_spec h m) as [->|Hne]; [|discriminate].
    inversion Hp; subst. split; [reflexivity|]. split; [assumption|]. exists rest; auto.
Qed.

(* the only panic of chan_send_woken: assert_eq!(head, me) / remove(0) on an empty queue *)
Lemma chan_send_woken_ok : forall e c m,
  me e = Some m -> (ch_receivers c <> 0 -> exists rest, ch_wsend c = m :: rest) -> chan_send_woken e c <> None.
Proof.
  intros e c m Hme Hhead; unfold chan_send_woken; rewrite Hme.
  destruct (Nat.eqb_spec (ch_receivers c) 0) as [Hr|Hr]; [discriminate|].
  destruct (Hhead Hr) as (rest & ->). rewrite Nat.eqb_refl. discriminate.
Qed.

(* ------------------------------------------------------------------ *)
(* chan_recv_pre                                                       *)
(* ------------------------------------------------------------------ *)
Definition rv_disc (c : chan) : Prop := ch_msgs c = [] /\ ch_senders c = 0.

(* the two Empty conditions of try_recv *)
Definition rv_empty_cond (c : chan) : Prop :=
  (is_rendezvous c = true /\ ch_msgs c = [] /\ ch_wsend c = [])
  \/ (is_rendezvous c = false /\ length (ch_msgs c) <= length (ch_wrecv c)).

(* a receiver arriving at an empty rendezvous channel wakes the first waiting sender *)
Definition rdv_wake (c : chan) (a : nat -> option tstate) : nat -> option tstate :=
  if is_rendezvous c then
    match ch_msgs c, ch_wsend c with
    | [], tid :: _ => upd a tid Runnable
    | _, _ => a
    end
  else a.

Lemma rv_disc_dec : forall c,
  (nilb (ch_msgs c) && Nat.eqb (ch_senders c) 0 = true <-> rv_disc c).
Proof.
  intros c; unfold rv_disc. rewrite andb_true_iff, nilb_true, Nat.eqb_eq. tauto.
Qed.

Lemma chan_recv_pre_spec : forall e c cb e' c' r m,
  chan_recv_pre e c cb = Some (e', c', r) -> me e = Some m ->
  match r with
  | RvDisconnected => rv_disc c /\ e' = e /\ c' = c
  | RvEmpty => ~ rv_disc c /\ cb = false /\ rv_empty_cond c /\ e' = e /\ c' = c
  | RvBlock => ~ rv_disc c /\ ~ (cb = false /\ rv_empty_cond c) /\ receiver_must_block c = true /\
               c' = set_wrecv c (ch_wrecv c ++ [m]) /\
               eff e e' (fun a => upd (rdv_wake c a) m (Blocked false))
  | RvOk v => v = 0%N /\ ~ rv_disc c /\ ~ (cb = false /\ rv_empty_cond c) /\ receiver_must_block c = false /\
              c' = c /\ eff e e' (fun a => a)
  end.
Proof.
  intros e c cb e' c' r m Hp Hme; unfold chan_recv_pre in Hp; rewrite Hme in Hp.
  fold (nilb (ch_msgs c)) in Hp.
  destruct (nilb (ch_msgs c) && Nat.eqb (ch_senders c) 0) eqn:Hd.
  { apply rv_disc_dec in Hd. inversion Hp; subst; auto. }
  assert (Hnd : ~ rv_disc c) by (rewrite <- rv_disc_dec, Hd; discriminate).
  unfold rv_empty_cond, rdv_wake.
  destruct (is_rendezvous c) eqn:Hrdv; cbn [andb negb] in Hp.
  - (* rendezvous *)
    destruct (nilb (ch_msgs c)) eqn:Hem.
    + apply nilb_true in Hem.
      destruct (ch_wsend c) as [|tid ws] eqn:Hws.
      * destruct cb; cbn [negb] in Hp.
        -- destruct (e_increment_clock e m) as [e2|] eqn:Hi; [|discriminate].
           destruct (e_increment_clock_spec _ _ _ Hi) as (Hef2 & _).
           assert (Hrmb : receiver_must_block c = true) by (apply receiver_must_block_iff; auto).
           rewrite Hrmb in Hp.
           destruct (e_block e2 m false) as [e3|] eqn:Hb; [|discriminate].
           destruct (e_block_spec _ _ _ _ Hb) as (Hef3 & _).
           inversion Hp; subst. rewrite Hem.
           repeat split; auto.
           ++ intros (Hc & _); discriminate.
           ++ destruct Hef2, Hef3; congruence.
           ++ intros x. destruct Hef2 as (_ & H2), Hef3 as (_ & H3). rewrite H3.
              unfold upd. destruct (Nat.eqb x m); auto.
        -- inversion Hp; subst. repeat split; auto.
      * destruct (e_unblock e tid) as [e1|] eqn:Hu; [|discriminate].
        destruct (e_unblock_spec _ _ _ Hu) as (Hef1 & _).
        destruct (e_increment_clock e1 m) as [e2|] eqn:Hi; [|discriminate].
        destruct (e_increment_clock_spec _ _ _ Hi) as (Hef2 & _).
        assert (Hrmb : receiver_must_block c = true) by (apply receiver_must_block_iff; auto).
        rewrite Hrmb in Hp.
        destruct (e_block e2 m false) as [e3|] eqn:Hb; [|discriminate].
        destruct (e_block_spec _ _ _ _ Hb) as (Hef3 & _).
        inversion Hp; subst. rewrite Hem.
        repeat split; auto.
        -- intros (_ & [(_ & _ & Hc)|(Hc & _)]); discriminate.
        -- destruct Hef1, Hef2, Hef3; congruence.
        -- intros x. destruct Hef1 as (_ & H1), Hef2 as (_ & H2), Hef3 as (_ & H3). rewrite H3.
           unfold upd. destruct (Nat.eqb x m); auto. rewrite H2, H1. reflexivity.
    + apply nilb_false in Hem.
      destruct (e_increment_clock e m) as [e2|] eqn:Hi; [|discriminate].
      destruct (e_increment_clock_spec _ _ _ Hi) as (Hef2 & _).
      assert (Hwk : forall a : nat -> option tstate,
                 match ch_msgs c with [] => match ch_wsend c with [] => a | tid :: _ => upd a tid Runnable end | _ :: _ => a end = a).
      { intros a. destruct (ch_msgs c); [congruence|reflexivity]. }
      destruct (receiver_must_block c) eqn:Hrmb.
      * destruct (e_block e2 m false) as [e3|] eqn:Hb; [|discriminate].
        destruct (e_block_spec _ _ _ _ Hb) as (Hef3 & _).
        inversion Hp; subst. repeat split; auto.
        -- intros (_ & [(_ & Hc & _)|(Hc & _)]); [contradiction|discriminate].
        -- destruct Hef2, Hef3; congruence.
        -- intros x. destruct Hef2 as (_ & H2), Hef3 as (_ & H3). rewrite H3, Hwk.
           unfold upd. destruct (Nat.eqb x m); auto.
      * inversion Hp; subst. repeat split; auto.
        -- intros (_ & [(_ & Hc & _)|(Hc & _)]); [contradiction|discriminate].
        -- destruct Hef2; congruence.
        -- destruct Hef2; auto.
  - (* not a rendezvous channel *)
    destruct (negb cb && Nat.leb (length (ch_msgs c)) (length (ch_wrecv c))) eqn:Hemp.
    + apply andb_true_iff in Hemp. destruct Hemp as (Hcb & Hle).
      apply negb_true_iff in Hcb. apply Nat.leb_le in Hle.
      inversion Hp; subst. repeat split; auto.
    + assert (Hne : ~ (cb = false /\ ((false = true /\ ch_msgs c = [] /\ ch_wsend c = []) \/ (false = false /\ length (ch_msgs c) <= length (ch_wrecv c))))).
      { intros (Hcb & [(Hc & _)|(_ & Hle)]); [discriminate|].
        subst cb. cbn [negb andb] in Hemp. apply Nat.leb_gt in Hemp. lia. }
      destruct (e_increment_clock e m) as [e2|] eqn:Hi; [|discriminate].
      destruct (e_increment_clock_spec _ _ _ Hi) as (Hef2 & _).
      destruct (receiver_must_block c) eqn:Hrmb.
      * destruct (e_block e2 m false) as [e3|] eqn:Hb; [|discriminate].
        destruct (e_block_spec _ _ _ _ Hb) as (Hef3 & _).
        inversion Hp; subst. repeat split; auto.
        -- destruct Hef2, Hef3; congruence.
        -- intros x. destruct Hef2 as (_ & H2), Hef3 as (_ & H3). rewrite H3.
           unfold upd. destruct (Nat.eqb x m); auto.
      * inversion Hp; subst. repeat split; auto.
        -- destruct Hef2; congruence.
        -- destruct Hef2; auto.
Qed.

Ltac iff_tac :=
  repeat match goal with |- _ /\ _ => split | |- _ <-> _ => split end; try discriminate; try tauto; eauto;
  try (intros (v0 & Hv0); discriminate);
  try (intros (_ & Hc0); congruence);
  try (intros (_ & _ & Hc0); congruence);
  try (intros (_ & Hc0); tauto).

Theorem recv_blocks_iff : forall e c e' c' r m,
  chan_recv_pre e c true = Some (e', c', r) -> me e = Some m ->
  (r = RvDisconnected <-> rv_disc c) /\
  (r = RvBlock <-> ~ rv_disc c /\ receiver_must_block c = true) /\
  ((exists v, r = RvOk v) <-> ~ rv_disc c /\ receiver_must_block c = false) /\
  r <> RvEmpty.
Proof.
  intros e c e' c' r m Hp Hme. pose proof (chan_recv_pre_spec _ _ _ _ _ _ _ Hp Hme) as Hs.
  destruct r as [v| | |].
  - destruct Hs as (_ & Hnd & _ & Hr & _). iff_tac.
  - destruct Hs as (_ & Hc & _); discriminate Hc.
  - destruct Hs as (Hd & _). iff_tac.
  - destruct Hs as (Hnd & _ & Hr & _). iff_tac.
Qed.

(* try_recv: Empty exactly under one of the two Empty conditions; NOTE the last clause: on a rendezvous
   channel with a waiting sender try_recv does not answer Empty, it wakes the sender and BLOCKS. *)
Theorem try_empty_iff : forall e c e' c' r m,
  chan_recv_pre e c false = Some (e', c', r) -> me e = Some m ->
  (r = RvDisconnected <-> rv_disc c) /\
  (r = RvEmpty <-> ~ rv_disc c /\ rv_empty_cond c) /\
  ((exists v, r = RvOk v) <-> ~ rv_disc c /\ ~ rv_empty_cond c /\ receiver_must_block c = false) /\
  (r = RvBlock <-> ~ rv_disc c /\ ~ rv_empty_cond c /\ receiver_must_block c = true).
Proof.
  intros e c e' c' r m Hp Hme. pose proof (chan_recv_pre_spec _ _ _ _ _ _ _ Hp Hme) as Hs.
  destruct r as [v| | |].
  - destruct Hs as (_ & Hnd & Hne & Hr & _). iff_tac.
  - destruct Hs as (Hnd & _ & He & _). iff_tac.
  - destruct Hs as (Hd & _). iff_tac.
  - destruct Hs as (Hnd & Hne & Hr & _). iff_tac.
Qed.

(* the only way try_recv can block: rendezvous, nothing buffered, a sender waiting *)
Lemma try_recv_blocks_only_rdv : forall c,
  ~ rv_empty_cond c -> receiver_must_block c = true -> ch_wrecv c = [] ->
  is_rendezvous c = true /\ ch_msgs c = [] /\ ch_wsend c <> [].
Proof.
  intros c Hne Hr Hw. apply receiver_must_block_iff in Hr.
  destruct Hr as [Hm|Hr]; [|contradiction].
  destruct (is_rendezvous c) eqn:Hrdv.
  - repeat split; auto. intros Hs. apply Hne. left; auto.
  - exfalso. apply Hne. right. split; [assumption|]. rewrite Hm; cbn [length]; lia.
Qed.

(* ------------------------------------------------------------------ *)
(* chan_recv_woken                                                     *)
(* ------------------------------------------------------------------ *)
Lemma chan_recv_woken_spec : forall e c e' c' r m,
  chan_recv_woken e c = Some (e', c', r) -> me e = Some m ->
  e' = e /\
  match r with
  | RvDisconnected => rv_disc c /\ c' = set_wrecv c (remove_t m (ch_wrecv c))
  | RvOk v => v = 0%N /\ ~ rv_disc c /\ exists rest, ch_wrecv c = m :: rest /\ c' = set_wrecv c rest
  | _ => False
  end.
Proof.
  intros e c e' c' r m Hp Hme; unfold chan_recv_woken in Hp; rewrite Hme in Hp.
  fold (nilb (ch_msgs c)) in Hp.
  destruct (nilb (ch_msgs c) && Nat.eqb (ch_senders c) 0) eqn:Hd.
  - apply rv_disc_dec in Hd. inversion Hp; subst; auto.
  - assert (Hnd : ~ rv_disc c) by (rewrite <- rv_disc_dec, Hd; discriminate).
    destruct (ch_wrecv c) as [|h rest] eqn:Hw; [discriminate|].
    destruct (Nat.eqb_spec h m) as [->|Hne]; [|discriminate].
    inversion Hp; subst. repeat split; auto. exists rest; auto.
Qed.

Lemma chan_recv_woken_ok : forall e c m,
  me e = Some m -> (~ rv_disc c -> exists rest, ch_wrecv c = m :: rest) -> chan_recv_woken e c <> None.
Proof.
  intros e c m Hme Hhead; unfold chan_recv_woken; rewrite Hme. fold (nilb (ch_msgs c)).
  destruct (nilb (ch_msgs c) && Nat.eqb (ch_senders c) 0) eqn:Hd; [discriminate|].
  assert (Hnd : ~ rv_disc c) by (rewrite <- rv_disc_dec, Hd; discriminate).
  destruct (Hhead Hnd) as (rest & ->). rewrite Nat.eqb_refl. discriminate.
Qed.

(* ------------------------------------------------------------------ *)
(* item 4, function level: answers once the other side is gone         *)
(* ------------------------------------------------------------------ *)
Theorem send_pre_disconnected : forall e c cb e' c' r m,
  me e = Some m -> ch_receivers c = 0 -> chan_send_pre e c cb = Some (e', c', r) -> r = SdDisconnected /\ e' = e /\ c' = c.
Proof.
  intros e c cb e' c' r m Hme Hr Hp. pose proof (chan_send_pre_spec _ _ _ _ _ _ _ Hp Hme) as Hs.
  destruct r; try (destruct Hs as (Hc & _); congruence). tauto.
Qed.

Theorem send_woken_disconnected : forall e c e' c' r m,
  me e = Some m -> ch_receivers c = 0 -> chan_send_woken e c = Some (e', c', r) ->
  r = SdDisconnected /\ e' = e /\ c' = set_wsend c (remove_t m (ch_wsend c)).
Proof.
  intros e c e' c' r m Hme Hr Hp. pose proof (chan_send_woken_spec _ _ _ _ _ _ Hp Hme) as (He & Hs).
  destruct r; try contradiction; [destruct Hs as (Hc & _); congruence|]. tauto.
Qed.

Theorem recv_pre_senders_gone : forall e c cb e' c' r m,
  me e = Some m -> ch_senders c = 0 -> chan_recv_pre e c cb = Some (e', c', r) ->
  (r = RvDisconnected <-> ch_msgs c = []).
Proof.
  intros e c cb e' c' r m Hme Hs0 Hp. pose proof (chan_recv_pre_spec _ _ _ _ _ _ _ Hp Hme) as Hs.
  unfold rv_disc in Hs.
  destruct r as [v| | |].
  - destruct Hs as (_ & Hnd & _). split; [discriminate|]. intros Hm; exfalso; apply Hnd; auto.
  - destruct Hs as (Hnd & _). split; [discriminate|]. intros Hm; exfalso; apply Hnd; auto.
  - destruct Hs as ((Hm & _) & _). tauto.
  - destruct Hs as (Hnd & _). split; [discriminate|]. intros Hm; exfalso; apply Hnd; auto.
Qed.

Theorem recv_woken_senders_gone : forall e c e' c' r m,
  me e = Some m -> ch_senders c = 0 -> chan_recv_woken e c = Some (e', c', r) ->
  (r = RvDisconnected <-> ch_msgs c = []) /\ (r <> RvDisconnected -> r = RvOk 0).
Proof.
  intros e c e' c' r m Hme Hs0 Hp. pose proof (chan_recv_woken_spec _ _ _ _ _ _ Hp Hme) as (He & Hs).
  unfold rv_disc in Hs.
  destruct r as [v| | |]; try contradiction.
  - destruct Hs as (-> & Hnd & _). split; [|reflexivity]. split; [discriminate|]. intros Hm; exfalso; apply Hnd; auto.
  - destruct Hs as ((Hm & _) & _). split; [tauto|congruence].
Qed.
