(* C20 — the association-list model of the wrapper collections (Lang/PlMap.v) refines the functional
   specification of a map: a total function from keys to optional values.  Every operation of a history
   acts on the abstraction exactly as the corresponding operation of the specification, returns what the
   specification returns, and keeps the representation invariant (keys strictly ascending: iteration of the
   model is in key order, len counts distinct keys). *)
From Coq Require Import List NArith Bool Arith Lia Sorting.Sorted.
From SV Require Import Lang.PlMap.
Import ListNotations.
Open Scope N_scope.

(* ---- the specification ---- *)
Definition fmap := N -> option N.
Definition f_empty : fmap := fun _ => None.
Definition f_set (f : fmap) (k v : N) : fmap := fun x => if x =? k then Some v else f x.
Definition f_del (f : fmap) (k : N) : fmap := fun x => if x =? k then None else f x.
Definition f_retain (f : fmap) (md rm : N) : fmap :=
  fun x => match f x with Some v => if am_keep md rm (x, v) then Some v else None | None => None end.

Definition abs (m : amap) : fmap := am_get m.

Lemma abs_insert : forall m k v x, abs (am_insert m k v) x = f_set (abs m) k v x.
Proof.
  unfold abs, f_set. induction m as [|[k' v'] r IH]; intros k v x; simpl.
  - destruct (x =? k); reflexivity.
  - destruct (k =? k') eqn:E.
    + apply N.eqb_eq in E. subst k'. simpl. destruct (x =? k); reflexivity.
    + destruct (k <? k') eqn:L; simpl.
      * destruct (x =? k); reflexivity.
      * rewrite IH. destruct (x =? k') eqn:X.
        -- apply N.eqb_eq in X. subst x. rewrite N.eqb_sym in E. rewrite E. reflexivity.
        -- reflexivity.
Qed.

Lemma abs_remove : forall m k x, abs (am_remove m k) x = f_del (abs m) k x.
Proof.
  unfold abs, f_del, am_remove. induction m as [|[k' v'] r IH]; intros k x; simpl.
  - destruct (x =? k); reflexivity.
  - destruct (k' =? k) eqn:E; simpl.
    + apply N.eqb_eq in E. subst k'. rewrite IH. destruct (x =? k); reflexivity.
    + rewrite IH. destruct (x =? k') eqn:X.
      * apply N.eqb_eq in X. subst x. rewrite E. reflexivity.
      * reflexivity.
Qed.

(* ---- the representation invariant ---- *)
Definition keys (m : amap) : list N := map fst m.
Definition sorted (m : amap) : Prop := StronglySorted N.lt (keys m).

Lemma get_none_of_lt : forall m k, Forall (N.lt k) (keys m) -> am_get m k = None.
Proof.
  induction m as [|[k' v'] r IH]; intros k H; simpl; auto.
  inversion H; subst. simpl in *. destruct (k =? k') eqn:E.
  - apply N.eqb_eq in E. lia.
  - apply IH; assumption.
Qed.

Lemma keys_insert_in : forall m k v x, In x (keys (am_insert m k v)) -> x = k \/ In x (keys m).
Proof.
  induction m as [|[k' v'] r IH]; intros k v x H; simpl in *.
  - destruct H; auto.
  - destruct (k =? k') eqn:E.
    + apply N.eqb_eq in E. subst. simpl in H. destruct H; auto.
    + destruct (k <? k'); simpl in H.
      * destruct H; auto.
      * destruct H; auto. apply IH in H. destruct H; auto.
Qed.

Lemma sorted_insert : forall m k v, sorted m -> sorted (am_insert m k v).
Proof.
  unfold sorted. induction m as [|[k' v'] r IH]; intros k v H; simpl.
  - repeat constructor.
  - inversion H; subst. destruct (k =? k') eqn:E.
    + apply N.eqb_eq in E. subst. simpl. constructor; assumption.
    + destruct (k <? k') eqn:L; simpl.
      * apply N.ltb_lt in L. constructor; [assumption|]. constructor; [assumption|].
        eapply Forall_impl; [|exact H3]. intros; simpl in *; lia.
      * apply N.ltb_ge in L. apply N.eqb_neq in E. constructor.
        -- apply IH; assumption.
        -- apply Forall_forall. intros x Hx. apply keys_insert_in in Hx. destruct Hx as [->|Hx].
           ++ lia.
           ++ rewrite Forall_forall in H3. apply H3; assumption.
Qed.

Lemma sorted_filter : forall (p : N * N -> bool) m, sorted m -> sorted (filter p m).
Proof.
  unfold sorted. intros p. induction m as [|[k v] r IH]; intros H; simpl.
  - constructor.
  - inversion H; subst. destruct (p (k, v)); simpl.
    + constructor; [apply IH; assumption|].
      apply Forall_forall. intros x Hx. rewrite Forall_forall in H3. apply H3.
      unfold keys in *. apply in_map_iff in Hx. destruct Hx as [[a b] [E I]]. apply filter_In in I. destruct I as [I _].
      apply in_map_iff. exists (a, b); auto.
    + apply IH; assumption.
Qed.

Lemma abs_retain : forall m md rm x, sorted m -> abs (am_retain m md rm) x = f_retain (abs m) md rm x.
Proof.
  unfold abs, f_retain, am_retain, sorted. induction m as [|[k v] r IH]; intros md rm x H; simpl; auto.
  inversion H; subst. destruct (am_keep md rm (k, v)) eqn:K; simpl.
  - destruct (x =? k) eqn:X.
    + apply N.eqb_eq in X. subst. rewrite K. reflexivity.
    + apply IH; assumption.
  - destruct (x =? k) eqn:X.
    + apply N.eqb_eq in X. subst. rewrite K.
      apply get_none_of_lt. apply Forall_forall. intros y Hy.
      rewrite Forall_forall in H3. apply H3.
      unfold keys in *. apply in_map_iff in Hy. destruct Hy as [[a b] [E I]]. apply filter_In in I. destruct I as [I _].
      apply in_map_iff. exists (a, b); auto.
    + apply IH; assumption.
Qed.

(* len counts the keys the specification defines: under the invariant the keys are distinct and a key is listed
   exactly when the abstraction is defined on it *)
Lemma sorted_nodup : forall m, sorted m -> NoDup (keys m).
Proof.
  unfold sorted. induction m as [|[k v] r IH]; intros H; simpl; constructor; inversion H; subst.
  - intro I. rewrite Forall_forall in H3. specialize (H3 _ I). simpl in H3. lia.
  - apply IH; assumption.
Qed.

Lemma in_keys_iff : forall m k, In k (keys m) <-> abs m k <> None.
Proof.
  unfold abs. induction m as [|[k' v'] r IH]; intros k; simpl.
  - split; [tauto|congruence].
  - destruct (k =? k') eqn:E.
    + apply N.eqb_eq in E. subst. split; [congruence|auto].
    + apply N.eqb_neq in E. rewrite <- IH. split; [intros [H|H]; [congruence|assumption]|auto].
Qed.

(* ---- whole histories: the map component ---- *)
(* what the specification does and answers for the map operations; None = not a map operation (sets are below) *)
Definition f_step (f : fmap) (o : hop) : option (fmap * option (option N)) :=
  match o with
  | HIns k v => Some (f_set f k v, Some (f k))
  | HRem k => Some (f_del f k, Some (f k))
  | HGet k => Some (f, Some (f k))
  | HClear | HDrain => Some (f_empty, None)
  | HRetain md rm => Some (f_retain f (N.max md 1) rm, None)
  | HEntry k v => Some (match f k with Some _ => f | None => f_set f k v end, Some (Some (match f k with Some x => x | None => v end)))
  | HAddOr k d => Some (f_set f k (match f k with Some x => wadd x d | None => d end), Some (Some (match f k with Some x => wadd x d | None => d end)))
  | HRebuild | HIter | HKeys | HLen | HCon _ => Some (f, None)
  | _ => None
  end.

Definition res_agrees (r : hres) (a : option (option N)) : Prop :=
  match a with
  | None => True
  | Some v => r = ROpt v \/ (exists x, v = Some x /\ r = RNum x)
  end.

Definition feq (f g : fmap) : Prop := forall x, f x = g x.

Ltac ref_tac S :=
  unfold am_retain, am_remove; simpl;
  split; [first [exact S | apply sorted_insert; exact S | apply sorted_filter; exact S | constructor]
         | split; [first [intro; reflexivity | intro; apply abs_insert | intro; apply abs_remove
                         | intro; apply (abs_retain _ _ _ _ S)]
                  | first [exact I | left; reflexivity | right; eexists; split; reflexivity]]].

Theorem h_step_refines : forall st o st' r f' a,
  h_step st o = (st', r) -> sorted (h_m st) -> f_step (abs (h_m st)) o = Some (f', a) ->
  sorted (h_m st') /\ feq (abs (h_m st')) f' /\ res_agrees r a.
Proof.
  intros [m sa sb] o st' r f' a H S F. destruct o; simpl in *; try discriminate;
    try (inversion H; inversion F; subst; ref_tac S; fail).
  - unfold abs in F. destruct (am_get m k) eqn:G; inversion H; inversion F; subst; ref_tac S.
  - unfold abs in F. destruct (am_get m k) eqn:G; inversion H; inversion F; subst; ref_tac S.
Qed.

(* extend = a sequence of inserts *)
Lemma sorted_extend : forall items m, sorted m -> sorted (am_extend m items).
Proof.
  unfold am_extend. induction items as [|[k v] r IH]; intros m S; simpl; auto. apply IH. apply sorted_insert; auto.
Qed.

(* every operation keeps the invariant *)
Theorem h_step_sorted : forall st o st' r, h_step st o = (st', r) -> sorted (h_m st) -> sorted (h_m st').
Proof.
  intros [m sa sb] o st' r H S. destruct o; simpl in *;
    try (inversion H; subst; simpl; auto; fail);
    try (inversion H; subst; simpl; first [apply sorted_insert | apply sorted_filter | apply sorted_extend | constructor]; auto; fail).
  - destruct (am_get m k); inversion H; subst; simpl; auto. apply sorted_insert; auto.
  - destruct (am_get m k); inversion H; subst; simpl; apply sorted_insert; auto.
Qed.

Theorem h_run_sorted : forall ops st st' rs, h_run st ops = (st', rs) -> sorted (h_m st) -> sorted (h_m st').
Proof.
  induction ops as [|o r IH]; intros st st' rs H S; simpl in H.
  - inversion H; subst; auto.
  - destruct (h_step st o) as [st1 x] eqn:E1. destruct (h_run st1 r) as [st2 xs] eqn:E2. inversion H; subst.
    eapply IH; [exact E2|]. eapply h_step_sorted; eauto.
Qed.

(* the iteration of the model is the graph of the abstraction, each key once, in key order *)
Theorem iter_is_graph : forall m, sorted m ->
  NoDup (keys m) /\ StronglySorted N.lt (keys m) /\ (forall k v, In (k, v) m <-> abs m k = Some v) /\
  am_len m = N.of_nat (length (keys m)).
Proof.
  intros m S. split; [apply sorted_nodup; auto|]. split; [exact S|]. split.
  - unfold abs. revert S. unfold sorted. induction m as [|[k' v'] r IH]; intros S k v; simpl.
    + split; [tauto|discriminate].
    + inversion S; subst. destruct (k =? k') eqn:E.
      * apply N.eqb_eq in E. subst. split.
        -- intros [H|H]; [congruence|]. exfalso. rewrite Forall_forall in H2.
           assert (In k' (keys r)) by (unfold keys; apply in_map_iff; exists (k', v); auto).
           specialize (H2 _ H0). lia.
        -- intros H; inversion H; auto.
      * apply N.eqb_neq in E. rewrite <- IH by assumption. split; [intros [H|H]; [congruence|assumption]|auto].
  - unfold am_len, keys. rewrite map_length. reflexivity.
Qed.

(* ---- sets ---- *)
Lemma as_mem_insert : forall s k x, as_mem (as_insert s k) x = (x =? k) || as_mem s x.
Proof.
  unfold as_mem. induction s as [|k' r IH]; intros k x; simpl.
  - reflexivity.
  - destruct (k =? k') eqn:E.
    + apply N.eqb_eq in E. subst. simpl. destruct (x =? k'); reflexivity.
    + destruct (k <? k'); simpl.
      * reflexivity.
      * rewrite IH. destruct (x =? k'), (x =? k); reflexivity.
Qed.

Lemma as_mem_remove : forall s k x, as_mem (as_remove s k) x = negb (x =? k) && as_mem s x.
Proof.
  unfold as_mem, as_remove. induction s as [|k' r IH]; intros k x; simpl.
  - destruct (x =? k); reflexivity.
  - destruct (k' =? k) eqn:E; simpl.
    + apply N.eqb_eq in E. subst. rewrite IH. destruct (x =? k); reflexivity.
    + rewrite IH. destruct (x =? k') eqn:X; simpl; auto.
      apply N.eqb_eq in X. subst. rewrite E. reflexivity.
Qed.

Lemma as_mem_union : forall b a x, as_mem (as_union a b) x = as_mem a x || as_mem b x.
Proof.
  unfold as_union. induction b as [|k r IH]; intros a x; simpl.
  - rewrite orb_false_r. reflexivity.
  - rewrite IH, as_mem_insert. unfold as_mem. simpl.
    destruct (x =? k), (existsb (N.eqb x) a), (existsb (N.eqb x) r); reflexivity.
Qed.

Lemma as_mem_filter : forall p a x, (forall y, y = x -> p y = p x) -> as_mem (filter p a) x = p x && as_mem a x.
Proof.
  unfold as_mem. induction a as [|k r IH]; intros x Hp; simpl.
  - rewrite andb_false_r. reflexivity.
  - destruct (p k) eqn:P; simpl.
    + rewrite IH by assumption. destruct (x =? k) eqn:X; simpl.
      * apply N.eqb_eq in X. subst. rewrite P. reflexivity.
      * reflexivity.
    + rewrite IH by assumption. destruct (x =? k) eqn:X; simpl.
      * apply N.eqb_eq in X. subst. rewrite P. reflexivity.
      * reflexivity.
Qed.

Theorem set_algebra : forall a b x,
  as_mem (as_union a b) x = as_mem a x || as_mem b x /\
  as_mem (as_inter a b) x = as_mem a x && as_mem b x /\
  as_mem (as_diff a b) x = as_mem a x && negb (as_mem b x) /\
  as_mem (as_xor a b) x = xorb (as_mem a x) (as_mem b x).
Proof.
  intros a b x. split; [apply as_mem_union|]. split.
  - unfold as_inter. rewrite as_mem_filter by (intros; subst; reflexivity). apply andb_comm.
  - split.
    + unfold as_diff. rewrite as_mem_filter by (intros; subst; reflexivity). apply andb_comm.
    + unfold as_xor, as_diff. rewrite as_mem_union. rewrite !as_mem_filter by (intros; subst; reflexivity).
      destruct (as_mem a x), (as_mem b x); reflexivity.
Qed.
