(* C06: the mpsc channel as a transition system, and its invariants.

   A state is an execution state, the channel and two ghost histories (values whose send succeeded,
   values returned by recv).  A step is one *segment* of a channel operation, i.e. what a task
   executes between two scheduling points (`Switch` nodes) of chan_send_code / chan_recv_code:
     LSend      : chan_send_pre, immediately followed by chan_send_deliver when it answered SdOk
     LSendWoken : chan_send_woken, immediately followed by chan_send_deliver when it answered SdOk
     LRecv      : chan_recv_pre, immediately followed by chan_recv_take when it answered RvOk
     LRecvWoken : chan_recv_woken, immediately followed by chan_recv_take when it answered RvOk
     LClone / LDropTx / LDropRx : Sender::clone, drop of a Sender, drop of the Receiver
     LEnv       : anything else that happens to the execution state (scheduling, other primitives).
   (In chan_send_code / chan_recv_code there is no Switch between pre/woken and deliver/take.)

   Assumptions, all explicit in `guard`:
   - the acting task is the current task and is Runnable (the scheduler only resumes such tasks);
   - a task that waits in ch_wsend / ch_wrecv executes nothing but its woken segment;
   - ownership: an operation needs a live handle (0 < ch_senders / ch_receivers); a handle borrowed by a
     blocked operation cannot be dropped (the last Sender is not dropped while a sender waits, the
     Receiver is not dropped while a receiver waits);
   - single consumer: no task starts recv while another one waits in recv (std's Receiver is !Sync);
   - environment: LEnv may change everything in the execution state except the scheduling state
     (t_state) of the tasks that wait in ch_wsend / ch_wrecv. *)
From Coq Require Import List NArith Bool Arith Lia.
From SV Require Import Clock.VClock Prim.Objects Engine.Exec Prim.Semaphore Prim.SemInv Lang.Code Lang.SyncOps Lang.SyncOps2.
From SV Require Import Proofs.VClockProofs Proofs.SemBase Proofs.ChanBase Proofs.ChanFun Proofs.ChanOps.
Import ListNotations.
Open Scope nat_scope.

Record cst := mkCst { cs_e : exec; cs_c : chan; cs_sent : list N; cs_rcvd : list N }.

Inductive lbl :=
| LSend (t : nat) (v : N) (can_block : bool)
| LSendWoken (t : nat) (v : N)
| LRecv (t : nat) (can_block : bool)
| LRecvWoken (t : nat)
| LClone (t : nat)
| LDropTx (t : nat)
| LDropRx (t : nat)
| LEnv (e' : exec).

Definition deliver_then (s : cst) (e1 : exec) (c1 : chan) (v : N) : option cst :=
  match chan_send_deliver e1 c1 v with
  | Some (e2, c2) => Some (mkCst e2 c2 (cs_sent s ++ [v]) (cs_rcvd s))
  | None => None end.

Definition take_then (s : cst) (e1 : exec) (c1 : chan) : option cst :=
  match chan_recv_take e1 c1 with
  | Some (e2, c2, v) => Some (mkCst e2 c2 (cs_sent s) (cs_rcvd s ++ [v]))
  | None => None end.

Definition exec_lbl (s : cst) (l : lbl) : option cst :=
  let e := cs_e s in let c := cs_c s in
  match l with
  | LSend t v cb =>
    match chan_send_pre e c cb with
    | Some (e1, c1, SdOk) => deliver_then s e1 c1 v
    | Some (e1, c1, _) => Some (mkCst e1 c1 (cs_sent s) (cs_rcvd s))
    | None => None end
  | LSendWoken t v =>
    match chan_send_woken e c with
    | Some (e1, c1, SdOk) => deliver_then s e1 c1 v
    | Some (e1, c1, _) => Some (mkCst e1 c1 (cs_sent s) (cs_rcvd s))
    | None => None end
  | LRecv t cb =>
    match chan_recv_pre e c cb with
    | Some (e1, c1, RvOk _) => take_then s e1 c1
    | Some (e1, c1, _) => Some (mkCst e1 c1 (cs_sent s) (cs_rcvd s))
    | None => None end
  | LRecvWoken t =>
    match chan_recv_woken e c with
    | Some (e1, c1, RvOk _) => take_then s e1 c1
    | Some (e1, c1, _) => Some (mkCst e1 c1 (cs_sent s) (cs_rcvd s))
    | None => None end
  | LClone t =>
    match chan_clone_tx e [OChan c] 0 with
    | Some (e1, [OChan c1]) => Some (mkCst e1 c1 (cs_sent s) (cs_rcvd s)) | _ => None end
  | LDropTx t =>
    match chan_drop_tx e [OChan c] 0 with
    | Some (e1, [OChan c1]) => Some (mkCst e1 c1 (cs_sent s) (cs_rcvd s)) | _ => None end
  | LDropRx t =>
    match chan_drop_rx e [OChan c] 0 with
    | Some (e1, [OChan c1]) => Some (mkCst e1 c1 (cs_sent s) (cs_rcvd s)) | _ => None end
  | LEnv e' => Some (mkCst e' c (cs_sent s) (cs_rcvd s))
  end.

Definition actor (e : exec) (t : nat) : Prop := me e = Some t /\ sts e t = Some Runnable.
Definition idle (c : chan) (t : nat) : Prop := ~ In t (ch_wsend c ++ ch_wrecv c).

(* the environment assumption *)
Definition env_ok (c : chan) (e e' : exec) : Prop :=
  forall t, In t (ch_wsend c ++ ch_wrecv c) -> sts e' t = sts e t.

Definition guard (s : cst) (l : lbl) : Prop :=
  let e := cs_e s in let c := cs_c s in
  match l with
  | LSend t _ _ => actor e t /\ idle c t /\ 0 < ch_senders c
  | LSendWoken t _ => actor e t /\ In t (ch_wsend c)
  | LRecv t _ => actor e t /\ idle c t /\ 0 < ch_receivers c /\ ch_wrecv c = []
  | LRecvWoken t => actor e t /\ In t (ch_wrecv c)
  | LClone t => actor e t /\ idle c t /\ 0 < ch_senders c
  | LDropTx t => actor e t /\ idle c t /\ 0 < ch_senders c /\ (ch_senders c = 1 -> ch_wsend c = [])
  | LDropRx t => actor e t /\ idle c t /\ 0 < ch_receivers c /\ (ch_receivers c = 1 -> ch_wrecv c = [])
  | LEnv e' => env_ok c e e'
  end.

Definition step (s : cst) (l : lbl) (s' : cst) : Prop := guard s l /\ exec_lbl s l = Some s'.

Definition init (bound : option nat) (e : exec) : cst := mkCst e (chan_new bound) [] [].

Inductive reachable (bound : option nat) : cst -> Prop :=
| reach_init : forall e, reachable bound (init bound e)
| reach_step : forall s l s', reachable bound s -> step s l s' -> reachable bound s'.

(* ------------------------------------------------------------------ *)
(* the invariant                                                       *)
(* ------------------------------------------------------------------ *)
(* a sender can deposit a message *)
Definition room (c : chan) : Prop :=
  match ch_bound c with
  | None => True
  | Some 0 => ch_msgs c = [] /\ ch_wrecv c <> []
  | Some b => length (ch_msgs c) < b
  end.

Record Inv0 (s : cst) : Prop := mkInv0 {
  i_fifo : cs_sent s = cs_rcvd s ++ map fst (ch_msgs (cs_c s));
  i_nodup : NoDup (ch_wsend (cs_c s) ++ ch_wrecv (cs_c s));
  i_wrecv1 : length (ch_wrecv (cs_c s)) <= 1;
  i_cap : forall b, ch_bound (cs_c s) = Some b -> length (ch_msgs (cs_c s)) <= Nat.max b 1;
  i_unb : ch_bound (cs_c s) = None -> ch_wsend (cs_c s) = [];
  i_rclock : match ch_bound (cs_c s) with
             | None => ch_rclock (cs_c s) = None
             | Some 0 => True
             | Some b => exists rc, ch_rclock (cs_c s) = Some rc /\ length rc + length (ch_msgs (cs_c s)) = b
             end;
  i_borrow_s : ch_wsend (cs_c s) <> [] -> 0 < ch_senders (cs_c s);
  i_borrow_r : ch_wrecv (cs_c s) <> [] -> 0 < ch_receivers (cs_c s);
  i_states : forall t, In t (ch_wsend (cs_c s) ++ ch_wrecv (cs_c s)) ->
             sts (cs_e s) t = Some Runnable \/ sts (cs_e s) t = Some (Blocked false);
}.

(* coupling, sender side *)
Definition ISend (e : exec) (c : chan) : Prop :=
  (ch_receivers c = 0 -> forall t, In t (ch_wsend c) -> sts e t = Some Runnable) /\
  (ch_receivers c <> 0 -> forall h rest, ch_wsend c = h :: rest ->
     (forall t, In t rest -> sts e t = Some (Blocked false)) /\
     (sts e h = Some Runnable <-> room c)).

(* coupling, receiver side *)
Definition IRecv (e : exec) (c : chan) : Prop :=
  forall r, In r (ch_wrecv c) -> (sts e r = Some Runnable <-> ch_msgs c <> [] \/ ch_senders c = 0).

(* a rendezvous channel holds a message only while handing it to the waiting receiver *)
Definition IRdv (c : chan) : Prop :=
  ch_bound c = Some 0 -> ch_msgs c <> [] -> exists r, ch_wrecv c = [r].

Record Inv (s : cst) : Prop := mkInv {
  i_0 : Inv0 s;
  i_send : ISend (cs_e s) (cs_c s);
  i_recv : IRecv (cs_e s) (cs_c s);
  i_rdv : IRdv (cs_c s);
}.

Lemma inv_init : forall b e, Inv (init b e).
Proof.
  intros b e. unfold init, chan_new. split; [split| | |]; cbn [cs_e cs_c cs_sent cs_rcvd]; chsimpl.
  - reflexivity.
  - constructor.
  - cbn [length]; lia.
  - intros b0 _; cbn [length]; lia.
  - reflexivity.
  - destruct b as [[|b]|]; auto. exists (repeat [] (S b)). split; [reflexivity|].
    rewrite repeat_length. cbn [length]; lia.
  - congruence.
  - congruence.
  - intros t [].
  - split; chsimpl; [intros _ t []|intros _ h rest Hc; discriminate].
  - intros r [].
  - intros _ Hc; chsimpl; congruence.
Qed.

(* ------------------------------------------------------------------ *)
(* transfer lemmas                                                     *)
(* ------------------------------------------------------------------ *)
Ltac csimpl := cbn [cs_e cs_c cs_sent cs_rcvd] in *.

Lemma ISend_ext : forall e e' c,
  (forall t, In t (ch_wsend c) -> sts e' t = sts e t) -> ISend e c -> ISend e' c.
Proof.
  intros e e' c Hext (H0 & H1). split.
  - intros Hr t Hin. rewrite Hext by assumption. auto.
  - intros Hr h rest Hw. destruct (H1 Hr h rest Hw) as (Hb & Hh). split.
    + intros t Hin. rewrite Hext by (rewrite Hw; right; assumption). auto.
    + rewrite Hext by (rewrite Hw; left; reflexivity). exact Hh.
Qed.

Lemma IRecv_ext : forall e e' c,
  (forall t, In t (ch_wrecv c) -> sts e' t = sts e t) -> IRecv e c -> IRecv e' c.
Proof.
  intros e e' c Hext H r Hin. rewrite Hext by assumption. auto.
Qed.

Lemma inv_env : forall e c sent rcvd e',
  Inv (mkCst e c sent rcvd) -> env_ok c e e' -> Inv (mkCst e' c sent rcvd).
Proof.
  intros e c sent rcvd e' [[F1 F2 F3 F4 F5 F6 F7 F8 F9] HS HR HD] Henv; csimpl.
  split; [split| | |]; csimpl; auto.
  - intros t Hin. rewrite (Henv t Hin). auto.
  - eapply ISend_ext; [|exact HS]. intros t Hin; apply Henv; apply in_or_app; auto.
  - eapply IRecv_ext; [|exact HR]. intros t Hin; apply Henv; apply in_or_app; auto.
Qed.

(* ------------------------------------------------------------------ *)
(* clone, drops                                                        *)
(* ------------------------------------------------------------------ *)
Lemma inv_clone : forall e c sent rcvd,
  Inv (mkCst e c sent rcvd) -> 0 < ch_senders c ->
  Inv (mkCst e (set_senders c (S (ch_senders c))) sent rcvd).
Proof.
  intros e c sent rcvd [[F1 F2 F3 F4 F5 F6 F7 F8 F9] HS HR HD] Hpos; csimpl.
  split; [split| | |]; csimpl; chsimpl; auto.
  - intros r Hin; chsimpl. rewrite (HR r Hin). split; intros [H|H]; auto; lia.
Qed.

Lemma inv_drop_tx : forall e c sent rcvd n e',
  Inv (mkCst e c sent rcvd) -> ch_senders c = S n -> (n = 0 -> ch_wsend c = []) ->
  ((n = 0 /\ unblock_all e (ch_wrecv c) = Some e') \/ (n <> 0 /\ e' = e)) ->
  Inv (mkCst e' (set_senders c n) sent rcvd).
Proof.
  intros e c sent rcvd n e' [[F1 F2 F3 F4 F5 F6 F7 F8 F9] HS HR HD] Hsn Hborrow Hcase; csimpl.
  destruct Hcase as [(-> & Hu)|(Hn & ->)].
  - specialize (Hborrow eq_refl).
    destruct (unblock_all_spec _ _ _ Hu) as ((Hme & Hsts) & _).
    split; [split| | |]; csimpl; chsimpl; auto.
    + intros Hc; contradiction.
    + intros t Hin. rewrite Hborrow in Hin; cbn [app] in Hin. rewrite Hsts, upd_all_in by assumption. auto.
    + split; chsimpl; rewrite Hborrow; [intros _ t []|intros _ h rest Hc; discriminate].
    + intros r Hin. rewrite Hsts, upd_all_in by assumption. split; auto.
  - split; [split| | |]; csimpl; chsimpl; auto.
    + intros _; lia.
    + intros r Hin; chsimpl. rewrite (HR r Hin). split; intros [H|H]; auto; lia.
Qed.

Lemma inv_drop_rx : forall e c sent rcvd n e',
  Inv (mkCst e c sent rcvd) -> ch_receivers c = S n -> (n = 0 -> ch_wrecv c = []) ->
  ((n = 0 /\ unblock_all e (ch_wsend c) = Some e') \/ (n <> 0 /\ e' = e)) ->
  Inv (mkCst e' (set_receivers c n) sent rcvd).
Proof.
  intros e c sent rcvd n e' [[F1 F2 F3 F4 F5 F6 F7 F8 F9] HS HR HD] Hsn Hborrow Hcase; csimpl.
  destruct Hcase as [(-> & Hu)|(Hn & ->)].
  - specialize (Hborrow eq_refl).
    destruct (unblock_all_spec _ _ _ Hu) as ((Hme & Hsts) & _).
    split; [split| | |]; csimpl; chsimpl; auto.
    + intros Hc; contradiction.
    + intros t Hin. rewrite Hborrow, app_nil_r in Hin. rewrite Hsts, upd_all_in by assumption. auto.
    + split; [|intros Hc; contradiction]. intros _ t Hin. rewrite Hsts, upd_all_in by assumption. reflexivity.
    + intros r Hin; chsimpl. rewrite Hborrow in Hin. destruct Hin.
  - assert (HS' : ISend e (set_receivers c n)).
    { destruct HS as (H0 & H1). split; chsimpl; [intros Hc; contradiction|].
      intros _. apply H1. lia. }
    split; [split| | |]; csimpl; chsimpl; auto.
    intros _; lia.
Qed.

(* ------------------------------------------------------------------ *)
(* send: the blocking answer                                           *)
(* ------------------------------------------------------------------ *)
Lemma NoDup_snoc_mid : forall (a b : list nat) m,
  NoDup (a ++ b) -> ~ In m (a ++ b) -> NoDup ((a ++ [m]) ++ b).
Proof.
  induction a as [|x a IH]; intros b m Hnd Hnin; cbn [app] in *.
  - constructor; assumption.
  - inversion Hnd as [|? ? Hx Hnd']; subst. constructor.
    + intros Hin. apply in_app_or in Hin. destruct Hin as [Hin|Hin].
      * apply in_app_or in Hin. destruct Hin as [Hin|[<-|[]]].
        -- apply Hx, in_or_app; auto.
        -- apply Hnin; left; reflexivity.
      * apply Hx, in_or_app; auto.
    + apply IH; [assumption|]. intros Hin; apply Hnin; right; assumption.
Qed.

Lemma room_smb : forall c, ch_wsend c = [] -> room c -> sender_must_block c = false.
Proof.
  intros c Hw Hr. apply sender_must_block_false_iff. split; [assumption|].
  unfold room in Hr. destruct (ch_bound c) as [[|b]|]; auto.
Qed.

Lemma smb_false_room : forall c, sender_must_block c = false -> ch_wsend c = [] /\ room c.
Proof.
  intros c H. apply sender_must_block_false_iff in H. destruct H as (Hw & Hr). split; [assumption|].
  unfold room. destruct (ch_bound c) as [[|b]|]; auto.
Qed.

Lemma smb_true_bounded : forall c, sender_must_block c = true -> ch_wsend c = [] -> ch_bound c <> None.
Proof.
  intros c H Hw. apply sender_must_block_iff in H.
  destruct H as [(b & Hb & _)|[H|(Hb & _)]]; congruence.
Qed.

Lemma inv_send_block : forall e c sent rcvd m e',
  Inv (mkCst e c sent rcvd) -> idle c m -> 0 < ch_senders c ->
  ch_receivers c <> 0 -> sender_must_block c = true -> e_block e m false = Some e' ->
  Inv (mkCst e' (set_wsend c (ch_wsend c ++ [m])) sent rcvd).
Proof.
  intros e c sent rcvd m e' [[F1 F2 F3 F4 F5 F6 F7 F8 F9] HS HR HD] Hidle Hpos Hrcv Hsmb Hb; csimpl.
  destruct (e_block_spec _ _ _ _ Hb) as ((Hme & Hsts) & _). unfold idle in Hidle.
  assert (Hother : forall t, In t (ch_wsend c ++ ch_wrecv c) -> sts e' t = sts e t).
  { intros t Hin. rewrite Hsts. apply upd_neq. intros ->; contradiction. }
  split; [split| | |]; csimpl; chsimpl; auto.
  - apply NoDup_snoc_mid; assumption.
  - intros Hn. exfalso. specialize (F5 Hn). exact (smb_true_bounded c Hsmb F5 Hn).
  - intros t Hin. apply in_app_or in Hin. destruct Hin as [Hin|Hin].
    + apply in_app_or in Hin. destruct Hin as [Hin|[<-|[]]].
      * rewrite Hother by (apply in_or_app; auto). apply F9, in_or_app; auto.
      * rewrite Hsts, upd_eq; auto.
    + rewrite Hother by (apply in_or_app; auto). apply F9, in_or_app; auto.
  - destruct HS as (_ & H1). split; chsimpl; [intros Hc; contradiction|].
    intros _ h rest Hw. change (room (set_wsend c (ch_wsend c ++ [m]))) with (room c).
    destruct (ch_wsend c) as [|h0 r0] eqn:Hws; cbn [app] in Hw; inversion Hw; subst.
    + split; [intros t []|]. rewrite Hsts, upd_eq. split; [discriminate|].
      intros Hroom. rewrite (room_smb c Hws Hroom) in Hsmb. discriminate.
    + destruct (H1 Hrcv h r0 eq_refl) as (Hbl & Hh). split.
      * intros t Hin. apply in_app_or in Hin. destruct Hin as [Hin|[<-|[]]].
        -- rewrite Hother by (right; apply in_or_app; auto). auto.
        -- rewrite Hsts, upd_eq; reflexivity.
      * rewrite Hother by (left; reflexivity). exact Hh.
  - eapply IRecv_ext; [|exact HR]. intros t Hin. apply Hother, in_or_app; auto.
Qed.

(* ------------------------------------------------------------------ *)
(* delivery                                                            *)
(* ------------------------------------------------------------------ *)
Lemma dl_wake_cases : forall c a x, dl_wake c a x = Some Runnable \/ dl_wake c a x = a x.
Proof.
  intros c a x; unfold dl_wake.
  assert (H1 : forall a0 : nat -> option tstate, (a0 x = Some Runnable \/ a0 x = a x) ->
               forall t, upd a0 t Runnable x = Some Runnable \/ upd a0 t Runnable x = a x).
  { intros a0 H t; unfold upd; destruct (Nat.eqb x t); auto. }
  assert (H0 : match ch_wrecv c with tid :: _ => upd a tid Runnable | [] => a end x = Some Runnable \/
               match ch_wrecv c with tid :: _ => upd a tid Runnable | [] => a end x = a x).
  { destruct (ch_wrecv c); auto. }
  destruct (ch_wsend c) as [|tid ws]; auto.
  destruct (ch_bound c) as [b|]; auto.
  destruct (Nat.ltb (S (length (ch_msgs c))) b); auto.
Qed.

Lemma dl_wake_recv : forall c a x, In x (ch_wrecv c) -> length (ch_wrecv c) <= 1 -> dl_wake c a x = Some Runnable.
Proof.
  intros c a x Hin Hlen; unfold dl_wake.
  destruct (ch_wrecv c) as [|r [|r2 wr]]; [destruct Hin| |cbn [length] in Hlen; lia].
  destruct Hin as [<-|[]].
  destruct (ch_wsend c) as [|tid ws]; [apply upd_eq|].
  destruct (ch_bound c) as [b|]; [|apply upd_eq].
  destruct (Nat.ltb (S (length (ch_msgs c))) b); [|apply upd_eq].
  unfold upd. destruct (Nat.eqb r tid); [reflexivity|]. rewrite Nat.eqb_refl; reflexivity.
Qed.

Lemma dl_wake_other : forall c a x,
  ~ In x (ch_wrecv c) -> (forall h rest, ch_wsend c = h :: rest -> x <> h) -> dl_wake c a x = a x.
Proof.
  intros c a x Hnr Hns; unfold dl_wake.
  assert (H0 : match ch_wrecv c with tid :: _ => upd a tid Runnable | [] => a end x = a x).
  { destruct (ch_wrecv c) as [|r wr]; [reflexivity|]. apply upd_neq. intros ->; apply Hnr; left; reflexivity. }
  destruct (ch_wsend c) as [|tid ws]; auto.
  destruct (ch_bound c) as [b|]; auto.
  destruct (Nat.ltb (S (length (ch_msgs c))) b); auto.
  rewrite upd_neq; [assumption|]. apply (Hns tid ws eq_refl).
Qed.

Lemma dl_wake_head : forall c a h rest b,
  ch_wsend c = h :: rest -> ~ In h (ch_wrecv c) -> ch_bound c = Some b ->
  dl_wake c a h = if Nat.ltb (S (length (ch_msgs c))) b then Some Runnable else a h.
Proof.
  intros c a h rest b Hw Hnr Hb; unfold dl_wake. rewrite Hw, Hb.
  destruct (Nat.ltb (S (length (ch_msgs c))) b); [apply upd_eq|].
  destruct (ch_wrecv c) as [|r wr]; [reflexivity|]. apply upd_neq. intros ->; apply Hnr; left; reflexivity.
Qed.

Lemma NoDup_app_disj : forall (a b : list nat) x, NoDup (a ++ b) -> In x a -> ~ In x b.
Proof.
  induction a as [|y a IH]; intros b x Hnd Hin Hb; [destruct Hin|].
  cbn [app] in Hnd. inversion Hnd as [|? ? Hy Hnd']; subst.
  destruct Hin as [<-|Hin]; [apply Hy, in_or_app; auto|]. exact (IH b x Hnd' Hin Hb).
Qed.

Lemma NoDup_app_l : forall (a b : list nat), NoDup (a ++ b) -> NoDup a.
Proof.
  induction a as [|y a IH]; intros b Hnd; [constructor|].
  cbn [app] in Hnd. inversion Hnd as [|? ? Hy Hnd']; subst. constructor; [|eauto].
  intros Hin; apply Hy, in_or_app; auto.
Qed.

Lemma inv_deliver : forall e c sent rcvd m v e' c',
  Inv0 (mkCst e c sent rcvd) -> ch_receivers c <> 0 -> room c ->
  (forall t, In t (ch_wsend c) -> sts e t = Some (Blocked false)) ->
  me e = Some m -> chan_send_deliver e c v = Some (e', c') ->
  Inv (mkCst e' c' (sent ++ [v]) rcvd).
Proof.
  intros e c sent rcvd m v e' c' [F1 F2 F3 F4 F5 F6 F7 F8 F9] Hrcv Hroom Hbl Hme Hd; csimpl.
  destruct (chan_send_deliver_spec _ _ _ _ _ _ Hd Hme) as (mc & -> & (Hme' & Hsts) & Hbnd & Hrc).
  assert (Hlen : length (ch_msgs c ++ [(v, mc)]) = S (length (ch_msgs c))) by apply app_length1.
  split; [split| | |]; csimpl; chsimpl; auto.
  - rewrite map_app, F1, app_assoc. reflexivity.
  - intros b Hb. rewrite Hlen. unfold room in Hroom; rewrite Hb in Hroom.
    destruct b as [|b]; [destruct Hroom as (-> & _); cbn [length Nat.max]; lia|lia].
  - unfold dl_rclock, is_rendezvous. unfold room in Hroom.
    destruct (ch_bound c) as [[|b]|] eqn:Hb; auto.
    + destruct F6 as (rc & Hrc' & Hl). rewrite Hrc'. rewrite Hlen.
      destruct rc as [|x rest]; [cbn [length] in Hl; lia|]. exists rest. split; [reflexivity|].
      cbn [length] in Hl; lia.
    + rewrite F6; reflexivity.
  - intros t Hin. rewrite Hsts. destruct (dl_wake_cases c (sts e) t) as [->| ->]; auto.
  - split; chsimpl; [intros Hc; contradiction|].
    intros _ h rest Hw.
    assert (Hhr : ~ In h (ch_wrecv c)).
    { apply (NoDup_app_disj _ _ h F2). rewrite Hw; left; reflexivity. }
    assert (Hnds : NoDup (h :: rest)) by (rewrite <- Hw; exact (NoDup_app_l _ _ F2)).
    inversion Hnds as [|? ? Hh Hnd']; subst.
    split.
    + intros t Hin. rewrite Hsts, dl_wake_other.
      * apply Hbl. rewrite Hw; right; assumption.
      * apply (NoDup_app_disj _ _ t F2). rewrite Hw; right; assumption.
      * intros h0 rest0 Hw0. rewrite Hw in Hw0; inversion Hw0; subst. intros ->; contradiction.
    + destruct (ch_bound c) as [b|] eqn:Hb; [|rewrite (F5 eq_refl) in Hw; discriminate].
      rewrite Hsts, (dl_wake_head c (sts e) h rest b Hw Hhr Hb).
      unfold room; chsimpl; rewrite Hb, Hlen.
      rewrite (Hbl h) by (rewrite Hw; left; reflexivity).
      destruct (Nat.ltb_spec (S (length (ch_msgs c))) b) as [Hlt|Hge].
      * split; [intros _|reflexivity]. destruct b as [|b]; [lia|assumption].
      * split; [discriminate|]. destruct b as [|b]; [|lia].
        intros (Hc & _). destruct (ch_msgs c); discriminate.
  - intros r Hin; chsimpl. rewrite Hsts, dl_wake_recv by assumption.
    split; [intros _; left|reflexivity]. destruct (ch_msgs c); discriminate.
  - intros Hb _; chsimpl. unfold room in Hroom; rewrite Hb in Hroom. destruct Hroom as (_ & Hne).
    destruct (ch_wrecv c) as [|r [|r2 wr]]; [congruence|eauto|cbn [length] in F3; lia].
Qed.

(* ------------------------------------------------------------------ *)
(* taking                                                              *)
(* ------------------------------------------------------------------ *)
Lemma tk_wake_norecv : forall c rest a x, ch_wrecv c = [] ->
  tk_wake c rest a x =
  match ch_wsend c, ch_bound c with
  | tid :: _, Some (S _) => upd a tid Runnable x
  | _, _ => a x
  end.
Proof.
  intros c rest a x Hw; unfold tk_wake. rewrite Hw. cbn [nilb negb].
  destruct (ch_wsend c) as [|tid ws]; [reflexivity|].
  destruct (ch_bound c) as [[|b]|]; reflexivity.
Qed.

Lemma inv_take : forall e c sent rcvd m v e' c',
  Inv0 (mkCst e c sent rcvd) -> ISend e c -> ch_wrecv c = [] ->
  me e = Some m -> chan_recv_take e c = Some (e', c', v) ->
  Inv (mkCst e' c' sent (rcvd ++ [v])).
Proof.
  intros e c sent rcvd m v e' c' [F1 F2 F3 F4 F5 F6 F7 F8 F9] HS Hwr Hme Ht; csimpl.
  destruct (chan_recv_take_spec _ _ _ _ _ _ Ht Hme) as (vc & rest & rc' & Hmsgs & -> & (Hme' & Hsts) & Hbnd & Hrc).
  assert (Hsts' : forall x, sts e' x = match ch_wsend c, ch_bound c with
                                       | tid :: _, Some (S _) => upd (sts e) tid Runnable x
                                       | _, _ => sts e x end).
  { intros x; rewrite Hsts. apply tk_wake_norecv; assumption. }
  assert (Hcases : forall x, sts e' x = Some Runnable \/ sts e' x = sts e x).
  { intros x; rewrite Hsts'. destruct (ch_wsend c) as [|tid ws]; auto. destruct (ch_bound c) as [[|b]|]; auto.
    unfold upd; destruct (Nat.eqb x tid); auto. }
  rewrite Hmsgs in *. cbn [map fst length] in *.
  split; [split| | |]; csimpl; chsimpl; auto.
  - rewrite F1, <- app_assoc. reflexivity.
  - intros b Hb. specialize (F4 b Hb). lia.
  - destruct (ch_bound c) as [[|b]|] eqn:Hb; auto.
    + destruct F6 as (rc & Hrc' & Hl). rewrite Hrc' in Hrc. destruct Hrc as ((mc & ->) & Hlt).
      exists (rc ++ [mc]). split; [reflexivity|]. rewrite app_length1. lia.
    + rewrite F6 in Hrc. exact Hrc.
  - intros t Hin. destruct (Hcases t) as [->| ->]; auto.
  - destruct HS as (H0 & H1). split; chsimpl.
    + intros Hr t Hin. destruct (Hcases t) as [->| ->]; auto.
    + intros Hr h rs Hw. destruct (H1 Hr h rs Hw) as (Hbl & Hh).
      assert (Hnds : NoDup (h :: rs)) by (rewrite <- Hw; exact (NoDup_app_l _ _ F2)).
      inversion Hnds as [|? ? Hhn Hnd']; subst.
      unfold room in *; chsimpl. rewrite Hmsgs in Hh. rewrite Hwr in *.
      destruct (ch_bound c) as [[|b]|] eqn:Hb.
      * split.
        -- intros t Hin. rewrite Hsts', Hw. auto.
        -- rewrite Hsts', Hw. rewrite Hh. split; intros (Hc1 & Hc2); [discriminate Hc1|exfalso; apply Hc2; reflexivity].
      * split.
        -- intros t Hin. rewrite Hsts', Hw, upd_neq; [auto|]. intros ->; contradiction.
        -- rewrite Hsts', Hw, upd_eq. split; [intros _|reflexivity]. specialize (F4 (S b) eq_refl). lia.
      * rewrite (F5 eq_refl) in Hw; discriminate.
  - intros r Hin; chsimpl. rewrite Hwr in Hin; destruct Hin.
  - intros Hb Hne; chsimpl. specialize (F4 0 Hb). cbn [Nat.max] in F4.
    destruct rest; [congruence|cbn [length] in F4; lia].
Qed.

(* ------------------------------------------------------------------ *)
(* recv: the blocking answer                                           *)
(* ------------------------------------------------------------------ *)
Lemma rdv_wake_cases : forall c a x, rdv_wake c a x = Some Runnable \/ rdv_wake c a x = a x.
Proof.
  intros c a x; unfold rdv_wake. destruct (is_rendezvous c); auto.
  destruct (ch_msgs c); auto. destruct (ch_wsend c) as [|tid ws]; auto.
  unfold upd; destruct (Nat.eqb x tid); auto.
Qed.

Lemma rdv_wake_other : forall c a x, (forall h rest, ch_wsend c = h :: rest -> x <> h) -> rdv_wake c a x = a x.
Proof.
  intros c a x Hne; unfold rdv_wake. destruct (is_rendezvous c); auto.
  destruct (ch_msgs c); auto. destruct (ch_wsend c) as [|tid ws]; auto.
  apply upd_neq. apply (Hne tid ws eq_refl).
Qed.

Lemma inv_recv_block : forall e c sent rcvd m e',
  Inv (mkCst e c sent rcvd) -> idle c m -> 0 < ch_receivers c -> ch_wrecv c = [] ->
  ~ rv_disc c -> receiver_must_block c = true ->
  eff e e' (fun a => upd (rdv_wake c a) m (Blocked false)) ->
  Inv (mkCst e' (set_wrecv c (ch_wrecv c ++ [m])) sent rcvd).
Proof.
  intros e c sent rcvd m e' [[F1 F2 F3 F4 F5 F6 F7 F8 F9] HS HR HD] Hidle Hpos Hwr Hnd Hrmb (Hme & Hsts); csimpl.
  apply receiver_must_block_iff in Hrmb. destruct Hrmb as [Hmsgs|Hc]; [|contradiction].
  assert (Hsnd : ch_senders c <> 0) by (intros Hc; apply Hnd; split; assumption).
  unfold idle in Hidle. rewrite Hwr in *. rewrite app_nil_r in *. cbn [app].
  assert (Hm : sts e' m = Some (Blocked false)) by (rewrite Hsts; apply upd_eq).
  assert (Hoth : forall t, In t (ch_wsend c) -> sts e' t = rdv_wake c (sts e) t).
  { intros t Hin. rewrite Hsts. apply upd_neq. intros ->; contradiction. }
  split; [split| | |]; csimpl; chsimpl; auto.
  - rewrite <- (app_nil_r (ch_wsend c ++ [m])). apply NoDup_snoc_mid; rewrite app_nil_r; assumption.
  - intros t Hin. apply in_app_or in Hin. destruct Hin as [Hin|[<-|[]]]; [|auto].
    rewrite (Hoth t Hin). destruct (rdv_wake_cases c (sts e) t) as [->| ->]; auto.
  - destruct HS as (_ & H1). split; chsimpl; [intros Hc; lia|].
    intros Hr h rest Hw. destruct (H1 Hr h rest Hw) as (Hbl & Hh).
    assert (Hnds : NoDup (h :: rest)) by (rewrite <- Hw; assumption).
    inversion Hnds as [|? ? Hhn Hnd']; subst.
    split.
    + intros t Hin. rewrite Hoth by (rewrite Hw; right; assumption).
      rewrite rdv_wake_other; [auto|]. intros h0 r0 Hw0. rewrite Hw in Hw0; inversion Hw0; subst.
      intros ->; contradiction.
    + rewrite Hoth by (rewrite Hw; left; reflexivity).
      unfold room in *; chsimpl. unfold rdv_wake, is_rendezvous. rewrite Hmsgs, Hw in *.
      destruct (ch_bound c) as [[|b]|] eqn:Hb.
      * rewrite upd_eq. split; [intros _; split; [reflexivity|discriminate]|reflexivity].
      * exact Hh.
      * exact Hh.
  - intros r [<-|[]]; chsimpl. rewrite Hm. split; [discriminate|]. intros [Hc|Hc]; contradiction.
  - intros _ Hc; chsimpl; contradiction.
Qed.

(* ------------------------------------------------------------------ *)
(* the woken segments                                                  *)
(* ------------------------------------------------------------------ *)
Lemma NoDup_filter_app : forall (f : nat -> bool) (a b : list nat), NoDup (a ++ b) -> NoDup (filter f a ++ b).
Proof.
  induction a as [|x a IH]; intros b Hnd; cbn [filter app] in *; [assumption|].
  inversion Hnd as [|? ? Hx Hnd']; subst. destruct (f x); [|auto].
  cbn [app]. constructor; [|auto]. intros Hin; apply Hx. apply in_app_or in Hin. apply in_or_app.
  destruct Hin as [Hin|Hin]; [left; apply filter_In in Hin; tauto|right; assumption].
Qed.

Lemma inv_send_woken_disc : forall e c sent rcvd m,
  Inv (mkCst e c sent rcvd) -> ch_receivers c = 0 ->
  Inv (mkCst e (set_wsend c (remove_t m (ch_wsend c))) sent rcvd).
Proof.
  intros e c sent rcvd m [[F1 F2 F3 F4 F5 F6 F7 F8 F9] HS HR HD] Hrcv; csimpl.
  assert (Hsub : forall t, In t (remove_t m (ch_wsend c)) -> In t (ch_wsend c)).
  { intros t Hin. apply filter_In in Hin. tauto. }
  split; [split| | |]; csimpl; chsimpl; auto.
  - apply NoDup_filter_app; assumption.
  - intros Hn. rewrite (F5 Hn). reflexivity.
  - intros Hne. apply F7. intros Hc. rewrite Hc in Hne. apply Hne; reflexivity.
  - intros t Hin. apply F9. apply in_app_or in Hin. apply in_or_app. destruct Hin; auto.
  - destruct HS as (H0 & _). split; chsimpl; [|intros Hc; contradiction].
    intros _ t Hin. apply (H0 Hrcv). auto.
Qed.

Lemma inv_send_woken_ok : forall e c sent rcvd m rest v e' c',
  Inv (mkCst e c sent rcvd) -> ch_receivers c <> 0 -> ch_wsend c = m :: rest ->
  me e = Some m -> sts e m = Some Runnable ->
  chan_send_deliver e (set_wsend c rest) v = Some (e', c') ->
  Inv (mkCst e' c' (sent ++ [v]) rcvd).
Proof.
  intros e c sent rcvd m rest v e' c' [[F1 F2 F3 F4 F5 F6 F7 F8 F9] HS HR HD] Hrcv Hw Hme Hrun Hd; csimpl.
  destruct HS as (_ & H1). destruct (H1 Hrcv m rest Hw) as (Hbl & Hh).
  rewrite Hw in *. cbn [app] in F2. inversion F2 as [|? ? Hm Hnd]; subst.
  eapply (inv_deliver e (set_wsend c rest)); [| | | |exact Hme|exact Hd]; chsimpl.
  - split; csimpl; chsimpl; auto.
    + intros Hn. specialize (F5 Hn). discriminate.
    + intros _. apply F7; discriminate.
    + intros t Hin. apply F9. cbn [app]. right; assumption.
  - assumption.
  - change (room c). apply Hh; assumption.
  - exact Hbl.
Qed.

Lemma inv_recv_woken_disc : forall e c sent rcvd m,
  Inv (mkCst e c sent rcvd) -> rv_disc c -> In m (ch_wrecv c) ->
  Inv (mkCst e (set_wrecv c (remove_t m (ch_wrecv c))) sent rcvd).
Proof.
  intros e c sent rcvd m [[F1 F2 F3 F4 F5 F6 F7 F8 F9] HS HR HD] (Hmsgs & Hsnd) Hin; csimpl.
  assert (Hws : ch_wsend c = []).
  { destruct (ch_wsend c) as [|h r] eqn:Hw; [reflexivity|]. assert (0 < ch_senders c) by (apply F7; discriminate). lia. }
  assert (Hwr : remove_t m (ch_wrecv c) = []).
  { destruct (ch_wrecv c) as [|r [|r2 wr]]; [reflexivity| |cbn [length] in F3; lia].
    destruct Hin as [->|[]]. unfold remove_t; cbn [filter]. rewrite Nat.eqb_refl. reflexivity. }
  rewrite Hwr.
  split; [split| | |]; csimpl; chsimpl; auto.
  - rewrite Hws. constructor.
  - intros t Hi. rewrite Hws in Hi. destruct Hi.
  - split; chsimpl; rewrite Hws; [intros _ t []|intros _ h rest Hc; discriminate].
  - intros r [].
  - intros _ Hc; chsimpl; contradiction.
Qed.

Lemma inv_recv_woken_ok : forall e c sent rcvd m rest v e' c',
  Inv (mkCst e c sent rcvd) -> ~ rv_disc c -> ch_wrecv c = m :: rest ->
  me e = Some m -> sts e m = Some Runnable ->
  chan_recv_take e (set_wrecv c rest) = Some (e', c', v) ->
  Inv (mkCst e' c' sent (rcvd ++ [v])).
Proof.
  intros e c sent rcvd m rest v e' c' [[F1 F2 F3 F4 F5 F6 F7 F8 F9] HS HR HD] Hnd Hw Hme Hrun Ht; csimpl.
  assert (Hrest : rest = []).
  { rewrite Hw in F3. destruct rest; [reflexivity|cbn [length] in F3; lia]. }
  subst rest.
  assert (Hmsgs : ch_msgs c <> []).
  { assert (Hor : ch_msgs c <> [] \/ ch_senders c = 0) by (apply (HR m); [rewrite Hw; left; reflexivity|assumption]).
    destruct Hor as [H|H]; [assumption|]. intros Hc; apply Hnd; split; assumption. }
  eapply (inv_take e (set_wrecv c [])); [| |reflexivity|exact Hme|exact Ht].
  - split; csimpl; chsimpl; auto.
    + rewrite app_nil_r. exact (NoDup_app_l _ _ F2).
    + intros t Hin. apply F9. rewrite app_nil_r in Hin. apply in_or_app; auto.
  - destruct HS as (H0 & H1). split; chsimpl; [assumption|].
    intros Hr h rs Hws. destruct (H1 Hr h rs Hws) as (Hbl & Hh). split; [assumption|].
    rewrite Hh. unfold room; chsimpl. destruct (ch_bound c) as [[|b]|]; try tauto.
Qed.

(* ------------------------------------------------------------------ *)
(* every step preserves the invariant                                  *)
(* ------------------------------------------------------------------ *)
Lemma inv_eff_id : forall e c sent rcvd e',
  Inv (mkCst e c sent rcvd) -> eff e e' (fun a => a) -> Inv (mkCst e' c sent rcvd).
Proof.
  intros e c sent rcvd e' HI (_ & Hs). eapply inv_env; [exact HI|]. intros t _. apply Hs.
Qed.

Theorem inv_step : forall s l s', Inv s -> step s l s' -> Inv s'.
Proof.
  intros [e c sent rcvd] l s' HI (Hg & Hx). destruct l as [t v cb|t v|t cb|t|t|t|t|e']; cbn [guard exec_lbl] in Hg, Hx; csimpl.
  - (* LSend *)
    destruct Hg as ((Hme & Hrun) & Hidle & Hpos).
    destruct (chan_send_pre e c cb) as [[[e1 c1] r]|] eqn:Hp; [|discriminate].
    pose proof (chan_send_pre_spec _ _ _ _ _ _ _ Hp Hme) as Hs.
    destruct r.
    + destruct Hs as (Hrcv & Hsmb & -> & ->). unfold deliver_then in Hx; csimpl.
      destruct (chan_send_deliver e c v) as [[e2 c2]|] eqn:Hd; [|discriminate]. inversion Hx; subst.
      destruct (smb_false_room c Hsmb) as (Hw & Hroom).
      eapply inv_deliver; [exact (i_0 _ HI)|exact Hrcv|exact Hroom| |exact Hme|exact Hd].
      intros t0 Hin. rewrite Hw in Hin; destruct Hin.
    + destruct Hs as (_ & _ & _ & -> & ->). inversion Hx; subst. exact HI.
    + destruct Hs as (_ & -> & ->). inversion Hx; subst. exact HI.
    + destruct Hs as (Hrcv & Hsmb & _ & Hb & ->). inversion Hx; subst.
      eapply inv_send_block; eassumption.
  - (* LSendWoken *)
    destruct Hg as ((Hme & Hrun) & Hin).
    destruct (chan_send_woken e c) as [[[e1 c1] r]|] eqn:Hp; [|discriminate].
    destruct (chan_send_woken_spec _ _ _ _ _ _ Hp Hme) as (-> & Hs).
    destruct r; try contradiction.
    + destruct Hs as (Hrcv & rest & Hw & ->). unfold deliver_then in Hx; csimpl.
      destruct (chan_send_deliver e (set_wsend c rest) v) as [[e2 c2]|] eqn:Hd; [|discriminate]. inversion Hx; subst.
      eapply inv_send_woken_ok; eassumption.
    + destruct Hs as (Hrcv & ->). inversion Hx; subst. apply inv_send_woken_disc; assumption.
  - (* LRecv *)
    destruct Hg as ((Hme & Hrun) & Hidle & Hpos & Hwr).
    destruct (chan_recv_pre e c cb) as [[[e1 c1] r]|] eqn:Hp; [|discriminate].
    pose proof (chan_recv_pre_spec _ _ _ _ _ _ _ Hp Hme) as Hs.
    destruct r as [v0| | |].
    + destruct Hs as (_ & Hnd & _ & Hrmb & -> & Hef). unfold take_then in Hx; csimpl.
      destruct (chan_recv_take e1 c) as [[[e2 c2] v]|] eqn:Ht; [|discriminate]. inversion Hx; subst.
      pose proof (inv_eff_id _ _ _ _ _ HI Hef) as HI1.
      eapply inv_take; [exact (i_0 _ HI1)|exact (i_send _ HI1)|exact Hwr| |exact Ht].
      destruct Hef as (Hm1 & _). rewrite Hm1. exact Hme.
    + destruct Hs as (_ & _ & _ & -> & ->). inversion Hx; subst. exact HI.
    + destruct Hs as (_ & -> & ->). inversion Hx; subst. exact HI.
    + destruct Hs as (Hnd & _ & Hrmb & -> & Hef). inversion Hx; subst.
      eapply inv_recv_block; eassumption.
  - (* LRecvWoken *)
    destruct Hg as ((Hme & Hrun) & Hin).
    destruct (chan_recv_woken e c) as [[[e1 c1] r]|] eqn:Hp; [|discriminate].
    destruct (chan_recv_woken_spec _ _ _ _ _ _ Hp Hme) as (-> & Hs).
    destruct r as [v0| | |]; try contradiction.
    + destruct Hs as (_ & Hnd & rest & Hw & ->). unfold take_then in Hx; csimpl.
      destruct (chan_recv_take e (set_wrecv c rest)) as [[[e2 c2] v]|] eqn:Ht; [|discriminate]. inversion Hx; subst.
      eapply inv_recv_woken_ok; eassumption.
    + destruct Hs as (Hd & ->). inversion Hx; subst. apply inv_recv_woken_disc; assumption.
  - (* LClone *)
    destruct Hg as ((Hme & Hrun) & Hidle & Hpos).
    destruct (chan_clone_tx e [OChan c] 0) as [[e1 st1]|] eqn:Hc; [|discriminate].
    destruct (chan_clone_tx_spec _ _ _ _ Hc) as (-> & ->). inversion Hx; subst.
    apply inv_clone; assumption.
  - (* LDropTx *)
    destruct Hg as ((Hme & Hrun) & Hidle & Hpos & Hborrow).
    destruct (chan_drop_tx e [OChan c] 0) as [[e1 st1]|] eqn:Hc; [|discriminate].
    destruct (chan_drop_tx_spec _ _ _ _ _ Hc Hme) as [(_ & -> & ->)|(_ & n & Hsn & -> & Hcase)]; inversion Hx; subst.
    + exact HI.
    + eapply inv_drop_tx; [exact HI|exact Hsn| |exact Hcase]. intros ->. apply Hborrow; assumption.
  - (* LDropRx *)
    destruct Hg as ((Hme & Hrun) & Hidle & Hpos & Hborrow).
    destruct (chan_drop_rx e [OChan c] 0) as [[e1 st1]|] eqn:Hc; [|discriminate].
    destruct (chan_drop_rx_spec _ _ _ _ _ Hc Hme) as [(_ & -> & ->)|(_ & n & Hsn & -> & Hcase)]; inversion Hx; subst.
    + exact HI.
    + eapply inv_drop_rx; [exact HI|exact Hsn| |exact Hcase]. intros ->. apply Hborrow; assumption.
  - (* LEnv *)
    inversion Hx; subst. eapply inv_env; eassumption.
Qed.

Theorem reachable_inv : forall b s, reachable b s -> Inv s.
Proof.
  intros b s Hr; induction Hr as [e|s l s' _ IH Hstep]; [apply inv_init|eapply inv_step; eassumption].
Qed.

Lemma reachable_bound : forall b s, reachable b s -> ch_bound (cs_c s) = b.
Proof.
  intros b s Hr; induction Hr as [e|s l s' _ IH Hstep]; [reflexivity|].
  (* no block changes ch_bound *)
  destruct Hstep as (Hg & Hx). destruct s as [e c sent rcvd].
  destruct l as [t v cb|t v|t cb|t|t|t|t|e']; cbn [guard exec_lbl] in Hg, Hx; csimpl.
  - destruct Hg as ((Hme & _) & _).
    destruct (chan_send_pre e c cb) as [[[e1 c1] r]|] eqn:Hp; [|discriminate].
    pose proof (chan_send_pre_spec _ _ _ _ _ _ _ Hp Hme) as Hs.
    destruct r.
    + destruct Hs as (_ & _ & -> & ->). unfold deliver_then in Hx; csimpl.
      destruct (chan_send_deliver e c v) as [[e2 c2]|] eqn:Hd; [|discriminate]. inversion Hx; subst.
      destruct (chan_send_deliver_spec _ _ _ _ _ _ Hd Hme) as (mc & -> & _). reflexivity.
    + destruct Hs as (_ & _ & _ & -> & ->). inversion Hx; subst. reflexivity.
    + destruct Hs as (_ & -> & ->). inversion Hx; subst. reflexivity.
    + destruct Hs as (_ & _ & _ & _ & ->). inversion Hx; subst. reflexivity.
  - destruct Hg as ((Hme & _) & _).
    destruct (chan_send_woken e c) as [[[e1 c1] r]|] eqn:Hp; [|discriminate].
    destruct (chan_send_woken_spec _ _ _ _ _ _ Hp Hme) as (-> & Hs).
    destruct r; try contradiction.
    + destruct Hs as (_ & rest & _ & ->). unfold deliver_then in Hx; csimpl.
      destruct (chan_send_deliver e (set_wsend c rest) v) as [[e2 c2]|] eqn:Hd; [|discriminate]. inversion Hx; subst.
      destruct (chan_send_deliver_spec _ _ _ _ _ _ Hd Hme) as (mc & -> & _). reflexivity.
    + destruct Hs as (_ & ->). inversion Hx; subst. reflexivity.
  - destruct Hg as ((Hme & _) & _).
    destruct (chan_recv_pre e c cb) as [[[e1 c1] r]|] eqn:Hp; [|discriminate].
    pose proof (chan_recv_pre_spec _ _ _ _ _ _ _ Hp Hme) as Hs.
    destruct r as [v0| | |].
    + destruct Hs as (_ & _ & _ & _ & -> & (Hm1 & _)). unfold take_then in Hx; csimpl.
      destruct (chan_recv_take e1 c) as [[[e2 c2] v]|] eqn:Ht; [|discriminate]. inversion Hx; subst.
      rewrite <- Hm1 in Hme.
      destruct (chan_recv_take_spec _ _ _ _ _ _ Ht Hme) as (vc & rest & rc' & _ & -> & _). reflexivity.
    + destruct Hs as (_ & _ & _ & -> & ->). inversion Hx; subst. reflexivity.
    + destruct Hs as (_ & -> & ->). inversion Hx; subst. reflexivity.
    + destruct Hs as (_ & _ & _ & -> & _). inversion Hx; subst. reflexivity.
  - destruct Hg as ((Hme & _) & _).
    destruct (chan_recv_woken e c) as [[[e1 c1] r]|] eqn:Hp; [|discriminate].
    destruct (chan_recv_woken_spec _ _ _ _ _ _ Hp Hme) as (-> & Hs).
    destruct r as [v0| | |]; try contradiction.
    + destruct Hs as (_ & _ & rest & _ & ->). unfold take_then in Hx; csimpl.
      destruct (chan_recv_take e (set_wrecv c rest)) as [[[e2 c2] v]|] eqn:Ht; [|discriminate]. inversion Hx; subst.
      destruct (chan_recv_take_spec _ _ _ _ _ _ Ht Hme) as (vc & rest' & rc' & _ & -> & _). reflexivity.
    + destruct Hs as (_ & ->). inversion Hx; subst. reflexivity.
  - destruct (chan_clone_tx e [OChan c] 0) as [[e1 st1]|] eqn:Hc; [|discriminate].
    destruct (chan_clone_tx_spec _ _ _ _ Hc) as (-> & ->). inversion Hx; subst. reflexivity.
  - destruct Hg as ((Hme & _) & _).
    destruct (chan_drop_tx e [OChan c] 0) as [[e1 st1]|] eqn:Hc; [|discriminate].
    destruct (chan_drop_tx_spec _ _ _ _ _ Hc Hme) as [(_ & -> & ->)|(_ & n & Hsn & -> & Hcase)]; inversion Hx; subst; reflexivity.
  - destruct Hg as ((Hme & _) & _).
    destruct (chan_drop_rx e [OChan c] 0) as [[e1 st1]|] eqn:Hc; [|discriminate].
    destruct (chan_drop_rx_spec _ _ _ _ _ Hc Hme) as [(_ & -> & ->)|(_ & n & Hsn & -> & Hcase)]; inversion Hx; subst; reflexivity.
  - inversion Hx; subst. reflexivity.
Qed.
