(* ------------------------------------------------------------------------- *)
(*  SV.Proofs.ClockEdges : property C15, BLOCK-LEVEL EDGE THEOREMS.           *)
(*                                                                            *)
(*  For every synchronising primitive of the model, two facts about the       *)
(*  atomic blocks (the code between two scheduling points) that implement it: *)
(*    (R) the release-like block of task a leaves in the object (message,     *)
(*        batch, epoch, barrier clock, Once state ...) a clock that dominates *)
(*        a's clock at the point the block stamps it;                         *)
(*    (A) the acquire-like block of task b leaves b with a clock that         *)
(*        dominates the stored clock it consumed;                             *)
(*  hence, by vle_trans, the edge  vle (clock of a at R) (clock of b after A).*)
(*  Plus the local facts: every clock call of the engine makes the caller's   *)
(*  own clock grow and leaves the clocks of all other tasks alone, and        *)
(*  `increment` makes the own entry strictly larger.                          *)
(*  No Admitted / admit / Axiom / Parameter.                                  *)
(* ------------------------------------------------------------------------- *)
From Coq Require Import List NArith Bool Arith Lia.
From SV Require Import Params Clock.VClock Prim.Objects Prim.Atomic Engine.Exec Prim.Semaphore Prim.SemInv
  Lang.Code Lang.ThreadOps Lang.SyncOps Lang.SyncOps2.
From SV Require Import Proofs.VClockProofs Proofs.SemBase Proofs.ChanBase Proofs.AtomicProofs
  Proofs.LifecycleProofs Proofs.LockProofs.
Import ListNotations.
Local Open Scope N_scope.

Ltac splits := repeat match goal with |- _ /\ _ => split end.

(* ========================================================================= *)
(*  0. Vocabulary and the local facts                                         *)
(* ========================================================================= *)

(* every task other than t has the same clock in e' as in e *)
Definition others_same (e e' : exec) (t : nat) : Prop :=
  forall x, x <> t -> e_clock e' x = e_clock e x.

(* no task's clock shrinks (and no task disappears) *)
Definition clocks_grow (e e' : exec) : Prop :=
  forall x c, e_clock e x = Some c -> exists c', e_clock e' x = Some c' /\ vle c c' = true.

Lemma clocks_grow_refl : forall e, clocks_grow e e.
Proof. intros e x c H; exists c; split; [exact H|apply vle_refl]. Qed.

Lemma clocks_grow_trans : forall e1 e2 e3, clocks_grow e1 e2 -> clocks_grow e2 e3 -> clocks_grow e1 e3.
Proof.
  intros e1 e2 e3 H12 H23 x c Hc.
  destruct (H12 x c Hc) as (c2 & Hc2 & L2). destruct (H23 x c2 Hc2) as (c3 & Hc3 & L3).
  exists c3; split; [exact Hc3|eapply vle_trans; eassumption].
Qed.

Lemma same_clocks_grow : forall e e', same_clocks e e' -> clocks_grow e e'.
Proof. intros e e' H x c Hc; exists c; split; [rewrite H; exact Hc|apply vle_refl]. Qed.

Lemma same_clocks_refl : forall e, same_clocks e e.
Proof. intros e x; reflexivity. Qed.

Lemma same_clocks_trans : forall e1 e2 e3, same_clocks e1 e2 -> same_clocks e2 e3 -> same_clocks e1 e3.
Proof. intros e1 e2 e3 H12 H23 x; rewrite H23; apply H12. Qed.

Lemma set_grow : forall e e' t c c',
  e_clock e t = Some c -> e_clock e' t = Some c' -> vle c c' = true -> others_same e e' t -> clocks_grow e e'.
Proof.
  intros e e' t c c' Hc Hc' L Ho x cx Hx. destruct (Nat.eq_dec x t) as [->|Hne].
  - exists c'; split; [exact Hc'|congruence].
  - exists cx; split; [rewrite (Ho x Hne); exact Hx|apply vle_refl].
Qed.

(* ---- increment_clock: the own entry goes up by one, nothing else moves ---- *)
Theorem increment_clock_local : forall e t e',
  e_increment_clock e t = Some e' ->
  exists c c', e_clock e t = Some c /\ e_clock e' t = Some c' /\ increment c t = Some c'
    /\ vle c c' = true /\ vlt c c' = true /\ nth t c' 0 = nth t c 0 + 1
    /\ others_same e e' t /\ me e' = me e.
Proof.
  intros e t e' H. destruct (e_increment_clock_spec _ _ _ H) as ((Hm & _) & c & c' & Hc & Hi & Hs & Ho).
  exists c, c'. splits; auto.
  - apply (increment_grows _ _ _ Hi).
  - apply (increment_strict _ _ _ Hi).
  - apply (increment_spec _ _ _ Hi).
Qed.

(* ---- join_clock (VectorClock::update into the task's clock) ---- *)
Theorem join_clock_local : forall e t v e',
  e_join_clock e t v = Some e' ->
  exists c, e_clock e t = Some c /\ e_clock e' t = Some (update c v)
    /\ vle c (update c v) = true /\ vle v (update c v) = true
    /\ others_same e e' t /\ me e' = me e.
Proof.
  intros e t v e' H. destruct (e_join_clock_spec _ _ _ _ H) as ((Hm & _) & c & Hc & Hs & Ho).
  exists c. splits; auto; [apply update_ub_l|apply update_ub_r].
Qed.

(* ---- update_clock = increment own entry, then join ---- *)
Theorem update_clock_local : forall e t v e',
  e_update_clock e t v = Some e' ->
  exists c c1, e_clock e t = Some c /\ increment c t = Some c1 /\ e_clock e' t = Some (update c1 v)
    /\ vle c (update c1 v) = true /\ vlt c (update c1 v) = true /\ vle v (update c1 v) = true
    /\ nth t c 0 < nth t (update c1 v) 0
    /\ others_same e e' t /\ me e' = me e.
Proof.
  intros e t v e' H. destruct (e_update_clock_spec _ _ _ _ H) as ((Hm & _) & c & c1 & Hc & Hi & Hs & Ho).
  pose proof (increment_grows _ _ _ Hi) as (L1 & _).
  pose proof (increment_spec _ _ _ Hi) as (_ & _ & Hn & _).
  assert (Lt : nth t c 0 < nth t (update c1 v) 0) by (rewrite update_nth, Hn; lia).
  assert (L : vle c (update c1 v) = true) by (eapply vle_trans; [exact L1|apply update_ub_l]).
  exists c, c1. splits; auto.
  - apply vlt_vle_ne. split; [exact L|]. intros E. rewrite <- E in Lt. lia.
  - apply update_ub_r.
Qed.

(* the three calls never shrink anybody's clock *)
Lemma e_increment_clock_grow : forall e t e', e_increment_clock e t = Some e' -> clocks_grow e e'.
Proof.
  intros e t e' H. destruct (increment_clock_local _ _ _ H) as (c & c' & Hc & Hc' & _ & L & _ & _ & Ho & _).
  eapply set_grow; eassumption.
Qed.
Lemma e_join_clock_grow : forall e t v e', e_join_clock e t v = Some e' -> clocks_grow e e'.
Proof.
  intros e t v e' H. destruct (join_clock_local _ _ _ _ H) as (c & Hc & Hc' & L & _ & Ho & _).
  eapply set_grow; eassumption.
Qed.
Lemma e_update_clock_grow : forall e t v e', e_update_clock e t v = Some e' -> clocks_grow e e'.
Proof.
  intros e t v e' H. destruct (update_clock_local _ _ _ _ H) as (c & c1 & Hc & _ & Hc' & L & _ & _ & _ & Ho & _).
  eapply set_grow; eassumption.
Qed.

(* two successive events of one task are strictly ordered: whatever happens to the clock in between
   (it can only grow), an increment makes the later clock strictly larger than the earlier one *)
Theorem own_events_strictly_ordered : forall c0 c c' t,
  vle c0 c = true -> increment c t = Some c' -> vlt c0 c' = true /\ nth t c0 0 < nth t c' 0.
Proof.
  intros c0 c c' t L Hi. pose proof (increment_spec _ _ _ Hi) as (Ht & Hlen & Hn & _ & _).
  pose proof (increment_grows _ _ _ Hi) as (L1 & _).
  pose proof (proj1 (vle_ple _ _) L) as P. pose proof (ple_all_indices _ _ P t) as Pt.
  assert (Lt : nth t c0 0 < nth t c' 0) by lia.
  split; [|exact Lt]. apply vlt_vle_ne. split; [eapply vle_trans; eassumption|].
  intros E; rewrite E in Lt; lia.
Qed.

(* the engine calls that do not touch clocks *)
Lemma e_unblock_same : forall e t e', e_unblock e t = Some e' -> same_clocks e e'.
Proof. intros e t e' H; exact (proj2 (e_unblock_spec _ _ _ H)). Qed.
Lemma e_block_same : forall e t b e', e_block e t b = Some e' -> same_clocks e e'.
Proof. intros e t b e' H; exact (proj2 (e_block_spec _ _ _ _ H)). Qed.

Lemma e_waker_wake_same : forall e t e', e_waker_wake e t = Some e' -> same_clocks e e'.
Proof.
  intros e t e' H; unfold e_waker_wake in H.
  destruct (exec_is_finished e); [inversion H; apply same_clocks_refl|].
  destruct (get_task e t) as [tk|]; [|discriminate].
  destruct (is_finished tk); [inversion H; apply same_clocks_refl|].
  eapply upd_task_clock_same; [exact H|].
  intros tk0; unfold wake_task. destruct (is_sleeping tk0); reflexivity.
Qed.

Lemma wake_opt_same : forall e w e', wake_opt e w = Some e' -> same_clocks e e'.
Proof.
  intros e [t|] e' H; cbn [wake_opt] in H; [eapply e_waker_wake_same; exact H|inversion H; apply same_clocks_refl].
Qed.

(* ========================================================================= *)
(*  1. spawn -> child start                                                   *)
(* ========================================================================= *)
(* spawn_thread: the parent increments its own entry, extends its clock to cover the child's id, and
   the child starts with a COPY of that clock.  So: child's initial clock = parent's clock right after
   the spawn, and both strictly dominate the parent's clock before the spawn. *)
Theorem spawn_edge : forall e e' tid,
  spawn_thread_now e = Some (e', tid) ->
  exists p cp c1 cc,
    me e = Some p /\ tid = length (tasks e) /\ e_clock e tid = None
    /\ e_clock e p = Some cp /\ increment cp p = Some c1 /\ extend c1 tid = Some cc
    /\ e_clock e' p = Some cc /\ e_clock e' tid = Some cc
    /\ vle cp cc = true /\ vlt cp cc = true /\ nth p cp 0 < nth p cc 0
    /\ (forall x, x <> p -> x <> tid -> e_clock e' x = e_clock e x)
    /\ me e' = me e.
Proof.
  intros e e' tid H. unfold spawn_thread_now in H.
  destruct (me e) as [p|] eqn:Hme; [|discriminate].
  destruct (e_increment_clock e p) as [e1|] eqn:Hinc; [|discriminate].
  destruct (e_clock e1 p) as [pc|] eqn:Hpc; [|discriminate].
  destruct (extend pc (length (tasks e))) as [cc|] eqn:Hext; [|discriminate].
  destruct (upd_task e1 p (fun tk => set_clock tk cc)) as [e2|] eqn:Hupd; [|discriminate].
  inversion H; subst e' tid; clear H.
  destruct (increment_clock_local _ _ _ Hinc) as (cp & c1 & Hcp & Hc1 & Hi & L1 & _ & Hn1 & Ho1 & Hm1).
  rewrite Hpc in Hc1; inversion Hc1; subst pc; clear Hc1.
  pose proof (e_increment_clock_frame _ _ _ Hinc) as (Hlen1 & _).
  destruct (upd_task_get _ _ _ _ Hupd) as (Hsame2 & Hoth2 & Hlen2 & _ & Hcur2 & _).
  assert (Hp1 : exists tk1, get_task e1 p = Some tk1).
  { unfold e_clock in Hpc. destruct (get_task e1 p) as [tk1|]; [eauto|discriminate]. }
  destruct Hp1 as (tk1 & Hg1).
  assert (Hlt : (p < length (tasks e))%nat) by (eapply e_clock_in_range; exact Hcp).
  assert (Hlen : length (tasks e2) = length (tasks e)) by congruence.
  pose proof (extend_grows _ _ _ Hext) as L2.
  pose proof (extend_spec _ _ _ Hext) as (_ & _ & Hn2).
  assert (L : vle cp cc = true) by (eapply vle_trans; eassumption).
  assert (Lt : nth p cp 0 < nth p cc 0) by (rewrite Hn2, Hn1; lia).
  (* clocks in the final state *)
  assert (Hget : forall x, (x < length (tasks e))%nat ->
            e_clock (with_live (with_tasks e2 (tasks e2 ++ [mkTask Runnable false false false false None cc]))
                               (live e2 ++ [length (tasks e)])) x = e_clock e2 x).
  { intros x Hx. unfold e_clock, get_task. cbn [with_live with_tasks tasks].
    rewrite nth_error_app1 by lia. reflexivity. }
  exists p, cp, c1, cc. splits; auto.
  - unfold e_clock, get_task. destruct (nth_error (tasks e) (length (tasks e))) eqn:E; [|reflexivity].
    exfalso. assert (length (tasks e) < length (tasks e))%nat by (apply nth_error_Some; congruence). lia.
  - rewrite Hget by exact Hlt. unfold e_clock. rewrite Hsame2, Hg1. reflexivity.
  - unfold e_clock, get_task. cbn [with_live with_tasks tasks].
    rewrite nth_error_app2 by lia. rewrite Hlen, Nat.sub_diag. reflexivity.
  - apply vlt_vle_ne. split; [exact L|]. intros E; rewrite E in Lt; lia.
  - intros x Hxp Hxt. destruct (Nat.lt_ge_cases x (length (tasks e))) as [Hx|Hx].
    + rewrite Hget by exact Hx. unfold e_clock at 1. rewrite (Hoth2 x) by congruence.
      fold (e_clock e1 x). apply Ho1; exact Hxp.
    + assert (Hx' : (length (tasks e) < x)%nat) by lia.
      unfold e_clock, get_task. cbn [with_live with_tasks tasks].
      replace (nth_error (tasks e2 ++ [mkTask Runnable false false false false None cc]) x) with (@None task).
      2:{ symmetry. apply nth_error_None. rewrite app_length. cbn [length]. lia. }
      replace (nth_error (tasks e) x) with (@None task); [reflexivity|].
      symmetry. apply nth_error_None. lia.
  - unfold me. cbn [with_live with_tasks current]. rewrite Hcur2. fold (me e1). congruence.
Qed.

(* the edge in one line: parent's clock before the spawn <= child's initial clock = parent's clock after *)
Corollary spawn_edge_vle : forall e e' tid p cp,
  spawn_thread_now e = Some (e', tid) -> me e = Some p -> e_clock e p = Some cp ->
  exists cc, e_clock e' tid = Some cc /\ e_clock e' p = Some cc /\ vle cp cc = true.
Proof.
  intros e e' tid p cp H Hm Hc.
  destruct (spawn_edge _ _ _ H) as (p' & cp' & c1 & cc & Hm' & _ & _ & Hc' & _ & _ & Hp & Ht & L & _).
  rewrite Hm in Hm'; inversion Hm'; subst p'. rewrite Hc in Hc'; inversion Hc'; subst cp'.
  exists cc; auto.
Qed.

(* ========================================================================= *)
(*  2. child end -> join                                                      *)
(* ========================================================================= *)
(* the last block of JoinHandle::join: the joiner's clock afterwards dominates the target's final
   clock (and its own previous clock, strictly) *)
Theorem join_edge : forall target e s e' s',
  join_final target e s = Some (e', s') ->
  exists m ct cm cm',
    me e = Some m /\ e_clock e target = Some ct /\ fin_in e target
    /\ e_clock e m = Some cm /\ e_clock e' m = Some cm'
    /\ vle ct cm' = true /\ vle cm cm' = true /\ vlt cm cm' = true
    /\ others_same e e' m.
Proof.
  intros target e s e' s' H.
  destruct (join_final_spec _ _ _ _ _ H) as (_ & Hf & _ & m & tk & Hm & Hg & _ & Hu & _).
  destruct (update_clock_local _ _ _ _ Hu) as (c & c1 & Hc & _ & Hc' & L & Lt & Lv & _ & Ho & _).
  exists m, (t_clock tk), c, (update c1 (t_clock tk)). splits; auto.
  unfold e_clock; rewrite Hg; reflexivity.
Qed.

(* a finished task's clock does not move any more in this block, so "the target's final clock" is the
   clock it had when its last block ended *)
Lemma join_target_unchanged : forall target e s e' s' m,
  join_final target e s = Some (e', s') -> me e = Some m -> target <> m -> e_clock e' target = e_clock e target.
Proof.
  intros target e s e' s' m H Hm Hne. destruct (join_edge _ _ _ _ _ H) as (m' & _ & _ & _ & Hm' & _ & _ & _ & _ & _ & _ & _ & Ho).
  rewrite Hm in Hm'; inversion Hm'; subst m'. apply Ho; exact Hne.
Qed.

(* ========================================================================= *)
(*  3. atomics                                                                *)
(* ========================================================================= *)
(* `atomic_block a ty o` (Proofs/AtomicProofs.v) is the one block of atomic_code after its Switch.
   Naming in the model follows the source: `exhale` is the ACQUIRE half (the task's clock takes in the
   variable's clock: update_clock = increment own entry + join), `inhale` the PUBLISH half (own entry
   incremented, the variable's clock joined with the task's clock).
     acquires  (a_exhales):  every operation but `store`      (load, swap, compare_exchange - even when it
                                                                 fails -, fetch_xxx)
     publishes (a_inhales):  store, swap, fetch_xxx always; compare_exchange only when it succeeds; load never. *)

Definition publishes (ty : aty) (o : aop) (v : N) : Prop := a_inhales ty o v = true.
Definition acquires (o : aop) : Prop := a_exhales o = true.

(* complete description of what the block does to the clocks *)
Theorem atomic_block_clocks : forall a ty o e s e' s' ans,
  atomic_block a ty o e s = Some (e', s', ans) ->
  exists m v c v' c' cm cm',
    me e = Some m /\ get_obj s a = Some (OAtomic v c) /\ get_obj s' a = Some (OAtomic v' c')
    /\ e_clock e m = Some cm /\ e_clock e' m = Some cm' /\ others_same e e' m
    /\ vle cm cm' = true                                   (* own clock grows *)
    /\ vle c c' = true                                     (* the variable's clock grows *)
    /\ (a_exhales o = true -> vle c cm' = true)            (* acquire *)
    /\ (a_inhales ty o v = true -> vle cm' c' = true)      (* publish: the clock AFTER the operation *)
    /\ (a_inhales ty o v = false -> c' = c)                (* no publication: the variable's clock is untouched *)
    /\ (a_exhales o = false -> exists c1, increment cm m = Some c1 /\ cm' = c1).
Proof.
  intros a ty o e s e' s' ans H. unfold atomic_block in H.
  destruct (me e) as [m|] eqn:Hme; [|discriminate].
  destruct (get_obj s a) as [[v c| | | | | | | | | | | | ]|] eqn:Hobj; try discriminate.
  destruct (a_apply ty o v) as [[newv okflag] ret].
  destruct (a_exhales o) eqn:Hex.
  - (* acquiring operation *)
    unfold exhale in H. destruct (e_update_clock e m c) as [e1|] eqn:Hu; [|discriminate].
    destruct (update_clock_local _ _ _ _ Hu) as (cm & c1 & Hcm & Hi1 & Hc1 & L1 & _ & Lc & _ & Ho1 & Hm1).
    destruct (a_inhales ty o v) eqn:Hin.
    + unfold inhale in H. destruct (e_increment_clock e1 m) as [e2|] eqn:Hi2; [|discriminate].
      destruct (increment_clock_local _ _ _ Hi2) as (d & d' & Hd & Hd' & _ & L2 & _ & _ & Ho2 & _).
      rewrite Hd' in H. inversion H; subst e' s' ans; clear H.
      rewrite Hc1 in Hd; inversion Hd; subst d; clear Hd.
      exists m, v, c, (match newv with Some x => x | None => v end), (update c d'), cm, d'.
      splits; auto; try discriminate; try (intros E0; rewrite Hin in E0; discriminate E0).
      * eapply get_set_same_atomic; exact Hobj.
      * intros x Hx. rewrite (Ho2 x Hx). apply Ho1; exact Hx.
      * eapply vle_trans; eassumption.
      * apply update_ub_l.
      * intros _. eapply vle_trans; eassumption.
      * intros _. apply update_ub_r.
    + inversion H; subst e' s' ans; clear H.
      exists m, v, c, (match newv with Some x => x | None => v end), c, cm, (update c1 c).
      splits; auto; try discriminate; try (intros E0; rewrite Hin in E0; discriminate E0).
      * eapply get_set_same_atomic; exact Hobj.
      * apply vle_refl.
  - (* store: no acquisition *)
    destruct (a_inhales ty o v) eqn:Hin.
    + unfold inhale in H. destruct (e_increment_clock e m) as [e2|] eqn:Hi2; [|discriminate].
      destruct (increment_clock_local _ _ _ Hi2) as (d & d' & Hd & Hd' & Hinc & L2 & _ & _ & Ho2 & _).
      rewrite Hd' in H. inversion H; subst e' s' ans; clear H.
      exists m, v, c, (match newv with Some x => x | None => v end), (update c d'), d, d'.
      splits; auto; try discriminate; try (intros E0; rewrite Hin in E0; discriminate E0).
      * eapply get_set_same_atomic; exact Hobj.
      * apply update_ub_l.
      * intros _. apply update_ub_r.
      * intros _. exists d'. auto.
    + (* not reachable for the operations of the model (a store always publishes); proved all the same *)
      destruct o; try discriminate Hex. cbn in Hin. discriminate.
Qed.

(* (R) a publishing operation (store, swap, successful compare_exchange, fetch_xxx): afterwards the
   variable's clock dominates the clock the task has AFTER the operation *)
Theorem atomic_release : forall a ty o e s e' s' ans m v c,
  atomic_block a ty o e s = Some (e', s', ans) ->
  me e = Some m -> get_obj s a = Some (OAtomic v c) -> a_inhales ty o v = true ->
  exists v' c' cm', get_obj s' a = Some (OAtomic v' c') /\ e_clock e' m = Some cm' /\ vle cm' c' = true.
Proof.
  intros a ty o e s e' s' ans m v c H Hm Hobj Hin.
  destruct (atomic_block_clocks _ _ _ _ _ _ _ _ H) as (m0 & v0 & c0 & v' & c' & cm & cm' & Hm0 & Hobj0 & Hobj' & _ & Hcm' & _ & _ & _ & _ & Hp & _).
  rewrite Hm in Hm0; inversion Hm0; subst m0. rewrite Hobj in Hobj0; inversion Hobj0; subst v0 c0.
  exists v', c', cm'. auto.
Qed.

(* (A) an acquiring operation (load, swap, compare_exchange, fetch_xxx): afterwards the task's clock
   dominates the clock found in the variable *)
Theorem atomic_acquire : forall a ty o e s e' s' ans m v c,
  atomic_block a ty o e s = Some (e', s', ans) ->
  me e = Some m -> get_obj s a = Some (OAtomic v c) -> a_exhales o = true ->
  exists cm', e_clock e' m = Some cm' /\ vle c cm' = true.
Proof.
  intros a ty o e s e' s' ans m v c H Hm Hobj Hex.
  destruct (atomic_block_clocks _ _ _ _ _ _ _ _ H) as (m0 & v0 & c0 & v' & c' & cm & cm' & Hm0 & Hobj0 & _ & _ & Hcm' & _ & _ & _ & Ha & _).
  rewrite Hm in Hm0; inversion Hm0; subst m0. rewrite Hobj in Hobj0; inversion Hobj0; subst v0 c0.
  exists cm'. auto.
Qed.

(* the variable's clock never shrinks: any atomic operation in between keeps the published clock *)
Theorem atomic_var_clock_grows : forall a ty o e s e' s' ans v c,
  atomic_block a ty o e s = Some (e', s', ans) -> get_obj s a = Some (OAtomic v c) ->
  exists v' c', get_obj s' a = Some (OAtomic v' c') /\ vle c c' = true.
Proof.
  intros a ty o e s e' s' ans v c H Hobj.
  destruct (atomic_block_clocks _ _ _ _ _ _ _ _ H) as (m0 & v0 & c0 & v' & c' & cm & cm' & _ & Hobj0 & Hobj' & _ & _ & _ & _ & L & _).
  rewrite Hobj in Hobj0; inversion Hobj0; subst v0 c0. exists v', c'. auto.
Qed.

(* THE EDGE: a publishes with o1 in state (e1,s1); later (any number of blocks later, provided the
   variable's clock did not shrink - which atomic_var_clock_grows guarantees for atomic operations, and
   nothing else writes an OAtomic) b acquires with o2: b's clock after dominates a's clock after o1. *)
Theorem atomic_edge : forall a ty1 o1 e1 s1 e1' s1' ans1 ma v1 c1 ty2 o2 e2 s2 e2' s2' ans2 mb v2 c2 v1' c1',
  atomic_block a ty1 o1 e1 s1 = Some (e1', s1', ans1) ->
  me e1 = Some ma -> get_obj s1 a = Some (OAtomic v1 c1) -> a_inhales ty1 o1 v1 = true ->
  get_obj s1' a = Some (OAtomic v1' c1') ->
  atomic_block a ty2 o2 e2 s2 = Some (e2', s2', ans2) ->
  me e2 = Some mb -> get_obj s2 a = Some (OAtomic v2 c2) -> a_exhales o2 = true ->
  vle c1' c2 = true ->
  exists ca cb, e_clock e1' ma = Some ca /\ e_clock e2' mb = Some cb /\ vle ca cb = true.
Proof.
  intros a ty1 o1 e1 s1 e1' s1' ans1 ma v1 c1 ty2 o2 e2 s2 e2' s2' ans2 mb v2 c2 v1' c1'
         H1 Hm1 Ho1 Hin H1' H2 Hm2 Ho2 Hex Hle.
  destruct (atomic_release _ _ _ _ _ _ _ _ _ _ _ H1 Hm1 Ho1 Hin) as (v' & c' & ca & Hobj' & Hca & La).
  rewrite H1' in Hobj'; inversion Hobj'; subst v' c'.
  destruct (atomic_acquire _ _ _ _ _ _ _ _ _ _ _ H2 Hm2 Ho2 Hex) as (cb & Hcb & Lb).
  exists ca, cb. splits; auto. eapply vle_trans; [exact La|]. eapply vle_trans; eassumption.
Qed.

(* NON-EDGES *)
(* a failed compare_exchange acquires but does not publish: the variable and its clock are unchanged *)
Theorem atomic_failed_cas_no_publish : forall a ty cur new e s e' s' ans v c,
  atomic_block a ty (ACas cur new) e s = Some (e', s', ans) ->
  get_obj s a = Some (OAtomic v c) -> v <> cur ->
  get_obj s' a = Some (OAtomic v c) /\ ans = [0; v].
Proof.
  intros a ty cur new e s e' s' ans v c H Hobj Hne. unfold atomic_block in H.
  destruct (me e) as [m|]; [|discriminate]. rewrite Hobj in H.
  assert (E : N.eqb v cur = false) by (apply N.eqb_neq; exact Hne).
  cbn [a_apply rmw_fun a_exhales a_inhales] in H. rewrite E in H.
  unfold exhale in H. destruct (e_update_clock e m c) as [e1|]; [|discriminate].
  inversion H; subst. split; [eapply get_set_same_atomic; exact Hobj|reflexivity].
Qed.

(* a load does not publish *)
Theorem atomic_load_no_publish : forall a ty e s e' s' ans v c,
  atomic_block a ty ALoad e s = Some (e', s', ans) -> get_obj s a = Some (OAtomic v c) ->
  get_obj s' a = Some (OAtomic v c).
Proof.
  intros a ty e s e' s' ans v c H Hobj. unfold atomic_block in H.
  destruct (me e) as [m|]; [|discriminate]. rewrite Hobj in H.
  cbn [a_apply rmw_fun a_exhales a_inhales] in H.
  unfold exhale in H. destruct (e_update_clock e m c) as [e1|]; [|discriminate].
  inversion H; subst. eapply get_set_same_atomic; exact Hobj.
Qed.

(* a store does not acquire: the storing task's clock is its old clock with one tick, whatever the
   variable's clock was *)
Theorem atomic_store_no_acquire : forall a ty x e s e' s' ans m cm,
  atomic_block a ty (AStore x) e s = Some (e', s', ans) -> me e = Some m -> e_clock e m = Some cm ->
  exists c1, increment cm m = Some c1 /\ e_clock e' m = Some c1.
Proof.
  intros a ty x e s e' s' ans m cm H Hm Hcm.
  destruct (atomic_block_clocks _ _ _ _ _ _ _ _ H) as (m0 & v0 & c0 & v' & c' & cm0 & cm' & Hm0 & _ & _ & Hcm0 & Hcm' & _ & _ & _ & _ & _ & _ & Hn).
  rewrite Hm in Hm0; inversion Hm0; subst m0. rewrite Hcm in Hcm0; inversion Hcm0; subst cm0.
  destruct (Hn eq_refl) as (c1 & Hi & ->). exists c1; auto.
Qed.

(* ========================================================================= *)
(*  4. unpark -> park: NO clock is transferred                                *)
(* ========================================================================= *)
(* Task::unpark and Task::park only move the token / the blocked state: every clock stays as it is.
   (thread::park/unpark of the model carry no causality; a program that relies on park/unpark for
   ordering is seen as unordered by the clocks.) *)
Theorem unpark_no_clock_edge : forall e t e', e_unpark e t = Some e' -> same_clocks e e'.
Proof.
  intros e t e' H; unfold e_unpark in H.
  destruct (get_task e t) as [tk|]; [|discriminate].
  destruct (t_inpark tk).
  - destruct (negb (can_spur tk)); [discriminate|]. destruct (t_token tk); [discriminate|].
    eapply e_unblock_same; exact H.
  - eapply upd_task_clock_same; [exact H|]. intros tk0; reflexivity.
Qed.

Theorem park_no_clock_edge : forall e t e' b, e_park e t = Some (e', b) -> same_clocks e e'.
Proof.
  intros e t e' b H; unfold e_park in H.
  destruct (get_task e t) as [tk|]; [|discriminate].
  destruct (t_inpark tk); [discriminate|]. destruct (is_blocked tk); [discriminate|].
  destruct (t_token tk).
  - destruct (upd_task e t (fun tk => set_park tk false (t_inpark tk))) as [e1|] eqn:Hu; [|discriminate].
    inversion H; subst. eapply upd_task_clock_same; [exact Hu|]. intros tk0; reflexivity.
  - destruct (is_finished tk); [discriminate|].
    destruct (upd_task e t (fun tk => set_state (set_park tk (t_token tk) true) (Blocked true))) as [e1|] eqn:Hu; [|discriminate].
    inversion H; subst. eapply upd_task_clock_same; [exact Hu|]. intros tk0; reflexivity.
Qed.

(* ========================================================================= *)
(*  5. BatchSemaphore: release -> the acquire it enables; Mutex, RwLock       *)
(* ========================================================================= *)
Definition bclocks (bs : list (N * vclock)) : list vclock := map snd bs.

Lemma vle_nil : forall d, vle [] d = true.
Proof. intros d. apply vle_ple. split; [cbn; lia|]. intros i Hi; cbn in Hi; lia. Qed.

(* ---- 5.1 the deque of permit batches (PermitsAvailable) ---- *)
(* The while-let loop consumes a PREFIX `used` of the deque (the last used batch possibly only in
   part: it then stays at the front with the same clock and a smaller, positive size).  The clock it
   returns is exactly the join of the start clock with the clocks of the used batches: an upper bound
   of them, and below every other upper bound. *)
Lemma take_batches_clocks : forall bs k clk bs' clk' miss,
  take_batches bs k clk = (bs', clk', miss) ->
  vle clk clk' = true /\
  exists used rest,
    bs = used ++ rest
    /\ Forall (fun b => vle (snd b) clk' = true) used
    /\ (bs' = rest \/ exists n c n', In (n, c) used /\ bs' = (n', c) :: rest /\ 0 < n')
    /\ (bs <> [] -> used <> [])
    /\ (forall d, vle clk d = true -> Forall (fun b => vle (snd b) d = true) used -> vle clk' d = true).
Proof.
  induction bs as [|[size bc] r IH]; intros k clk bs' clk' miss H; cbn [take_batches] in H.
  - inversion H; subst. split; [apply vle_refl|]. exists [], []. splits; auto.
  - destruct (N.ltb_spec k size) as [Hlt|Hge].
    + inversion H; subst. split; [apply update_ub_l|]. exists [(size, bc)], r. splits.
      * reflexivity.
      * constructor; [apply update_ub_r|constructor].
      * right. exists size, bc, (size - k). splits; [left; reflexivity|reflexivity|lia].
      * intros _; discriminate.
      * intros d Hd Hf. inversion Hf; subst. apply update_least; auto.
    + destruct (N.eqb_spec (k - size) 0) as [Hz|Hnz].
      * inversion H; subst. split; [apply update_ub_l|]. exists [(size, bc)], bs'. splits.
        -- reflexivity.
        -- constructor; [apply update_ub_r|constructor].
        -- left; reflexivity.
        -- intros _; discriminate.
        -- intros d Hd Hf. inversion Hf; subst. apply update_least; auto.
      * destruct (IH _ _ _ _ _ H) as (L & used & rest & E & F & D & _ & Least).
        split; [eapply vle_trans; [apply update_ub_l|exact L]|].
        exists ((size, bc) :: used), rest. splits.
        -- rewrite E; reflexivity.
        -- constructor; [cbn [snd]; eapply vle_trans; [apply update_ub_r|exact L]|exact F].
        -- destruct D as [D|(n & c & n' & I & D & P)]; [left; exact D|].
           right; exists n, c, n'; splits; [right; exact I|exact D|exact P].
        -- intros _; discriminate.
        -- intros d Hd Hf. inversion Hf; subst. apply Least; [apply update_least; auto|auto].
Qed.

(* sizes of the batches in the deque are positive (release(0) returns early, new(0) creates no batch) *)
Definition batches_pos (s : sem) : Prop := Forall (fun b => 0 < fst b) (init_batches s).

Lemma sum_sizes_pos_nil : forall bs, Forall (fun b : N * vclock => 0 < fst b) bs -> sum_sizes bs = 0 -> bs = [].
Proof.
  intros [|[n c] r] F H; [reflexivity|]. inversion F; subst. cbn [sum_sizes fst] in *. lia.
Qed.

Lemma take_batches_pos : forall bs k clk bs' clk' miss,
  take_batches bs k clk = (bs', clk', miss) -> Forall (fun b => 0 < fst b) bs -> Forall (fun b => 0 < fst b) bs'.
Proof.
  induction bs as [|[size bc] r IH]; intros k clk bs' clk' miss H F; cbn [take_batches] in H.
  - inversion H; subst; constructor.
  - inversion F; subst. destruct (N.ltb_spec k size) as [Hlt|Hge].
    + inversion H; subst. constructor; [cbn [fst]; lia|assumption].
    + destruct (N.eqb_spec (k - size) 0); [inversion H; subst; assumption|eapply IH; eassumption].
Qed.

(* taking ALL the permits of the deque consumes every batch *)
Lemma take_batches_all : forall bs k clk bs' clk' miss,
  take_batches bs k clk = (bs', clk', miss) -> Forall (fun b => 0 < fst b) bs -> sum_sizes bs = k -> 0 < k ->
  bs' = [] /\ miss = 0 /\ Forall (fun b => vle (snd b) clk' = true) bs.
Proof.
  induction bs as [|[size bc] r IH]; intros k clk bs' clk' miss H F S P; cbn [take_batches sum_sizes] in *.
  - lia.
  - inversion F; subst. cbn [fst] in *. destruct (N.ltb_spec (size + sum_sizes r) size) as [Hlt|Hge]; [lia|].
    destruct (N.eqb_spec (size + sum_sizes r - size) 0) as [Hz|Hnz].
    + inversion H; subst. assert (E : bs' = []) by (apply sum_sizes_pos_nil; [assumption|lia]). subst bs'.
      splits; auto. constructor; [apply update_ub_r|constructor].
    + pose proof (take_batches_clocks _ _ _ _ _ _ H) as (L & _).
      destruct (IH _ _ _ _ _ H) as (E & M & Fr); [assumption|lia|lia|].
      splits; auto. constructor; [cbn [snd]; eapply vle_trans; [apply update_ub_r|exact L]|exact Fr].
Qed.

(* ---- 5.2 PermitsAvailable::acquire / release ---- *)
Theorem permits_acquire_clocks : forall s k acq s' clk,
  permits_acquire s k acq = PaOk s' clk ->
  exists used rest,
    init_batches s = used ++ rest
    /\ Forall (fun b => vle (snd b) clk = true) used
    /\ (init_batches s' = rest \/ exists n c n', In (n, c) used /\ init_batches s' = (n', c) :: rest /\ 0 < n')
    /\ (k <> 0 -> init_batches s <> [] -> used <> [])
    /\ (forall d, Forall (fun b => vle (snd b) d = true) used -> vle clk d = true)
    /\ sm_wtab s' = sm_wtab s /\ sm_queue s' = sm_queue s /\ sm_fair s' = sm_fair s
    /\ (k <> 0 -> sm_last_acquire s' = update (sm_last_acquire s) acq).
Proof.
  intros s k acq s' clk H. unfold permits_acquire in H.
  destruct (N.eqb_spec k 0) as [Hz|Hnz].
  - inversion H; subst. exists [], (init_batches s'). splits; auto; try congruence.
    intros d _; apply vle_nil.
  - destruct (N.leb k (sm_avail s)); [|discriminate].
    destruct (take_batches (init_batches s) k []) as [[bs' c] miss] eqn:Ht.
    destruct (N.eqb miss 0); [|discriminate]. inversion H; subst s' clk; clear H.
    destruct (take_batches_clocks _ _ _ _ _ _ Ht) as (_ & used & rest & E & F & D & NE & Least).
    exists used, rest. splits; auto.
    intros d Fd. apply Least; [apply vle_nil|exact Fd].
Qed.

Lemma permits_release_batches : forall s k c,
  init_batches (permits_release s k c) = init_batches s ++ [(k, c)]
  /\ sm_wtab (permits_release s k c) = sm_wtab s /\ sm_queue (permits_release s k c) = sm_queue s
  /\ sm_fair (permits_release s k c) = sm_fair s /\ sm_last_acquire (permits_release s k c) = sm_last_acquire s.
Proof. intros s k c; splits; reflexivity. Qed.

Lemma permits_release_pos : forall s k c, batches_pos s -> 0 < k -> batches_pos (permits_release s k c).
Proof.
  intros s k c F P. unfold batches_pos. rewrite (proj1 (permits_release_batches s k c)).
  apply Forall_app; split; [exact F|constructor; [exact P|constructor]].
Qed.

Lemma permits_acquire_pos : forall s k acq s' clk, permits_acquire s k acq = PaOk s' clk -> batches_pos s -> batches_pos s'.
Proof.
  intros s k acq s' clk H F. unfold permits_acquire in H.
  destruct (N.eqb k 0); [inversion H; subst; exact F|].
  destruct (N.leb k (sm_avail s)); [|discriminate].
  destruct (take_batches (init_batches s) k []) as [[bs' c] miss] eqn:Ht.
  destruct (N.eqb miss 0); [|discriminate]. inversion H; subst s' clk; clear H.
  unfold batches_pos. change (Forall (fun b => 0 < fst b) bs'). eapply take_batches_pos; eassumption.
Qed.

Lemma sem_new_pos : forall n fair c, batches_pos (sem_new n fair c) /\ batches_pos (sem_const_new n fair).
Proof.
  intros n fair c. unfold batches_pos, init_batches, sem_new, sem_const_new; cbn [sm_batches sm_avail].
  split; destruct (N.eqb_spec n 0); repeat constructor; cbn [fst]; lia.
Qed.

(* taking all the available permits (what Mutex::lock and RwLock::write do) consumes every batch *)
Theorem permits_acquire_all : forall s k acq s' clk,
  permits_acquire s k acq = PaOk s' clk -> batches_pos s -> batches_ok s -> sm_avail s = k -> 0 < k ->
  init_batches s' = [] /\ Forall (fun b => vle (snd b) clk = true) (init_batches s).
Proof.
  intros s k acq s' clk H F B A P. unfold permits_acquire in H.
  destruct (N.eqb_spec k 0) as [Hz|Hnz]; [lia|].
  destruct (N.leb k (sm_avail s)); [|discriminate].
  destruct (take_batches (init_batches s) k []) as [[bs' c] miss] eqn:Ht.
  destruct (N.eqb miss 0); [|discriminate]. inversion H; subst s' clk; clear H.
  destruct (take_batches_all _ _ _ _ _ _ Ht F) as (E & _ & Fa); [rewrite init_batches_sum by exact B; exact A|exact P|].
  subst bs'. split; [reflexivity|exact Fa].
Qed.

(* ---- 5.3 acquire_permits: (A) the acquirer joins the clocks of the batches it consumes ---- *)
Theorem acquire_permits_edge : forall e s k e' s',
  acquire_permits e s k = Some (e', s', AOk) ->
  exists m cm cm' clk,
    me e = Some m /\ e_clock e m = Some cm /\ e_clock e' m = Some cm'
    /\ permits_acquire s k cm = PaOk s' clk /\ k <> 0
    /\ vle clk cm' = true /\ vle cm cm' = true /\ vlt cm cm' = true /\ others_same e e' m /\ me e' = me e.
Proof.
  intros e s k e' s' H. unfold acquire_permits in H.
  destruct (N.eqb_spec k 0) as [Hz|Hnz]; [discriminate|].
  destruct (sm_closed s); [discriminate|].
  destruct ((match sm_queue s with [] => true | _ => false end) || negb (sm_fair s)); [|discriminate].
  destruct (me e) as [m|] eqn:Hm; [|discriminate].
  destruct (e_clock e m) as [cm|] eqn:Hcm; [|discriminate].
  destruct (permits_acquire s k cm) as [s1 clk| |] eqn:Hpa; try discriminate.
  destruct (e_update_clock e m clk) as [e1|] eqn:Hu; [|discriminate]. inversion H; subst e1 s1; clear H.
  destruct (update_clock_local _ _ _ _ Hu) as (c & c1 & Hc & _ & Hc' & L & Lt & Lv & _ & Ho & Hme).
  rewrite Hcm in Hc; inversion Hc; subst c.
  exists m, cm, (update c1 clk), clk. splits; auto; congruence.
Qed.

Corollary acquire_permits_consumed : forall e s k e' s',
  acquire_permits e s k = Some (e', s', AOk) ->
  exists m cm' used rest,
    me e = Some m /\ e_clock e' m = Some cm'
    /\ init_batches s = used ++ rest /\ Forall (fun b => vle (snd b) cm' = true) used
    /\ (init_batches s <> [] -> used <> [])
    /\ (init_batches s' = rest \/ exists n c n', In (n, c) used /\ init_batches s' = (n', c) :: rest /\ 0 < n').
Proof.
  intros e s k e' s' H.
  destruct (acquire_permits_edge _ _ _ _ _ H) as (m & cm & cm' & clk & Hm & _ & Hcm' & Hpa & Hk & L & _).
  destruct (permits_acquire_clocks _ _ _ _ _ Hpa) as (used & rest & E & F & D & NE & _).
  exists m, cm', used, rest. splits; auto.
  eapply Forall_impl; [|exact F]. intros b Hb. cbv beta in Hb. eapply vle_trans; eassumption.
Qed.

Lemma acquire_permits_fail : forall e s k e' s' r,
  acquire_permits e s k = Some (e', s', r) -> r <> AOk -> e' = e /\ s' = s.
Proof.
  intros e s k e' s' r H Hr. unfold acquire_permits in H.
  destruct (N.eqb k 0); [discriminate|].
  destruct (sm_closed s); [inversion H; auto|].
  destruct ((match sm_queue s with [] => true | _ => false end) || negb (sm_fair s)); [|inversion H; auto].
  destruct (me e) as [m|]; [|discriminate]. destruct (e_clock e m) as [cm|]; [|discriminate].
  destruct (permits_acquire s k cm) as [s1 clk| |]; try discriminate; [|inversion H; auto].
  destruct (e_update_clock e m clk); [|discriminate]. inversion H; subst. congruence.
Qed.

(* ---- 5.4 unblock_waiters_from_front: the releaser hands batches over to queued waiters ---- *)
Definition waiter_task (s : sem) (wid : nat) : option nat := option_map wt_task (get_waiter s wid).

(* the clock c has been joined into the clock of the task of some queued waiter *)
Definition handed (s : sem) (e' : exec) (c : vclock) : Prop :=
  exists wid t ct, In wid (sm_queue s) /\ waiter_task s wid = Some t /\ e_clock e' t = Some ct /\ vle c ct = true.

Lemma handed_mono : forall s s2 e' c,
  (forall wid, In wid (sm_queue s2) -> In wid (sm_queue s)) -> (forall wid, waiter_task s2 wid = waiter_task s wid) ->
  handed s2 e' c -> handed s e' c.
Proof.
  intros s s2 e' c Hq Hw (wid & t & ct & I & W & C & L). exists wid, t, ct. splits; auto. rewrite <- Hw; exact W.
Qed.

Lemma handed_grow : forall s e1 e2 c, clocks_grow e1 e2 -> handed s e1 c -> handed s e2 c.
Proof.
  intros s e1 e2 c G (wid & t & ct & I & W & C & L). destruct (G _ _ C) as (ct' & C' & L').
  exists wid, t, ct'. splits; auto. eapply vle_trans; eassumption.
Qed.

Lemma waiter_task_upd : forall s wid f x, (forall w, wt_task (f w) = wt_task w) ->
  waiter_task (upd_waiter s wid f) x = waiter_task s x.
Proof.
  intros s wid f x Hf. unfold waiter_task. destruct (Nat.eq_dec wid x) as [<-|Hne].
  - rewrite get_upd_eq. destruct (get_waiter s wid); cbn [option_map]; [rewrite Hf|]; reflexivity.
  - rewrite get_upd_neq by exact Hne. reflexivity.
Qed.

Lemma consume_compose : forall (all1 u1 r1 b1 u2 r2 b2 : list vclock),
  all1 = u1 ++ r1 -> (b1 = r1 \/ exists c, In c u1 /\ b1 = c :: r1) ->
  b1 = u2 ++ r2 -> (b2 = r2 \/ exists c, In c u2 /\ b2 = c :: r2) ->
  exists u r, all1 = u ++ r /\ (b2 = r \/ exists c, In c u /\ b2 = c :: r) /\ (forall c, In c u -> In c u1 \/ In c u2).
Proof.
  intros all1 u1 r1 b1 u2 r2 b2 E1 [D1|(c & I1 & D1)] E2 D2.
  - exists (u1 ++ u2), r2. splits.
    + rewrite E1, <- app_assoc. congruence.
    + destruct D2 as [D2|(c & I & D2)]; [left; exact D2|right; exists c; split; [apply in_or_app; right; exact I|exact D2]].
    + intros c I; apply in_app_or in I; exact I.
  - destruct u2 as [|c2 u2'].
    + cbn [app] in E2. exists u1, r1. splits; auto.
      destruct D2 as [D2|(c' & [] & _)]. right. exists c. split; [exact I1|congruence].
    + rewrite D1 in E2. cbn [app] in E2. inversion E2; subst c2. exists (u1 ++ u2'), r2. splits.
      * rewrite E1, <- app_assoc. congruence.
      * destruct D2 as [D2|(c' & I & D2)]; [left; exact D2|]. right. exists c'. split; [|exact D2].
        apply in_or_app. destruct I as [<-|I]; [left; exact I1|right; exact I].
      * intros c' I; apply in_app_or in I. destruct I as [I|I]; [left; exact I|right; right; exact I].
Qed.

Theorem unblock_front_clocks : forall fuel e s e' s',
  unblock_front fuel e s = Some (e', s') ->
  clocks_grow e e' /\ me e' = me e /\
  exists uc rc,
    bclocks (init_batches s) = uc ++ rc
    /\ (bclocks (init_batches s') = rc \/ exists c, In c uc /\ bclocks (init_batches s') = c :: rc)
    /\ Forall (handed s e') uc.
Proof.
  assert (Base : forall e s, clocks_grow e e /\ me e = me e /\
            exists uc rc, bclocks (init_batches s) = uc ++ rc
              /\ (bclocks (init_batches s) = rc \/ exists c, In c uc /\ bclocks (init_batches s) = c :: rc)
              /\ Forall (handed s e) uc).
  { intros e s. split; [apply clocks_grow_refl|]. split; [reflexivity|].
    exists [], (bclocks (init_batches s)). splits; auto. }
  induction fuel as [|f IH]; intros e s e' s' H; cbn [unblock_front] in H.
  - inversion H; subst. apply Base.
  - destruct (sm_queue s) as [|wid rest] eqn:Q; [inversion H; subst; apply Base|].
    destruct (get_waiter s wid) as [w|] eqn:Hw; [|discriminate].
    destruct (negb (in_cleanup e) && (match task_finished e (wt_task w) with Some true => true | _ => false end)).
    + (* stale waiter dropped from the queue *)
      destruct (IH _ _ _ _ H) as (G & Hme & uc & rc & E & D & F).
      split; [exact G|]. split; [exact Hme|]. exists uc, rc. splits; auto.
      eapply Forall_impl; [|exact F]. intros c. apply handed_mono.
      * intros x Hx. rewrite Q. right. exact Hx.
      * intros x. rewrite waiter_task_upd by (intros w0; reflexivity). reflexivity.
    + destruct (N.leb (wt_n w) (sm_avail s)); [|inversion H; subst; apply Base].
      destruct (permits_acquire (set_queue s rest) (wt_n w) (wt_clock w)) as [s1 clk| |] eqn:Hpa; try discriminate.
      destruct (negb (wt_queued w)); [discriminate|]. destruct (wt_has w); [discriminate|].
      destruct (task_finished e (wt_task w)) as [[|]|]; try discriminate.
      destruct (e_join_clock e (wt_task w) clk) as [e1|] eqn:Hj; [|discriminate].
      destruct (e_unblock e1 (wt_task w)) as [e2|] eqn:Hub; [|discriminate].
      destruct (wake_opt e2 (wt_waker w)) as [e3|] eqn:Hwk; [|discriminate].
      destruct (IH _ _ _ _ H) as (G & Hme & uc2 & rc2 & E2 & D2 & F2).
      destruct (permits_acquire_clocks _ _ _ _ _ Hpa) as (used & rest1 & E1 & F1 & D1 & _ & _ & Wt & Qu & _).
      destruct (join_clock_local _ _ _ _ Hj) as (c0 & Hc0 & Hc1 & _ & Lclk & _ & Hme1).
      assert (G13 : clocks_grow e e3).
      { eapply clocks_grow_trans; [eapply e_join_clock_grow; exact Hj|].
        eapply clocks_grow_trans; [apply same_clocks_grow; eapply e_unblock_same; exact Hub|].
        apply same_clocks_grow; eapply wake_opt_same; exact Hwk. }
      assert (G1' : clocks_grow e1 e').
      { eapply clocks_grow_trans; [apply same_clocks_grow; eapply e_unblock_same; exact Hub|].
        eapply clocks_grow_trans; [apply same_clocks_grow; eapply wake_opt_same; exact Hwk|exact G]. }
      split; [eapply clocks_grow_trans; eassumption|].
      split.
      { rewrite Hme. rewrite (eng_frame_me _ _ (wake_opt_frame _ _ _ Hwk)).
        rewrite (eng_frame_me _ _ (e_unblock_frame _ _ _ Hub)). exact Hme1. }
      (* lists of clocks *)
      assert (A1 : bclocks (init_batches s) = bclocks used ++ bclocks rest1).
      { change (init_batches s) with (init_batches (set_queue s rest)). rewrite E1. unfold bclocks. apply map_app. }
      assert (B1 : bclocks (init_batches s1) = bclocks rest1 \/
                   exists c, In c (bclocks used) /\ bclocks (init_batches s1) = c :: bclocks rest1).
      { destruct D1 as [D1|(n & c & n' & I & D1 & _)]; [left; rewrite D1; reflexivity|].
        right. exists c. split; [change c with (snd (n, c)); apply in_map; exact I|rewrite D1; reflexivity]. }
      destruct (consume_compose _ _ _ _ _ _ _ A1 B1 E2 D2) as (u & r & Eu & Du & Iu).
      exists u, r. splits; auto.
      apply Forall_forall. intros c Ic. destruct (Iu c Ic) as [I|I].
      * (* a batch consumed for the head waiter: joined into its task's clock *)
        destruct (G1' _ _ Hc1) as (ct & Hct & Lct).
        exists wid, (wt_task w), ct. splits.
        -- rewrite Q; left; reflexivity.
        -- unfold waiter_task; rewrite Hw; reflexivity.
        -- exact Hct.
        -- apply in_map_iff in I. destruct I as (b & <- & Ib).
           eapply vle_trans; [exact (proj1 (Forall_forall _ _) F1 b Ib)|]. eapply vle_trans; eassumption.
      * pose proof (proj1 (Forall_forall _ _) F2 c I) as Hh. revert Hh. apply handed_mono.
        -- intros x Hx. rewrite Q. right. cbn [upd_waiter set_wtab sm_queue] in Hx. rewrite Qu in Hx. exact Hx.
        -- intros x. rewrite waiter_task_upd by (intros w0; reflexivity).
           unfold waiter_task. rewrite (get_waiter_wtab (set_queue s rest) s1 x Wt). reflexivity.
Qed.

(* ---- 5.5 folds over the queue that only wake / block tasks ---- *)
Lemma fold_opt_same : forall {B} (F : option exec -> B -> option exec) l e e',
  (forall b, F None b = None) -> (forall e b e', F (Some e) b = Some e' -> same_clocks e e') ->
  fold_left F l (Some e) = Some e' -> same_clocks e e'.
Proof.
  intros B F l. induction l as [|b r IH]; intros e e' HN HS H; cbn [fold_left] in H.
  - inversion H; apply same_clocks_refl.
  - destruct (F (Some e) b) as [e1|] eqn:E1.
    + eapply same_clocks_trans; [eapply HS; exact E1|eapply IH; eassumption].
    + rewrite fold_left_none in H by exact HN. discriminate.
Qed.

Lemma reblock_if_unfair_same : forall e s e', reblock_if_unfair e s = Some e' -> same_clocks e e'.
Proof.
  intros e s e' H. unfold reblock_if_unfair in H. destruct (sm_fair s); [inversion H; apply same_clocks_refl|].
  eapply fold_opt_same; [| |exact H].
  - intros b; reflexivity.
  - intros e0 b e0' H0. unfold reblock_step in H0. destruct (get_waiter s b) as [w|]; [|discriminate].
    match type of H0 with (if ?c then _ else _) = _ => destruct c end;
      [eapply e_block_same; exact H0|inversion H0; apply same_clocks_refl].
Qed.

(* ---- 5.6 release: (R) the released batch carries the releaser's clock (after its tick) ---- *)
Theorem sem_release_edge : forall e s k e' s',
  sem_release e s k = Some (e', s') -> k <> 0 -> should_stop e = Some false ->
  exists m cm mc,
    me e = Some m /\ e_clock e m = Some cm /\ increment cm m = Some mc
    /\ vle cm mc = true /\ vlt cm mc = true
    /\ (exists cm', e_clock e' m = Some cm' /\ vle mc cm' = true)
    /\ clocks_grow e e'
    /\ (exists uc rc,
          bclocks (init_batches s) ++ [mc] = uc ++ rc
          /\ (bclocks (init_batches s') = rc \/ exists c, In c uc /\ bclocks (init_batches s') = c :: rc)
          /\ Forall (handed s e') uc)
    /\ (sm_fair s = false ->
          s' = permits_release s k mc /\ e_clock e' m = Some mc /\ others_same e e' m).
Proof.
  intros e s k e' s' H Hk Hs. unfold sem_release in H.
  destruct (N.eqb_spec k 0) as [Hz|_]; [contradiction|]. rewrite Hs in H.
  destruct (me e) as [m|] eqn:Hm; [|discriminate].
  destruct (e_increment_clock e m) as [e1|] eqn:Hi; [|discriminate].
  destruct (e_clock e1 m) as [mc|] eqn:Hmc; [|discriminate].
  destruct (increment_clock_local _ _ _ Hi) as (cm & mc' & Hcm & Hmc' & Hinc & L & Lt & _ & Ho & _).
  rewrite Hmc in Hmc'; inversion Hmc'; subst mc'; clear Hmc'.
  pose proof (e_increment_clock_grow _ _ _ Hi) as G1.
  destruct (permits_release_batches s k mc) as (Eb & Ew & Eq & Ef & _).
  exists m, cm, mc. split; [reflexivity|]. split; [exact Hcm|]. split; [exact Hinc|]. split; [exact L|]. split; [exact Lt|].
  destruct (sm_fair (permits_release s k mc)) eqn:Fair.
  - (* strictly fair: waiters are served from the front by the releaser *)
    destruct (unblock_front_clocks _ _ _ _ _ H) as (G & _ & uc & rc & E & D & F).
    split; [destruct (G _ _ Hmc) as (cm' & H1 & H2); exists cm'; auto|].
    split; [eapply clocks_grow_trans; eassumption|].
    split.
    + exists uc, rc. splits; auto.
      rewrite <- E, Eb. unfold bclocks. rewrite map_app. reflexivity.
    + intros Hf. congruence.
  - (* unfair: every waiter that fits is woken and will compete *)
    match type of H with match ?X with _ => _ end = _ => destruct X as [e2|] eqn:Hfold end; [|discriminate].
    inversion H; subst e' s'; clear H.
    assert (Sm : same_clocks e1 e2).
    { eapply fold_opt_same; [| |exact Hfold].
      - intros b; reflexivity.
      - intros e0 b e0' H0. cbv beta in H0.
        destruct (get_waiter (permits_release s k mc) b) as [w|]; [|discriminate].
        destruct (N.leb (wt_n w) (sm_avail (permits_release s k mc))); [|inversion H0; apply same_clocks_refl].
        destruct (task_finished e0 (wt_task w)) as [[|]|]; try discriminate; [inversion H0; apply same_clocks_refl|].
        destruct (e_unblock e0 (wt_task w)) as [e0a|] eqn:Hub; [|discriminate].
        eapply same_clocks_trans; [eapply e_unblock_same; exact Hub|eapply wake_opt_same; exact H0]. }
    split; [exists mc; split; [rewrite Sm; exact Hmc|apply vle_refl]|].
    split; [eapply clocks_grow_trans; [exact G1|apply same_clocks_grow; exact Sm]|].
    split.
    + exists [], (bclocks (init_batches s) ++ [mc]). splits; auto.
      left. rewrite Eb. unfold bclocks. rewrite map_app. reflexivity.
    + intros _. splits; auto; [rewrite Sm; exact Hmc|]. intros x Hx. rewrite Sm. apply Ho; exact Hx.
Qed.

(* when the execution is being torn down (should_stop) a release publishes the EMPTY clock and closes *)
Lemma sem_release_stopping : forall e s k e' s',
  sem_release e s k = Some (e', s') -> k <> 0 -> should_stop e = Some true -> e' = e /\ sm_closed s' = true.
Proof.
  intros e s k e' s' H Hk Hs. unfold sem_release in H.
  destruct (N.eqb_spec k 0) as [Hz|_]; [contradiction|]. rewrite Hs in H. inversion H; subst. split; reflexivity.
Qed.

(* ---- 5.7 try_acquire ---- *)
Theorem sem_try_acquire_ok_edge : forall e s k e' s',
  sem_try_acquire e s k = Some (e', s', AOk) ->
  exists e1, acquire_permits e s k = Some (e1, s', AOk) /\ same_clocks e1 e'.
Proof.
  intros e s k e' s' H. unfold sem_try_acquire in H.
  destruct (acquire_permits e s k) as [[[e1 s1] r]|] eqn:Ha; [|discriminate].
  destruct r.
  - destruct (reblock_if_unfair e1 s1) as [e2|] eqn:Hr; [|discriminate]. inversion H; subst.
    exists e1. split; [reflexivity|eapply reblock_if_unfair_same; exact Hr].
  - destruct (me e1); [|discriminate]. destruct (e_update_clock e1 n (sm_last_acquire s1)); [|discriminate]. inversion H.
  - destruct (me e1); [|discriminate]. destruct (e_update_clock e1 n (sm_last_acquire s1)); [|discriminate]. inversion H.
Qed.

(* a FAILED try_acquire is ordered after the acquisitions that took the permits: it joins last_acquire,
   and (permits_acquire_clocks, last clause) every acquisition joins the acquirer's clock - the one it had
   BEFORE its own update - into last_acquire *)
Theorem sem_try_acquire_fail_edge : forall e s k e' s' r,
  sem_try_acquire e s k = Some (e', s', r) -> r <> AOk ->
  s' = s /\ exists m cm', me e = Some m /\ e_clock e' m = Some cm' /\ vle (sm_last_acquire s) cm' = true /\ others_same e e' m.
Proof.
  intros e s k e' s' r H Hr. unfold sem_try_acquire in H.
  destruct (acquire_permits e s k) as [[[e1 s1] r1]|] eqn:Ha; [|discriminate].
  assert (X : r1 <> AOk -> s' = s /\ exists m cm', me e = Some m /\ e_clock e' m = Some cm'
                 /\ vle (sm_last_acquire s) cm' = true /\ others_same e e' m).
  { intros Hr1. destruct (acquire_permits_fail _ _ _ _ _ _ Ha Hr1) as (E1 & E2); subst e1 s1.
    destruct r1; [congruence| |];
      (destruct (me e) as [m|] eqn:Hm; [|discriminate];
       destruct (e_update_clock e m (sm_last_acquire s)) as [e2|] eqn:Hu; [|discriminate];
       inversion H; subst e' s'; split; [reflexivity|];
       destruct (update_clock_local _ _ _ _ Hu) as (c & c1 & _ & _ & Hc' & _ & _ & Lv & _ & Ho & _);
       exists m, (update c1 (sm_last_acquire s)); auto). }
  destruct r1; [|apply X; discriminate|apply X; discriminate].
  destruct (reblock_if_unfair e1 s1); [|discriminate]. inversion H; subst. congruence.
Qed.

(* ---- 5.8 Acquire::poll ---- *)
(* a poll that obtains the permits itself (has_permits was not yet set) goes through acquire_permits;
   what follows in the block (remove_waiter, reblock_if_unfair) only makes clocks grow *)
Lemma remove_waiter_grow : forall e s wid e' s', remove_waiter e s wid = Some (e', s') -> clocks_grow e e'.
Proof.
  intros e s wid e' s' H. unfold remove_waiter in H.
  destruct (sm_closed s); [discriminate|]. destruct (get_waiter s wid) as [w|]; [|discriminate].
  destruct (wt_has w); [discriminate|]. destruct (position_nat wid (sm_queue s)) as [idx|]; [|discriminate].
  destruct (negb (wt_queued w)); [discriminate|].
  destruct (sm_fair s && Nat.eqb idx 0).
  - exact (proj1 (unblock_front_clocks _ _ _ _ _ H)).
  - inversion H; subst. apply clocks_grow_refl.
Qed.

Theorem sem_poll_edge : forall e s wid wk e' s' w,
  sem_poll e s wid wk = Some (e', s', PReadyOk) -> get_waiter s wid = Some w -> wt_has w = false ->
  exists e1 s1, acquire_permits e s (wt_n w) = Some (e1, s1, AOk) /\ clocks_grow e1 e'.
Proof.
  intros e s wid wk e' s' w H Hw Hh. unfold sem_poll in H. rewrite Hw in H.
  destruct (me e) as [m|]; [|discriminate]. rewrite Hh in H.
  destruct (sm_closed s); [destruct (wt_queued w); discriminate|].
  destruct (negb (Bool.eqb (wt_queued w) (match wt_waker w with Some _ => true | None => false end))); [discriminate|].
  destruct (sm_fair s && wt_queued w); [discriminate|].
  destruct (acquire_permits e s (wt_n w)) as [[[e1 s1] r]|] eqn:Ha; [|discriminate].
  destruct r; try discriminate.
  - exists e1, s1. split; [reflexivity|].
    destruct (wt_queued w).
    + destruct (remove_waiter e1 s1 wid) as [[e2 s2]|] eqn:Hr; [|discriminate].
      destruct (reblock_if_unfair e2 _) as [e3|] eqn:Hb; [|discriminate]. inversion H; subst.
      eapply clocks_grow_trans; [eapply remove_waiter_grow; exact Hr|apply same_clocks_grow; eapply reblock_if_unfair_same; exact Hb].
    + destruct (reblock_if_unfair e1 _) as [e3|] eqn:Hb; [|discriminate]. inversion H; subst.
      apply same_clocks_grow; eapply reblock_if_unfair_same; exact Hb.
  - destruct (wt_queued w); [discriminate|]. destruct (enqueue_waiter _ wid); discriminate.
Qed.

(* a poll that finds has_permits already set changes no clock: the permits - and their clocks - were
   handed over by the releaser (unblock_front_clocks / sem_release_edge, `handed`) *)
Lemma sem_poll_handed_same : forall e s wid wk e' s' r w,
  sem_poll e s wid wk = Some (e', s', r) -> get_waiter s wid = Some w -> wt_has w = true -> e' = e /\ r = PReadyOk.
Proof.
  intros e s wid wk e' s' r w H Hw Hh. unfold sem_poll in H. rewrite Hw in H.
  destruct (me e); [|discriminate]. rewrite Hh in H. destruct (wt_queued w); [discriminate|]. inversion H; auto.
Qed.

(* ---- 5.9 corollaries at the level of the semaphore: front batch, all batches ---- *)
(* any successful acquisition consumes (at least part of) the FRONT batch *)
Corollary acquire_permits_front : forall e s k e' s' n c r,
  acquire_permits e s k = Some (e', s', AOk) -> init_batches s = (n, c) :: r ->
  exists m cm', me e = Some m /\ e_clock e' m = Some cm' /\ vle c cm' = true.
Proof.
  intros e s k e' s' n c r H Hb.
  destruct (acquire_permits_consumed _ _ _ _ _ H) as (m & cm' & used & rest & Hm & Hc & E & F & NE & _).
  exists m, cm'. splits; auto. rewrite Hb in E, NE.
  destruct used as [|b used']; [exfalso; apply NE; [discriminate|reflexivity]|].
  cbn [app] in E. inversion E; subst b. inversion F; subst. assumption.
Qed.

(* an acquisition of ALL the available permits (Mutex::lock, RwLock::write) consumes every batch *)
Corollary acquire_permits_all : forall e s k e' s',
  acquire_permits e s k = Some (e', s', AOk) -> batches_pos s -> batches_ok s -> sm_avail s = k ->
  exists m cm', me e = Some m /\ e_clock e' m = Some cm'
    /\ Forall (fun c => vle c cm' = true) (bclocks (init_batches s)) /\ init_batches s' = [].
Proof.
  intros e s k e' s' H P B A.
  destruct (acquire_permits_edge _ _ _ _ _ H) as (m & cm & cm' & clk & Hm & _ & Hcm' & Hpa & Hk & L & _).
  destruct (permits_acquire_all _ _ _ _ _ Hpa P B A) as (E & F); [lia|].
  exists m, cm'. splits; auto. unfold bclocks. apply Forall_map.
  eapply Forall_impl; [|exact F]. intros b Hb. cbv beta in Hb. eapply vle_trans; eassumption.
Qed.

(* the same through Acquire::poll (the blocking path) and through try_acquire *)
Corollary sem_poll_all : forall e s wid wk e' s' w m,
  sem_poll e s wid wk = Some (e', s', PReadyOk) -> get_waiter s wid = Some w -> wt_has w = false ->
  me e = Some m -> batches_pos s -> batches_ok s -> sm_avail s = wt_n w ->
  exists cm', e_clock e' m = Some cm' /\ Forall (fun c => vle c cm' = true) (bclocks (init_batches s)).
Proof.
  intros e s wid wk e' s' w m H Hw Hh Hm P B A.
  destruct (sem_poll_edge _ _ _ _ _ _ _ H Hw Hh) as (e1 & s1 & Ha & G).
  destruct (acquire_permits_all _ _ _ _ _ Ha P B A) as (m0 & cm1 & Hm0 & Hc1 & F & _).
  rewrite Hm in Hm0; inversion Hm0; subst m0. destruct (G _ _ Hc1) as (cm' & Hc' & L).
  exists cm'. split; [exact Hc'|]. eapply Forall_impl; [|exact F]. intros c Hc. cbv beta in Hc. eapply vle_trans; eassumption.
Qed.

Corollary sem_poll_front : forall e s wid wk e' s' w m n c r,
  sem_poll e s wid wk = Some (e', s', PReadyOk) -> get_waiter s wid = Some w -> wt_has w = false ->
  me e = Some m -> init_batches s = (n, c) :: r ->
  exists cm', e_clock e' m = Some cm' /\ vle c cm' = true.
Proof.
  intros e s wid wk e' s' w m n c r H Hw Hh Hm Hb.
  destruct (sem_poll_edge _ _ _ _ _ _ _ H Hw Hh) as (e1 & s1 & Ha & G).
  destruct (acquire_permits_front _ _ _ _ _ _ _ _ Ha Hb) as (m0 & cm1 & Hm0 & Hc1 & L1).
  rewrite Hm in Hm0; inversion Hm0; subst m0. destruct (G _ _ Hc1) as (cm' & Hc' & L).
  exists cm'. split; [exact Hc'|eapply vle_trans; eassumption].
Qed.

Corollary sem_try_all : forall e s k e' s' m,
  sem_try_acquire e s k = Some (e', s', AOk) -> me e = Some m -> batches_pos s -> batches_ok s -> sm_avail s = k ->
  exists cm', e_clock e' m = Some cm' /\ Forall (fun c => vle c cm' = true) (bclocks (init_batches s)).
Proof.
  intros e s k e' s' m H Hm P B A. destruct (sem_try_acquire_ok_edge _ _ _ _ _ H) as (e1 & Ha & Sm).
  destruct (acquire_permits_all _ _ _ _ _ Ha P B A) as (m0 & cm1 & Hm0 & Hc1 & F & _).
  rewrite Hm in Hm0; inversion Hm0; subst m0. exists cm1. split; [rewrite Sm; exact Hc1|exact F].
Qed.

Corollary sem_try_front : forall e s k e' s' m n c r,
  sem_try_acquire e s k = Some (e', s', AOk) -> me e = Some m -> init_batches s = (n, c) :: r ->
  exists cm', e_clock e' m = Some cm' /\ vle c cm' = true.
Proof.
  intros e s k e' s' m n c r H Hm Hb. destruct (sem_try_acquire_ok_edge _ _ _ _ _ H) as (e1 & Ha & Sm).
  destruct (acquire_permits_front _ _ _ _ _ _ _ _ Ha Hb) as (m0 & cm1 & Hm0 & Hc1 & L1).
  rewrite Hm in Hm0; inversion Hm0; subst m0. exists cm1. split; [rewrite Sm; exact Hc1|exact L1].
Qed.

(* ---- 5.10 Mutex and RwLock (blocks named in Proofs/LockProofs.v) ---- *)
Lemma get_set_obj_same : forall (st : store) i o o0, get_obj st i = Some o0 -> get_obj (set_obj st i o) i = Some o.
Proof. exact get_set_same_atomic. Qed.

(* (R) Drop for MutexGuard: the permit goes back to the deque as a batch of size 1 stamped with the
   unlocker's clock after its tick; nobody else's clock moves (Mutex semaphores are unfair) *)
Theorem mutex_unlock_release : forall oid e st e' st' h s p m cm,
  mutex_unlock_block oid e st = Some (e', st') ->
  get_obj st oid = Some (OMutex h s p) -> sm_fair s = false -> should_stop e = Some false ->
  me e = Some m -> e_clock e m = Some cm ->
  exists mc p', increment cm m = Some mc /\ vle cm mc = true /\ e_clock e' m = Some mc /\ others_same e e' m
    /\ get_obj st' oid = Some (OMutex None (permits_release s 1 mc) p')
    /\ init_batches (permits_release s 1 mc) = init_batches s ++ [(1, mc)].
Proof.
  intros oid e st e' st' h s p m cm H Hobj Hf Hs Hm Hcm.
  unfold mutex_unlock_block, on_sem in H. rewrite Hobj in H. cbn [sem_of] in H.
  destruct (sem_release e s 1) as [[e1 s1]|] eqn:Hr; [|discriminate]. inversion H; subst e' st'; clear H.
  destruct (sem_release_edge _ _ _ _ _ Hr ltac:(discriminate) Hs) as (m0 & cm0 & mc & Hm0 & Hcm0 & Hi & L & _ & _ & _ & _ & Hu).
  rewrite Hm in Hm0; inversion Hm0; subst m0. rewrite Hcm in Hcm0; inversion Hcm0; subst cm0.
  destruct (Hu Hf) as (Es & Hc & Ho). subst s1. exists mc, (p || panicking e). splits; auto.
  eapply get_set_obj_same; exact Hobj.
Qed.

(* (R) Drop for RwLockReadGuard / RwLockWriteGuard: 1 resp. MAX_READS permits, same stamping *)
Theorem rw_unlock_release : forall oid write e st e' st' w rs s p m cm,
  rw_unlock_block oid write e st = Some (e', st') ->
  get_obj st oid = Some (ORwLock w rs s p) -> sm_fair s = false -> should_stop e = Some false ->
  me e = Some m -> e_clock e m = Some cm ->
  exists mc w' rs' p', increment cm m = Some mc /\ vle cm mc = true /\ e_clock e' m = Some mc /\ others_same e e' m
    /\ get_obj st' oid = Some (ORwLock w' rs' (permits_release s (rw_permits write) mc) p')
    /\ init_batches (permits_release s (rw_permits write) mc) = init_batches s ++ [(rw_permits write, mc)].
Proof.
  intros oid write e st e' st' w rs s p m cm H Hobj Hf Hs Hm Hcm.
  unfold rw_unlock_block, on_sem in H. rewrite Hm, Hobj in H. cbn [sem_of] in H.
  destruct (sem_release e s (rw_permits write)) as [[e1 s1]|] eqn:Hr; [|discriminate].
  assert (Hk : rw_permits write <> 0) by (destruct write; discriminate).
  destruct (sem_release_edge _ _ _ _ _ Hr Hk Hs) as (m0 & cm0 & mc & Hm0 & Hcm0 & Hi & L & _ & _ & _ & _ & Hu).
  rewrite Hm in Hm0; inversion Hm0; subst m0. rewrite Hcm in Hcm0; inversion Hcm0; subst cm0.
  destruct (Hu Hf) as (Es & Hc & Ho). subst s1.
  destruct write.
  - destruct w as [w'|]; [|discriminate]. destruct (Nat.eqb w' m); [|discriminate]. inversion H; subst e' st'; clear H.
    exists mc, None, rs, (p || panicking e). splits; auto. eapply get_set_obj_same; exact Hobj.
  - destruct (existsb (Nat.eqb m) rs); [|discriminate]. inversion H; subst e' st'; clear H.
    exists mc, w, (filter (fun x => negb (Nat.eqb x m)) rs), p. splits; auto. eapply get_set_obj_same; exact Hobj.
Qed.

(* (A) the block of the blocking path that obtains the permits (Acquire::poll answering Ready(Ok)),
   for any object carrying a semaphore: all batches when all available permits are taken
   (Mutex::lock: 1 of 1; RwLock::write: MAX_READS of MAX_READS), the front batch in any case (RwLock::read) *)
Theorem poll_step_all : forall oid wid e st e' st' o s m w,
  poll_step oid wid e st = Some (e', st', PReadyOk) ->
  get_obj st oid = Some o -> sem_of o = Some s -> me e = Some m ->
  get_waiter s wid = Some w -> wt_has w = false ->
  sm_avail s = wt_n w -> batches_ok s -> batches_pos s ->
  exists cm', e_clock e' m = Some cm' /\ Forall (fun c => vle c cm' = true) (bclocks (init_batches s)).
Proof.
  intros oid wid e st e' st' o s m w H Hobj Hso Hm Hw Hh A B P.
  unfold poll_step, on_sem in H. rewrite Hm, Hobj, Hso in H.
  destruct (sem_poll e s wid m) as [[[e1 s1] r]|] eqn:Hp; [|discriminate]. inversion H; subst e1 st' r; clear H.
  eapply sem_poll_all; eassumption.
Qed.

Theorem poll_step_front : forall oid wid e st e' st' o s m w n c r,
  poll_step oid wid e st = Some (e', st', PReadyOk) ->
  get_obj st oid = Some o -> sem_of o = Some s -> me e = Some m ->
  get_waiter s wid = Some w -> wt_has w = false -> init_batches s = (n, c) :: r ->
  exists cm', e_clock e' m = Some cm' /\ vle c cm' = true.
Proof.
  intros oid wid e st e' st' o s m w n c r H Hobj Hso Hm Hw Hh Hb.
  unfold poll_step, on_sem in H. rewrite Hm, Hobj, Hso in H.
  destruct (sem_poll e s wid m) as [[[e1 s1] r0]|] eqn:Hp; [|discriminate]. inversion H; subst e1 st' r0; clear H.
  eapply sem_poll_front; eassumption.
Qed.

(* (A) try_lock / try_read / try_write *)
Theorem try_step_all : forall oid k e st e' st' o s m,
  try_step oid k e st = Some (e', st', AOk) ->
  get_obj st oid = Some o -> sem_of o = Some s -> me e = Some m ->
  sm_avail s = k -> batches_ok s -> batches_pos s ->
  exists cm', e_clock e' m = Some cm' /\ Forall (fun c => vle c cm' = true) (bclocks (init_batches s)).
Proof.
  intros oid k e st e' st' o s m H Hobj Hso Hm A B P.
  unfold try_step, on_sem in H. rewrite Hobj, Hso in H.
  destruct (sem_try_acquire e s k) as [[[e1 s1] r]|] eqn:Hp; [|discriminate]. inversion H; subst e1 st' r; clear H.
  eapply sem_try_all; eassumption.
Qed.

Theorem try_step_front : forall oid k e st e' st' o s m n c r,
  try_step oid k e st = Some (e', st', AOk) ->
  get_obj st oid = Some o -> sem_of o = Some s -> me e = Some m -> init_batches s = (n, c) :: r ->
  exists cm', e_clock e' m = Some cm' /\ vle c cm' = true.
Proof.
  intros oid k e st e' st' o s m n c r H Hobj Hso Hm Hb.
  unfold try_step, on_sem in H. rewrite Hobj, Hso in H.
  destruct (sem_try_acquire e s k) as [[[e1 s1] r0]|] eqn:Hp; [|discriminate]. inversion H; subst e1 st' r0; clear H.
  eapply sem_try_front; eassumption.
Qed.

(* THE EDGE unlock -> lock: a unlocks in (e1,st1); b's lock obtains the permit in (e2,st2), where the
   batch released by a is still in the deque (immediately after the unlock it is: mutex_unlock_release,
   last clause; other unlock/lock pairs in between preserve or consume it - consuming it is an edge too) *)
Theorem mutex_edge : forall oid e1 st1 e1' st1' h1 s1 p1 ma ca wid e2 st2 e2' st2' h2 s2 p2 mb w,
  mutex_unlock_block oid e1 st1 = Some (e1', st1') ->
  get_obj st1 oid = Some (OMutex h1 s1 p1) -> sm_fair s1 = false -> should_stop e1 = Some false ->
  me e1 = Some ma -> e_clock e1 ma = Some ca ->
  poll_step oid wid e2 st2 = Some (e2', st2', PReadyOk) ->
  get_obj st2 oid = Some (OMutex h2 s2 p2) -> me e2 = Some mb ->
  get_waiter s2 wid = Some w -> wt_has w = false -> wt_n w = 1 ->
  sm_avail s2 = 1 -> batches_ok s2 -> batches_pos s2 ->
  (forall mc, e_clock e1' ma = Some mc -> In mc (bclocks (init_batches s2))) ->
  exists ca' cb', e_clock e1' ma = Some ca' /\ e_clock e2' mb = Some cb'
    /\ vle ca ca' = true /\ vle ca' cb' = true.
Proof.
  intros oid e1 st1 e1' st1' h1 s1 p1 ma ca wid e2 st2 e2' st2' h2 s2 p2 mb w
         Hu Ho1 Hf Hs Hma Hca Hp Ho2 Hmb Hw Hh Hn A B P Hin.
  destruct (mutex_unlock_release _ _ _ _ _ _ _ _ _ _ Hu Ho1 Hf Hs Hma Hca) as (mc & p' & _ & L & Hc & _).
  destruct (poll_step_all _ _ _ _ _ _ _ _ _ _ Hp Ho2 eq_refl Hmb Hw Hh ltac:(congruence) B P) as (cb' & Hcb & F).
  exists mc, cb'. splits; auto. exact (proj1 (Forall_forall _ _) F mc (Hin mc Hc)).
Qed.

Lemma released_batch_present : forall s k mc, In mc (bclocks (init_batches (permits_release s k mc))).
Proof.
  intros s k mc. rewrite (proj1 (permits_release_batches s k mc)). unfold bclocks. rewrite map_app.
  apply in_or_app; right; left; reflexivity.
Qed.

(* ========================================================================= *)
(*  6. mpsc channels: send -> recv, and recv -> the send it frees             *)
(* ========================================================================= *)
Lemma is_rendezvous_set_msgs : forall c x, is_rendezvous (set_msgs c x) = is_rendezvous c.
Proof. reflexivity. Qed.

(* (R) the delivery block of send: the sender ticks, and the message is stamped with the sender's
   clock RIGHT AFTER THAT TICK (mc).  What happens to the sender afterwards:
   - unbounded channel: nothing, its clock after the send is mc;
   - bounded, non-rendezvous: it takes the oldest receiver clock off `receiver_clock` with update_clock,
     i.e. ticks AGAIN and joins: its clock after the send is STRICTLY above the stamp mc (the "extra tick");
   - rendezvous with a receiver waiting: it inherits that receiver's clock (update_clock, again a tick). *)
Theorem chan_send_deliver_edge : forall e c v e' c',
  chan_send_deliver e c v = Some (e', c') ->
  exists m cm mc cm',
    me e = Some m /\ e_clock e m = Some cm /\ increment cm m = Some mc /\ vle cm mc = true
    /\ ch_msgs c' = ch_msgs c ++ [(v, mc)]
    /\ e_clock e' m = Some cm' /\ vle mc cm' = true
    /\ clocks_grow e e'
    /\ (is_rendezvous c = false -> forall rc rest, ch_rclock c = Some (rc :: rest) ->
          ch_rclock c' = Some rest /\ vle rc cm' = true /\ vlt mc cm' = true)
    /\ (is_rendezvous c = false -> ch_rclock c = None -> ch_rclock c' = None /\ cm' = mc)
    /\ (is_rendezvous c = true -> ch_rclock c' = ch_rclock c /\
          forall tid r, ch_wrecv c = tid :: r -> exists rcl, e_clock e tid = Some rcl /\ vle rcl cm' = true).
Proof.
  intros e c v e' c' H. unfold chan_send_deliver in H.
  destruct (me e) as [m|] eqn:Hm; [|discriminate].
  destruct (e_increment_clock e m) as [e1|] eqn:Hi; [|discriminate].
  destruct (e_clock e1 m) as [mc|] eqn:Hmc; [|discriminate].
  destruct (increment_clock_local _ _ _ Hi) as (cm & mc' & Hcm & Hmc' & Hinc & L & _ & _ & Ho & _).
  rewrite Hmc in Hmc'; inversion Hmc'; subst mc'; clear Hmc'.
  pose proof (e_increment_clock_grow _ _ _ Hi) as G1.
  cbv zeta in H. rewrite !is_rendezvous_set_msgs in H. cbn [set_msgs ch_wrecv ch_wsend ch_bound ch_rclock ch_msgs] in H.
  match type of H with match ?X with _ => _ end = _ => destruct X as [e2|] eqn:H2 end; [|discriminate].
  match type of H with match ?X with _ => _ end = _ => destruct X as [e3|] eqn:H3 end; [|discriminate].
  assert (R2 : clocks_grow e1 e2 /\ (is_rendezvous c = false -> same_clocks e1 e2)
               /\ (is_rendezvous c = true -> forall tid r, ch_wrecv c = tid :: r ->
                     exists rcl c2, e_clock e1 tid = Some rcl /\ e_clock e2 m = Some c2 /\ vle rcl c2 = true)).
  { destruct (ch_wrecv c) as [|tid r] eqn:Hwr.
    - inversion H2; subst e2. split; [apply clocks_grow_refl|]. split; [intros _; apply same_clocks_refl|].
      intros _ tid r X; discriminate.
    - destruct (e_unblock e1 tid) as [ea|] eqn:Hub; [|discriminate].
      pose proof (e_unblock_same _ _ _ Hub) as Sa.
      destruct (is_rendezvous c) eqn:Hr.
      + destruct (e_clock ea tid) as [rc|] eqn:Hrc; [|discriminate].
        destruct (update_clock_local _ _ _ _ H2) as (c0 & c01 & _ & _ & Hc2 & _ & _ & Lr & _).
        split; [eapply clocks_grow_trans; [apply same_clocks_grow; exact Sa|eapply e_update_clock_grow; exact H2]|].
        split; [discriminate|]. intros _ tid' r' X; inversion X; subst tid' r'.
        exists rc, (update c01 rc). splits; auto. rewrite <- Sa; exact Hrc.
      + inversion H2; subst ea. split; [apply same_clocks_grow; exact Sa|]. split; [intros _; exact Sa|discriminate]. }
  destruct R2 as (G2 & S2 & Rdv).
  assert (R3 : same_clocks e2 e3).
  { destruct (ch_wsend c) as [|tid r]; [inversion H3; apply same_clocks_refl|].
    destruct (ch_bound c) as [b|]; [|discriminate].
    match type of H3 with (if ?X then _ else _) = _ => destruct X end;
      [eapply e_unblock_same; exact H3|inversion H3; apply same_clocks_refl]. }
  assert (G13 : clocks_grow e1 e3) by (eapply clocks_grow_trans; [exact G2|apply same_clocks_grow; exact R3]).
  destruct (is_rendezvous c) eqn:Hr; cbn [negb] in H.
  - (* rendezvous *)
    inversion H; subst e' c'; clear H.
    destruct (G13 _ _ Hmc) as (cm' & Hc' & L').
    exists m, cm, mc, cm'. splits; auto; try discriminate.
    + eapply clocks_grow_trans; eassumption.
    + intros _. split; [reflexivity|]. intros tid r Hw. destruct (Rdv eq_refl tid r Hw) as (rcl & c2 & Hr1 & Hc2 & Lr).
      rewrite <- R3 in Hc2. rewrite Hc' in Hc2; inversion Hc2; subst c2.
      destruct (Nat.eq_dec tid m) as [->|Hne].
      * exists cm. split; [exact Hcm|]. eapply vle_trans; [exact L|exact L'].
      * exists rcl. split; [rewrite <- (Ho tid Hne); exact Hr1|exact Lr].
  - pose proof (S2 eq_refl) as S12.
    assert (Hmc3 : e_clock e3 m = Some mc) by (rewrite R3, S12; exact Hmc).
    destruct (ch_rclock c) as [[|rc rest]|] eqn:Hrc; try discriminate.
    + (* bounded: take the oldest receiver clock *)
      destruct (e_update_clock e3 m rc) as [e4|] eqn:H4; [|discriminate]. inversion H; subst e' c'; clear H.
      destruct (update_clock_local _ _ _ _ H4) as (c0 & c01 & Hc0 & _ & Hc4 & L4 & Lt4 & Lr4 & _).
      rewrite Hmc3 in Hc0; inversion Hc0; subst c0.
      exists m, cm, mc, (update c01 rc). splits; auto; try discriminate.
      * eapply clocks_grow_trans; [exact G1|]. eapply clocks_grow_trans; [exact G13|eapply e_update_clock_grow; exact H4].
      * intros _ rc' rest' X; inversion X; subst rc' rest'. splits; auto.
    + (* unbounded *)
      inversion H; subst e' c'; clear H.
      exists m, cm, mc, mc. splits; auto; try discriminate.
      * apply vle_refl.
      * eapply clocks_grow_trans; eassumption.
Qed.

(* (A) the taking block of recv: the receiver joins the clock of the message at the head of the queue
   (no tick here: the receiver's tick is in the first block of recv); on a bounded channel with
   capacity > 0 it then appends its clock - AFTER the join - to `receiver_clock` *)
Theorem chan_recv_take_edge : forall e c e' c' v,
  chan_recv_take e c = Some (e', c', v) ->
  exists m vc rest cm cm',
    me e = Some m /\ ch_msgs c = (v, vc) :: rest /\ ch_msgs c' = rest
    /\ e_clock e m = Some cm /\ e_clock e' m = Some cm' /\ cm' = update cm vc
    /\ vle vc cm' = true /\ vle cm cm' = true /\ others_same e e' m
    /\ (forall rc b, ch_rclock c = Some rc -> ch_bound c = Some b -> (0 < b)%nat -> ch_rclock c' = Some (rc ++ [cm']))
    /\ (ch_rclock c = None \/ ch_bound c = Some O -> ch_rclock c' = ch_rclock c).
Proof.
  intros e c e' c' v H. unfold chan_recv_take in H.
  destruct (me e) as [m|] eqn:Hm; [|discriminate].
  destruct (ch_msgs c) as [|[v0 vc] rest] eqn:Hmsgs; [discriminate|].
  cbv zeta in H. cbn [set_msgs ch_wrecv ch_wsend ch_bound ch_rclock ch_msgs] in H.
  match type of H with match ?X with _ => _ end = _ => destruct X as [e1|] eqn:H1 end; [|discriminate].
  match type of H with match ?X with _ => _ end = _ => destruct X as [e2|] eqn:H2 end; [|discriminate].
  assert (S1 : same_clocks e e1).
  { destruct (ch_wsend c) as [|tid r]; [inversion H1; apply same_clocks_refl|].
    destruct (ch_bound c) as [b|]; [|discriminate].
    match type of H1 with (if ?X then _ else _) = _ => destruct X end;
      [eapply e_unblock_same; exact H1|inversion H1; apply same_clocks_refl]. }
  assert (S2 : same_clocks e1 e2).
  { destruct (ch_wrecv c) as [|tid r]; [inversion H2; apply same_clocks_refl|].
    match type of H2 with (if ?X then _ else _) = _ => destruct X end;
      [eapply e_unblock_same; exact H2|inversion H2; apply same_clocks_refl]. }
  destruct (e_join_clock e2 m vc) as [e3|] eqn:Hj; [|discriminate].
  destruct (join_clock_local _ _ _ _ Hj) as (cm & Hcm & Hc3 & Lc & Lv & Ho & _).
  assert (Hcm0 : e_clock e m = Some cm) by (rewrite <- S1, <- S2; exact Hcm).
  assert (Ho' : others_same e e3 m) by (intros x Hx; rewrite (Ho x Hx), S2, S1; reflexivity).
  rewrite Hc3 in H.
  destruct (ch_rclock c) as [rc|] eqn:Hrc.
  - destruct (ch_bound c) as [b|] eqn:Hb; [|discriminate].
    destruct (Nat.ltb 0 b) eqn:Hlt.
    + destruct (Nat.ltb (length rc) b); [|discriminate]. inversion H; subst e' c' v0; clear H.
      exists m, vc, rest, cm, (update cm vc). splits; auto.
      * intros rc' b' X Y _; inversion X; subst; reflexivity.
      * intros [X|X]; [discriminate|]. inversion X; subst b. discriminate Hlt.
    + inversion H; subst e' c' v0; clear H.
      exists m, vc, rest, cm, (update cm vc). splits; auto.
      intros rc' b' X Y Z. inversion Y; subst b'. apply Nat.ltb_ge in Hlt. lia.
  - assert (E : (e3, set_msgs c rest, v0) = (e', c', v)) by (destruct (ch_bound c); inversion H; reflexivity).
    inversion E; subst e' c' v0; clear E H.
    exists m, vc, rest, cm, (update cm vc). splits; auto.
    intros rc' b' X; discriminate.
Qed.

(* THE EDGE send -> recv: the receive that takes the message stamped by a's send *)
Theorem chan_send_recv_edge : forall e1 c1 v e1' c1' ma ca e2 c2 e2' c2' v2 mb,
  chan_send_deliver e1 c1 v = Some (e1', c1') -> me e1 = Some ma -> e_clock e1 ma = Some ca ->
  chan_recv_take e2 c2 = Some (e2', c2', v2) -> me e2 = Some mb ->
  (forall mc, increment ca ma = Some mc -> exists rest, ch_msgs c2 = (v2, mc) :: rest) ->   (* a's message is at the head *)
  exists mc cb', increment ca ma = Some mc /\ e_clock e2' mb = Some cb' /\ vle ca mc = true /\ vle mc cb' = true.
Proof.
  intros e1 c1 v e1' c1' ma ca e2 c2 e2' c2' v2 mb Hs Hma Hca Hr Hmb Hhead.
  destruct (chan_send_deliver_edge _ _ _ _ _ Hs) as (m & cm & mc & cm' & Hm & Hcm & Hi & L & _).
  rewrite Hma in Hm; inversion Hm; subst m. rewrite Hca in Hcm; inversion Hcm; subst cm.
  destruct (chan_recv_take_edge _ _ _ _ _ Hr) as (m2 & vc & rest & cb & cb' & Hm2 & Hmsgs & _ & _ & Hcb' & _ & Lv & _).
  rewrite Hmb in Hm2; inversion Hm2; subst m2.
  destruct (Hhead mc Hi) as (rest' & Hh). rewrite Hh in Hmsgs. inversion Hmsgs; subst vc rest'.
  exists mc, cb'. splits; auto.
Qed.

(* THE EDGE recv -> the send it frees (bounded channel, capacity > 0): the receiver's clock after the
   take is queued in receiver_clock; the send that finds it at the head joins it *)
Theorem chan_recv_send_edge : forall e1 c1 e1' c1' v1 ma rc1 b e2 c2 v e2' c2' mb,
  chan_recv_take e1 c1 = Some (e1', c1', v1) -> me e1 = Some ma ->
  ch_rclock c1 = Some rc1 -> ch_bound c1 = Some b -> (0 < b)%nat ->
  chan_send_deliver e2 c2 v = Some (e2', c2') -> me e2 = Some mb -> is_rendezvous c2 = false ->
  (forall ca', e_clock e1' ma = Some ca' -> exists rest, ch_rclock c2 = Some (ca' :: rest)) ->   (* a's clock is the oldest *)
  exists ca' cb', e_clock e1' ma = Some ca' /\ ch_rclock c1' = Some (rc1 ++ [ca'])
    /\ e_clock e2' mb = Some cb' /\ vle ca' cb' = true.
Proof.
  intros e1 c1 e1' c1' v1 ma rc1 b e2 c2 v e2' c2' mb Hr Hma Hrc Hb Hpos Hs Hmb Hnr Hhead.
  destruct (chan_recv_take_edge _ _ _ _ _ Hr) as (m & vc & rest & ca & ca' & Hm & _ & _ & _ & Hca' & _ & _ & _ & _ & Happ & _).
  rewrite Hma in Hm; inversion Hm; subst m.
  destruct (chan_send_deliver_edge _ _ _ _ _ Hs) as (m2 & cm & mc & cb' & Hm2 & _ & _ & _ & _ & Hcb' & _ & _ & Hbounded & _).
  rewrite Hmb in Hm2; inversion Hm2; subst m2.
  destruct (Hhead ca' Hca') as (rest' & Hh). destruct (Hbounded Hnr ca' rest' Hh) as (_ & Lr & _).
  exists ca', cb'. splits; auto. eapply Happ; eassumption.
Qed.

(* ========================================================================= *)
(*  7. Once, Barrier, Condvar                                                 *)
(* ========================================================================= *)

(* ---- 7.1 Once ---- *)
(* (R) the completion block: the initialising task ticks and stores its clock in Complete(clock) *)
Theorem once_complete_release : forall e st o e' st',
  once_complete e st o = Some (e', st') ->
  exists m cm c mx, me e = Some m /\ e_clock e m = Some cm /\ increment cm m = Some c /\ vle cm c = true
    /\ e_clock e' m = Some c /\ others_same e e' m
    /\ get_obj st' o = Some (OOnce (OnComplete c) true mx).
Proof.
  intros e st o e' st' H. unfold once_complete in H.
  destruct (me e) as [m|] eqn:Hm; [|discriminate].
  destruct (get_obj st o) as [[| | | | | | |s0 fl mx| | | | | ]|] eqn:Hobj; try discriminate.
  destruct (e_increment_clock e m) as [e1|] eqn:Hi; [|discriminate].
  destruct (e_clock e1 m) as [c|] eqn:Hc; [|discriminate]. inversion H; subst e' st'; clear H.
  destruct (increment_clock_local _ _ _ Hi) as (cm & c' & Hcm & Hc' & Hinc & L & _ & _ & Ho & _).
  rewrite Hc in Hc'; inversion Hc'; subst c'.
  exists m, cm, c, mx. splits; auto. eapply get_set_obj_same; exact Hobj.
Qed.

(* (A) a later call_once that finds Complete(c), and is_completed() answering true, join c *)
Theorem once_enter_acquire : forall e st o e' st' need fl mx c m,
  once_enter e st o = Some (e', st', need) -> me e = Some m -> get_obj st o = Some (OOnce (OnComplete c) fl mx) ->
  need = false /\ st' = st /\ exists cm', e_clock e' m = Some cm' /\ vle c cm' = true /\ others_same e e' m.
Proof.
  intros e st o e' st' need fl mx c m H Hm Hobj. unfold once_enter in H. rewrite Hm, Hobj in H.
  destruct (e_update_clock e m c) as [e1|] eqn:Hu; [|discriminate]. inversion H; subst.
  destruct (update_clock_local _ _ _ _ Hu) as (c0 & c1 & _ & _ & Hc' & _ & _ & Lv & _ & Ho & _).
  splits; auto. exists (update c1 c); auto.
Qed.

Theorem once_is_completed_acquire : forall e st o e' st' r fl mx c m,
  once_is_completed e st o = Some (e', st', r) -> me e = Some m -> get_obj st o = Some (OOnce (OnComplete c) fl mx) ->
  r = true /\ st' = st /\ exists cm', e_clock e' m = Some cm' /\ vle c cm' = true /\ others_same e e' m.
Proof.
  intros e st o e' st' r fl mx c m H Hm Hobj. unfold once_is_completed in H. rewrite Hm, Hobj in H.
  destruct (e_update_clock e m c) as [e1|] eqn:Hu; [|discriminate]. inversion H; subst.
  destruct (update_clock_local _ _ _ _ Hu) as (c0 & c1 & _ & _ & Hc' & _ & _ & Lv & _ & Ho & _).
  splits; auto. exists (update c1 c); auto.
Qed.

(* is_completed() answering false, and a call_once that must run or wait for the initialiser, move no clock *)
Lemma once_not_complete_same : forall e st o e' st' r s fl mx,
  once_is_completed e st o = Some (e', st', r) -> get_obj st o = Some (OOnce s fl mx) ->
  (forall c, s <> OnComplete c) -> e' = e /\ r = false.
Proof.
  intros e st o e' st' r s fl mx H Hobj Hs. unfold once_is_completed in H. rewrite Hobj in H.
  destruct (me e); [|discriminate]. destruct s as [| |c]; [inversion H; auto|inversion H; auto|].
  exfalso; eapply Hs; reflexivity.
Qed.

Theorem once_edge : forall e1 st1 o e1' st1' ma ca e2 st2 e2' st2' need mb,
  once_complete e1 st1 o = Some (e1', st1') -> me e1 = Some ma -> e_clock e1 ma = Some ca ->
  once_enter e2 st2 o = Some (e2', st2', need) -> me e2 = Some mb -> get_obj st2 o = get_obj st1' o ->
  exists ca' cb', e_clock e1' ma = Some ca' /\ e_clock e2' mb = Some cb' /\ vle ca ca' = true /\ vle ca' cb' = true.
Proof.
  intros e1 st1 o e1' st1' ma ca e2 st2 e2' st2' need mb H1 Hma Hca H2 Hmb Hsame.
  destruct (once_complete_release _ _ _ _ _ H1) as (m & cm & c & mx & Hm & Hcm & _ & L & Hc & _ & Hobj).
  rewrite Hma in Hm; inversion Hm; subst m. rewrite Hca in Hcm; inversion Hcm; subst cm.
  rewrite Hobj in Hsame.
  destruct (once_enter_acquire _ _ _ _ _ _ _ _ _ _ H2 Hmb Hsame) as (_ & _ & cb' & Hcb & Lb & _).
  exists c, cb'. splits; auto.
Qed.

(* ---- 7.2 Barrier ---- *)
(* the loop of the last arrival over the waiters: each ticks and joins the barrier's clock *)
Lemma barrier_release_fold : forall clk1 l e e',
  fold_left (fun acc tid =>
               match acc with
               | None => None
               | Some e =>
                 match e_increment_clock e tid with
                 | Some e' => match e_join_clock e' tid clk1 with
                              | Some e'' => e_unblock e'' tid | None => None end
                 | None => None end
               end) l (Some e) = Some e' ->
  clocks_grow e e' /\ forall tid, In tid l -> exists ct, e_clock e' tid = Some ct /\ vle clk1 ct = true.
Proof.
  intros clk1 l. induction l as [|tid r IH]; intros e e' H; cbn [fold_left] in H.
  - inversion H; subst. split; [apply clocks_grow_refl|]. intros tid [].
  - destruct (e_increment_clock e tid) as [ea|] eqn:Hi; [|rewrite fold_left_none in H by reflexivity; discriminate].
    destruct (e_join_clock ea tid clk1) as [eb|] eqn:Hj; [|rewrite fold_left_none in H by reflexivity; discriminate].
    destruct (e_unblock eb tid) as [ec|] eqn:Hu; [|rewrite fold_left_none in H by reflexivity; discriminate].
    destruct (IH _ _ H) as (G & Hall).
    destruct (join_clock_local _ _ _ _ Hj) as (c0 & _ & Hcb & _ & Lv & _).
    assert (Gb : clocks_grow eb e').
    { eapply clocks_grow_trans; [apply same_clocks_grow; eapply e_unblock_same; exact Hu|exact G]. }
    split.
    + eapply clocks_grow_trans; [eapply e_increment_clock_grow; exact Hi|].
      eapply clocks_grow_trans; [eapply e_join_clock_grow; exact Hj|exact Gb].
    + intros x [<-|Hx]; [|apply Hall; exact Hx].
      destruct (Gb _ _ Hcb) as (ct & Hct & Lt). exists ct. split; [exact Hct|eapply vle_trans; eassumption].
Qed.

(* Barrier::wait, the arrival block.  (R) the arriving task ticks and its clock is joined into the
   barrier's clock, which only grows.  (A) the last arrival of a generation makes EVERY task of the
   generation (itself included) tick and join the barrier's clock, which by then contains the clocks of
   all the arrivals. *)
Theorem barrier_arrive_edge : forall e st b e' st' ep blocked,
  barrier_arrive e st b = Some (e', st', ep, blocked) ->
  exists m cm mc bound epoch ws toks clk epoch' ws' toks',
    me e = Some m /\ e_clock e m = Some cm /\ increment cm m = Some mc /\ vle cm mc = true
    /\ get_obj st b = Some (OBarrier bound epoch ws toks clk)
    /\ get_obj st' b = Some (OBarrier bound epoch' ws' toks' (update clk mc))
    /\ vle mc (update clk mc) = true /\ vle clk (update clk mc) = true
    /\ clocks_grow e e'
    /\ (blocked = true -> ws' = ws ++ [m] /\ e_clock e' m = Some mc /\ others_same e e' m)
    /\ (blocked = false -> ws' = [] /\
          forall tid, In tid (ws ++ [m]) -> exists ct, e_clock e' tid = Some ct /\ vle (update clk mc) ct = true).
Proof.
  intros e st b e' st' ep blocked H. unfold barrier_arrive in H.
  destruct (me e) as [m|] eqn:Hm; [|discriminate].
  destruct (get_obj st b) as [[| | | | | |bound epoch ws toks clk| | | | | | ]|] eqn:Hobj; try discriminate.
  destruct (e_increment_clock e m) as [e1|] eqn:Hi; [|discriminate].
  destruct (e_clock e1 m) as [mc|] eqn:Hmc; [|discriminate].
  destruct (increment_clock_local _ _ _ Hi) as (cm & mc' & Hcm & Hmc' & Hinc & L & _ & _ & Ho & _).
  rewrite Hmc in Hmc'; inversion Hmc'; subst mc'; clear Hmc'.
  pose proof (e_increment_clock_grow _ _ _ Hi) as G1.
  cbv zeta in H. destruct (existsb (Nat.eqb m) ws); [discriminate|].
  destruct (Nat.ltb (length (ws ++ [m])) bound).
  - destruct (e_block e1 m false) as [e2|] eqn:Hb; [|discriminate]. inversion H; subst e' st' ep blocked; clear H.
    pose proof (e_block_same _ _ _ _ Hb) as S2.
    exists m, cm, mc, bound, epoch, ws, toks, clk, epoch, (ws ++ [m]), toks. splits; auto; try discriminate.
    + eapply get_set_obj_same; exact Hobj.
    + apply update_ub_r.
    + apply update_ub_l.
    + eapply clocks_grow_trans; [exact G1|apply same_clocks_grow; exact S2].
    + intros _. splits; auto; [rewrite S2; exact Hmc|]. intros x Hx. rewrite S2. apply Ho; exact Hx.
  - destruct (existsb (Nat.eqb epoch) toks); [discriminate|].
    match type of H with match ?X with _ => _ end = _ => destruct X as [e2|] eqn:Hf end; [|discriminate].
    inversion H; subst e' st' ep blocked; clear H.
    destruct (barrier_release_fold _ _ _ _ Hf) as (G2 & Hall).
    exists m, cm, mc, bound, epoch, ws, toks, clk, (S epoch), [], (toks ++ [epoch]). splits; auto; try discriminate.
    + eapply get_set_obj_same; exact Hobj.
    + apply update_ub_r.
    + apply update_ub_l.
    + eapply clocks_grow_trans; eassumption.
Qed.

(* leaving the barrier moves no clock *)
Lemma barrier_leave_same : forall e st b ep e' st' r, barrier_leave e st b ep = Some (e', st', r) -> e' = e.
Proof.
  intros e st b ep e' st' r H. unfold barrier_leave in H.
  destruct (get_obj st b) as [[| | | | | |bound epoch ws toks clk| | | | | | ]|]; try discriminate. inversion H; reflexivity.
Qed.

(* THE EDGE arrival of a -> departure of any task of the generation: a's stamp is below the barrier's
   clock at a's arrival, the barrier's clock only grows (barrier_arrive_edge), so it is below the
   barrier's clock at the last arrival, which every released task joins *)
Theorem barrier_edge : forall e1 st1 b e1' st1' ep1 bl1 ma ca bound1 ep ws1 toks1 clk1
                              e2 st2 e2' st2' ep2 bound2 epo2 ws2 toks2 clk2 m2 tid,
  barrier_arrive e1 st1 b = Some (e1', st1', ep1, bl1) -> me e1 = Some ma -> e_clock e1 ma = Some ca ->
  get_obj st1' b = Some (OBarrier bound1 ep ws1 toks1 clk1) ->
  barrier_arrive e2 st2 b = Some (e2', st2', ep2, false) -> me e2 = Some m2 ->
  get_obj st2 b = Some (OBarrier bound2 epo2 ws2 toks2 clk2) -> vle clk1 clk2 = true ->
  In tid (ws2 ++ [m2]) ->
  exists mc ct, increment ca ma = Some mc /\ vle ca mc = true /\ e_clock e2' tid = Some ct /\ vle mc ct = true.
Proof.
  intros e1 st1 b e1' st1' ep1 bl1 ma ca bound1 ep ws1 toks1 clk1 e2 st2 e2' st2' ep2 bound2 epo2 ws2 toks2 clk2 m2 tid
         H1 Hma Hca Ho1 H2 Hm2 Ho2 Hle Hin.
  destruct (barrier_arrive_edge _ _ _ _ _ _ _ H1)
    as (m & cm & mc & bd & ep0 & ws & toks & clk & ep' & ws' & toks' & Hm & Hcm & Hi & L & _ & Hobj' & Lmc & _).
  rewrite Hma in Hm; inversion Hm; subst m. rewrite Hca in Hcm; inversion Hcm; subst cm.
  rewrite Ho1 in Hobj'. inversion Hobj'; subst.
  destruct (barrier_arrive_edge _ _ _ _ _ _ _ H2)
    as (m & cm2 & mc2 & bd2 & ep02 & ws02 & toks02 & clk02 & ep2' & ws2' & toks2' & Hm' & _ & _ & _ & Hobj2 & _ & _ & Lclk & _ & _ & Hrel).
  rewrite Hm2 in Hm'; inversion Hm'; subst m. rewrite Ho2 in Hobj2; inversion Hobj2; subst.
  destruct (Hrel eq_refl) as (_ & Hall). destruct (Hall tid Hin) as (ct & Hct & Lct).
  exists mc, ct. splits; auto.
  eapply vle_trans; [exact Lmc|]. eapply vle_trans; [exact Hle|]. eapply vle_trans; [exact Lclk|exact Lct].
Qed.

(* ---- 7.3 Condvar ---- *)
Lemma cv_consume_epoch_same : forall ws e epoch e' ws',
  cv_consume_epoch e ws epoch = Some (e', ws') -> same_clocks e e'.
Proof.
  induction ws as [|[tid stt] r IH]; intros e epoch e' ws' H; cbn [cv_consume_epoch] in H.
  - inversion H; apply same_clocks_refl.
  - assert (Plain : forall stt0, match cv_consume_epoch e r epoch with
                                 | Some (e2, r') => Some (e2, (tid, stt0) :: r') | None => None end = Some (e', ws') ->
                                 same_clocks e e').
    { intros stt0 H0. destruct (cv_consume_epoch e r epoch) as [[e2 r']|] eqn:E; [|discriminate].
      inversion H0; subst. eapply IH; exact E. }
    destruct stt as [|eps|c]; [eapply Plain; exact H| |eapply Plain; exact H].
    destruct (existsb (fun p => Nat.eqb (fst p) epoch) eps); [|eapply Plain; exact H].
    match type of H with match ?X with _ => _ end = _ => destruct X end; [|eapply Plain; exact H].
    destruct (e_block e tid false) as [e1|] eqn:Hb; [|discriminate].
    destruct (cv_consume_epoch e1 r epoch) as [[e2 r']|] eqn:E; [|discriminate]. inversion H; subst.
    eapply same_clocks_trans; [eapply e_block_same; exact Hb|eapply IH; exact E].
Qed.

(* (A) the wake-up block of Condvar::wait: the woken task joins the clock carried by the signal it
   consumes - the broadcast's clock, or the clock of the FIRST epoch in its list *)
Theorem cv_wake_acquire : forall e st cv e' st',
  cv_wake e st cv = Some (e', st') ->
  exists m ws ne my c cm',
    me e = Some m /\ get_obj st cv = Some (OCondvar ws ne) /\ assoc_get ws m = Some my
    /\ (my = CvBroadcast c \/ exists epoch rest, my = CvSignal ((epoch, c) :: rest))
    /\ e_clock e' m = Some cm' /\ vle c cm' = true /\ clocks_grow e e'.
Proof.
  intros e st cv e' st' H. unfold cv_wake in H.
  destruct (me e) as [m|] eqn:Hm; [|discriminate].
  destruct (get_obj st cv) as [[| | | |ws ne| | | | | | | | ]|] eqn:Hobj; try discriminate.
  destruct (assoc_get ws m) as [my|] eqn:Hmy; [|discriminate].
  destruct my as [|[|[epoch c] rest]|c]; try discriminate.
  - destruct (cv_consume_epoch e (assoc_remove ws m) epoch) as [[e1 ws2]|] eqn:Hc; [|discriminate].
    destruct (e_update_clock e1 m c) as [e2|] eqn:Hu; [|discriminate]. inversion H; subst e' st'; clear H.
    destruct (update_clock_local _ _ _ _ Hu) as (c0 & c1 & _ & _ & Hc' & _ & _ & Lv & _).
    exists m, ws, ne, (CvSignal ((epoch, c) :: rest)), c, (update c1 c). splits; auto.
    + right; eauto.
    + eapply clocks_grow_trans; [apply same_clocks_grow; eapply cv_consume_epoch_same; exact Hc|eapply e_update_clock_grow; exact Hu].
  - destruct (e_update_clock e m c) as [e2|] eqn:Hu; [|discriminate]. inversion H; subst e' st'; clear H.
    destruct (update_clock_local _ _ _ _ Hu) as (c0 & c1 & _ & _ & Hc' & _ & _ & Lv & _).
    exists m, ws, ne, (CvBroadcast c), c, (update c1 c). splits; auto.
    eapply e_update_clock_grow; exact Hu.
Qed.

(* (R) notify_all: every waiter's status becomes Broadcast(c), c = the notifier's CURRENT clock (the
   notifier does not tick); no task's clock moves in this block *)
Theorem cv_notify_all_release : forall e st cv e' st',
  cv_notify_all e st cv = Some (e', st') ->
  exists m c ws ne, me e = Some m /\ e_clock e m = Some c /\ get_obj st cv = Some (OCondvar ws ne)
    /\ same_clocks e e'
    /\ get_obj st' cv = Some (OCondvar (map (fun p => (fst p, CvBroadcast c)) ws) ne).
Proof.
  intros e st cv e' st' H. unfold cv_notify_all in H.
  destruct (me e) as [m|] eqn:Hm; [|discriminate].
  destruct (get_obj st cv) as [[| | | |ws ne| | | | | | | | ]|] eqn:Hobj; try discriminate.
  destruct (e_clock e m) as [c|] eqn:Hc; [|discriminate].
  match type of H with match fold_left ?F _ _ with _ => _ end = _ => set (F0 := F) in * end.
  assert (Fold : forall l e0 out e1 out1, fold_left F0 l (Some (e0, out)) = Some (e1, out1) ->
            same_clocks e0 e1 /\ out1 = out ++ map (fun p => (fst p, CvBroadcast c)) l).
  { induction l as [|[tid stt] r IH]; intros e0 out e1 out1 H0; cbn [fold_left] in H0.
    - inversion H0; subst. split; [apply same_clocks_refl|rewrite app_nil_r; reflexivity].
    - unfold F0 at 2 in H0. destruct (Nat.eqb tid m); [rewrite fold_left_none in H0 by reflexivity; discriminate|].
      destruct (e_unblock e0 tid) as [ea|] eqn:Hu; [|rewrite fold_left_none in H0 by reflexivity; discriminate].
      destruct (IH _ _ _ _ H0) as (S1 & E1). split; [eapply same_clocks_trans; [eapply e_unblock_same; exact Hu|exact S1]|].
      rewrite E1, <- app_assoc. reflexivity. }
  destruct (fold_left F0 ws (Some (e, []))) as [[e1 ws1]|] eqn:Hf; [|discriminate]. inversion H; subst e' st'; clear H.
  destruct (Fold _ _ _ _ _ Hf) as (S1 & E1). cbn [app] in E1. subst ws1.
  exists m, c, ws, ne. splits; auto. eapply get_set_obj_same; exact Hobj.
Qed.

(* (R) notify_one: an epoch (next_epoch, c) is appended to the list of every waiter that is not already
   broadcast to, c = the notifier's current clock (no tick); no task's clock moves in this block *)
Definition cv_signal (ne : nat) (c : vclock) (stt : cv_status) : cv_status :=
  match stt with
  | CvWaiting => CvSignal [(ne, c)]
  | CvSignal eps => CvSignal (eps ++ [(ne, c)])
  | CvBroadcast b => CvBroadcast b
  end.

Theorem cv_notify_one_release : forall e st cv e' st',
  cv_notify_one e st cv = Some (e', st') ->
  exists m c ws ne, me e = Some m /\ e_clock e m = Some c /\ get_obj st cv = Some (OCondvar ws ne)
    /\ same_clocks e e'
    /\ get_obj st' cv = Some (OCondvar (map (fun p => (fst p, cv_signal ne c (snd p))) ws) (S ne)).
Proof.
  intros e st cv e' st' H. unfold cv_notify_one in H.
  destruct (me e) as [m|] eqn:Hm; [|discriminate].
  destruct (get_obj st cv) as [[| | | |ws ne| | | | | | | | ]|] eqn:Hobj; try discriminate.
  destruct (e_clock e m) as [c|] eqn:Hc; [|discriminate].
  match type of H with match fold_left ?F _ _ with _ => _ end = _ => set (F0 := F) in * end.
  assert (Fold : forall l e0 out e1 out1, fold_left F0 l (Some (e0, out)) = Some (e1, out1) ->
            same_clocks e0 e1 /\ out1 = out ++ map (fun p => (fst p, cv_signal ne c (snd p))) l).
  { induction l as [|[tid stt] r IH]; intros e0 out e1 out1 H0; cbn [fold_left] in H0.
    - inversion H0; subst. split; [apply same_clocks_refl|rewrite app_nil_r; reflexivity].
    - unfold F0 at 2 in H0. destruct (Nat.eqb tid m); [rewrite fold_left_none in H0 by reflexivity; discriminate|].
      destruct (e_unblock e0 tid) as [ea|] eqn:Hu; [|rewrite fold_left_none in H0 by reflexivity; discriminate].
      destruct (IH _ _ _ _ H0) as (S1 & E1). split; [eapply same_clocks_trans; [eapply e_unblock_same; exact Hu|exact S1]|].
      rewrite E1, <- app_assoc. destruct stt; reflexivity. }
  destruct (fold_left F0 ws (Some (e, []))) as [[e1 ws1]|] eqn:Hf; [|discriminate]. inversion H; subst e' st'; clear H.
  destruct (Fold _ _ _ _ _ Hf) as (S1 & E1). cbn [app] in E1. subst ws1.
  exists m, c, ws, ne. splits; auto. eapply get_set_obj_same; exact Hobj.
Qed.

(* THE EDGE notify -> the wait it wakes: b's wake-up block consumes a signal whose clock is the clock a
   had when it notified *)
Theorem cv_edge : forall (all : bool) e1 st1 cv e1' st1' ma ca e2 st2 e2' st2' mb ws2 ne2 my,
  (if all then cv_notify_all e1 st1 cv else cv_notify_one e1 st1 cv) = Some (e1', st1') ->
  me e1 = Some ma -> e_clock e1 ma = Some ca ->
  cv_wake e2 st2 cv = Some (e2', st2') -> me e2 = Some mb ->
  get_obj st2 cv = Some (OCondvar ws2 ne2) -> assoc_get ws2 mb = Some my ->
  (my = CvBroadcast ca \/ exists epoch rest, my = CvSignal ((epoch, ca) :: rest)) ->   (* the signal b consumes is a's *)
  exists cb', e_clock e1' ma = Some ca /\ e_clock e2' mb = Some cb' /\ vle ca cb' = true.
Proof.
  intros all e1 st1 cv e1' st1' ma ca e2 st2 e2' st2' mb ws2 ne2 my H1 Hma Hca H2 Hmb Hobj Hmy Hsig.
  assert (S1 : same_clocks e1 e1').
  { destruct all.
    - destruct (cv_notify_all_release _ _ _ _ _ H1) as (_ & _ & _ & _ & _ & _ & _ & S & _); exact S.
    - destruct (cv_notify_one_release _ _ _ _ _ H1) as (_ & _ & _ & _ & _ & _ & _ & S & _); exact S. }
  destruct (cv_wake_acquire _ _ _ _ _ H2) as (m & ws & ne & my' & c & cb' & Hm & Hobj' & Hmy' & Hsig' & Hcb & L & _).
  rewrite Hmb in Hm; inversion Hm; subst m. rewrite Hobj in Hobj'; inversion Hobj'; subst ws ne.
  rewrite Hmy in Hmy'; inversion Hmy'; subst my'.
  assert (c = ca).
  { destruct Hsig as [->|(ep & rs & ->)]; destruct Hsig' as [X|(ep' & rs' & X)]; inversion X; reflexivity. }
  subst c. exists cb'. splits; auto. rewrite S1; exact Hca.
Qed.
