(* Every state function of Lang/SyncOps2.v (Condvar, mpsc, Barrier, Once) and Lang/AsyncOps.v
   (async executor) that returns a new `exec` respects the strong frame `sframe`.
   No Admitted / Axiom. *)
From Coq Require Import List NArith Bool Arith Lia.
From SV Require Import Params Clock.VClock Prim.Objects Engine.Exec Engine.Inv Prim.Semaphore Lang.Code Lang.SyncOps Lang.SyncOps2 Lang.AsyncOps Proofs.EngineBase.
Import ListNotations.

(* ------------------------------------------------------------------ *)
(* tactics                                                             *)
(* ------------------------------------------------------------------ *)
(* case analysis on every closed scrutinee occurring in the hypotheses *)
Ltac dm := repeat match goal with
  | H : None = Some _ |- _ => discriminate H
  | H : Some _ = None |- _ => discriminate H
  | H : Some _ = Some _ |- _ => inversion H; subst; clear H
  | H : context [match ?x with _ => _ end] |- _ =>
      (tryif is_var x then destruct x else destruct x eqn:?)
  end.

(* turn one engine call into a strong-frame fact *)
Ltac sf_engine :=
  match goal with
  | Hr : rok ?e, H : e_block ?e _ _ = Some _ |- _ => pose proof (e_block_sframe _ _ _ _ Hr H); clear H
  | Hr : rok ?e, H : e_unblock ?e _ = Some _ |- _ => pose proof (e_unblock_sframe _ _ _ Hr H); clear H
  | Hr : rok ?e, H : e_waker_wake ?e _ = Some _ |- _ => pose proof (e_waker_wake_sframe _ _ _ Hr H); clear H
  | Hr : rok ?e, H : e_abort ?e _ = Some _ |- _ => pose proof (e_abort_sframe _ _ _ Hr H); clear H
  | Hr : rok ?e, H : e_detach ?e _ = Some _ |- _ => pose proof (e_detach_sframe _ _ _ Hr H); clear H
  | Hr : rok ?e, H : e_join_clock ?e _ _ = Some _ |- _ => pose proof (e_join_clock_sframe _ _ _ _ Hr H); clear H
  | Hr : rok ?e, H : e_update_clock ?e _ _ = Some _ |- _ => pose proof (e_update_clock_sframe _ _ _ _ Hr H); clear H
  | Hr : rok ?e, H : e_increment_clock ?e _ = Some _ |- _ => pose proof (e_increment_clock_sframe _ _ _ Hr H); clear H
  end.

Ltac sf_rok :=
  match goal with
  | F : sframe _ ?e' |- _ =>
      lazymatch goal with
      | R : rok e' |- _ => fail
      | _ => pose proof (sframe_rok _ _ F)
      end
  end.

Ltac sf_extra := fail.
Ltac sf := repeat first [ sf_engine | sf_extra | sf_rok ].

Ltac chain :=
  first [ eassumption
        | apply sframe_refl; assumption
        | eapply sframe_trans; [eassumption | chain] ].

Ltac crunch H := cbv beta zeta in H; dm; sf; chain.

(* ------------------------------------------------------------------ *)
(* folds over an optional accumulator                                  *)
(* ------------------------------------------------------------------ *)
Lemma fold_none : forall (A B : Type) (f : option B -> A -> option B),
  (forall x, f None x = None) -> forall l, fold_left f l None = None.
Proof.
  intros A B f Hn l; induction l as [|a l IH]; cbn [fold_left]; [reflexivity|].
  rewrite Hn; exact IH.
Qed.

Lemma fold_sframe1 : forall (A : Type) (f : option exec -> A -> option exec),
  (forall x, f None x = None) ->
  (forall e x e', rok e -> f (Some e) x = Some e' -> sframe e e') ->
  forall l e0 e', rok e0 -> fold_left f l (Some e0) = Some e' -> sframe e0 e'.
Proof.
  intros A f Hn Hs l; induction l as [|a l IH]; intros e0 e' Hr H; cbn [fold_left] in H.
  - inversion H; subst; apply sframe_refl; exact Hr.
  - destruct (f (Some e0) a) as [e1|] eqn:E.
    + pose proof (Hs _ _ _ Hr E) as F.
      eapply sframe_trans; [exact F|]. eapply IH; [eapply sframe_rok; exact F|exact H].
    + rewrite (fold_none _ _ f Hn) in H; discriminate.
Qed.

Lemma fold_sframe2 : forall (A B : Type) (f : option (exec * B) -> A -> option (exec * B)),
  (forall x, f None x = None) ->
  (forall e b x e' b', rok e -> f (Some (e, b)) x = Some (e', b') -> sframe e e') ->
  forall l e0 b0 e' b', rok e0 -> fold_left f l (Some (e0, b0)) = Some (e', b') -> sframe e0 e'.
Proof.
  intros A B f Hn Hs l; induction l as [|a l IH]; intros e0 b0 e' b' Hr H; cbn [fold_left] in H.
  - inversion H; subst; apply sframe_refl; exact Hr.
  - destruct (f (Some (e0, b0)) a) as [[e1 b1]|] eqn:E.
    + pose proof (Hs _ _ _ _ _ Hr E) as F.
      eapply sframe_trans; [exact F|]. eapply IH; [eapply sframe_rok; exact F|exact H].
    + rewrite (fold_none _ _ f Hn) in H; discriminate.
Qed.

(* ================= Condvar ================= *)
Lemma cv_enqueue_sframe : forall e st cv e' st', rok e -> cv_enqueue e st cv = Some (e', st') -> sframe e e'.
Proof. intros e st cv e' st' Hr H; unfold cv_enqueue in H; crunch H. Qed.

Lemma cv_consume_epoch_sframe : forall ws e epoch e' ws', rok e -> cv_consume_epoch e ws epoch = Some (e', ws') -> sframe e e'.
Proof.
  induction ws as [|[tid stt] r IH]; intros e epoch e' ws' Hr H; cbn [cv_consume_epoch] in H.
  - inversion H; subst; apply sframe_refl; exact Hr.
  - cbv beta zeta in H; dm; sf;
      repeat match goal with
      | R : rok ?e1, E : cv_consume_epoch ?e1 r _ = Some _ |- _ => pose proof (IH _ _ _ _ R E); clear E
      end; chain.
Qed.

Ltac sf_extra ::=
  match goal with
  | Hr : rok ?e, H : cv_consume_epoch ?e _ _ = Some _ |- _ => pose proof (cv_consume_epoch_sframe _ _ _ _ _ Hr H); clear H
  end.

Lemma cv_wake_sframe : forall e st cv e' st', rok e -> cv_wake e st cv = Some (e', st') -> sframe e e'.
Proof. intros e st cv e' st' Hr H; unfold cv_wake in H; crunch H. Qed.

Ltac use_fold2 :=
  match goal with
  | R : rok ?e0, E : fold_left _ _ (Some (?e0, _)) = Some (?e1, _) |- _ =>
      assert (sframe e0 e1);
      [ eapply fold_sframe2; [ | | exact R | exact E ];
        [ intros; reflexivity
        | let e := fresh "e" in let b := fresh "b" in let x := fresh "x" in
          let e' := fresh "e'" in let b' := fresh "b'" in let Hr := fresh "Hr" in let H := fresh "H" in
          intros e b x e' b' Hr H; crunch H ]
      | clear E ]
  end.

Ltac use_fold1 :=
  match goal with
  | R : rok ?e0, E : fold_left _ _ (Some ?e0) = Some ?e1 |- _ =>
      assert (sframe e0 e1);
      [ eapply fold_sframe1; [ | | exact R | exact E ];
        [ intros; reflexivity
        | let e := fresh "e" in let x := fresh "x" in
          let e' := fresh "e'" in let Hr := fresh "Hr" in let H := fresh "H" in
          intros e x e' Hr H; crunch H ]
      | clear E ]
  end.

Lemma cv_notify_one_sframe : forall e st cv e' st', rok e -> cv_notify_one e st cv = Some (e', st') -> sframe e e'.
Proof.
  intros e st cv e' st' Hr H; unfold cv_notify_one in H; cbv beta zeta in H; dm.
  use_fold2. chain.
Qed.

Lemma cv_notify_all_sframe : forall e st cv e' st', rok e -> cv_notify_all e st cv = Some (e', st') -> sframe e e'.
Proof.
  intros e st cv e' st' Hr H; unfold cv_notify_all in H; cbv beta zeta in H; dm.
  use_fold2. chain.
Qed.

(* ================= mpsc ================= *)
Lemma chan_send_pre_sframe : forall e c b e' c' r, rok e -> chan_send_pre e c b = Some (e', c', r) -> sframe e e'.
Proof. intros e c b e' c' r Hr H; unfold chan_send_pre in H; crunch H. Qed.

Lemma chan_send_woken_sframe : forall e c e' c' r, rok e -> chan_send_woken e c = Some (e', c', r) -> sframe e e'.
Proof. intros e c e' c' r Hr H; unfold chan_send_woken in H; crunch H. Qed.

Lemma chan_send_deliver_sframe : forall e c v e' c', rok e -> chan_send_deliver e c v = Some (e', c') -> sframe e e'.
Proof. intros e c v e' c' Hr H; unfold chan_send_deliver in H; crunch H. Qed.

Lemma chan_recv_pre_sframe : forall e c b e' c' r, rok e -> chan_recv_pre e c b = Some (e', c', r) -> sframe e e'.
Proof. intros e c b e' c' r Hr H; unfold chan_recv_pre in H; crunch H. Qed.

Lemma chan_recv_woken_sframe : forall e c e' c' r, rok e -> chan_recv_woken e c = Some (e', c', r) -> sframe e e'.
Proof. intros e c e' c' r Hr H; unfold chan_recv_woken in H; crunch H. Qed.

Lemma chan_recv_take_sframe : forall e c e' c' v, rok e -> chan_recv_take e c = Some (e', c', v) -> sframe e e'.
Proof. intros e c e' c' v Hr H; unfold chan_recv_take in H; crunch H. Qed.

Lemma chan_clone_tx_sframe : forall e st ch e' st', rok e -> chan_clone_tx e st ch = Some (e', st') -> sframe e e'.
Proof. intros e st ch e' st' Hr H; unfold chan_clone_tx, on_chan in H; crunch H. Qed.

Lemma unblock_all_sframe : forall l e e', rok e -> unblock_all e l = Some e' -> sframe e e'.
Proof.
  intros l e e' Hr H; unfold unblock_all in H. use_fold1. chain.
Qed.

Ltac sf_extra ::=
  match goal with
  | Hr : rok ?e, H : cv_consume_epoch ?e _ _ = Some _ |- _ => pose proof (cv_consume_epoch_sframe _ _ _ _ _ Hr H); clear H
  | Hr : rok ?e, H : unblock_all ?e _ = Some _ |- _ => pose proof (unblock_all_sframe _ _ _ Hr H); clear H
  end.

Lemma chan_drop_tx_sframe : forall e st ch e' st', rok e -> chan_drop_tx e st ch = Some (e', st') -> sframe e e'.
Proof. intros e st ch e' st' Hr H; unfold chan_drop_tx, on_chan in H; crunch H. Qed.

Lemma chan_drop_rx_sframe : forall e st ch e' st', rok e -> chan_drop_rx e st ch = Some (e', st') -> sframe e e'.
Proof. intros e st ch e' st' Hr H; unfold chan_drop_rx, on_chan in H; crunch H. Qed.

(* ================= Barrier ================= *)
Lemma barrier_arrive_sframe : forall e st b e' st' ep blk, rok e -> barrier_arrive e st b = Some (e', st', ep, blk) -> sframe e e'.
Proof.
  intros e st b e' st' ep blk Hr H; unfold barrier_arrive in H; cbv beta zeta in H; dm; sf.
  - chain.
  - use_fold1. chain.
Qed.

Lemma barrier_leave_sframe : forall e st b ep e' st' l, rok e -> barrier_leave e st b ep = Some (e', st', l) -> sframe e e'.
Proof. intros e st b ep e' st' l Hr H; unfold barrier_leave in H; crunch H. Qed.

(* ================= Once ================= *)
Lemma once_enter_sframe : forall e st o e' st' b, rok e -> once_enter e st o = Some (e', st', b) -> sframe e e'.
Proof. intros e st o e' st' b Hr H; unfold once_enter in H; crunch H. Qed.

Lemma once_complete_sframe : forall e st o e' st', rok e -> once_complete e st o = Some (e', st') -> sframe e e'.
Proof. intros e st o e' st' Hr H; unfold once_complete in H; crunch H. Qed.

Lemma once_is_completed_sframe : forall e st o e' st' b, rok e -> once_is_completed e st o = Some (e', st', b) -> sframe e e'.
Proof. intros e st o e' st' b Hr H; unfold once_is_completed in H; crunch H. Qed.

(* ================= async executor ================= *)
Lemma joins_register_sframe : forall e st jt c e' st', rok e -> joins_register e st jt c = Some (e', st') -> sframe e e'.
Proof. intros e st jt c e' st' Hr H; unfold joins_register in H; crunch H. Qed.

Lemma wrapper_finish_sframe : forall e st jt res e' st', rok e -> wrapper_finish e st jt res = Some (e', st') -> sframe e e'.
Proof. intros e st jt res e' st' Hr H; unfold wrapper_finish in H; crunch H. Qed.

Lemma join_poll_sframe : forall e st jt t e' st' r, rok e -> join_poll e st jt t = Some (e', st', r) -> sframe e e'.
Proof. intros e st jt t e' st' r Hr H; unfold join_poll in H; crunch H. Qed.

Lemma detach_handle_sframe : forall e st t e' st', rok e -> detach_handle e st t = Some (e', st') -> sframe e e'.
Proof. intros e st t e' st' Hr H; unfold detach_handle in H; crunch H. Qed.

Lemma is_finished_handle_sframe : forall e st t e' st' b, rok e -> is_finished_handle e st t = Some (e', st', b) -> sframe e e'.
Proof. intros e st t e' st' b Hr H; unfold is_finished_handle in H; crunch H. Qed.

Print Assumptions chan_send_deliver_sframe.
Print Assumptions barrier_arrive_sframe.
