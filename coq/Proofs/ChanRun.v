(* An executable, guard-checking runner for the channel transition system, used for the non-vacuity
   examples of Props/C06.v: a script that runs under `run_checked` is a path of `step`s. *)
From Coq Require Import List NArith Bool Arith Lia.
From SV Require Import Clock.VClock Prim.Objects Engine.Exec Prim.Semaphore Prim.SemInv Lang.Code Lang.SyncOps Lang.SyncOps2.
From SV Require Import Proofs.ChanBase Proofs.ChanFun Proofs.ChanOps Proofs.ChanProofs Proofs.ChanCrash.
Import ListNotations.
Open Scope nat_scope.

Definition tstate_eqb (a b : tstate) : bool :=
  match a, b with
  | Runnable, Runnable | Sleeping, Sleeping | Finished, Finished => true
  | Blocked x, Blocked y => Bool.eqb x y
  | _, _ => false end.

Lemma tstate_eqb_eq : forall a b, tstate_eqb a b = true -> a = b.
Proof. intros [|[]| |] [|[]| |]; cbn; congruence. Qed.

Definition ots_eqb (a b : option tstate) : bool :=
  match a, b with Some x, Some y => tstate_eqb x y | None, None => true | _, _ => false end.

Lemma ots_eqb_eq : forall a b, ots_eqb a b = true -> a = b.
Proof. intros [x|] [y|]; cbn; try congruence. intros H; f_equal; apply tstate_eqb_eq; assumption. Qed.

Definition actor_b (e : exec) (t : nat) : bool :=
  match me e with Some m => Nat.eqb m t | None => false end && ots_eqb (sts e t) (Some Runnable).

Definition mem_b (t : nat) (l : list nat) : bool := existsb (Nat.eqb t) l.

Lemma mem_b_In : forall t l, mem_b t l = true <-> In t l.
Proof.
  intros t l; unfold mem_b. rewrite existsb_exists. split.
  - intros (x & Hin & Hx). apply Nat.eqb_eq in Hx; subst; assumption.
  - intros Hin. exists t. split; [assumption|apply Nat.eqb_refl].
Qed.

Definition idle_b (c : chan) (t : nat) : bool := negb (mem_b t (ch_wsend c ++ ch_wrecv c)).

Definition guardb (s : cst) (l : lbl) : bool :=
  let e := cs_e s in let c := cs_c s in
  match l with
  | LSend t _ _ => actor_b e t && idle_b c t && Nat.ltb 0 (ch_senders c)
  | LSendWoken t _ => actor_b e t && mem_b t (ch_wsend c)
  | LRecv t _ => actor_b e t && idle_b c t && Nat.ltb 0 (ch_receivers c) && nilb (ch_wrecv c)
  | LRecvWoken t => actor_b e t && mem_b t (ch_wrecv c)
  | LClone t => actor_b e t && idle_b c t && Nat.ltb 0 (ch_senders c)
  | LDropTx t => actor_b e t && idle_b c t && Nat.ltb 0 (ch_senders c) && (negb (Nat.eqb (ch_senders c) 1) || nilb (ch_wsend c))
  | LDropRx t => actor_b e t && idle_b c t && Nat.ltb 0 (ch_receivers c) && (negb (Nat.eqb (ch_receivers c) 1) || nilb (ch_wrecv c))
  | LEnv e' => forallb (fun t => ots_eqb (sts e' t) (sts e t)) (ch_wsend c ++ ch_wrecv c)
  end.

Lemma actor_b_ok : forall e t, actor_b e t = true -> actor e t.
Proof.
  intros e t H; unfold actor_b in H. apply andb_true_iff in H. destruct H as (H1 & H2).
  split; [|apply ots_eqb_eq; assumption].
  destruct (me e) as [m|]; [|discriminate]. apply Nat.eqb_eq in H1; subst; reflexivity.
Qed.

Lemma idle_b_ok : forall c t, idle_b c t = true -> idle c t.
Proof.
  intros c t H Hin; unfold idle_b in H. apply negb_true_iff in H. apply mem_b_In in Hin. congruence.
Qed.

Ltac andb_split H := repeat (let H2 := fresh "G" in apply andb_true_iff in H; destruct H as (H & H2)).

Lemma borrow_b_ok : forall n (l : list nat), negb (Nat.eqb n 1) || nilb l = true -> n = 1 -> l = [].
Proof. intros n l H ->. cbn [Nat.eqb negb orb] in H. apply nilb_true; exact H. Qed.

Opaque actor_b idle_b mem_b.
Lemma guardb_ok : forall s l, guardb s l = true -> guard s l.
Proof.
  intros s l H. destruct l as [t v cb|t v|t cb|t|t|t|t|e']; cbn [guardb guard] in *.
  - andb_split H. split; [exact (actor_b_ok _ _ H)|]. split; [exact (idle_b_ok _ _ G0)|]. apply Nat.ltb_lt; exact G.
  - andb_split H. split; [exact (actor_b_ok _ _ H)|]. apply mem_b_In; exact G.
  - andb_split H. split; [exact (actor_b_ok _ _ H)|]. split; [exact (idle_b_ok _ _ G1)|].
    split; [apply Nat.ltb_lt; exact G0|apply nilb_true; exact G].
  - andb_split H. split; [exact (actor_b_ok _ _ H)|]. apply mem_b_In; exact G.
  - andb_split H. split; [exact (actor_b_ok _ _ H)|]. split; [exact (idle_b_ok _ _ G0)|]. apply Nat.ltb_lt; exact G.
  - andb_split H. split; [exact (actor_b_ok _ _ H)|]. split; [exact (idle_b_ok _ _ G1)|].
    split; [apply Nat.ltb_lt; exact G0|exact (borrow_b_ok _ _ G)].
  - andb_split H. split; [exact (actor_b_ok _ _ H)|]. split; [exact (idle_b_ok _ _ G1)|].
    split; [apply Nat.ltb_lt; exact G0|exact (borrow_b_ok _ _ G)].
  - intros t Hin. apply ots_eqb_eq. rewrite forallb_forall in H. apply H; assumption.
Qed.
Transparent actor_b idle_b mem_b.

(* scripts: channel segments, and context switches (an LEnv that only changes the current task) *)
Inductive cmd := Do (l : lbl) | Sw (t : nat).

Definition switch_to (e : exec) (t : nat) : exec := with_current_next e (SSome t) SNone.

Definition lbl_of (s : cst) (k : cmd) : lbl :=
  match k with Do l => l | Sw t => LEnv (switch_to (cs_e s) t) end.

Fixpoint run_checked (ks : list cmd) (s : cst) : option cst :=
  match ks with
  | [] => Some s
  | k :: r => if guardb s (lbl_of s k) then
                match exec_lbl s (lbl_of s k) with Some s' => run_checked r s' | None => None end
              else None
  end.

(* the same without checking the guards: for the out-of-contract counterexamples *)
Fixpoint run_unchecked (ks : list cmd) (s : cst) : option cst :=
  match ks with
  | [] => Some s
  | k :: r => match exec_lbl s (lbl_of s k) with Some s' => run_unchecked r s' | None => None end
  end.

Theorem run_checked_reachable : forall b ks s s', reachable b s -> run_checked ks s = Some s' -> reachable b s'.
Proof.
  intros b ks; induction ks as [|k r IH]; intros s s' Hr Hrun; cbn [run_checked] in Hrun.
  - inversion Hrun; subst; assumption.
  - destruct (guardb s (lbl_of s k)) eqn:Hg; [|discriminate].
    destruct (exec_lbl s (lbl_of s k)) as [s1|] eqn:Hx; [|discriminate].
    apply (IH s1 s'); [|assumption]. eapply reach_step; [exact Hr|]. split; [apply guardb_ok; exact Hg|exact Hx].
Qed.

(* a three-task execution state: task 0 (the receiver) and tasks 1, 2 (the senders), all runnable *)
Definition tk0 : task := mkTask Runnable false false false false None [0%N; 0%N; 0%N].
Definition e0 : exec := mkExec [tk0; tk0; tk0] (SSome 0) SNone false 0 0 [0; 1; 2] [] false false.

(* what the examples observe: histories, buffered values, queues, handle counts, states of tasks 0,1,2 *)
Definition obs (s : cst) :=
  (cs_sent s, cs_rcvd s, map fst (ch_msgs (cs_c s)), ch_wsend (cs_c s), ch_wrecv (cs_c s),
   (ch_senders (cs_c s), ch_receivers (cs_c s)), map (sts (cs_e s)) [0; 1; 2]).

Definition send_answer (s : cst) (cb : bool) : option send_res :=
  match chan_send_pre (cs_e s) (cs_c s) cb with Some (_, _, r) => Some r | None => None end.
Definition send_woken_answer (s : cst) : option send_res :=
  match chan_send_woken (cs_e s) (cs_c s) with Some (_, _, r) => Some r | None => None end.
Definition recv_answer (s : cst) (cb : bool) : option recv_res :=
  match chan_recv_pre (cs_e s) (cs_c s) cb with Some (_, _, r) => Some r | None => None end.
Definition recv_woken_answer (s : cst) : option recv_res :=
  match chan_recv_woken (cs_e s) (cs_c s) with Some (_, _, r) => Some r | None => None end.
