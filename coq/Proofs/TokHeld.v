(* C19: the permits a body of Lang/Tok.v holds (its `held` list) under SemaphorePermit::merge / split and
   RwLockWriteGuard::downgrade. *)
From Coq Require Import List NArith Bool Arith Lia.
From SV Require Import Lang.Tok.
Import ListNotations.

(* ---- the permits a body holds: merge, split and downgrade move permits between entries, never create or lose one ---- *)
Fixpoint total_held (s : nat) (hs : list (nat * N)) : N :=
  match hs with
  | [] => 0%N
  | (s', n) :: r => ((if Nat.eqb s s' then n else 0) + total_held s r)%N
  end.

Lemma take_held_total : forall s hs n hs', take_held s hs = Some (n, hs') -> total_held s hs = (n + total_held s hs')%N.
Proof.
  induction hs as [|[s' k] r IH]; intros n hs' H; simpl in H; [discriminate|].
  destruct (Nat.eqb s s') eqn:E.
  - inversion H; subst. simpl. rewrite E. reflexivity.
  - destruct (take_held s r) as [[n' r']|] eqn:T; [|discriminate]. inversion H; subst.
    simpl. rewrite E. rewrite (IH _ _ eq_refl). simpl. reflexivity.
Qed.

Lemma take_held_other : forall s s' hs n hs', s <> s' -> take_held s hs = Some (n, hs') -> total_held s' hs' = total_held s' hs.
Proof.
  induction hs as [|[s0 k] r IH]; intros n hs' Hne H; simpl in H; [discriminate|].
  destruct (Nat.eqb s s0) eqn:E.
  - inversion H; subst. apply Nat.eqb_eq in E. subst s0. simpl.
    replace (Nat.eqb s' s) with false by (symmetry; apply Nat.eqb_neq; congruence). reflexivity.
  - destruct (take_held s r) as [[n' r']|] eqn:T; [|discriminate]. inversion H; subst.
    simpl. rewrite (IH _ _ Hne eq_refl). reflexivity.
Qed.

Lemma split_held_total : forall s n hs hs', split_held s n hs = Some hs' -> total_held s ((s, n) :: hs') = total_held s hs.
Proof.
  induction hs as [|[s' k] r IH]; intros hs' H; simpl in H; [discriminate|].
  destruct (Nat.eqb s s') eqn:E.
  - destruct (N.leb n k) eqn:L; [|discriminate]. inversion H; subst. apply N.leb_le in L.
    simpl. rewrite Nat.eqb_refl, E. lia.
  - destruct (split_held s n r) as [r'|] eqn:T; [|discriminate]. inversion H; subst.
    specialize (IH _ eq_refl). simpl in *. rewrite Nat.eqb_refl in *. rewrite E. lia.
Qed.

(* merge: the two newest permits of s become one holding their sum *)
Lemma merge_held_total : forall s hs n1 h1 n2 h2,
  take_held s hs = Some (n1, h1) -> take_held s h1 = Some (n2, h2) ->
  total_held s ((s, (n1 + n2)%N) :: h2) = total_held s hs.
Proof.
  intros s hs n1 h1 n2 h2 H1 H2. simpl. rewrite Nat.eqb_refl.
  rewrite (take_held_total _ _ _ _ H1), (take_held_total _ _ _ _ H2). lia.
Qed.

(* downgrade: the write guard's k permits become 1 held + k - 1 released *)
Lemma downgrade_held_total : forall s hs k h', take_held s hs = Some (k, h') -> (1 <= k)%N ->
  (total_held s ((s, 1%N) :: h') + (k - 1) = total_held s hs)%N.
Proof.
  intros s hs k h' H Hk. simpl. rewrite Nat.eqb_refl. rewrite (take_held_total _ _ _ _ H). lia.
Qed.
