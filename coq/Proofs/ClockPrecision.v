(* C15, precision half, for the permit batches of the BatchSemaphore (Prim/Semaphore.v: take_batches =
   PermitsAvailable::acquire): an acquisition joins the clocks of exactly the batches from which it takes at least one
   permit - no stale batch - and leaves no empty batch behind. *)
From Coq Require Import List NArith Bool Arith Lia.
From SV Require Import Clock.VClock Prim.Objects Prim.Semaphore.
Import ListNotations.
Local Open Scope N_scope.

Fixpoint sizes_sum (bs : list (N * vclock)) : N := match bs with [] => 0 | (s, _) :: r => s + sizes_sum r end.

Definition batches_pos (bs : list (N * vclock)) : Prop := Forall (fun b => 0 < fst b) bs.

Lemma take_batches_precise : forall bs k clk bs' clk' miss,
  batches_pos bs -> 0 < k ->
  take_batches bs k clk = (bs', clk', miss) ->
  exists m, (m <= length bs)%nat /\
            clk' = fold_left update (map snd (firstn m bs)) clk /\
            sizes_sum (firstn (m - 1) bs) < k /\
            batches_pos bs'.
Proof.
  induction bs as [|[size bc] r IH]; intros k clk bs' clk' miss Hpos Hk H; simpl in H.
  - inversion H; subst. exists 0%nat. simpl. repeat split; auto; try lia; try constructor.
  - inversion Hpos as [|b l Hb Hr]; subst. simpl in Hb.
    destruct (N.ltb k size) eqn:L.
    + inversion H; subst. apply N.ltb_lt in L. exists 1%nat. simpl. repeat split; [lia|lia|].
      constructor; [simpl; lia|exact Hr].
    + apply N.ltb_ge in L. destruct (N.eqb (k - size) 0) eqn:E.
      * inversion H; subst. exists 1%nat. simpl. repeat split; [lia|lia|exact Hr].
      * apply N.eqb_neq in E.
        destruct (IH (k - size) (update clk bc) bs' clk' miss Hr ltac:(lia) H) as (m' & Hm & Hc & Hs & Hp).
        exists (S m'). simpl. repeat split; [lia|exact Hc| |exact Hp].
        destruct m' as [|m'']; simpl; [lia|].
        simpl in Hs. rewrite Nat.sub_0_r in Hs. lia.
Qed.

(* a release appends a non-empty batch (k > 0), so the queue never holds an empty batch: with the previous lemma, the
   invariant of all reachable semaphores *)
Lemma release_keeps_batches_pos : forall bs k c, batches_pos bs -> 0 < k -> batches_pos (bs ++ [(k, c)]).
Proof. intros bs k c H Hk. apply Forall_app. split; [exact H|]. constructor; [simpl; exact Hk|constructor]. Qed.
