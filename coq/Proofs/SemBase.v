(* Basic facts used by the BatchSemaphore proofs (C18): list updates, the permit accounting
   (take_batches / permits_acquire / permits_release), and the frame of the engine calls the
   semaphore makes (they never change the task table's length, the finished flag of a task,
   the scheduling registers; they never make a Runnable task non-Runnable, except e_block). *)
From Coq Require Import List NArith Bool Arith Lia.
From SV Require Import Clock.VClock Prim.Objects Engine.Exec Prim.Semaphore Prim.SemInv.
Import ListNotations.
Open Scope N_scope.

(* ------------------------------------------------------------------ *)
(* list_upd                                                            *)
(* ------------------------------------------------------------------ *)
Lemma list_upd_length : forall {A} (l : list A) i f, length (list_upd l i f) = length l.
Proof.
  intros A l; induction l as [|x r IH]; intros [|i] f; cbn [list_upd length]; auto.
Qed.

Lemma nth_error_list_upd_eq : forall {A} (l : list A) i f,
  nth_error (list_upd l i f) i = option_map f (nth_error l i).
Proof.
  intros A l; induction l as [|x r IH]; intros [|i] f; cbn [list_upd nth_error option_map]; auto.
Qed.

Lemma nth_error_list_upd_neq : forall {A} (l : list A) i j f,
  i <> j -> nth_error (list_upd l i f) j = nth_error l j.
Proof.
  intros A l; induction l as [|x r IH]; intros [|i] [|j] f Hij; cbn [list_upd nth_error]; auto.
  - congruence.
Qed.

Lemma list_upd_none : forall {A} (l : list A) i f, nth_error l i = None -> list_upd l i f = l.
Proof.
  intros A l; induction l as [|x r IH]; intros [|i] f Hn; cbn [list_upd nth_error] in *; auto.
  - discriminate.
  - f_equal; auto.
Qed.

(* ------------------------------------------------------------------ *)
(* record projections of the setters                                   *)
(* ------------------------------------------------------------------ *)
Ltac ssimpl :=
  cbn [sm_avail sm_batches sm_last_acquire sm_queue sm_wtab sm_closed sm_fair
       set_avail set_batches set_last set_queue set_wtab set_closed upd_waiter
       wt_task wt_n wt_queued wt_has wt_clock wt_waker
       w_set_queued w_set_has w_set_waker w_set_task] in *.

Lemma get_upd_eq : forall s wid f, get_waiter (upd_waiter s wid f) wid = option_map f (get_waiter s wid).
Proof. intros s wid f; unfold get_waiter; ssimpl; apply nth_error_list_upd_eq. Qed.

Lemma get_upd_neq : forall s wid wid' f, wid <> wid' -> get_waiter (upd_waiter s wid f) wid' = get_waiter s wid'.
Proof. intros s wid wid' f Hne; unfold get_waiter; ssimpl; apply nth_error_list_upd_neq; auto. Qed.

Lemma get_waiter_wtab : forall s s' wid, sm_wtab s' = sm_wtab s -> get_waiter s' wid = get_waiter s wid.
Proof. intros s s' wid Heq; unfold get_waiter; rewrite Heq; reflexivity. Qed.

(* ------------------------------------------------------------------ *)
(* permits held through the queue / poll path                          *)
(* ------------------------------------------------------------------ *)
Lemma sum_held_app : forall a b, sum_held (a ++ b) = sum_held a + sum_held b.
Proof.
  intros a b; induction a as [|w r IH]; cbn [sum_held app].
  - reflexivity.
  - rewrite IH; lia.
Qed.

Lemma sum_held_upd : forall t i f w,
  nth_error t i = Some w -> sum_held (list_upd t i f) + held w = sum_held t + held (f w).
Proof.
  intros t; induction t as [|x r IH]; intros [|i] f w Hn; cbn [nth_error list_upd sum_held] in *; try discriminate.
  - inversion Hn; subst; lia.
  - specialize (IH i f w Hn); lia.
Qed.

Lemma granted_upd : forall s wid f w,
  get_waiter s wid = Some w -> granted (upd_waiter s wid f) + held w = granted s + held (f w).
Proof. intros s wid f w Hg; unfold granted; ssimpl; apply sum_held_upd; exact Hg. Qed.

Lemma granted_upd_same : forall s wid f,
  (forall w, held (f w) = held w) -> granted (upd_waiter s wid f) = granted s.
Proof.
  intros s wid f Hf.
  destruct (get_waiter s wid) as [w|] eqn:Hg.
  - pose proof (granted_upd s wid f w Hg) as Hu; rewrite Hf in Hu; lia.
  - unfold granted; ssimpl; unfold get_waiter in Hg; rewrite list_upd_none; auto.
Qed.

(* ------------------------------------------------------------------ *)
(* PermitsAvailable                                                    *)
(* ------------------------------------------------------------------ *)
Lemma sum_sizes_app : forall a b, sum_sizes (a ++ b) = sum_sizes a + sum_sizes b.
Proof.
  intros a b; induction a as [|[n c] r IH]; cbn [sum_sizes app].
  - reflexivity.
  - rewrite IH; lia.
Qed.

Definition same_shape (s s' : sem) : Prop :=
  sm_queue s' = sm_queue s /\ sm_wtab s' = sm_wtab s /\ sm_closed s' = sm_closed s /\ sm_fair s' = sm_fair s.

Lemma same_shape_refl : forall s, same_shape s s.
Proof. intros s; repeat split. Qed.

(* the while-let loop: with enough permits in the deque nothing is missing at the end *)
Lemma take_batches_spec : forall bs k clk,
  0 < k -> k <= sum_sizes bs ->
  exists bs' clk', take_batches bs k clk = (bs', clk', 0) /\ sum_sizes bs' + k = sum_sizes bs.
Proof.
  intros bs; induction bs as [|[size bc] r IH]; intros k clk Hpos Hle; cbn [take_batches sum_sizes] in *.
  - lia.
  - destruct (N.ltb_spec k size) as [Hlt|Hge].
    + eexists _, _; split; [reflexivity|]. cbn [sum_sizes]. lia.
    + destruct (N.eqb_spec (k - size) 0) as [Hz|Hnz].
      * eexists _, _; split; [reflexivity|]. lia.
      * destruct (IH (k - size) (update clk bc)) as (bs' & clk' & Htb & Hsum); try lia.
        rewrite Htb. eexists _, _; split; [reflexivity|]. lia.
Qed.

(* whatever the deque contains, the permits missing are exactly what the deque lacks *)
Lemma take_batches_missing : forall bs k clk bs' clk' miss,
  0 < k -> take_batches bs k clk = (bs', clk', miss) ->
  (k <= sum_sizes bs /\ miss = 0 /\ sum_sizes bs' + k = sum_sizes bs) \/
  (sum_sizes bs < k /\ miss + sum_sizes bs = k /\ bs' = []).
Proof.
  intros bs; induction bs as [|[size bc] r IH]; intros k clk bs' clk' miss Hpos Htb; cbn [take_batches sum_sizes] in *.
  - inversion Htb; subst. right. repeat split; lia.
  - destruct (N.ltb_spec k size) as [Hlt|Hge].
    + inversion Htb; subst. left. cbn [sum_sizes]. repeat split; lia.
    + destruct (N.eqb_spec (k - size) 0) as [Hz|Hnz].
      * inversion Htb; subst. left. repeat split; lia.
      * apply IH in Htb; try lia.
        destruct Htb as [(H1 & H2 & H3)|(H1 & H2 & H3)]; [left|right]; repeat split; try lia; auto.
Qed.

Lemma init_batches_sum : forall s, batches_ok s -> sum_sizes (init_batches s) = sm_avail s.
Proof.
  intros s Hb; unfold init_batches.
  destruct (sm_batches s) as [b|] eqn:Hsb.
  - apply Hb; exact Hsb.
  - destruct (N.eqb_spec (sm_avail s) 0) as [Hz|Hnz]; cbn [sum_sizes]; lia.
Qed.

Lemma permits_acquire_ok : forall s k c s' clk,
  permits_acquire s k c = PaOk s' clk ->
  k <= sm_avail s /\ sm_avail s' + k = sm_avail s /\ same_shape s s' /\ (batches_ok s -> batches_ok s').
Proof.
  intros s k c s' clk Hpa; unfold permits_acquire in Hpa.
  destruct (N.eqb_spec k 0) as [Hz|Hnz].
  - inversion Hpa; subst. repeat split; auto; lia.
  - destruct (N.leb_spec k (sm_avail s)) as [Hle|Hgt]; [|discriminate].
    destruct (take_batches (init_batches s) k []) as [[bs' clk'] miss] eqn:Htb.
    destruct (N.eqb_spec miss 0) as [Hm|Hm]; [|discriminate].
    inversion Hpa; subst; clear Hpa. ssimpl.
    split; [assumption|]. split; [lia|]. split; [repeat split|].
    intros Hb bs Hbs; ssimpl. inversion Hbs; subst; clear Hbs.
    apply take_batches_missing in Htb; [|lia].
    rewrite (init_batches_sum s Hb) in Htb.
    destruct Htb as [(_ & _ & Hs)|(Hlt & _ & _)]; lia.
Qed.

Lemma permits_acquire_nop : forall s k c, permits_acquire s k c = PaNoPermits -> sm_avail s < k.
Proof.
  intros s k c Hpa; unfold permits_acquire in Hpa.
  destruct (N.eqb_spec k 0) as [Hz|Hnz]; [discriminate|].
  destruct (N.leb_spec k (sm_avail s)) as [Hle|Hgt]; [|assumption].
  destruct (take_batches (init_batches s) k []) as [[bs' clk'] miss].
  destruct (N.eqb miss 0); discriminate.
Qed.

(* the assert_eq!(num_permits, 0) of PermitsAvailable::acquire never fires under the deque invariant *)
Lemma permits_acquire_fits : forall s k c,
  batches_ok s -> k <= sm_avail s -> exists s' clk, permits_acquire s k c = PaOk s' clk.
Proof.
  intros s k c Hb Hle; unfold permits_acquire.
  destruct (N.eqb_spec k 0) as [Hz|Hnz]; [eexists _, _; reflexivity|].
  destruct (N.leb_spec k (sm_avail s)) as [_|Hgt]; [|lia].
  destruct (take_batches_spec (init_batches s) k []) as (bs' & clk' & Htb & _); try lia.
  - rewrite (init_batches_sum s Hb); assumption.
  - rewrite Htb. cbn [N.eqb]. eexists _, _; reflexivity.
Qed.

Lemma permits_acquire_nocrash : forall s k c, batches_ok s -> permits_acquire s k c <> PaCrash.
Proof.
  intros s k c Hb Hcr.
  destruct (N.le_gt_cases k (sm_avail s)) as [Hle|Hgt].
  - destruct (permits_acquire_fits s k c Hb Hle) as (s' & clk & Hok); congruence.
  - unfold permits_acquire in Hcr.
    destruct (N.eqb_spec k 0) as [Hz|Hnz]; [discriminate|].
    destruct (N.leb_spec k (sm_avail s)) as [Hle|_]; [lia|discriminate].
Qed.

(* permits_acquire does not look at the queue *)
Lemma permits_acquire_set_queue : forall s q k c s1 clk,
  permits_acquire (set_queue s q) k c = PaOk s1 clk -> sm_queue s1 = q.
Proof.
  intros s q k c s1 clk Hpa. apply permits_acquire_ok in Hpa.
  destruct Hpa as (_ & _ & (Hq & _) & _). exact Hq.
Qed.

Lemma permits_release_spec : forall s k c,
  sm_avail (permits_release s k c) = sm_avail s + k /\ same_shape s (permits_release s k c) /\
  (batches_ok s -> batches_ok (permits_release s k c)).
Proof.
  intros s k c; unfold permits_release; ssimpl. split; [reflexivity|]. split; [repeat split|].
  intros Hb bs Hbs; ssimpl. inversion Hbs; subst; clear Hbs.
  rewrite sum_sizes_app, (init_batches_sum s Hb). cbn [sum_sizes]. lia.
Qed.

(* ------------------------------------------------------------------ *)
(* the engine calls made by the semaphore                              *)
(* ------------------------------------------------------------------ *)
(* what every engine call made by the semaphore preserves *)
Definition eng_frame (e e' : exec) : Prop :=
  length (tasks e') = length (tasks e) /\ in_cleanup e' = in_cleanup e /\ current e' = current e
  /\ panicking e' = panicking e /\ (forall t, task_finished e' t = task_finished e t).

Definition keeps_runnable (e e' : exec) : Prop := forall t, runnable e t -> runnable e' t.

Lemma eng_frame_refl : forall e, eng_frame e e.
Proof. intros e; repeat split. Qed.

Lemma eng_frame_trans : forall e1 e2 e3, eng_frame e1 e2 -> eng_frame e2 e3 -> eng_frame e1 e3.
Proof.
  intros e1 e2 e3 (A1 & A2 & A3 & A4 & A5) (B1 & B2 & B3 & B4 & B5).
  repeat split; try congruence. all: intros t; rewrite B5; apply A5.
Qed.

Lemma keeps_runnable_refl : forall e, keeps_runnable e e.
Proof. intros e t Hr; exact Hr. Qed.

Lemma keeps_runnable_trans : forall e1 e2 e3, keeps_runnable e1 e2 -> keeps_runnable e2 e3 -> keeps_runnable e1 e3.
Proof. intros e1 e2 e3 H12 H23 t Hr; auto. Qed.

Lemma eng_frame_me : forall e e', eng_frame e e' -> me e' = me e.
Proof. intros e e' (_ & _ & Hc & _); unfold me; rewrite Hc; reflexivity. Qed.

Lemma eng_frame_should_stop : forall e e', eng_frame e e' -> should_stop e' = should_stop e.
Proof. intros e e' (_ & _ & Hc & Hp & _); unfold should_stop; rewrite Hc, Hp; reflexivity. Qed.

Lemma upd_task_get : forall e t f e',
  upd_task e t f = Some e' ->
  (get_task e' t = option_map f (get_task e t)) /\ (forall t', t <> t' -> get_task e' t' = get_task e t') /\
  length (tasks e') = length (tasks e) /\ in_cleanup e' = in_cleanup e /\ current e' = current e /\ panicking e' = panicking e.
Proof.
  intros e t f e' Hu; unfold upd_task in Hu.
  destruct (get_task e t) as [tk|] eqn:Hg; [|discriminate].
  inversion Hu; subst; clear Hu. unfold get_task in *; cbn [tasks with_tasks in_cleanup current panicking].
  repeat split.
  - rewrite nth_error_list_upd_eq, Hg; reflexivity.
  - intros t' Hne; apply nth_error_list_upd_neq; assumption.
  - apply list_upd_length.
Qed.

Lemma upd_task_frame : forall e t f e',
  upd_task e t f = Some e' ->
  (forall tk, get_task e t = Some tk -> is_finished (f tk) = is_finished tk) ->
  eng_frame e e'.
Proof.
  intros e t f e' Hu Hfin.
  destruct (upd_task_get e t f e' Hu) as (Hsame & Hother & Hlen & Hic & Hcur & Hpan).
  repeat split; auto.
  intros t'; unfold task_finished.
  destruct (Nat.eq_dec t t') as [<-|Hne].
  - rewrite Hsame. destruct (get_task e t) as [tk|] eqn:Hg; cbn [option_map]; auto.
    rewrite (Hfin tk eq_refl); reflexivity.
  - rewrite (Hother t' Hne); reflexivity.
Qed.

Lemma upd_task_keeps_runnable : forall e t f e',
  upd_task e t f = Some e' ->
  (forall tk, get_task e t = Some tk -> t_state tk = Runnable -> t_state (f tk) = Runnable) ->
  keeps_runnable e e'.
Proof.
  intros e t f e' Hu Hrun t' (tk & Hg & Hst).
  destruct (upd_task_get e t f e' Hu) as (Hsame & Hother & _).
  destruct (Nat.eq_dec t t') as [<-|Hne].
  - exists (f tk). rewrite Hsame, Hg. split; [reflexivity|auto].
  - exists tk. rewrite (Hother t' Hne). auto.
Qed.

Lemma is_finished_state : forall tk, is_finished tk = true <-> t_state tk = Finished.
Proof. intros tk; unfold is_finished; destruct (t_state tk); split; intros H; congruence. Qed.

Lemma e_unblock_frame : forall e t e', e_unblock e t = Some e' -> eng_frame e e'.
Proof.
  intros e t e' Hu; unfold e_unblock in Hu.
  destruct (get_task e t) as [tk|] eqn:Hg; [|discriminate].
  destruct (is_finished tk) eqn:Hf; [discriminate|].
  eapply upd_task_frame; [exact Hu|]. intros tk' Hg'; rewrite Hg in Hg'; inversion Hg'; subst.
  rewrite Hf; reflexivity.
Qed.

Lemma e_unblock_keeps : forall e t e', e_unblock e t = Some e' -> keeps_runnable e e'.
Proof.
  intros e t e' Hu; unfold e_unblock in Hu.
  destruct (get_task e t) as [tk|] eqn:Hg; [|discriminate].
  destruct (is_finished tk); [discriminate|].
  eapply upd_task_keeps_runnable; [exact Hu|]. intros; reflexivity.
Qed.

(* the task passed to e_unblock is Runnable afterwards *)
Lemma e_unblock_runnable : forall e t e', e_unblock e t = Some e' -> runnable e' t.
Proof.
  intros e t e' Hu; unfold e_unblock in Hu.
  destruct (get_task e t) as [tk|] eqn:Hg; [|discriminate].
  destruct (is_finished tk); [discriminate|].
  destruct (upd_task_get e t _ e' Hu) as (Hsame & _).
  exists (unblock_task tk). rewrite Hsame, Hg. split; reflexivity.
Qed.

Lemma e_unblock_unfinished : forall e t e', e_unblock e t = Some e' -> task_finished e t = Some false.
Proof.
  intros e t e' Hu; unfold e_unblock in Hu; unfold task_finished.
  destruct (get_task e t) as [tk|]; [|discriminate].
  destruct (is_finished tk); [discriminate|reflexivity].
Qed.

Lemma wake_task_finished : forall tk, is_finished (wake_task tk) = is_finished tk.
Proof.
  intros tk; unfold wake_task, is_sleeping, is_finished.
  destruct (t_state tk) eqn:Hs; cbn; rewrite ?Hs; reflexivity.
Qed.

Lemma wake_task_runnable : forall tk, t_state tk = Runnable -> t_state (wake_task tk) = Runnable.
Proof.
  intros tk Hs; unfold wake_task, is_sleeping. rewrite Hs. cbn. exact Hs.
Qed.

Lemma e_waker_wake_frame : forall e t e', e_waker_wake e t = Some e' -> eng_frame e e'.
Proof.
  intros e t e' Hw; unfold e_waker_wake in Hw.
  destruct (exec_is_finished e); [inversion Hw; subst; apply eng_frame_refl|].
  destruct (get_task e t) as [tk|] eqn:Hg; [|discriminate].
  destruct (is_finished tk); [inversion Hw; subst; apply eng_frame_refl|].
  eapply upd_task_frame; [exact Hw|]. intros; apply wake_task_finished.
Qed.

Lemma e_waker_wake_keeps : forall e t e', e_waker_wake e t = Some e' -> keeps_runnable e e'.
Proof.
  intros e t e' Hw; unfold e_waker_wake in Hw.
  destruct (exec_is_finished e); [inversion Hw; subst; apply keeps_runnable_refl|].
  destruct (get_task e t) as [tk|] eqn:Hg; [|discriminate].
  destruct (is_finished tk); [inversion Hw; subst; apply keeps_runnable_refl|].
  eapply upd_task_keeps_runnable; [exact Hw|]. intros; apply wake_task_runnable; assumption.
Qed.

Lemma wake_opt_frame : forall e w e', wake_opt e w = Some e' -> eng_frame e e'.
Proof.
  intros e [t|] e' Hw; cbn [wake_opt] in Hw.
  - eapply e_waker_wake_frame; eauto.
  - inversion Hw; subst; apply eng_frame_refl.
Qed.

Lemma wake_opt_keeps : forall e w e', wake_opt e w = Some e' -> keeps_runnable e e'.
Proof.
  intros e [t|] e' Hw; cbn [wake_opt] in Hw.
  - eapply e_waker_wake_keeps; eauto.
  - inversion Hw; subst; apply keeps_runnable_refl.
Qed.

Lemma e_join_clock_frame : forall e t c e', e_join_clock e t c = Some e' -> eng_frame e e'.
Proof. intros e t c e' Hj; unfold e_join_clock in Hj. eapply upd_task_frame; [exact Hj|]. intros; reflexivity. Qed.

Lemma e_join_clock_keeps : forall e t c e', e_join_clock e t c = Some e' -> keeps_runnable e e'.
Proof. intros e t c e' Hj; unfold e_join_clock in Hj. eapply upd_task_keeps_runnable; [exact Hj|]. intros; assumption. Qed.

Lemma e_increment_clock_frame : forall e t e', e_increment_clock e t = Some e' -> eng_frame e e'.
Proof.
  intros e t e' Hi; unfold e_increment_clock in Hi.
  destruct (get_task e t) as [tk|]; [|discriminate].
  destruct (increment (t_clock tk) t); [|discriminate].
  eapply upd_task_frame; [exact Hi|]. intros; reflexivity.
Qed.

Lemma e_increment_clock_keeps : forall e t e', e_increment_clock e t = Some e' -> keeps_runnable e e'.
Proof.
  intros e t e' Hi; unfold e_increment_clock in Hi.
  destruct (get_task e t) as [tk|]; [|discriminate].
  destruct (increment (t_clock tk) t); [|discriminate].
  eapply upd_task_keeps_runnable; [exact Hi|]. intros; assumption.
Qed.

Lemma e_update_clock_frame : forall e t c e', e_update_clock e t c = Some e' -> eng_frame e e'.
Proof.
  intros e t c e' Hu; unfold e_update_clock in Hu.
  destruct (e_increment_clock e t) as [e1|] eqn:Hi; [|discriminate].
  eapply eng_frame_trans; [eapply e_increment_clock_frame; eauto|eapply e_join_clock_frame; eauto].
Qed.

Lemma e_update_clock_keeps : forall e t c e', e_update_clock e t c = Some e' -> keeps_runnable e e'.
Proof.
  intros e t c e' Hu; unfold e_update_clock in Hu.
  destruct (e_increment_clock e t) as [e1|] eqn:Hi; [|discriminate].
  eapply keeps_runnable_trans; [eapply e_increment_clock_keeps; eauto|eapply e_join_clock_keeps; eauto].
Qed.

Lemma e_block_frame : forall e t b e', e_block e t b = Some e' -> eng_frame e e'.
Proof.
  intros e t b e' Hb; unfold e_block in Hb.
  destruct (get_task e t) as [tk|] eqn:Hg; [|discriminate].
  destruct (is_finished tk) eqn:Hf; [discriminate|].
  eapply upd_task_frame; [exact Hb|]. intros tk' Hg'; rewrite Hg in Hg'; inversion Hg'; subst.
  rewrite Hf; reflexivity.
Qed.

Lemma e_clock_in_range : forall e t c, e_clock e t = Some c -> (t < length (tasks e))%nat.
Proof.
  intros e t c Hc; unfold e_clock, get_task in Hc.
  destruct (nth_error (tasks e) t) eqn:Hn; [|discriminate].
  apply nth_error_Some; congruence.
Qed.

(* fold_left over an option accumulator that is strict in None *)
Lemma fold_left_none : forall {A B} (F : option A -> B -> option A) l,
  (forall b, F None b = None) -> fold_left F l None = None.
Proof.
  intros A B F l HF; induction l as [|b r IH]; cbn [fold_left]; auto. rewrite HF; exact IH.
Qed.
