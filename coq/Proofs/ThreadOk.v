(* The thread-level library operations (Lang/ThreadOps.v) are trees of blocks that respect the
   strong frame, hence any frame relation F implied by it.  No Admitted / Axiom. *)
From Coq Require Import List NArith Bool Arith Lia.
From SV Require Import Clock.VClock Prim.Objects Prim.Atomic Prim.Tls Engine.Exec Engine.Inv Lang.Code Lang.ThreadOps Proofs.EngineBase.
Import ListNotations.

(* ------------------------------------------------------------------ *)
(* exhale / inhale                                                     *)
(* ------------------------------------------------------------------ *)
Lemma exhale_sframe : forall e m c e', rok e -> exhale e m c = Some e' -> sframe e e'.
Proof. intros e m c e' Hr H; unfold exhale in H. eapply e_update_clock_sframe; [exact Hr|exact H]. Qed.

Lemma inhale_sframe : forall e m c e' c', rok e -> inhale e m c = Some (e', c') -> sframe e e'.
Proof.
  intros e m c e' c' Hr H; unfold inhale in H.
  destruct (e_increment_clock e m) as [e1|] eqn:E1; [|discriminate].
  destruct (e_clock e1 m) as [mc|]; [|discriminate].
  inversion H; subst. eapply e_increment_clock_sframe; [exact Hr|exact E1].
Qed.

Section ThreadOk.
Variable F : exec -> exec -> Prop.
Hypothesis HF : forall e e', sframe e e' -> F e e'.

(* ------------------------------------------------------------------ *)
(* combinators                                                         *)
(* ------------------------------------------------------------------ *)
Lemma atomic_u_okP : forall f k,
  (forall e s e' s', rok e -> f e s = Some (e', s') -> sframe e e') ->
  code_okP F k -> code_okP F (atomic_u f k).
Proof.
  intros f k Hf Hk. unfold atomic_u. apply okP_atomic; [|intros _; exact Hk].
  intros e s e' s' a Hr H. destruct (f e s) as [[e1 s1]|] eqn:E; [|discriminate].
  inversion H; subst. apply HF. eapply Hf; [exact Hr|exact E].
Qed.

Lemma atomic_b_okP : forall f k,
  (forall e s e' s' b, rok e -> f e s = Some (e', s', b) -> sframe e e') ->
  (forall b, code_okP F (k b)) -> code_okP F (atomic_b f k).
Proof.
  intros f k Hf Hk. unfold atomic_b. apply okP_atomic; [|intros a; apply Hk].
  intros e s e' s' a Hr H. destruct (f e s) as [[[e1 s1] b1]|] eqn:E; [|discriminate].
  inversion H; subst. apply HF. eapply Hf; [exact Hr|exact E].
Qed.

Lemma atomic_okP_intro : forall f k,
  (forall e s e' s' a, rok e -> f e s = Some (e', s', a) -> sframe e e') ->
  (forall a, code_okP F (k a)) -> code_okP F (Atomic f k).
Proof.
  intros f k Hf Hk. apply okP_atomic; [|exact Hk].
  intros e s e' s' a Hr H. apply HF. eapply Hf; [exact Hr|exact H].
Qed.

Lemma switch_if_okP : forall b k, code_okP F k -> code_okP F (switch_if b k).
Proof. intros [|] k Hk; unfold switch_if; [apply okP_switch|]; exact Hk. Qed.

(* ------------------------------------------------------------------ *)
(* the library operations                                              *)
(* ------------------------------------------------------------------ *)
Lemma publish_code_okP : code_okP F publish_code.
Proof.
  unfold publish_code. apply atomic_u_okP; [|apply okP_ret].
  intros e s e' s' Hr H.
  destruct (me e) as [t|]; [|discriminate].
  destruct (e_take_waiter e t) as [[e1 [w|]]|] eqn:E1; [| |discriminate].
  + pose proof (e_take_waiter_sframe _ _ _ _ Hr E1) as F1.
    destruct (e_unblock e1 w) as [e2|] eqn:E2; [|discriminate].
    inversion H; subst.
    eapply sframe_trans; [exact F1|].
    eapply e_unblock_sframe; [eapply sframe_rok; exact F1|exact E2].
  + inversion H; subst. eapply e_take_waiter_sframe; [exact Hr|exact E1].
Qed.

(* the destructor loop: its blocks touch the store only *)
Lemma tls_loop_okP : forall n tls dtor k,
  (forall d k', code_okP F k' -> code_okP F (dtor d k')) ->
  code_okP F k -> code_okP F (tls_loop n tls dtor k).
Proof.
  induction n as [|n IH]; intros tls dtor k Hd Hk; cbn [tls_loop]; [apply okP_panic|].
  apply atomic_okP_intro.
  - intros e s e' s' a Hr H.
    destruct (me e) as [m|]; [|discriminate].
    destruct (tls_pop s tls m) as [[s1 [[[key v] d]|]]|]; [| |discriminate];
      inversion H; subst; apply sframe_refl; exact Hr.
  - intros a.
    assert (Hrec : code_okP F (tls_loop n tls dtor k)) by (apply IH; assumption).
    repeat match goal with
           | |- code_okP _ (match ?x with _ => _ end) => destruct x
           end; try exact Hk; try exact Hrec.
    all: apply okP_log;
         repeat match goal with
                | |- code_okP _ (match ?x with _ => _ end) => destruct x
                end; first [exact Hrec | apply Hd; exact Hrec].
Qed.

Lemma thread_epilogue_d_okP : forall tls dtor,
  (forall d k', code_okP F k' -> code_okP F (dtor d k')) ->
  code_okP F (thread_epilogue_d tls dtor).
Proof.
  intros tls dtor Hd. unfold thread_epilogue_d. apply atomic_b_okP.
  - intros e s e' s' b Hr H. destruct (exit_truncates e) as [b0|]; [|discriminate].
    inversion H; subst. apply sframe_refl; exact Hr.
  - intros b. apply switch_if_okP. apply tls_loop_okP; [exact Hd|apply publish_code_okP].
Qed.

Lemma scoped_epilogue_d_okP : forall z tls dtor,
  (forall d k', code_okP F k' -> code_okP F (dtor d k')) ->
  code_okP F (scoped_epilogue_d z tls dtor).
Proof.
  intros z tls dtor Hd. unfold scoped_epilogue_d. apply atomic_b_okP.
  - intros e s e' s' b Hr H. destruct (exit_truncates e) as [b0|]; [|discriminate].
    inversion H; subst. apply sframe_refl; exact Hr.
  - intros b. apply switch_if_okP. apply atomic_u_okP.
    + intros e s e' s' Hr H.
      destruct (scope_get s z) as [[[[|r] m] w]|]; try discriminate.
      destruct (Nat.eqb r 0 && w).
      * destruct (e_unblock e m) as [e1|] eqn:E1; [|discriminate].
        inversion H; subst. eapply e_unblock_sframe; [exact Hr|exact E1].
      * inversion H; subst. apply sframe_refl; exact Hr.
    + apply tls_loop_okP; [exact Hd|apply publish_code_okP].
Qed.

Lemma join_code_okP : forall target k, code_okP F k -> code_okP F (join_code target k).
Proof.
  intros target k Hk. unfold join_code. apply atomic_b_okP.
  - intros e s e' s' b Hr H. destruct (get_task e target) as [tk|]; [|discriminate].
    inversion H; subst. apply sframe_refl; exact Hr.
  - intros fin. apply switch_if_okP. apply atomic_b_okP.
    + intros e s e' s' b Hr H.
      destruct (me e) as [m|]; [|discriminate].
      destruct (e_set_waiter e target m) as [[e1 [|]]|] eqn:E1; [| |discriminate].
      * pose proof (e_set_waiter_sframe _ _ _ _ _ Hr E1) as F1.
        destruct (e_block e1 m false) as [e2|] eqn:E2; [|discriminate].
        inversion H; subst.
        eapply sframe_trans; [exact F1|].
        eapply e_block_sframe; [eapply sframe_rok; exact F1|exact E2].
      * inversion H; subst. eapply e_set_waiter_sframe; [exact Hr|exact E1].
    + intros sb. apply switch_if_okP. apply atomic_u_okP; [|exact Hk].
      intros e s e' s' Hr H.
      destruct (me e) as [m|]; [|discriminate].
      destruct (e_clock e target) as [c|]; [|discriminate].
      destruct (get_task e target) as [tk|]; [|discriminate].
      destruct (is_finished tk); [|discriminate].
      destruct (e_update_clock e m c) as [e1|] eqn:E1; [|discriminate].
      inversion H; subst. eapply e_update_clock_sframe; [exact Hr|exact E1].
Qed.

Lemma yield_code_okP : forall k, code_okP F k -> code_okP F (yield_code k).
Proof.
  intros k Hk. unfold yield_code. apply atomic_u_okP; [|apply okP_switch; exact Hk].
  intros e s e' s' Hr H.
  destruct (me e) as [m|]; [|discriminate].
  destruct (e_waker_wake e m) as [e1|] eqn:E1; [|discriminate].
  inversion H; subst.
  pose proof (e_waker_wake_sframe _ _ _ Hr E1) as F1.
  eapply sframe_trans; [exact F1|].
  apply e_request_yield_sframe. eapply sframe_rok; exact F1.
Qed.

Lemma park_code_okP : forall k, code_okP F k -> code_okP F (park_code k).
Proof.
  intros k Hk. unfold park_code. apply atomic_b_okP; [|intros sw; apply switch_if_okP; exact Hk].
  intros e s e' s' b Hr H.
  destruct (me e) as [m|]; [|discriminate].
  destruct (e_park e m) as [[e1 [|]]|] eqn:E1; [| |discriminate].
  - inversion H; subst.
    pose proof (e_park_sframe _ _ _ _ Hr E1) as F1.
    eapply sframe_trans; [exact F1|].
    apply e_request_yield_sframe. eapply sframe_rok; exact F1.
  - inversion H; subst. eapply e_park_sframe; [exact Hr|exact E1].
Qed.

Lemma unpark_code_okP : forall t k, code_okP F k -> code_okP F (unpark_code t k).
Proof.
  intros t k Hk. unfold unpark_code. apply okP_switch. apply atomic_u_okP; [|exact Hk].
  intros e s e' s' Hr H.
  destruct (e_unpark e t) as [e1|] eqn:E1; [|discriminate].
  inversion H; subst. eapply e_unpark_sframe; [exact Hr|exact E1].
Qed.

Lemma atomic_code_okP : forall a ty o k,
  (forall b r, code_okP F (k b r)) -> code_okP F (atomic_code a ty o k).
Proof.
  intros a ty o k Hk. unfold atomic_code. apply okP_switch. apply atomic_okP_intro.
  - intros e s e' s' ans Hr H.
    destruct (me e) as [m|]; [|discriminate].
    destruct (get_obj s a) as [ob|]; [|discriminate].
    destruct ob as [v c| | | | | | | | | | | | ]; try discriminate.
    destruct (a_apply ty o v) as [[newv okf] ret].
    assert (Htail : forall e1, sframe e e1 ->
      (if a_inhales ty o v
       then match inhale e1 m c with
            | Some (e2, c') => Some (e2, set_obj s a (OAtomic (match newv with Some x => x | None => v end) c'), [b2n okf; ret])
            | None => None
            end
       else Some (e1, set_obj s a (OAtomic (match newv with Some x => x | None => v end) c), [b2n okf; ret]))
      = Some (e', s', ans) -> sframe e e').
    { intros e1 F1 H1.
      destruct (a_inhales ty o v).
      - destruct (inhale e1 m c) as [[e2 c2]|] eqn:E2; [|discriminate].
        inversion H1; subst.
        eapply sframe_trans; [exact F1|].
        eapply inhale_sframe; [eapply sframe_rok; exact F1|exact E2].
      - inversion H1; subst. exact F1. }
    destruct (a_exhales o).
    + cbv zeta in H. destruct (exhale e m c) as [e1|] eqn:E1; [|discriminate].
      apply (Htail e1); [eapply exhale_sframe; [exact Hr|exact E1]|exact H].
    + cbv zeta in H. apply (Htail e); [apply sframe_refl; exact Hr|exact H].
  - intros ans. destruct ans as [|f [|r [|x l]]]; try apply okP_panic. apply Hk.
Qed.

End ThreadOk.

Print Assumptions atomic_code_okP.
