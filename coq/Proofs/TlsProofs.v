(* Thread-local storage (Prim/Tls.v): the slot-map invariant, per-thread instances, lazy initialisation,
   no resurrection after destruction, destructor order / exactly-once, and the bound on destructor rounds.
   No Admitted / Axiom. *)
From Coq Require Import List NArith Bool Arith Lia.
From SV Require Import Clock.VClock Prim.Objects Prim.Tls.
Import ListNotations.

(* ------------------------------------------------------------------ *)
(* stores and association lists                                        *)
(* ------------------------------------------------------------------ *)
Lemma set_obj_length : forall (s : store) i o, length (set_obj s i o) = length s.
Proof.
  induction s as [|x r IH]; intros [|i] o; cbn [set_obj length]; try reflexivity.
  rewrite IH; reflexivity.
Qed.

Lemma gso_eq : forall (s : store) i o o0, get_obj s i = Some o0 -> get_obj (set_obj s i o) i = Some o.
Proof.
  unfold get_obj. induction s as [|x r IH]; intros [|i] o o0 H; cbn in H |- *; try discriminate; try reflexivity.
  eapply IH; exact H.
Qed.

Lemma gso_neq : forall (s : store) i j o, i <> j -> get_obj (set_obj s i o) j = get_obj s j.
Proof.
  unfold get_obj. induction s as [|x r IH]; intros [|i] [|j] o H; cbn; try reflexivity.
  - exfalso; apply H; reflexivity.
  - apply IH. intros E; apply H; subst; reflexivity.
Qed.

Lemma assoc_get_set_eq : forall A (l : list (nat * A)) k v, assoc_get (assoc_set l k v) k = Some v.
Proof.
  induction l as [|[k' v'] r IH]; intros k v; cbn [assoc_set assoc_get].
  - rewrite Nat.eqb_refl; reflexivity.
  - destruct (Nat.eqb k k') eqn:E; cbn [assoc_get].
    + rewrite Nat.eqb_refl; reflexivity.
    + rewrite E. apply IH.
Qed.

Lemma assoc_get_set_neq : forall A (l : list (nat * A)) k k' v, k' <> k -> assoc_get (assoc_set l k v) k' = assoc_get l k'.
Proof.
  induction l as [|[k0 v0] r IH]; intros k k' v Hne; cbn [assoc_set assoc_get].
  - destruct (Nat.eqb k' k) eqn:E; [apply Nat.eqb_eq in E; contradiction|reflexivity].
  - destruct (Nat.eqb k k0) eqn:E; cbn [assoc_get].
    + apply Nat.eqb_eq in E; subst k0.
      destruct (Nat.eqb k' k) eqn:E'; [apply Nat.eqb_eq in E'; contradiction|reflexivity].
    + destruct (Nat.eqb k' k0); [reflexivity|]. apply IH; exact Hne.
Qed.

Lemma assoc_get_none_notin : forall A (l : list (nat * A)) k, assoc_get l k = None -> ~ In k (map fst l).
Proof.
  induction l as [|[k' v'] r IH]; intros k H; cbn in *; [tauto|].
  destruct (Nat.eqb k k') eqn:E; [discriminate|]. apply Nat.eqb_neq in E.
  intros [H1|H1]; [apply E; symmetry; exact H1|]. eapply IH; eauto.
Qed.

Lemma assoc_get_some_in : forall A (l : list (nat * A)) k v, assoc_get l k = Some v -> In k (map fst l).
Proof.
  induction l as [|[k' v'] r IH]; intros k v H; cbn in *; [discriminate|].
  destruct (Nat.eqb k k') eqn:E.
  - apply Nat.eqb_eq in E; left; symmetry; exact E.
  - right; eapply IH; eauto.
Qed.

Lemma assoc_get_app_none : forall A (l : list (nat * A)) k k' v,
  assoc_get (l ++ [(k, v)]) k' = match assoc_get l k' with Some x => Some x | None => if Nat.eqb k' k then Some v else None end.
Proof.
  induction l as [|[k0 v0] r IH]; intros k k' v; cbn [app assoc_get].
  - reflexivity.
  - destruct (Nat.eqb k' k0); [reflexivity|apply IH].
Qed.

Lemma assoc_set_keys_present : forall A (l : list (nat * A)) k v v0,
  assoc_get l k = Some v0 -> map fst (assoc_set l k v) = map fst l.
Proof.
  induction l as [|[k' v'] r IH]; intros k v v0 H; cbn [assoc_set assoc_get map fst] in *; [discriminate|].
  destruct (Nat.eqb k k') eqn:E; cbn [map fst].
  - apply Nat.eqb_eq in E; subst; reflexivity.
  - f_equal. eapply IH; exact H.
Qed.

(* ------------------------------------------------------------------ *)
(* the invariant of one task's StorageMap                              *)
(* ------------------------------------------------------------------ *)
Definition is_live (p : nat * option N) : bool := match snd p with Some _ => true | None => false end.
(* the keys whose slot still holds a value, in insertion order *)
Definition live_keys (ls : list (nat * option N)) : list nat := map fst (filter is_live ls).

Definition tls_ok (t : tls_task) : Prop :=
  NoDup (map fst (tl_locals t)) /\ tl_order t = live_keys (tl_locals t).

Lemma empty_tls_ok : tls_ok empty_tls.
Proof. split; cbn; [constructor|reflexivity]. Qed.

Lemma live_keys_app : forall l1 l2, live_keys (l1 ++ l2) = live_keys l1 ++ live_keys l2.
Proof. intros; unfold live_keys. rewrite filter_app, map_app; reflexivity. Qed.

Lemma live_keys_incl : forall ls k, In k (live_keys ls) -> In k (map fst ls).
Proof.
  unfold live_keys. intros ls k H. apply in_map_iff in H. destruct H as (p & Hp & Hin).
  apply filter_In in Hin. apply in_map_iff. exists p; tauto.
Qed.

Lemma live_keys_cons_some : forall k v r, live_keys ((k, Some v) :: r) = k :: live_keys r.
Proof. reflexivity. Qed.
Lemma live_keys_cons_none : forall k r, live_keys ((k, None) :: r) = live_keys r.
Proof. reflexivity. Qed.

Lemma live_keys_update : forall ls key v v',
  assoc_get ls key = Some (Some v) -> live_keys (assoc_set ls key (Some v')) = live_keys ls.
Proof.
  induction ls as [|[k0 v0] r IH]; intros key v v' H; cbn [assoc_get assoc_set] in *; [discriminate|].
  destruct (Nat.eqb key k0) eqn:E.
  - apply Nat.eqb_eq in E; subst k0. inversion H; subst. rewrite !live_keys_cons_some. reflexivity.
  - destruct v0 as [v0|].
    + rewrite !live_keys_cons_some. f_equal. eapply IH; exact H.
    + rewrite !live_keys_cons_none. eapply IH; exact H.
Qed.

Lemma live_keys_tombstone : forall ls key r,
  NoDup (map fst ls) -> live_keys ls = key :: r -> live_keys (assoc_set ls key None) = r.
Proof.
  induction ls as [|[k0 v0] rest IH]; intros key r Hnd H; [discriminate|].
  cbn [map fst] in Hnd. inversion Hnd as [|? ? Hnotin Hnd']; subst.
  cbn [assoc_set]. destruct (Nat.eqb key k0) eqn:E.
  - apply Nat.eqb_eq in E; subst k0. rewrite live_keys_cons_none.
    destruct v0 as [v0|].
    + rewrite live_keys_cons_some in H. inversion H; reflexivity.
    + rewrite live_keys_cons_none in H.
      exfalso. apply Hnotin. apply (live_keys_incl rest key). rewrite H. left; reflexivity.
  - apply Nat.eqb_neq in E.
    destruct v0 as [v0|].
    + rewrite live_keys_cons_some in H. inversion H; subst. exfalso; apply E; reflexivity.
    + rewrite live_keys_cons_none in H |- *. apply IH; assumption.
Qed.

Lemma live_key_lookup : forall ls key, NoDup (map fst ls) -> In key (live_keys ls) -> exists v, assoc_get ls key = Some (Some v).
Proof.
  induction ls as [|[k0 v0] rest IH]; intros key Hnd H; [destruct H|].
  cbn [map fst] in Hnd. inversion Hnd as [|? ? Hnotin Hnd']; subst.
  cbn [assoc_get]. destruct (Nat.eqb key k0) eqn:E.
  - apply Nat.eqb_eq in E; subst k0.
    destruct v0 as [v0|]; [eexists; reflexivity|].
    rewrite live_keys_cons_none in H.
    exfalso. apply Hnotin. apply live_keys_incl. exact H.
  - apply Nat.eqb_neq in E. apply IH; [exact Hnd'|].
    destruct v0 as [v0|].
    + rewrite live_keys_cons_some in H.
      destruct H as [H|H]; [exfalso; apply E; symmetry; exact H|exact H].
    + rewrite live_keys_cons_none in H. exact H.
Qed.

Lemma NoDup_snoc : forall (l : list nat) k, NoDup l -> ~ In k l -> NoDup (l ++ [k]).
Proof.
  induction l as [|x r IH]; intros k Hnd Hk; cbn [app].
  - constructor; [intros []|constructor].
  - inversion Hnd as [|? ? Hx Hr]; subst. constructor.
    + intros Hin. apply in_app_or in Hin. destruct Hin as [Hin|[Hin|[]]]; [contradiction|].
      apply Hk; left; symmetry; exact Hin.
    + apply IH; [exact Hr|]. intros Hin; apply Hk; right; exact Hin.
Qed.

Lemma NoDup_prefix : forall (p r : list nat), NoDup (p ++ r) -> NoDup p.
Proof.
  induction p as [|x p IH]; intros r H; [constructor|].
  cbn [app] in H. inversion H as [|? ? Hx Hr]; subst. constructor.
  - intros Hin. apply Hx. apply in_or_app; left; exact Hin.
  - eapply IH; exact Hr.
Qed.

(* the three outcomes of try_with and the outcome of pop_local, on one task's map *)
Lemma tls_ok_update : forall t key v v',
  tls_ok t -> tls_lookup t key = Some (Some v) ->
  tls_ok (mkTls (assoc_set (tl_locals t) key (Some v')) (tl_order t)).
Proof.
  intros t key v v' [Hnd Ho] Hl. unfold tls_lookup in Hl. split; cbn [tl_locals tl_order].
  - rewrite (assoc_set_keys_present _ _ _ _ _ Hl). exact Hnd.
  - rewrite (live_keys_update _ _ _ _ Hl). exact Ho.
Qed.

Lemma tls_ok_init : forall t key v,
  tls_ok t -> tls_lookup t key = None ->
  tls_ok (mkTls (tl_locals t ++ [(key, Some v)]) (tl_order t ++ [key])).
Proof.
  intros t key v [Hnd Ho] Hl. unfold tls_lookup in Hl. split; cbn [tl_locals tl_order].
  - rewrite map_app. cbn [map fst]. apply NoDup_snoc; [exact Hnd|]. apply assoc_get_none_notin; exact Hl.
  - rewrite live_keys_app, Ho. reflexivity.
Qed.

Lemma tls_ok_pop : forall t key r,
  tls_ok t -> tl_order t = key :: r ->
  tls_ok (mkTls (assoc_set (tl_locals t) key None) r).
Proof.
  intros t key r [Hnd Ho] Hk. rewrite Hk in Ho. split; cbn [tl_locals tl_order].
  - destruct (live_key_lookup (tl_locals t) key Hnd) as [v Hv]. { rewrite <- Ho; left; reflexivity. }
    rewrite (assoc_set_keys_present _ _ _ _ _ Hv). exact Hnd.
  - symmetry. apply live_keys_tombstone; [exact Hnd|symmetry; exact Ho].
Qed.

(* ------------------------------------------------------------------ *)
(* the table                                                           *)
(* ------------------------------------------------------------------ *)
Lemma tls_of_set_eq : forall l tid t, tls_of (assoc_set l tid t) tid = t.
Proof. intros; unfold tls_of. rewrite assoc_get_set_eq; reflexivity. Qed.

Lemma tls_of_set_neq : forall l tid tid' t, tid' <> tid -> tls_of (assoc_set l tid t) tid' = tls_of l tid'.
Proof. intros; unfold tls_of. rewrite assoc_get_set_neq by assumption; reflexivity. Qed.

Lemma tls_table_set : forall st tls l l', tls_table st tls = Some l -> tls_table (set_obj st tls (OTls l')) tls = Some l'.
Proof.
  intros st tls l l' H. unfold tls_table in *.
  destruct (get_obj st tls) as [o|] eqn:E; [|discriminate].
  rewrite (gso_eq _ _ _ _ E). reflexivity.
Qed.

(* the task's map, whatever the store looks like *)
Definition task_of (st : store) (tls tid : nat) : tls_task :=
  match tls_table st tls with Some l => tls_of l tid | None => empty_tls end.

(* what one call of try_with does, as a relation *)
Inductive with_spec (st : store) (tls tid key : nat) (add : N) : store -> tls_status -> N -> Prop :=
| WS_ok l init d v :
    tls_table st tls = Some l -> get_obj st key = Some (OKey init d) ->
    tls_lookup (tls_of l tid) key = Some (Some v) ->
    with_spec st tls tid key add
      (set_obj st tls (OTls (assoc_set l tid (mkTls (assoc_set (tl_locals (tls_of l tid)) key (Some ((v + add) mod W64)%N))
                                                     (tl_order (tls_of l tid))))))
      TlsOk v
| WS_destroyed l init d :
    tls_table st tls = Some l -> get_obj st key = Some (OKey init d) ->
    tls_lookup (tls_of l tid) key = Some None ->
    with_spec st tls tid key add st TlsDestroyed 0%N
| WS_init l init d :
    tls_table st tls = Some l -> get_obj st key = Some (OKey init d) ->
    tls_lookup (tls_of l tid) key = None ->
    with_spec st tls tid key add
      (set_obj st tls (OTls (assoc_set l tid (mkTls (tl_locals (tls_of l tid) ++ [(key, Some ((init + add) mod W64)%N)])
                                                     (tl_order (tls_of l tid) ++ [key])))))
      TlsInit init.

Lemma tls_with_spec : forall st tls tid key add st' status old,
  tls_with st tls tid key add = Some (st', status, old) -> with_spec st tls tid key add st' status old.
Proof.
  intros st tls tid key add st' status old H. unfold tls_with in H.
  destruct (tls_table st tls) as [l|] eqn:Et; [|discriminate].
  destruct (get_obj st key) as [ob|] eqn:Ek; [|discriminate].
  destruct ob; try discriminate.
  destruct (tls_lookup (tls_of l tid) key) as [[v|]|] eqn:El; inversion H; subst.
  - eapply WS_ok; eauto.
  - eapply WS_destroyed; eauto.
  - eapply WS_init; eauto.
Qed.

Inductive pop_spec (st : store) (tls tid : nat) : store -> option (nat * N * option nat) -> Prop :=
| PS_empty l : tls_table st tls = Some l -> tl_order (tls_of l tid) = [] -> pop_spec st tls tid st None
| PS_pop l key r v init d :
    tls_table st tls = Some l -> tl_order (tls_of l tid) = key :: r ->
    tls_lookup (tls_of l tid) key = Some (Some v) -> get_obj st key = Some (OKey init d) ->
    pop_spec st tls tid
      (set_obj st tls (OTls (assoc_set l tid (mkTls (assoc_set (tl_locals (tls_of l tid)) key None) r))))
      (Some (key, v, d)).

Lemma tls_pop_spec : forall st tls tid st' res,
  tls_pop st tls tid = Some (st', res) -> pop_spec st tls tid st' res.
Proof.
  intros st tls tid st' res H. unfold tls_pop in H.
  destruct (tls_table st tls) as [l|] eqn:Et; [|discriminate].
  destruct (tl_order (tls_of l tid)) as [|key r] eqn:Eo.
  - inversion H; subst. eapply PS_empty; eauto.
  - destruct (tls_lookup (tls_of l tid) key) as [[v|]|] eqn:El; try discriminate.
    destruct (get_obj st key) as [ob|] eqn:Ek; [|discriminate].
    destruct ob; try discriminate.
    inversion H; subst. eapply PS_pop; eauto.
Qed.

(* ------------------------------------------------------------------ *)
(* A1: the invariant is preserved, for every task's entry              *)
(* ------------------------------------------------------------------ *)
Definition table_ok (st : store) (tls : nat) : Prop :=
  exists l, tls_table st tls = Some l /\ forall tid, tls_ok (tls_of l tid).

Lemma table_ok_empty : forall st tls, tls_table st tls = Some [] -> table_ok st tls.
Proof. intros st tls H. exists []; split; [exact H|]. intros tid. apply empty_tls_ok. Qed.

Lemma table_ok_set : forall st tls l tid t,
  tls_table st tls = Some l -> (forall tid', tls_ok (tls_of l tid')) -> tls_ok t ->
  table_ok (set_obj st tls (OTls (assoc_set l tid t))) tls.
Proof.
  intros st tls l tid t Ht Hall Hok. exists (assoc_set l tid t). split; [eapply tls_table_set; exact Ht|].
  intros tid'. destruct (Nat.eq_dec tid' tid) as [->|Hne].
  - rewrite tls_of_set_eq; exact Hok.
  - rewrite tls_of_set_neq by exact Hne. apply Hall.
Qed.

Theorem tls_with_preserves : forall st tls tid key add st' status old l,
  tls_table st tls = Some l -> (forall t, tls_ok (tls_of l t)) ->
  tls_with st tls tid key add = Some (st', status, old) ->
  exists l', tls_table st' tls = Some l' /\ forall t, tls_ok (tls_of l' t).
Proof.
  intros st tls tid key add st' status old l Ht Hall H.
  apply tls_with_spec in H.
  destruct H as [l0 init d v Ht0 Hk Hl | l0 init d Ht0 Hk Hl | l0 init d Ht0 Hk Hl];
    rewrite Ht in Ht0; inversion Ht0; subst l0.
  - apply table_ok_set; auto. eapply tls_ok_update; eauto.
  - exists l; auto.
  - apply table_ok_set; auto. apply tls_ok_init; auto.
Qed.

Theorem tls_pop_preserves : forall st tls tid st' res l,
  tls_table st tls = Some l -> (forall t, tls_ok (tls_of l t)) ->
  tls_pop st tls tid = Some (st', res) ->
  exists l', tls_table st' tls = Some l' /\ forall t, tls_ok (tls_of l' t).
Proof.
  intros st tls tid st' res l Ht Hall H.
  apply tls_pop_spec in H.
  destruct H as [l0 Ht0 Ho | l0 key r v init d Ht0 Ho Hl Hk]; rewrite Ht in Ht0; inversion Ht0; subst l0.
  - exists l; auto.
  - apply table_ok_set; auto. apply tls_ok_pop; auto.
Qed.

(* ------------------------------------------------------------------ *)
(* A2: per-thread instances, and the frame on the store                *)
(* ------------------------------------------------------------------ *)
Theorem tls_with_other_task : forall st tls tid key add st' status old tid',
  tls_with st tls tid key add = Some (st', status, old) -> tid' <> tid ->
  task_of st' tls tid' = task_of st tls tid'.
Proof.
  intros st tls tid key add st' status old tid' H Hne. unfold task_of.
  apply tls_with_spec in H.
  destruct H as [l init d v Ht Hk Hl | l init d Ht Hk Hl | l init d Ht Hk Hl]; try reflexivity;
    rewrite (tls_table_set _ _ _ _ Ht), Ht; apply tls_of_set_neq; exact Hne.
Qed.

Theorem tls_pop_other_task : forall st tls tid st' res tid',
  tls_pop st tls tid = Some (st', res) -> tid' <> tid ->
  task_of st' tls tid' = task_of st tls tid'.
Proof.
  intros st tls tid st' res tid' H Hne. unfold task_of.
  apply tls_pop_spec in H.
  destruct H as [l Ht Ho | l key r v init d Ht Ho Hl Hk]; try reflexivity.
  rewrite (tls_table_set _ _ _ _ Ht), Ht; apply tls_of_set_neq; exact Hne.
Qed.

Theorem tls_with_frame : forall st tls tid key add st' status old i,
  tls_with st tls tid key add = Some (st', status, old) -> i <> tls ->
  get_obj st' i = get_obj st i.
Proof.
  intros st tls tid key add st' status old i H Hne.
  apply tls_with_spec in H.
  destruct H; try reflexivity; apply gso_neq; intros E; apply Hne; symmetry; exact E.
Qed.

Theorem tls_pop_frame : forall st tls tid st' res i,
  tls_pop st tls tid = Some (st', res) -> i <> tls -> get_obj st' i = get_obj st i.
Proof.
  intros st tls tid st' res i H Hne.
  apply tls_pop_spec in H.
  destruct H; try reflexivity; apply gso_neq; intros E; apply Hne; symmetry; exact E.
Qed.

Lemma tls_with_length : forall st tls tid key add st' status old,
  tls_with st tls tid key add = Some (st', status, old) -> length st' = length st.
Proof. intros until old. intros H. apply tls_with_spec in H. destruct H; try reflexivity; apply set_obj_length. Qed.

Lemma tls_pop_length : forall st tls tid st' res,
  tls_pop st tls tid = Some (st', res) -> length st' = length st.
Proof. intros until res. intros H. apply tls_pop_spec in H. destruct H; try reflexivity; apply set_obj_length. Qed.

(* the table stays a table *)
Lemma tls_with_table : forall st tls tid key add st' status old,
  tls_with st tls tid key add = Some (st', status, old) -> exists l l', tls_table st tls = Some l /\ tls_table st' tls = Some l'.
Proof.
  intros until old. intros H. apply tls_with_spec in H.
  destruct H as [l init d v Ht Hk Hl | l init d Ht Hk Hl | l init d Ht Hk Hl]; exists l; eexists; (split; [exact Ht|]);
    first [exact Ht | eapply tls_table_set; exact Ht].
Qed.

Lemma tls_pop_table : forall st tls tid st' res,
  tls_pop st tls tid = Some (st', res) -> exists l l', tls_table st tls = Some l /\ tls_table st' tls = Some l'.
Proof.
  intros until res. intros H. apply tls_pop_spec in H.
  destruct H as [l Ht Ho | l key r v init d Ht Ho Hl Hk]; exists l; eexists; (split; [exact Ht|]);
    first [exact Ht | eapply tls_table_set; exact Ht].
Qed.

(* ------------------------------------------------------------------ *)
(* A3: lazy initialisation                                             *)
(* ------------------------------------------------------------------ *)
Theorem tls_with_lazy_init : forall st tls tid key add l init d,
  tls_table st tls = Some l -> get_obj st key = Some (OKey init d) ->
  tls_lookup (tls_of l tid) key = None ->
  exists st', tls_with st tls tid key add = Some (st', TlsInit, init)
    /\ tls_lookup (task_of st' tls tid) key = Some (Some ((init + add) mod W64)%N)
    /\ tl_order (task_of st' tls tid) = tl_order (tls_of l tid) ++ [key]
    /\ map fst (tl_locals (task_of st' tls tid)) = map fst (tl_locals (tls_of l tid)) ++ [key].
Proof.
  intros st tls tid key add l init d Ht Hk Hl.
  unfold tls_with. rewrite Ht, Hk, Hl. eexists. split; [reflexivity|].
  unfold task_of. rewrite (tls_table_set _ _ _ _ Ht), tls_of_set_eq. cbn [tl_locals tl_order].
  split; [|split; [reflexivity|rewrite map_app; reflexivity]].
  unfold tls_lookup in *; cbn [tl_locals]. rewrite assoc_get_app_none, Hl, Nat.eqb_refl. reflexivity.
Qed.

Theorem tls_with_live : forall st tls tid key add l init d v,
  tls_table st tls = Some l -> get_obj st key = Some (OKey init d) ->
  tls_lookup (tls_of l tid) key = Some (Some v) ->
  exists st', tls_with st tls tid key add = Some (st', TlsOk, v)
    /\ tls_lookup (task_of st' tls tid) key = Some (Some ((v + add) mod W64)%N)
    /\ tl_order (task_of st' tls tid) = tl_order (tls_of l tid)
    /\ map fst (tl_locals (task_of st' tls tid)) = map fst (tl_locals (tls_of l tid)).
Proof.
  intros st tls tid key add l init d v Ht Hk Hl.
  unfold tls_with. rewrite Ht, Hk, Hl. eexists. split; [reflexivity|].
  unfold task_of. rewrite (tls_table_set _ _ _ _ Ht), tls_of_set_eq. cbn [tl_locals tl_order].
  split; [|split; [reflexivity|]].
  - unfold tls_lookup; cbn [tl_locals]. apply assoc_get_set_eq.
  - eapply assoc_set_keys_present. exact Hl.
Qed.

(* another key of the same task is not affected by try_with *)
Lemma tls_with_other_key : forall st tls tid key add st' status old key',
  tls_with st tls tid key add = Some (st', status, old) -> key' <> key ->
  tls_lookup (task_of st' tls tid) key' = tls_lookup (task_of st tls tid) key'.
Proof.
  intros until key'. intros H Hne. apply tls_with_spec in H. unfold task_of.
  destruct H as [l init d v Ht Hk Hl | l init d Ht Hk Hl | l init d Ht Hk Hl]; try reflexivity;
    rewrite (tls_table_set _ _ _ _ Ht), Ht, tls_of_set_eq; unfold tls_lookup; cbn [tl_locals].
  - apply assoc_get_set_neq; exact Hne.
  - rewrite assoc_get_app_none. destruct (assoc_get (tl_locals (tls_of l tid)) key'); [reflexivity|].
    destruct (Nat.eqb key' key) eqn:E; [apply Nat.eqb_eq in E; contradiction|reflexivity].
Qed.

(* ------------------------------------------------------------------ *)
(* A4: no resurrection                                                 *)
(* ------------------------------------------------------------------ *)
Theorem tls_with_destroyed : forall st tls tid key add l init d,
  tls_table st tls = Some l -> get_obj st key = Some (OKey init d) ->
  tls_lookup (tls_of l tid) key = Some None ->
  tls_with st tls tid key add = Some (st, TlsDestroyed, 0%N).
Proof. intros st tls tid key add l init d Ht Hk Hl. unfold tls_with. rewrite Ht, Hk, Hl. reflexivity. Qed.

(* histories of operations on the table; an operation that returns the error value is skipped *)
Inductive tls_op := TOpWith (tid key : nat) (add : N) | TOpPop (tid : nat).

Definition tls_apply (tls : nat) (st : store) (o : tls_op) : store :=
  match o with
  | TOpWith tid key add => match tls_with st tls tid key add with Some (st', _, _) => st' | None => st end
  | TOpPop tid => match tls_pop st tls tid with Some (st', _) => st' | None => st end
  end.
Definition tls_run (tls : nat) (st : store) (ops : list tls_op) : store := fold_left (tls_apply tls) ops st.

Definition tombstone (st : store) (tls tid key : nat) : Prop := tls_lookup (task_of st tls tid) key = Some None.

Lemma tombstone_step : forall tls st o tid key, tombstone st tls tid key -> tombstone (tls_apply tls st o) tls tid key.
Proof.
  intros tls st o tid key H. unfold tombstone in *. destruct o as [tid0 key0 add|tid0]; cbn [tls_apply].
  - destruct (tls_with st tls tid0 key0 add) as [[[st' status] old]|] eqn:E; [|exact H].
    destruct (Nat.eq_dec tid tid0) as [->|Hne].
    + destruct (Nat.eq_dec key key0) as [->|Hk].
      * (* the same slot: the call answers TlsDestroyed and changes nothing *)
        pose proof (tls_with_spec _ _ _ _ _ _ _ _ E) as S. unfold task_of in H.
        destruct S as [l init d v Ht Hk Hl | l init d Ht Hk Hl | l init d Ht Hk Hl]; rewrite Ht in H;
          first [congruence | (unfold task_of; rewrite Ht; exact H)].
      * rewrite (tls_with_other_key _ _ _ _ _ _ _ _ _ E Hk). exact H.
    + rewrite (tls_with_other_task _ _ _ _ _ _ _ _ _ E Hne). exact H.
  - destruct (tls_pop st tls tid0) as [[st' res]|] eqn:E; [|exact H].
    destruct (Nat.eq_dec tid tid0) as [->|Hne].
    + pose proof (tls_pop_spec _ _ _ _ _ E) as S. unfold task_of in *.
      destruct S as [l Ht Ho | l key0 r v init d Ht Ho Hl Hk]; [exact H|].
      rewrite Ht in H. rewrite (tls_table_set _ _ _ _ Ht), tls_of_set_eq.
      unfold tls_lookup in *; cbn [tl_locals].
      destruct (Nat.eq_dec key key0) as [->|Hne]; [rewrite assoc_get_set_eq; reflexivity|].
      rewrite assoc_get_set_neq by exact Hne. exact H.
    + rewrite (tls_pop_other_task _ _ _ _ _ _ E Hne). exact H.
Qed.

Theorem tombstone_forever : forall tls ops st tid key,
  tombstone st tls tid key -> tombstone (tls_run tls st ops) tls tid key.
Proof.
  intros tls ops. induction ops as [|o r IH]; intros st tid key H; cbn [tls_run fold_left]; [exact H|].
  apply IH. apply tombstone_step; exact H.
Qed.

(* after destruction, every later access - whatever happened in between - is reported as an error and leaves the store alone *)
Theorem no_resurrection : forall tls ops st tid key add st' status old,
  tombstone st tls tid key ->
  tls_with (tls_run tls st ops) tls tid key add = Some (st', status, old) ->
  status = TlsDestroyed /\ old = 0%N /\ st' = tls_run tls st ops.
Proof.
  intros tls ops st tid key add st' status old H E.
  pose proof (tombstone_forever tls ops st tid key H) as T. unfold tombstone, task_of in T.
  apply tls_with_spec in E.
  destruct E as [l init d v Ht Hk Hl | l init d Ht Hk Hl | l init d Ht Hk Hl]; rewrite Ht in T; try congruence.
  auto.
Qed.

(* a popped slot is a tombstone *)
Lemma pop_tombstone : forall st tls tid st' key v d,
  tls_pop st tls tid = Some (st', Some (key, v, d)) -> tombstone st' tls tid key.
Proof.
  intros st tls tid st' key v d H. apply tls_pop_spec in H. unfold tombstone, task_of.
  inversion H as [|l key0 r v0 init d0 Ht Ho Hl Hk]; subst.
  rewrite (tls_table_set _ _ _ _ Ht), tls_of_set_eq. unfold tls_lookup; cbn [tl_locals].
  apply assoc_get_set_eq.
Qed.

(* ------------------------------------------------------------------ *)
(* A5: destructor order, exactly once                                  *)
(* ------------------------------------------------------------------ *)
(* what task `tid` observes of one operation: the key it initialises, the key whose value it takes out *)
Definition op_inits (tls : nat) (st : store) (o : tls_op) (tid : nat) : list nat :=
  match o with
  | TOpWith t key add =>
    if Nat.eqb t tid then match tls_with st tls t key add with Some (_, TlsInit, _) => [key] | _ => [] end else []
  | TOpPop _ => []
  end.
Definition op_pops (tls : nat) (st : store) (o : tls_op) (tid : nat) : list nat :=
  match o with
  | TOpPop t =>
    if Nat.eqb t tid then match tls_pop st tls t with Some (_, Some (key, _, _)) => [key] | _ => [] end else []
  | TOpWith _ _ _ => []
  end.
Fixpoint inits_of (tls : nat) (st : store) (ops : list tls_op) (tid : nat) : list nat :=
  match ops with
  | [] => []
  | o :: r => op_inits tls st o tid ++ inits_of tls (tls_apply tls st o) r tid
  end.
Fixpoint pops_of (tls : nat) (st : store) (ops : list tls_op) (tid : nat) : list nat :=
  match ops with
  | [] => []
  | o :: r => op_pops tls st o tid ++ pops_of tls (tls_apply tls st o) r tid
  end.

(* one step: slots are only ever appended, by an initialisation; the order queue gains the initialised key at the
   back and loses the popped key at the front *)
Lemma step_history : forall tls st o tid,
  map fst (tl_locals (task_of (tls_apply tls st o) tls tid)) = map fst (tl_locals (task_of st tls tid)) ++ op_inits tls st o tid
  /\ tl_order (task_of st tls tid) ++ op_inits tls st o tid = op_pops tls st o tid ++ tl_order (task_of (tls_apply tls st o) tls tid).
Proof.
  intros tls st o tid. destruct o as [t key add|t]; cbn [tls_apply op_inits op_pops].
  - destruct (tls_with st tls t key add) as [[[st' status] old]|] eqn:E.
    2:{ destruct (Nat.eqb t tid); rewrite !app_nil_r; split; reflexivity. }
    destruct (Nat.eqb t tid) eqn:Et.
    + apply Nat.eqb_eq in Et; subst t. cbn [app].
      pose proof (tls_with_spec _ _ _ _ _ _ _ _ E) as S. unfold task_of.
      destruct S as [l init d v Ht Hk Hl | l init d Ht Hk Hl | l init d Ht Hk Hl].
      * rewrite (tls_table_set _ _ _ _ Ht), Ht, tls_of_set_eq. cbn [tl_locals tl_order]. rewrite !app_nil_r.
        split; [eapply assoc_set_keys_present; exact Hl|reflexivity].
      * rewrite !app_nil_r. split; reflexivity.
      * rewrite (tls_table_set _ _ _ _ Ht), Ht, tls_of_set_eq. cbn [tl_locals tl_order].
        split; [rewrite map_app; reflexivity|reflexivity].
    + apply Nat.eqb_neq in Et.
      rewrite (tls_with_other_task _ _ _ _ _ _ _ _ tid E) by (intros X; apply Et; symmetry; exact X).
      rewrite !app_nil_r. split; reflexivity.
  - destruct (tls_pop st tls t) as [[st' res]|] eqn:E.
    2:{ destruct (Nat.eqb t tid); rewrite !app_nil_r; split; reflexivity. }
    destruct (Nat.eqb t tid) eqn:Et.
    + apply Nat.eqb_eq in Et; subst t.
      pose proof (tls_pop_spec _ _ _ _ _ E) as S. unfold task_of.
      destruct S as [l Ht Ho | l key r v init d Ht Ho Hl Hk].
      * rewrite !app_nil_r. split; reflexivity.
      * rewrite (tls_table_set _ _ _ _ Ht), Ht, tls_of_set_eq. cbn [tl_locals tl_order]. rewrite !app_nil_r.
        split; [eapply assoc_set_keys_present; exact Hl|rewrite Ho; reflexivity].
    + apply Nat.eqb_neq in Et.
      rewrite (tls_pop_other_task _ _ _ _ _ tid E) by (intros X; apply Et; symmetry; exact X).
      rewrite !app_nil_r. split; reflexivity.
Qed.

Lemma run_history : forall tls ops st tid,
  map fst (tl_locals (task_of (tls_run tls st ops) tls tid)) = map fst (tl_locals (task_of st tls tid)) ++ inits_of tls st ops tid
  /\ tl_order (task_of st tls tid) ++ inits_of tls st ops tid = pops_of tls st ops tid ++ tl_order (task_of (tls_run tls st ops) tls tid).
Proof.
  intros tls ops. induction ops as [|o r IH]; intros st tid; cbn [tls_run fold_left inits_of pops_of].
  - rewrite !app_nil_r. split; reflexivity.
  - destruct (step_history tls st o tid) as [S1 S2].
    destruct (IH (tls_apply tls st o) tid) as [I1 I2]. fold (tls_run tls (tls_apply tls st o) r) in *.
    split.
    + rewrite I1, S1, app_assoc. reflexivity.
    + rewrite app_assoc, S2, <- !app_assoc, I2. reflexivity.
Qed.

Lemma table_ok_step : forall tls st o, table_ok st tls -> table_ok (tls_apply tls st o) tls.
Proof.
  intros tls st o (l & Ht & Hall). destruct o as [t key add|t]; cbn [tls_apply].
  - destruct (tls_with st tls t key add) as [[[st' status] old]|] eqn:E; [|exists l; auto].
    eapply tls_with_preserves; eauto.
  - destruct (tls_pop st tls t) as [[st' res]|] eqn:E; [|exists l; auto].
    eapply tls_pop_preserves; eauto.
Qed.

Lemma table_ok_run : forall tls ops st, table_ok st tls -> table_ok (tls_run tls st ops) tls.
Proof.
  intros tls ops. induction ops as [|o r IH]; intros st H; cbn [tls_run fold_left]; [exact H|].
  apply IH. apply table_ok_step; exact H.
Qed.

Lemma table_ok_task : forall st tls tid, table_ok st tls -> tls_ok (task_of st tls tid).
Proof. intros st tls tid (l & Ht & Hall). unfold task_of. rewrite Ht. apply Hall. Qed.

Definition prefix {A} (p l : list A) : Prop := exists r, l = p ++ r.

(* From the empty table: for every task, the keys taken out by its pops are a prefix of the keys it initialised, in
   initialisation order; the initialised keys are pairwise distinct (hence so are the popped ones: no value is
   destructed twice); what is left to destruct is exactly the rest; and once nothing is left the two sequences are
   equal: every initialised value was destructed exactly once, in initialisation order. *)
Theorem destructor_order : forall tls st ops tid,
  tls_table st tls = Some [] ->
  inits_of tls st ops tid = pops_of tls st ops tid ++ tl_order (task_of (tls_run tls st ops) tls tid)
  /\ prefix (pops_of tls st ops tid) (inits_of tls st ops tid)
  /\ NoDup (inits_of tls st ops tid)
  /\ NoDup (pops_of tls st ops tid)
  /\ (tl_order (task_of (tls_run tls st ops) tls tid) = [] -> pops_of tls st ops tid = inits_of tls st ops tid).
Proof.
  intros tls st ops tid Ht.
  destruct (run_history tls ops st tid) as [H1 H2].
  assert (E0 : task_of st tls tid = empty_tls) by (unfold task_of; rewrite Ht; reflexivity).
  rewrite E0 in H1, H2. cbn [empty_tls tl_locals tl_order map app] in H1, H2.
  assert (Hnd : NoDup (inits_of tls st ops tid)).
  { rewrite <- H1. apply (table_ok_task _ _ tid (table_ok_run tls ops st (table_ok_empty _ _ Ht))). }
  split; [exact H2|]. split; [eexists; exact H2|]. split; [exact Hnd|]. split.
  - rewrite H2 in Hnd. eapply NoDup_prefix; exact Hnd.
  - intros Hempty. rewrite Hempty, app_nil_r in H2. symmetry; exact H2.
Qed.

(* ------------------------------------------------------------------ *)
(* A6: the number of destructor rounds                                 *)
(* ------------------------------------------------------------------ *)
Definition is_key_obj (o : obj) : bool := match o with OKey _ _ => true | _ => false end.
Definition key_ids (st : store) : list nat :=
  filter (fun i => match get_obj st i with Some o => is_key_obj o | None => false end) (seq 0 (length st)).
Definition num_keys (st : store) : nat := length (filter is_key_obj st).

Lemma key_ids_length : forall st, length (key_ids st) = num_keys st.
Proof.
  unfold key_ids, num_keys, get_obj. intros st.
  assert (G : forall (l : store) off, (forall i, nth_error st (off + i) = nth_error l i) ->
            length (filter (fun i => match nth_error st i with Some o => is_key_obj o | None => false end) (seq off (length l)))
            = length (filter is_key_obj l)).
  { induction l as [|x r IH]; intros off H; [reflexivity|].
    cbn [length seq filter]. pose proof (H 0) as H0. rewrite Nat.add_0_r in H0. cbn in H0. rewrite H0.
    assert (IH' : length (filter (fun i => match nth_error st i with Some o => is_key_obj o | None => false end) (seq (S off) (length r)))
                  = length (filter is_key_obj r)).
    { apply IH. intros i. specialize (H (S i)). rewrite Nat.add_succ_r in H. exact H. }
    destruct (is_key_obj x); cbn [length]; rewrite IH'; reflexivity. }
  apply (G st 0). intros i; reflexivity.
Qed.

Lemma key_ids_in : forall st i init d, get_obj st i = Some (OKey init d) -> In i (key_ids st).
Proof.
  intros st i init d H. unfold key_ids. apply filter_In. split.
  - apply in_seq. split; [lia|]. cbn. apply nth_error_Some. unfold get_obj in H. congruence.
  - rewrite H; reflexivity.
Qed.

(* the key objects are never touched *)
Lemma apply_keys : forall tls st o i init d,
  tls_table st tls <> None ->
  (get_obj (tls_apply tls st o) i = Some (OKey init d) <-> get_obj st i = Some (OKey init d))
  /\ tls_table (tls_apply tls st o) tls <> None.
Proof.
  intros tls st o i init d Htab.
  assert (Hi : forall st', (forall j, j <> tls -> get_obj st' j = get_obj st j) ->
            (exists l l', tls_table st tls = Some l /\ tls_table st' tls = Some l') ->
            (get_obj st' i = Some (OKey init d) <-> get_obj st i = Some (OKey init d)) /\ tls_table st' tls <> None).
  { intros st' Hfr (l & l' & Hl & Hl'). split; [|congruence].
    destruct (Nat.eq_dec i tls) as [->|Hne]; [|rewrite (Hfr _ Hne); tauto].
    unfold tls_table in Hl, Hl'.
    destruct (get_obj st tls) as [[]|]; try discriminate. destruct (get_obj st' tls) as [[]|]; try discriminate.
    split; discriminate. }
  destruct o as [t key add|t]; cbn [tls_apply].
  - destruct (tls_with st tls t key add) as [[[st' status] old]|] eqn:E; [|tauto].
    apply Hi; [intros j Hj; eapply tls_with_frame; eauto|eapply tls_with_table; eauto].
  - destruct (tls_pop st tls t) as [[st' res]|] eqn:E; [|tauto].
    apply Hi; [intros j Hj; eapply tls_pop_frame; eauto|eapply tls_pop_table; eauto].
Qed.

Lemma inits_are_keys : forall tls ops st tid k,
  tls_table st tls <> None -> In k (inits_of tls st ops tid) -> In k (key_ids st).
Proof.
  intros tls ops. induction ops as [|o r IH]; intros st tid k Htab H; cbn [inits_of] in H; [destruct H|].
  apply in_app_or in H. destruct H as [H|H].
  - destruct o as [t key add|t]; cbn [op_inits] in H; [|destruct H].
    destruct (Nat.eqb t tid); [|destruct H].
    destruct (tls_with st tls t key add) as [[[st' status] old]|] eqn:E; [|destruct H].
    destruct status; try (destruct H; fail). destruct H as [H|[]]. subst k.
    apply tls_with_spec in E. inversion E; subst. eapply key_ids_in; eauto.
  - apply IH in H; [|apply (apply_keys tls st o 0 0%N None Htab)].
    unfold key_ids in *. apply filter_In in H. destruct H as [Hs Hk].
    destruct (get_obj (tls_apply tls st o) k) as [ob|] eqn:Eg; [|discriminate].
    destruct ob; try discriminate.
    apply (apply_keys tls st o k _ _ Htab) in Eg. eapply key_ids_in; eauto.
Qed.

(* In any history from the empty table, a task takes out at most as many values as it initialised distinct keys,
   and that is at most the number of key objects of the store. *)
Theorem pops_bounded : forall tls st ops tid,
  tls_table st tls = Some [] ->
  length (pops_of tls st ops tid) <= length (inits_of tls st ops tid)
  /\ length (inits_of tls st ops tid) <= num_keys st.
Proof.
  intros tls st ops tid Ht.
  destruct (destructor_order tls st ops tid Ht) as (H & _ & Hnd & _).
  split.
  - rewrite H, app_length. lia.
  - rewrite <- key_ids_length. apply NoDup_incl_length; [exact Hnd|].
    intros k Hk. eapply inits_are_keys; [|exact Hk]. rewrite Ht; discriminate.
Qed.

(* pop_local does not hit its internal assertion in a well-formed table whose keys are key objects *)
Definition keys_valid (st : store) (tls : nat) : Prop :=
  forall tid k, In k (map fst (tl_locals (task_of st tls tid))) -> exists init d, get_obj st k = Some (OKey init d).

Theorem tls_pop_total : forall st tls tid,
  table_ok st tls -> keys_valid st tls -> tls_pop st tls tid <> None.
Proof.
  intros st tls tid (l & Ht & Hall) Hv. unfold tls_pop. rewrite Ht.
  destruct (tl_order (tls_of l tid)) as [|key r] eqn:Eo; [discriminate|].
  destruct (Hall tid) as [Hnd Ho].
  destruct (live_key_lookup _ key Hnd) as [v Hl]. { rewrite <- Ho, Eo; left; reflexivity. }
  unfold tls_lookup. rewrite Hl.
  destruct (Hv tid key) as (init & d & Hk).
  { unfold task_of; rewrite Ht. eapply assoc_get_some_in; exact Hl. }
  rewrite Hk. discriminate.
Qed.

Lemma key_ids_inv : forall st k, In k (key_ids st) -> exists init d, get_obj st k = Some (OKey init d).
Proof.
  intros st k H. unfold key_ids in H. apply filter_In in H. destruct H as [_ H].
  destruct (get_obj st k) as [o|]; [|discriminate]. destruct o; try discriminate. eauto.
Qed.

Lemma run_keys : forall tls ops st i init d,
  tls_table st tls <> None ->
  (get_obj (tls_run tls st ops) i = Some (OKey init d) <-> get_obj st i = Some (OKey init d))
  /\ tls_table (tls_run tls st ops) tls <> None.
Proof.
  intros tls ops. induction ops as [|o r IH]; intros st i init d Htab; cbn [tls_run fold_left]; [tauto|].
  destruct (apply_keys tls st o i init d Htab) as [A B].
  destruct (IH (tls_apply tls st o) i init d B) as [C D]. fold (tls_run tls (tls_apply tls st o) r) in *.
  split; [rewrite C; exact A|exact D].
Qed.

(* in every state reached from the empty table, every slot's key is a key object *)
Theorem keys_valid_run : forall tls st ops, tls_table st tls = Some [] -> keys_valid (tls_run tls st ops) tls.
Proof.
  intros tls st ops Ht tid k Hin.
  assert (Htab : tls_table st tls <> None) by (rewrite Ht; discriminate).
  destruct (run_history tls ops st tid) as [H1 _].
  assert (E0 : task_of st tls tid = empty_tls) by (unfold task_of; rewrite Ht; reflexivity).
  rewrite E0 in H1. cbn [empty_tls tl_locals map app] in H1. rewrite H1 in Hin.
  apply (inits_are_keys tls ops st tid k Htab) in Hin.
  destruct (key_ids_inv _ _ Hin) as (init & d & Hk). exists init, d.
  apply (proj1 (run_keys tls ops st k init d Htab)). exact Hk.
Qed.

(* ... so pop_local's internal assertion ("keys in `order` must not yet be destructed") never fires *)
Theorem pop_never_fails : forall tls st ops tid,
  tls_table st tls = Some [] -> tls_pop (tls_run tls st ops) tls tid <> None.
Proof.
  intros tls st ops tid Ht. apply tls_pop_total.
  - apply table_ok_run. apply table_ok_empty. exact Ht.
  - apply keys_valid_run. exact Ht.
Qed.

(* try_with fails only when its key is not a key object *)
Theorem with_never_fails : forall tls st ops tid key add init d,
  tls_table st tls = Some [] -> get_obj st key = Some (OKey init d) ->
  tls_with (tls_run tls st ops) tls tid key add <> None.
Proof.
  intros tls st ops tid key add init d Ht Hk.
  assert (Htab : tls_table st tls <> None) by (rewrite Ht; discriminate).
  destruct (run_keys tls ops st key init d Htab) as [A B].
  unfold tls_with. destruct (tls_table (tls_run tls st ops) tls) as [l|]; [|congruence].
  rewrite (proj2 A Hk). destruct (tls_lookup (tls_of l tid) key) as [[v|]|]; discriminate.
Qed.

(* TLS_ROUNDS (Lang/ThreadOps.v): `tls_loop n` performs one pop per round and reaches its error value only after n
   successful pops of the same task (each round that finds nothing left ends the loop).  By pops_bounded a task
   performs at most num_keys successful pops in its whole life, so with num_keys st < n the (num_keys+1)-th round at
   the latest finds the queue empty (it cannot fail: tls_pop_total) and the loop ends normally. *)
Theorem tls_rounds_bound : forall tls st ops tid n,
  tls_table st tls = Some [] -> num_keys st < n ->
  length (pops_of tls st ops tid) < n.
Proof.
  intros tls st ops tid n Ht Hn. destruct (pops_bounded tls st ops tid Ht). lia.
Qed.
