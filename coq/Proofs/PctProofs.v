(* ===================================================================== *)
(*  SV.Proofs.PctProofs -- proofs about SV.Sched.Pct                      *)
(* ===================================================================== *)

From Coq Require Import NArith ZArith List Lia Bool ZifyN Permutation Sorted.
From SV Require Import Sched.Random Sched.Pct Proofs.RandomProofs.
Import ListNotations.
Local Open Scope N_scope.

Arguments N.add : simpl never.
Arguments N.sub : simpl never.
Arguments N.mul : simpl never.
Arguments N.eqb : simpl never.
Arguments N.ltb : simpl never.
Arguments N.leb : simpl never.
Arguments N.pow : simpl never.
Arguments N.div : simpl never.
Arguments N.modulo : simpl never.
Arguments N.shiftl : simpl never.
Arguments N.shiftr : simpl never.
Arguments N.lor : simpl never.
Arguments N.lxor : simpl never.
Arguments N.size : simpl never.
Arguments N.min : simpl never.
Arguments N.max : simpl never.
Arguments N.of_nat : simpl never.
Arguments N.to_nat : simpl never.
Arguments pcg_from_seed_u64 : simpl never.
Arguments pcg_next_u64 : simpl never.
Arguments pcg_next_u32 : simpl never.
Arguments ds_reinitialize : simpl never.
Arguments ds_next_u64 : simpl never.
Arguments sample_select : simpl never.

(* ===================================================================== *)
(*  0. The outcome monad                                                  *)
(* ===================================================================== *)

Lemma obind_Done {A B : Type} (o : outcome A) (f : A -> outcome B) (b : B) :
  obind o f = Done b -> exists a, o = Done a /\ f a = Done b.
Proof. destruct o as [a| | |]; cbn; intros H; try discriminate. eauto. Qed.

(* split a hypothesis  obind o f = Done b *)
Ltac inv_bind H :=
  let a := fresh "a" in
  let Ha := fresh "Ha" in
  apply obind_Done in H; destruct H as [a [Ha H]].

(* "whatever o1 returns, o2 returns too" *)
Definition oleq {A : Type} (o1 o2 : outcome A) : Prop :=
  forall a, o1 = Done a -> o2 = Done a.

Lemma oleq_refl {A : Type} (o : outcome A) : oleq o o.
Proof. intros a H. exact H. Qed.

Lemma oleq_bind {A B : Type} (o1 o2 : outcome A) (f1 f2 : A -> outcome B) :
  oleq o1 o2 -> (forall a, oleq (f1 a) (f2 a)) -> oleq (obind o1 f1) (obind o2 f2).
Proof.
  intros Ho Hf b H. inv_bind H. rewrite (Ho _ Ha). cbn. apply Hf. exact H.
Qed.

(* ===================================================================== *)
(*  1. List helpers                                                       *)
(* ===================================================================== *)

Lemma length_upd {A : Type} (l : list A) (i : nat) (x : A) :
  length (upd l i x) = length l.
Proof.
  revert i. induction l as [|h t IH]; intros [|i]; cbn; try reflexivity.
  rewrite IH. reflexivity.
Qed.

Lemma nth_upd {A : Type} (l : list A) (i j : nat) (x d : A) :
  (i < length l)%nat ->
  nth j (upd l i x) d = if Nat.eqb j i then x else nth j l d.
Proof.
  revert i j. induction l as [|h t IH]; intros i j Hi; [cbn in Hi; lia|].
  destruct i as [|i], j as [|j]; cbn; try reflexivity.
  apply IH. cbn in Hi. lia.
Qed.

Lemma upd_perm {A : Type} (l : list A) (i : nat) (x d : A) :
  (i < length l)%nat -> Permutation (x :: l) (nth i l d :: upd l i x).
Proof.
  revert i. induction l as [|h t IH]; intros i Hi; [cbn in Hi; lia|].
  destruct i as [|i]; cbn.
  - apply perm_swap.
  - cbn in Hi.
    eapply perm_trans; [apply perm_swap|].
    eapply perm_trans; [apply perm_skip; apply (IH i); lia|].
    apply perm_swap.
Qed.

Lemma upd_app_l {A : Type} (l1 l2 : list A) (i : nat) (x : A) :
  (i < length l1)%nat -> upd (l1 ++ l2) i x = upd l1 i x ++ l2.
Proof.
  revert i. induction l1 as [|h t IH]; intros i Hi; [cbn in Hi; lia|].
  destruct i as [|i]; cbn; [reflexivity|]. rewrite IH; [reflexivity|]. cbn in Hi. lia.
Qed.

Lemma firstn_upd_ge {A : Type} (l : list A) (n i : nat) (x : A) :
  (n <= i)%nat -> firstn n (upd l i x) = firstn n l.
Proof.
  revert n i. induction l as [|h t IH]; intros n i Hle.
  - destruct i; reflexivity.
  - destruct n as [|n]; [reflexivity|]. destruct i as [|i]; [lia|].
    cbn. rewrite IH by lia. reflexivity.
Qed.

Lemma length_swap (l : list N) (i j : nat) : length (swap l i j) = length l.
Proof. unfold swap. rewrite !length_upd. reflexivity. Qed.

Lemma nth_swap (l : list N) (i j k : nat) :
  (i < length l)%nat -> (j < length l)%nat ->
  nth k (swap l i j) 0 =
  if Nat.eqb k j then nth i l 0 else if Nat.eqb k i then nth j l 0 else nth k l 0.
Proof.
  intros Hi Hj. unfold swap.
  rewrite nth_upd by (rewrite length_upd; exact Hj).
  destruct (Nat.eqb k j); [reflexivity|].
  apply nth_upd. exact Hi.
Qed.

Lemma swap_perm (l : list N) (i j : nat) :
  (i < length l)%nat -> (j < length l)%nat -> Permutation l (swap l i j).
Proof.
  intros Hi Hj. unfold swap.
  set (a := nth i l 0). set (b := nth j l 0). set (l1 := upd l i b).
  assert (H1 : Permutation (b :: l) (a :: l1)) by (apply upd_perm; exact Hi).
  assert (Hj1 : (j < length l1)%nat) by (unfold l1; rewrite length_upd; exact Hj).
  assert (H2 : Permutation (a :: l1) (nth j l1 0 :: upd l1 j a))
    by (apply upd_perm; exact Hj1).
  assert (Hb : nth j l1 0 = b).
  { unfold l1. rewrite nth_upd by exact Hi.
    destruct (Nat.eqb j i); reflexivity. }
  rewrite Hb in H2.
  apply (Permutation_cons_inv (a := b)).
  eapply perm_trans; [exact H1|exact H2].
Qed.

Lemma swap_app_l (l1 l2 : list N) (i j : nat) :
  (i < length l1)%nat -> (j < length l1)%nat ->
  swap (l1 ++ l2) i j = swap l1 i j ++ l2.
Proof.
  intros Hi Hj. unfold swap.
  rewrite !app_nth1 by assumption.
  rewrite upd_app_l by exact Hi.
  rewrite upd_app_l by (rewrite length_upd; exact Hj).
  reflexivity.
Qed.

Lemma firstn_swap_ge (l : list N) (n i j : nat) :
  (n <= i)%nat -> (n <= j)%nat -> firstn n (swap l i j) = firstn n l.
Proof.
  intros Hi Hj. unfold swap. rewrite firstn_upd_ge by exact Hj.
  apply firstn_upd_ge. exact Hi.
Qed.

Lemma swap_same (l : list N) (i : nat) : (i < length l)%nat -> swap l i i = l.
Proof.
  intros Hi. apply (nth_ext _ _ 0 0); [apply length_swap|].
  intros k Hk. rewrite nth_swap by assumption.
  destruct (Nat.eqb_spec k i) as [->|]; reflexivity.
Qed.

(* a list of length i+1 ends with its element number i *)
Lemma list_last_nth (l : list N) (i : nat) :
  length l = S i -> l = firstn i l ++ [nth i l 0].
Proof.
  intros Hl. rewrite <- (firstn_skipn i l) at 1. f_equal.
  assert (Hs : length (skipn i l) = 1%nat) by (rewrite skipn_length; lia).
  destruct (skipn i l) as [|x [|y r]] eqn:E; cbn in Hs; try lia.
  f_equal. rewrite <- (firstn_skipn i l) at 1.
  rewrite app_nth2 by (rewrite firstn_length; lia).
  rewrite firstn_length, E. replace (i - Nat.min i (length l))%nat with 0%nat by lia.
  reflexivity.
Qed.

Lemma firstn_S_nth (l : list N) (i : nat) :
  (i < length l)%nat -> firstn (S i) l = firstn i l ++ [nth i l 0].
Proof.
  revert i. induction l as [|h t IH]; intros i Hi; [cbn in Hi; lia|].
  destruct i as [|i]; [reflexivity|].
  cbn [firstn nth app]. cbn in Hi. f_equal.
  apply IH. lia.
Qed.

(* nseq *)
Lemma length_nseq (n : N) : length (nseq n) = N.to_nat n.
Proof. unfold nseq. rewrite map_length, seq_length. reflexivity. Qed.

Lemma In_nseq (n x : N) : In x (nseq n) <-> x < n.
Proof.
  unfold nseq. rewrite in_map_iff. split.
  - intros [k [<- Hk]]. apply in_seq in Hk. lia.
  - intros H. exists (N.to_nat x). split; [lia|]. apply in_seq. lia.
Qed.

Lemma NoDup_nseq (n : N) : NoDup (nseq n).
Proof.
  unfold nseq. apply FinFun.Injective_map_NoDup; [|apply seq_NoDup].
  intros a b H. lia.
Qed.

Lemma nth_nseq (n : N) (k : nat) : (k < N.to_nat n)%nat -> nth k (nseq n) 0 = N.of_nat k.
Proof.
  intros Hk. unfold nseq.
  change 0 with (N.of_nat 0). rewrite map_nth. rewrite seq_nth by exact Hk. reflexivity.
Qed.

Lemma nseq_succ (n : N) : nseq (n + 1) = nseq n ++ [n].
Proof.
  unfold nseq. replace (N.to_nat (n + 1)) with (N.to_nat n + 1)%nat by lia.
  rewrite seq_app, map_app. cbn [seq map]. f_equal.
  replace (0 + N.to_nat n)%nat with (N.to_nat n) by lia. rewrite N2Nat.id. reflexivity.
Qed.

Lemma memN_spec (x : N) (l : list N) : memN x l = true <-> In x l.
Proof.
  unfold memN. rewrite existsb_exists. split.
  - intros [y [Hy E]]. apply N.eqb_eq in E. subst. exact Hy.
  - intros H. exists x. split; [exact H|apply N.eqb_refl].
Qed.

Lemma memN_false (x : N) (l : list N) : memN x l = false <-> ~ In x l.
Proof.
  rewrite <- memN_spec. destruct (memN x l); split; intros H; congruence.
Qed.

Lemma position_None (t : N) (l : list N) : position t l = None -> ~ In t l.
Proof.
  induction l as [|x l IH]; cbn; intros H; [tauto|].
  destruct (N.eqb_spec x t) as [|Hne]; [discriminate|].
  destruct (position t l); [discriminate|].
  intros [E|Hin]; [congruence|]. exact (IH eq_refl Hin).
Qed.

Lemma position_notin (t : N) (l : list N) : ~ In t l -> position t l = None.
Proof.
  induction l as [|x l IH]; cbn; intros H; [reflexivity|].
  destruct (N.eqb_spec x t) as [E|Hne]; [exfalso; apply H; left; exact E|].
  rewrite IH; [reflexivity|]. intros Hin. apply H. right. exact Hin.
Qed.

Lemma insert_at_perm (pos : nat) (x : N) (l : list N) :
  Permutation (x :: l) (insert_at pos x l).
Proof.
  unfold insert_at. rewrite <- (firstn_skipn pos l) at 1.
  apply Permutation_middle.
Qed.

Lemma NoDup_app_l {A : Type} (l1 l2 : list A) : NoDup (l1 ++ l2) -> NoDup l1.
Proof.
  induction l1 as [|a l1 IH]; cbn; intros H; [constructor|].
  inversion H as [|x l Hx Hl]; subst. constructor.
  - intros Hin. apply Hx. apply in_or_app. left. exact Hin.
  - apply IH. exact Hl.
Qed.

Lemma NoDup_firstn {A : Type} (n : nat) (l : list A) : NoDup l -> NoDup (firstn n l).
Proof.
  intros H. rewrite <- (firstn_skipn n l) in H. exact (NoDup_app_l _ _ H).
Qed.

Lemma NoDup_snoc (l : list N) (x : N) : NoDup l -> ~ In x l -> NoDup (l ++ [x]).
Proof.
  intros Hl Hx. apply (Permutation_NoDup (l := x :: l)).
  - apply Permutation_cons_append.
  - constructor; assumption.
Qed.

(* ===================================================================== *)
(*  2. The draw oracles                                                   *)
(* ===================================================================== *)

Lemma wmul_hi_lt (w n v : N) :
  1 <= n -> v < 2 ^ w ->
  (N.shiftr ((v * n) mod 2 ^ (2 * w)) w) mod 2 ^ w < n.
Proof.
  intros H1 Hv.
  set (B := 2 ^ w) in *.
  assert (HB : 1 <= B) by apply pow2_pos.
  rewrite N.shiftr_div_pow2. fold B.
  eapply N.le_lt_trans; [apply N.mod_le; lia|].
  apply N.div_lt_upper_bound; [lia|].
  eapply N.le_lt_trans; [apply N.mod_le; apply N.pow_nonzero; lia|].
  apply N.mul_lt_mono_pos_r; [lia|exact Hv].
Qed.

Lemma accept_w_lt' (w n v i : N) :
  1 <= n -> v < 2 ^ w -> accept_w w n v = Some i -> i < n.
Proof.
  intros H1 Hv. unfold accept_w.
  destruct (_ <=? _); [|discriminate]. intros E. injection E as <-.
  apply wmul_hi_lt; assumption.
Qed.

Lemma uaccept_w_lt (w n v i : N) :
  1 <= n -> v < 2 ^ w -> uaccept_w w n v = Some i -> i < n.
Proof.
  intros H1 Hv. unfold uaccept_w.
  destruct (_ <=? _); [|discriminate]. intros E. injection E as <-.
  apply wmul_hi_lt; assumption.
Qed.

Lemma reject_loop_spec (next : N -> N * N) (acc : N -> option N) (P : N -> Prop) :
  (forall st i, acc (fst (next st)) = Some i -> P i) ->
  forall fuel st i st', reject_loop next acc fuel st = Some (i, st') -> P i.
Proof.
  intros Hacc. induction fuel as [|f IH]; intros st i st' H; [discriminate|].
  cbn [reject_loop] in H. pose proof (Hacc st) as Ha.
  destruct (next st) as [v st1]. cbn [fst] in Ha.
  destruct (acc v) as [hi|] eqn:E.
  - injection H as <- _. apply Ha. reflexivity.
  - apply (IH _ _ _ H).
Qed.

Lemma reject_loop_fuel_mono (next : N -> N * N) (acc : N -> option N)
      (f f' : nat) (st : N) (r : N * N) :
  (f <= f')%nat -> reject_loop next acc f st = Some r -> reject_loop next acc f' st = Some r.
Proof.
  revert f' st. induction f as [|f IH]; intros f' st Hle H; [discriminate|].
  destruct f' as [|f']; [lia|]. cbn [reject_loop] in *.
  destruct (next st) as [v st1]. destruct (acc v); [exact H|].
  apply IH; [lia|exact H].
Qed.

(* Whatever the PCG oracle returns lies in the requested interval.        *)
Theorem pcg_draw_range (fuel : nat) (k : draw_kind) (low range st v st' : N) :
  pcg_draw fuel k low range st = Done (v, st') -> low <= v /\ v < low + range.
Proof.
  unfold pcg_draw.
  destruct (N.eqb_spec range 0) as [|Hr]; [discriminate|].
  destruct (N.leb_spec (2 ^ draw_width k) range) as [|Hw]; [discriminate|].
  destruct (N.ltb_spec (2 ^ draw_width k) (low + range)) as [|Hs]; [discriminate|].
  cbn [orb].
  assert (Hlt : forall hi st1,
    match k with
    | DSingle32 => sample_single range fuel st
    | DSingle64 => sample_single64 range fuel st
    | DUniform32 => uniform_sample32 range fuel st
    | DUniform64 => uniform_sample64 range fuel st
    end = Some (hi, st1) -> hi < range).
  { intros hi st1 H. destruct k; cbn [draw_width] in *.
    - apply (sample_single_lt range fuel st hi st1); [lia|assumption|assumption].
    - unfold sample_single64 in H.
      refine (reject_loop_spec _ _ (fun i => i < range) _ _ _ _ _ H).
      intros s i Ha. apply (accept_w_lt' 64 range (fst (pcg_next_u64 s)) i); [lia| |exact Ha].
      apply pcg_next_u64_out_lt.
    - unfold uniform_sample32 in H.
      refine (reject_loop_spec _ _ (fun i => i < range) _ _ _ _ _ H).
      intros s i Ha. apply (uaccept_w_lt 32 range (fst (pcg_next_u32 s)) i); [lia| |exact Ha].
      apply pcg_next_u32_out_lt.
    - unfold uniform_sample64 in H.
      refine (reject_loop_spec _ _ (fun i => i < range) _ _ _ _ _ H).
      intros s i Ha. apply (uaccept_w_lt 64 range (fst (pcg_next_u64 s)) i); [lia| |exact Ha].
      apply pcg_next_u64_out_lt. }
  destruct (match k with DSingle32 => _ | DSingle64 => _ | DUniform32 => _ | DUniform64 => _ end)
    as [[hi st1]|] eqn:E; [|discriminate].
  intros H. injection H as <- _. specialize (Hlt hi st1 eq_refl). lia.
Qed.

Theorem pcg_draw_fuel_mono (f f' : nat) (k : draw_kind) (low range st : N) :
  (f <= f')%nat -> oleq (pcg_draw f k low range st) (pcg_draw f' k low range st).
Proof.
  intros Hle [v st'] H. unfold pcg_draw in *.
  destruct (_ || _); [discriminate|].
  assert (Hm : forall r,
    match k with
    | DSingle32 => sample_single range f st
    | DSingle64 => sample_single64 range f st
    | DUniform32 => uniform_sample32 range f st
    | DUniform64 => uniform_sample64 range f st
    end = Some r ->
    match k with
    | DSingle32 => sample_single range f' st
    | DSingle64 => sample_single64 range f' st
    | DUniform32 => uniform_sample32 range f' st
    | DUniform64 => uniform_sample64 range f' st
    end = Some r).
  { intros r Hr. destruct k.
    - eapply sample_single_fuel_mono; eassumption.
    - eapply reject_loop_fuel_mono; eassumption.
    - eapply reject_loop_fuel_mono; eassumption.
    - eapply reject_loop_fuel_mono; eassumption. }
  destruct (match k with DSingle32 => sample_single range f st | _ => _ end)
    as [[hi st1]|] eqn:E; [|discriminate].
  rewrite (Hm _ eq_refl). exact H.
Qed.

Theorem list_draw_range (k : draw_kind) (low range : N) (ds : list N) (v : N) (ds' : list N) :
  list_draw k low range ds = Done (v, ds') -> low <= v /\ v < low + range.
Proof.
  unfold list_draw. destruct ds as [|d ds]; [discriminate|].
  destruct (N.leb_spec low d); destruct (N.ltb_spec d (low + range)); cbn [andb];
    try discriminate.
  intros E. injection E as <- _. lia.
Qed.

Lemma list_draw_ok (k : draw_kind) (low range d : N) (ds : list N) :
  low <= d -> d < low + range -> list_draw k low range (d :: ds) = Done (d, ds).
Proof.
  intros H1 H2. unfold list_draw.
  destruct (N.leb_spec low d); destruct (N.ltb_spec d (low + range)); try lia. reflexivity.
Qed.

(* in the shape the generic lemmas of section 3 expect *)
Lemma pcg_draw_range_any (fuel : nat) :
  forall k low range s v s',
    pcg_draw fuel k low range s = Done (v, s') -> low <= v /\ v < low + range.
Proof. intros. eapply pcg_draw_range. eassumption. Qed.

Lemma list_draw_range_any :
  forall k low range s v s',
    list_draw k low range s = Done (v, s') -> low <= v /\ v < low + range.
Proof. intros. eapply list_draw_range. eassumption. Qed.

(* ===================================================================== *)
(*  3. shuffle and index::sample over ANY draw oracle that answers within *)
(*     the requested interval                                             *)
(* ===================================================================== *)

Section SamplingFacts.
  Context {St : Type}.
  Variable draw : draw_kind -> N -> N -> St -> outcome (N * St).
  Hypothesis draw_ok : forall k low range s v s',
      draw k low range s = Done (v, s') -> low <= v /\ v < low + range.

  Lemma gen_range_spec k low high s v s' :
    gen_range draw k low high s = Done (v, s') -> low <= v /\ v < high.
  Proof.
    unfold gen_range. destruct (N.ltb_spec low high) as [Hlh|]; [|discriminate].
    intros H. apply draw_ok in H. lia.
  Qed.

  Lemma gen_range_incl_spec k low high s v s' :
    gen_range_incl draw k low high s = Done (v, s') -> low <= v /\ v <= high.
  Proof.
    unfold gen_range_incl. destruct (N.leb_spec low high) as [Hlh|]; [|discriminate].
    intros H. apply draw_ok in H. lia.
  Qed.

  Lemma gen_index_spec ub s v s' : gen_index draw ub s = Done (v, s') -> v < ub.
  Proof.
    unfold gen_index. destruct (_ <? _); intros H; apply gen_range_spec in H; lia.
  Qed.

  Lemma fisher_yates_perm (gen : N -> St -> outcome (N * St)) :
    (forall i s j s', gen i s = Done (j, s') -> j <= i) ->
    forall (i : nat) l s l' s',
      (i <= length l - 1)%nat ->
      fisher_yates gen i l s = Done (l', s') -> Permutation l l'.
  Proof.
    intros Hgen. induction i as [|i IH]; intros l s l' s' Hi H.
    - cbn in H. injection H as <- _. apply Permutation_refl.
    - cbn [fisher_yates] in H. inv_bind H. destruct a as [j s1].
      apply Hgen in Ha.
      assert (Hj : (N.to_nat j < length l)%nat) by lia.
      eapply perm_trans; [apply (swap_perm l (S i) (N.to_nat j)); lia|].
      apply (IH (swap l (S i) (N.to_nat j)) s1 l' s'); [rewrite length_swap; lia|exact H].
  Qed.

  Theorem shuffle_perm l s l' s' :
    shuffle draw l s = Done (l', s') -> Permutation l l'.
  Proof.
    unfold shuffle. apply fisher_yates_perm; [|lia].
    intros i s0 j s0' H. apply gen_index_spec in H. lia.
  Qed.

  (* ---- Floyd ---- *)
  Lemma floyd_loop_spec fs : forall cnt j ind s l s',
      floyd_loop draw fs cnt j ind s = Done (l, s') ->
      NoDup ind -> (forall x, In x ind -> x < j) ->
      NoDup l /\ (forall x, In x l -> x < j + N.of_nat cnt) /\
      length l = (length ind + cnt)%nat.
  Proof.
    induction cnt as [|cnt IH]; intros j ind s l s' H Hnd Hlt.
    - cbn in H. injection H as <- _. split; [exact Hnd|]. split; [|lia].
      intros x Hx. specialize (Hlt x Hx). lia.
    - cbn [floyd_loop] in H. inv_bind H. destruct a as [t s1].
      apply gen_range_incl_spec in Ha.
      assert (Hj : ~ In j ind) by (intros Hin; specialize (Hlt j Hin); lia).
      set (ind' := if fs then match position t ind with
                               | Some pos => insert_at pos j ind
                               | None => ind ++ [t] end
                   else if memN t ind then ind ++ [j] else ind ++ [t]) in *.
      assert (Hind' : NoDup ind' /\ (forall x, In x ind' -> x < j + 1) /\
                      length ind' = S (length ind)).
      { assert (Hpush : forall y, ~ In y ind -> y <= j ->
                  NoDup (ind ++ [y]) /\ (forall x, In x (ind ++ [y]) -> x < j + 1) /\
                  length (ind ++ [y]) = S (length ind)).
        { intros y Hy Hyj. split; [apply NoDup_snoc; assumption|]. split.
          - intros x Hx. apply in_app_or in Hx. destruct Hx as [Hx|[<-|[]]]; [|lia].
            specialize (Hlt x Hx). lia.
          - rewrite app_length. cbn. lia. }
        unfold ind'. destruct fs.
        - destruct (position t ind) as [pos|] eqn:Ep.
          + pose proof (insert_at_perm pos j ind) as Hp.
            split; [apply (Permutation_NoDup Hp); constructor; assumption|]. split.
            * intros x Hx. apply (Permutation_in _ (Permutation_sym Hp)) in Hx.
              destruct Hx as [<-|Hx]; [lia|]. specialize (Hlt x Hx). lia.
            * rewrite <- (Permutation_length Hp). reflexivity.
          + apply Hpush; [apply position_None; exact Ep|lia].
        - destruct (memN t ind) eqn:Em.
          + apply Hpush; [exact Hj|lia].
          + apply Hpush; [apply memN_false; exact Em|lia]. }
      destruct Hind' as [Hnd' [Hlt' Hlen']].
      destruct (IH _ _ _ _ _ H Hnd' Hlt') as [R1 [R2 R3]].
      split; [exact R1|]. split; [|lia].
      intros x Hx. specialize (R2 x Hx). lia.
  Qed.

  Lemma sample_floyd_spec length amount s l s' :
    amount <= length ->
    sample_floyd draw length amount s = Done (l, s') ->
    NoDup l /\ (forall x, In x l -> x < length) /\ List.length l = N.to_nat amount.
  Proof.
    intros Hle H. unfold sample_floyd in H. inv_bind H. destruct a as [ind s1].
    apply floyd_loop_spec in Ha; [|constructor|intros x []].
    destruct Ha as [R1 [R2 R3]]. cbn in R3.
    assert (R2' : forall x, In x ind -> x < length)
      by (intros x Hx; specialize (R2 x Hx); lia).
    destruct (negb (50 <=? amount)).
    - injection H as <- _. auto.
    - apply fisher_yates_perm in H.
      + split; [apply (Permutation_NoDup H R1)|]. split.
        * intros x Hx. apply R2'. apply (Permutation_in _ (Permutation_sym H) Hx).
        * rewrite <- (Permutation_length H). exact R3.
      + intros i s0 j s0' Hg. apply gen_range_incl_spec in Hg. lia.
      + lia.
  Qed.

  (* ---- inplace ---- *)
  Lemma inplace_loop_spec length : forall cnt i ind s l s',
      inplace_loop draw cnt i length ind s = Done (l, s') ->
      i + N.of_nat cnt <= length ->
      Permutation (nseq length) ind -> Permutation (nseq length) l.
  Proof.
    induction cnt as [|cnt IH]; intros i ind s l s' H Hle Hp.
    - cbn in H. injection H as <- _. exact Hp.
    - cbn [inplace_loop] in H. inv_bind H. destruct a as [j s1].
      apply gen_range_spec in Ha.
      assert (Hlen : List.length ind = N.to_nat length)
        by (rewrite <- (Permutation_length Hp); apply length_nseq).
      apply (IH _ _ _ _ _ H); [lia|].
      eapply perm_trans; [exact Hp|]. apply swap_perm; lia.
  Qed.

  Lemma sample_inplace_spec length amount s l s' :
    amount <= length ->
    sample_inplace draw length amount s = Done (l, s') ->
    NoDup l /\ (forall x, In x l -> x < length) /\ List.length l = N.to_nat amount.
  Proof.
    intros Hle H. unfold sample_inplace in H. inv_bind H. destruct a as [ind s1].
    injection H as <- _.
    apply inplace_loop_spec in Ha; [|lia|apply Permutation_refl].
    split; [apply NoDup_firstn; apply (Permutation_NoDup Ha); apply NoDup_nseq|].
    split.
    - intros x Hx. apply In_nseq. apply (Permutation_in _ (Permutation_sym Ha)).
      rewrite <- (firstn_skipn (N.to_nat amount) ind). apply in_or_app. left. exact Hx.
    - apply firstn_length_le. rewrite <- (Permutation_length Ha), length_nseq. lia.
  Qed.

  (* ---- rejection ---- *)
  Lemma rejection_pos_spec k length ind : forall fuel s pos s',
      rejection_pos draw fuel k length ind s = Done (pos, s') ->
      pos < length /\ ~ In pos ind.
  Proof.
    induction fuel as [|fuel IH]; intros s pos s' H; [discriminate|].
    cbn [rejection_pos] in H. inv_bind H. destruct a as [p s1].
    destruct (memN p ind) eqn:Em.
    - apply (IH _ _ _ H).
    - injection H as <- _. apply draw_ok in Ha. apply memN_false in Em.
      split; [lia|exact Em].
  Qed.

  Lemma rejection_loop_spec fuel k length : forall cnt ind s l s',
      rejection_loop draw fuel cnt k length ind s = Done (l, s') ->
      NoDup ind -> (forall x, In x ind -> x < length) ->
      NoDup l /\ (forall x, In x l -> x < length) /\
      List.length l = (List.length ind + cnt)%nat.
  Proof.
    induction cnt as [|cnt IH]; intros ind s l s' H Hnd Hlt.
    - cbn in H. injection H as <- _. split; [exact Hnd|]. split; [exact Hlt|lia].
    - cbn [rejection_loop] in H. inv_bind H. destruct a as [pos s1].
      apply rejection_pos_spec in Ha. destruct Ha as [Hp Hn].
      apply IH in H.
      + destruct H as [R1 [R2 R3]]. split; [exact R1|]. split; [exact R2|].
        rewrite R3, app_length. cbn. lia.
      + apply NoDup_snoc; assumption.
      + intros x Hx. apply in_app_or in Hx. destruct Hx as [Hx|[<-|[]]]; auto.
  Qed.

  Lemma sample_rejection_spec dbg fuel k length amount s l s' :
    sample_rejection draw dbg fuel k length amount s = Done (l, s') ->
    NoDup l /\ (forall x, In x l -> x < length) /\ List.length l = N.to_nat amount.
  Proof.
    unfold sample_rejection. destruct (dbg && _); [discriminate|].
    destruct (length =? 0); [discriminate|].
    intros H. apply rejection_loop_spec in H; [|constructor|intros x []].
    exact H.
  Qed.

  (* index::sample returns `amount` pairwise distinct values below `length`. *)
  Theorem index_sample_spec dbg fuel length amount s l s' :
    index_sample draw dbg fuel length amount s = Done (l, s') ->
    amount <= length /\
    NoDup l /\ (forall x, In x l -> x < length) /\ List.length l = N.to_nat amount.
  Proof.
    unfold index_sample. destruct (N.ltb_spec length amount) as [|Hle]; [discriminate|].
    intros H. split; [exact Hle|].
    destruct (sample_select length amount).
    - apply (sample_inplace_spec _ _ _ _ _ Hle H).
    - apply (sample_floyd_spec _ _ _ _ _ Hle H).
    - apply (sample_rejection_spec _ _ _ _ _ _ _ _ H).
    - apply (sample_rejection_spec _ _ _ _ _ _ _ _ H).
  Qed.

End SamplingFacts.

(* ===================================================================== *)
(*  4. Which results are possible: the list oracle                        *)
(* ===================================================================== *)

Lemma gen_index_list (i d : N) (ds : list N) :
  d <= i -> gen_index list_draw (i + 1) (d :: ds) = Done (d, ds).
Proof.
  intros H. unfold gen_index, gen_range.
  destruct (N.ltb_spec 0 (i + 1)); [|lia].
  destruct (_ <? _); apply list_draw_ok; lia.
Qed.

Lemma gen_range_incl_list (k : draw_kind) (i d : N) (ds : list N) :
  d <= i -> gen_range_incl list_draw k 0 i (d :: ds) = Done (d, ds).
Proof.
  intros H. unfold gen_range_incl.
  destruct (N.leb_spec 0 i); [|lia]. apply list_draw_ok; lia.
Qed.

Lemma fy_complete (gen : N -> list N -> outcome (N * list N)) :
  (forall i d ds, d <= i -> gen i (d :: ds) = Done (d, ds)) ->
  forall (i : nat) pre pre' suf rest,
    length pre = S i -> Permutation pre pre' ->
    exists ds, length ds = i /\
      fisher_yates gen i (pre ++ suf) (ds ++ rest) = Done (pre' ++ suf, rest).
Proof.
  intros Hgen. induction i as [|i IH]; intros pre pre' suf rest Hlen Hp.
  - exists []. split; [reflexivity|]. cbn.
    destruct pre as [|a [|b r]]; cbn in Hlen; try lia.
    apply Permutation_length_1_inv in Hp. subst. reflexivity.
  - assert (Hlen' : length pre' = S (S i)) by (rewrite <- (Permutation_length Hp); exact Hlen).
    set (x := nth (S i) pre' 0).
    pose proof (list_last_nth pre' (S i) Hlen') as Hdec. fold x in Hdec.
    set (q := firstn (S i) pre') in *.
    assert (Hx : In x pre).
    { apply (Permutation_in _ (Permutation_sym Hp)). rewrite Hdec.
      apply in_or_app. right. left. reflexivity. }
    destruct (In_nth _ _ 0 Hx) as [j [Hj Hnj]].
    set (p1 := swap pre (S i) j).
    assert (Hl1 : length p1 = S (S i)) by (unfold p1; rewrite length_swap; exact Hlen).
    assert (Hn1 : nth (S i) p1 0 = x).
    { unfold p1. rewrite nth_swap by lia.
      destruct (Nat.eqb_spec (S i) j) as [E|_].
      - rewrite E. exact Hnj.
      - rewrite Nat.eqb_refl. exact Hnj. }
    pose proof (list_last_nth p1 (S i) Hl1) as Hdec1. rewrite Hn1 in Hdec1.
    set (p1' := firstn (S i) p1) in *.
    assert (Hp1 : Permutation p1' q).
    { apply (Permutation_app_inv_r [x]). rewrite <- Hdec1, <- Hdec.
      eapply perm_trans; [|exact Hp]. apply Permutation_sym. apply swap_perm; lia. }
    assert (Hl1' : length p1' = S i).
    { unfold p1'. rewrite firstn_length. lia. }
    destruct (IH p1' q (x :: suf) rest Hl1' Hp1) as [ds [Hds Hrun]].
    exists (N.of_nat j :: ds). split; [cbn; lia|].
    cbn [fisher_yates app]. rewrite Hgen by lia. cbn [obind].
    rewrite Nat2N.id. rewrite swap_app_l by lia. fold p1.
    rewrite Hdec1, Hdec, <- !app_assoc. cbn [app]. exact Hrun.
Qed.

(* Every permutation of l is produced by shuffle for some draw sequence
   (one draw d_i <= i for each i = len-1, ..., 1, in that order).           *)
Theorem shuffle_complete (l sigma : list N) :
  Permutation l sigma ->
  exists ds, length ds = (length l - 1)%nat /\
             shuffle list_draw l ds = Done (sigma, []).
Proof.
  intros Hp. unfold shuffle. destruct l as [|a l].
  - apply Permutation_nil in Hp. subst. exists []. split; reflexivity.
  - destruct (fy_complete (fun i => gen_index list_draw (i + 1))
                (fun i d ds H => gen_index_list i d ds H)
                (length (a :: l) - 1) (a :: l) sigma [] [] ltac:(cbn; lia) Hp)
      as [ds [Hds Hrun]].
    exists ds. split; [exact Hds|].
    rewrite !app_nil_r in Hrun. exact Hrun.
Qed.

(* ---- strictly increasing lists ---- *)
Lemma sorted_head_bound (L : N) : forall (l : list N) (x : N),
    StronglySorted N.lt (x :: l) -> (forall y, In y (x :: l) -> y < L) ->
    x + N.of_nat (length l) < L.
Proof.
  induction l as [|y l IH]; intros x Hs Hb.
  - cbn. specialize (Hb x (or_introl eq_refl)). lia.
  - apply StronglySorted_inv in Hs. destruct Hs as [Hs Hf].
    assert (Hxy : x < y) by (rewrite Forall_forall in Hf; apply Hf; left; reflexivity).
    specialize (IH y Hs (fun z Hz => Hb z (or_intror Hz))).
    cbn [length]. lia.
Qed.

Lemma sorted_NoDup (l : list N) : StronglySorted N.lt l -> NoDup l.
Proof.
  induction l as [|x l IH]; intros Hs; [constructor|].
  apply StronglySorted_inv in Hs. destruct Hs as [Hs Hf]. constructor; [|apply IH; exact Hs].
  intros Hin. rewrite Forall_forall in Hf. specialize (Hf x Hin). lia.
Qed.

Lemma bounded_NoDup_length (L : N) (l : list N) :
  NoDup l -> (forall y, In y l -> y < L) -> N.of_nat (length l) <= L.
Proof.
  intros Hnd Hb.
  assert (H : (length l <= length (nseq L))%nat).
  { apply NoDup_incl_length; [exact Hnd|]. intros y Hy. apply In_nseq. apply Hb. exact Hy. }
  rewrite length_nseq in H. lia.
Qed.

(* ---- Floyd ---- *)
Lemma floyd_loop_complete (fs : bool) : forall (T ind : list N) (j : N) (rest : list N),
    StronglySorted N.lt T ->
    (forall x y, In x ind -> In y T -> x < y) ->
    (forall y, In y T -> y < j + N.of_nat (length T)) ->
    floyd_loop list_draw fs (length T) j ind (T ++ rest) = Done (ind ++ T, rest).
Proof.
  induction T as [|a T IH]; intros ind j rest Hs Hlt Hb.
  - cbn. rewrite app_nil_r. reflexivity.
  - pose proof (sorted_head_bound _ _ _ Hs Hb) as Ha.
    cbn [length] in Ha, Hb.
    apply StronglySorted_inv in Hs. destruct Hs as [Hs Hf]. rewrite Forall_forall in Hf.
    cbn [length floyd_loop app].
    rewrite gen_range_incl_list by lia. cbn [obind].
    assert (Hna : ~ In a ind).
    { intros Hin. specialize (Hlt a a Hin (or_introl eq_refl)). lia. }
    replace (if fs then match position a ind with
                        | Some pos => insert_at pos j ind
                        | None => ind ++ [a] end
             else if memN a ind then ind ++ [j] else ind ++ [a])
      with (ind ++ [a]).
    2:{ destruct fs.
        - rewrite (position_notin _ _ Hna). reflexivity.
        - rewrite (proj2 (memN_false a ind) Hna). reflexivity. }
    rewrite IH.
    + rewrite <- app_assoc. reflexivity.
    + exact Hs.
    + intros x y Hx Hy. apply in_app_or in Hx. destruct Hx as [Hx|[<-|[]]].
      * apply Hlt; [exact Hx|right; exact Hy].
      * apply Hf. exact Hy.
    + intros y Hy. specialize (Hb y (or_intror Hy)). lia.
Qed.

Lemma sample_floyd_complete (length amount : N) (T rest : list N) :
  StronglySorted N.lt T -> (forall y, In y T -> y < length) ->
  List.length T = N.to_nat amount ->
  exists ds l, sample_floyd list_draw length amount (ds ++ rest) = Done (l, rest) /\
               Permutation l T.
Proof.
  intros Hs Hb Hlen.
  pose proof (bounded_NoDup_length length T (sorted_NoDup T Hs) Hb) as Hle.
  unfold sample_floyd.
  destruct (N.leb_spec 50 amount) as [Hfs|Hfs]; cbn [negb].
  2:{ exists T, T. split; [|apply Permutation_refl].
    rewrite <- Hlen. rewrite floyd_loop_complete.
    + reflexivity.
    + exact Hs.
    + intros x y [].
    + intros y Hy. specialize (Hb y Hy). lia. }
  - destruct (fy_complete (fun i => gen_range_incl list_draw DSingle32 0 i)
                (fun i d ds H => gen_range_incl_list DSingle32 i d ds H)
                (N.to_nat amount - 1) T T [] rest ltac:(lia) (Permutation_refl T))
      as [ds2 [_ Hrun]].
    exists (T ++ ds2), T. split; [|apply Permutation_refl].
    rewrite <- Hlen at 1. rewrite <- app_assoc. rewrite floyd_loop_complete.
    + cbn [obind app]. rewrite !app_nil_r in Hrun. exact Hrun.
    + exact Hs.
    + intros x y [].
    + intros y Hy. specialize (Hb y Hy). lia.
Qed.

(* ---- inplace ---- *)
Lemma nth_firstn_lt (l : list N) (n p : nat) :
  (p < n)%nat -> nth p (firstn n l) 0 = nth p l 0.
Proof.
  revert n p. induction l as [|h t IH]; intros n p Hp.
  - rewrite firstn_nil. reflexivity.
  - destruct n as [|n]; [lia|]. destruct p as [|p]; [reflexivity|].
    cbn. apply IH. lia.
Qed.

Lemma inplace_loop_complete (length : N) (T rest : list N) :
  NoDup T -> (forall y, In y T -> y < length) ->
  forall (cnt i : nat) (ind : list N),
    (i + cnt = List.length T)%nat ->
    firstn i ind = firstn i T ->
    Permutation (nseq length) ind ->
    exists ds ind',
      inplace_loop list_draw cnt (N.of_nat i) length ind (ds ++ rest) = Done (ind', rest) /\
      firstn (List.length T) ind' = T.
Proof.
  intros Hnd Hb.
  pose proof (bounded_NoDup_length length T Hnd Hb) as Hle.
  induction cnt as [|cnt IH]; intros i ind Hi Hfi Hp.
  - exists [], ind. split; [reflexivity|].
    replace (List.length T) with i by lia. rewrite Hfi.
    apply firstn_all2. lia.
  - assert (Hlen : List.length ind = N.to_nat length)
      by (rewrite <- (Permutation_length Hp); apply length_nseq).
    set (si := nth i T 0).
    assert (HsiT : In si T) by (apply nth_In; lia).
    assert (Hsi : In si ind).
    { apply (Permutation_in _ Hp). apply In_nseq. apply Hb. exact HsiT. }
    destruct (In_nth _ _ 0 Hsi) as [p [Hp1 Hp2]].
    assert (Hpi : (i <= p)%nat).
    { destruct (Nat.le_gt_cases i p) as [|Hlt]; [assumption|exfalso].
      assert (E : nth p T 0 = nth i T 0).
      { rewrite <- (nth_firstn_lt T i p Hlt), <- Hfi, nth_firstn_lt by exact Hlt. exact Hp2. }
      apply (proj1 (NoDup_nth T 0) Hnd) in E; lia. }
    set (ind1 := swap ind i p).
    assert (Hf1 : firstn (S i) ind1 = firstn (S i) T).
    { rewrite firstn_S_nth by (unfold ind1; rewrite length_swap; lia).
      rewrite firstn_S_nth by lia. f_equal.
      - unfold ind1. rewrite firstn_swap_ge by lia. exact Hfi.
      - f_equal. unfold ind1. rewrite nth_swap by lia.
        destruct (Nat.eqb_spec i p) as [E|_].
        + replace (nth i ind 0) with (nth p ind 0) by (rewrite E; reflexivity). exact Hp2.
        + rewrite Nat.eqb_refl. exact Hp2. }
    destruct (IH (S i) ind1 ltac:(lia) Hf1) as [ds [ind' [Hrun Hres]]].
    { eapply perm_trans; [exact Hp|]. apply swap_perm; lia. }
    exists (N.of_nat p :: ds), ind'. split; [|exact Hres].
    cbn [inplace_loop app]. unfold gen_range.
    destruct (N.ltb_spec (N.of_nat i) length); [|lia].
    rewrite list_draw_ok by lia. cbn [obind].
    rewrite !Nat2N.id. fold ind1.
    replace (N.of_nat i + 1) with (N.of_nat (S i)) by lia. exact Hrun.
Qed.

Lemma sample_inplace_complete (length amount : N) (T rest : list N) :
  NoDup T -> (forall y, In y T -> y < length) ->
  List.length T = N.to_nat amount ->
  exists ds, sample_inplace list_draw length amount (ds ++ rest) = Done (T, rest).
Proof.
  intros Hnd Hb Hlen. unfold sample_inplace.
  destruct (inplace_loop_complete length T rest Hnd Hb (List.length T) 0 (nseq length)
              ltac:(lia) eq_refl (Permutation_refl _)) as [ds [ind' [Hrun Hres]]].
  exists ds. rewrite <- Hlen. change 0 with (N.of_nat 0). rewrite Hrun. cbn [obind].
  rewrite Hres. reflexivity.
Qed.

(* ---- rejection ---- *)
Lemma rejection_loop_complete (fuel : nat) (k : draw_kind) (length : N) :
  forall (T ind rest : list N),
    NoDup (ind ++ T) -> (forall y, In y T -> y < length) ->
    rejection_loop list_draw (S fuel) (List.length T) k length ind (T ++ rest)
    = Done (ind ++ T, rest).
Proof.
  induction T as [|a T IH]; intros ind rest Hnd Hb.
  - cbn. rewrite app_nil_r. reflexivity.
  - cbn [List.length rejection_loop rejection_pos app].
    rewrite list_draw_ok by (specialize (Hb a (or_introl eq_refl)); lia).
    cbn [obind].
    assert (Hna : ~ In a ind).
    { apply NoDup_remove_2 in Hnd. intros Hin. apply Hnd. apply in_or_app. left. exact Hin. }
    rewrite (proj2 (memN_false a ind) Hna). cbn [obind].
    rewrite IH.
    + rewrite <- app_assoc. reflexivity.
    + rewrite <- app_assoc. exact Hnd.
    + intros y Hy. apply Hb. right. exact Hy.
Qed.

(* Every `amount`-element subset T of [0, length) -- given as a strictly
   increasing list -- is the set of values of index::sample for some draw
   sequence.  (The side condition only excludes the debug assertion of
   sample_rejection; it always holds for amount < length.)                 *)
Theorem index_sample_complete (dbg : bool) (fuel : nat) (length amount : N) (T : list N) :
  StronglySorted N.lt T -> (forall y, In y T -> y < length) ->
  List.length T = N.to_nat amount ->
  amount < length \/ amount < 163 \/ dbg = false ->
  exists ds l, index_sample list_draw dbg (S fuel) length amount ds = Done (l, []) /\
               Permutation l T.
Proof.
  intros Hs Hb Hlen Hside.
  pose proof (sorted_NoDup T Hs) as Hnd.
  pose proof (bounded_NoDup_length length T Hnd Hb) as Hle.
  unfold index_sample. destruct (N.ltb_spec length amount); [lia|].
  assert (Hrej : forall k, sample_select length amount = ARejection32 \/
                           sample_select length amount = ARejection64 ->
            exists ds l, sample_rejection list_draw dbg (S fuel) k length amount ds
                         = Done (l, []) /\ Permutation l T).
  { intros k Hsel. exists T, T. split; [|apply Permutation_refl].
    assert (Hal : amount < length \/ (dbg = false /\ length <> 0)).
    { destruct (N.lt_ge_cases amount length) as [|Hge]; [left; assumption|right].
      assert (amount = length) by lia. subst amount.
      assert (Hn0 : length <> 0).
      { intros ->. destruct Hsel as [E|E]; vm_compute in E; discriminate E. }
      split; [|exact Hn0].
      destruct Hside as [|[H163|Hd]]; [lia| |exact Hd]. exfalso.
      unfold sample_select in Hsel.
      destruct (N.ltb_spec (2 ^ 32 - 1) length) as [Hbig|_]; [lia|].
      destruct (N.leb_spec 163 length); [lia|].
      destruct (500000 <=? length); cbn in Hsel;
        destruct (_ && _) in Hsel; destruct Hsel; discriminate. }
    unfold sample_rejection.
    replace (dbg && (length <=? amount)) with false.
    2:{ destruct Hal as [Hal|[-> _]]; [|reflexivity].
        destruct (N.leb_spec length amount); [lia|]. rewrite andb_false_r. reflexivity. }
    destruct (N.eqb_spec length 0) as [E|_]; [exfalso; destruct Hal; lia|].
    rewrite <- Hlen. rewrite <- (app_nil_r T) at 2.
    rewrite (rejection_loop_complete fuel k length T [] []); [reflexivity|exact Hnd|exact Hb]. }
  destruct (sample_select length amount) eqn:Esel.
  - destruct (sample_inplace_complete length amount T [] Hnd Hb Hlen) as [ds Hrun].
    exists ds, T. rewrite app_nil_r in Hrun. split; [exact Hrun|apply Permutation_refl].
  - destruct (sample_floyd_complete length amount T [] Hs Hb Hlen) as [ds [l [Hrun Hp]]].
    exists ds, l. rewrite app_nil_r in Hrun. split; assumption.
  - apply Hrej. left. reflexivity.
  - apply Hrej. right. reflexivity.
Qed.

(* ===================================================================== *)
(*  5. The priority map                                                   *)
(* ===================================================================== *)

Lemma pm_get_set (k' k v : N) (m : list (N * N)) :
  pm_get k' (pm_set k v m) = if k' =? k then Some v else pm_get k' m.
Proof.
  induction m as [|[a b] m IH]; cbn [pm_set pm_get].
  - rewrite (N.eqb_sym k k'). reflexivity.
  - destruct (N.eqb_spec a k) as [->|Hne]; cbn [pm_get].
    + destruct (N.eqb_spec k k') as [->|Hne']; [rewrite N.eqb_refl; reflexivity|].
      destruct (N.eqb_spec k' k); [congruence|reflexivity].
    + destruct (N.eqb_spec a k') as [->|Hne'].
      * destruct (N.eqb_spec k' k); [congruence|reflexivity].
      * exact IH.
Qed.

Lemma pm_get_keys (k : N) (m : list (N * N)) :
  pm_get k m <> None <-> In k (map fst m).
Proof.
  induction m as [|[a b] m IH]; cbn [pm_get map fst In]; [tauto|].
  destruct (N.eqb_spec a k) as [->|Hne].
  - split; [left; reflexivity|discriminate].
  - rewrite IH. split; [right; assumption|]. intros [E|H]; [congruence|exact H].
Qed.

Lemma pm_get_vals (k v : N) (m : list (N * N)) :
  pm_get k m = Some v -> In v (map snd m).
Proof.
  induction m as [|[a b] m IH]; cbn [pm_get map snd In]; [discriminate|].
  destruct (a =? k).
  - intros E. injection E as ->. left. reflexivity.
  - intros H. right. apply IH. exact H.
Qed.

Lemma pm_set_keys_some (k v : N) (m : list (N * N)) :
  pm_get k m <> None -> map fst (pm_set k v m) = map fst m.
Proof.
  induction m as [|[a b] m IH]; cbn [pm_get pm_set]; [congruence|].
  destruct (a =? k); [reflexivity|]. intros H. cbn [map fst]. rewrite IH by exact H.
  reflexivity.
Qed.

Lemma pm_set_none (k v : N) (m : list (N * N)) :
  pm_get k m = None -> pm_set k v m = m ++ [(k, v)].
Proof.
  induction m as [|[a b] m IH]; cbn [pm_get pm_set]; [reflexivity|].
  destruct (a =? k); [discriminate|]. intros H. rewrite IH by exact H. reflexivity.
Qed.

Lemma pm_set_vals_in (k v v' : N) (m : list (N * N)) :
  In v' (map snd (pm_set k v m)) -> v' = v \/ In v' (map snd m).
Proof.
  induction m as [|[a b] m IH]; cbn [pm_set].
  - cbn. intros [E|[]]. left. congruence.
  - destruct (a =? k); cbn [map snd In].
    + intros [E|H]; [left; congruence|right; right; exact H].
    + intros [E|H]; [right; left; exact E|].
      destruct (IH H) as [E|H']; [left; exact E|right; right; exact H'].
Qed.

Lemma pm_set_vals_NoDup (k v : N) (m : list (N * N)) :
  NoDup (map snd m) -> ~ In v (map snd m) -> NoDup (map snd (pm_set k v m)).
Proof.
  induction m as [|[a b] m IH]; cbn [pm_set]; intros Hnd Hv.
  - cbn. constructor; [tauto|constructor].
  - cbn [map snd] in Hnd, Hv. inversion Hnd as [|x l Hb Hm]; subst.
    destruct (a =? k); cbn [map snd].
    + constructor; [|exact Hm]. intros Hin. apply Hv. right. exact Hin.
    + constructor.
      * intros Hin. apply pm_set_vals_in in Hin. destruct Hin as [E|Hin]; [|tauto].
        apply Hv. left. exact E.
      * apply IH; [exact Hm|]. intros Hin. apply Hv. right. exact Hin.
Qed.

Lemma pm_set_old_gone (k v old : N) (m : list (N * N)) :
  NoDup (map snd m) -> pm_get k m = Some old -> v <> old ->
  ~ In old (map snd (pm_set k v m)).
Proof.
  induction m as [|[a b] m IH]; cbn [pm_get pm_set]; intros Hnd Hg Hv; [discriminate|].
  cbn [map snd] in Hnd. inversion Hnd as [|x l Hb Hm]; subst.
  destruct (a =? k); cbn [map snd In].
  - injection Hg as ->. intros [E|Hin]; [congruence|tauto].
  - intros [E|Hin].
    + subst b. apply Hb. apply (pm_get_vals _ _ _ Hg).
    + exact (IH Hm Hg Hv Hin).
Qed.

Lemma pm_get_inj (a b v : N) (m : list (N * N)) :
  NoDup (map snd m) -> pm_get a m = Some v -> pm_get b m = Some v -> a = b.
Proof.
  induction m as [|[k w] m IH]; cbn [pm_get]; intros Hnd Ha Hb; [discriminate|].
  cbn [map snd] in Hnd. inversion Hnd as [|x l Hw Hm]; subst.
  destruct (N.eqb_spec k a) as [Ea|Na]; destruct (N.eqb_spec k b) as [Eb|Nb].
  - congruence.
  - injection Ha as ->. exfalso. apply Hw. apply (pm_get_vals _ _ _ Hb).
  - injection Hb as ->. exfalso. apply Hw. apply (pm_get_vals _ _ _ Ha).
  - exact (IH Hm Ha Hb).
Qed.

Lemma pm_len_app (m1 m2 : list (N * N)) : pm_len (m1 ++ m2) = pm_len m1 + pm_len m2.
Proof. unfold pm_len. rewrite app_length. lia. Qed.

Lemma pm_len_keys (m m' : list (N * N)) : map fst m' = map fst m -> pm_len m' = pm_len m.
Proof.
  intros H. unfold pm_len. rewrite <- (map_length fst m'), H, map_length. reflexivity.
Qed.

(* under the key invariant, a task is known iff its id is below len *)
Lemma pm_wf_get (m : list (N * N)) (np k : N) :
  pm_wf m np -> (pm_get k m <> None <-> k < pm_len m).
Proof. intros [Hk _]. rewrite pm_get_keys, Hk. apply In_nseq. Qed.

Lemma pm_wf_get_lt (m : list (N * N)) (np k v : N) :
  pm_wf m np -> pm_get k m = Some v -> v < np.
Proof. intros [_ [_ Hb]] H. apply Hb. apply (pm_get_vals _ _ _ H). Qed.

(* pm_set on a known key with a fresh priority keeps the invariant *)
Lemma pm_wf_set_known (m : list (N * N)) (np k : N) :
  pm_wf m np -> k < pm_len m ->
  pm_wf (pm_set k np m) (np + 1) /\ pm_len (pm_set k np m) = pm_len m.
Proof.
  intros Hwf Hk. pose proof (proj2 (pm_wf_get m np k Hwf) Hk) as Hg.
  destruct Hwf as [Hkeys [Hnd Hb]].
  pose proof (pm_set_keys_some k np m Hg) as Hk'.
  pose proof (pm_len_keys _ _ Hk') as Hl.
  split; [|exact Hl]. split; [rewrite Hk', Hl; exact Hkeys|]. split.
  - apply pm_set_vals_NoDup; [exact Hnd|]. intros Hin. specialize (Hb _ Hin). lia.
  - intros v Hv. apply pm_set_vals_in in Hv. destruct Hv as [->|Hv]; [lia|].
    specialize (Hb _ Hv). lia.
Qed.

(* appending key len with a value that is not in use *)
Lemma pm_wf_append (m : list (N * N)) (np np' v : N) :
  map fst m = nseq (pm_len m) -> NoDup (map snd m) ->
  (forall w, In w (map snd m) -> w < np') -> ~ In v (map snd m) -> v < np' ->
  pm_wf (pm_set (pm_len m) v m) np' /\ pm_len (pm_set (pm_len m) v m) = pm_len m + 1.
Proof.
  intros Hkeys Hnd Hb Hv Hvb.
  assert (Hg : pm_get (pm_len m) m = None).
  { destruct (pm_get (pm_len m) m) eqn:E; [|reflexivity]. exfalso.
    assert (H : pm_get (pm_len m) m <> None) by congruence.
    apply pm_get_keys in H. rewrite Hkeys in H. apply In_nseq in H. lia. }
  rewrite (pm_set_none _ _ _ Hg).
  assert (Hl : pm_len (m ++ [(pm_len m, v)]) = pm_len m + 1) by (rewrite pm_len_app; reflexivity).
  split; [|exact Hl]. split; [|split].
  - rewrite Hl, map_app, Hkeys, nseq_succ. reflexivity.
  - rewrite map_app. cbn [map snd]. apply NoDup_snoc; assumption.
  - intros w Hw. rewrite map_app in Hw. apply in_app_or in Hw.
    destruct Hw as [Hw|[<-|[]]]; [apply Hb; exact Hw|exact Hvb].
Qed.

(* ===================================================================== *)
(*  6. New-task insertion                                                 *)
(* ===================================================================== *)

Lemma pct_insert_new_spec dbg fuel new m np rng m' np' rng' :
  pct_insert_new dbg fuel new (m, np, rng) = Done (m', np', rng') ->
  exists target,
    1 <= target /\ target <= pm_len m /\
    (target <> new -> pm_get target m <> None) /\
    m' = insert_effect new target np m /\ np' = np + 1.
Proof.
  unfold pct_insert_new. intros H. inv_bind H. destruct a as [r rng1].
  apply (gen_range_spec _ (pcg_draw_range_any fuel)) in Ha.
  inv_bind H. destruct a as [new_prio prios].
  exists (r + 1). split; [lia|]. split; [lia|].
  unfold insert_effect.
  destruct (N.eqb_spec (r + 1) new) as [E|Hne].
  - injection Ha0 as <- <-. split; [congruence|].
    destruct (dbg && _); [discriminate|]. injection H as <- <- _. split; reflexivity.
  - destruct (pm_get (r + 1) m) as [old|] eqn:Eg; [|discriminate].
    injection Ha0 as <- <-. split; [congruence|].
    destruct (dbg && _); [discriminate|]. injection H as <- <- _. split; reflexivity.
Qed.

(* insert_effect keeps the invariant when the new task is task number len *)
Lemma insert_effect_wf (m : list (N * N)) (np target : N) :
  pm_wf m np -> 1 <= target -> target <= pm_len m ->
  pm_wf (insert_effect (pm_len m) target np m) (np + 1) /\
  pm_len (insert_effect (pm_len m) target np m) = pm_len m + 1.
Proof.
  intros Hwf H1 H2. unfold insert_effect.
  destruct (N.eqb_spec target (pm_len m)) as [E|Hne].
  - destruct Hwf as [Hk [Hnd Hb]]. apply pm_wf_append; try assumption.
    + intros w Hw. specialize (Hb w Hw). lia.
    + intros Hin. specialize (Hb _ Hin). lia.
    + lia.
  - assert (Hlt : target < pm_len m) by lia.
    pose proof (proj2 (pm_wf_get m np target Hwf) Hlt) as Hg.
    destruct (pm_get target m) as [old|] eqn:Eg; [|congruence].
    pose proof (pm_wf_get_lt m np target old Hwf Eg) as Hold.
    destruct (pm_wf_set_known m np target Hwf Hlt) as [[Hk1 [Hnd1 Hb1]] Hl1].
    rewrite <- Hl1.
    assert (Hgone : ~ In old (map snd (pm_set target np m))).
    { destruct Hwf as [_ [Hnd _]]. apply (pm_set_old_gone _ _ _ _ Hnd Eg). lia. }
    apply pm_wf_append; try assumption. lia.
Qed.

Lemma pct_insert_loop_spec dbg fuel : forall cnt m np rng m' np' rng',
    pm_wf m np ->
    pct_insert_loop dbg fuel cnt (pm_len m) (m, np, rng) = Done (m', np', rng') ->
    exists targets,
      length targets = cnt /\ targets_ok (pm_len m) targets /\
      m' = insert_effects (pm_len m) np targets m /\
      np' = np + N.of_nat cnt /\
      pm_wf m' np' /\ pm_len m' = pm_len m + N.of_nat cnt.
Proof.
  induction cnt as [|cnt IH]; intros m np rng m' np' rng' Hwf H.
  - cbn in H. injection H as <- <- _. exists []. cbn.
    repeat split; try reflexivity; try lia; try apply Hwf.
  - cbn [pct_insert_loop] in H. inv_bind H. destruct a as [[m1 np1] rng1].
    apply pct_insert_new_spec in Ha.
    destruct Ha as [target [H1 [H2 [_ [-> ->]]]]].
    destruct (insert_effect_wf m np target Hwf H1 H2) as [Hwf1 Hl1].
    rewrite <- Hl1 in H.
    destruct (IH _ _ _ _ _ _ Hwf1 H) as [ts [Hlen [Hok [Hm' [Hnp' [Hwf' Hl']]]]]].
    exists (target :: ts). cbn [length targets_ok insert_effects].
    rewrite Hl1 in Hok, Hm', Hl'.
    repeat split; try assumption; try lia; apply Hwf'.
Qed.

(* lookups of tasks that are neither new nor a target are untouched *)
Lemma insert_effect_get_other (new target np a : N) (m : list (N * N)) :
  a <> new -> a <> target ->
  pm_get a (insert_effect new target np m) = pm_get a m.
Proof.
  intros Hn Ht. unfold insert_effect.
  destruct (target =? new).
  - rewrite pm_get_set. destruct (N.eqb_spec a new); [congruence|reflexivity].
  - destruct (pm_get target m); [|reflexivity].
    rewrite !pm_get_set.
    destruct (N.eqb_spec a new); [congruence|].
    destruct (N.eqb_spec a target); [congruence|reflexivity].
Qed.

Lemma insert_effects_get_other : forall (targets : list N) (new np a : N) (m : list (N * N)),
    a < new -> ~ In a targets ->
    pm_get a (insert_effects new np targets m) = pm_get a m.
Proof.
  induction targets as [|t ts IH]; intros new np a m Ha Hin; [reflexivity|].
  cbn [insert_effects]. rewrite IH.
  - apply insert_effect_get_other; [lia|]. intros ->. apply Hin. left. reflexivity.
  - lia.
  - intros H. apply Hin. right. exact H.
Qed.

(* what a single insertion does to the two tasks involved *)
Lemma insert_effect_get_new (new target np : N) (m : list (N * N)) :
  (target <> new -> pm_get target m <> None) ->
  pm_get new (insert_effect new target np m) =
  if target =? new then Some np else pm_get target m.
Proof.
  intros Hg. unfold insert_effect. destruct (N.eqb_spec target new) as [E|Hne].
  - rewrite pm_get_set, N.eqb_refl. reflexivity.
  - specialize (Hg Hne). destruct (pm_get target m) as [old|]; [|congruence].
    rewrite pm_get_set, N.eqb_refl. reflexivity.
Qed.

Lemma insert_effect_get_target (new target np : N) (m : list (N * N)) :
  target <> new -> pm_get target m <> None ->
  pm_get target (insert_effect new target np m) = Some np.
Proof.
  intros Hne Hg. unfold insert_effect.
  destruct (N.eqb_spec target new); [congruence|].
  destruct (pm_get target m); [|congruence].
  rewrite !pm_get_set. destruct (N.eqb_spec target new); [congruence|].
  rewrite N.eqb_refl. reflexivity.
Qed.

(* ===================================================================== *)
(*  7. min_by_key                                                         *)
(* ===================================================================== *)

Lemma key_le_refl (a : option N) : key_le a a = true.
Proof. destruct a; cbn; [apply N.leb_refl|reflexivity]. Qed.

Lemma key_le_trans (a b c : option N) :
  key_le a b = true -> key_le b c = true -> key_le a c = true.
Proof.
  destruct a as [x|], b as [y|], c as [z|]; cbn; try congruence.
  rewrite !N.leb_le. lia.
Qed.

Lemma key_le_total (a b : option N) : key_le a b = false -> key_le b a = true.
Proof.
  destruct a as [x|], b as [y|]; cbn; try congruence.
  rewrite N.leb_gt, N.leb_le. lia.
Qed.

Lemma min_fold_spec (m : list (N * N)) : forall (l : list N) (best : N),
    let r := fold_left (fun best u =>
                          if key_le (pm_get best m) (pm_get u m) then best else u) l best in
    (r = best \/ In r l) /\
    key_le (pm_get r m) (pm_get best m) = true /\
    (forall u, In u l -> key_le (pm_get r m) (pm_get u m) = true).
Proof.
  induction l as [|x l IH]; intros best; cbn [fold_left].
  - split; [left; reflexivity|]. split; [apply key_le_refl|intros u []].
  - destruct (key_le (pm_get best m) (pm_get x m)) eqn:E.
    + destruct (IH best) as [H1 [H2 H3]]. split; [|split].
      * destruct H1 as [H1|H1]; [left; exact H1|right; right; exact H1].
      * exact H2.
      * intros u [<-|Hu]; [|apply H3; exact Hu].
        eapply key_le_trans; [exact H2|exact E].
    + destruct (IH x) as [H1 [H2 H3]]. apply key_le_total in E. split; [|split].
      * destruct H1 as [H1|H1]; right; [left; symmetry; exact H1|right; exact H1].
      * eapply key_le_trans; [exact H2|exact E].
      * intros u [<-|Hu]; [exact H2|apply H3; exact Hu].
Qed.

Lemma min_by_key_spec (m : list (N * N)) (l : list N) (t : N) :
  min_by_key m l = Some t ->
  In t l /\ forall u, In u l -> key_le (pm_get t m) (pm_get u m) = true.
Proof.
  destruct l as [|x l]; cbn [min_by_key]; [discriminate|].
  intros E. injection E as <-.
  destruct (min_fold_spec m l x) as [H1 [H2 H3]]. split.
  - destruct H1 as [H1|H1]; [left; symmetry; exact H1|right; exact H1].
  - intros u [<-|Hu]; [exact H2|apply H3; exact Hu].
Qed.

Lemma max_fold_spec : forall (l : list N) (a : N),
    a <= fold_left N.max l a /\ forall u, In u l -> u <= fold_left N.max l a.
Proof.
  induction l as [|x l IH]; intros a; cbn [fold_left]; [split; [lia|intros u []]|].
  destruct (IH (N.max a x)) as [H1 H2]. split; [lia|].
  intros u [<-|Hu]; [lia|apply H2; exact Hu].
Qed.

Lemma max_id_spec (l : list N) (mx : N) :
  max_id l = Some mx -> forall u, In u l -> u <= mx.
Proof.
  destruct l as [|x l]; cbn [max_id]; [discriminate|]. intros E. injection E as <-.
  destruct (max_fold_spec l x) as [H1 H2].
  intros u [<-|Hu]; [exact H1|apply H2; exact Hu].
Qed.

(* ===================================================================== *)
(*  8. next_task                                                          *)
(* ===================================================================== *)

Theorem pct_next_task_effect_holds dbg fuel p offered current y t p' :
  pct_wf p ->
  pct_next_task dbg fuel p offered current y = Done (t, p') ->
  exists targets, pct_next_task_effect dbg p offered current y t p' targets.
Proof.
  intros Hwf H. unfold pct_next_task in H.
  destruct (max_id offered) as [mx|] eqn:Emx; [|discriminate].
  inv_bind H. destruct a as [[m1 np1] rng1].
  apply (pct_insert_loop_spec _ _ _ _ _ _ _ _ _ Hwf) in Ha.
  destruct Ha as [targets [Hlen [Hok [Hm1 [Hnp1 [Hwf1 Hl1]]]]]].
  exists targets. unfold pct_next_task_effect. exists mx. split; [exact Emx|].
  cbv zeta. rewrite Hlen.
  split; [reflexivity|]. split; [exact Hok|].
  inv_bind H. destruct a as [[[m2 np2] steps2] ms2].
  destruct (min_by_key m2 offered) as [t'|] eqn:Emin; [|discriminate].
  injection H as <- <-. cbn [pct_priorities pct_next_priority pct_steps pct_max_steps
    pct_max_iterations pct_max_depth pct_iterations pct_change_points pct_data_source].
  rewrite <- Hm1, <- Hnp1.
  destruct (1 <? N.of_nat (length offered)) eqn:Emulti; cbn [andb].
  - inv_bind Ha. destruct a as [m3 np3]. injection Ha as <- <- <- <-.
    destruct (memN (pct_steps p) (pct_change_points p) || y) eqn:Edem.
    + destruct current as [c|]; [|discriminate].
      destruct (dbg && _) eqn:Edbg; [discriminate|]. injection Ha0 as <- <-.
      split.
      { intros _. exists c. split; [reflexivity|]. intros ->. cbn [andb] in Edbg.
        destruct (pm_get c m1); congruence. }
      repeat split; try reflexivity; try exact Emin.
      destruct (N.ltb_spec (pct_max_steps p) (pct_steps p + 1)); lia.
    + injection Ha0 as <- <-. split; [discriminate|].
      repeat split; try reflexivity; try exact Emin.
      destruct (N.ltb_spec (pct_max_steps p) (pct_steps p + 1)); lia.
  - injection Ha as <- <- <- <-. split; [discriminate|].
    repeat split; try reflexivity; try exact Emin.
Qed.

(* ---- pct_strict ---- *)
Theorem pct_next_task_min dbg fuel p offered current y t p' :
  pct_next_task dbg fuel p offered current y = Done (t, p') ->
  In t offered /\
  forall u, In u offered ->
    key_le (pm_get t (pct_priorities p')) (pm_get u (pct_priorities p')) = true.
Proof.
  intros H. unfold pct_next_task in H.
  destruct (max_id offered); [|discriminate].
  inv_bind H. destruct a as [[m1 np1] rng1].
  inv_bind H. destruct a as [[[m2 np2] s2] ms2].
  destruct (min_by_key m2 offered) as [t'|] eqn:Emin; [|discriminate].
  injection H as <- <-. cbn [pct_priorities]. apply min_by_key_spec. exact Emin.
Qed.

(* ---- the insertion loop keeps the invariant ---- *)
Lemma insert_effects_wf : forall (targets : list N) (m : list (N * N)) (np : N),
    pm_wf m np -> targets_ok (pm_len m) targets ->
    pm_wf (insert_effects (pm_len m) np targets m) (np + N.of_nat (length targets)) /\
    pm_len (insert_effects (pm_len m) np targets m) = pm_len m + N.of_nat (length targets).
Proof.
  induction targets as [|t ts IH]; intros m np Hwf Hok.
  - cbn. rewrite !N.add_0_r. split; [exact Hwf|reflexivity].
  - cbn [targets_ok] in Hok. destruct Hok as [H1 [H2 Hok]].
    destruct (insert_effect_wf m np t Hwf H1 H2) as [Hwf1 Hl1].
    cbn [insert_effects length]. rewrite <- Hl1 in Hok |- *.
    destruct (IH _ _ Hwf1 Hok) as [Hwf' Hl'].
    replace (np + N.of_nat (S (length ts))) with (np + 1 + N.of_nat (length ts)) by lia.
    split; [exact Hwf'|]. rewrite Hl', Hl1. lia.
Qed.

(* ---- pct_distinct for next_task ---- *)
Theorem pct_next_task_wf dbg fuel p offered current y t p' :
  pct_wf p ->
  (dbg = true \/
   forall c mx, current = Some c -> max_id offered = Some mx ->
                c < N.max (pm_len (pct_priorities p)) (1 + mx)) ->
  pct_next_task dbg fuel p offered current y = Done (t, p') ->
  pct_wf p' /\
  (forall mx, max_id offered = Some mx ->
     pm_len (pct_priorities p') = N.max (pm_len (pct_priorities p)) (1 + mx)).
Proof.
  intros Hwf Hcur H.
  destruct (pct_next_task_effect_holds _ _ _ _ _ _ _ _ Hwf H) as [targets He].
  destruct He as [mx [Emx He]]. cbv zeta in He.
  destruct He as [Hlen [Hok [Hdem [Hpr [Hnp _]]]]].
  destruct (insert_effects_wf targets _ _ Hwf Hok) as [Hwf1 Hl1].
  set (m1 := insert_effects (pm_len (pct_priorities p)) (pct_next_priority p) targets
               (pct_priorities p)) in *.
  set (np1 := pct_next_priority p + N.of_nat (length targets)) in *.
  assert (Hl1' : pm_len m1 = N.max (pm_len (pct_priorities p)) (1 + mx)) by lia.
  unfold pct_wf. rewrite Hpr, Hnp.
  destruct (_ && _) eqn:Ed.
  - destruct (Hdem eq_refl) as [c [-> Hc]].
    assert (Hck : c < pm_len m1).
    { destruct Hcur as [Hd|Hcur].
      - apply (pm_wf_get m1 np1 c Hwf1). apply Hc. exact Hd.
      - rewrite Hl1'. apply Hcur; [reflexivity|exact Emx]. }
    destruct (pm_wf_set_known m1 np1 c Hwf1 Hck) as [Hwf2 Hl2].
    split; [exact Hwf2|]. intros mx' E. rewrite E in Emx. injection Emx as ->.
    rewrite Hl2. exact Hl1'.
  - split; [exact Hwf1|]. intros mx' E. rewrite E in Emx. injection Emx as ->. exact Hl1'.
Qed.

(* under the invariant the chosen task is THE strictly best offered one *)
Theorem pct_next_task_strict dbg fuel p offered current y t p' :
  pct_wf p ->
  (dbg = true \/
   forall c mx, current = Some c -> max_id offered = Some mx ->
                c < N.max (pm_len (pct_priorities p)) (1 + mx)) ->
  pct_next_task dbg fuel p offered current y = Done (t, p') ->
  In t offered /\
  exists a, pm_get t (pct_priorities p') = Some a /\
    forall u, In u offered -> u <> t ->
      exists b, pm_get u (pct_priorities p') = Some b /\ a < b.
Proof.
  intros Hwf Hcur H.
  destruct (pct_next_task_min _ _ _ _ _ _ _ _ H) as [Hin Hmin].
  destruct (pct_next_task_wf _ _ _ _ _ _ _ _ Hwf Hcur H) as [Hwf' Hl'].
  split; [exact Hin|].
  assert (Hknown : forall u, In u offered -> exists b, pm_get u (pct_priorities p') = Some b).
  { intros u Hu. destruct (max_id offered) as [mx|] eqn:Emx.
    - pose proof (max_id_spec _ _ Emx u Hu) as Hle. specialize (Hl' mx eq_refl).
      assert (Hk : u < pm_len (pct_priorities p')) by lia.
      apply (pm_wf_get _ _ u Hwf') in Hk.
      destruct (pm_get u (pct_priorities p')) as [b|]; [exists b; reflexivity|congruence].
    - destruct offered; [destruct Hu|discriminate]. }
  destruct (Hknown t Hin) as [a Ea]. exists a. split; [exact Ea|].
  intros u Hu Hne. destruct (Hknown u Hu) as [b Eb]. exists b. split; [exact Eb|].
  specialize (Hmin u Hu). rewrite Ea, Eb in Hmin. cbn in Hmin. apply N.leb_le in Hmin.
  destruct (N.eq_dec a b) as [->|]; [|lia]. exfalso. apply Hne.
  destruct Hwf' as [_ [Hnd _]]. exact (pm_get_inj u t b _ Hnd Eb Ea).
Qed.

(* ---- pct_order_changes_only: lookups of uninvolved tasks are untouched ---- *)
Theorem pct_next_task_unchanged dbg p offered current y t p' targets a :
  pct_next_task_effect dbg p offered current y t p' targets ->
  a < pm_len (pct_priorities p) -> ~ In a targets -> current <> Some a ->
  pm_get a (pct_priorities p') = pm_get a (pct_priorities p).
Proof.
  intros [mx [_ He]] Ha Hnt Hnc. cbv zeta in He.
  destruct He as [_ [_ [_ [Hpr _]]]]. rewrite Hpr.
  assert (E : pm_get a (insert_effects (pm_len (pct_priorities p)) (pct_next_priority p)
                          targets (pct_priorities p)) = pm_get a (pct_priorities p))
    by (apply insert_effects_get_other; assumption).
  destruct (_ && _); [|exact E].
  destruct current as [c|]; [|exact E].
  rewrite pm_get_set. destruct (N.eqb_spec a c) as [->|]; [congruence|exact E].
Qed.

Theorem pct_next_task_demoted dbg p offered current y t p' targets :
  pct_next_task_effect dbg p offered current y t p' targets ->
  ((1 <? N.of_nat (length offered)) &&
   (memN (pct_steps p) (pct_change_points p) || y) = true ->
   exists c, current = Some c /\
     pm_get c (pct_priorities p') =
       Some (pct_next_priority p + N.of_nat (length targets)) /\
     pct_next_priority p' = pct_next_priority p + N.of_nat (length targets) + 1) /\
  ((1 <? N.of_nat (length offered)) &&
   (memN (pct_steps p) (pct_change_points p) || y) = false ->
   pct_priorities p' =
     insert_effects (pm_len (pct_priorities p)) (pct_next_priority p) targets
                    (pct_priorities p) /\
   pct_next_priority p' = pct_next_priority p + N.of_nat (length targets)).
Proof.
  intros [mx [_ He]]. cbv zeta in He.
  destruct He as [_ [_ [Hdem [Hpr [Hnp _]]]]].
  split; intros Ed; rewrite Ed in *.
  - destruct (Hdem eq_refl) as [c [-> _]]. exists c. split; [reflexivity|].
    rewrite Hpr, pm_get_set, N.eqb_refl. split; [reflexivity|exact Hnp].
  - split; assumption.
Qed.

(* ---- the call-local bookkeeping, without any invariant ---- *)
Lemma pct_next_task_frame dbg fuel p offered current y t p' :
  pct_next_task dbg fuel p offered current y = Done (t, p') ->
  pct_max_iterations p' = pct_max_iterations p /\
  pct_max_depth p' = pct_max_depth p /\
  pct_iterations p' = pct_iterations p /\
  pct_change_points p' = pct_change_points p /\
  pct_data_source p' = pct_data_source p /\
  pct_steps p' = (if 1 <? N.of_nat (length offered) then pct_steps p + 1 else pct_steps p) /\
  pct_max_steps p' = (if 1 <? N.of_nat (length offered)
                      then N.max (pct_max_steps p) (pct_steps p + 1) else pct_max_steps p).
Proof.
  intros H. unfold pct_next_task in H.
  destruct (max_id offered); [|discriminate].
  inv_bind H. destruct a as [[m1 np1] rng1].
  inv_bind H. destruct a as [[[m2 np2] s2] ms2].
  destruct (min_by_key m2 offered); [|discriminate].
  injection H as <- <-. cbn [pct_max_iterations pct_max_depth pct_iterations
    pct_change_points pct_data_source pct_steps pct_max_steps].
  repeat (split; [reflexivity|]).
  destruct (1 <? N.of_nat (length offered)).
  - inv_bind Ha0. destruct a as [m3 np3]. injection Ha0 as _ _ <- <-.
    split; [reflexivity|].
    destruct (N.ltb_spec (pct_max_steps p) (pct_steps p + 1)); lia.
  - injection Ha0 as _ _ <- <-. split; reflexivity.
Qed.

(* ===================================================================== *)
(*  9. new_execution                                                      *)
(* ===================================================================== *)

Lemma pct_reassign_spec dbg : forall (perm : list N) (i : N) (m m' : list (N * N)),
    pct_reassign dbg i perm m = Done m' ->
    (forall k, i <= k -> k < i + N.of_nat (length perm) -> pm_get k m <> None) ->
    map fst m' = map fst m /\
    forall k, pm_get k m' =
      if (i <=? k) && (k <? i + N.of_nat (length perm))
      then Some (nth (N.to_nat (k - i)) perm 0) else pm_get k m.
Proof.
  induction perm as [|v perm IH]; intros i m m' H Hk.
  - cbn in H. injection H as <-. split; [reflexivity|]. intros k.
    cbn [length]. destruct (N.leb_spec i k); destruct (N.ltb_spec k (i + N.of_nat 0));
      try reflexivity. lia.
  - cbn [pct_reassign] in H. destruct (dbg && _); [discriminate|].
    assert (Hgi : pm_get i m <> None) by (apply Hk; cbn [length]; lia).
    apply IH in H.
    + destruct H as [Hkeys Hget]. split.
      * rewrite Hkeys. apply pm_set_keys_some. exact Hgi.
      * intros k. rewrite Hget, pm_get_set. cbn [length].
        destruct (N.leb_spec (i + 1) k); destruct (N.ltb_spec k (i + 1 + N.of_nat (length perm)));
          destruct (N.leb_spec i k); destruct (N.ltb_spec k (i + N.of_nat (S (length perm))));
          destruct (N.eqb_spec k i); cbn [andb]; try lia; try reflexivity.
        -- replace (N.to_nat (k - i)) with (S (N.to_nat (k - (i + 1)))) by lia. reflexivity.
        -- subst k. replace (N.to_nat (i - i)) with 0%nat by lia. reflexivity.
    + intros k H1 H2. rewrite pm_get_set. destruct (N.eqb_spec k i); [discriminate|].
      apply Hk; cbn [length]; lia.
Qed.

Lemma vals_of_gets (m : list (N * N)) :
  NoDup (map fst m) ->
  map snd m = map (fun k => match pm_get k m with Some v => v | None => 0 end) (map fst m).
Proof.
  induction m as [|[a b] m IH]; intros Hnd; [reflexivity|].
  cbn [map fst snd] in *. inversion Hnd as [|x l Ha Hm]; subst.
  cbn [pm_get]. rewrite N.eqb_refl. f_equal.
  rewrite (IH Hm). apply map_ext_in. intros k Hk.
  destruct (N.eqb_spec a k) as [->|]; [tauto|reflexivity].
Qed.

Lemma map_nth_nseq (l : list N) (n : N) :
  length l = N.to_nat n -> map (fun k => nth (N.to_nat k) l 0) (nseq n) = l.
Proof.
  intros Hl. set (f := fun k => nth (N.to_nat k) l 0).
  apply (nth_ext _ _ 0 0).
  - rewrite map_length, length_nseq. lia.
  - intros i Hi. rewrite map_length, length_nseq in Hi.
    rewrite (nth_indep _ 0 (f 0)) by (rewrite map_length, length_nseq; exact Hi).
    rewrite (map_nth f). rewrite nth_nseq by exact Hi. unfold f.
    rewrite Nat2N.id. reflexivity.
Qed.

Theorem pct_new_execution_spec dbg fuel p s p' :
  pct_wf p ->
  pct_new_execution dbg fuel p = Done (Some (s, p')) ->
  pct_wf p' /\
  pct_iterations p < pct_max_iterations p /\
  pct_iterations p' = pct_iterations p + 1 /\
  pct_max_iterations p' = pct_max_iterations p /\
  pct_max_depth p' = pct_max_depth p /\
  pct_max_steps p' = pct_max_steps p /\
  pct_steps p' = 0 /\
  pm_len (pct_priorities p') = pm_len (pct_priorities p) /\
  (pct_iterations p = 0 ->
     pct_priorities p' = pct_priorities p /\
     pct_next_priority p' = pct_next_priority p /\
     pct_change_points p' = pct_change_points p /\
     pct_rng p' = pct_rng p) /\
  (0 < pct_iterations p ->
     0 < pct_max_steps p /\
     Permutation (map snd (pct_priorities p')) (nseq (pm_len (pct_priorities p))) /\
     pct_next_priority p' = pm_len (pct_priorities p) /\
     NoDup (pct_change_points p') /\
     (forall c, In c (pct_change_points p') -> 1 <= c /\ c < pct_max_steps p) /\
     length (pct_change_points p') =
       N.to_nat (N.min (pct_max_depth p - 1) (pct_max_steps p - 1))).
Proof.
  intros Hwf H. unfold pct_new_execution in H.
  destruct (N.leb_spec (pct_max_iterations p) (pct_iterations p)) as [|Hit]; [discriminate|].
  inv_bind H. rename a into p1.
  destruct (ds_reinitialize (pct_data_source p1)) as [seed d].
  injection H as _ <-.
  cbn [pct_priorities pct_next_priority pct_steps pct_max_steps pct_rng
       pct_max_iterations pct_max_depth pct_iterations pct_change_points pct_data_source].
  destruct (N.ltb_spec 0 (pct_iterations p)) as [Hpos|Hzero].
  - destruct (N.eqb_spec (pct_max_steps p) 0) as [|Hms]; [discriminate|].
    inv_bind Ha. destruct a as [perm rng1].
    inv_bind Ha. rename a into prios.
    inv_bind Ha. destruct a as [cps rng2].
    injection Ha as <-.
    cbn [pct_priorities pct_next_priority pct_steps pct_max_steps pct_rng
       pct_max_iterations pct_max_depth pct_iterations pct_change_points pct_data_source].
    apply (shuffle_perm _ (pcg_draw_range_any fuel)) in Ha0.
    set (len := pm_len (pct_priorities p)) in *.
    assert (Hlp : length perm = N.to_nat len)
      by (rewrite <- (Permutation_length Ha0); apply length_nseq).
    pose proof Hwf as [Hkeys [Hnd Hb]].
    apply pct_reassign_spec in Ha1.
    2:{ intros k _ Hk. apply (pm_wf_get _ _ k Hwf). fold len. lia. }
    destruct Ha1 as [Hkeys' Hget'].
    assert (Hl' : pm_len prios = len) by (apply pm_len_keys; exact Hkeys').
    assert (Hvals : map snd prios = perm).
    { rewrite vals_of_gets by (rewrite Hkeys', Hkeys; apply NoDup_nseq).
      rewrite Hkeys', Hkeys. fold len.
      etransitivity; [|apply (map_nth_nseq perm len Hlp)].
      apply map_ext_in. intros k Hk. apply In_nseq in Hk.
      rewrite Hget'. destruct (N.leb_spec 0 k); [|lia].
      destruct (N.ltb_spec k (0 + N.of_nat (length perm))); [|lia].
      cbn [andb]. rewrite N.sub_0_r. reflexivity. }
    apply (index_sample_spec _ (pcg_draw_range_any fuel)) in Ha2.
    destruct Ha2 as [_ [Hcnd [Hcb Hcl]]].
    split.
    { unfold pct_wf, pm_wf. cbn [pct_priorities pct_next_priority].
      rewrite Hl', Hvals. split; [rewrite Hkeys'; exact Hkeys|]. split.
      * apply (Permutation_NoDup Ha0). apply NoDup_nseq.
      * intros v Hv. apply In_nseq. apply (Permutation_in _ (Permutation_sym Ha0) Hv). }
    repeat split; try reflexivity; try lia.
    all: try exact Hl'.
    all: try (rewrite Hvals; apply Permutation_sym; exact Ha0).
    all: try (apply FinFun.Injective_map_NoDup; [intros a b E; lia|exact Hcnd]).
    all: try (rewrite map_length; exact Hcl).
    all: match goal with
         | Hin : In _ (map _ _) |- _ =>
             apply in_map_iff in Hin; destruct Hin as [x [<- Hx]];
             specialize (Hcb x Hx); lia
         end.
  - injection Ha as <-.
    cbn [pct_priorities pct_next_priority pct_steps pct_max_steps pct_rng
       pct_max_iterations pct_max_depth pct_iterations pct_change_points pct_data_source].
    split; [exact Hwf|]. repeat split; try reflexivity; try lia.
Qed.

Theorem pct_new_execution_none dbg fuel p :
  pct_new_execution dbg fuel p = Done None <-> pct_max_iterations p <= pct_iterations p.
Proof.
  unfold pct_new_execution.
  destruct (N.leb_spec (pct_max_iterations p) (pct_iterations p)) as [Hle|Hlt].
  - split; [intros _; exact Hle|reflexivity].
  - split; [|lia]. intros H. exfalso. inv_bind H.
    destruct (ds_reinitialize _). discriminate.
Qed.

(* ===================================================================== *)
(*  10. The initial state, next_u64                                       *)
(* ===================================================================== *)

Lemma pct_init_wf :
  pm_wf (map (fun i => (i, i)) (nseq DEFAULT_INLINE_TASKS)) DEFAULT_INLINE_TASKS.
Proof.
  unfold pm_wf. rewrite !map_map. cbn [fst snd]. rewrite !map_id.
  unfold pm_len. rewrite map_length, length_nseq, N2Nat.id.
  split; [reflexivity|]. split; [apply NoDup_nseq|]. intros v Hv. apply In_nseq. exact Hv.
Qed.

Theorem pct_new_from_seed_spec seed max_depth max_iterations p :
  pct_new_from_seed seed max_depth max_iterations = Done p ->
  0 < max_depth /\ pct_wf p /\
  pct_iterations p = 0 /\ pct_max_iterations p = max_iterations /\
  pct_max_depth p = max_depth /\ pct_steps p = 0 /\ pct_max_steps p = 0 /\
  pct_change_points p = [] /\ pm_len (pct_priorities p) = DEFAULT_INLINE_TASKS.
Proof.
  unfold pct_new_from_seed. destruct (N.eqb_spec max_depth 0) as [|Hd]; [discriminate|].
  intros E. split; [lia|].
  assert (Hp : p = {| pct_max_iterations := max_iterations;
       pct_max_depth := max_depth;
       pct_iterations := 0;
       pct_priorities := map (fun i => (i, i)) (nseq DEFAULT_INLINE_TASKS);
       pct_next_priority := DEFAULT_INLINE_TASKS;
       pct_change_points := [];
       pct_max_steps := 0;
       pct_steps := 0;
       pct_rng := pcg_from_seed_u64 seed;
       pct_data_source := ds_initialize seed |}) by congruence.
  rewrite Hp. split; [exact pct_init_wf|].
  repeat split; reflexivity.
Qed.

Lemma pct_next_u64_frame p x p' :
  pct_next_u64 p = (x, p') ->
  pct_max_iterations p' = pct_max_iterations p /\ pct_max_depth p' = pct_max_depth p /\
  pct_iterations p' = pct_iterations p /\ pct_priorities p' = pct_priorities p /\
  pct_next_priority p' = pct_next_priority p /\
  pct_change_points p' = pct_change_points p /\ pct_max_steps p' = pct_max_steps p /\
  pct_steps p' = pct_steps p /\ pct_rng p' = pct_rng p.
Proof.
  unfold pct_next_u64. destruct (ds_next_u64 _) as [x' d]. intros E. injection E as _ <-.
  repeat split; reflexivity.
Qed.

(* ===================================================================== *)
(*  11. pct_iterations                                                    *)
(* ===================================================================== *)

Lemma pct_new_execution_iter dbg fuel p s p' :
  pct_new_execution dbg fuel p = Done (Some (s, p')) ->
  pct_iterations p < pct_max_iterations p /\
  pct_iterations p' = pct_iterations p + 1 /\
  pct_max_iterations p' = pct_max_iterations p.
Proof.
  intros H. unfold pct_new_execution in H.
  destruct (N.leb_spec (pct_max_iterations p) (pct_iterations p)) as [|Hit]; [discriminate|].
  inv_bind H. rename a into p1.
  destruct (ds_reinitialize (pct_data_source p1)) as [seed d].
  injection H as _ <-. cbn [pct_iterations pct_max_iterations].
  assert (E : pct_iterations p1 = pct_iterations p /\ pct_max_iterations p1 = pct_max_iterations p).
  { destruct (0 <? pct_iterations p).
    - destruct (pct_max_steps p =? 0); [discriminate|].
      inv_bind Ha. destruct a as [perm rng1]. inv_bind Ha. inv_bind Ha.
      destruct a0 as [cps rng2]. injection Ha as <-. split; reflexivity.
    - injection Ha as <-. split; reflexivity. }
  destruct E as [-> ->]. split; [exact Hit|]. split; reflexivity.
Qed.

Theorem pct_trace_iterations seed max_depth max_iterations n p :
  pct_trace seed max_depth max_iterations n p ->
  pct_iterations p = N.of_nat n /\ pct_max_iterations p = max_iterations /\
  N.of_nat n <= max_iterations.
Proof.
  induction 1 as [p H|dbg fuel n p s p' _ IH H|dbg fuel n p offered current y t p' _ IH H
                  |n p x p' _ IH H].
  - apply pct_new_from_seed_spec in H. destruct H as [_ [_ [-> [-> _]]]].
    split; [reflexivity|]. split; [reflexivity|lia].
  - apply pct_new_execution_iter in H. destruct IH as [I1 [I2 I3]].
    destruct H as [H1 [-> ->]]. split; [lia|]. split; [exact I2|lia].
  - apply pct_next_task_frame in H. destruct H as [-> [_ [-> _]]]. exact IH.
  - apply pct_next_u64_frame in H. destruct H as [-> [_ [-> _]]]. exact IH.
Qed.

(* After n Some-answers: the next new_execution answers None iff n has
   reached max_iterations; it can answer Some only while n < max_iterations. *)
Theorem pct_iterations_exact seed max_depth max_iterations n p dbg fuel :
  pct_trace seed max_depth max_iterations n p ->
  (pct_new_execution dbg fuel p = Done None <-> N.of_nat n = max_iterations) /\
  (forall s p', pct_new_execution dbg fuel p = Done (Some (s, p')) ->
                N.of_nat n < max_iterations).
Proof.
  intros Ht. destruct (pct_trace_iterations _ _ _ _ _ Ht) as [Hi [Hm Hle]]. split.
  - rewrite pct_new_execution_none, Hi, Hm. lia.
  - intros s p' H. apply pct_new_execution_iter in H. lia.
Qed.

(* ===================================================================== *)
(*  12. Change points fire at most once each                              *)
(* ===================================================================== *)

Lemma filter_ge_mono (x : N) (l : list N) :
  (length (filter (fun c => (x + 1 <=? c)%N) l) <= length (filter (fun c => (x <=? c)%N) l))%nat.
Proof.
  induction l as [|c l IH]; cbn [filter]; [lia|].
  destruct (N.leb_spec (x + 1) c); destruct (N.leb_spec x c); cbn [length]; lia.
Qed.

Lemma filter_ge_In (x : N) (l : list N) :
  In x l ->
  (S (length (filter (fun c => (x + 1 <=? c)%N) l)) <= length (filter (fun c => (x <=? c)%N) l))%nat.
Proof.
  induction l as [|c l IH]; intros Hin; [destruct Hin|].
  pose proof (filter_ge_mono x l) as Hm. cbn [filter].
  destruct Hin as [->|Hin].
  - destruct (N.leb_spec (x + 1) x); [lia|]. destruct (N.leb_spec x x); [|lia].
    cbn [length]. lia.
  - specialize (IH Hin).
    destruct (N.leb_spec (x + 1) c); destruct (N.leb_spec x c); cbn [length]; lia.
Qed.

Lemma cp_demotions_bound dbg fuel : forall (cs : list pcall) (p : pct),
    (cp_demotions dbg fuel p cs <=
     length (filter (fun c => (pct_steps p <=? c)%N) (pct_change_points p)))%nat.
Proof.
  induction cs as [|[offered current y|] cs IH]; intros p; cbn [cp_demotions]; [lia| |].
  - destruct (pct_next_task dbg fuel p offered current y) as [[t p']| | |] eqn:E; try lia.
    destruct (pct_next_task_frame _ _ _ _ _ _ _ _ E) as [_ [_ [_ [Hc [_ [Hs _]]]]]].
    specialize (IH p'). rewrite Hc, Hs in IH.
    destruct (1 <? N.of_nat (length offered)); cbn [andb].
    + destruct (memN (pct_steps p) (pct_change_points p)) eqn:Em.
      * apply memN_spec in Em. pose proof (filter_ge_In _ _ Em). lia.
      * pose proof (filter_ge_mono (pct_steps p) (pct_change_points p)). lia.
    + lia.
  - destruct (pct_next_u64 p) as [x p'] eqn:E. cbn [snd].
    destruct (pct_next_u64_frame _ _ _ E) as [_ [_ [_ [_ [_ [Hc [_ [Hs _]]]]]]]].
    specialize (IH p'). rewrite Hc, Hs in IH. exact IH.
Qed.

Lemma filter_length_le {A : Type} (f : A -> bool) (l : list A) :
  (length (filter f l) <= length l)%nat.
Proof. induction l as [|a l IH]; cbn; [lia|]. destruct (f a); cbn; lia. Qed.

(* ... hence at most max_depth - 1 change-point demotions per execution. *)
Theorem pct_cp_demotions_le_depth dbg fuel dbg' fuel' p s p' cs :
  pct_wf p -> 0 < pct_iterations p ->
  pct_new_execution dbg fuel p = Done (Some (s, p')) ->
  N.of_nat (cp_demotions dbg' fuel' p' cs) <= pct_max_depth p - 1.
Proof.
  intros Hwf Hpos H. apply (pct_new_execution_spec _ _ _ _ _ Hwf) in H.
  destruct H as [_ [_ [_ [_ [_ [_ [_ [_ [_ H]]]]]]]]].
  destruct (H Hpos) as [_ [_ [_ [_ [_ Hl]]]]].
  pose proof (cp_demotions_bound dbg' fuel' cs p') as Hb.
  pose proof (filter_length_le (fun c => pct_steps p' <=? c) (pct_change_points p')). lia.
Qed.

(* the first execution (iterations = 0) has no change points at all *)
Theorem pct_first_execution_no_change_points seed max_depth max_iterations p dbg fuel s p' :
  pct_new_from_seed seed max_depth max_iterations = Done p ->
  pct_new_execution dbg fuel p = Done (Some (s, p')) ->
  pct_change_points p' = [] /\ pct_priorities p' = pct_priorities p.
Proof.
  intros Hi H. apply pct_new_from_seed_spec in Hi.
  destruct Hi as [_ [Hwf [Hit [_ [_ [_ [_ [Hc _]]]]]]]].
  apply (pct_new_execution_spec _ _ _ _ _ Hwf) in H.
  destruct H as [_ [_ [_ [_ [_ [_ [_ [_ [H _]]]]]]]]].
  destruct (H Hit) as [-> [_ [-> _]]]. split; [exact Hc|reflexivity].
Qed.

(* ===================================================================== *)
(*  13. pct_bound_arith                                                   *)
(* ===================================================================== *)

Lemma binom_le_pow (n k : nat) : (binom n k <= (n + 1) ^ k)%nat.
Proof.
  revert k. induction n as [|n IH]; intros [|k]; cbn [binom]; try (cbn; lia).
  pose proof (IH k) as H1. pose proof (IH (S k)) as H2.
  assert (Hm : ((n + 1) ^ k <= (S n + 1) ^ k)%nat) by (apply Nat.pow_le_mono_l; lia).
  replace ((S n + 1) ^ S k)%nat with ((S n + 1) * (S n + 1) ^ k)%nat by reflexivity.
  replace ((n + 1) ^ S k)%nat with ((n + 1) * (n + 1) ^ k)%nat in H2 by reflexivity.
  nia.
Qed.

Theorem pct_bound_arith_nat (n k d : nat) :
  (1 <= n -> 1 <= k -> 1 <= d ->
   binom (k - 1) (d - 1) <= k ^ (d - 1) /\
   n * binom (k - 1) (d - 1) <= n * k ^ (d - 1))%nat.
Proof.
  intros Hn Hk Hd. pose proof (binom_le_pow (k - 1) (d - 1)) as H.
  replace (k - 1 + 1)%nat with k in H by lia. split; [exact H|].
  apply Nat.mul_le_mono_l. exact H.
Qed.

(* binom is the usual binomial coefficient *)
Lemma binom_0_r (n : nat) : binom n 0 = 1%nat.
Proof. destruct n; reflexivity. Qed.

Lemma binom_gt (n : nat) : forall k, (n < k)%nat -> binom n k = 0%nat.
Proof.
  induction n as [|n IH]; intros [|k] H; try lia; cbn [binom]; [reflexivity|].
  rewrite !IH by lia. reflexivity.
Qed.

Lemma binom_diag (n : nat) : binom n n = 1%nat.
Proof.
  induction n as [|n IH]; [reflexivity|]. cbn [binom]. rewrite IH, binom_gt by lia. lia.
Qed.

Theorem binom_fact (n : nat) : forall k, (k <= n)%nat ->
  (binom n k * (fact k * fact (n - k)) = fact n)%nat.
Proof.
  induction n as [|n IH]; intros k Hk.
  - replace k with 0%nat by lia. reflexivity.
  - destruct k as [|k].
    + rewrite binom_0_r. cbn [fact Nat.sub]. lia.
    + destruct (Nat.eq_dec k n) as [->|Hne].
      * rewrite binom_diag. replace (S n - S n)%nat with 0%nat by lia. cbn [fact]. lia.
      * cbn [binom]. pose proof (IH k ltac:(lia)) as H1. pose proof (IH (S k) ltac:(lia)) as H2.
        replace (S n - S k)%nat with (n - k)%nat by lia.
        replace (n - k)%nat with (S (n - S k)) in * by lia.
        set (a := binom n k) in *. set (b := binom n (S k)) in *.
        set (fk := fact k) in *. set (fr := fact (n - S k)) in *.
        change (fact (S k)) with (S k * fk)%nat in *.
        change (fact (S (n - S k))) with (S (n - S k) * fr)%nat in *.
        change (fact (S n)) with (S n * fact n)%nat.
        assert (Hs : (S n = S k + S (n - S k))%nat) by lia.
        rewrite Hs at 1. nia.
Qed.

(* ===================================================================== *)
(*  14. Fuel and the debug flag never change an answer, they can only     *)
(*      turn it into OutOfFuel / Panic: whatever a call returns with      *)
(*      (dbg1, fuel1) it returns with any (dbg2, fuel2), fuel1 <= fuel2,  *)
(*      dbg2 -> dbg1.                                                     *)
(* ===================================================================== *)

Lemma oleq_if_panic {A : Type} (b1 b2 : bool) (x1 x2 : outcome A) :
  (b2 = true -> b1 = true) -> oleq x1 x2 ->
  oleq (if b1 then Panic else x1) (if b2 then Panic else x2).
Proof.
  intros Hb Hx a H. destruct b1; [discriminate|].
  destruct b2; [specialize (Hb eq_refl); discriminate|]. apply Hx. exact H.
Qed.

Lemma oleq_if {A : Type} (b : bool) (x1 x2 y1 y2 : outcome A) :
  oleq x1 x2 -> oleq y1 y2 -> oleq (if b then x1 else y1) (if b then x2 else y2).
Proof. destruct b; auto. Qed.

Section Mono.
  Context {St : Type}.
  Variables d1 d2 : draw_kind -> N -> N -> St -> outcome (N * St).
  Hypothesis Hd : forall k lo r s, oleq (d1 k lo r s) (d2 k lo r s).

  Lemma gen_range_mono k lo hi s : oleq (gen_range d1 k lo hi s) (gen_range d2 k lo hi s).
  Proof. unfold gen_range. destruct (lo <? hi); [apply Hd|apply oleq_refl]. Qed.

  Lemma gen_range_incl_mono k lo hi s :
    oleq (gen_range_incl d1 k lo hi s) (gen_range_incl d2 k lo hi s).
  Proof. unfold gen_range_incl. destruct (lo <=? hi); [apply Hd|apply oleq_refl]. Qed.

  Lemma gen_index_mono ub s : oleq (gen_index d1 ub s) (gen_index d2 ub s).
  Proof. unfold gen_index. destruct (_ <? _); apply gen_range_mono. Qed.

  Lemma fisher_yates_mono (g1 g2 : N -> St -> outcome (N * St)) :
    (forall i s, oleq (g1 i s) (g2 i s)) ->
    forall i l s, oleq (fisher_yates g1 i l s) (fisher_yates g2 i l s).
  Proof.
    intros Hg. induction i as [|i IH]; intros l s; cbn [fisher_yates]; [apply oleq_refl|].
    apply oleq_bind; [apply Hg|]. intros [j s']. apply IH.
  Qed.

  Lemma shuffle_mono l s : oleq (shuffle d1 l s) (shuffle d2 l s).
  Proof. unfold shuffle. apply fisher_yates_mono. intros i s0. apply gen_index_mono. Qed.

  Lemma floyd_loop_mono fs : forall cnt j ind s,
      oleq (floyd_loop d1 fs cnt j ind s) (floyd_loop d2 fs cnt j ind s).
  Proof.
    induction cnt as [|cnt IH]; intros j ind s; cbn [floyd_loop]; [apply oleq_refl|].
    apply oleq_bind; [apply gen_range_incl_mono|]. intros [t s']. apply IH.
  Qed.

  Lemma sample_floyd_mono len am s : oleq (sample_floyd d1 len am s) (sample_floyd d2 len am s).
  Proof.
    unfold sample_floyd. apply oleq_bind; [apply floyd_loop_mono|]. intros [ind s'].
    apply oleq_if; [apply oleq_refl|]. apply fisher_yates_mono.
    intros i s0. apply gen_range_incl_mono.
  Qed.

  Lemma inplace_loop_mono len : forall cnt i ind s,
      oleq (inplace_loop d1 cnt i len ind s) (inplace_loop d2 cnt i len ind s).
  Proof.
    induction cnt as [|cnt IH]; intros i ind s; cbn [inplace_loop]; [apply oleq_refl|].
    apply oleq_bind; [apply gen_range_mono|]. intros [j s']. apply IH.
  Qed.

  Lemma sample_inplace_mono len am s :
    oleq (sample_inplace d1 len am s) (sample_inplace d2 len am s).
  Proof.
    unfold sample_inplace. apply oleq_bind; [apply inplace_loop_mono|].
    intros [ind s']. apply oleq_refl.
  Qed.

  Lemma rejection_pos_mono k len ind : forall f1 f2 s, (f1 <= f2)%nat ->
      oleq (rejection_pos d1 f1 k len ind s) (rejection_pos d2 f2 k len ind s).
  Proof.
    induction f1 as [|f1 IH]; intros f2 s Hle; [intros a H; discriminate H|].
    destruct f2 as [|f2]; [lia|]. cbn [rejection_pos].
    apply oleq_bind; [apply Hd|]. intros [pos s'].
    apply oleq_if; [apply IH; lia|apply oleq_refl].
  Qed.

  Lemma rejection_loop_mono f1 f2 k len : (f1 <= f2)%nat -> forall cnt ind s,
      oleq (rejection_loop d1 f1 cnt k len ind s) (rejection_loop d2 f2 cnt k len ind s).
  Proof.
    intros Hle. induction cnt as [|cnt IH]; intros ind s; cbn [rejection_loop];
      [apply oleq_refl|].
    apply oleq_bind; [apply rejection_pos_mono; exact Hle|]. intros [pos s']. apply IH.
  Qed.

  Lemma sample_rejection_mono b1 b2 f1 f2 k len am s :
    (b2 = true -> b1 = true) -> (f1 <= f2)%nat ->
    oleq (sample_rejection d1 b1 f1 k len am s) (sample_rejection d2 b2 f2 k len am s).
  Proof.
    intros Hb Hle. unfold sample_rejection. apply oleq_if_panic.
    - intros H. apply andb_true_iff in H. destruct H as [H1 H2].
      rewrite (Hb H1), H2. reflexivity.
    - apply oleq_if; [apply oleq_refl|]. apply rejection_loop_mono. exact Hle.
  Qed.

  Lemma index_sample_mono b1 b2 f1 f2 len am s :
    (b2 = true -> b1 = true) -> (f1 <= f2)%nat ->
    oleq (index_sample d1 b1 f1 len am s) (index_sample d2 b2 f2 len am s).
  Proof.
    intros Hb Hle. unfold index_sample. apply oleq_if; [apply oleq_refl|].
    destruct (sample_select len am).
    - apply sample_inplace_mono.
    - apply sample_floyd_mono.
    - apply sample_rejection_mono; assumption.
    - apply sample_rejection_mono; assumption.
  Qed.
End Mono.

Section SchedMono.
  Variables (b1 b2 : bool) (f1 f2 : nat).
  Hypothesis Hb : b2 = true -> b1 = true.
  Hypothesis Hf : (f1 <= f2)%nat.

  Let Hd : forall k lo r s, oleq (pcg_draw f1 k lo r s) (pcg_draw f2 k lo r s).
  Proof. intros. apply pcg_draw_fuel_mono. exact Hf. Qed.

  Lemma dbg_and (c : bool) : b2 && c = true -> b1 && c = true.
  Proof.
    intros H. apply andb_true_iff in H. destruct H as [H1 H2]. rewrite (Hb H1), H2. reflexivity.
  Qed.

  Lemma pct_reassign_mono : forall perm i m,
      oleq (pct_reassign b1 i perm m) (pct_reassign b2 i perm m).
  Proof.
    induction perm as [|v perm IH]; intros i m; cbn [pct_reassign]; [apply oleq_refl|].
    apply oleq_if_panic; [apply dbg_and|apply IH].
  Qed.

  Lemma pct_insert_new_mono new st :
    oleq (pct_insert_new b1 f1 new st) (pct_insert_new b2 f2 new st).
  Proof.
    unfold pct_insert_new. destruct st as [[prios np] rng].
    apply oleq_bind; [apply gen_range_mono; exact Hd|]. intros [r rng'].
    apply oleq_bind; [apply oleq_refl|]. intros [new_prio prios'].
    apply oleq_if_panic; [apply dbg_and|apply oleq_refl].
  Qed.

  Lemma pct_insert_loop_mono : forall cnt new st,
      oleq (pct_insert_loop b1 f1 cnt new st) (pct_insert_loop b2 f2 cnt new st).
  Proof.
    induction cnt as [|cnt IH]; intros new st; cbn [pct_insert_loop]; [apply oleq_refl|].
    apply oleq_bind; [apply pct_insert_new_mono|]. intros st'. apply IH.
  Qed.

  Theorem pct_next_task_mono p offered current y :
    oleq (pct_next_task b1 f1 p offered current y) (pct_next_task b2 f2 p offered current y).
  Proof.
    unfold pct_next_task. destruct (max_id offered); [|apply oleq_refl].
    apply oleq_bind; [apply pct_insert_loop_mono|]. intros [[prios np] rng].
    apply oleq_bind; [|intros [[[m2 np2] s2] ms2]; apply oleq_refl].
    apply oleq_if; [|apply oleq_refl].
    apply oleq_bind; [|intros [m3 np3]; apply oleq_refl].
    apply oleq_if; [|apply oleq_refl].
    destruct current as [c|]; [|apply oleq_refl].
    apply oleq_if_panic; [apply dbg_and|apply oleq_refl].
  Qed.

  Theorem pct_new_execution_mono p :
    oleq (pct_new_execution b1 f1 p) (pct_new_execution b2 f2 p).
  Proof.
    unfold pct_new_execution. apply oleq_if; [apply oleq_refl|].
    apply oleq_bind; [|intros p1; apply oleq_refl].
    apply oleq_if; [|apply oleq_refl]. apply oleq_if; [apply oleq_refl|].
    apply oleq_bind; [apply shuffle_mono; exact Hd|]. intros [perm rng].
    apply oleq_bind; [apply pct_reassign_mono|]. intros prios.
    apply oleq_bind; [apply index_sample_mono; [exact Hd|exact Hb|exact Hf]|].
    intros [cps rng']. apply oleq_refl.
  Qed.

  Theorem pct_run_mono : forall cs p, oleq (pct_run b1 f1 p cs) (pct_run b2 f2 p cs).
  Proof.
    induction cs as [|[offered current y|] cs IH]; intros p; cbn [pct_run]; [apply oleq_refl| |].
    - apply oleq_bind; [apply pct_next_task_mono|]. intros [t p'].
      apply oleq_bind; [apply IH|]. intros [os p'']. apply oleq_refl.
    - destruct (pct_next_u64 p) as [x p'].
      apply oleq_bind; [apply IH|]. intros [os p'']. apply oleq_refl.
  Qed.

  Theorem pct_rounds_mono : forall rounds p,
      oleq (pct_rounds b1 f1 p rounds) (pct_rounds b2 f2 p rounds).
  Proof.
    induction rounds as [|cs rounds IH]; intros p; cbn [pct_rounds]; [apply oleq_refl|].
    apply oleq_bind; [apply pct_new_execution_mono|]. intros [[seed p1]|]; [|apply oleq_refl].
    apply oleq_bind; [apply pct_run_mono|]. intros [os p2].
    apply oleq_bind; [apply IH|]. intros rest. apply oleq_refl.
  Qed.

  Theorem pct_session_mono seed max_depth max_iterations rounds :
    oleq (pct_session b1 f1 seed max_depth max_iterations rounds)
         (pct_session b2 f2 seed max_depth max_iterations rounds).
  Proof.
    unfold pct_session. apply oleq_bind; [apply oleq_refl|]. intros p. apply pct_rounds_mono.
  Qed.
End SchedMono.

(* Determinism: two runs of the same session that both finish agree,
   whatever fuel and debug flag each of them used.                         *)
Theorem pct_session_deterministic b1 f1 b2 f2 seed max_depth max_iterations rounds r1 r2 :
  pct_session b1 f1 seed max_depth max_iterations rounds = Done r1 ->
  pct_session b2 f2 seed max_depth max_iterations rounds = Done r2 ->
  r1 = r2.
Proof.
  intros H1 H2.
  (* compare both with the run (false, max f1 f2) *)
  assert (E1 : pct_session false (Nat.max f1 f2) seed max_depth max_iterations rounds = Done r1).
  { apply (pct_session_mono b1 false f1 (Nat.max f1 f2)); [discriminate|lia|exact H1]. }
  assert (E2 : pct_session false (Nat.max f1 f2) seed max_depth max_iterations rounds = Done r2).
  { apply (pct_session_mono b2 false f2 (Nat.max f1 f2)); [discriminate|lia|exact H2]. }
  congruence.
Qed.

(* ===================================================================== *)
(*  15. shuffle: draw sequences and permutations correspond one-to-one    *)
(* ===================================================================== *)

Lemma gen_index_list_inv (ub : N) (ds : list N) (j : N) (ds' : list N) :
  gen_index list_draw ub ds = Done (j, ds') -> ds = j :: ds' /\ j < ub.
Proof.
  intros H. pose proof (gen_index_spec _ list_draw_range_any _ _ _ _ H) as Hlt.
  split; [|exact Hlt].
  unfold gen_index, gen_range in H.
  destruct (_ <? ub); destruct (0 <? ub); try discriminate;
    unfold list_draw in H; destruct ds as [|d ds0]; try discriminate;
    destruct (_ && _); try discriminate; injection H as <- <-; reflexivity.
Qed.

Lemma fy_suffix {St : Type} (gen : N -> St -> outcome (N * St)) :
  (forall i s j s', gen i s = Done (j, s') -> j <= i) ->
  forall (i : nat) l s out s',
    (i <= length l - 1)%nat ->
    fisher_yates gen i l s = Done (out, s') ->
    forall k, (i < k)%nat -> nth k out 0 = nth k l 0.
Proof.
  intros Hgen. induction i as [|i IH]; intros l s out s' Hi H k Hk.
  - cbn in H. injection H as <- _. reflexivity.
  - cbn [fisher_yates] in H. inv_bind H. destruct a as [j s1]. apply Hgen in Ha.
    assert (Hi' : (i <= length (swap l (S i) (N.to_nat j)) - 1)%nat)
      by (rewrite length_swap; lia).
    assert (Hk' : (i < k)%nat) by lia.
    rewrite (IH _ _ _ _ Hi' H k Hk').
    destruct (Nat.lt_ge_cases k (length l)) as [Hkl|Hkl].
    + rewrite nth_swap by lia.
      destruct (Nat.eqb_spec k (N.to_nat j)); [lia|].
      destruct (Nat.eqb_spec k (S i)); [lia|reflexivity].
    + rewrite !nth_overflow; [reflexivity|lia|rewrite length_swap; lia].
Qed.

Definition lgen : N -> list N -> outcome (N * list N) :=
  fun i => gen_index list_draw (i + 1).

Lemma lgen_le i s j s' : lgen i s = Done (j, s') -> j <= i.
Proof. unfold lgen. intros H. apply gen_index_list_inv in H. lia. Qed.

Lemma fy_step_inv (i : nat) (l ds out rest : list N) :
  fisher_yates lgen (S i) l ds = Done (out, rest) ->
  exists d t, ds = d :: t /\ d <= N.of_nat (S i) /\
    fisher_yates lgen i (swap l (S i) (N.to_nat d)) t = Done (out, rest).
Proof.
  intros H. cbn [fisher_yates] in H. inv_bind H. destruct a as [d t].
  unfold lgen in Ha. apply gen_index_list_inv in Ha. destruct Ha as [-> Hd].
  exists d, t. split; [reflexivity|]. split; [lia|exact H].
Qed.

Lemma fy_last (i : nat) (l t out rest : list N) (d : nat) :
  (S i < length l)%nat -> (d <= S i)%nat ->
  fisher_yates lgen i (swap l (S i) d) t = Done (out, rest) ->
  nth (S i) out 0 = nth d l 0.
Proof.
  intros Hi Hd H.
  assert (Hi' : (i <= length (swap l (S i) d) - 1)%nat) by (rewrite length_swap; lia).
  rewrite (fy_suffix lgen lgen_le i _ _ _ _ Hi' H (S i) (Nat.lt_succ_diag_r i)).
  rewrite nth_swap by lia.
  destruct (Nat.eqb_spec (S i) d) as [E|_].
  - rewrite <- E. reflexivity.
  - rewrite Nat.eqb_refl. reflexivity.
Qed.

Lemma fy_injective : forall (i : nat) (l ds ds' out rest : list N),
    NoDup l -> (i <= length l - 1)%nat ->
    fisher_yates lgen i l ds = Done (out, rest) ->
    fisher_yates lgen i l ds' = Done (out, rest) ->
    ds = ds'.
Proof.
  induction i as [|i IH]; intros l ds ds' out rest Hnd Hi H1 H2.
  - cbn in H1, H2. congruence.
  - apply fy_step_inv in H1, H2.
    destruct H1 as [d [t [-> [Hd H1]]]]. destruct H2 as [d' [t' [-> [Hd' H2]]]].
    assert (Hil : (S i < length l)%nat) by lia.
    assert (Hdn : (N.to_nat d <= S i)%nat) by lia.
    assert (Hdn' : (N.to_nat d' <= S i)%nat) by lia.
    pose proof (fy_last i l t out rest (N.to_nat d) Hil Hdn H1) as E1.
    pose proof (fy_last i l t' out rest (N.to_nat d') Hil Hdn' H2) as E2.
    rewrite E1 in E2.
    apply (proj1 (NoDup_nth l 0) Hnd) in E2; [|lia|lia].
    assert (d = d') by lia. subst d'. f_equal.
    apply (IH (swap l (S i) (N.to_nat d)) t t' out rest).
    + refine (Permutation_NoDup (swap_perm l (S i) (N.to_nat d) _ _) Hnd); lia.
    + rewrite length_swap. lia.
    + exact H1.
    + exact H2.
Qed.

(* Two draw sequences that shuffle a duplicate-free list into the same
   arrangement are equal.  Together with shuffle_complete: the valid draw
   sequences (d_i in [0, i] for i = len-1, ..., 1: len! of them) and the
   len! permutations of l are in bijection -- if every gen_index(i+1) is
   uniform on [0, i] and the draws are independent, shuffle is uniform.    *)
Theorem shuffle_injective (l ds ds' out rest : list N) :
  NoDup l ->
  shuffle list_draw l ds = Done (out, rest) ->
  shuffle list_draw l ds' = Done (out, rest) ->
  ds = ds'.
Proof. intros Hnd. unfold shuffle. apply (fy_injective _ l ds ds' out rest Hnd). lia. Qed.

(* the draws a successful list-oracle shuffle consumed are valid *)
Lemma fy_draws_valid : forall (i : nat) (l ds out rest : list N),
    fisher_yates lgen i l ds = Done (out, rest) ->
    exists used, ds = used ++ rest /\ length used = i /\
      forall k, (k < i)%nat -> nth k used 0 <= N.of_nat (i - k).
Proof.
  induction i as [|i IH]; intros l ds out rest H.
  - cbn in H. injection H as _ <-. exists []. repeat split; try reflexivity. intros k Hk. lia.
  - apply fy_step_inv in H. destruct H as [d [t [-> [Hd H]]]].
    destruct (IH _ _ _ _ H) as [used [-> [Hlen Hv]]].
    exists (d :: used). split; [reflexivity|]. split; [cbn; lia|].
    intros [|k] Hk; cbn [nth]; [lia|]. specialize (Hv k ltac:(lia)).
    replace (S i - S k)%nat with (i - k)%nat by lia. exact Hv.
Qed.

(* ===================================================================== *)
(*  16. index::sample's algorithm selection in the range PCT uses         *)
(* ===================================================================== *)

Lemma f32_round_small (x : N) : x < 2 ^ 24 -> f32_round x = x.
Proof.
  intros H. unfold f32_round.
  destruct (N.leb_spec 25 (N.size x)) as [Hs|]; [|reflexivity]. exfalso.
  destruct (N.eq_dec x 0) as [->|Hx]; [change (N.size 0) with 0 in Hs; lia|].
  rewrite N.size_log2 in Hs by exact Hx.
  assert (N.log2 x < 24) by (apply N.log2_lt_pow2; lia). lia.
Qed.

Lemma ltb_ceil (x t B : N) : 0 < B -> (x * B <? t) = (x <? (t + B - 1) / B).
Proof.
  intros HB.
  pose proof (ceil_mul_lower t B HB) as Hlo.
  pose proof (ceil_mul_upper t B HB) as Hup.
  set (c := (t + B - 1) / B) in *.
  destruct (N.ltb_spec (x * B) t) as [H|H]; destruct (N.ltb_spec x c) as [H'|H'];
    try reflexivity; exfalso.
  - assert (B * c <= B * x) by (apply N.mul_le_mono_l; exact H'). lia.
  - assert (B * (x + 1) <= B * c) by (apply N.mul_le_mono_l; lia). lia.
Qed.

(* the f32 threshold of the amount < 163, length < 500000 branch *)
Definition thr0 (a : N) : N :=
  f32_round (f32_round (10 * 2 ^ 23 + f32_round (13421773 * a)) * a).

Lemma thr0_table :
  forallb (fun a => (thr0 a + 2 ^ 23 - 1) / 2 ^ 23 =? (8 * a * a + 50 * a + 5 - 1) / 5)
          (nseq 163) = true.
Proof. vm_compute. reflexivity. Qed.

(* For fewer than 163 indices out of fewer than 500000, the f32 test
   `length < (10 + 1.6*amount)*amount` decides exactly like the rational
   one; sample_rejection is never used.                                    *)
Theorem sample_select_small (length amount : N) :
  length < 500000 -> amount < 163 ->
  sample_select length amount =
  if (11 <? amount) && (5 * length <? 8 * amount * amount + 50 * amount)
  then AInplace else AFloyd.
Proof.
  intros Hl Ha. unfold sample_select.
  destruct (N.ltb_spec (2 ^ 32 - 1) length) as [Hbig|_]; [exfalso; lia|].
  destruct (N.leb_spec 163 amount); [lia|].
  destruct (N.leb_spec 500000 length); [lia|].
  rewrite (f32_round_small amount) by lia.
  rewrite (f32_round_small length) by lia.
  change (f32_round (f32_round (10 * 2 ^ 23 + f32_round (13421773 * amount)) * amount))
    with (thr0 amount).
  pose proof thr0_table as Ht. rewrite forallb_forall in Ht.
  specialize (Ht amount (proj2 (In_nseq 163 amount) Ha)). apply N.eqb_eq in Ht.
  rewrite (ltb_ceil length (thr0 amount) (2 ^ 23)) by lia. rewrite Ht.
  rewrite (N.mul_comm 5 length).
  rewrite (ltb_ceil length (8 * amount * amount + 50 * amount) 5) by lia.
  reflexivity.
Qed.

(* fewer than 12 indices: always Floyd (whatever the length below 2^32)   *)
Theorem sample_select_tiny (length amount : N) :
  length <= 2 ^ 32 - 1 -> amount <= 11 -> sample_select length amount = AFloyd.
Proof.
  intros Hl Ha. unfold sample_select.
  destruct (N.ltb_spec (2 ^ 32 - 1) length) as [Hbig|_]; [exfalso; lia|].
  destruct (N.leb_spec 163 amount); [lia|].
  destruct (N.ltb_spec 11 amount); [lia|].
  destruct (500000 <=? length); reflexivity.
Qed.

(* ===================================================================== *)
(*  17. Corollaries in the form used by SV.Props.C11                      *)
(* ===================================================================== *)

Theorem pct_new_execution_wf dbg fuel p s p' :
  pct_wf p -> pct_new_execution dbg fuel p = Done (Some (s, p')) -> pct_wf p'.
Proof. intros Hwf H. apply (pct_new_execution_spec _ _ _ _ _ Hwf H). Qed.

Theorem pct_next_u64_wf p x p' : pct_wf p -> pct_next_u64 p = (x, p') -> pct_wf p'.
Proof.
  intros Hwf H. apply pct_next_u64_frame in H.
  destruct H as [_ [_ [_ [Hp [Hn _]]]]]. unfold pct_wf. rewrite Hp, Hn. exact Hwf.
Qed.

(* the change points chosen by new_execution *)
Theorem pct_change_points_spec dbg fuel p s p' :
  pct_wf p -> 0 < pct_iterations p ->
  pct_new_execution dbg fuel p = Done (Some (s, p')) ->
  NoDup (pct_change_points p') /\
  (forall c, In c (pct_change_points p') -> 1 <= c /\ c < pct_max_steps p) /\
  N.of_nat (length (pct_change_points p')) =
    N.min (pct_max_depth p - 1) (pct_max_steps p - 1) /\
  pct_steps p' = 0.
Proof.
  intros Hwf Hpos H. apply (pct_new_execution_spec _ _ _ _ _ Hwf) in H.
  destruct H as [_ [_ [_ [_ [_ [_ [Hs [_ [_ H]]]]]]]]].
  destruct (H Hpos) as [_ [_ [_ [H1 [H2 H3]]]]].
  split; [exact H1|]. split; [exact H2|]. split; [lia|exact Hs].
Qed.

(* relative order of two uninvolved tasks *)
Theorem pct_next_task_order dbg p offered current y t p' targets a b :
  pct_next_task_effect dbg p offered current y t p' targets ->
  a < pm_len (pct_priorities p) -> b < pm_len (pct_priorities p) ->
  ~ In a targets -> ~ In b targets -> current <> Some a -> current <> Some b ->
  key_le (pm_get a (pct_priorities p')) (pm_get b (pct_priorities p')) =
  key_le (pm_get a (pct_priorities p)) (pm_get b (pct_priorities p)).
Proof.
  intros He Ha Hb Hta Htb Hca Hcb.
  rewrite (pct_next_task_unchanged _ _ _ _ _ _ _ _ a He Ha Hta Hca).
  rewrite (pct_next_task_unchanged _ _ _ _ _ _ _ _ b He Hb Htb Hcb).
  reflexivity.
Qed.

(* every value of a 64-bit range has an accepting 64-bit word *)
Theorem accept64_positive (n i : N) :
  1 <= n -> n < 2 ^ 64 -> i < n -> exists v, v < 2 ^ 64 /\ accept_w 64 n v = Some i.
Proof.
  intros H1 Hn Hi.
  pose proof (accept_w_interval_in_bounds 64 n i H1 Hn Hi) as Hb.
  pose proof (pow2_pos (lz_w 64 n)) as HP.
  exists (ceil_div (i * 2 ^ 64) n).
  assert (Hv : ceil_div (i * 2 ^ 64) n < 2 ^ 64) by lia.
  split; [exact Hv|]. apply accept_w_interval; try assumption. lia.
Qed.

(* the concrete PCG-driven instances of the generic facts *)
Theorem pcg_shuffle_perm fuel l st l' st' :
  shuffle (pcg_draw fuel) l st = Done (l', st') -> Permutation l l'.
Proof. apply shuffle_perm. apply pcg_draw_range_any. Qed.

Theorem pcg_index_sample_spec dbg fuel length amount st l st' :
  index_sample (pcg_draw fuel) dbg fuel length amount st = Done (l, st') ->
  amount <= length /\
  NoDup l /\ (forall x, In x l -> x < length) /\ List.length l = N.to_nat amount.
Proof. apply index_sample_spec. apply pcg_draw_range_any. Qed.
