(* C01: replaying the recorded schedule reproduces the execution.
   Simulation between a run under an arbitrary scheduler and the run under `replay`. *)
From Coq Require Import List NArith Bool Arith Lia.
From SV Require Import Clock.VClock Prim.Objects Engine.Exec Engine.Inv Sched.Replay Engine.Stmt.
Import ListNotations.

(* ---------------- bookkeeping definitions ---------------- *)
(* a decision that was made (next = SSome t) but not yet recorded by `advance` *)
Definition pending (e : exec) : list sstep :=
  match next e with SSome t => [StTask t] | _ => [] end.
(* the effective recorded schedule, newest first *)
Definition eff (e : exec) : list sstep := pending e ++ recorded e.

(* `nrand` (number of StRandom steps), `decisions_offered`, `draws_complete`, `total_rand` are defined in
   Engine/Stmt.v *)
Definition rvals (tr : list event) : list N :=
  flat_map (fun ev => match ev with EvRandom v => [v] | _ => [] end) tr.
Definition nvals (tr : list event) : nat := length (rvals tr).

(* every task the scheduler chose was one of the offered ones *)
Definition good (tr : list event) : Prop :=
  forall pre off cur y t, In (EvDecision pre off cur y (Some t)) tr -> In t off.

Definition reset_ok (e : exec) : Prop := steps_reset_at e <= length (recorded e).

Definition conts_code_ok (cs : list (option code)) : Prop :=
  Forall (fun oc => match oc with Some c => code_ok c | None => True end) cs.

(* ---------------- small list facts ---------------- *)
Lemma nrand_app l1 l2 : nrand (l1 ++ l2) = nrand l1 + nrand l2.
Proof.
  induction l1 as [|x l IH]; [reflexivity|]. destruct x; cbn [app nrand]; rewrite IH; reflexivity.
Qed.

Lemma rvals_app t1 t2 : rvals (t1 ++ t2) = rvals t1 ++ rvals t2.
Proof. unfold rvals. apply flat_map_app. Qed.

Lemma nvals_app t1 t2 : nvals (t1 ++ t2) = nvals t1 + nvals t2.
Proof. unfold nvals. rewrite rvals_app, app_length. reflexivity. Qed.

Lemma good_app t1 t2 : good (t1 ++ t2) -> good t1 /\ good t2.
Proof.
  intros G. split; intros pre off cur y t HI; apply (G pre off cur y t); apply in_or_app; auto.
Qed.

Lemma good_nil : good [].
Proof. intros pre off cur y t []. Qed.

Lemma app_eq_self {A} (l1 l : list A) : l1 ++ l = l -> l1 = [].
Proof. intros H. apply (app_inv_tail l l1 []). exact H. Qed.

Lemma sched_eqb_eq a b : sched_eqb a b = true -> a = b.
Proof.
  destruct a, b; cbn; intros H; try discriminate; try reflexivity.
  apply Nat.eqb_eq in H. congruence.
Qed.

Lemma existsb_eqb_in t l : In t l -> existsb (Nat.eqb t) l = true.
Proof. intros H. apply existsb_exists. exists t. split; [exact H | apply Nat.eqb_refl]. Qed.

(* ---------------- schedule, split around the scheduler call ---------------- *)
Definition sched_pre (ms : max_steps) (e : exec) : (option step_error * exec) + exec :=
  match next e with
  | SNone =>
    let e1 := with_ctx e (S (ctx_switches e)) in
    let bound :=
      match ms with
      | FailAfter n => if is_step_bound_exceeded e1 n then Some true else None
      | ContinueAfter n => if is_step_bound_exceeded e1 n then Some false else None
      | MSNone => None
      end in
    match bound with
    | Some true => inl (Some ErrStepBound, e1)
    | Some false => inl (None, with_current_next e1 (current e1) SStopped)
    | None =>
      if negb (any_runnable e1) || (negb (unfinished_attached e1) && all_runnable_detached e1)
      then inl (None, with_current_next e1 (current e1) SFinished)
      else inr e1          (* the state in which the scheduler is consulted (ghost `pre`) *)
    end
  | _ => inl (None, e)
  end.

Definition sched_post (e : exec) (choice : option nat) : option step_error * exec :=
  match choice with
  | None => (None, with_current_next e (current e) SStopped)
  | Some t =>
    match get_task e t with
    | None => (Some ErrSchedulerBug, e)
    | Some tk =>
      if is_runnable tk then (None, with_current_next e (current e) (SSome t))
      else if can_spur tk then
        match e_unblock e t with
        | Some e' => (None, with_current_next e' (current e') (SSome t))
        | None => (Some ErrSchedulerBug, e)
        end
      else (Some ErrSchedulerBug, e)
    end
  end.

Lemma schedule_eq {SS} (sch : scheduler SS) ms e st :
  schedule sch ms e st =
  match sched_pre ms e with
  | inl (err, e') => (err, e', st, [])
  | inr e1 =>
    let e2 := with_yielded e1 false in
    let '(choice, st') := s_next_task sch st (offered_of e2) (sched_id (current e2)) (has_yielded e) in
    let '(err, e') := sched_post e2 choice in
    (err, e', st', [EvDecision e1 (offered_of e2) (sched_id (current e2)) (has_yielded e) choice])
  end.
Proof.
  unfold schedule, sched_pre. cbv zeta.
  destruct (next e); try reflexivity.
  destruct ms as [|n|n].
  - destruct (negb _ || _); [reflexivity|].
    destruct (s_next_task sch st _ _ _) as [choice st']. unfold sched_post.
    destruct choice as [t|]; [|reflexivity].
    destruct (get_task _ t) as [tk|]; [|reflexivity].
    destruct (is_runnable tk); [reflexivity|]. destruct (can_spur tk); [|reflexivity].
    destruct (e_unblock _ t); reflexivity.
  - destruct (is_step_bound_exceeded _ n); [reflexivity|].
    destruct (negb _ || _); [reflexivity|].
    destruct (s_next_task sch st _ _ _) as [choice st']. unfold sched_post.
    destruct choice as [t|]; [|reflexivity].
    destruct (get_task _ t) as [tk|]; [|reflexivity].
    destruct (is_runnable tk); [reflexivity|]. destruct (can_spur tk); [|reflexivity].
    destruct (e_unblock _ t); reflexivity.
  - destruct (is_step_bound_exceeded _ n); [reflexivity|].
    destruct (negb _ || _); [reflexivity|].
    destruct (s_next_task sch st _ _ _) as [choice st']. unfold sched_post.
    destruct choice as [t|]; [|reflexivity].
    destruct (get_task _ t) as [tk|]; [|reflexivity].
    destruct (is_runnable tk); [reflexivity|]. destruct (can_spur tk); [|reflexivity].
    destruct (e_unblock _ t); reflexivity.
Qed.

(* ---------------- frame facts ---------------- *)
Lemma upd_task_shape e t f e' : upd_task e t f = Some e' -> exists ts, e' = with_tasks e ts.
Proof.
  unfold upd_task. destruct (get_task e t); intros H; [|discriminate].
  injection H as <-. eexists. reflexivity.
Qed.

Lemma e_unblock_shape e t e' : e_unblock e t = Some e' -> exists ts, e' = with_tasks e ts.
Proof.
  unfold e_unblock. destruct (get_task e t) as [tk|]; [|discriminate].
  destruct (is_finished tk); [discriminate|]. apply upd_task_shape.
Qed.

Lemma sched_pre_inl ms e err e' :
  sched_pre ms e = inl (err, e') ->
  current e' = current e /\ recorded e' = recorded e /\ steps_reset_at e' = steps_reset_at e
  /\ eff e' = eff e /\ err <> Some ErrSchedulerBug /\ (err <> None -> next e' = SNone).
Proof.
  unfold sched_pre. cbv zeta. destruct (next e) eqn:Hn.
  - destruct ms as [|n|n].
    + destruct (negb _ || _); intros H; [|discriminate]. injection H as <- <-.
      unfold eff, pending. cbn. rewrite Hn. repeat split; congruence.
    + destruct (is_step_bound_exceeded _ n).
      * intros H. injection H as <- <-. unfold eff, pending. cbn. rewrite Hn. repeat split; congruence.
      * destruct (negb _ || _); intros H; [|discriminate]. injection H as <- <-.
        unfold eff, pending. cbn. rewrite Hn. repeat split; congruence.
    + destruct (is_step_bound_exceeded _ n).
      * intros H. injection H as <- <-. unfold eff, pending. cbn. rewrite Hn. repeat split; congruence.
      * destruct (negb _ || _); intros H; [|discriminate]. injection H as <- <-.
        unfold eff, pending. cbn. rewrite Hn. repeat split; congruence.
  - intros H. injection H as <- <-. repeat split; congruence.
  - intros H. injection H as <- <-. repeat split; congruence.
  - intros H. injection H as <- <-. repeat split; congruence.
Qed.

Lemma sched_pre_inr ms e e1 :
  sched_pre ms e = inr e1 ->
  let e2 := with_yielded e1 false in
  next e = SNone /\ next e2 = SNone /\ current e2 = current e /\ recorded e2 = recorded e
  /\ steps_reset_at e2 = steps_reset_at e.
Proof.
  unfold sched_pre. cbv zeta. destruct (next e) eqn:Hn; try discriminate.
  destruct ms as [|n|n].
  - destruct (negb _ || _); intros H; [discriminate|]. injection H as <-. cbn. auto.
  - destruct (is_step_bound_exceeded _ n); [discriminate|].
    destruct (negb _ || _); intros H; [discriminate|]. injection H as <-. cbn. auto.
  - destruct (is_step_bound_exceeded _ n); [discriminate|].
    destruct (negb _ || _); intros H; [discriminate|]. injection H as <-. cbn. auto.
Qed.

Lemma sched_post_none e err e' :
  sched_post e None = (err, e') ->
  err = None /\ next e' = SStopped /\ current e' = current e /\ recorded e' = recorded e
  /\ steps_reset_at e' = steps_reset_at e.
Proof. cbn. intros H. injection H as <- <-. cbn. auto. Qed.

Lemma sched_post_some e t err e' :
  sched_post e (Some t) = (err, e') ->
  current e' = current e /\ recorded e' = recorded e /\ steps_reset_at e' = steps_reset_at e
  /\ ((err = Some ErrSchedulerBug /\ e' = e) \/ (err = None /\ next e' = SSome t))
  /\ (In t (offered_of e) -> err = None).
Proof.
  unfold sched_post. destruct (get_task e t) as [tk|] eqn:Hg.
  - destruct (is_runnable tk) eqn:Hr.
    + intros H. injection H as <- <-. cbn. repeat split; auto.
    + destruct (can_spur tk) eqn:Hs.
      * destruct (e_unblock e t) as [e1|] eqn:Hu.
        -- intros H. injection H as <- <-. apply e_unblock_shape in Hu. destruct Hu as [ts ->].
           cbn. repeat split; auto.
        -- intros H. injection H as <- <-. repeat split; auto.
           intros _. exfalso. unfold e_unblock in Hu. rewrite Hg in Hu.
           assert (Hf : is_finished tk = false).
           { unfold can_spur in Hs. unfold is_finished. destruct (t_state tk); congruence. }
           rewrite Hf in Hu. unfold upd_task in Hu. rewrite Hg in Hu. discriminate.
      * intros H. injection H as <- <-. repeat split; auto.
        intros HI. exfalso. unfold offered_of in HI. apply filter_In in HI. destruct HI as [_ HI].
        rewrite Hg, Hr, Hs in HI. discriminate.
  - intros H. injection H as <- <-. repeat split; auto.
    intros HI. exfalso. unfold offered_of in HI. apply filter_In in HI. destruct HI as [_ HI].
    rewrite Hg in HI. discriminate.
Qed.

Lemma eff_advance e : eff (advance e) = eff e.
Proof.
  unfold advance, eff, pending. cbn. destruct (next e); reflexivity.
Qed.

Lemma next_advance e : next (advance e) = SNone.
Proof. unfold advance. cbn. destruct (next e); reflexivity. Qed.

Lemma current_advance e : current (advance e) = next e.
Proof. unfold advance. cbn. destruct (next e); reflexivity. Qed.

Lemma reset_ok_advance e : reset_ok e -> reset_ok (advance e).
Proof. unfold reset_ok, advance. cbn. destruct (next e); cbn; lia. Qed.

(* ---------------- do_switch and next_u64, scheduler-generic ---------------- *)
Inductive sw_kind := KCont | KYield | KPanic.
Definition sw_mk {S} (kd : sw_kind) (w : world) (st : S) : @switch_res S :=
  match kd with KCont => SwContinue w st | KYield => SwYield w st | KPanic => SwPanic w st end.

Definition draw {S} (sch : scheduler S) (ms : max_steps) (k : N -> code) (w : world) (st : S)
  : world * S * seg_end :=
  let e := with_recorded (w_e w) (StRandom :: recorded (w_e w)) in
  let (v, st') := s_next_u64 sch st in
  match v with
  | None => (mkWorld e (w_s w) (w_conts w) (w_trace w), st', SegPanic)
  | Some v => run_seg sch ms (k v) (mkWorld e (w_s w) (w_conts w) (EvRandom v :: w_trace w)) st'
  end.

Lemma run_seg_Rand {S} (sch : scheduler S) ms k w st :
  run_seg sch ms (Rand k) w st =
  if bound_exhausted ms (w_e w) then
    match do_switch sch ms w st with
    | SwContinue w' st' => draw sch ms k w' st'
    | SwYield w' st' => (w', st', SegYield (Rand k))
    | SwPanic w' st' => (w', st', SegPanic)
    end
  else draw sch ms k w st.
Proof. reflexivity. Qed.

(* ---------------- one call of `schedule` ---------------- *)
Section Sim.
Context {SS : Type} (sch : scheduler SS) (ms : max_steps).

Lemma sched_sim e st err e' st' evs :
  schedule sch ms e st = (err, e', st', evs) ->
  current e' = current e /\ recorded e' = recorded e /\ steps_reset_at e' = steps_reset_at e
  /\ (err <> None -> next e' = SNone)
  /\ exists new, eff e' = new ++ eff e /\ nrand new = 0 /\ rvals evs = []
     /\ (good evs ->
         err <> Some ErrSchedulerBug
         /\ forall more vals, (next e' = SStopped -> more = []) ->
            exists ended,
              schedule replay ms e (mkReplay (rev new ++ more) vals false false)
              = (err, e', mkReplay more vals false ended, evs)
              /\ (ended = true -> next e' = SStopped
                                  /\ exists pre off cur y, evs = [EvDecision pre off cur y None])).
Proof.
  rewrite schedule_eq. destruct (sched_pre ms e) as [[err0 e0]|e1'] eqn:Hpre.
  - intros H. injection H as <- <- <- <-.
    destruct (sched_pre_inl _ _ _ _ Hpre) as (Hc & Hr & Hs & He & Hb & Hn).
    split; [exact Hc|]. split; [exact Hr|]. split; [exact Hs|]. split; [exact Hn|].
    exists []. split; [exact He|]. split; [reflexivity|]. split; [reflexivity|].
    intros _. split; [exact Hb|].
    intros more vals _. exists false. split; [|discriminate].
    rewrite schedule_eq, Hpre. reflexivity.
  - pose proof (sched_pre_inr _ _ _ Hpre) as Hfacts. cbv zeta in Hfacts |- *.
    set (e2 := with_yielded e1' false) in *.
    destruct Hfacts as (Hn & Hn2 & Hc2 & Hr2 & Hs2).
    destruct (s_next_task sch st _ _ _) as [choice st1] eqn:Hch.
    destruct (sched_post e2 choice) as [err1 e1] eqn:Hpost.
    intros H. injection H as <- <- <- <-.
    destruct choice as [t|].
    + destruct (sched_post_some _ _ _ _ Hpost) as (Hc & Hr & Hs & Hcase & Hoff).
      split; [congruence|]. split; [congruence|]. split; [congruence|].
      split.
      { intros Herr. destruct Hcase as [[_ ->]|[-> _]]; congruence. }
      destruct Hcase as [[-> ->]|[-> Hnx]].
      * exists []. split.
        { unfold eff, pending. rewrite Hn, Hn2, Hr2. reflexivity. }
        split; [reflexivity|]. split; [reflexivity|].
        intros G. exfalso.
        assert (HI : In t (offered_of e2)) by (eapply G; left; reflexivity).
        specialize (Hoff HI). discriminate.
      * exists [StTask t]. split.
        { unfold eff, pending. rewrite Hn, Hnx, Hr, Hr2. reflexivity. }
        split; [reflexivity|]. split; [reflexivity|].
        intros G. split; [discriminate|].
        intros more vals _. exists false. split; [|discriminate].
        assert (HI : In t (offered_of e2)) by (eapply G; left; reflexivity).
        rewrite schedule_eq, Hpre. cbv zeta. fold e2.
        cbn [rev app s_next_task replay rp_steps rp_vals rp_failed rp_ended].
        rewrite (existsb_eqb_in _ _ HI). rewrite Hpost. reflexivity.
    + destruct (sched_post_none _ _ _ Hpost) as (-> & Hnx & Hc & Hr & Hs).
      split; [congruence|]. split; [congruence|]. split; [congruence|].
      split; [congruence|].
      exists []. split.
      { unfold eff, pending. rewrite Hn, Hnx, Hr, Hr2. reflexivity. }
      split; [reflexivity|]. split; [reflexivity|].
      intros _. split; [discriminate|].
      intros more vals Hmore. rewrite (Hmore Hnx). exists true. split.
      * rewrite schedule_eq, Hpre. cbv zeta. fold e2.
        cbn [rev app s_next_task replay rp_steps rp_vals rp_failed rp_ended].
        rewrite Hpost. reflexivity.
      * intros _. split; [exact Hnx|]. do 4 eexists. reflexivity.
Qed.

(* ---------------- more frame facts ---------------- *)
Lemma e_increment_clock_shape e t e' : e_increment_clock e t = Some e' -> exists ts, e' = with_tasks e ts.
Proof.
  unfold e_increment_clock. destruct (get_task e t) as [tk|]; [|discriminate].
  destruct (increment (t_clock tk) t); [|discriminate]. apply upd_task_shape.
Qed.

Lemma spawn_thread_now_frame e e' tid :
  spawn_thread_now e = Some (e', tid) ->
  next e' = next e /\ current e' = current e /\ recorded e' = recorded e
  /\ steps_reset_at e' = steps_reset_at e.
Proof.
  unfold spawn_thread_now. destruct (me e) as [p|]; [|discriminate].
  destruct (e_increment_clock e p) as [e1|] eqn:H1; [|discriminate].
  destruct (e_clock e1 p) as [pc|]; [|discriminate].
  destruct (extend pc _) as [c|]; [|discriminate].
  destruct (upd_task e1 p _) as [e2|] eqn:H2; [|discriminate].
  intros H. injection H as <- <-.
  apply e_increment_clock_shape in H1. destruct H1 as [ts1 ->].
  apply upd_task_shape in H2. destruct H2 as [ts2 ->].
  cbn. auto.
Qed.

Lemma finish_current_frame e e' :
  finish_current e = Some e' ->
  next e' = next e /\ current e' = current e /\ recorded e' = recorded e
  /\ steps_reset_at e' = steps_reset_at e.
Proof.
  unfold finish_current. destruct (me e) as [t|]; [|discriminate].
  destruct (get_task e t) as [tk|]; [|discriminate].
  destruct (is_finished tk); [discriminate|].
  destruct (upd_task e t _) as [e1|] eqn:H1; [|discriminate].
  intros H. injection H as <-.
  apply upd_task_shape in H1. destruct H1 as [ts ->]. cbn. auto.
Qed.

Lemma conts_code_ok_nth cs t c : conts_code_ok cs -> nth_error cs t = Some (Some c) -> code_ok c.
Proof.
  intros H Hn. unfold conts_code_ok in H. rewrite Forall_forall in H.
  apply nth_error_In in Hn. exact (H _ Hn).
Qed.

Lemma conts_code_ok_set cs t oc :
  conts_code_ok cs -> match oc with Some c => code_ok c | None => True end ->
  conts_code_ok (set_cont cs t oc).
Proof.
  unfold conts_code_ok, set_cont. intros H Hoc. revert t.
  induction H as [|x l Hx Hl IH]; intros t; cbn.
  - constructor.
  - destruct t as [|t]; constructor; auto.
Qed.

Lemma conts_code_ok_snoc cs c : conts_code_ok cs -> code_ok c -> conts_code_ok (cs ++ [Some c]).
Proof.
  unfold conts_code_ok. intros H Hc. apply Forall_app. split; [exact H|]. constructor; [exact Hc|constructor].
Qed.

(* ---------------- one segment ---------------- *)
Definition seg_inv (e : exec) : Prop := next e = SNone /\ current e <> SStopped /\ reset_ok e.

Definition stop_mark (e : exec) (tr : list event) : Prop :=
  next e = SStopped /\ exists pre off cur y, hd_error tr = Some (EvDecision pre off cur y None).

(* what the replay scheduler's final state looks like *)
Definition rp_post (new : list sstep) (newt : list event) (more : list sstep) (morev : list N)
                   (e' : exec) (tr' : list event) (rst : replay_state) : Prop :=
  (nrand new <> nvals newt -> rp_failed rst = true)
  /\ (nrand new = nvals newt ->
      exists ended, rst = mkReplay more morev false ended /\ (ended = true -> stop_mark e' tr')).

Definition rp_start (new : list sstep) (newt : list event) (more : list sstep) (morev : list N) : replay_state :=
  mkReplay (rev new ++ more) (rev (rvals newt) ++ morev) false false.

Definition seg_concl_gen (R : replay_state -> world * replay_state * seg_end) (w w' : world) (se : seg_end) : Prop :=
  reset_ok (w_e w') /\ conts_code_ok (w_conts w')
  /\ (forall k, se = SegYield k -> code_ok k)
  /\ ((forall k, se <> SegYield k) -> next (w_e w') = SNone)
  /\ exists new newt,
      eff (w_e w') = new ++ eff (w_e w) /\ w_trace w' = newt ++ w_trace w
      /\ nvals newt <= nrand new
      /\ (se <> SegPanic -> nrand new = nvals newt)
      /\ (good newt -> forall more morev,
            (next (w_e w') = SStopped -> more = []) ->
            (nrand new <> nvals newt -> more = [] /\ morev = []) ->
            exists rst,
              R (rp_start new newt more morev) = (w', rst, se)
              /\ rp_post new newt more morev (w_e w') (w_trace w') rst).

Definition seg_concl (c : code) (w w' : world) (se : seg_end) : Prop :=
  seg_concl_gen (run_seg replay ms c w) w w' se.

Lemma seg_trivial R w se :
  seg_inv (w_e w) -> conts_code_ok (w_conts w) ->
  (forall k, se = SegYield k -> code_ok k) ->
  (forall rst0, R rst0 = (w, rst0, se)) ->
  seg_concl_gen R w w se.
Proof.
  intros (Hn & Hc & Hr) Hcs Hk Hrun. unfold seg_concl_gen.
  split; [exact Hr|]. split; [exact Hcs|]. split; [exact Hk|]. split; [intros _; exact Hn|].
  exists [], []. split; [reflexivity|]. split; [reflexivity|]. split; [cbn; lia|]. split; [reflexivity|].
  intros _ more morev _ _. eexists. split; [apply Hrun|].
  unfold rp_post, rp_start. cbn [rev rvals flat_map app]. split.
  - intros H. exfalso. apply H. reflexivity.
  - intros _. exists false. split; [reflexivity|discriminate].
Qed.

(* a step that changes neither the effective schedule nor the drawn values *)
Lemma seg_concl_step (R R1 : replay_state -> world * replay_state * seg_end) w w1 w' se pre :
  eff (w_e w1) = eff (w_e w) -> w_trace w1 = pre ++ w_trace w -> rvals pre = [] ->
  (forall rst0, R rst0 = R1 rst0) ->
  seg_concl_gen R1 w1 w' se -> seg_concl_gen R w w' se.
Proof.
  intros He Ht Hpre Hrun (Hr & Hcs & Hk & Hn & new & newt & Heff & Htr & Hle & Heq & Hsim).
  unfold seg_concl_gen.
  split; [exact Hr|]. split; [exact Hcs|]. split; [exact Hk|]. split; [exact Hn|].
  assert (Hnv : nvals (newt ++ pre) = nvals newt).
  { unfold nvals. rewrite rvals_app, Hpre, app_nil_r. reflexivity. }
  exists new, (newt ++ pre).
  split; [rewrite Heff, He; reflexivity|].
  split; [rewrite Htr, Ht, app_assoc; reflexivity|].
  split; [rewrite Hnv; exact Hle|]. split; [rewrite Hnv; exact Heq|].
  intros G more morev Hm Hf. apply good_app in G. destruct G as [G _].
  rewrite Hnv in Hf. destruct (Hsim G more morev Hm Hf) as (rst & Hrun1 & Hpost).
  exists rst. split.
  - rewrite Hrun. unfold rp_start in *. rewrite rvals_app, Hpre, app_nil_r. exact Hrun1.
  - unfold rp_post in *. rewrite Hnv. exact Hpost.
Qed.

(* ---------------- thread::switch() ---------------- *)
Lemma switch_sim w st kd w' st' :
  seg_inv (w_e w) ->
  do_switch sch ms w st = sw_mk kd w' st' ->
  w_s w' = w_s w /\ w_conts w' = w_conts w /\ reset_ok (w_e w')
  /\ (kd = KCont -> seg_inv (w_e w'))
  /\ (kd = KPanic -> next (w_e w') = SNone)
  /\ exists new newt,
      eff (w_e w') = new ++ eff (w_e w) /\ w_trace w' = newt ++ w_trace w
      /\ nrand new = 0 /\ rvals newt = []
      /\ (good newt -> kd <> KPanic
          /\ forall more vals, (kd = KYield -> next (w_e w') = SStopped -> more = []) ->
             exists ended,
               do_switch replay ms w (mkReplay (rev new ++ more) vals false false)
               = sw_mk kd w' (mkReplay more vals false ended)
               /\ (ended = true -> kd = KYield /\ stop_mark (w_e w') (w_trace w'))).
Proof.
  intros (Hn & Hcur & Hr) Hsw. unfold do_switch in Hsw. cbv zeta in Hsw.
  destruct (panicking (w_e w) && negb (in_cleanup (w_e w))) eqn:Hp.
  - destruct kd; cbn [sw_mk] in Hsw; try discriminate. injection Hsw as <- <-.
    split; [reflexivity|]. split; [reflexivity|]. split; [exact Hr|].
    split; [discriminate|]. split; [discriminate|].
    exists [], []. split; [reflexivity|]. split; [reflexivity|]. split; [reflexivity|]. split; [reflexivity|].
    intros _. split; [discriminate|]. intros more vals _. exists false. split; [|discriminate].
    unfold do_switch. cbv zeta. rewrite Hp. reflexivity.
  - destruct (schedule sch ms (w_e w) st) as [[[err e1] st1] evs] eqn:Hs.
    destruct (sched_sim _ _ _ _ _ _ Hs) as (Hc1 & Hr1 & Hs1 & Hn1 & new & Heff & Hnr & Hrv & Hsim).
    assert (Hre1 : reset_ok e1) by (unfold reset_ok in *; rewrite Hs1, Hr1; exact Hr).
    destruct err as [[|]|].
    + (* step bound: the task suspends, the main loop will report it *)
      destruct kd; cbn [sw_mk] in Hsw; try discriminate. injection Hsw as <- <-. cbn [w_e w_s w_conts w_trace].
      split; [reflexivity|]. split; [reflexivity|]. split; [exact Hre1|].
      split; [discriminate|]. split; [discriminate|].
      exists new, evs. split; [exact Heff|]. split; [reflexivity|]. split; [exact Hnr|]. split; [exact Hrv|].
      intros G. split; [discriminate|]. intros more vals Hm. destruct (Hsim G) as [_ Hs2].
      destruct (Hs2 more vals (Hm eq_refl)) as (ended & Hrs & Hend).
      exists ended. split.
      * unfold do_switch. cbv zeta. rewrite Hp, Hrs. reflexivity.
      * intros He. destruct (Hend He) as (Hnx & pre & off & cur & y & ->).
        split; [reflexivity|]. split; [exact Hnx|]. exists pre, off, cur, y. reflexivity.
    + (* the runtime rejects the scheduler's answer: panic in the task *)
      destruct kd; cbn [sw_mk] in Hsw; try discriminate. injection Hsw as <- <-. cbn [w_e w_s w_conts w_trace].
      split; [reflexivity|]. split; [reflexivity|]. split; [exact Hre1|].
      split; [discriminate|]. split; [intros _; apply Hn1; discriminate|].
      exists new, evs. split; [exact Heff|]. split; [reflexivity|]. split; [exact Hnr|]. split; [exact Hrv|].
      intros G. exfalso. destruct (Hsim G) as [Hb _]. apply Hb. reflexivity.
    + destruct (sched_eqb (current e1) (next e1)) eqn:Heqb.
      * destruct kd; cbn [sw_mk] in Hsw; try discriminate. injection Hsw as <- <-. cbn [w_e w_s w_conts w_trace].
        apply sched_eqb_eq in Heqb as Hcn.
        assert (Hns : next e1 <> SStopped) by congruence.
        split; [reflexivity|]. split; [reflexivity|]. split; [apply reset_ok_advance; exact Hre1|].
        split.
        { intros _. split; [apply next_advance|]. split; [rewrite current_advance; exact Hns|].
          apply reset_ok_advance; exact Hre1. }
        split; [discriminate|].
        exists new, evs. split; [rewrite eff_advance; exact Heff|]. split; [reflexivity|].
        split; [exact Hnr|]. split; [exact Hrv|].
        intros G. split; [discriminate|]. intros more vals _. destruct (Hsim G) as [_ Hs2].
        destruct (Hs2 more vals) as (ended & Hrs & Hend).
        { intros H0. exfalso. exact (Hns H0). }
        destruct ended; [exfalso; destruct (Hend eq_refl) as [H0 _]; exact (Hns H0)|].
        exists false. split; [|discriminate].
        unfold do_switch. cbv zeta. rewrite Hp, Hrs, Heqb. reflexivity.
      * destruct kd; cbn [sw_mk] in Hsw; try discriminate. injection Hsw as <- <-. cbn [w_e w_s w_conts w_trace].
        split; [reflexivity|]. split; [reflexivity|]. split; [exact Hre1|].
        split; [discriminate|]. split; [discriminate|].
        exists new, evs. split; [exact Heff|]. split; [reflexivity|]. split; [exact Hnr|]. split; [exact Hrv|].
        intros G. split; [discriminate|]. intros more vals Hm. destruct (Hsim G) as [_ Hs2].
        destruct (Hs2 more vals (Hm eq_refl)) as (ended & Hrs & Hend).
        exists ended. split.
        -- unfold do_switch. cbv zeta. rewrite Hp, Hrs, Heqb. reflexivity.
        -- intros He. destruct (Hend He) as (Hnx & pre & off & cur & y & ->).
           split; [reflexivity|]. split; [exact Hnx|]. exists pre, off, cur, y. reflexivity.
Qed.

(* the task goes on after the switch *)
Lemma seg_after_switch (R R1 : replay_state -> world * replay_state * seg_end) w st w1 st1 w' se :
  seg_inv (w_e w) -> conts_code_ok (w_conts w) ->
  do_switch sch ms w st = SwContinue w1 st1 ->
  (forall rst0 rst1, do_switch replay ms w rst0 = SwContinue w1 rst1 -> R rst0 = R1 rst1) ->
  (seg_inv (w_e w1) -> conts_code_ok (w_conts w1) -> seg_concl_gen R1 w1 w' se) ->
  seg_concl_gen R w w' se.
Proof.
  intros Hinv Hcs Hsw HR H1.
  change (SwContinue w1 st1) with (sw_mk KCont w1 st1) in Hsw.
  destruct (switch_sim _ _ _ _ _ Hinv Hsw)
    as (_ & Hco & _ & Hinv1 & _ & new & newt & Heff & Htr & Hnr & Hrv & Hsim).
  assert (Hnv : nvals newt = 0) by (unfold nvals; rewrite Hrv; reflexivity).
  rewrite <- Hco in Hcs.
  destruct (H1 (Hinv1 eq_refl) Hcs)
    as (Hr' & Hcs' & Hk' & Hn' & new2 & newt2 & Heff2 & Htr2 & Hle2 & Heq2 & Hsim2).
  unfold seg_concl_gen.
  split; [exact Hr'|]. split; [exact Hcs'|]. split; [exact Hk'|]. split; [exact Hn'|].
  exists (new2 ++ new), (newt2 ++ newt).
  split; [rewrite Heff2, Heff, app_assoc; reflexivity|].
  split; [rewrite Htr2, Htr, app_assoc; reflexivity|].
  rewrite nrand_app, nvals_app, Hnr, Hnv, !Nat.add_0_r.
  split; [exact Hle2|]. split; [exact Heq2|].
  intros G more morev Hm Hf. apply good_app in G. destruct G as [G2 G1].
  destruct (Hsim G1) as [_ Hs2].
  destruct (Hs2 (rev new2 ++ more) (rev (rvals newt2) ++ morev)) as (ended & Hrs & Hend).
  { intros H0. discriminate. }
  destruct ended; [exfalso; destruct (Hend eq_refl) as [H0 _]; discriminate|].
  destruct (Hsim2 G2 more morev Hm Hf) as (rst & Hrun2 & Hpost2).
  exists rst. split.
  - unfold rp_start in *. rewrite rev_app_distr, rvals_app, Hrv, app_nil_r, <- app_assoc.
    rewrite (HR _ _ Hrs). exact Hrun2.
  - unfold rp_post in *. rewrite nrand_app, nvals_app, Hnr, Hnv, !Nat.add_0_r. exact Hpost2.
Qed.

(* the segment ends in the switch: the task suspends, or panics on a rejected answer *)
Lemma seg_switch_end (R : replay_state -> world * replay_state * seg_end) w st kd w1 st1 se :
  seg_inv (w_e w) -> conts_code_ok (w_conts w) ->
  do_switch sch ms w st = sw_mk kd w1 st1 ->
  (kd = KYield /\ exists k, se = SegYield k /\ code_ok k) \/ (kd = KPanic /\ se = SegPanic) ->
  (forall rst0 rst1, do_switch replay ms w rst0 = sw_mk kd w1 rst1 -> R rst0 = (w1, rst1, se)) ->
  seg_concl_gen R w w1 se.
Proof.
  intros Hinv Hcs Hsw Hkd HR.
  destruct (switch_sim _ _ _ _ _ Hinv Hsw)
    as (_ & Hco & Hr1 & _ & Hnp & new & newt & Heff & Htr & Hnr & Hrv & Hsim).
  assert (Hnv : nvals newt = 0) by (unfold nvals; rewrite Hrv; reflexivity).
  unfold seg_concl_gen.
  split; [exact Hr1|]. split; [rewrite Hco; exact Hcs|].
  split.
  { intros k0 H0. destruct Hkd as [(_ & k & -> & Hk)|[_ ->]]; [|discriminate]. injection H0 as <-. exact Hk. }
  split.
  { intros H0. destruct Hkd as [(_ & k & -> & _)|[-> _]]; [exfalso; exact (H0 k eq_refl)|]. apply Hnp. reflexivity. }
  exists new, newt.
  split; [exact Heff|]. split; [exact Htr|]. split; [lia|]. split; [intros _; lia|].
  intros G more morev Hm _. destruct (Hsim G) as [Hnpk Hs2].
  destruct Hkd as [(-> & k & -> & Hk)|[-> _]]; [|exfalso; apply Hnpk; reflexivity].
  destruct (Hs2 more morev (fun _ => Hm)) as (ended & Hrs & Hend).
  exists (mkReplay more morev false ended). split.
  - unfold rp_start. rewrite Hrv. cbn [rev app]. apply HR. exact Hrs.
  - unfold rp_post. split; [intros H; exfalso; apply H; lia|].
    intros _. exists ended. split; [reflexivity|]. intros He. destruct (Hend He) as [_ Hm2]. exact Hm2.
Qed.

(* the draw itself (after the bound test of next_u64) *)
Lemma draw_sim k :
  (forall v w st w' st' se, seg_inv (w_e w) -> conts_code_ok (w_conts w) ->
     run_seg sch ms (k v) w st = (w', st', se) -> seg_concl (k v) w w' se) ->
  forall w st w' st' se, seg_inv (w_e w) -> conts_code_ok (w_conts w) ->
  draw sch ms k w st = (w', st', se) -> seg_concl_gen (draw replay ms k w) w w' se.
Proof.
  intros IH w st w' st' se Hinv Hcs Hrun. unfold draw in Hrun. cbv zeta in Hrun.
  destruct (s_next_u64 sch st) as [v st1] eqn:Hv.
  destruct Hinv as (Hn & Hcur & Hr).
  destruct v as [v|].
  - assert (Hinv1 : seg_inv (with_recorded (w_e w) (StRandom :: recorded (w_e w)))).
    { split; [exact Hn|]. split; [exact Hcur|]. unfold reset_ok in *. cbn. lia. }
    destruct (IH v (mkWorld (with_recorded (w_e w) (StRandom :: recorded (w_e w))) (w_s w) (w_conts w)
                            (EvRandom v :: w_trace w)) st1 w' st' se Hinv1 Hcs Hrun)
      as (Hr' & Hcs' & Hk' & Hn' & new & newt & Heff & Htr & Hle & Heq & Hsim).
    cbn [w_e w_trace] in Heff, Htr.
    unfold seg_concl_gen.
    split; [exact Hr'|]. split; [exact Hcs'|]. split; [exact Hk'|]. split; [exact Hn'|].
    exists (new ++ [StRandom]), (newt ++ [EvRandom v]).
    split.
    { rewrite Heff. unfold eff, pending. cbn. rewrite Hn. cbn. rewrite <- app_assoc. reflexivity. }
    split; [rewrite Htr, <- app_assoc; reflexivity|].
    rewrite nrand_app, nvals_app. cbn [nrand nvals rvals flat_map length app].
    split; [lia|]. split; [intros H0; specialize (Heq H0); lia|].
    intros G more morev Hm Hf. apply good_app in G. destruct G as [G1 _].
    destruct (Hsim G1 more morev Hm) as (rst & Hrun1 & Hpost).
    { intros H0. apply Hf. lia. }
    exists rst. split.
    + unfold rp_start in *. rewrite rev_app_distr, rvals_app, rev_app_distr.
      cbn [rev app rvals flat_map]. unfold draw.
      cbn [s_next_u64 replay rp_steps rp_vals rp_failed rp_ended].
      exact Hrun1.
    + unfold rp_post in *. rewrite nrand_app, nvals_app.
      cbn [nrand nvals rvals flat_map length app].
      destruct Hpost as [P1 P2]. split; intros H0; [apply P1|apply P2]; lia.
  - injection Hrun as <- <- <-. unfold seg_concl_gen. cbn [w_e w_conts w_trace].
    split; [unfold reset_ok in *; cbn; lia|]. split; [exact Hcs|].
    split; [intros k0; discriminate|]. split; [intros _; exact Hn|].
    exists [StRandom], [].
    split; [unfold eff, pending; cbn; rewrite Hn; reflexivity|].
    split; [reflexivity|]. split; [cbn; lia|]. split; [intros H0; exfalso; apply H0; reflexivity|].
    intros _ more morev _ Hf. destruct Hf as [-> ->]; [cbn; lia|].
    exists (mkReplay [StRandom] [] true false). split.
    + reflexivity.
    + unfold rp_post. split; [reflexivity|]. cbn. intros H0. discriminate.
Qed.

Lemma seg_sim c : code_ok c -> forall w st w' st' se,
  seg_inv (w_e w) -> conts_code_ok (w_conts w) ->
  run_seg sch ms c w st = (w', st', se) -> seg_concl c w w' se.
Proof.
  intros Hc.
  induction Hc as [ | | f k Hf Hk IH | k Hk IH | k Hk IH | c k Hc _ Hk IH | tag vals k Hk IH];
    intros w st w' st' se Hinv Hcs Hrun; unfold seg_concl.
  - (* Ret *)
    cbn in Hrun. injection Hrun as <- <- <-.
    apply seg_trivial; auto. intros k; discriminate.
  - (* Panic *)
    cbn in Hrun. injection Hrun as <- <- <-.
    apply seg_trivial; auto. intros k; discriminate.
  - (* Atomic *)
    cbn [run_seg] in Hrun. destruct (f (w_e w) (w_s w)) as [[[e1 s1] a]|] eqn:Hfa.
    + destruct Hinv as (Hn & Hcur & Hr).
      destruct (Hf _ _ _ _ _ Hr Hfa) as (F1 & F2 & F3 & _ & _ & _ & _ & _ & _ & F10 & _).
      apply (seg_concl_step _ (run_seg replay ms (k a) (mkWorld e1 s1 (w_conts w) (w_trace w)))
               w (mkWorld e1 s1 (w_conts w) (w_trace w)) w' se []).
      * cbn. unfold eff, pending. rewrite F2, F3. reflexivity.
      * reflexivity.
      * reflexivity.
      * intros rst0. cbn [run_seg]. rewrite Hfa. reflexivity.
      * apply (IH a _ st _ st'); [|exact Hcs|exact Hrun].
        cbn. split; [congruence|]. split; [congruence|exact F10].
    + injection Hrun as <- <- <-. apply seg_trivial; auto; [intros k0; discriminate|].
      intros rst0. cbn [run_seg]. rewrite Hfa. reflexivity.
  - (* Switch *)
    cbn [run_seg] in Hrun.
    destruct (do_switch sch ms w st) as [w1 st1|w1 st1|w1 st1] eqn:Hsw.
    + apply (seg_after_switch _ (run_seg replay ms k w1) w st w1 st1 w' se Hinv Hcs Hsw).
      * intros rst0 rst1 Hrs. cbn [run_seg]. rewrite Hrs. reflexivity.
      * intros Hinv1 Hcs1. exact (IH _ _ _ _ _ Hinv1 Hcs1 Hrun).
    + injection Hrun as <- <- <-.
      apply (seg_switch_end _ w st KYield w1 st1 (SegYield k) Hinv Hcs Hsw).
      * left. split; [reflexivity|]. exists k. split; [reflexivity|exact Hk].
      * intros rst0 rst1 Hrs. cbn [run_seg]. rewrite Hrs. reflexivity.
    + injection Hrun as <- <- <-.
      apply (seg_switch_end _ w st KPanic w1 st1 SegPanic Hinv Hcs Hsw).
      * right. split; reflexivity.
      * intros rst0 rst1 Hrs. cbn [run_seg]. rewrite Hrs. reflexivity.
  - (* Rand *)
    assert (IH' : forall v w st w' st' se, seg_inv (w_e w) -> conts_code_ok (w_conts w) ->
                  run_seg sch ms (k v) w st = (w', st', se) -> seg_concl (k v) w w' se).
    { intros v w0 st0 w0' st0' se0 H1 H2 H3. exact (IH v _ _ _ _ _ H1 H2 H3). }
    rewrite run_seg_Rand in Hrun.
    destruct (bound_exhausted ms (w_e w)) eqn:Hb.
    + destruct (do_switch sch ms w st) as [w1 st1|w1 st1|w1 st1] eqn:Hsw.
      * apply (seg_after_switch _ (draw replay ms k w1) w st w1 st1 w' se Hinv Hcs Hsw).
        -- intros rst0 rst1 Hrs. rewrite run_seg_Rand, Hb, Hrs. reflexivity.
        -- intros Hinv1 Hcs1. exact (draw_sim k IH' _ _ _ _ _ Hinv1 Hcs1 Hrun).
      * injection Hrun as <- <- <-.
        apply (seg_switch_end _ w st KYield w1 st1 (SegYield (Rand k)) Hinv Hcs Hsw).
        -- left. split; [reflexivity|]. exists (Rand k). split; [reflexivity|constructor; exact Hk].
        -- intros rst0 rst1 Hrs. rewrite run_seg_Rand, Hb, Hrs. reflexivity.
      * injection Hrun as <- <- <-.
        apply (seg_switch_end _ w st KPanic w1 st1 SegPanic Hinv Hcs Hsw).
        -- right. split; reflexivity.
        -- intros rst0 rst1 Hrs. rewrite run_seg_Rand, Hb, Hrs. reflexivity.
    + apply (seg_concl_step _ (draw replay ms k w) w w w' se [] eq_refl eq_refl eq_refl).
      * intros rst0. rewrite run_seg_Rand, Hb. reflexivity.
      * exact (draw_sim k IH' _ _ _ _ _ Hinv Hcs Hrun).
  - (* SpawnNow *)
    cbn [run_seg] in Hrun. destruct (spawn_thread_now (w_e w)) as [[e1 tid]|] eqn:Hsp.
    + destruct Hinv as (Hn & Hcur & Hr).
      destruct (spawn_thread_now_frame _ _ _ Hsp) as (F1 & F2 & F3 & F4).
      apply (seg_concl_step _ (run_seg replay ms (k tid) (mkWorld e1 (w_s w) (w_conts w ++ [Some c]) (w_trace w)))
               w (mkWorld e1 (w_s w) (w_conts w ++ [Some c]) (w_trace w)) w' se []).
      * cbn. unfold eff, pending. rewrite F1, F3. reflexivity.
      * reflexivity.
      * reflexivity.
      * intros rst0. cbn [run_seg]. rewrite Hsp. reflexivity.
      * apply (IH tid _ st _ st'); [| |exact Hrun].
        -- cbn. split; [congruence|]. split; [congruence|]. unfold reset_ok in *. rewrite F3, F4. exact Hr.
        -- cbn. apply conts_code_ok_snoc; assumption.
    + injection Hrun as <- <- <-. apply seg_trivial; auto; [intros k0; discriminate|].
      intros rst0. cbn [run_seg]. rewrite Hsp. reflexivity.
  - (* Log *)
    cbn [run_seg] in Hrun. destruct (me (w_e w)) as [t|] eqn:Hme.
    + match type of Hrun with run_seg _ _ _ ?w1 _ = _ =>
        apply (seg_concl_step _ (run_seg replay ms k w1) w w1 w' se
                 [EvOp t tag vals match e_clock (w_e w) t with Some c => c | None => [] end]
                 eq_refl eq_refl eq_refl) end.
      * intros rst0. cbn [run_seg]. rewrite Hme. reflexivity.
      * apply (IH _ st _ st'); [exact Hinv|exact Hcs|exact Hrun].
    + injection Hrun as <- <- <-. apply seg_trivial; auto; [intros k0; discriminate|].
      intros rst0. cbn [run_seg]. rewrite Hme. reflexivity.
Qed.

End Sim.

(* ---------------- the main loop, one iteration = schedule + body ---------------- *)
Definition loop_body {SS} (sch : scheduler SS) (ms : max_steps)
    (rec : world -> SS -> world * SS * outcome) (w' : world) (st' : SS) : world * SS * outcome :=
  match current (w_e w') with
  | SSome t =>
    match nth_error (w_conts w') t with
    | Some (Some c) =>
      match run_seg sch ms c w' st' with
      | (w2, st2, SegDone) =>
        match finish_current (w_e w2) with
        | Some e3 => rec (mkWorld e3 (w_s w2) (set_cont (w_conts w2) t None) (w_trace w2)) st2
        | None => (w2, st2, OSchedulerBug)
        end
      | (w2, st2, SegYield k) =>
        rec (mkWorld (w_e w2) (w_s w2) (set_cont (w_conts w2) t (Some k)) (w_trace w2)) st2
      | (w2, st2, SegPanic) => (w2, st2, OPanic t)
      end
    | _ => (w', st', OSchedulerBug)
    end
  | SFinished =>
    if existsb (fun tk => negb (is_finished tk) && negb (t_detached tk)) (tasks (w_e w'))
    then (w', st', ODeadlock (unfinished_ids (w_e w')))
    else (w', st', OPass)
  | SStopped => (w', st', OStopped)
  | SNone => (w', st', OSchedulerBug)
  end.

Lemma run_loop_S {SS} (sch : scheduler SS) ms fuel w st :
  run_loop sch ms (S fuel) w st =
  match schedule sch ms (w_e w) st with
  | (Some ErrStepBound, e', st', evs) => (mkWorld e' (w_s w) (w_conts w) (evs ++ w_trace w), st', OStepBound)
  | (Some ErrSchedulerBug, e', st', evs) => (mkWorld e' (w_s w) (w_conts w) (evs ++ w_trace w), st', OSchedulerBug)
  | (None, e', st', evs) =>
    loop_body sch ms (run_loop sch ms fuel) (mkWorld (advance e') (w_s w) (w_conts w) (evs ++ w_trace w)) st'
  end.
Proof. reflexivity. Qed.

(* once a stop has been decided, the loop ends at once *)
Lemma loop_stopped {SS} (sch : scheduler SS) ms fuel w st :
  next (w_e w) = SStopped ->
  run_loop sch ms (S fuel) w st
  = (mkWorld (advance (w_e w)) (w_s w) (w_conts w) (w_trace w), st, OStopped).
Proof.
  intros Hn. rewrite run_loop_S, schedule_eq. unfold sched_pre. rewrite Hn.
  unfold loop_body. cbn [w_e]. rewrite current_advance, Hn. reflexivity.
Qed.

Definition last_none (tr : list event) : Prop :=
  exists pre off cur y, hd_error tr = Some (EvDecision pre off cur y None).

Definition loop_inv (w : world) : Prop := reset_ok (w_e w) /\ conts_code_ok (w_conts w).

(* the shape shared by the loop-level simulation statements: `run_r` is the replay computation
   started in world w, `start_ok` says when it may be started with rp_ended already set *)
Definition sim_concl (w wf : world) (out : outcome) (start_ok : bool -> Prop)
    (run_r : replay_state -> world * replay_state * outcome) : Prop :=
  exists new newt,
    eff (w_e wf) = new ++ eff (w_e w) /\ w_trace wf = newt ++ w_trace w
    /\ nvals newt <= nrand new
    /\ (out <> OFuel -> next (w_e wf) = SNone)
    /\ (good newt -> out <> OFuel -> out <> OSchedulerBug -> forall morev en,
          start_ok en -> (nrand new <> nvals newt -> morev = []) ->
          exists rst,
            run_r (mkReplay (rev new) (rev (rvals newt) ++ morev) false en) = (wf, rst, out)
            /\ (nrand new <> nvals newt -> rp_failed rst = true)
            /\ (nrand new = nvals newt ->
                exists ended, rst = mkReplay [] morev false ended
                              /\ (ended = true -> last_none (w_trace wf)))).

Lemma sim_concl_same w out (start_ok : bool -> Prop) run_r :
  (out <> OFuel -> next (w_e w) = SNone) ->
  (out <> OFuel -> out <> OSchedulerBug -> forall morev en, start_ok en ->
     run_r (mkReplay [] morev false en) = (w, mkReplay [] morev false en, out)
     /\ (en = true -> last_none (w_trace w))) ->
  sim_concl w w out start_ok run_r.
Proof.
  intros Hn Hrun. exists [], [].
  split; [reflexivity|]. split; [reflexivity|]. split; [cbn; lia|]. split; [exact Hn|].
  intros _ Hfu Hbug morev en Hen _. destruct (Hrun Hfu Hbug morev en Hen) as [Hr Hl].
  eexists. split; [exact Hr|]. split.
  - intros H. exfalso. apply H. reflexivity.
  - intros _. exists en. split; [reflexivity|exact Hl].
Qed.

Section Loop.
Context {SS : Type} (sch : scheduler SS) (ms : max_steps).

Definition loop_concl (fuel : nat) (w wf : world) (out : outcome) : Prop :=
  sim_concl w wf out (fun en => en = true -> stop_mark (w_e w) (w_trace w)) (run_loop replay ms fuel w).

Lemma stopped_new_nil fuel w st wf stf out new newt :
  next (w_e w) = SStopped -> run_loop sch ms fuel w st = (wf, stf, out) -> out <> OFuel ->
  eff (w_e wf) = new ++ eff (w_e w) -> w_trace wf = newt ++ w_trace w -> new = [] /\ newt = [].
Proof.
  intros Hn Hrun Hfu He Ht. destruct fuel as [|f].
  - cbn in Hrun. injection Hrun as <- <- <-. congruence.
  - rewrite (loop_stopped sch ms f w st Hn) in Hrun. injection Hrun as <- <- <-.
    cbn [w_e w_trace] in He, Ht. rewrite eff_advance in He.
    split; [apply (app_eq_self _ _ (eq_sym He))|apply (app_eq_self _ _ (eq_sym Ht))].
Qed.

(* a segment that did not panic, followed by the rest of the loop *)
Lemma body_tail f w1 c w2 se w3 st2 wf stf out (start_ok : bool -> Prop)
    (R : replay_state -> world * replay_state * outcome) :
  se <> SegPanic -> seg_concl ms c w1 w2 se ->
  next (w_e w3) = next (w_e w2) -> eff (w_e w3) = eff (w_e w2) -> w_trace w3 = w_trace w2 ->
  run_loop sch ms f w3 st2 = (wf, stf, out) -> loop_concl f w3 wf out ->
  (forall en, start_ok en -> en = false) ->
  (forall rst0 rst1, run_seg replay ms c w1 rst0 = (w2, rst1, se) -> R rst0 = run_loop replay ms f w3 rst1) ->
  sim_concl w1 wf out start_ok R.
Proof.
  intros Hse (Hr2 & Hcs2 & Hk2 & Hn2 & new1 & newt1 & Heff1 & Htr1 & Hle1 & Heq1 & Hsim1)
         Hnx He Ht Hrun (new3 & newt3 & Heff3 & Htr3 & Hle3 & Hnx3 & Hsim3) Hstart HR.
  specialize (Heq1 Hse).
  exists (new3 ++ new1), (newt3 ++ newt1).
  split; [rewrite Heff3, He, Heff1, app_assoc; reflexivity|].
  split; [rewrite Htr3, Ht, Htr1, app_assoc; reflexivity|].
  rewrite nrand_app, nvals_app.
  split; [lia|]. split; [exact Hnx3|].
  intros G Hfu Hbug morev en Hen Hf. apply good_app in G. destruct G as [G3 G1].
  rewrite (Hstart en Hen).
  destruct (Hsim1 G1 (rev new3) (rev (rvals newt3) ++ morev)) as (rst1 & Hrun1 & P1 & P2).
  { intros H0. rewrite <- Hnx in H0.
    destruct (stopped_new_nil _ _ _ _ _ _ _ _ H0 Hrun Hfu Heff3 Htr3) as [-> _]. reflexivity. }
  { intros H0. exfalso. exact (H0 Heq1). }
  destruct (P2 Heq1) as (ended1 & -> & Hend1).
  destruct (Hsim3 G3 Hfu Hbug morev ended1) as (rst & Hrun3 & Q1 & Q2).
  { intros H0. destruct (Hend1 H0) as [H1 H2]. split; [congruence|]. rewrite Ht. exact H2. }
  { intros H0. apply Hf. lia. }
  exists rst. split.
  - rewrite rev_app_distr, rvals_app, rev_app_distr, <- app_assoc.
    unfold rp_start in Hrun1. rewrite (HR _ _ Hrun1). exact Hrun3.
  - split; intros H0; [apply Q1|apply Q2]; lia.
Qed.

Definition body_concl (f : nat) (w1 wf : world) (out : outcome) : Prop :=
  sim_concl w1 wf out
    (fun en => en = true -> current (w_e w1) = SStopped /\ last_none (w_trace w1))
    (loop_body replay ms (run_loop replay ms f) w1).

Lemma body_sim f :
  (forall w st wf stf out, loop_inv w -> run_loop sch ms f w st = (wf, stf, out) -> loop_concl f w wf out) ->
  forall w1 st1 wf stf out, loop_inv w1 -> next (w_e w1) = SNone ->
  loop_body sch ms (run_loop sch ms f) w1 st1 = (wf, stf, out) -> body_concl f w1 wf out.
Proof.
  intros IH w1 st1 wf stf out [Hr Hcs] Hn Hrun. unfold loop_body in Hrun. unfold body_concl.
  destruct (current (w_e w1)) as [|t| |] eqn:Hcur.
  - injection Hrun as <- <- <-. apply sim_concl_same; [intros _; exact Hn|]. intros _ Hb. congruence.
  - destruct (nth_error (w_conts w1) t) as [[c|]|] eqn:Hnth.
    + assert (Hc : code_ok c) by (eapply conts_code_ok_nth; eassumption).
      assert (Hinv : seg_inv (w_e w1)).
      { split; [exact Hn|]. split; [congruence|exact Hr]. }
      destruct (run_seg sch ms c w1 st1) as [[w2 st2] se] eqn:Hseg.
      pose proof (seg_sim sch ms c Hc _ _ _ _ _ Hinv Hcs Hseg) as Hconcl.
      assert (Hstart : forall en : bool,
                 (en = true -> SSome t = SStopped /\ last_none (w_trace w1)) -> en = false).
      { intros en Hen. destruct en; [|reflexivity]. destruct (Hen eq_refl). discriminate. }
      destruct se as [k| |].
      * assert (Hinv3 : loop_inv (mkWorld (w_e w2) (w_s w2) (set_cont (w_conts w2) t (Some k)) (w_trace w2))).
        { destruct Hconcl as (Hr2 & Hcs2 & Hk2 & _). split; [exact Hr2|].
          cbn. apply conts_code_ok_set; [exact Hcs2|]. apply Hk2. reflexivity. }
        match type of Hrun with run_loop _ _ _ ?w3 _ = _ =>
          apply (body_tail f w1 c w2 (SegYield k) w3 st2 wf stf out) end;
          [discriminate|exact Hconcl|reflexivity|reflexivity|reflexivity|exact Hrun
          |exact (IH _ _ _ _ _ Hinv3 Hrun)|exact Hstart|].
        intros rst0 rst1 Hr1. unfold loop_body. rewrite Hcur, Hnth, Hr1. reflexivity.
      * destruct (finish_current (w_e w2)) as [e3|] eqn:Hfin.
        -- destruct (finish_current_frame _ _ Hfin) as (F1 & F2 & F3 & F4).
           assert (Hinv3 : loop_inv (mkWorld e3 (w_s w2) (set_cont (w_conts w2) t None) (w_trace w2))).
           { destruct Hconcl as (Hr2 & Hcs2 & _). split.
             - cbn. unfold reset_ok in *. rewrite F3, F4. exact Hr2.
             - cbn. apply conts_code_ok_set; [exact Hcs2|exact I]. }
           match type of Hrun with run_loop _ _ _ ?w3 _ = _ =>
             apply (body_tail f w1 c w2 SegDone w3 st2 wf stf out) end;
             [discriminate|exact Hconcl|exact F1
             |cbn; unfold eff, pending; rewrite F1, F3; reflexivity
             |reflexivity|exact Hrun|exact (IH _ _ _ _ _ Hinv3 Hrun)|exact Hstart|].
           intros rst0 rst1 Hr1. unfold loop_body. rewrite Hcur, Hnth, Hr1, Hfin. reflexivity.
        -- injection Hrun as <- <- <-.
           destruct Hconcl as (Hr2 & Hcs2 & Hk2 & Hn2 & new1 & newt1 & Heff1 & Htr1 & Hle1 & Heq1 & Hsim1).
           exists new1, newt1.
           split; [exact Heff1|]. split; [exact Htr1|]. split; [exact Hle1|].
           split; [intros _; apply Hn2; intros k; discriminate|].
           intros _ _ Hb. congruence.
      * injection Hrun as <- <- <-.
        destruct Hconcl as (Hr2 & Hcs2 & Hk2 & Hn2 & new1 & newt1 & Heff1 & Htr1 & Hle1 & Heq1 & Hsim1).
        exists new1, newt1.
        split; [exact Heff1|]. split; [exact Htr1|]. split; [exact Hle1|].
        split; [intros _; apply Hn2; intros k; discriminate|].
        intros G _ _ morev en Hen Hf. rewrite (Hstart en Hen).
        destruct (Hsim1 G [] morev) as (rst1 & Hrun1 & P1 & P2).
        { intros _. reflexivity. }
        { intros H0. split; [reflexivity|exact (Hf H0)]. }
        exists rst1. split.
        -- unfold loop_body. rewrite Hcur, Hnth.
           unfold rp_start in Hrun1. rewrite app_nil_r in Hrun1. rewrite Hrun1. reflexivity.
        -- split; [exact P1|]. intros H0. destruct (P2 H0) as (ended & -> & Hend).
           exists ended. split; [reflexivity|]. intros He. destruct (Hend He) as [_ Hl]. exact Hl.
    + injection Hrun as <- <- <-. apply sim_concl_same; [intros _; exact Hn|]. intros _ Hb. congruence.
    + injection Hrun as <- <- <-. apply sim_concl_same; [intros _; exact Hn|]. intros _ Hb. congruence.
  - injection Hrun as <- <- <-. apply sim_concl_same; [intros _; exact Hn|].
    intros _ _ morev en Hen. split.
    + unfold loop_body. rewrite Hcur. reflexivity.
    + intros He. destruct (Hen He) as [_ Hl]. exact Hl.
  - destruct (existsb _ (tasks (w_e w1))) eqn:Hex; injection Hrun as <- <- <-.
    + apply sim_concl_same; [intros _; exact Hn|].
      intros _ _ morev en Hen. split.
      * unfold loop_body. rewrite Hcur, Hex. reflexivity.
      * intros He. destruct (Hen He) as [H0 _]. congruence.
    + apply sim_concl_same; [intros _; exact Hn|].
      intros _ _ morev en Hen. split.
      * unfold loop_body. rewrite Hcur, Hex. reflexivity.
      * intros He. destruct (Hen He) as [H0 _]. congruence.
Qed.

Lemma loop_sim fuel : forall w st wf stf out,
  loop_inv w -> run_loop sch ms fuel w st = (wf, stf, out) -> loop_concl fuel w wf out.
Proof.
  induction fuel as [|f IH]; intros w st wf stf out Hinv Hrun.
  - cbn in Hrun. injection Hrun as <- <- <-.
    apply sim_concl_same; [intros H; congruence|intros H; congruence].
  - assert (Hdec : next (w_e w) = SStopped \/ next (w_e w) <> SStopped).
    { destruct (next (w_e w)); (left; reflexivity) || (right; discriminate). }
    destruct Hdec as [Hst|Hnst].
    + rewrite (loop_stopped sch ms f w st Hst) in Hrun. injection Hrun as <- <- <-.
      exists [], []. cbn [w_e w_trace].
      split; [rewrite eff_advance; reflexivity|]. split; [reflexivity|]. split; [cbn; lia|].
      split; [intros _; apply next_advance|].
      intros _ _ _ morev en Hen _. exists (mkReplay [] morev false en). split.
      * cbn [rev rvals flat_map app]. apply loop_stopped. exact Hst.
      * split; [intros H; exfalso; apply H; reflexivity|].
        intros _. exists en. split; [reflexivity|]. intros He. destruct (Hen He) as [_ Hl]. exact Hl.
    + assert (Hstart : forall en : bool, (en = true -> stop_mark (w_e w) (w_trace w)) -> en = false).
      { intros en Hen. destruct en; [|reflexivity]. destruct (Hen eq_refl) as [H0 _]. congruence. }
      destruct Hinv as [Hr Hcs].
      rewrite run_loop_S in Hrun.
      destruct (schedule sch ms (w_e w) st) as [[[err e1] st1] evs] eqn:Hs.
      destruct (sched_sim _ _ _ _ _ _ _ _ Hs) as (Hc1 & Hr1 & Hs1 & Hn1 & new0 & Heff0 & Hnr0 & Hrv0 & Hsim0).
      assert (Hnv0 : nvals evs = 0) by (unfold nvals; rewrite Hrv0; reflexivity).
      destruct err as [[|]|].
      * (* step bound *)
        injection Hrun as <- <- <-. exists new0, evs. cbn [w_e w_trace].
        split; [exact Heff0|]. split; [reflexivity|]. split; [lia|].
        split; [intros _; apply Hn1; discriminate|].
        intros G _ _ morev en Hen _. rewrite (Hstart en Hen).
        destruct (Hsim0 G) as [_ Hs2].
        destruct (Hs2 [] morev (fun _ => eq_refl)) as (ended & Hrs & Hend).
        exists (mkReplay [] morev false ended). split.
        -- rewrite run_loop_S, Hrv0. cbn [rev app]. rewrite app_nil_r in Hrs. rewrite Hrs. reflexivity.
        -- split; [intros H; exfalso; lia|]. intros _. exists ended. split; [reflexivity|].
           intros He. destruct (Hend He) as (_ & pre & off & cur & y & ->).
           exists pre, off, cur, y. reflexivity.
      * (* scheduler bug *)
        injection Hrun as <- <- <-. exists new0, evs. cbn [w_e w_trace].
        split; [exact Heff0|]. split; [reflexivity|]. split; [lia|].
        split; [intros _; apply Hn1; discriminate|].
        intros _ _ Hb. congruence.
      * (* a task (or the end) was selected *)
        assert (Hinv1 : loop_inv (mkWorld (advance e1) (w_s w) (w_conts w) (evs ++ w_trace w))).
        { split; [|exact Hcs]. cbn. apply reset_ok_advance. unfold reset_ok in *. rewrite Hs1, Hr1. exact Hr. }
        pose proof (body_sim f IH _ _ _ _ _ Hinv1 (next_advance e1) Hrun) as Hbody.
        destruct Hbody as (new2 & newt2 & Heff2 & Htr2 & Hle2 & Hnx2 & Hsim2).
        cbn [w_e w_trace] in Heff2, Htr2, Hsim2.
        exists (new2 ++ new0), (newt2 ++ evs).
        split; [rewrite Heff2, eff_advance, Heff0, app_assoc; reflexivity|].
        split; [rewrite Htr2, app_assoc; reflexivity|].
        rewrite nrand_app, nvals_app, Hnr0, Hnv0, !Nat.add_0_r.
        split; [exact Hle2|]. split; [exact Hnx2|].
        intros G Hfu Hbug morev en Hen Hf. rewrite (Hstart en Hen).
        apply good_app in G. destruct G as [G2 G0].
        destruct (Hsim0 G0) as [_ Hs2].
        destruct (Hs2 (rev new2) (rev (rvals newt2) ++ morev)) as (ended0 & Hrs & Hend0).
        { intros H0. unfold loop_body in Hrun. cbn [w_e] in Hrun.
          rewrite current_advance, H0 in Hrun. injection Hrun as <- <- <-.
          cbn [w_e] in Heff2. rewrite eff_advance in Heff2.
          rewrite (app_eq_self _ _ (eq_sym Heff2)). reflexivity. }
        destruct (Hsim2 G2 Hfu Hbug morev ended0) as (rst & Hrb & Q).
        { intros He. destruct (Hend0 He) as (H0 & pre & off & cur & y & ->).
          split; [rewrite current_advance; exact H0|]. exists pre, off, cur, y. reflexivity. }
        { exact Hf. }
        exists rst. split; [|exact Q].
        rewrite run_loop_S, rev_app_distr, rvals_app, Hrv0, app_nil_r, Hrs. exact Hrb.
Qed.

End Loop.

(* ================= top level ================= *)

Lemma draws_rvals tr : draws tr = rev (rvals tr).
Proof. reflexivity. Qed.

Lemma init_world_inv main objs : code_ok main -> loop_inv (init_world main objs).
Proof.
  intros Hok. split; cbn.
  - unfold reset_ok. cbn. lia.
  - constructor; [exact Hok|constructor].
Qed.

Theorem replay_identical : stmt_replay.
Proof.
  intros SS sch ms fuel main objs st w st' out [Hok Hrun] Hfu Hbug Hgood.
  unfold run_exec in *.
  destruct (loop_sim sch ms fuel _ _ _ _ _ (init_world_inv main objs Hok) Hrun)
    as (new & newt & Heff & Htr & Hle & Hnx & Hsim).
  cbn [init_world w_e w_trace] in Heff, Htr.
  unfold eff at 2 in Heff. unfold pending in Heff. cbn in Heff.
  unfold eff, pending in Heff. rewrite (Hnx Hfu) in Heff. cbn [app] in Heff.
  rewrite !app_nil_r in *.
  unfold draws_complete. rewrite draws_rvals, rev_length, Heff, Htr. fold (nvals newt).
  destruct (Hsim (ltac:(rewrite <- Htr; exact Hgood)) Hfu Hbug [] false ltac:(discriminate) (fun _ => eq_refl))
    as (rst & Hr & P1 & P2).
  rewrite app_nil_r in Hr.
  exists rst. split; [exact Hr|]. split; [split|].
  - intros Hf. destruct (Nat.eq_dec (nrand new) (nvals newt)) as [E|NE]; [exact E|].
    rewrite (P1 NE) in Hf. discriminate.
  - intros E. destruct (P2 E) as (ended & -> & _). reflexivity.
  - intros Hf He. destruct (Nat.eq_dec (nrand new) (nvals newt)) as [E|NE].
    + destruct (P2 E) as (ended & -> & Hend). cbn in He. rewrite <- Htr. exact (Hend He).
    + rewrite (P1 NE) in Hf. discriminate.
Qed.

Theorem schedule_complete : stmt_schedule_complete.
Proof.
  intros SS1 SS2 s1 s2 ms fuel main objs st1 st2 w1 w2 st1' st2' o1 o2 R1 R2 F1 F2 B1 B2 G1 G2 Hrec Hdr.
  destruct (replay_identical _ _ _ _ _ _ _ _ _ _ R1 F1 B1 G1) as (rst1 & E1 & _).
  destruct (replay_identical _ _ _ _ _ _ _ _ _ _ R2 F2 B2 G2) as (rst2 & E2 & _).
  rewrite Hrec, Hdr, E2 in E1. injection E1 as <- <- <-. split; reflexivity.
Qed.

(* ================= scheduler-level sufficient conditions ================= *)
Lemma good_app_intro t1 t2 : good t1 -> good t2 -> good (t1 ++ t2).
Proof.
  intros G1 G2 pre off cur y t HI. apply in_app_or in HI. destruct HI as [HI|HI]; [eapply G1|eapply G2]; exact HI.
Qed.

Definition sw_world {S} (r : @switch_res S) : world :=
  match r with SwContinue w _ | SwYield w _ | SwPanic w _ => w end.

Section Sane.
Context {SS : Type} (sch : scheduler SS) (ms : max_steps) (Hsane : sane sch).

Lemma sched_good e st err e' st' evs : schedule sch ms e st = (err, e', st', evs) -> good evs.
Proof.
  rewrite schedule_eq. destruct (sched_pre ms e) as [[err0 e0]|e1].
  - intros H. injection H as <- <- <- <-. apply good_nil.
  - cbv zeta. destruct (s_next_task sch st _ _ _) as [choice st1] eqn:Hch.
    destruct (sched_post _ choice) as [err1 e2].
    intros H. injection H as <- <- <- <-.
    intros pre off cur y t [H0|[]]. inversion H0; subst.
    exact (Hsane _ _ _ _ _ _ Hch).
Qed.

Lemma switch_good w st : good (w_trace w) -> good (w_trace (sw_world (do_switch sch ms w st))).
Proof.
  intros G. unfold do_switch. cbv zeta.
  destruct (panicking (w_e w) && negb (in_cleanup (w_e w))); [exact G|].
  destruct (schedule sch ms (w_e w) st) as [[[err e1] st1] evs] eqn:Hs.
  pose proof (good_app_intro _ _ (sched_good _ _ _ _ _ _ Hs) G) as G1.
  destruct err as [[|]|]; [exact G1|exact G1|].
  destruct (sched_eqb (current e1) (next e1)); exact G1.
Qed.

Lemma draw_good k :
  (forall v w st w' st' se, run_seg sch ms (k v) w st = (w', st', se) -> good (w_trace w) -> good (w_trace w')) ->
  forall w st w' st' se, draw sch ms k w st = (w', st', se) -> good (w_trace w) -> good (w_trace w').
Proof.
  intros IH w st w' st' se Hrun G. unfold draw in Hrun. cbv zeta in Hrun.
  destruct (s_next_u64 sch st) as [v st1]. destruct v as [v|].
  - apply (IH _ _ _ _ _ _ Hrun). cbn.
    intros pre off cur y t [H0|H0]; [discriminate|exact (G _ _ _ _ _ H0)].
  - injection Hrun as <- <- <-. exact G.
Qed.

Lemma seg_good c : forall w st w' st' se,
  run_seg sch ms c w st = (w', st', se) -> good (w_trace w) -> good (w_trace w').
Proof.
  induction c as [ | | f k IH | k IH | k IH | c _ k IH | tag vals k IH]; intros w st w' st' se Hrun G.
  - cbn in Hrun. injection Hrun as <- <- <-. exact G.
  - cbn in Hrun. injection Hrun as <- <- <-. exact G.
  - cbn [run_seg] in Hrun. destruct (f (w_e w) (w_s w)) as [[[e1 s1] a]|].
    + exact (IH _ _ _ _ _ _ Hrun G).
    + injection Hrun as <- <- <-. exact G.
  - cbn [run_seg] in Hrun. pose proof (switch_good w st G) as G1.
    destruct (do_switch sch ms w st) as [w1 st1|w1 st1|w1 st1]; cbn [sw_world] in G1.
    + exact (IH _ _ _ _ _ Hrun G1).
    + injection Hrun as <- <- <-. exact G1.
    + injection Hrun as <- <- <-. exact G1.
  - rewrite run_seg_Rand in Hrun. destruct (bound_exhausted ms (w_e w)).
    + pose proof (switch_good w st G) as G1.
      destruct (do_switch sch ms w st) as [w1 st1|w1 st1|w1 st1]; cbn [sw_world] in G1.
      * exact (draw_good k IH _ _ _ _ _ Hrun G1).
      * injection Hrun as <- <- <-. exact G1.
      * injection Hrun as <- <- <-. exact G1.
    + exact (draw_good k IH _ _ _ _ _ Hrun G).
  - cbn [run_seg] in Hrun. destruct (spawn_thread_now (w_e w)) as [[e1 tid]|].
    + exact (IH _ _ _ _ _ _ Hrun G).
    + injection Hrun as <- <- <-. exact G.
  - cbn [run_seg] in Hrun. destruct (me (w_e w)) as [t0|].
    + apply (IH _ _ _ _ _ Hrun). cbn.
      intros pre off cur y t [H0|H0]; [discriminate|exact (G _ _ _ _ _ H0)].
    + injection Hrun as <- <- <-. exact G.
Qed.

Lemma loop_good fuel : forall w st wf stf out,
  run_loop sch ms fuel w st = (wf, stf, out) -> good (w_trace w) -> good (w_trace wf).
Proof.
  induction fuel as [|f IH]; intros w st wf stf out Hrun G.
  - cbn in Hrun. injection Hrun as <- <- <-. exact G.
  - rewrite run_loop_S in Hrun.
    destruct (schedule sch ms (w_e w) st) as [[[err e1] st1] evs] eqn:Hs.
    pose proof (good_app_intro _ _ (sched_good _ _ _ _ _ _ Hs) G) as G1.
    destruct err as [[|]|].
    + injection Hrun as <- <- <-. exact G1.
    + injection Hrun as <- <- <-. exact G1.
    + unfold loop_body in Hrun. cbn [w_e w_conts w_trace] in Hrun.
      destruct (current (advance e1)) as [|t| |].
      * injection Hrun as <- <- <-. exact G1.
      * destruct (nth_error (w_conts w) t) as [[c|]|].
        -- destruct (run_seg sch ms c _ st1) as [[w2 st2] se] eqn:Hseg.
           pose proof (seg_good _ _ _ _ _ _ Hseg G1) as G2.
           destruct se as [k| |].
           ++ exact (IH _ _ _ _ _ Hrun G2).
           ++ destruct (finish_current (w_e w2)) as [e3|].
              ** exact (IH _ _ _ _ _ Hrun G2).
              ** injection Hrun as <- <- <-. exact G2.
           ++ injection Hrun as <- <- <-. exact G2.
        -- injection Hrun as <- <- <-. exact G1.
        -- injection Hrun as <- <- <-. exact G1.
      * injection Hrun as <- <- <-. exact G1.
      * destruct (existsb _ _); injection Hrun as <- <- <-; exact G1.
Qed.

End Sane.

Lemma sane_decisions_offered {SS} (sch : scheduler SS) ms fuel main objs st w st' out :
  sane sch -> Run sch ms fuel main objs st w st' out -> decisions_offered w.
Proof.
  intros Hs [_ Hrun]. unfold run_exec in Hrun.
  exact (loop_good sch ms Hs fuel _ _ _ _ _ Hrun good_nil).
Qed.

(* recorded random steps and drawn values stay in balance when the data source never panics *)
Definition bal (w w' : world) : Prop :=
  nrand (recorded (w_e w')) + nvals (w_trace w) = nrand (recorded (w_e w)) + nvals (w_trace w').

Lemma nrand_advance e : nrand (recorded (advance e)) = nrand (recorded e).
Proof. unfold advance. cbn. destruct (next e); reflexivity. Qed.

Section Total.
Context {SS : Type} (sch : scheduler SS) (ms : max_steps) (Htot : total_rand sch).

Lemma switch_bal w st :
  reset_ok (w_e w) ->
  reset_ok (w_e (sw_world (do_switch sch ms w st))) /\ bal w (sw_world (do_switch sch ms w st)).
Proof.
  intros Hr. unfold do_switch. cbv zeta.
  destruct (panicking (w_e w) && negb (in_cleanup (w_e w))); [split; [exact Hr|reflexivity]|].
  destruct (schedule sch ms (w_e w) st) as [[[err e1] st1] evs] eqn:Hs.
  destruct (sched_sim _ _ _ _ _ _ _ _ Hs) as (Hc1 & Hr1 & Hs1 & Hn1 & new0 & Heff0 & Hnr0 & Hrv0 & _).
  assert (Hnv0 : nvals evs = 0) by (unfold nvals; rewrite Hrv0; reflexivity).
  assert (Hre1 : reset_ok e1) by (unfold reset_ok in *; rewrite Hs1, Hr1; exact Hr).
  assert (Hy : reset_ok e1 /\ bal w (mkWorld e1 (w_s w) (w_conts w) (evs ++ w_trace w))).
  { split; [exact Hre1|]. unfold bal. cbn [w_e w_trace]. rewrite Hr1, nvals_app, Hnv0. lia. }
  destruct err as [[|]|]; [exact Hy|exact Hy|].
  destruct (sched_eqb (current e1) (next e1)); [|exact Hy].
  cbn [sw_world]. split; [apply reset_ok_advance; exact Hre1|].
  unfold bal. cbn [w_e w_trace]. rewrite nrand_advance, Hr1, nvals_app, Hnv0. lia.
Qed.

Lemma draw_bal k :
  (forall v w st w' st' se, reset_ok (w_e w) -> run_seg sch ms (k v) w st = (w', st', se) ->
     reset_ok (w_e w') /\ bal w w') ->
  forall w st w' st' se, reset_ok (w_e w) -> draw sch ms k w st = (w', st', se) ->
  reset_ok (w_e w') /\ bal w w'.
Proof.
  intros IH w st w' st' se Hr Hrun. unfold draw in Hrun. cbv zeta in Hrun.
  destruct (s_next_u64 sch st) as [v st1] eqn:Hv. destruct v as [v|].
  - assert (Hr1 : reset_ok (with_recorded (w_e w) (StRandom :: recorded (w_e w)))).
    { unfold reset_ok in *. cbn. lia. }
    destruct ((fun H => IH v _ _ _ _ _ H Hrun) Hr1) as [Hr' Hb]. split; [exact Hr'|].
    unfold bal in *. cbn [w_e w_trace recorded with_recorded] in Hb.
    change (nrand (StRandom :: recorded (w_e w))) with (S (nrand (recorded (w_e w)))) in Hb.
    change (nvals (EvRandom v :: w_trace w)) with (S (nvals (w_trace w))) in Hb. lia.
  - exfalso. apply (Htot st). rewrite Hv. reflexivity.
Qed.

Lemma bal_trans w1 w2 w3 : bal w1 w2 -> bal w2 w3 -> bal w1 w3.
Proof. unfold bal. lia. Qed.

Lemma seg_bal c : code_ok c -> forall w st w' st' se,
  reset_ok (w_e w) -> run_seg sch ms c w st = (w', st', se) -> reset_ok (w_e w') /\ bal w w'.
Proof.
  intros Hc.
  induction Hc as [ | | f k Hf Hk IH | k Hk IH | k Hk IH | c k Hc _ Hk IH | tag vals k Hk IH];
    intros w st w' st' se Hr Hrun.
  - cbn in Hrun. injection Hrun as <- <- <-. split; [exact Hr|reflexivity].
  - cbn in Hrun. injection Hrun as <- <- <-. split; [exact Hr|reflexivity].
  - cbn [run_seg] in Hrun. destruct (f (w_e w) (w_s w)) as [[[e1 s1] a]|] eqn:Hfa.
    + destruct (Hf _ _ _ _ _ Hr Hfa) as (F1 & F2 & F3 & _ & _ & _ & _ & _ & _ & F10 & _).
      destruct ((fun H => IH a _ _ _ _ _ H Hrun) F10) as [Hr' Hb].
      split; [exact Hr'|].
      unfold bal in *. cbn [w_e w_trace] in Hb. rewrite F3 in Hb. exact Hb.
    + injection Hrun as <- <- <-. split; [exact Hr|reflexivity].
  - cbn [run_seg] in Hrun. destruct (switch_bal w st Hr) as [Hr1 Hb1].
    destruct (do_switch sch ms w st) as [w1 st1|w1 st1|w1 st1]; cbn [sw_world] in Hr1, Hb1.
    + destruct (IH _ _ _ _ _ Hr1 Hrun) as [Hr' Hb]. split; [exact Hr'|exact (bal_trans _ _ _ Hb1 Hb)].
    + injection Hrun as <- <- <-. split; assumption.
    + injection Hrun as <- <- <-. split; assumption.
  - rewrite run_seg_Rand in Hrun. destruct (bound_exhausted ms (w_e w)).
    + destruct (switch_bal w st Hr) as [Hr1 Hb1].
      destruct (do_switch sch ms w st) as [w1 st1|w1 st1|w1 st1]; cbn [sw_world] in Hr1, Hb1.
      * destruct (draw_bal k IH _ _ _ _ _ Hr1 Hrun) as [Hr' Hb].
        split; [exact Hr'|exact (bal_trans _ _ _ Hb1 Hb)].
      * injection Hrun as <- <- <-. split; assumption.
      * injection Hrun as <- <- <-. split; assumption.
    + exact (draw_bal k IH _ _ _ _ _ Hr Hrun).
  - cbn [run_seg] in Hrun. destruct (spawn_thread_now (w_e w)) as [[e1 tid]|] eqn:Hsp.
    + destruct (spawn_thread_now_frame _ _ _ Hsp) as (F1 & F2 & F3 & F4).
      assert (Hr1 : reset_ok e1) by (unfold reset_ok in *; rewrite F3, F4; exact Hr).
      destruct ((fun H => IH tid _ _ _ _ _ H Hrun) Hr1) as [Hr' Hb]. split; [exact Hr'|].
      unfold bal in *. cbn [w_e w_trace] in Hb. rewrite F3 in Hb. exact Hb.
    + injection Hrun as <- <- <-. split; [exact Hr|reflexivity].
  - cbn [run_seg] in Hrun. destruct (me (w_e w)) as [t0|].
    + destruct ((fun H => IH _ _ _ _ _ H Hrun) Hr) as [Hr' Hb]. split; [exact Hr'|].
      unfold bal in *. cbn [w_e w_trace] in Hb.
      match type of Hb with context [nvals (?ev :: w_trace w)] =>
        change (nvals (ev :: w_trace w)) with (nvals (w_trace w)) in Hb end.
      exact Hb.
    + injection Hrun as <- <- <-. split; [exact Hr|reflexivity].
Qed.

Lemma loop_bal fuel : forall w st wf stf out,
  loop_inv w -> run_loop sch ms fuel w st = (wf, stf, out) -> bal w wf.
Proof.
  induction fuel as [|f IH]; intros w st wf stf out [Hr Hcs] Hrun.
  - cbn in Hrun. injection Hrun as <- <- <-. reflexivity.
  - rewrite run_loop_S in Hrun.
    destruct (schedule sch ms (w_e w) st) as [[[err e1] st1] evs] eqn:Hs.
    destruct (sched_sim _ _ _ _ _ _ _ _ Hs) as (Hc1 & Hr1 & Hs1 & Hn1 & new0 & Heff0 & Hnr0 & Hrv0 & _).
    assert (Hnv0 : nvals evs = 0) by (unfold nvals; rewrite Hrv0; reflexivity).
    assert (Hre1 : reset_ok e1) by (unfold reset_ok in *; rewrite Hs1, Hr1; exact Hr).
    assert (Hy : bal w (mkWorld e1 (w_s w) (w_conts w) (evs ++ w_trace w))).
    { unfold bal. cbn [w_e w_trace]. rewrite Hr1, nvals_app, Hnv0. lia. }
    assert (Hy1 : bal w (mkWorld (advance e1) (w_s w) (w_conts w) (evs ++ w_trace w))).
    { unfold bal. cbn [w_e w_trace]. rewrite nrand_advance, Hr1, nvals_app, Hnv0. lia. }
    destruct err as [[|]|].
    + injection Hrun as <- <- <-. exact Hy.
    + injection Hrun as <- <- <-. exact Hy.
    + unfold loop_body in Hrun. cbn [w_e w_conts w_trace] in Hrun.
      destruct (current (advance e1)) as [|t| |] eqn:Hcur.
      * injection Hrun as <- <- <-. exact Hy1.
      * destruct (nth_error (w_conts w) t) as [[c|]|] eqn:Hnth.
        -- assert (Hc : code_ok c) by (eapply conts_code_ok_nth; eassumption).
           destruct (run_seg sch ms c _ st1) as [[w2 st2] se] eqn:Hseg.
           assert (Hinv : seg_inv (advance e1)).
           { split; [apply next_advance|]. split; [congruence|apply reset_ok_advance; exact Hre1]. }
           destruct ((fun H1 H2 => seg_sim sch ms c Hc _ _ _ _ _ H1 H2 Hseg) Hinv Hcs) as (Hr2 & Hcs2 & Hk2 & _).
           destruct ((fun H => seg_bal c Hc _ _ _ _ _ H Hseg) (reset_ok_advance _ Hre1)) as [_ Hb2].
           assert (Hb02 : bal w w2) by (unfold bal in *; cbn [w_e w_trace] in *; lia).
           destruct se as [k| |].
           ++ assert (Hinv3 : loop_inv (mkWorld (w_e w2) (w_s w2) (set_cont (w_conts w2) t (Some k)) (w_trace w2))).
              { split; [exact Hr2|]. cbn. apply conts_code_ok_set; [exact Hcs2|]. apply Hk2. reflexivity. }
              pose proof (IH _ _ _ _ _ Hinv3 Hrun) as Hb3.
              unfold bal in *. cbn [w_e w_trace] in *. lia.
           ++ destruct (finish_current (w_e w2)) as [e3|] eqn:Hfin.
              ** destruct (finish_current_frame _ _ Hfin) as (F1 & F2 & F3 & F4).
                 assert (Hinv3 : loop_inv (mkWorld e3 (w_s w2) (set_cont (w_conts w2) t None) (w_trace w2))).
                 { split.
                   - cbn. unfold reset_ok in *. rewrite F3, F4. exact Hr2.
                   - cbn. apply conts_code_ok_set; [exact Hcs2|exact I]. }
                 pose proof (IH _ _ _ _ _ Hinv3 Hrun) as Hb3.
                 unfold bal in *. cbn [w_e w_trace] in *. rewrite F3 in Hb3. lia.
              ** injection Hrun as <- <- <-. exact Hb02.
           ++ injection Hrun as <- <- <-. exact Hb02.
        -- injection Hrun as <- <- <-. exact Hy1.
        -- injection Hrun as <- <- <-. exact Hy1.
      * injection Hrun as <- <- <-. exact Hy1.
      * destruct (existsb _ _); injection Hrun as <- <- <-; exact Hy1.
Qed.

End Total.

Lemma total_draws_complete {SS} (sch : scheduler SS) ms fuel main objs st w st' out :
  total_rand sch -> Run sch ms fuel main objs st w st' out -> draws_complete w.
Proof.
  intros Ht [Hok Hrun]. unfold run_exec in Hrun.
  pose proof (loop_bal sch ms Ht fuel _ _ _ _ _ (init_world_inv main objs Hok) Hrun) as Hb.
  unfold bal in Hb. cbn in Hb. unfold draws_complete. rewrite draws_rvals, rev_length.
  fold (nvals (w_trace w)). lia.
Qed.


Theorem replay_sane : stmt_replay_sane.
Proof.
  intros SS sch ms fuel main objs st w st' out HR Hs Ht Hfu Hbug.
  destruct (replay_identical _ _ _ _ _ _ _ _ _ _ HR Hfu Hbug (sane_decisions_offered _ _ _ _ _ _ _ _ _ Hs HR))
    as (rst & E & [_ Hf] & He).
  specialize (Hf (total_draws_complete _ _ _ _ _ _ _ _ _ Ht HR)).
  exists rst. split; [exact E|]. split; [exact Hf|]. exact (He Hf).
Qed.

(* ================= the hypothesis `decisions_offered` is still necessary ================= *)
(* With do_switch, an answer of the scheduler that the runtime rejects inside thread::switch() makes
   the task panic: the run ends in OPanic t, which `out <> OSchedulerBug` does not exclude.  The
   rejected decision is in the trace but nothing is recorded for it, so the replay scheduler finds
   its schedule exhausted at that decision, answers None, and the replay ends in OStopped. *)
Definition bad_sched : scheduler nat :=
  mkSched (fun st offered _ _ => (if Nat.eqb st 1 then Some 99 else hd_error offered, S st))
          (fun st => (Some 0%N, st)).
Definition bad_run := run_exec bad_sched MSNone 10 (Switch Ret) [] 0.

Example bad_run_outcome :
  snd bad_run = OPanic 0 /\ recorded (w_e (fst (fst bad_run))) = [StTask 0]
  /\ length (w_trace (fst (fst bad_run))) = 2.
Proof. vm_compute. repeat split; reflexivity. Qed.

Example bad_run_replayed :
  let w := fst (fst bad_run) in
  let r := run_exec replay MSNone 10 (Switch Ret) []
             (mkReplay (rev (recorded (w_e w))) (draws (w_trace w)) false false) in
  snd r = OStopped /\ rp_ended (snd (fst r)) = true.
Proof. vm_compute. repeat split; reflexivity. Qed.

Lemma code_ok_switch_ret : code_ok (Switch Ret).
Proof. repeat constructor. Qed.

Definition stmt_replay_without_offered_hyp : Prop :=
  forall SS (sch : scheduler SS) ms fuel main objs st w st' out, Run sch ms fuel main objs st w st' out ->
  out <> OFuel -> out <> OSchedulerBug ->
  exists rst, run_exec replay ms fuel main objs (mkReplay (rev (recorded (w_e w))) (draws (w_trace w)) false false)
              = (w, rst, out).

Theorem replay_without_offered_hyp_is_false : ~ stmt_replay_without_offered_hyp.
Proof.
  intros H.
  destruct (H nat bad_sched MSNone 10 (Switch Ret) [] 0
              (fst (fst bad_run)) (snd (fst bad_run)) (snd bad_run)) as (rst & Hr).
  - split; [exact code_ok_switch_ret|]. unfold bad_run.
    destruct (run_exec bad_sched MSNone 10 (Switch Ret) [] 0) as [[w s] o]. reflexivity.
  - vm_compute. discriminate.
  - vm_compute. discriminate.
  - apply (f_equal snd) in Hr. vm_compute in Hr. discriminate.
Qed.

(* A scheduler whose next_u64 panics: StRandom is recorded, no value is drawn, the task panics.  The
   replay reproduces world and outcome but reaches its own panic; this is the case `draws_complete w`
   separates in stmt_replay. *)
Definition norand_sched : scheduler unit :=
  mkSched (fun st offered _ _ => (hd_error offered, st)) (fun st => (None, st)).
Definition norand_run := run_exec norand_sched MSNone 10 (Rand (fun _ => Ret)) [] tt.

Example norand_run_outcome :
  snd norand_run = OPanic 0 /\ recorded (w_e (fst (fst norand_run))) = [StRandom; StTask 0]
  /\ draws (w_trace (fst (fst norand_run))) = [].
Proof. vm_compute. repeat split; reflexivity. Qed.

Example norand_run_replayed :
  let w := fst (fst norand_run) in
  let r := run_exec replay MSNone 10 (Rand (fun _ => Ret)) []
             (mkReplay (rev (recorded (w_e w))) (draws (w_trace w)) false false) in
  fst (fst r) = w /\ snd r = OPanic 0 /\ rp_failed (snd (fst r)) = true.
Proof. vm_compute. repeat split; reflexivity. Qed.

(* ---- the scripted scheduler of Lang/Prog.v satisfies both scheduler-level conditions ---- *)
Require SV.Lang.Prog.

Lemma scripted_sane : sane SV.Lang.Prog.scripted.
Proof.
  intros st off cur y t st'. unfold SV.Lang.Prog.scripted. cbn [s_next_task].
  destruct (SV.Lang.Prog.sc_script st) as [|[i|] r]; intros H.
  - injection H as H _. destruct off as [|x l]; cbn in H; [discriminate|]. injection H as ->. left. reflexivity.
  - injection H as H _. exact (nth_error_In _ _ H).
  - discriminate.
Qed.

Lemma scripted_total : total_rand SV.Lang.Prog.scripted.
Proof. intros st. cbn. discriminate. Qed.
