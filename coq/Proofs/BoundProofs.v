(* C13, stmt_bound_unaffected: an execution without a step bound whose scheduling points all lie
   below n is reproduced identically under the bound n.  No Admitted / Axiom. *)
From Coq Require Import List NArith Bool Arith Lia.
From SV Require Import Clock.VClock Prim.Objects Engine.Exec Engine.Inv Sched.Replay Engine.Stmt
  Proofs.EngineBase Proofs.SchedSpec Proofs.EngineInv Proofs.EngineRun.
Import ListNotations.

(* ------------------------------------------------------------------ *)
(* traces only grow                                                    *)
(* ------------------------------------------------------------------ *)
Definition ext (tr tr' : list event) : Prop := exists l, tr' = l ++ tr.

Lemma ext_refl : forall tr, ext tr tr.
Proof. intros tr; exists []; reflexivity. Qed.
Lemma ext_trans : forall a b c, ext a b -> ext b c -> ext a c.
Proof. intros a b c [l1 ->] [l2 ->]. exists (l2 ++ l1). apply app_assoc. Qed.
Lemma ext_app : forall evs tr, ext tr (evs ++ tr).
Proof. intros evs tr; exists evs; reflexivity. Qed.
Lemma ext_cons : forall ev tr, ext tr (ev :: tr).
Proof. intros ev tr; exists [ev]; reflexivity. Qed.
Lemma ext_in : forall tr tr' ev, ext tr tr' -> In ev tr -> In ev tr'.
Proof. intros tr tr' ev [l ->] H. apply in_or_app; right; exact H. Qed.

Section Ext.
Context {SS : Type} (sch : scheduler SS) (ms : max_steps).

Definition sw_world (r : switch_res (SS:=SS)) : world :=
  match r with SwContinue w _ | SwYield w _ | SwPanic w _ => w end.

(* the trace after thread::switch(): the events of its schedule call are added *)
Lemma do_switch_trace : forall w st,
  (panicking (w_e w) && negb (in_cleanup (w_e w)) = true /\ sw_world (do_switch sch ms w st) = w)
  \/ (panicking (w_e w) && negb (in_cleanup (w_e w)) = false /\
      forall err e1 st1 evs, schedule sch ms (w_e w) st = (err, e1, st1, evs) ->
        w_trace (sw_world (do_switch sch ms w st)) = evs ++ w_trace w).
Proof.
  intros w st. unfold do_switch. cbv zeta.
  destruct (panicking (w_e w) && negb (in_cleanup (w_e w))); [left; auto|right].
  split; [reflexivity|]. intros err e1 st1 evs Hs. rewrite Hs.
  destruct err as [[|]|]; try reflexivity.
  destruct (sched_eqb (current e1) (next e1)); reflexivity.
Qed.

Lemma do_switch_ext : forall w st, ext (w_trace w) (w_trace (sw_world (do_switch sch ms w st))).
Proof.
  intros w st. destruct (do_switch_trace w st) as [[_ E]|[_ E]].
  - rewrite E. apply ext_refl.
  - destruct (schedule sch ms (w_e w) st) as [[[err e1] st1] evs] eqn:Hs.
    rewrite (E _ _ _ _ eq_refl). apply ext_app.
Qed.

Lemma run_seg_ext : forall c w st w' st' r,
  run_seg sch ms c w st = (w', st', r) -> ext (w_trace w) (w_trace w').
Proof.
  induction c as [ | | f k IH | k IH | k IH | child _ k IH | tag vals k IH]; intros w st w' st' r H; cbn [run_seg] in H.
  - inversion H; subst; apply ext_refl.
  - inversion H; subst; apply ext_refl.
  - destruct (f (w_e w) (w_s w)) as [[[e1 s1] a]|].
    + apply IH in H. exact H.
    + inversion H; subst; apply ext_refl.
  - pose proof (do_switch_ext w st) as E.
    destruct (do_switch sch ms w st) as [w1 st1|w1 st1|w1 st1]; cbn [sw_world] in E.
    + apply IH in H. eapply ext_trans; eauto.
    + inversion H; subst; exact E.
    + inversion H; subst; exact E.
  - cbv zeta in H.
    assert (Hdraw : forall w0 st0,
              (let (v, st1) := s_next_u64 sch st0 in
               match v with
               | None => (mkWorld (with_recorded (w_e w0) (StRandom :: recorded (w_e w0))) (w_s w0) (w_conts w0) (w_trace w0), st1, SegPanic)
               | Some v => run_seg sch ms (k v) (mkWorld (with_recorded (w_e w0) (StRandom :: recorded (w_e w0))) (w_s w0) (w_conts w0)
                                                 (EvRandom v :: w_trace w0)) st1
               end) = (w', st', r) -> ext (w_trace w0) (w_trace w')).
    { intros w0 st0 H0. destruct (s_next_u64 sch st0) as [[v|] st1].
      - apply IH in H0. cbn [w_trace] in H0. eapply ext_trans; [apply ext_cons|exact H0].
      - inversion H0; subst; apply ext_refl. }
    destruct (bound_exhausted ms (w_e w)).
    + pose proof (do_switch_ext w st) as E.
      destruct (do_switch sch ms w st) as [w1 st1|w1 st1|w1 st1]; cbn [sw_world] in E.
      * apply Hdraw in H. eapply ext_trans; eauto.
      * inversion H; subst; exact E.
      * inversion H; subst; exact E.
    + apply Hdraw in H. exact H.
  - destruct (spawn_thread_now (w_e w)) as [[e1 tid]|].
    + apply IH in H. exact H.
    + inversion H; subst; apply ext_refl.
  - destruct (me (w_e w)) as [t|].
    + apply IH in H. cbn [w_trace] in H. eapply ext_trans; [apply ext_cons|exact H].
    + inversion H; subst; apply ext_refl.
Qed.

Lemma loop_step_ext : forall fuel,
  (forall w st w' st' out, run_loop sch ms fuel w st = (w', st', out) -> ext (w_trace w) (w_trace w')) ->
  forall w st w' st' out err e1 st1 evs,
  run_loop sch ms (S fuel) w st = (w', st', out) ->
  schedule sch ms (w_e w) st = (err, e1, st1, evs) ->
  ext (evs ++ w_trace w) (w_trace w').
Proof.
  intros fuel IH w st w' st' out err e1 st1 evs H Hs. cbn [run_loop] in H. rewrite Hs in H.
  destruct err as [[|]|]; try (inversion H; subst; apply ext_refl).
  cbv zeta in H. cbn [w_conts w_e w_s w_trace] in H.
  destruct (current (advance e1)) as [|t| |]; try (inversion H; subst; apply ext_refl).
  - destruct (nth_error (w_conts w) t) as [[c|]|]; try (inversion H; subst; apply ext_refl).
    destruct (run_seg sch ms c (mkWorld (advance e1) (w_s w) (w_conts w) (evs ++ w_trace w)) st1)
      as [[w2 st2] r] eqn:Hseg.
    apply run_seg_ext in Hseg. cbn [w_trace] in Hseg.
    destruct r as [k| |].
    + apply IH in H. cbn [w_trace] in H. eapply ext_trans; eauto.
    + destruct (finish_current (w_e w2)) as [e3|].
      * apply IH in H. cbn [w_trace] in H. eapply ext_trans; eauto.
      * inversion H; subst. exact Hseg.
    + inversion H; subst. exact Hseg.
  - destruct (existsb _ _); inversion H; subst; apply ext_refl.
Qed.

Lemma run_loop_ext : forall fuel w st w' st' out,
  run_loop sch ms fuel w st = (w', st', out) -> ext (w_trace w) (w_trace w').
Proof.
  induction fuel as [|fuel IH]; intros w st w' st' out H.
  - cbn in H. inversion H; subst; apply ext_refl.
  - destruct (schedule sch ms (w_e w) st) as [[[err e1] st1] evs] eqn:Hs.
    eapply ext_trans; [apply (ext_app evs)|]. eapply loop_step_ext; eauto.
Qed.

Lemma run_loop_S_ext : forall fuel w st w' st' out err e1 st1 evs,
  run_loop sch ms (S fuel) w st = (w', st', out) ->
  schedule sch ms (w_e w) st = (err, e1, st1, evs) ->
  ext (evs ++ w_trace w) (w_trace w').
Proof. intros fuel. apply loop_step_ext. apply run_loop_ext. Qed.

(* once `next` is Finished the loop ends without touching the step counter *)
Lemma measure_advance_nontask : forall e, (forall t, next e <> SSome t) -> measure (advance e) = measure e.
Proof. intros e H. unfold measure. rewrite advance_recorded_nontask by exact H. rewrite advance_reset. reflexivity. Qed.

Lemma loop_fin_measure : forall fuel w3 st w st' out,
  next (w_e w3) = SFinished -> run_loop sch ms fuel w3 st = (w, st', out) -> out <> OFuel ->
  measure (w_e w) = measure (w_e w3).
Proof.
  intros fuel w3 st w st' out Hn H Ho. destruct fuel as [|fuel].
  - cbn in H. inversion H; subst. congruence.
  - cbn [run_loop] in H. rewrite schedule_noop in H by (rewrite Hn; discriminate).
    cbv zeta in H. rewrite advance_current, Hn in H.
    assert (Hm : measure (advance (w_e w3)) = measure (w_e w3)).
    { apply measure_advance_nontask. intros t; rewrite Hn; discriminate. }
    destruct (existsb _ _); inversion H; subst; exact Hm.
Qed.

End Ext.

(* ------------------------------------------------------------------ *)
(* transporting a run from "no bound" to "bound n"                     *)
(* ------------------------------------------------------------------ *)
Lemma measure_le_recorded : forall e, measure e <= length (recorded e).
Proof. intros e; unfold measure; lia. Qed.

Section Unaffected.
Context {SS : Type} (sch : scheduler SS) (ms : max_steps) (n : nat) (Hbn : bound_of ms = Some n).

Lemma schedule_agree : forall e st, (next e = SNone -> measure e < n) ->
  schedule sch ms e st = schedule sch MSNone e st.
Proof.
  intros e st H. destruct (next e) eqn:Hn.
  - rewrite schedule_msnone by exact Hn. apply schedule_below; [exact Hn|].
    intros n' Hb. rewrite Hbn in Hb. inversion Hb; subst. apply H; reflexivity.
  - rewrite !schedule_noop by (rewrite Hn; discriminate). reflexivity.
  - rewrite !schedule_noop by (rewrite Hn; discriminate). reflexivity.
  - rewrite !schedule_noop by (rewrite Hn; discriminate). reflexivity.
Qed.

Lemma bound_exhausted_below : forall e, measure e < n -> bound_exhausted ms e = false.
Proof.
  intros e H. unfold bound_exhausted. destruct ms as [|m|m]; [reflexivity| |]; cbn in Hbn; inversion Hbn; subst;
    unfold is_step_bound_exceeded; apply Nat.leb_gt; exact H.
Qed.

(* thread::switch() behaves identically below the bound *)
Lemma do_switch_agree : forall w st, measure (w_e w) < n ->
  do_switch sch ms w st = do_switch sch MSNone w st.
Proof.
  intros w st Hm. unfold do_switch. cbv zeta. rewrite (schedule_agree _ _ (fun _ => Hm)). reflexivity.
Qed.

(* the step counter never exceeds the number of recorded steps, which only grows *)
Lemma below_of_rec : forall e e', rec_le e e' -> length (recorded e') < n -> measure e < n.
Proof. intros e e' Hle Hn. pose proof (measure_le_recorded e). unfold rec_le in Hle. lia. Qed.

Theorem seg_unaff : forall c, code_ok c -> forall w1 st1 w2 st2 r t,
  LInv sch MSNone w1 -> running (w_e w1) (w_trace w1) t ->
  run_seg sch MSNone c w1 st1 = (w2, st2, r) ->
  length (recorded (w_e w2)) < n ->
  run_seg sch ms c w1 st1 = (w2, st2, r).
Proof.
  induction 1 as [ | | f k Hf Hk IH | k Hk IH | k Hk IH | child k Hc Hk IHc IH | tag vals k Hk IH];
    intros w1 st1 w2 st2 r t L R H H3; pose proof H as H0; cbn [run_seg] in H |- *.
  - exact H.
  - exact H.
  - destruct (f (w_e w1) (w_s w1)) as [[[e1 s1] a]|] eqn:Ef; [|exact H].
    pose proof (Hf _ _ _ _ _ (wf_reset _ (li_wf _ _ _ _ _ L)) Ef) as F.
    destruct (rinv_atomic sch MSNone _ _ _ _ _ L R F) as [L1 R1].
    eapply (IH a _ _ _ _ _ t); [| |exact H|exact H3]; cbn [w_e w_conts w_trace]; eassumption.
  - (* Switch *)
    destruct (run_seg_inv sch MSNone (Switch k) (ok_switch _ Hk) _ _ _ _ _ t L R H0) as (_ & Hle & _).
    rewrite (do_switch_agree w1 st1 (below_of_rec _ _ Hle H3)).
    pose proof (do_switch_inv sch MSNone w1 st1 t L R) as DS.
    destruct (do_switch sch MSNone w1 st1) as [w' st'|w' st'|w' st']; [|exact H|exact H].
    destruct DS as (L1 & R1 & _). eapply IH; eauto.
  - (* Rand *)
    destruct (run_seg_inv sch MSNone (Rand k) (ok_rand _ Hk) _ _ _ _ _ t L R H0) as (_ & Hle & _).
    change (bound_exhausted MSNone (w_e w1)) with false in H. cbv iota zeta in H. cbv zeta.
    (* the draw itself is one more recorded step *)
    assert (Hm : measure (w_e w1) < n) by exact (below_of_rec _ _ Hle H3).
    rewrite (bound_exhausted_below _ Hm).
    destruct (rinv_record sch MSNone _ _ _ _ StRandom L R) as [L1 R1].
    destruct (s_next_u64 sch st1) as [[v|] st1']; [|exact H].
    destruct (rinv_evrandom sch MSNone _ _ _ _ v L1 R1) as [L2 R2].
    eapply (IH v _ _ _ _ _ t); [| |exact H|exact H3]; cbn [w_e w_conts w_trace]; eassumption.
  - (* SpawnNow *)
    destruct (spawn_thread_now (w_e w1)) as [[e1 tid]|] eqn:Esp; [|exact H].
    destruct (rinv_spawn sch MSNone _ _ _ _ _ _ _ L R Esp Hc) as [L1 R1].
    eapply (IH tid _ _ _ _ _ t); [| |exact H|exact H3]; cbn [w_e w_conts w_trace]; eassumption.
  - (* Log *)
    unfold me in H |- *. rewrite (proj1 R) in H |- *. cbn [sched_id] in H |- *.
    match type of H with run_seg _ _ _ (mkWorld _ _ _ (EvOp _ _ _ ?clk :: _)) _ = _ =>
      destruct (rinv_log sch MSNone _ _ _ _ tag vals clk L R) as [L1 R1] end.
    eapply (IH _ _ _ _ _ t); [| |exact H|exact H3]; cbn [w_e w_conts w_trace]; eassumption.
Qed.

Theorem loop_unaff : forall fuel w0 st w st' out,
  LInv sch MSNone w0 ->
  run_loop sch MSNone fuel w0 st = (w, st', out) ->
  length (recorded (w_e w)) < n ->
  run_loop sch ms fuel w0 st = (w, st', out).
Proof.
  induction fuel as [|fuel IH]; intros w0 st w st' out L H H3.
  - exact H.
  - destruct (run_loop_post sch MSNone _ _ _ _ _ _ L H) as [_ Hle0].
    pose proof (below_of_rec _ _ Hle0 H3) as Hm.
    destruct (schedule sch MSNone (w_e w0) st) as [[[err e1] st1] evs] eqn:Hs.
    pose proof (schedule_spec _ _ _ _ _ _ _ _ Hs) as Sp.
    cbn [run_loop] in H |- *. rewrite Hs in H.
    rewrite (schedule_agree _ _ (fun _ => Hm)), Hs.
    destruct (sched_linv sch MSNone _ _ _ _ _ _ _ _ L Sp) as (L1 & _ & Hcur & _ & Hnn & _).
    destruct err as [[|]|]; [exact H|exact H|].
    specialize (L1 ltac:(discriminate)). specialize (Hnn eq_refl). cbv zeta in H |- *.
    rewrite advance_current in H |- *. cbn [w_conts w_e w_s w_trace] in H |- *.
    destruct (next e1) as [|t| |] eqn:Hn1; [congruence| |exact H|exact H].
    destruct (advance_rinv sch MSNone _ _ _ _ L1 Hn1) as [L2 R2].
    destruct (nth_error (w_conts w0) t) as [[c|]|] eqn:Hc; [|exact H|exact H].
    pose proof (li_conts _ _ _ _ _ L2) as (_ & C2 & _). pose proof (C2 _ _ Hc) as Hok.
    destruct (run_seg sch MSNone c (mkWorld (advance e1) (w_s w0) (w_conts w0) (evs ++ w_trace w0)) st1)
      as [[w2 st2] r] eqn:Hseg.
    destruct (run_seg_inv sch MSNone c Hok (mkWorld (advance e1) (w_s w0) (w_conts w0) (evs ++ w_trace w0))
                _ _ _ _ t L2 R2 Hseg) as (Hc3 & _ & Hr).
    (* the rest of the run only extends the recorded schedule *)
    assert (Hrec2 : length (recorded (w_e w2)) <= length (recorded (w_e w))).
    { destruct r as [k| |].
      - destruct Hr as [L3 Hk].
        assert (L4 : LInv sch MSNone (mkWorld (w_e w2) (w_s w2) (set_cont (w_conts w2) t (Some k)) (w_trace w2))).
        { unfold LInv; cbn [w_e w_conts w_trace]. apply linv_set_cont; assumption. }
        destruct (run_loop_post sch MSNone _ _ _ _ _ _ L4 H) as [_ Hle]. exact Hle.
      - destruct Hr as [L3 R3]. destruct (rinv_finish sch MSNone _ _ _ _ L3 R3) as (e3 & Hfin & L4).
        pose proof (finish_recorded _ _ Hfin) as Hrf. rewrite Hfin in H.
        destruct (run_loop_post sch MSNone _ (mkWorld e3 (w_s w2) (set_cont (w_conts w2) t None) (w_trace w2)) _ _ _ _ L4 H) as [_ Hle].
        unfold rec_le in Hle; cbn [w_e] in Hle. rewrite Hrf in Hle. exact Hle.
      - inversion H; subst. lia. }
    assert (Hseg' : run_seg sch ms c (mkWorld (advance e1) (w_s w0) (w_conts w0) (evs ++ w_trace w0)) st1
                    = (w2, st2, r)).
    { apply (seg_unaff c Hok (mkWorld (advance e1) (w_s w0) (w_conts w0) (evs ++ w_trace w0)) _ _ _ _ t L2 R2 Hseg). lia. }
    rewrite Hseg'.
    destruct r as [k| |].
    + destruct Hr as [L3 Hk]. eapply IH; [|exact H|exact H3].
      unfold LInv; cbn [w_e w_conts w_trace]. apply linv_set_cont; assumption.
    + destruct Hr as [L3 R3]. destruct (rinv_finish sch MSNone _ _ _ _ L3 R3) as (e3 & Hfin & L4).
      rewrite Hfin in H |- *. eapply IH; [|exact H|exact H3]. exact L4.
    + exact H.
Qed.

End Unaffected.

(* stmt_bound_unaffected is FALSE as written (off by one):
     Definition stmt_bound_unaffected : Prop :=
       forall SS (sch : scheduler SS) ms n fuel main objs st w st' out, Run sch MSNone fuel main objs st w st' out ->
       out <> OFuel -> bound_of ms = Some n ->
       length (recorded (w_e w)) <= n ->
       run_exec sch ms fuel main objs st = (w, st', out).
   The bound is tested with `n <= counter` at every scheduling point, including the last one (the
   one that finds the execution finished, or whose answer is None), at which the counter may equal
   the total number of recorded steps.  main = Ret with n = 1: one step is recorded, the unbounded run
   passes, but the final call of `schedule` sees the counter at 1 and FailAfter 1 fails.
   (Counterexample: Props/C13.v, bound_unaffected_counterexample.)  With a strict inequality the
   statement holds; the hypothesis `out <> OFuel` is then not needed. *)
Definition stmt_bound_unaffected_fixed : Prop :=
  forall SS (sch : scheduler SS) ms n fuel main objs st w st' out, Run sch MSNone fuel main objs st w st' out ->
  bound_of ms = Some n ->
  length (recorded (w_e w)) < n ->
  run_exec sch ms fuel main objs st = (w, st', out).

Theorem bound_unaffected_fixed_proof : stmt_bound_unaffected_fixed.
Proof.
  intros SS sch ms n fuel main objs st w st' out [Hm H] Hb H3.
  unfold run_exec in *. eapply loop_unaff; eauto. apply init_LInv; exact Hm.
Qed.

(* the statement of Engine/Stmt.v (it carries an unused hypothesis out <> OFuel) *)
Theorem bound_unaffected_proof : stmt_bound_unaffected.
Proof.
  intros SS sch ms n fuel main objs st w st' out HR _ Hb Hlen.
  exact (bound_unaffected_fixed_proof SS sch ms n fuel main objs st w st' out HR Hb Hlen).
Qed.
