(* C20 — proofs about the lock machine of Lang/PlSpec.v and witnesses computed on the model of Lang/PlOps.v. *)
From Coq Require Import List NArith Bool Arith Lia.
From SV Require Import Lang.PlSpec.
Import ListNotations.
Open Scope N_scope.

Definition tot (s : asem) : N := a_avail s + sumn (a_ready s).

Lemma sumn_app : forall a b, sumn (a ++ b) = sumn a + sumn b.
Proof. induction a as [|[i n] r IH]; intros b; simpl; [reflexivity|rewrite IH; lia]. Qed.

Lemma a_grant_tot : forall fuel av q rd av' q' rd',
  a_grant fuel av q rd = (av', q', rd') -> av' + sumn rd' = av + sumn rd.
Proof.
  induction fuel as [|f IH]; intros av q rd av' q' rd' H; simpl in H.
  - inversion H; reflexivity.
  - destruct q as [|p r]; simpl in H.
    + inversion H; subst; reflexivity.
    + destruct p as [id n]. simpl in H. destruct (n <=? av) eqn:L.
      * apply IH in H. rewrite sumn_app in H. simpl in H. apply N.leb_le in L. lia.
      * inversion H; reflexivity.
Qed.

(* grants go to a prefix of the queue, in order: nobody is overtaken *)
Lemma a_grant_prefix : forall fuel av q rd av' q' rd',
  a_grant fuel av q rd = (av', q', rd') -> exists pre, q = pre ++ q' /\ rd' = rd ++ pre.
Proof.
  induction fuel as [|f IH]; intros av q rd av' q' rd' H; simpl in H.
  - inversion H; subst. exists nil. split; [reflexivity | symmetry; apply app_nil_r].
  - destruct q as [|p r]; simpl in H.
    + inversion H; subst. exists nil. split; [reflexivity | symmetry; apply app_nil_r].
    + destruct p as [id n]. simpl in H. destruct (n <=? av).
      * apply IH in H. destruct H as (pre & -> & ->). exists ((id, n) :: pre). rewrite <- app_assoc. auto.
      * inversion H; subst. exists nil. split; [reflexivity | symmetry; apply app_nil_r].
Qed.

Lemma a_release_tot : forall s k, tot (a_release s k) = tot s + k.
Proof.
  intros s k. unfold a_release, tot.
  destruct (a_grant (length (a_queue s)) (a_avail s + k) (a_queue s) (a_ready s)) as [[av q] rd] eqn:E.
  apply a_grant_tot in E. simpl. lia.
Qed.

Lemma a_try_tot : forall s k s' ok, a_try s k = (s', ok) -> tot s' + (if ok then k else 0) = tot s.
Proof.
  intros s k s' ok H. unfold a_try in H.
  destruct ((match a_queue s with [] => true | _ => false end) && (k <=? a_avail s) && (0 <? k)) eqn:C; inversion H; subst; unfold tot; simpl.
  - apply andb_prop in C. destruct C as [C _]. apply andb_prop in C. destruct C as [_ C]. apply N.leb_le in C. lia.
  - lia.
Qed.

(* strictly fair: try_acquire never overtakes a queued request *)
Lemma a_try_no_overtake : forall s k s' ok, a_try s k = (s', ok) -> a_queue s <> [] -> ok = false /\ s' = s.
Proof.
  intros s k s' ok H Q. unfold a_try in H. destruct (a_queue s); [congruence|]. simpl in H. inversion H; auto.
Qed.

Lemma a_request_tot : forall s id k s' ok, a_request s id k = (s', ok) -> tot s' + (if ok then k else 0) = tot s.
Proof.
  intros s id k s' ok H. unfold a_request in H. destruct (a_try s k) as [s1 ok1] eqn:E. destruct ok1.
  - inversion H; subst. apply (a_try_tot _ _ _ _ E).
  - inversion H; subst. unfold tot; simpl. lia.
Qed.

Lemma take_first_sum : forall id l n r, take_first id l = Some (n, r) -> sumn r + n = sumn l.
Proof.
  induction l as [|[i m] t IH]; intros n r H; simpl in H; [discriminate|].
  destruct (Nat.eqb i id).
  - inversion H; subst. simpl. lia.
  - destruct (take_first id t) as [[m' r']|] eqn:E; [|discriminate]. inversion H; subst. simpl.
    specialize (IH _ _ eq_refl). lia.
Qed.

Lemma a_poll_tot : forall s id s' r, a_poll s id = (s', r) -> tot s' + (match r with Some n => n | None => 0 end) = tot s.
Proof.
  intros s id s' r H. unfold a_poll in H. destruct (take_first id (a_ready s)) as [[n t]|] eqn:E; inversion H; subst; unfold tot; simpl.
  - apply take_first_sum in E. lia.
  - lia.
Qed.

Section M.
Variable MAX : N.
Hypothesis MAX_pos : 0 < MAX.

(* every permit of `sem` is available, granted to a queued request, in the hands of an operation, or owned by a guard
   (1 per shared or upgradable guard, MAX per exclusive guard); likewise the one permit of `upgradable_sem` *)
Definition lk_inv (st : lk) : Prop :=
  tot (k_s st) + k_hs st + k_sh st + k_up st + MAX * k_ex st = MAX /\
  tot (k_u st) + k_hu st + k_up st = 1.

Lemma lk_inv_init : lk_inv (lk_init MAX).
Proof. unfold lk_inv, lk_init, tot; simpl. lia. Qed.

Lemma on_side_inv : forall st upg f,
  (forall s s' got, f s = (s', got) -> tot s' + got = tot s) -> lk_inv st -> lk_inv (on_side st upg f).
Proof.
  intros st upg f Hf [I1 I2]. unfold on_side. destruct upg.
  - destruct (f (k_u st)) as [u' got] eqn:E. apply Hf in E. unfold lk_inv; simpl. split; lia.
  - destruct (f (k_s st)) as [s' got] eqn:E. apply Hf in E. unfold lk_inv; simpl. split; lia.
Qed.

Theorem lock_step_inv : forall st a st', lock_step MAX st a = Some st' -> lk_inv st -> lk_inv st'.
Proof.
  intros st a st' H I. destruct a; simpl in H.
  - inversion H; subst. apply on_side_inv; auto. intros s s' got E. destruct (a_try s k) as [s1 ok] eqn:T. inversion E; subst. apply (a_try_tot _ _ _ _ T).
  - inversion H; subst. apply on_side_inv; auto. intros s s' got E. destruct (a_request s id k) as [s1 ok] eqn:T. inversion E; subst. apply (a_request_tot _ _ _ _ _ T).
  - inversion H; subst. apply on_side_inv; auto. intros s s' got E. destruct (a_poll s id) as [s1 r] eqn:T. inversion E; subst. apply (a_poll_tot _ _ _ _ T).
  - destruct I as [I1 I2]. destruct upg.
    + destruct (k <=? k_hu st) eqn:L; [|discriminate]. apply N.leb_le in L. inversion H; subst. unfold lk_inv; simpl. rewrite a_release_tot. split; lia.
    + destruct (k <=? k_hs st) eqn:L; [|discriminate]. apply N.leb_le in L. inversion H; subst. unfold lk_inv; simpl. rewrite a_release_tot. split; lia.
  - destruct I as [I1 I2]. destruct ((need_s MAX m <=? k_hs st) && (need_u m <=? k_hu st)) eqn:C; [|discriminate].
    apply andb_prop in C. destruct C as [C1 C2]. apply N.leb_le in C1. apply N.leb_le in C2. inversion H; subst.
    destruct m; unfold lk_inv; simpl in *; split; lia.
  - destruct I as [I1 I2]. destruct (1 <=? count m st) eqn:C; [|discriminate]. apply N.leb_le in C. inversion H; subst.
    destruct m; unfold lk_inv; simpl in *.
    + split; lia.
    + assert (E : MAX * (k_ex st - 1) + MAX = MAX * k_ex st).
      { replace (k_ex st) with ((k_ex st - 1) + 1) at 2 by lia. lia. }
      split; lia.
    + split; lia.
Qed.

Theorem lock_run_inv : forall l st st', lock_run MAX st l = Some st' -> lk_inv st -> lk_inv st'.
Proof.
  induction l as [|a r IH]; intros st st' H I; simpl in H.
  - inversion H; subst; auto.
  - destruct (lock_step MAX st a) as [st1|] eqn:E; [|discriminate]. eapply IH; eauto. eapply lock_step_inv; eauto.
Qed.

(* ---- the exclusion matrix ---- *)
Theorem inv_exclusion : forall st, lk_inv st ->
  (1 <= k_ex st -> k_ex st = 1 /\ k_sh st = 0 /\ k_up st = 0 /\ k_hs st = 0 /\ tot (k_s st) = 0) /\
  k_up st <= 1 /\
  (1 <= k_up st -> k_hu st = 0 /\ tot (k_u st) = 0) /\
  k_sh st + k_up st + MAX * k_ex st <= MAX.
Proof.
  intros st [I1 I2]. split; [|split; [lia|split; [lia|lia]]].
  intros E. assert (MAX * k_ex st <= MAX) by lia.
  assert (k_ex st = 1). { destruct (N.eq_dec (k_ex st) 1); auto. assert (2 <= k_ex st) by lia. assert (MAX * 2 <= MAX * k_ex st) by (apply N.mul_le_mono_l; auto). lia. }
  rewrite H0 in *. lia.
Qed.

(* ---- refinement: a guard is handed out only where lock_api's state machine admits it ---- *)
Theorem commit_admitted : forall st m st', lk_inv st -> lock_step MAX st (LCommit m) = Some st' ->
  spec_admits m (k_sh st) (k_ex st) (k_up st).
Proof.
  intros st m st' I H. assert (I' := lock_step_inv _ _ _ H I). simpl in H.
  destruct ((need_s MAX m <=? k_hs st) && (need_u m <=? k_hu st)) eqn:C; [|discriminate]. inversion H; subst. clear H.
  destruct (inv_exclusion _ I') as (EX & UP & _ & _).
  destruct m; simpl in *.
  - destruct (N.eq_dec (k_ex st) 0); auto. assert (1 <= k_ex st) by lia. apply EX in H. lia.
  - assert (1 <= k_ex st + 1) by lia. apply EX in H. lia.
  - split; [|lia]. destruct (N.eq_dec (k_ex st) 0); auto. assert (1 <= k_ex st) by lia. apply EX in H. lia.
Qed.

(* ---- while a downgrade is in progress (the former writer keeps at least one permit in hand) no exclusive guard exists
        and none can be handed out ---- *)
Theorem no_writer_during_downgrade : forall st, lk_inv st -> 1 <= k_hs st ->
  k_ex st = 0 /\ (forall st', lock_step MAX st (LCommit MExcl) = Some st' -> k_hs st = MAX).
Proof.
  intros st I H. destruct (inv_exclusion _ I) as (EX & _). split.
  - destruct (N.eq_dec (k_ex st) 0); auto. assert (1 <= k_ex st) by lia. apply EX in H0. lia.
  - intros st' C. simpl in C. destruct ((MAX <=? k_hs st) && (0 <=? k_hu st)) eqn:B; [|discriminate].
    apply andb_prop in B. destruct B as [B _]. apply N.leb_le in B. destruct I as [I1 _]. lia.
Qed.

(* ---- failed try-variants leave nothing behind ---- *)
Theorem try_fail_unchanged : forall (st : lk) (upg : bool) (k : N),
  (if upg then snd (a_try (k_u st) k) else snd (a_try (k_s st) k)) = false ->
  lock_step MAX st (LTry upg k) = Some st.
Proof.
  intros st upg k H. simpl. unfold on_side. destruct upg.
  - destruct (a_try (k_u st) k) as [u' ok] eqn:E. simpl in H. subst. unfold a_try in E.
    destruct ((match a_queue (k_u st) with [] => true | _ => false end) && (k <=? a_avail (k_u st)) && (0 <? k)); inversion E; subst.
    destruct st; simpl. rewrite N.add_0_r. reflexivity.
  - destruct (a_try (k_s st) k) as [s' ok] eqn:E. simpl in H. subst. unfold a_try in E.
    destruct ((match a_queue (k_s st) with [] => true | _ => false end) && (k <=? a_avail (k_s st)) && (0 <? k)); inversion E; subst.
    destruct st; simpl. rewrite N.add_0_r. reflexivity.
Qed.

(* try_lock_upgradable whose second step fails: the slot goes back, nothing is left in hand, no guard exists *)
Theorem try_lock_upgradable_rollback : forall st st1 st2,
  k_u st = a_new 1 -> k_hu st = 0 ->
  lock_step MAX st (LTry true 1) = Some st1 ->
  snd (a_try (k_s st1) 1) = false ->
  lock_run MAX st1 [LTry false 1; LRel true 1] = Some st2 ->
  st2 = st.
Proof.
  intros st st1 st2 U Hh H1 F H2. destruct st as [s u hs hu sh ex up]. simpl in *. subst u hu.
  unfold on_side in H1. simpl in H1. inversion H1; subst; clear H1. simpl in *.
  unfold on_side in H2. simpl in H2.
  destruct (a_try s 1) as [s' ok] eqn:E. simpl in F. subst ok.
  assert (s' = s). { unfold a_try in E. destruct ((match a_queue s with [] => true | _ => false end) && (1 <=? a_avail s) && (0 <? 1)); inversion E; auto. }
  subst s'. simpl in H2. inversion H2; subst; clear H2. rewrite N.add_0_r. reflexivity.
Qed.
End M.
