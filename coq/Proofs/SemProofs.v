(* C18: the BatchSemaphore model (Prim/Semaphore.v).  Structural invariant, permit conservation,
   and the exact behaviour of every block of code of the semaphore, one lemma group per block. *)
From Coq Require Import List NArith Bool Arith Lia.
From SV Require Import Clock.VClock Prim.Objects Engine.Exec Prim.Semaphore Prim.SemInv Proofs.SemBase.
Import ListNotations.
Open Scope N_scope.

(* ------------------------------------------------------------------ *)
(* 1. the structural invariant                                         *)
(* ------------------------------------------------------------------ *)
Lemma wf_has_not_queued : forall s wid w,
  sem_wf s -> get_waiter s wid = Some w -> wt_has w = true -> wt_queued w = false.
Proof.
  intros s wid w Hwf Hg Hhas.
  destruct (wt_queued w) eqn:Hq; [|reflexivity].
  pose proof (wf_queued s Hwf wid w Hg Hq) as Hin.
  destruct (wf_queue s Hwf wid Hin) as (w' & Hg' & _ & Hh' & _).
  rewrite Hg in Hg'; inversion Hg'; subst. congruence.
Qed.

Lemma wf_queued_iff : forall s wid w,
  sem_wf s -> get_waiter s wid = Some w -> (wt_queued w = true <-> In wid (sm_queue s)).
Proof.
  intros s wid w Hwf Hg; split; intros H.
  - eapply wf_queued; eauto.
  - destruct (wf_queue s Hwf wid H) as (w' & Hg' & Hq & _). congruence.
Qed.

Lemma wf_closed_not_queued : forall s wid w,
  sem_wf s -> sm_closed s = true -> get_waiter s wid = Some w -> wt_queued w = false.
Proof.
  intros s wid w Hwf Hcl Hg. destruct (wt_queued w) eqn:Hq; [|reflexivity].
  pose proof (wf_queued s Hwf wid w Hg Hq) as Hin. rewrite (wf_closed s Hwf Hcl) in Hin. destruct Hin.
Qed.

Lemma wf_const_new : forall n fair, sem_wf (sem_const_new n fair).
Proof.
  intros n fair; constructor; unfold sem_const_new; ssimpl.
  - intros bs Hbs; ssimpl; discriminate.
  - constructor.
  - intros wid [].
  - intros wid w Hg; unfold get_waiter in Hg; ssimpl. destruct wid; discriminate.
  - reflexivity.
Qed.

Lemma wf_new : forall n fair c, sem_wf (sem_new n fair c).
Proof.
  intros n fair c; constructor; unfold sem_new; ssimpl.
  - intros bs Hbs; ssimpl. inversion Hbs; subst.
    destruct (N.eqb_spec n 0) as [Hz|Hnz]; cbn [sum_sizes]; lia.
  - constructor.
  - intros wid [].
  - intros wid w Hg; unfold get_waiter in Hg; ssimpl. destruct wid; discriminate.
  - reflexivity.
Qed.

Lemma fair_head_const_new : forall n fair, fair_head (sem_const_new n fair).
Proof. intros n fair _; exact I. Qed.
Lemma fair_head_new : forall n fair c, fair_head (sem_new n fair c).
Proof. intros n fair c _; exact I. Qed.

(* three ways of changing a well-formed semaphore *)
Lemma wf_reshape : forall s s', sem_wf s -> same_shape s s' -> batches_ok s' -> sem_wf s'.
Proof.
  intros s s' Hwf (Hq & Ht & Hc & _) Hb.
  constructor; auto.
  - rewrite Hq; apply (wf_nodup s Hwf).
  - intros wid Hin; rewrite Hq in Hin. rewrite (get_waiter_wtab s s' wid Ht). apply (wf_queue s Hwf wid Hin).
  - intros wid w Hg Hqd. rewrite (get_waiter_wtab s s' wid Ht) in Hg. rewrite Hq. eapply wf_queued; eauto.
  - intros Hcl; rewrite Hc in Hcl; rewrite Hq; apply (wf_closed s Hwf Hcl).
Qed.

Lemma wf_dequeue : forall s s' wid w g,
  sem_wf s -> get_waiter s wid = Some w -> wt_queued (g w) = false ->
  batches_ok s' -> NoDup (sm_queue s') ->
  (forall x, In x (sm_queue s') <-> In x (sm_queue s) /\ x <> wid) ->
  sm_wtab s' = list_upd (sm_wtab s) wid g ->
  (sm_closed s' = true -> sm_queue s' = []) ->
  sem_wf s'.
Proof.
  intros s s' wid w g Hwf Hg Hgq Hb Hnd Hin Ht Hcl.
  constructor; auto.
  - intros x Hx. apply Hin in Hx. destruct Hx as (Hx & Hne).
    destruct (wf_queue s Hwf x Hx) as (w0 & Hg0 & Hrest).
    exists w0. split; [|exact Hrest].
    unfold get_waiter in *. rewrite Ht, nth_error_list_upd_neq; auto.
  - intros x w' Hg' Hq'. unfold get_waiter in Hg'. rewrite Ht in Hg'.
    destruct (Nat.eq_dec wid x) as [<-|Hne].
    + rewrite nth_error_list_upd_eq in Hg'. unfold get_waiter in Hg. rewrite Hg in Hg'.
      cbn [option_map] in Hg'. inversion Hg'; subst. congruence.
    + rewrite nth_error_list_upd_neq in Hg' by assumption.
      apply Hin. split; [|auto]. eapply wf_queued; eauto.
Qed.

Lemma wf_keep : forall s s' wid w g,
  sem_wf s -> get_waiter s wid = Some w ->
  wt_queued (g w) = wt_queued w ->
  (wt_queued w = true -> wt_has (g w) = false /\ wt_waker (g w) <> None) ->
  batches_ok s' -> sm_queue s' = sm_queue s -> sm_wtab s' = list_upd (sm_wtab s) wid g ->
  sm_closed s' = sm_closed s ->
  sem_wf s'.
Proof.
  intros s s' wid w g Hwf Hg Hgq Hgk Hb Hq Ht Hc.
  constructor; auto.
  - rewrite Hq; apply (wf_nodup s Hwf).
  - intros x Hx. rewrite Hq in Hx.
    destruct (wf_queue s Hwf x Hx) as (w0 & Hg0 & Hq0 & Hrest).
    unfold get_waiter in *. rewrite Ht.
    destruct (Nat.eq_dec wid x) as [<-|Hne].
    + rewrite nth_error_list_upd_eq, Hg. cbn [option_map]. exists (g w).
      rewrite Hg in Hg0; inversion Hg0; subst w0.
      destruct (Hgk Hq0) as (Hh & Hw). repeat split; auto. congruence.
    + exists w0. rewrite nth_error_list_upd_neq by assumption. auto.
  - intros x w' Hg' Hq'. rewrite Hq. unfold get_waiter in Hg'. rewrite Ht in Hg'.
    destruct (Nat.eq_dec wid x) as [<-|Hne].
    + rewrite nth_error_list_upd_eq in Hg'. unfold get_waiter in Hg. rewrite Hg in Hg'.
      cbn [option_map] in Hg'. inversion Hg'; subst. eapply wf_queued; eauto; congruence.
    + rewrite nth_error_list_upd_neq in Hg' by assumption. eapply wf_queued; eauto.
  - intros Hcl. rewrite Hq. apply (wf_closed s Hwf). congruence.
Qed.

Lemma NoDup_snoc : forall (l : list nat) x, NoDup l -> ~ In x l -> NoDup (l ++ [x]).
Proof.
  intros l x; induction l as [|y r IH]; intros Hnd Hni; cbn [app].
  - constructor; [intros []|constructor].
  - inversion Hnd; subst. constructor.
    + intros Hin. apply in_app_or in Hin. destruct Hin as [Hin|[Heq|[]]]; [auto|].
      subst. apply Hni; left; reflexivity.
    + apply IH; auto. intros Hin; apply Hni; right; exact Hin.
Qed.

Lemma wf_enqueue : forall s s' wid w g,
  sem_wf s -> get_waiter s wid = Some w -> wt_queued w = false ->
  wt_queued (g w) = true -> wt_has (g w) = false -> wt_waker (g w) <> None ->
  batches_ok s' -> sm_queue s' = sm_queue s ++ [wid] -> sm_wtab s' = list_upd (sm_wtab s) wid g ->
  sm_closed s' = false ->
  sem_wf s'.
Proof.
  intros s s' wid w g Hwf Hg Hnq Hgq Hgh Hgw Hb Hq Ht Hc.
  assert (Hnotin : ~ In wid (sm_queue s)).
  { intros Hin. destruct (wf_queue s Hwf wid Hin) as (w0 & Hg0 & Hq0 & _). congruence. }
  constructor; auto.
  - rewrite Hq. apply NoDup_snoc; [apply (wf_nodup s Hwf)|exact Hnotin].
  - intros x Hx. rewrite Hq in Hx. apply in_app_or in Hx.
    unfold get_waiter in *. rewrite Ht.
    destruct Hx as [Hx|[Hx|[]]].
    + destruct (wf_queue s Hwf x Hx) as (w0 & Hg0 & Hrest).
      exists w0. rewrite nth_error_list_upd_neq; [auto|]. intros ->; auto.
    + subst x. rewrite nth_error_list_upd_eq, Hg. cbn [option_map]. exists (g w). auto.
  - intros x w' Hg' Hq'. rewrite Hq. apply in_or_app. unfold get_waiter in Hg'. rewrite Ht in Hg'.
    destruct (Nat.eq_dec wid x) as [<-|Hne].
    + right; left; reflexivity.
    + rewrite nth_error_list_upd_neq in Hg' by assumption. left. eapply wf_queued; eauto.
  - congruence.
Qed.

(* ------------------------------------------------------------------ *)
(* 2. acquire_permits                                                  *)
(* ------------------------------------------------------------------ *)
Lemma acquire_permits_spec : forall e s k e' s' r,
  acquire_permits e s k = Some (e', s', r) ->
  0 < k /\ eng_frame e e' /\ keeps_runnable e e' /\
  match r with
  | AOk => sm_closed s = false /\ (sm_queue s = [] \/ sm_fair s = false) /\ k <= sm_avail s
           /\ sm_avail s' + k = sm_avail s /\ same_shape s s' /\ (batches_ok s -> batches_ok s')
  | ANoPermits => e' = e /\ s' = s /\ sm_closed s = false
                  /\ (sm_avail s < k \/ (sm_queue s <> [] /\ sm_fair s = true))
  | AClosed => e' = e /\ s' = s /\ sm_closed s = true
  end.
Proof.
  intros e s k e' s' r H. unfold acquire_permits in H.
  destruct (N.eqb_spec k 0) as [Hz|Hnz]; [discriminate|].
  assert (Hpos : 0 < k) by lia.
  destruct (sm_closed s) eqn:Hcl.
  { inversion H; subst. repeat split; auto using eng_frame_refl, keeps_runnable_refl. }
  destruct ((match sm_queue s with [] => true | _ => false end) || negb (sm_fair s)) eqn:Hcond.
  - assert (Hc : sm_queue s = [] \/ sm_fair s = false).
    { destruct (sm_queue s); [left; reflexivity|]. right. destruct (sm_fair s); [discriminate|reflexivity]. }
    destruct (me e) as [m|]; [|discriminate]. destruct (e_clock e m) as [mc|]; [|discriminate].
    destruct (permits_acquire s k mc) as [s1 clk| |] eqn:Hpa; [| |discriminate].
    + destruct (e_update_clock e m clk) as [e1|] eqn:Hu; [|discriminate]. inversion H; subst.
      apply permits_acquire_ok in Hpa. destruct Hpa as (Hle & Hav & Hsh & Hb).
      split; [exact Hpos|]. split; [eapply e_update_clock_frame; eauto|].
      split; [eapply e_update_clock_keeps; eauto|]. repeat split; auto; apply Hsh.
    + inversion H; subst. apply permits_acquire_nop in Hpa.
      repeat split; auto using eng_frame_refl, keeps_runnable_refl.
  - injection H as <- <- <-.
    split; [exact Hpos|]. split; [apply eng_frame_refl|]. split; [apply keeps_runnable_refl|].
    repeat split; auto. right.
    destruct (sm_queue s); [discriminate|]. destruct (sm_fair s); [|discriminate]. split; congruence.
Qed.

Lemma acquire_permits_zero : forall e s, acquire_permits e s 0 = None.
Proof. reflexivity. Qed.

Lemma acquire_permits_wf : forall e s k e' s' r,
  acquire_permits e s k = Some (e', s', r) -> sem_wf s -> sem_wf s'.
Proof.
  intros e s k e' s' r H Hwf. apply acquire_permits_spec in H.
  destruct H as (_ & _ & _ & H). destruct r.
  - destruct H as (_ & _ & _ & _ & Hsh & Hb). eapply wf_reshape; eauto. apply Hb, (wf_batches s Hwf).
  - destruct H as (_ & -> & _); assumption.
  - destruct H as (_ & -> & _); assumption.
Qed.

(* AOk exactly when the request fits, nobody is queued ahead (or the semaphore is unfair) and the
   semaphore is open *)
Lemma acquire_permits_ok_iff : forall e s k e' s' r,
  acquire_permits e s k = Some (e', s', r) -> (r = AOk <-> can_acquire s k).
Proof.
  intros e s k e' s' r H. apply acquire_permits_spec in H. destruct H as (Hpos & _ & _ & H).
  unfold can_acquire. destruct r.
  - destruct H as (Hc & Hq & Hle & _). split; auto.
  - destruct H as (_ & _ & Hc & Hno). split; [discriminate|].
    intros (_ & _ & Hq & Hle). destruct Hno as [Hlt|(Hne & Hf)]; [lia|]. destruct Hq; congruence.
  - destruct H as (_ & _ & Hc). split; [discriminate|]. intros (_ & Hc' & _). congruence.
Qed.

(* the value of avail + granted changes by exactly k on AOk, and not at all otherwise *)
Lemma acquire_permits_conservation : forall e s k e' s' r,
  acquire_permits e s k = Some (e', s', r) ->
  sm_avail s' + granted s' + (match r with AOk => k | _ => 0 end) = sm_avail s + granted s.
Proof.
  intros e s k e' s' r H. apply acquire_permits_spec in H. destruct H as (_ & _ & _ & H). destruct r.
  - destruct H as (_ & _ & _ & Hav & (_ & Ht & _) & _). unfold granted. rewrite Ht. lia.
  - destruct H as (_ & -> & _). lia.
  - destruct H as (_ & -> & _). lia.
Qed.

(* ------------------------------------------------------------------ *)
(* 3. unblock_waiters_from_front                                       *)
(* ------------------------------------------------------------------ *)
Lemma ub_stale_frame : forall e e' w, eng_frame e e' -> ub_stale e' w = ub_stale e w.
Proof. intros e e' w (_ & Hic & _ & _ & Hf); unfold ub_stale; rewrite Hic, Hf; reflexivity. Qed.

(* one round of the loop *)
Lemma unblock_front_inv : forall f e s e' s',
  unblock_front (S f) e s = Some (e', s') ->
  (sm_queue s = [] /\ e' = e /\ s' = s) \/
  exists wid rest w, sm_queue s = wid :: rest /\ get_waiter s wid = Some w /\
    ( (ub_stale e w = true /\
       unblock_front f e (upd_waiter (set_queue s rest) wid stale_upd) = Some (e', s'))
    \/ (ub_stale e w = false /\ wt_n w <= sm_avail s /\
        exists s1 clk e1 e2 e3,
          permits_acquire (set_queue s rest) (wt_n w) (wt_clock w) = PaOk s1 clk /\
          wt_queued w = true /\ wt_has w = false /\ task_finished e (wt_task w) = Some false /\
          e_join_clock e (wt_task w) clk = Some e1 /\ e_unblock e1 (wt_task w) = Some e2 /\
          wake_opt e2 (wt_waker w) = Some e3 /\
          unblock_front f e3 (upd_waiter s1 wid grant_upd) = Some (e', s'))
    \/ (ub_stale e w = false /\ sm_avail s < wt_n w /\ e' = e /\ s' = s)).
Proof.
  intros f e s e' s' H. cbn [unblock_front] in H.
  destruct (sm_queue s) as [|wid rest] eqn:Hq.
  { left. inversion H; auto. }
  right. exists wid, rest.
  destruct (get_waiter s wid) as [w|] eqn:Hg; [|discriminate].
  exists w. split; [reflexivity|]. split; [reflexivity|].
  fold (ub_stale e w) in H.
  destruct (ub_stale e w) eqn:Hst.
  { left. split; [reflexivity|exact H]. }
  right.
  destruct (N.leb_spec (wt_n w) (sm_avail s)) as [Hle|Hgt].
  - left. split; [reflexivity|]. split; [exact Hle|].
    destruct (permits_acquire (set_queue s rest) (wt_n w) (wt_clock w)) as [s1 clk| |] eqn:Hpa; try discriminate.
    destruct (wt_queued w) eqn:Hqd; cbn [negb] in H; [|discriminate].
    destruct (wt_has w) eqn:Hh; [discriminate|].
    destruct (task_finished e (wt_task w)) as [[|]|] eqn:Hf; try discriminate.
    destruct (e_join_clock e (wt_task w) clk) as [e1|] eqn:Hj; [|discriminate].
    destruct (e_unblock e1 (wt_task w)) as [e2|] eqn:Hu; [|discriminate].
    destruct (wake_opt e2 (wt_waker w)) as [e3|] eqn:Hw; [|discriminate].
    exists s1, clk, e1, e2, e3. repeat split; auto.
  - right. inversion H; subst. auto.
Qed.

Ltac ub_induction fuel IH e s e' s' H :=
  induction fuel as [|fuel IH]; intros e s e' s' H;
  [ cbn [unblock_front] in H; inversion H; subst; clear H
  | apply unblock_front_inv in H;
    destruct H as [(Hq & -> & ->) | (wid & rest & w & Hq & Hw &
      [ (Hst & Hrec) | [ (Hst & Hfit & s1 & clk & e1 & e2 & e3 & Hpa & Hqd & Hhas & Hfin & Hj & Hu & Hwk & Hrec)
                       | (Hst & Hlt & -> & ->) ] ])] ].

(* what the loop never changes, and the conservation of avail + granted *)
Definition wtab_static (s s' : sem) : Prop :=
  length (sm_wtab s') = length (sm_wtab s) /\
  forall wid w', get_waiter s' wid = Some w' ->
    exists w, get_waiter s wid = Some w /\ wt_n w' = wt_n w /\ wt_task w' = wt_task w /\
              (wt_has w = true -> wt_has w' = true).

Lemma wtab_static_refl : forall s, wtab_static s s.
Proof. intros s; split; [reflexivity|]. intros wid w' Hg; exists w'; auto. Qed.

Lemma wtab_static_trans : forall s1 s2 s3, wtab_static s1 s2 -> wtab_static s2 s3 -> wtab_static s1 s3.
Proof.
  intros s1 s2 s3 (L12 & H12) (L23 & H23). split; [congruence|].
  intros wid w3 Hg3. destruct (H23 wid w3 Hg3) as (w2 & Hg2 & Hn2 & Ht2 & Hh2).
  destruct (H12 wid w2 Hg2) as (w1 & Hg1 & Hn1 & Ht1 & Hh1).
  exists w1. repeat split; auto; congruence.
Qed.

Lemma wtab_static_upd : forall s s' wid f,
  sm_wtab s' = list_upd (sm_wtab s) wid f ->
  (forall w, wt_n (f w) = wt_n w /\ wt_task (f w) = wt_task w /\ (wt_has w = true -> wt_has (f w) = true)) ->
  wtab_static s s'.
Proof.
  intros s s' wid f Ht Hf. split; [rewrite Ht; apply list_upd_length|].
  intros x w' Hg. unfold get_waiter in *. rewrite Ht in Hg.
  destruct (Nat.eq_dec wid x) as [<-|Hne].
  - rewrite nth_error_list_upd_eq in Hg. destruct (nth_error (sm_wtab s) wid) as [w|]; [|discriminate].
    cbn [option_map] in Hg. inversion Hg; subst. exists w. destruct (Hf w) as (A & B & C). auto.
  - rewrite nth_error_list_upd_neq in Hg by assumption. exists w'. auto.
Qed.

Lemma wtab_static_shape : forall s s', sm_wtab s' = sm_wtab s -> wtab_static s s'.
Proof.
  intros s s' Ht. split; [rewrite Ht; reflexivity|].
  intros wid w' Hg. rewrite (get_waiter_wtab s s' wid Ht) in Hg. exists w'; auto.
Qed.

Definition ub_frame (e : exec) (s : sem) (e' : exec) (s' : sem) : Prop :=
  sm_closed s' = sm_closed s /\ sm_fair s' = sm_fair s /\
  sm_avail s' + granted s' = sm_avail s + granted s /\
  eng_frame e e' /\ keeps_runnable e e' /\ wtab_static s s' /\
  (exists pre, sm_queue s = pre ++ sm_queue s') /\
  (forall x, ~ In x (sm_queue s) -> get_waiter s' x = get_waiter s x).

Lemma ub_frame_refl : forall e s, ub_frame e s e s.
Proof.
  intros e s. unfold ub_frame.
  split; [reflexivity|]. split; [reflexivity|]. split; [reflexivity|].
  split; [apply eng_frame_refl|]. split; [apply keeps_runnable_refl|]. split; [apply wtab_static_refl|].
  split; [exists []; reflexivity|]. auto.
Qed.

Lemma unblock_front_frame : forall fuel e s e' s',
  unblock_front fuel e s = Some (e', s') -> ub_frame e s e' s'.
Proof.
  intros fuel. ub_induction fuel IH e s e' s' H.
  - apply ub_frame_refl.
  - apply ub_frame_refl.
  - apply IH in Hrec. unfold ub_frame in *. ssimpl.
    destruct Hrec as (Hc & Hf & Hcons & Hfr & Hkr & Hws & (pre & Hpre) & Hout).
    split; [exact Hc|]. split; [exact Hf|].
    split. { rewrite Hcons. rewrite (granted_upd_same (set_queue s rest) wid stale_upd); [reflexivity|]. intros w0; reflexivity. }
    split; [exact Hfr|]. split; [exact Hkr|].
    split. { eapply wtab_static_trans; [|exact Hws]. eapply wtab_static_upd; [reflexivity|]. intros w0; auto. }
    split. { exists (wid :: pre). rewrite Hq. cbn [app]. f_equal. exact Hpre. }
    intros x Hx. rewrite Hq in Hx. rewrite Hout.
    + rewrite get_upd_neq; [reflexivity|]. intros ->; apply Hx; left; reflexivity.
    + intros Hin; apply Hx; right; exact Hin.
  - apply IH in Hrec. unfold ub_frame in *.
    pose proof (permits_acquire_ok _ _ _ _ _ Hpa) as (_ & Hav & (Hsq & Hst1 & Hsc & Hsf) & _). ssimpl.
    destruct Hrec as (Hc & Hf & Hcons & Hfr & Hkr & Hws & (pre & Hpre) & Hout).
    split; [congruence|]. split; [congruence|].
    split.
    { rewrite Hcons. assert (Hg1 : get_waiter s1 wid = Some w) by (rewrite (get_waiter_wtab s s1 wid Hst1); exact Hw).
      pose proof (granted_upd s1 wid grant_upd w Hg1) as Hgu.
      unfold held in Hgu at 1 2. unfold grant_upd in Hgu at 2. ssimpl. rewrite Hhas in Hgu.
      change (wt_n (grant_upd w)) with (wt_n w) in Hgu.
      assert (Hgs : granted s1 = granted s) by (unfold granted; rewrite Hst1; reflexivity). lia. }
    split.
    { eapply eng_frame_trans; [eapply e_join_clock_frame; eauto|].
      eapply eng_frame_trans; [eapply e_unblock_frame; eauto|].
      eapply eng_frame_trans; [eapply wake_opt_frame; eauto|exact Hfr]. }
    split.
    { eapply keeps_runnable_trans; [eapply e_join_clock_keeps; eauto|].
      eapply keeps_runnable_trans; [eapply e_unblock_keeps; eauto|].
      eapply keeps_runnable_trans; [eapply wake_opt_keeps; eauto|exact Hkr]. }
    split.
    { eapply wtab_static_trans; [|exact Hws]. eapply wtab_static_upd; [ssimpl; rewrite Hst1; reflexivity|].
      intros w0; auto. }
    split. { exists (wid :: pre). rewrite Hq. cbn [app]. f_equal. rewrite <- Hsq. exact Hpre. }
    intros x Hx. rewrite Hq in Hx. rewrite Hout.
    + rewrite get_upd_neq; [apply get_waiter_wtab; exact Hst1|]. intros ->; apply Hx; left; reflexivity.
    + rewrite Hsq. intros Hin; apply Hx; right; exact Hin.
  - apply ub_frame_refl.
Qed.

Lemma batches_ok_ext : forall s s',
  sm_avail s' = sm_avail s -> sm_batches s' = sm_batches s -> batches_ok s -> batches_ok s'.
Proof. intros s s' Ha Hb H bs Hbs. rewrite Ha. apply H. congruence. Qed.

Lemma NoDup_cons_in_iff : forall (a : nat) r, NoDup (a :: r) -> forall x, In x r <-> In x (a :: r) /\ x <> a.
Proof.
  intros a r Hnd x. inversion Hnd; subst. split.
  - intros Hin. split; [right; exact Hin|]. intros ->; contradiction.
  - intros ([Heq|Hin] & Hne); [congruence|exact Hin].
Qed.

(* popping the head of the queue, without or with a grant *)
Lemma wf_pop_head : forall s s' wid rest w g,
  sem_wf s -> sm_queue s = wid :: rest -> get_waiter s wid = Some w -> wt_queued (g w) = false ->
  batches_ok s' -> sm_queue s' = rest -> sm_wtab s' = list_upd (sm_wtab s) wid g -> sm_closed s' = sm_closed s ->
  sem_wf s'.
Proof.
  intros s s' wid rest w g Hwf Hq Hg Hgq Hb Hq' Ht Hc.
  pose proof (wf_nodup s Hwf) as Hnd. rewrite Hq in Hnd.
  eapply wf_dequeue with (s := s) (wid := wid) (w := w) (g := g); auto.
  - rewrite Hq'. inversion Hnd; assumption.
  - intros x. rewrite Hq', Hq. apply NoDup_cons_in_iff; exact Hnd.
  - intros Hcl. rewrite Hc in Hcl. rewrite (wf_closed s Hwf Hcl) in Hq. discriminate.
Qed.

Lemma unblock_front_wf : forall fuel e s e' s',
  unblock_front fuel e s = Some (e', s') -> sem_wf s -> sem_wf s'.
Proof.
  intros fuel. ub_induction fuel IH e s e' s' H; intros Hwf; auto.
  - eapply IH; [exact Hrec|].
    eapply wf_pop_head with (s := s) (g := stale_upd); eauto.
    eapply batches_ok_ext; [| |apply (wf_batches s Hwf)]; reflexivity.
  - eapply IH; [exact Hrec|].
    pose proof (permits_acquire_ok _ _ _ _ _ Hpa) as (_ & Hav & (Hsq & Hst1 & Hsc & Hsf) & Hb). ssimpl.
    eapply wf_pop_head with (s := s) (g := grant_upd); eauto.
    + eapply batches_ok_ext with (s := s1); [reflexivity|reflexivity|]. apply Hb.
      eapply batches_ok_ext; [| |apply (wf_batches s Hwf)]; reflexivity.
    + ssimpl. rewrite Hst1. reflexivity.
Qed.

(* when the loop is given enough fuel it only stops with an empty queue or a head that does not fit *)
Lemma unblock_front_head : forall fuel e s e' s',
  unblock_front fuel e s = Some (e', s') -> (length (sm_queue s) <= fuel)%nat -> head_blocked s'.
Proof.
  intros fuel. ub_induction fuel IH e s e' s' H; intros Hlen.
  - unfold head_blocked. destruct (sm_queue s'); [exact I|]. cbn [length] in Hlen. lia.
  - unfold head_blocked. rewrite Hq. exact I.
  - eapply IH; [exact Hrec|]. ssimpl. rewrite Hq in Hlen. cbn [length] in Hlen. lia.
  - eapply IH; [exact Hrec|].
    pose proof (permits_acquire_ok _ _ _ _ _ Hpa) as (_ & _ & (Hsq & _) & _). ssimpl.
    rewrite Hsq. rewrite Hq in Hlen. cbn [length] in Hlen. lia.
  - unfold head_blocked. rewrite Hq. exists w. auto.
Qed.

(* strictly fair grants go in queue order: the entries that left the queue are a prefix of it, each
   of them was either granted (and its task made Runnable) or was stale, and nothing else changed *)
Definition ub_prefix_ok (e : exec) (s : sem) (e' : exec) (s' : sem) (pre : list nat) : Prop :=
  forall wid, In wid pre -> exists w, get_waiter s wid = Some w /\
    ((ub_stale e w = true /\ get_waiter s' wid = Some (stale_upd w)) \/
     (ub_stale e w = false /\ wt_has w = false /\ wt_n w <= sm_avail s /\
      get_waiter s' wid = Some (grant_upd w) /\ runnable e' (wt_task w))).

Lemma unblock_front_prefix : forall fuel e s e' s',
  unblock_front fuel e s = Some (e', s') -> sem_wf s ->
  exists pre, sm_queue s = pre ++ sm_queue s' /\ ub_prefix_ok e s e' s' pre.
Proof.
  intros fuel. ub_induction fuel IH e s e' s' H; intros Hwf.
  - exists []. split; [reflexivity|]. intros wid [].
  - exists []. split; [reflexivity|]. intros wid [].
  - pose proof (wf_nodup s Hwf) as Hnd. rewrite Hq in Hnd. inversion Hnd as [|? ? Hni Hnd']; subst.
    assert (Hwf1 : sem_wf (upd_waiter (set_queue s rest) wid stale_upd)).
    { eapply wf_pop_head with (s := s) (g := stale_upd); eauto.
      eapply batches_ok_ext; [| |apply (wf_batches s Hwf)]; reflexivity. }
    pose proof (unblock_front_frame _ _ _ _ _ Hrec) as (_ & _ & _ & _ & _ & _ & _ & Hout).
    destruct (IH _ _ _ _ Hrec Hwf1) as (pre & Hpre & Hcl). ssimpl.
    exists (wid :: pre). split; [rewrite Hq, Hpre; reflexivity|].
    intros x [<-|Hx].
    + exists w. split; [exact Hw|]. left. split; [exact Hst|].
      rewrite Hout; [|exact Hni]. rewrite get_upd_eq. unfold get_waiter in *; ssimpl. rewrite Hw. reflexivity.
    + destruct (Hcl x Hx) as (wx & Hgx & Hcase).
      assert (Hne : wid <> x). { intros ->. apply Hni. rewrite Hpre. apply in_or_app; left; exact Hx. }
      rewrite get_upd_neq in Hgx by exact Hne.
      exists wx. split; [exact Hgx|]. exact Hcase.
  - pose proof (wf_nodup s Hwf) as Hnd. rewrite Hq in Hnd. inversion Hnd as [|? ? Hni Hnd']; subst.
    pose proof (permits_acquire_ok _ _ _ _ _ Hpa) as (_ & Hav & (Hsq & Hst1 & Hsc & Hsf) & Hb). ssimpl.
    assert (Hwf1 : sem_wf (upd_waiter s1 wid grant_upd)).
    { eapply wf_pop_head with (s := s) (g := grant_upd); eauto.
      + eapply batches_ok_ext with (s := s1); [reflexivity|reflexivity|]. apply Hb.
        eapply batches_ok_ext; [| |apply (wf_batches s Hwf)]; reflexivity.
      + ssimpl. rewrite Hst1. reflexivity. }
    pose proof (unblock_front_frame _ _ _ _ _ Hrec) as (_ & _ & _ & Hfr & Hkr & _ & _ & Hout).
    destruct (IH _ _ _ _ Hrec Hwf1) as (pre & Hpre & Hcl). ssimpl.
    assert (Hfr3 : eng_frame e e3).
    { eapply eng_frame_trans; [eapply e_join_clock_frame; eauto|].
      eapply eng_frame_trans; [eapply e_unblock_frame; eauto|eapply wake_opt_frame; eauto]. }
    exists (wid :: pre). split; [rewrite Hq, <- Hsq, Hpre; reflexivity|].
    intros x [<-|Hx].
    + exists w. split; [exact Hw|]. right. split; [exact Hst|]. split; [exact Hhas|]. split; [exact Hfit|]. split.
      * rewrite Hout; [|rewrite Hsq; exact Hni]. rewrite get_upd_eq.
        rewrite (get_waiter_wtab s s1 wid Hst1), Hw. reflexivity.
      * apply Hkr. eapply wake_opt_keeps; [exact Hwk|]. eapply e_unblock_runnable; exact Hu.
    + destruct (Hcl x Hx) as (wx & Hgx & Hcase).
      assert (Hne : wid <> x). { intros ->. apply Hni. rewrite <- Hsq, Hpre. apply in_or_app; left; exact Hx. }
      rewrite get_upd_neq in Hgx by exact Hne. rewrite (get_waiter_wtab s s1 x Hst1) in Hgx.
      exists wx. split; [exact Hgx|]. rewrite (ub_stale_frame e e3 wx Hfr3) in Hcase.
      destruct Hcase as [Hl|(A & B & C & D)]; [left; exact Hl|right].
      split; [exact A|]. split; [exact B|]. split; [ssimpl; lia|exact D].
  - exists []. split; [reflexivity|]. intros x [].
Qed.

(* a waiter's has_permits flips only if it was in the granted prefix: nobody overtakes *)
Lemma unblock_front_flips_in_prefix : forall fuel e s e' s' wid w w',
  unblock_front fuel e s = Some (e', s') -> sem_wf s ->
  get_waiter s wid = Some w -> get_waiter s' wid = Some w' -> wt_has w = false -> wt_has w' = true ->
  exists pre post, sm_queue s = pre ++ wid :: post /\ exists post', post = post' ++ sm_queue s'.
Proof.
  intros fuel e s e' s' wid w w' H Hwf Hg Hg' Hh Hh'.
  pose proof (unblock_front_wf _ _ _ _ _ H Hwf) as Hwf'.
  pose proof (unblock_front_frame _ _ _ _ _ H) as (_ & _ & _ & _ & _ & _ & (pre & Hpre) & Hout).
  assert (Hin : In wid pre).
  { destruct (in_dec Nat.eq_dec wid (sm_queue s)) as [Hin|Hni].
    - rewrite Hpre in Hin. apply in_app_or in Hin. destruct Hin as [Hin|Hin]; [exact Hin|].
      destruct (wf_queue s' Hwf' wid Hin) as (w0 & Hg0 & _ & Hh0 & _). congruence.
    - rewrite (Hout wid Hni) in Hg'. congruence. }
  apply in_split in Hin. destruct Hin as (l1 & l2 & ->).
  exists l1, (l2 ++ sm_queue s'). split.
  - rewrite Hpre. rewrite <- app_assoc. reflexivity.
  - exists l2. reflexivity.
Qed.

(* the entries that remain queued are not touched *)
Lemma unblock_front_still_queued : forall fuel e s e' s',
  unblock_front fuel e s = Some (e', s') -> sem_wf s ->
  forall wid, In wid (sm_queue s') -> get_waiter s' wid = get_waiter s wid.
Proof.
  intros fuel. ub_induction fuel IH e s e' s' H; intros Hwf x Hx; auto.
  - pose proof (wf_nodup s Hwf) as Hnd. rewrite Hq in Hnd. inversion Hnd as [|? ? Hni Hnd']; subst.
    assert (Hwf1 : sem_wf (upd_waiter (set_queue s rest) wid stale_upd)).
    { eapply wf_pop_head with (s := s) (g := stale_upd); eauto.
      eapply batches_ok_ext; [| |apply (wf_batches s Hwf)]; reflexivity. }
    pose proof (unblock_front_frame _ _ _ _ _ Hrec) as (_ & _ & _ & _ & _ & _ & (pre & Hpre) & _). ssimpl.
    rewrite (IH _ _ _ _ Hrec Hwf1 x Hx). rewrite get_upd_neq; [reflexivity|].
    intros ->. apply Hni. rewrite Hpre. apply in_or_app; right; exact Hx.
  - pose proof (wf_nodup s Hwf) as Hnd. rewrite Hq in Hnd. inversion Hnd as [|? ? Hni Hnd']; subst.
    pose proof (permits_acquire_ok _ _ _ _ _ Hpa) as (_ & Hav & (Hsq & Hst1 & Hsc & Hsf) & Hb). ssimpl.
    assert (Hwf1 : sem_wf (upd_waiter s1 wid grant_upd)).
    { eapply wf_pop_head with (s := s) (g := grant_upd); eauto.
      + eapply batches_ok_ext with (s := s1); [reflexivity|reflexivity|]. apply Hb.
        eapply batches_ok_ext; [| |apply (wf_batches s Hwf)]; reflexivity.
      + ssimpl. rewrite Hst1. reflexivity. }
    pose proof (unblock_front_frame _ _ _ _ _ Hrec) as (_ & _ & _ & _ & _ & _ & (pre & Hpre) & _). ssimpl.
    rewrite (IH _ _ _ _ Hrec Hwf1 x Hx). rewrite get_upd_neq; [apply get_waiter_wtab; exact Hst1|].
    intros ->. apply Hni. rewrite <- Hsq, Hpre. apply in_or_app; right; exact Hx.
Qed.

Lemma tasks_ok_mono : forall e s e' s',
  sem_tasks_ok e s -> eng_frame e e' -> wtab_static s s' ->
  (forall x, In x (sm_queue s') -> In x (sm_queue s)) -> sem_tasks_ok e' s'.
Proof.
  intros e s e' s' Hok (Hlen & _) (_ & Hst) Hsub wid w' Hin Hg.
  destruct (Hst wid w' Hg) as (w & Hgw & _ & Htk & _).
  rewrite Hlen, Htk. eapply Hok; eauto.
Qed.

Lemma unblock_front_tasks_ok : forall fuel e s e' s',
  unblock_front fuel e s = Some (e', s') -> sem_tasks_ok e s -> sem_tasks_ok e' s'.
Proof.
  intros fuel e s e' s' H Hok.
  pose proof (unblock_front_frame _ _ _ _ _ H) as (_ & _ & _ & Hfr & _ & Hws & (pre & Hpre) & _).
  eapply tasks_ok_mono; eauto. intros x Hx. rewrite Hpre. apply in_or_app; right; exact Hx.
Qed.

(* ------------------------------------------------------------------ *)
(* 4. reblock_if_unfair: the semaphore is not touched                  *)
(* ------------------------------------------------------------------ *)
Lemma reblock_fold_frame : forall s l e e',
  fold_left (reblock_step s) l (Some e) = Some e' -> eng_frame e e'.
Proof.
  intros s l; induction l as [|wid r IH]; intros e e' H; cbn [fold_left] in H.
  - inversion H; subst; apply eng_frame_refl.
  - unfold reblock_step at 2 in H.
    destruct (get_waiter s wid) as [w|]; [|rewrite fold_left_none in H by reflexivity; discriminate].
    match type of H with context [if ?c then _ else _] => destruct c end.
    + destruct (e_block e (wt_task w) false) as [e1|] eqn:Hb;
        [|rewrite fold_left_none in H by reflexivity; discriminate].
      eapply eng_frame_trans; [eapply e_block_frame; eauto|eapply IH; eauto].
    + eapply IH; eauto.
Qed.

Lemma reblock_if_unfair_frame : forall e s e', reblock_if_unfair e s = Some e' -> eng_frame e e'.
Proof.
  intros e s e' H; unfold reblock_if_unfair in H.
  destruct (sm_fair s); [inversion H; subst; apply eng_frame_refl|].
  eapply reblock_fold_frame; eauto.
Qed.

Lemma reblock_if_unfair_fair : forall e s, sm_fair s = true -> reblock_if_unfair e s = Some e.
Proof. intros e s Hf; unfold reblock_if_unfair; rewrite Hf; reflexivity. Qed.

(* ------------------------------------------------------------------ *)
(* 5. enqueue_waiter and remove_waiter                                 *)
(* ------------------------------------------------------------------ *)
Lemma enqueue_waiter_inv : forall s wid s',
  enqueue_waiter s wid = Some s' ->
  exists w, get_waiter s wid = Some w /\ wt_has w = false /\ wt_queued w = false /\
            s' = upd_waiter (set_queue s (sm_queue s ++ [wid])) wid (fun w => w_set_queued w true).
Proof.
  intros s wid s' H; unfold enqueue_waiter in H.
  destruct (get_waiter s wid) as [w|]; [|discriminate].
  destruct (wt_has w) eqn:Hh; [discriminate|]. destruct (wt_queued w) eqn:Hq; [discriminate|].
  inversion H; subst. exists w; auto.
Qed.

(* In Rust the waker is stored by poll just before it calls enqueue_waiter, and poll has checked
   that the semaphore is open: these are the two side conditions. *)
Lemma enqueue_waiter_wf : forall s wid s' w,
  enqueue_waiter s wid = Some s' -> sem_wf s ->
  get_waiter s wid = Some w -> wt_waker w <> None -> sm_closed s = false ->
  sem_wf s'.
Proof.
  intros s wid s' w H Hwf Hg Hwk Hcl.
  destruct (enqueue_waiter_inv s wid s' H) as (w0 & Hg0 & Hh & Hq & ->).
  rewrite Hg in Hg0; inversion Hg0; subst w0.
  eapply wf_enqueue with (s := s) (wid := wid) (w := w) (g := fun w => w_set_queued w true); eauto.
  eapply batches_ok_ext; [| |apply (wf_batches s Hwf)]; reflexivity.
Qed.

Lemma enqueue_waiter_frame : forall s wid s',
  enqueue_waiter s wid = Some s' ->
  sm_avail s' = sm_avail s /\ granted s' = granted s /\ sm_closed s' = sm_closed s /\ sm_fair s' = sm_fair s /\
  sm_queue s' = sm_queue s ++ [wid] /\ wtab_static s s' /\
  exists w, get_waiter s wid = Some w /\ get_waiter s' wid = Some (w_set_queued w true).
Proof.
  intros s wid s' H. destruct (enqueue_waiter_inv s wid s' H) as (w & Hg & Hh & Hq & ->). ssimpl.
  split; [reflexivity|]. split; [rewrite granted_upd_same; [reflexivity|intros w0; reflexivity]|].
  split; [reflexivity|]. split; [reflexivity|]. split; [reflexivity|].
  split; [eapply wtab_static_upd; [reflexivity|]; intros w0; auto|].
  exists w. split; [exact Hg|]. rewrite get_upd_eq. unfold get_waiter in *; ssimpl. rewrite Hg. reflexivity.
Qed.

Lemma position_nat_remove : forall x l idx,
  position_nat x l = Some idx -> NoDup l ->
  NoDup (remove_nth l idx) /\ (forall y, In y (remove_nth l idx) <-> In y l /\ y <> x).
Proof.
  intros x l; induction l as [|y r IH]; intros idx Hp Hnd; cbn [position_nat] in Hp; [discriminate|].
  inversion Hnd as [|? ? Hni Hnd']; subst.
  destruct (Nat.eqb_spec y x) as [->|Hne].
  - inversion Hp; subst. cbn [remove_nth]. split; [exact Hnd'|].
    intros z; split.
    + intros Hz. split; [right; exact Hz|]. intros ->; contradiction.
    + intros ([Heq|Hz] & Hnz); [congruence|exact Hz].
  - destruct (position_nat x r) as [j|] eqn:Hpr; [|discriminate]. cbn [option_map] in Hp. inversion Hp; subst.
    destruct (IH j eq_refl Hnd') as (Hnd1 & Hin1). cbn [remove_nth]. split.
    + constructor; [|exact Hnd1]. intros Hin. apply Hin1 in Hin. destruct Hin; contradiction.
    + intros z; split.
      * intros [<-|Hz]; [split; [left; reflexivity|auto]|].
        apply Hin1 in Hz. destruct Hz; split; [right|]; assumption.
      * intros ([<-|Hz] & Hnz); [left; reflexivity|right]. apply Hin1; auto.
Qed.

Lemma position_nat_zero : forall x l, position_nat x l = Some O -> exists r, l = x :: r.
Proof.
  intros x [|y r] Hp; cbn [position_nat] in Hp; [discriminate|].
  destruct (Nat.eqb_spec y x) as [->|Hne]; [exists r; reflexivity|].
  destruct (position_nat x r); discriminate.
Qed.

Lemma position_nat_succ : forall x l j,
  position_nat x l = Some (S j) -> exists h r, l = h :: r /\ h <> x /\ position_nat x r = Some j.
Proof.
  intros x [|y r] j Hp; cbn [position_nat] in Hp; [discriminate|].
  destruct (Nat.eqb_spec y x) as [->|Hne]; [discriminate|].
  destruct (position_nat x r) as [j'|] eqn:Hpr; [|discriminate]. cbn [option_map] in Hp. inversion Hp; subst.
  exists y, r; auto.
Qed.

Lemma position_nat_in : forall x l, In x l -> exists idx, position_nat x l = Some idx.
Proof.
  intros x l; induction l as [|y r IH]; intros Hin; [destruct Hin|]. cbn [position_nat].
  destruct (Nat.eqb_spec y x) as [->|Hne]; [exists O; reflexivity|].
  destruct Hin as [->|Hin]; [congruence|]. destruct (IH Hin) as (j & ->). exists (S j); reflexivity.
Qed.

Definition rm_state (s : sem) (wid idx : nat) : sem :=
  upd_waiter (set_queue s (remove_nth (sm_queue s) idx)) wid (fun w => w_set_queued w false).

Lemma remove_waiter_inv : forall e s wid e' s',
  remove_waiter e s wid = Some (e', s') ->
  exists w idx, get_waiter s wid = Some w /\ sm_closed s = false /\ wt_has w = false /\ wt_queued w = true /\
    position_nat wid (sm_queue s) = Some idx /\
    ((sm_fair s = true /\ idx = O /\
      unblock_front (length (sm_queue (rm_state s wid idx))) e (rm_state s wid idx) = Some (e', s'))
     \/ ((sm_fair s = false \/ idx <> O) /\ e' = e /\ s' = rm_state s wid idx)).
Proof.
  intros e s wid e' s' H; unfold remove_waiter in H.
  destruct (sm_closed s) eqn:Hcl; [discriminate|].
  destruct (get_waiter s wid) as [w|] eqn:Hg; [|discriminate].
  destruct (wt_has w) eqn:Hh; [discriminate|].
  destruct (position_nat wid (sm_queue s)) as [idx|] eqn:Hp; [|discriminate].
  destruct (wt_queued w) eqn:Hq; cbn [negb] in H; [|discriminate].
  exists w, idx. repeat split; auto.
  fold (rm_state s wid idx) in H.
  destruct (sm_fair s) eqn:Hf; cbn [andb] in H.
  - destruct (Nat.eqb_spec idx 0) as [->|Hne].
    + left. auto.
    + right. inversion H; subst. auto.
  - right. inversion H; subst. auto.
Qed.

Lemma rm_state_wf : forall s wid idx w,
  sem_wf s -> get_waiter s wid = Some w -> position_nat wid (sm_queue s) = Some idx ->
  sem_wf (rm_state s wid idx).
Proof.
  intros s wid idx w Hwf Hg Hp.
  destruct (position_nat_remove wid (sm_queue s) idx Hp (wf_nodup s Hwf)) as (Hnd & Hin).
  eapply wf_dequeue with (s := s) (wid := wid) (w := w) (g := fun w => w_set_queued w false); eauto.
  - eapply batches_ok_ext; [| |apply (wf_batches s Hwf)]; reflexivity.
  - unfold rm_state; ssimpl. intros Hcl. rewrite (wf_closed s Hwf Hcl) in Hp. discriminate.
Qed.

Lemma remove_waiter_wf : forall e s wid e' s',
  remove_waiter e s wid = Some (e', s') -> sem_wf s -> sem_wf s'.
Proof.
  intros e s wid e' s' H Hwf.
  destruct (remove_waiter_inv _ _ _ _ _ H) as (w & idx & Hg & Hcl & Hh & Hq & Hp & Hcase).
  pose proof (rm_state_wf s wid idx w Hwf Hg Hp) as Hwf1.
  destruct Hcase as [(_ & _ & Hub)|(_ & _ & ->)]; [|exact Hwf1].
  eapply unblock_front_wf; eauto.
Qed.

(* everything remove_waiter does besides the invariant *)
Lemma remove_waiter_frame : forall e s wid e' s',
  remove_waiter e s wid = Some (e', s') -> sem_wf s ->
  sm_closed s' = sm_closed s /\ sm_fair s' = sm_fair s /\
  sm_avail s' + granted s' = sm_avail s + granted s /\
  eng_frame e e' /\ keeps_runnable e e' /\ wtab_static s s' /\
  (forall x, In x (sm_queue s') -> In x (sm_queue s) /\ x <> wid) /\
  exists w, get_waiter s wid = Some w /\ wt_queued w = true /\ wt_has w = false /\
            get_waiter s' wid = Some (w_set_queued w false).
Proof.
  intros e s wid e' s' H Hwf.
  destruct (remove_waiter_inv _ _ _ _ _ H) as (w & idx & Hg & Hcl & Hh & Hq & Hp & Hcase).
  destruct (position_nat_remove wid (sm_queue s) idx Hp (wf_nodup s Hwf)) as (Hnd & Hin).
  assert (Hg1 : get_waiter (rm_state s wid idx) wid = Some (w_set_queued w false)).
  { unfold rm_state. rewrite get_upd_eq. unfold get_waiter in *; ssimpl. rewrite Hg. reflexivity. }
  assert (Hgr1 : granted (rm_state s wid idx) = granted s).
  { unfold rm_state. rewrite granted_upd_same; [reflexivity|]. intros w0; reflexivity. }
  assert (Hws1 : wtab_static s (rm_state s wid idx)).
  { eapply wtab_static_upd; [reflexivity|]. intros w0; auto. }
  destruct Hcase as [(_ & _ & Hub)|(_ & -> & ->)].
  - pose proof (unblock_front_frame _ _ _ _ _ Hub) as (Hc & Hf & Hcons & Hfr & Hkr & Hws & (pre & Hpre) & Hout).
    unfold rm_state in Hc, Hf, Hcons, Hpre. ssimpl. fold (rm_state s wid idx) in Hcons.
    split; [exact Hc|]. split; [exact Hf|]. split; [rewrite Hcons, Hgr1; reflexivity|].
    split; [exact Hfr|]. split; [exact Hkr|]. split; [eapply wtab_static_trans; eauto|].
    split.
    { intros x Hx. apply Hin. rewrite Hpre. apply in_or_app; right; exact Hx. }
    exists w. repeat split; auto. rewrite Hout; [exact Hg1|].
    unfold rm_state; ssimpl. intros Hx. apply Hin in Hx. destruct Hx as (_ & Hx); congruence.
  - unfold rm_state at 1 2 3. ssimpl. fold (rm_state s wid idx).
    split; [reflexivity|]. split; [reflexivity|]. split; [rewrite Hgr1; reflexivity|].
    split; [apply eng_frame_refl|]. split; [apply keeps_runnable_refl|]. split; [exact Hws1|].
    split. { intros x Hx. apply Hin. exact Hx. }
    exists w. auto.
Qed.

(* cancel safety in strictly fair mode: the head-never-fits invariant is re-established, so the
   waiters behind a cancelled head are served *)
Lemma remove_waiter_fair_head : forall e s wid e' s',
  remove_waiter e s wid = Some (e', s') -> sem_wf s -> fair_head s -> fair_head s'.
Proof.
  intros e s wid e' s' H Hwf Hfh.
  destruct (remove_waiter_inv _ _ _ _ _ H) as (w & idx & Hg & Hcl & Hh & Hq & Hp & Hcase).
  destruct Hcase as [(Hf & -> & Hub)|(Hc & -> & ->)].
  - intros _. eapply unblock_front_head; [exact Hub|]. apply Nat.le_refl.
  - unfold fair_head, rm_state; ssimpl. intros Hf. destruct Hc as [Hc|Hc]; [congruence|].
    destruct idx as [|j]; [congruence|].
    destruct (position_nat_succ _ _ _ Hp) as (h & r & Hqe & Hne & Hpr).
    specialize (Hfh Hf). unfold head_blocked in *. rewrite Hqe in *. cbn [remove_nth]. ssimpl.
    destruct Hfh as (wh & Hgh & Hlt). exists wh. split; [|exact Hlt].
    rewrite get_upd_neq; [exact Hgh|congruence].
Qed.

Lemma remove_waiter_tasks_ok : forall e s wid e' s',
  remove_waiter e s wid = Some (e', s') -> sem_wf s -> sem_tasks_ok e s -> sem_tasks_ok e' s'.
Proof.
  intros e s wid e' s' H Hwf Hok.
  destruct (remove_waiter_frame _ _ _ _ _ H Hwf) as (_ & _ & _ & Hfr & _ & Hws & Hsub & _).
  eapply tasks_ok_mono; eauto. intros x Hx; apply Hsub; exact Hx.
Qed.

(* in unfair mode remove_waiter never panics on a queued waiter of a well-formed semaphore *)
Lemma remove_waiter_unfair_total : forall e s wid w,
  sem_wf s -> sm_fair s = false -> get_waiter s wid = Some w -> wt_queued w = true ->
  exists idx, remove_waiter e s wid = Some (e, rm_state s wid idx).
Proof.
  intros e s wid w Hwf Hf Hg Hq.
  pose proof (wf_queued s Hwf wid w Hg Hq) as Hin.
  destruct (wf_queue s Hwf wid Hin) as (w0 & Hg0 & _ & Hh & _). rewrite Hg in Hg0; inversion Hg0; subst w0.
  destruct (position_nat_in wid _ Hin) as (idx & Hp).
  exists idx. unfold remove_waiter.
  destruct (sm_closed s) eqn:Hcl. { rewrite (wf_closed s Hwf Hcl) in Hin. destruct Hin. }
  rewrite Hg, Hh, Hp, Hq, Hf. cbn [negb andb]. reflexivity.
Qed.

(* ------------------------------------------------------------------ *)
(* 6. release                                                          *)
(* ------------------------------------------------------------------ *)
Definition unqueue_all (l : list nat) (s : sem) : sem :=
  fold_left (fun s wid => upd_waiter s wid (fun w => w_set_queued w false)) l s.

(* the state left by release() when the execution is stopping / the thread is panicking *)
Definition stop_state (s : sem) (k : N) : sem :=
  let s1 := permits_release s k [] in
  set_closed (set_queue (unqueue_all (sm_queue s1) s1) []) true.

Definition unfair_wake_step (s1 : sem) (acc : option exec) (wid : nat) : option exec :=
  match acc with
  | None => None
  | Some e =>
    match get_waiter s1 wid with
    | None => None
    | Some w =>
      if N.leb (wt_n w) (sm_avail s1) then
        match task_finished e (wt_task w) with
        | None => None
        | Some true => Some e
        | Some false =>
          match e_unblock e (wt_task w) with
          | Some e' => wake_opt e' (wt_waker w)
          | None => None end
        end
      else Some e
    end
  end.

Lemma sem_release_inv : forall e s k e' s',
  sem_release e s k = Some (e', s') ->
  (k = 0 /\ e' = e /\ s' = s) \/
  (k <> 0 /\ should_stop e = Some true /\ e' = e /\ s' = stop_state s k) \/
  (k <> 0 /\ should_stop e = Some false /\
   exists m e1 mc, me e = Some m /\ e_increment_clock e m = Some e1 /\ e_clock e1 m = Some mc /\
     ((sm_fair s = true /\
       unblock_front (length (sm_queue s)) e1 (permits_release s k mc) = Some (e', s'))
      \/ (sm_fair s = false /\ s' = permits_release s k mc /\
          fold_left (unfair_wake_step s') (sm_queue s) (Some e1) = Some e'))).
Proof.
  intros e s k e' s' H; unfold sem_release in H.
  destruct (N.eqb_spec k 0) as [Hz|Hnz].
  { left. inversion H; auto. }
  right. destruct (should_stop e) as [[|]|] eqn:Hss; [| |discriminate].
  { left. inversion H; subst. auto. }
  right. split; [exact Hnz|]. split; [reflexivity|].
  destruct (me e) as [m|]; [|discriminate].
  destruct (e_increment_clock e m) as [e1|] eqn:Hi; [|discriminate].
  destruct (e_clock e1 m) as [mc|] eqn:Hc; [|discriminate].
  exists m, e1, mc. repeat split; auto.
  change (sm_fair (permits_release s k mc)) with (sm_fair s) in H.
  change (sm_queue (permits_release s k mc)) with (sm_queue s) in H.
  destruct (sm_fair s).
  - left. auto.
  - right. split; [reflexivity|].
    match type of H with match ?X with _ => _ end = _ => destruct X as [e2|] eqn:Hfold; [|discriminate] end.
    inversion H; subst. split; [reflexivity|]. exact Hfold.
Qed.

Lemma unqueue_all_spec : forall l s,
  sm_avail (unqueue_all l s) = sm_avail s /\ sm_batches (unqueue_all l s) = sm_batches s /\
  sm_queue (unqueue_all l s) = sm_queue s /\ sm_closed (unqueue_all l s) = sm_closed s /\
  sm_fair (unqueue_all l s) = sm_fair s /\ granted (unqueue_all l s) = granted s /\
  wtab_static s (unqueue_all l s) /\
  (forall wid w', get_waiter (unqueue_all l s) wid = Some w' -> wt_queued w' = true ->
                  ~ In wid l /\ get_waiter s wid = Some w').
Proof.
  intros l; induction l as [|wid0 r IH]; intros s; unfold unqueue_all in *; cbn [fold_left].
  - split; [reflexivity|]. split; [reflexivity|]. split; [reflexivity|]. split; [reflexivity|].
    split; [reflexivity|]. split; [reflexivity|]. split; [apply wtab_static_refl|].
    intros wid w' Hg Hq. split; [intros []|exact Hg].
  - specialize (IH (upd_waiter s wid0 (fun w => w_set_queued w false))).
    destruct IH as (A & B & C & D & E & F & G & H). ssimpl.
    split; [exact A|]. split; [exact B|]. split; [exact C|]. split; [exact D|]. split; [exact E|].
    split; [rewrite F; apply granted_upd_same; intros w0; reflexivity|].
    split; [eapply wtab_static_trans; [|exact G]; eapply wtab_static_upd; [reflexivity|]; intros w0; auto|].
    intros wid w' Hg Hq. destruct (H wid w' Hg Hq) as (Hni & Hg1).
    destruct (Nat.eq_dec wid0 wid) as [<-|Hne].
    + rewrite get_upd_eq in Hg1. destruct (get_waiter s wid0) as [w0|]; [|discriminate].
      cbn [option_map] in Hg1. inversion Hg1; subst. ssimpl. discriminate.
    + rewrite get_upd_neq in Hg1 by exact Hne. split; [|exact Hg1].
      intros [Heq|Hin]; [congruence|contradiction].
Qed.

Lemma stop_state_spec : forall s k,
  sem_wf s ->
  sem_wf (stop_state s k) /\ sm_closed (stop_state s k) = true /\ sm_queue (stop_state s k) = [] /\
  sm_avail (stop_state s k) = sm_avail s + k /\ granted (stop_state s k) = granted s /\
  sm_fair (stop_state s k) = sm_fair s /\ wtab_static s (stop_state s k) /\
  (forall wid w, get_waiter (stop_state s k) wid = Some w -> wt_queued w = false).
Proof.
  intros s k Hwf. unfold stop_state.
  destruct (permits_release_spec s k []) as (Hav & (Hsq & Hst & Hsc & Hsf) & Hb).
  set (s1 := permits_release s k []) in *.
  destruct (unqueue_all_spec (sm_queue s1) s1) as (A & B & C & D & E & F & G & H).
  set (s2 := unqueue_all (sm_queue s1) s1) in *. ssimpl.
  assert (Hnq : forall wid w, get_waiter s2 wid = Some w -> wt_queued w = false).
  { intros wid w Hg. destruct (wt_queued w) eqn:Hq; [|reflexivity]. exfalso.
    destruct (H wid w Hg Hq) as (Hni & Hg1). apply Hni. rewrite Hsq.
    rewrite (get_waiter_wtab s s1 wid Hst) in Hg1. eapply wf_queued; eauto. }
  split.
  { constructor; ssimpl.
    - eapply batches_ok_ext with (s := s1); [exact A|exact B|]. apply Hb, (wf_batches s Hwf).
    - constructor.
    - intros wid [].
    - intros wid w Hg Hq. unfold get_waiter in Hg; ssimpl. rewrite (Hnq wid w Hg) in Hq. discriminate.
    - reflexivity. }
  split; [reflexivity|]. split; [reflexivity|]. split; [congruence|].
  split. { unfold granted in *; ssimpl. rewrite F, Hst. reflexivity. }
  split; [congruence|]. split.
  { eapply wtab_static_trans; [apply wtab_static_shape; exact Hst|].
    eapply wtab_static_trans; [exact G|]. apply wtab_static_shape; reflexivity. }
  intros wid w Hg. unfold get_waiter in Hg; ssimpl. eapply Hnq; exact Hg.
Qed.

Lemma unfair_fold_spec : forall s1 l e0 e',
  fold_left (unfair_wake_step s1) l (Some e0) = Some e' ->
  eng_frame e0 e' /\ keeps_runnable e0 e' /\
  forall wid w, In wid l -> get_waiter s1 wid = Some w -> wt_n w <= sm_avail s1 ->
                task_finished e0 (wt_task w) = Some false -> runnable e' (wt_task w).
Proof.
  intros s1 l; induction l as [|wid0 r IH]; intros e0 e' H; cbn [fold_left] in H.
  - inversion H; subst. split; [apply eng_frame_refl|]. split; [apply keeps_runnable_refl|]. intros wid w [].
  - destruct (unfair_wake_step s1 (Some e0) wid0) as [e1|] eqn:Hstep;
      [|rewrite fold_left_none in H by reflexivity; discriminate].
    destruct (IH e1 e' H) as (Hfr & Hkr & Hall).
    cbn [unfair_wake_step] in Hstep.
    destruct (get_waiter s1 wid0) as [w0|] eqn:Hg0; [|discriminate].
    assert (Hstep' : eng_frame e0 e1 /\ keeps_runnable e0 e1 /\
              (wt_n w0 <= sm_avail s1 -> task_finished e0 (wt_task w0) = Some false -> runnable e1 (wt_task w0))).
    { destruct (N.leb_spec (wt_n w0) (sm_avail s1)) as [Hle|Hgt].
      - destruct (task_finished e0 (wt_task w0)) as [[|]|] eqn:Hf; [| |discriminate].
        + inversion Hstep; subst. split; [apply eng_frame_refl|]. split; [apply keeps_runnable_refl|].
          intros _ Hd; discriminate.
        + destruct (e_unblock e0 (wt_task w0)) as [e2|] eqn:Hu; [|discriminate].
          split; [eapply eng_frame_trans; [eapply e_unblock_frame; eauto|eapply wake_opt_frame; eauto]|].
          split; [eapply keeps_runnable_trans; [eapply e_unblock_keeps; eauto|eapply wake_opt_keeps; eauto]|].
          intros _ _. eapply wake_opt_keeps; [exact Hstep|]. eapply e_unblock_runnable; exact Hu.
      - inversion Hstep; subst. split; [apply eng_frame_refl|]. split; [apply keeps_runnable_refl|].
        intros Hle; lia. }
    destruct Hstep' as (Hfr0 & Hkr0 & Hrun0).
    split; [eapply eng_frame_trans; eauto|]. split; [eapply keeps_runnable_trans; eauto|].
    intros wid w [<-|Hin] Hg Hle Hfin.
    + rewrite Hg0 in Hg; inversion Hg; subst w0. apply Hkr. apply Hrun0; assumption.
    + eapply Hall; eauto. destruct Hfr0 as (_ & _ & _ & _ & Hfin0). rewrite Hfin0. exact Hfin.
Qed.

Lemma sem_release_wf : forall e s k e' s',
  sem_release e s k = Some (e', s') -> sem_wf s -> sem_wf s'.
Proof.
  intros e s k e' s' H Hwf.
  destruct (sem_release_inv _ _ _ _ _ H) as [(_ & _ & ->)|[(_ & _ & _ & ->)|(_ & _ & m & e1 & mc & _ & _ & _ & Hcase)]].
  - exact Hwf.
  - apply stop_state_spec; exact Hwf.
  - destruct (permits_release_spec s k mc) as (_ & Hsh & Hb).
    assert (Hwf1 : sem_wf (permits_release s k mc)).
    { eapply wf_reshape; eauto. apply Hb, (wf_batches s Hwf). }
    destruct Hcase as [(_ & Hub)|(_ & -> & _)]; [|exact Hwf1].
    eapply unblock_front_wf; eauto.
Qed.

(* release(k) adds exactly k permits, on every path (including the should_stop one) *)
Lemma sem_release_conservation : forall e s k e' s',
  sem_release e s k = Some (e', s') -> sem_wf s ->
  sm_avail s' + granted s' = sm_avail s + granted s + k.
Proof.
  intros e s k e' s' H Hwf.
  destruct (sem_release_inv _ _ _ _ _ H) as [(-> & _ & ->)|[(_ & _ & _ & ->)|(_ & _ & m & e1 & mc & _ & _ & _ & Hcase)]].
  - lia.
  - destruct (stop_state_spec s k Hwf) as (_ & _ & _ & Hav & Hgr & _). lia.
  - destruct (permits_release_spec s k mc) as (Hav & (_ & Ht & _) & _).
    assert (Hgr : granted (permits_release s k mc) = granted s) by (unfold granted; rewrite Ht; reflexivity).
    destruct Hcase as [(_ & Hub)|(_ & -> & _)]; [|lia].
    pose proof (unblock_front_frame _ _ _ _ _ Hub) as (_ & _ & Hcons & _). lia.
Qed.

Lemma sem_release_frame : forall e s k e' s',
  sem_release e s k = Some (e', s') -> sem_wf s ->
  sm_fair s' = sm_fair s /\ eng_frame e e' /\ keeps_runnable e e' /\ wtab_static s s' /\
  (forall x, In x (sm_queue s') -> In x (sm_queue s)).
Proof.
  intros e s k e' s' H Hwf.
  destruct (sem_release_inv _ _ _ _ _ H) as [(_ & -> & ->)|[(_ & _ & -> & ->)|(_ & _ & m & e1 & mc & _ & Hi & _ & Hcase)]].
  - split; [reflexivity|]. split; [apply eng_frame_refl|]. split; [apply keeps_runnable_refl|].
    split; [apply wtab_static_refl|auto].
  - destruct (stop_state_spec s k Hwf) as (_ & _ & Hq & _ & _ & Hf & Hws & _).
    split; [exact Hf|]. split; [apply eng_frame_refl|]. split; [apply keeps_runnable_refl|].
    split; [exact Hws|]. rewrite Hq. intros x [].
  - destruct (permits_release_spec s k mc) as (_ & (Hsq & Ht & _ & Hsf) & _).
    pose proof (e_increment_clock_frame _ _ _ Hi) as Hfr1. pose proof (e_increment_clock_keeps _ _ _ Hi) as Hkr1.
    destruct Hcase as [(_ & Hub)|(_ & -> & Hfold)].
    + pose proof (unblock_front_frame _ _ _ _ _ Hub) as (_ & Hf & _ & Hfr & Hkr & Hws & (pre & Hpre) & _).
      split; [congruence|]. split; [eapply eng_frame_trans; eauto|]. split; [eapply keeps_runnable_trans; eauto|].
      split; [eapply wtab_static_trans; [apply wtab_static_shape; exact Ht|exact Hws]|].
      intros x Hx. rewrite <- Hsq, Hpre. apply in_or_app; right; exact Hx.
    + destruct (unfair_fold_spec _ _ _ _ Hfold) as (Hfr & Hkr & _).
      split; [exact Hsf|]. split; [eapply eng_frame_trans; eauto|]. split; [eapply keeps_runnable_trans; eauto|].
      split; [apply wtab_static_shape; exact Ht|]. intros x Hx. rewrite <- Hsq. exact Hx.
Qed.

Lemma sem_release_tasks_ok : forall e s k e' s',
  sem_release e s k = Some (e', s') -> sem_wf s -> sem_tasks_ok e s -> sem_tasks_ok e' s'.
Proof.
  intros e s k e' s' H Hwf Hok.
  destruct (sem_release_frame _ _ _ _ _ H Hwf) as (_ & Hfr & _ & Hws & Hsub).
  eapply tasks_ok_mono; eauto.
Qed.

(* head-eager: after a release the head of a strictly fair queue does not fit *)
Lemma sem_release_fair_head : forall e s k e' s',
  sem_release e s k = Some (e', s') -> sem_wf s -> fair_head s -> fair_head s'.
Proof.
  intros e s k e' s' H Hwf Hfh.
  destruct (sem_release_inv _ _ _ _ _ H) as [(_ & _ & ->)|[(_ & _ & _ & ->)|(_ & _ & m & e1 & mc & _ & _ & _ & Hcase)]].
  - exact Hfh.
  - intros _. unfold head_blocked. destruct (stop_state_spec s k Hwf) as (_ & _ & -> & _). exact I.
  - destruct Hcase as [(_ & Hub)|(Hf & -> & _)].
    + intros _. eapply unblock_front_head; [exact Hub|]. apply Nat.le_refl.
    + intros Hf'. change (sm_fair (permits_release s k mc)) with (sm_fair s) in Hf'. congruence.
Qed.

(* strictly fair release: grants go to a prefix of the queue, in order; the rest stays queued *)
Lemma sem_release_fair_prefix : forall e s k e' s',
  sem_release e s k = Some (e', s') -> sem_wf s -> sm_fair s = true -> k <> 0 -> should_stop e = Some false ->
  exists pre, sm_queue s = pre ++ sm_queue s' /\
    (forall wid, In wid pre -> exists w, get_waiter s wid = Some w /\
       ((ub_stale e w = true /\ get_waiter s' wid = Some (stale_upd w)) \/
        (ub_stale e w = false /\ wt_has w = false /\ wt_n w <= sm_avail s + k /\
         get_waiter s' wid = Some (grant_upd w) /\ runnable e' (wt_task w)))) /\
    (forall wid, ~ In wid pre -> get_waiter s' wid = get_waiter s wid) /\
    head_blocked s'.
Proof.
  intros e s k e' s' H Hwf Hf Hk Hss.
  destruct (sem_release_inv _ _ _ _ _ H) as [(-> & _)|[(_ & Hss' & _)|(_ & _ & m & e1 & mc & _ & Hi & _ & Hcase)]];
    [congruence|congruence|].
  destruct Hcase as [(_ & Hub)|(Hf' & _)]; [|congruence].
  destruct (permits_release_spec s k mc) as (Hav & (Hsq & Ht & _ & Hsf) & Hb).
  assert (Hwf1 : sem_wf (permits_release s k mc)).
  { eapply wf_reshape; eauto; [repeat split; auto|]. apply Hb, (wf_batches s Hwf). }
  pose proof (e_increment_clock_frame _ _ _ Hi) as Hfr1.
  destruct (unblock_front_prefix _ _ _ _ _ Hub Hwf1) as (pre & Hpre & Hcl).
  pose proof (unblock_front_frame _ _ _ _ _ Hub) as (_ & _ & _ & _ & _ & _ & _ & Hout).
  pose proof (unblock_front_wf _ _ _ _ _ Hub Hwf1) as Hwf'.
  exists pre. rewrite Hsq in Hpre. split; [exact Hpre|]. split; [|split].
  - intros wid Hin. destruct (Hcl wid Hin) as (w & Hg & Hcase).
    rewrite (get_waiter_wtab s _ wid Ht) in Hg. exists w. split; [exact Hg|].
    rewrite (ub_stale_frame e e1 w Hfr1) in Hcase. rewrite Hav in Hcase. exact Hcase.
  - intros wid Hni. destruct (in_dec Nat.eq_dec wid (sm_queue s)) as [Hin|Hnq].
    + (* still queued: untouched *)
      rewrite Hpre in Hin. apply in_app_or in Hin. destruct Hin as [Hin|Hin]; [contradiction|].
      rewrite (unblock_front_still_queued _ _ _ _ _ Hub Hwf1 wid Hin). apply get_waiter_wtab; exact Ht.
    + rewrite Hout; [apply get_waiter_wtab; exact Ht|]. rewrite Hsq; exact Hnq.
  - eapply unblock_front_head; [exact Hub|]. apply Nat.le_refl.
Qed.

(* unfair release: every queued waiter that fits, and whose task is alive, has been made Runnable:
   any waiter that fits may win.  The semaphore itself only gains the permits. *)
Lemma sem_release_unfair : forall e s k e' s',
  sem_release e s k = Some (e', s') -> sm_fair s = false -> k <> 0 -> should_stop e = Some false ->
  sm_queue s' = sm_queue s /\ sm_wtab s' = sm_wtab s /\ sm_avail s' = sm_avail s + k /\ sm_closed s' = sm_closed s /\
  forall wid w, In wid (sm_queue s) -> get_waiter s wid = Some w -> wt_n w <= sm_avail s + k ->
                task_finished e (wt_task w) = Some false -> runnable e' (wt_task w).
Proof.
  intros e s k e' s' H Hf Hk Hss.
  destruct (sem_release_inv _ _ _ _ _ H) as [(-> & _)|[(_ & Hss' & _)|(_ & _ & m & e1 & mc & _ & Hi & _ & Hcase)]];
    [congruence|congruence|].
  destruct Hcase as [(Hf' & _)|(_ & -> & Hfold)]; [congruence|].
  destruct (permits_release_spec s k mc) as (Hav & (Hsq & Ht & Hc & _) & _).
  split; [exact Hsq|]. split; [exact Ht|]. split; [exact Hav|]. split; [exact Hc|].
  destruct (unfair_fold_spec _ _ _ _ Hfold) as (_ & _ & Hall).
  intros wid w Hin Hg Hle Hfin. eapply Hall; [exact Hin| | |].
  - rewrite (get_waiter_wtab s _ wid Ht). exact Hg.
  - rewrite Hav. exact Hle.
  - pose proof (e_increment_clock_frame _ _ _ Hi) as (_ & _ & _ & _ & Hfin1). rewrite Hfin1. exact Hfin.
Qed.

(* ------------------------------------------------------------------ *)
(* 7. close                                                            *)
(* ------------------------------------------------------------------ *)
Definition close_step (acc : option (exec * sem)) (wid : nat) : option (exec * sem) :=
  match acc with
  | None => None
  | Some (e, s) =>
    match get_waiter s wid with
    | None => None
    | Some w =>
      if negb (wt_queued w) then None else if wt_has w then None else
      let s' := upd_waiter s wid (fun w => w_set_waker (w_set_queued w false) None) in
      match task_finished e (wt_task w) with
      | None => None
      | Some fin =>
        let e1 := if negb (in_cleanup e) && negb fin then e_unblock e (wt_task w) else Some e in
        match e1 with
        | None => None
        | Some e1 => match wake_opt e1 (wt_waker w) with Some e2 => Some (e2, s') | None => None end
        end
      end
    end
  end.

Lemma sem_close_inv : forall e s e' s',
  sem_close e s = Some (e', s') ->
  (sm_closed s = true /\ e' = e /\ s' = s) \/
  (sm_closed s = false /\ exists s2,
     fold_left close_step (sm_queue s) (Some (e, set_closed s true)) = Some (e', s2) /\ s' = set_queue s2 []).
Proof.
  intros e s e' s' H; unfold sem_close in H.
  destruct (sm_closed s) eqn:Hcl.
  { left. inversion H; auto. }
  right. split; [reflexivity|].
  change (sm_queue (set_closed s true)) with (sm_queue s) in H.
  match type of H with match ?X with _ => _ end = _ => destruct X as [[e2 s2]|] eqn:Hfold; [|discriminate] end.
  inversion H; subst. exists s2. split; [exact Hfold|reflexivity].
Qed.

Lemma close_step_inv : forall e s wid e1 s1,
  close_step (Some (e, s)) wid = Some (e1, s1) ->
  exists w, get_waiter s wid = Some w /\ wt_queued w = true /\ wt_has w = false /\
    s1 = upd_waiter s wid stale_upd /\ eng_frame e e1 /\ keeps_runnable e e1 /\
    (in_cleanup e = false -> task_finished e (wt_task w) = Some false -> runnable e1 (wt_task w)).
Proof.
  intros e s wid e1 s1 H; cbn [close_step] in H.
  destruct (get_waiter s wid) as [w|] eqn:Hg; [|discriminate].
  destruct (wt_queued w) eqn:Hq; cbn [negb] in H; [|discriminate].
  destruct (wt_has w) eqn:Hh; [discriminate|].
  destruct (task_finished e (wt_task w)) as [fin|] eqn:Hfin; [|discriminate].
  exists w. split; [reflexivity|]. split; [exact Hq|]. split; [exact Hh|].
  destruct (negb (in_cleanup e) && negb fin) eqn:Hc.
  - destruct (e_unblock e (wt_task w)) as [e2|] eqn:Hu; [|discriminate].
    destruct (wake_opt e2 (wt_waker w)) as [e3|] eqn:Hw; [|discriminate]. inversion H; subst.
    split; [reflexivity|].
    split; [eapply eng_frame_trans; [eapply e_unblock_frame; eauto|eapply wake_opt_frame; eauto]|].
    split; [eapply keeps_runnable_trans; [eapply e_unblock_keeps; eauto|eapply wake_opt_keeps; eauto]|].
    intros _ _. eapply wake_opt_keeps; [exact Hw|]. eapply e_unblock_runnable; exact Hu.
  - destruct (wake_opt e (wt_waker w)) as [e3|] eqn:Hw; [|discriminate]. inversion H; subst.
    split; [reflexivity|]. split; [eapply wake_opt_frame; eauto|]. split; [eapply wake_opt_keeps; eauto|].
    intros Hic Hf. rewrite Hfin in Hf. inversion Hf; subst. rewrite Hic in Hc. cbn in Hc. discriminate.
Qed.

Lemma close_fold_spec : forall l e s e' s',
  fold_left close_step l (Some (e, s)) = Some (e', s') ->
  sm_avail s' = sm_avail s /\ sm_batches s' = sm_batches s /\ sm_queue s' = sm_queue s /\
  sm_closed s' = sm_closed s /\ sm_fair s' = sm_fair s /\ granted s' = granted s /\
  wtab_static s s' /\ eng_frame e e' /\ keeps_runnable e e' /\
  (forall wid w', get_waiter s' wid = Some w' -> wt_queued w' = true -> ~ In wid l /\ get_waiter s wid = Some w') /\
  (forall wid w, In wid l -> get_waiter s wid = Some w -> in_cleanup e = false ->
                 task_finished e (wt_task w) = Some false -> runnable e' (wt_task w)).
Proof.
  intros l; induction l as [|wid0 r IH]; intros e s e' s' H; cbn [fold_left] in H.
  - inversion H; subst.
    split; [reflexivity|]. split; [reflexivity|]. split; [reflexivity|]. split; [reflexivity|].
    split; [reflexivity|]. split; [reflexivity|]. split; [apply wtab_static_refl|].
    split; [apply eng_frame_refl|]. split; [apply keeps_runnable_refl|].
    split; [intros wid w' Hg Hq; split; [intros []|exact Hg]|intros wid w []].
  - destruct (close_step (Some (e, s)) wid0) as [[e1 s1]|] eqn:Hstep;
      [|rewrite fold_left_none in H by reflexivity; discriminate].
    destruct (close_step_inv _ _ _ _ _ Hstep) as (w0 & Hg0 & Hq0 & Hh0 & -> & Hfr0 & Hkr0 & Hrun0).
    destruct (IH _ _ _ _ H) as (A & B & C & D & E & F & G & Hfr & Hkr & Hnq & Hrun). ssimpl.
    split; [exact A|]. split; [exact B|]. split; [exact C|]. split; [exact D|]. split; [exact E|].
    split; [rewrite F; apply granted_upd_same; intros w1; reflexivity|].
    split; [eapply wtab_static_trans; [|exact G]; eapply wtab_static_upd; [reflexivity|]; intros w1; auto|].
    split; [eapply eng_frame_trans; eauto|]. split; [eapply keeps_runnable_trans; eauto|].
    split.
    + intros wid w' Hg Hq. destruct (Hnq wid w' Hg Hq) as (Hni & Hg1).
      destruct (Nat.eq_dec wid0 wid) as [<-|Hne].
      * rewrite get_upd_eq, Hg0 in Hg1. cbn [option_map] in Hg1. inversion Hg1; subst. discriminate.
      * rewrite get_upd_neq in Hg1 by exact Hne. split; [|exact Hg1].
        intros [Heq|Hin]; [congruence|contradiction].
    + intros wid w Hin Hg Hic Hfin.
      destruct (Nat.eq_dec wid0 wid) as [<-|Hne].
      * rewrite Hg0 in Hg; inversion Hg; subst w0. apply Hkr. apply Hrun0; assumption.
      * destruct Hin as [Heq|Hin]; [congruence|].
        destruct Hfr0 as (_ & Hic0 & _ & _ & Hfin0).
        eapply Hrun; [exact Hin| | |].
        -- rewrite get_upd_neq by exact Hne; exact Hg.
        -- congruence.
        -- rewrite Hfin0; exact Hfin.
Qed.

(* close: the semaphore is closed, nobody is queued any more, no permit moves, and every pending
   waiter whose task is alive has been made Runnable (it will observe the error) *)
Lemma sem_close_spec : forall e s e' s',
  sem_close e s = Some (e', s') -> sem_wf s ->
  sem_wf s' /\ sm_closed s' = true /\ sm_queue s' = [] /\
  (forall wid w, get_waiter s' wid = Some w -> wt_queued w = false) /\
  sm_avail s' = sm_avail s /\ granted s' = granted s /\ sm_fair s' = sm_fair s /\
  wtab_static s s' /\ eng_frame e e' /\ keeps_runnable e e' /\
  (forall wid w, In wid (sm_queue s) -> get_waiter s wid = Some w -> in_cleanup e = false ->
                 task_finished e (wt_task w) = Some false -> runnable e' (wt_task w)).
Proof.
  intros e s e' s' H Hwf.
  destruct (sem_close_inv _ _ _ _ H) as [(Hcl & -> & ->)|(Hcl & s2 & Hfold & ->)].
  - split; [exact Hwf|]. split; [exact Hcl|]. split; [apply (wf_closed s Hwf Hcl)|].
    split; [intros wid w Hg; eapply wf_closed_not_queued; eauto|].
    split; [reflexivity|]. split; [reflexivity|]. split; [reflexivity|]. split; [apply wtab_static_refl|].
    split; [apply eng_frame_refl|]. split; [apply keeps_runnable_refl|].
    rewrite (wf_closed s Hwf Hcl). intros wid w [].
  - destruct (close_fold_spec _ _ _ _ _ Hfold) as (A & B & C & D & E & F & G & Hfr & Hkr & Hnq & Hrun). ssimpl.
    assert (Hnone : forall wid w, get_waiter s2 wid = Some w -> wt_queued w = false).
    { intros wid w Hg. destruct (wt_queued w) eqn:Hq; [|reflexivity]. exfalso.
      destruct (Hnq wid w Hg Hq) as (Hni & Hg1). apply Hni. eapply wf_queued; eauto. }
    split.
    { constructor; ssimpl.
      - eapply batches_ok_ext with (s := s); [exact A|exact B|apply (wf_batches s Hwf)].
      - constructor.
      - intros wid [].
      - intros wid w Hg Hq. unfold get_waiter in Hg; ssimpl. rewrite (Hnone wid w Hg) in Hq. discriminate.
      - reflexivity. }
    split; [exact D|]. split; [reflexivity|].
    split; [intros wid w Hg; unfold get_waiter in Hg; ssimpl; eapply Hnone; exact Hg|].
    split; [exact A|]. split; [exact F|]. split; [exact E|].
    split; [eapply wtab_static_trans; [exact G|apply wtab_static_shape; reflexivity]|].
    split; [exact Hfr|]. split; [exact Hkr|]. exact Hrun.
Qed.

(* once closed: acquire_permits answers Closed (for k > 0; k = 0 panics first) *)
Lemma acquire_permits_closed : forall e s k,
  sm_closed s = true -> 0 < k -> acquire_permits e s k = Some (e, s, AClosed).
Proof.
  intros e s k Hcl Hk; unfold acquire_permits.
  destruct (N.eqb_spec k 0) as [Hz|_]; [lia|]. rewrite Hcl. reflexivity.
Qed.

(* ------------------------------------------------------------------ *)
(* 8. try_acquire                                                      *)
(* ------------------------------------------------------------------ *)
Lemma sem_try_acquire_inv : forall e s k e' s' r,
  sem_try_acquire e s k = Some (e', s', r) ->
  exists e1, acquire_permits e s k = Some (e1, s', r) /\ eng_frame e1 e'.
Proof.
  intros e s k e' s' r H; unfold sem_try_acquire in H.
  destruct (acquire_permits e s k) as [[[e1 s1] r1]|] eqn:Hap; [|discriminate].
  destruct r1.
  - destruct (reblock_if_unfair e1 s1) as [e2|] eqn:Hrb; [|discriminate]. inversion H; subst.
    exists e1. split; [reflexivity|]. eapply reblock_if_unfair_frame; eauto.
  - destruct (me e1) as [m|]; [|discriminate].
    destruct (e_update_clock e1 m (sm_last_acquire s1)) as [e2|] eqn:Hu; [|discriminate]. inversion H; subst.
    exists e1. split; [reflexivity|]. eapply e_update_clock_frame; eauto.
  - destruct (me e1) as [m|]; [|discriminate].
    destruct (e_update_clock e1 m (sm_last_acquire s1)) as [e2|] eqn:Hu; [|discriminate]. inversion H; subst.
    exists e1. split; [reflexivity|]. eapply e_update_clock_frame; eauto.
Qed.

Lemma sem_try_acquire_wf : forall e s k e' s' r,
  sem_try_acquire e s k = Some (e', s', r) -> sem_wf s -> sem_wf s'.
Proof.
  intros e s k e' s' r H Hwf. destruct (sem_try_acquire_inv _ _ _ _ _ _ H) as (e1 & Hap & _).
  eapply acquire_permits_wf; eauto.
Qed.

Lemma sem_try_acquire_ok_iff : forall e s k e' s' r,
  sem_try_acquire e s k = Some (e', s', r) -> (r = AOk <-> can_acquire s k).
Proof.
  intros e s k e' s' r H. destruct (sem_try_acquire_inv _ _ _ _ _ _ H) as (e1 & Hap & _).
  eapply acquire_permits_ok_iff; eauto.
Qed.

Lemma sem_try_acquire_conservation : forall e s k e' s' r,
  sem_try_acquire e s k = Some (e', s', r) ->
  sm_avail s' + granted s' + (match r with AOk => k | _ => 0 end) = sm_avail s + granted s.
Proof.
  intros e s k e' s' r H. destruct (sem_try_acquire_inv _ _ _ _ _ _ H) as (e1 & Hap & _).
  eapply acquire_permits_conservation; eauto.
Qed.

Lemma sem_try_acquire_frame : forall e s k e' s' r,
  sem_try_acquire e s k = Some (e', s', r) -> same_shape s s' /\ eng_frame e e' /\ sm_avail s' <= sm_avail s.
Proof.
  intros e s k e' s' r H. destruct (sem_try_acquire_inv _ _ _ _ _ _ H) as (e1 & Hap & Hfr1).
  apply acquire_permits_spec in Hap. destruct Hap as (_ & Hfr & _ & Hr).
  assert (Hsh : same_shape s s' /\ sm_avail s' <= sm_avail s).
  { destruct r.
    - destruct Hr as (_ & _ & _ & Hav & Hsh & _). split; [exact Hsh|lia].
    - destruct Hr as (_ & -> & _). split; [apply same_shape_refl|lia].
    - destruct Hr as (_ & -> & _). split; [apply same_shape_refl|lia]. }
  destruct Hsh as (Hsh & Hle). split; [exact Hsh|]. split; [eapply eng_frame_trans; eauto|exact Hle].
Qed.

Lemma sem_try_acquire_closed : forall e s k e' s' r,
  sem_try_acquire e s k = Some (e', s', r) -> sm_closed s = true -> r = AClosed /\ s' = s.
Proof.
  intros e s k e' s' r H Hcl. destruct (sem_try_acquire_inv _ _ _ _ _ _ H) as (e1 & Hap & _).
  pose proof (acquire_permits_spec _ _ _ _ _ _ Hap) as (Hk & _).
  rewrite (acquire_permits_closed e s k Hcl Hk) in Hap. inversion Hap; auto.
Qed.

(* a head that does not fit keeps not fitting when permits are only removed *)
Lemma fair_head_mono : forall s s',
  fair_head s -> sm_fair s' = sm_fair s -> sm_queue s' = sm_queue s -> sm_avail s' <= sm_avail s ->
  (forall wid w, get_waiter s wid = Some w -> exists w', get_waiter s' wid = Some w' /\ wt_n w' = wt_n w) ->
  fair_head s'.
Proof.
  intros s s' Hfh Hf Hq Hav Hn Hf'. rewrite Hf in Hf'. specialize (Hfh Hf').
  unfold head_blocked in *. rewrite Hq. destruct (sm_queue s) as [|h r]; [exact I|].
  destruct Hfh as (w & Hg & Hlt). destruct (Hn h w Hg) as (w' & Hg' & Hn'). exists w'. split; [exact Hg'|lia].
Qed.

Lemma sem_try_acquire_fair_head : forall e s k e' s' r,
  sem_try_acquire e s k = Some (e', s', r) -> fair_head s -> fair_head s'.
Proof.
  intros e s k e' s' r H Hfh.
  destruct (sem_try_acquire_frame _ _ _ _ _ _ H) as ((Hq & Ht & _ & Hf) & _ & Hle).
  eapply fair_head_mono; eauto. intros wid w Hg. exists w. rewrite (get_waiter_wtab s s' wid Ht). auto.
Qed.

Lemma tasks_ok_shape : forall e s e' s',
  sem_tasks_ok e s -> eng_frame e e' -> same_shape s s' -> sem_tasks_ok e' s'.
Proof.
  intros e s e' s' Hok Hfr (Hq & Ht & _). eapply tasks_ok_mono; eauto.
  - apply wtab_static_shape; exact Ht.
  - intros x Hx; rewrite <- Hq; exact Hx.
Qed.

Lemma sem_try_acquire_tasks_ok : forall e s k e' s' r,
  sem_try_acquire e s k = Some (e', s', r) -> sem_tasks_ok e s -> sem_tasks_ok e' s'.
Proof.
  intros e s k e' s' r H Hok. destruct (sem_try_acquire_frame _ _ _ _ _ _ H) as (Hsh & Hfr & _).
  eapply tasks_ok_shape; eauto.
Qed.

(* ------------------------------------------------------------------ *)
(* 9. the Acquire future: new, poll, drop                              *)
(* ------------------------------------------------------------------ *)
Lemma sem_new_waiter_inv : forall e s k s' wid,
  sem_new_waiter e s k = Some (s', wid) ->
  exists m c, me e = Some m /\ e_clock e m = Some c /\ wid = length (sm_wtab s) /\
              s' = set_wtab s (sm_wtab s ++ [mkWaiter m k false false c None]).
Proof.
  intros e s k s' wid H; unfold sem_new_waiter in H.
  destruct (me e) as [m|]; [|discriminate]. destruct (e_clock e m) as [c|] eqn:Hc; [|discriminate].
  inversion H; subst. exists m, c. repeat split; auto.
Qed.

Lemma get_waiter_snoc : forall s nw x,
  get_waiter (set_wtab s (sm_wtab s ++ [nw])) x =
  if Nat.eqb x (length (sm_wtab s)) then Some nw else get_waiter s x.
Proof.
  intros s nw x; unfold get_waiter; ssimpl.
  destruct (Nat.eqb_spec x (length (sm_wtab s))) as [->|Hne].
  - rewrite nth_error_app2 by apply Nat.le_refl. rewrite Nat.sub_diag. reflexivity.
  - destruct (Nat.lt_ge_cases x (length (sm_wtab s))) as [Hlt|Hge].
    + apply nth_error_app1; exact Hlt.
    + assert (Hn : nth_error (sm_wtab s) x = None) by (apply nth_error_None; exact Hge).
      rewrite Hn. apply nth_error_None. rewrite app_length. cbn [length]. lia.
Qed.

Lemma get_waiter_some_lt : forall s x w, get_waiter s x = Some w -> (x < length (sm_wtab s))%nat.
Proof. intros s x w Hg; unfold get_waiter in Hg. apply nth_error_Some. congruence. Qed.

(* Acquire::new: a fresh, unqueued waiter without permits; nothing else changes *)
Lemma sem_new_waiter_spec : forall e s k s' wid,
  sem_new_waiter e s k = Some (s', wid) ->
  sm_avail s' = sm_avail s /\ sm_batches s' = sm_batches s /\ sm_queue s' = sm_queue s /\
  sm_closed s' = sm_closed s /\ sm_fair s' = sm_fair s /\ granted s' = granted s /\
  get_waiter s wid = None /\
  (exists m c, me e = Some m /\ e_clock e m = Some c /\ get_waiter s' wid = Some (mkWaiter m k false false c None)) /\
  (forall x, x <> wid -> get_waiter s' x = get_waiter s x).
Proof.
  intros e s k s' wid H. destruct (sem_new_waiter_inv _ _ _ _ _ H) as (m & c & Hme & Hc & -> & ->). ssimpl.
  split; [reflexivity|]. split; [reflexivity|]. split; [reflexivity|]. split; [reflexivity|]. split; [reflexivity|].
  split. { unfold granted; ssimpl. rewrite sum_held_app. cbn. lia. }
  split. { unfold get_waiter. apply nth_error_None. apply Nat.le_refl. }
  split. { exists m, c. split; [exact Hme|]. split; [exact Hc|]. rewrite get_waiter_snoc, Nat.eqb_refl. reflexivity. }
  intros x Hne. rewrite get_waiter_snoc. destruct (Nat.eqb_spec x (length (sm_wtab s))); [contradiction|reflexivity].
Qed.

Lemma sem_new_waiter_wf : forall e s k s' wid,
  sem_new_waiter e s k = Some (s', wid) -> sem_wf s -> sem_wf s'.
Proof.
  intros e s k s' wid H Hwf.
  destruct (sem_new_waiter_spec _ _ _ _ _ H) as (A & B & C & D & E & _ & Hnone & (m & c & _ & _ & Hnew) & Hother).
  constructor.
  - eapply batches_ok_ext; eauto. apply (wf_batches s Hwf).
  - rewrite C. apply (wf_nodup s Hwf).
  - intros x Hx. rewrite C in Hx. destruct (wf_queue s Hwf x Hx) as (w & Hg & Hrest).
    exists w. split; [|exact Hrest]. rewrite Hother; [exact Hg|]. intros ->. congruence.
  - intros x w Hg Hq. rewrite C. destruct (Nat.eq_dec x wid) as [->|Hne].
    + rewrite Hnew in Hg. inversion Hg; subst. discriminate.
    + rewrite (Hother x Hne) in Hg. eapply wf_queued; eauto.
  - intros Hcl. rewrite C. apply (wf_closed s Hwf). congruence.
Qed.

Lemma sem_new_waiter_fair_head : forall e s k s' wid,
  sem_new_waiter e s k = Some (s', wid) -> fair_head s -> fair_head s'.
Proof.
  intros e s k s' wid H Hfh.
  destruct (sem_new_waiter_spec _ _ _ _ _ H) as (A & B & C & D & E & _ & Hnone & _ & Hother).
  eapply fair_head_mono; eauto; [lia|].
  intros x w Hg. exists w. split; [|reflexivity]. rewrite Hother; [exact Hg|]. intros ->. congruence.
Qed.

Lemma sem_new_waiter_tasks_ok : forall e s k s' wid,
  sem_new_waiter e s k = Some (s', wid) -> sem_wf s -> sem_tasks_ok e s -> sem_tasks_ok e s'.
Proof.
  intros e s k s' wid H Hwf Hok x w Hin Hg.
  destruct (sem_new_waiter_spec _ _ _ _ _ H) as (_ & _ & C & _ & _ & _ & Hnone & _ & Hother).
  rewrite C in Hin. destruct (wf_queue s Hwf x Hin) as (w0 & Hg0 & _).
  rewrite Hother in Hg by (intros ->; congruence). eapply Hok; eauto.
Qed.

(* ---- poll ---- *)
Definition has_waker (w : waiter) : bool := match wt_waker w with Some _ => true | None => false end.

(* the five ways a poll can go *)
Inductive poll_case (e : exec) (s : sem) (wid wk : nat) (w : waiter) (m : nat)
                    (e' : exec) (s' : sem) : poll_res -> Prop :=
| PcHas :      (* permits were granted by a release *)
    wt_has w = true -> wt_queued w = false -> e' = e -> s' = s -> poll_case e s wid wk w m e' s' PReadyOk
| PcClosed :
    wt_has w = false -> sm_closed s = true -> wt_queued w = false -> e' = e -> s' = s ->
    poll_case e s wid wk w m e' s' PReadyErr
| PcFairQueued :   (* strictly fair and already queued: no attempt, re-point at the poller *)
    wt_has w = false -> sm_closed s = false -> wt_queued w = true -> has_waker w = true -> sm_fair s = true ->
    e' = e -> s' = upd_waiter s wid (repoint wk m) -> poll_case e s wid wk w m e' s' PPending
| PcAcquired : forall e1 s1 e2 s2,
    wt_has w = false -> sm_closed s = false -> has_waker w = wt_queued w ->
    (sm_fair s = false \/ wt_queued w = false) ->
    acquire_permits e s (wt_n w) = Some (e1, s1, AOk) ->
    (if wt_queued w then remove_waiter e1 s1 wid = Some (e2, s2) else (e2 = e1 /\ s2 = s1)) ->
    s' = upd_waiter s2 wid (fun w => w_set_has w true) ->
    reblock_if_unfair e2 s' = Some e' ->
    poll_case e s wid wk w m e' s' PReadyOk
| PcNoPermits :
    wt_has w = false -> sm_closed s = false -> has_waker w = wt_queued w ->
    (sm_fair s = false \/ wt_queued w = false) ->
    acquire_permits e s (wt_n w) = Some (e, s, ANoPermits) -> e' = e ->
    (if wt_queued w then s' = upd_waiter s wid (repoint wk m)
     else enqueue_waiter (upd_waiter s wid (repoint wk m)) wid = Some s') ->
    poll_case e s wid wk w m e' s' PPending.

Lemma sem_poll_inv : forall e s wid wk e' s' r,
  sem_poll e s wid wk = Some (e', s', r) ->
  exists w m, get_waiter s wid = Some w /\ me e = Some m /\ poll_case e s wid wk w m e' s' r.
Proof.
  intros e s wid wk e' s' r H; unfold sem_poll in H.
  destruct (get_waiter s wid) as [w|] eqn:Hg; [|discriminate].
  destruct (me e) as [m|] eqn:Hme; [|discriminate].
  exists w, m. split; [reflexivity|]. split; [reflexivity|].
  destruct (wt_has w) eqn:Hh.
  { destruct (wt_queued w) eqn:Hq; [discriminate|]. inversion H; subst. apply PcHas; auto. }
  destruct (sm_closed s) eqn:Hcl.
  { destruct (wt_queued w) eqn:Hq; [discriminate|]. inversion H; subst. apply PcClosed; auto. }
  fold (has_waker w) in H.
  destruct (Bool.eqb (wt_queued w) (has_waker w)) eqn:Heq; cbn [negb] in H; [|discriminate].
  apply Bool.eqb_prop in Heq.
  destruct (sm_fair s && wt_queued w) eqn:Hfq.
  { apply andb_true_iff in Hfq. destruct Hfq as (Hf & Hq). inversion H; subst.
    apply PcFairQueued; auto. congruence. }
  assert (Hor : sm_fair s = false \/ wt_queued w = false).
  { apply andb_false_iff in Hfq. exact Hfq. }
  destruct (acquire_permits e s (wt_n w)) as [[[e1 s1] [| |]]|] eqn:Hap; try discriminate.
  - destruct (if wt_queued w then remove_waiter e1 s1 wid else Some (e1, s1)) as [[e2 s2]|] eqn:Hrm; [|discriminate].
    destruct (reblock_if_unfair e2 (upd_waiter s2 wid (fun w => w_set_has w true))) as [e3|] eqn:Hrb; [|discriminate].
    inversion H; subst.
    eapply PcAcquired with (e1 := e1) (s1 := s1) (e2 := e2) (s2 := s2); auto.
    destruct (wt_queued w); [exact Hrm|]. inversion Hrm; auto.
  - pose proof (acquire_permits_spec _ _ _ _ _ _ Hap) as (_ & _ & _ & (-> & -> & _)).
    destruct (wt_queued w) eqn:Hq.
    + inversion H; subst. eapply PcNoPermits; try congruence; try (rewrite Hq); auto.
    + fold (repoint wk m) in H.
      destruct (enqueue_waiter (upd_waiter s wid (repoint wk m)) wid) as [s3|] eqn:Henq; [|discriminate].
      inversion H; subst. eapply PcNoPermits; try congruence; try (rewrite Hq); auto.
Qed.

Lemma remove_waiter_unfair : forall e s wid e' s',
  remove_waiter e s wid = Some (e', s') -> sm_fair s = false ->
  e' = e /\ sm_avail s' = sm_avail s /\ granted s' = granted s.
Proof.
  intros e s wid e' s' H Hf.
  destruct (remove_waiter_inv _ _ _ _ _ H) as (w & idx & Hg & Hcl & Hh & Hq & Hp & Hcase).
  destruct Hcase as [(Hf' & _)|(_ & -> & ->)]; [congruence|].
  split; [reflexivity|]. split; [reflexivity|].
  unfold rm_state. rewrite granted_upd_same; [reflexivity|]. intros w0; reflexivity.
Qed.

(* the state in which poll sets has_permits, after a successful acquire_permits *)
Lemma poll_acquired_facts : forall e s wid w e1 s1 e2 s2,
  sem_wf s -> get_waiter s wid = Some w -> wt_has w = false ->
  (sm_fair s = false \/ wt_queued w = false) ->
  acquire_permits e s (wt_n w) = Some (e1, s1, AOk) ->
  (if wt_queued w then remove_waiter e1 s1 wid = Some (e2, s2) else (e2 = e1 /\ s2 = s1)) ->
  sem_wf s2 /\ sm_avail s2 + wt_n w = sm_avail s /\ granted s2 = granted s /\
  sm_closed s2 = sm_closed s /\ sm_fair s2 = sm_fair s /\ wtab_static s s2 /\ eng_frame e e2 /\
  (forall x, In x (sm_queue s2) -> In x (sm_queue s) /\ x <> wid) /\
  exists w2, get_waiter s2 wid = Some w2 /\ wt_queued w2 = false /\ wt_has w2 = false /\
             wt_n w2 = wt_n w /\ wt_task w2 = wt_task w.
Proof.
  intros e s wid w e1 s1 e2 s2 Hwf Hg Hh Hor Hap Hrm.
  pose proof (acquire_permits_wf _ _ _ _ _ _ Hap Hwf) as Hwf1.
  pose proof (acquire_permits_spec _ _ _ _ _ _ Hap) as (_ & Hfr1 & _ & (_ & _ & _ & Hav & (Hsq & Ht & Hsc & Hsf) & _)).
  assert (Hg1 : get_waiter s1 wid = Some w) by (rewrite (get_waiter_wtab s s1 wid Ht); exact Hg).
  assert (Hgr1 : granted s1 = granted s) by (unfold granted; rewrite Ht; reflexivity).
  destruct (wt_queued w) eqn:Hq.
  - destruct Hor as [Hf|Hd]; [|discriminate].
    pose proof (remove_waiter_wf _ _ _ _ _ Hrm Hwf1) as Hwf2.
    destruct (remove_waiter_unfair _ _ _ _ _ Hrm) as (-> & Hav2 & Hgr2); [congruence|].
    destruct (remove_waiter_frame _ _ _ _ _ Hrm Hwf1) as (Hc & Hf2 & _ & _ & _ & Hws & Hsub & (w1 & Hgw1 & _ & _ & Hg2)).
    rewrite Hg1 in Hgw1; inversion Hgw1; subst w1.
    split; [exact Hwf2|]. split; [lia|]. split; [congruence|]. split; [congruence|]. split; [congruence|].
    split; [eapply wtab_static_trans; [apply wtab_static_shape; exact Ht|exact Hws]|].
    split; [exact Hfr1|].
    split. { intros x Hx. rewrite <- Hsq. apply Hsub; exact Hx. }
    exists (w_set_queued w false). split; [exact Hg2|]. ssimpl. auto.
  - destruct Hrm as (-> & ->).
    split; [exact Hwf1|]. split; [exact Hav|]. split; [exact Hgr1|]. split; [exact Hsc|]. split; [exact Hsf|].
    split; [apply wtab_static_shape; exact Ht|]. split; [exact Hfr1|].
    split.
    { intros x Hx. rewrite Hsq in Hx. split; [exact Hx|]. intros ->.
      destruct (wf_queue s Hwf wid Hx) as (w0 & Hg0 & Hq0 & _). congruence. }
    exists w. auto.
Qed.

Lemma sem_poll_wf : forall e s wid wk e' s' r,
  sem_poll e s wid wk = Some (e', s', r) -> sem_wf s -> sem_wf s'.
Proof.
  intros e s wid wk e' s' r H Hwf.
  destruct (sem_poll_inv _ _ _ _ _ _ _ H) as (w & m & Hg & Hme & Hcase).
  destruct Hcase as [Hh Hq He Hs|Hh Hcl Hq He Hs|Hh Hcl Hq Hwk Hf He Hs
                    |e1 s1 e2 s2 Hh Hcl Hwk Hor Hap Hrm Hs Hrb|Hh Hcl Hwk Hor Hap He Henq];
    try (subst e'); try (subst s'); auto.
  - eapply wf_keep with (s := s) (wid := wid) (w := w) (g := repoint wk m); eauto.
    + intros _. split; [exact Hh|discriminate].
    + eapply batches_ok_ext; [| |apply (wf_batches s Hwf)]; reflexivity.
  - destruct (poll_acquired_facts _ _ _ _ _ _ _ _ Hwf Hg Hh Hor Hap Hrm)
      as (Hwf2 & _ & _ & _ & _ & _ & _ & _ & (w2 & Hg2 & Hq2 & _)).
    eapply wf_keep with (s := s2) (wid := wid) (w := w2) (g := fun w => w_set_has w true); eauto.
    + intros Hd; congruence.
    + eapply batches_ok_ext; [| |apply (wf_batches s2 Hwf2)]; reflexivity.
  - assert (Hwf1 : sem_wf (upd_waiter s wid (repoint wk m))).
    { eapply wf_keep with (s := s) (wid := wid) (w := w) (g := repoint wk m); eauto.
      + intros _. split; [exact Hh|discriminate].
      + eapply batches_ok_ext; [| |apply (wf_batches s Hwf)]; reflexivity. }
    destruct (wt_queued w) eqn:Hq; [subst s'; exact Hwf1|].
    eapply enqueue_waiter_wf with (w := repoint wk m w); eauto.
    + rewrite get_upd_eq, Hg. reflexivity.
    + discriminate.
Qed.

(* a poll never creates nor destroys permits *)
Lemma sem_poll_conservation : forall e s wid wk e' s' r,
  sem_poll e s wid wk = Some (e', s', r) -> sem_wf s ->
  sm_avail s' + granted s' = sm_avail s + granted s.
Proof.
  intros e s wid wk e' s' r H Hwf.
  destruct (sem_poll_inv _ _ _ _ _ _ _ H) as (w & m & Hg & Hme & Hcase).
  destruct Hcase as [Hh Hq He Hs|Hh Hcl Hq He Hs|Hh Hcl Hq Hwk Hf He Hs
                    |e1 s1 e2 s2 Hh Hcl Hwk Hor Hap Hrm Hs Hrb|Hh Hcl Hwk Hor Hap He Henq];
    try (subst e'); try (subst s'); auto.
  - ssimpl. rewrite granted_upd_same; [reflexivity|]. intros w0; reflexivity.
  - destruct (poll_acquired_facts _ _ _ _ _ _ _ _ Hwf Hg Hh Hor Hap Hrm)
      as (_ & Hav & Hgr & _ & _ & _ & _ & _ & (w2 & Hg2 & _ & Hh2 & Hn2 & _)).
    pose proof (granted_upd s2 wid (fun w => w_set_has w true) w2 Hg2) as Hgu.
    unfold held in Hgu; ssimpl. rewrite Hh2 in Hgu. lia.
  - assert (Hgr1 : granted (upd_waiter s wid (repoint wk m)) = granted s).
    { rewrite granted_upd_same; [reflexivity|]. intros w0; reflexivity. }
    destruct (wt_queued w) eqn:Hq; [subst s'; ssimpl; lia|].
    destruct (enqueue_waiter_frame _ _ _ Henq) as (Hav & Hgr & _). ssimpl. lia.
Qed.

(* an acquisition completes only by removing exactly its requested permits *)
Lemma sem_poll_ready_ok : forall e s wid wk e' s' w,
  sem_poll e s wid wk = Some (e', s', PReadyOk) -> sem_wf s -> get_waiter s wid = Some w ->
  (exists w', get_waiter s' wid = Some w' /\ wt_has w' = true /\ wt_queued w' = false /\ wt_n w' = wt_n w) /\
  ~ In wid (sm_queue s') /\
  (wt_has w = true -> s' = s) /\
  (wt_has w = false ->
     can_acquire s (wt_n w) /\ sm_avail s' + wt_n w = sm_avail s /\ granted s' = granted s + wt_n w).
Proof.
  intros e s wid wk e' s' w H Hwf Hg.
  pose proof (sem_poll_wf _ _ _ _ _ _ _ H Hwf) as Hwf'.
  destruct (sem_poll_inv _ _ _ _ _ _ _ H) as (w0 & m & Hg0 & Hme & Hcase).
  rewrite Hg in Hg0; inversion Hg0; subst w0; clear Hg0.
  assert (Hgoal : (exists w', get_waiter s' wid = Some w' /\ wt_has w' = true /\ wt_queued w' = false /\ wt_n w' = wt_n w) /\
     (wt_has w = true -> s' = s) /\
     (wt_has w = false ->
        can_acquire s (wt_n w) /\ sm_avail s' + wt_n w = sm_avail s /\ granted s' = granted s + wt_n w)).
  { inversion Hcase as [Hh Hq He Hs| | |e1 s1 e2 s2 Hh Hcl Hwk Hor Hap Hrm Hs Hrb| ]; subst.
    - split; [exists w; auto|]. split; [reflexivity|]. intros Hd; congruence.
    - destruct (poll_acquired_facts _ _ _ _ _ _ _ _ Hwf Hg Hh Hor Hap Hrm)
        as (_ & Hav & Hgr & _ & _ & _ & _ & _ & (w2 & Hg2 & Hq2 & Hh2 & Hn2 & _)).
      split.
      { exists (w_set_has w2 true). rewrite get_upd_eq, Hg2. ssimpl. auto. }
      split; [intros Hd; congruence|]. intros _.
      split. { eapply acquire_permits_ok_iff; [exact Hap|reflexivity]. }
      ssimpl. split; [exact Hav|].
      pose proof (granted_upd s2 wid (fun w => w_set_has w true) w2 Hg2) as Hgu.
      unfold held in Hgu; ssimpl. rewrite Hh2 in Hgu. lia. }
  destruct Hgoal as ((w' & Hg' & Hh' & Hq' & Hn') & Hrest).
  split; [exists w'; auto|]. split; [|exact Hrest].
  intros Hin. destruct (wf_queue s' Hwf' wid Hin) as (w1 & Hg1 & _ & Hh1 & _). congruence.
Qed.

Lemma w_set_queued_id : forall w b, wt_queued w = b -> w_set_queued w b = w.
Proof. intros [t n q h c k] b Hq; cbn in *; subst; reflexivity. Qed.

(* a pending poll leaves the waiter queued, pointing at the polling task and at its waker: the task
   released later is the one currently awaiting.  A waiter that was not queued goes to the back of
   the queue; no permit moves. *)
Lemma sem_poll_pending : forall e s wid wk e' s' w,
  sem_poll e s wid wk = Some (e', s', PPending) -> sem_wf s -> get_waiter s wid = Some w ->
  e' = e /\ sm_avail s' = sm_avail s /\ granted s' = granted s /\ wt_has w = false /\ sm_closed s = false /\
  (exists m, me e = Some m /\ get_waiter s' wid = Some (w_set_queued (repoint wk m w) true)) /\
  (forall x, x <> wid -> get_waiter s' x = get_waiter s x) /\
  (if wt_queued w then sm_queue s' = sm_queue s else sm_queue s' = sm_queue s ++ [wid]) /\
  ((wt_queued w = true /\ sm_fair s = true) \/ ~ can_acquire s (wt_n w)).
Proof.
  intros e s wid wk e' s' w H Hwf Hg.
  destruct (sem_poll_inv _ _ _ _ _ _ _ H) as (w0 & m & Hg0 & Hme & Hcase).
  rewrite Hg in Hg0; inversion Hg0; subst w0; clear Hg0.
  assert (Hgr1 : granted (upd_waiter s wid (repoint wk m)) = granted s).
  { rewrite granted_upd_same; [reflexivity|]. intros w0; reflexivity. }
  assert (Hg1 : get_waiter (upd_waiter s wid (repoint wk m)) wid = Some (repoint wk m w)).
  { rewrite get_upd_eq, Hg. reflexivity. }
  inversion Hcase as [ | |Hh Hcl Hq Hwk Hf He Hs| |Hh Hcl Hwk Hor Hap He Henq]; subst.
  - split; [reflexivity|]. split; [reflexivity|]. split; [exact Hgr1|]. split; [exact Hh|]. split; [exact Hcl|].
    split. { exists m. split; [exact Hme|]. rewrite Hg1. f_equal. symmetry. apply w_set_queued_id. exact Hq. }
    split. { intros x Hne. apply get_upd_neq. congruence. }
    rewrite Hq. split; [reflexivity|]. left; auto.
  - assert (Hnc : ~ can_acquire s (wt_n w)).
    { intros Hc. apply (acquire_permits_ok_iff _ _ _ _ _ _ Hap) in Hc. discriminate. }
    destruct (wt_queued w) eqn:Hq.
    + subst s'. split; [reflexivity|]. split; [reflexivity|]. split; [exact Hgr1|]. split; [exact Hh|]. split; [exact Hcl|].
      split. { exists m. split; [exact Hme|]. rewrite Hg1. f_equal. symmetry. apply w_set_queued_id. exact Hq. }
      split. { intros x Hne. apply get_upd_neq. congruence. }
      split; [reflexivity|]. right; exact Hnc.
    + destruct (enqueue_waiter_inv _ _ _ Henq) as (w1 & Hgw1 & _ & _ & ->).
      rewrite Hg1 in Hgw1; inversion Hgw1; subst w1. ssimpl.
      split; [reflexivity|]. split; [reflexivity|].
      split. { rewrite granted_upd_same; [exact Hgr1|]. intros w0; reflexivity. }
      split; [exact Hh|]. split; [exact Hcl|].
      split. { exists m. split; [exact Hme|]. rewrite get_upd_eq.
               change (get_waiter (set_queue (upd_waiter s wid (repoint wk m)) (sm_queue s ++ [wid])) wid)
                 with (get_waiter (upd_waiter s wid (repoint wk m)) wid). rewrite Hg1. reflexivity. }
      split. { intros x Hne. rewrite get_upd_neq by congruence.
               change (get_waiter (set_queue (upd_waiter s wid (repoint wk m)) (sm_queue s ++ [wid])) x)
                 with (get_waiter (upd_waiter s wid (repoint wk m)) x). apply get_upd_neq. congruence. }
      split; [reflexivity|]. right; exact Hnc.
Qed.

Lemma sem_poll_ready_err : forall e s wid wk e' s' w,
  sem_poll e s wid wk = Some (e', s', PReadyErr) -> get_waiter s wid = Some w ->
  e' = e /\ s' = s /\ wt_has w = false /\ sm_closed s = true.
Proof.
  intros e s wid wk e' s' w H Hg.
  destruct (sem_poll_inv _ _ _ _ _ _ _ H) as (w0 & m & Hg0 & Hme & Hcase).
  rewrite Hg in Hg0; inversion Hg0; subst w0.
  inversion Hcase; subst; auto.
Qed.

(* close fails every pending and future acquisition *)
Lemma sem_poll_closed : forall e s wid wk e' s' r w,
  sem_poll e s wid wk = Some (e', s', r) -> get_waiter s wid = Some w ->
  sm_closed s = true -> wt_has w = false -> r = PReadyErr /\ s' = s.
Proof.
  intros e s wid wk e' s' r w H Hg Hcl Hh.
  destruct (sem_poll_inv _ _ _ _ _ _ _ H) as (w0 & m & Hg0 & Hme & Hcase).
  rewrite Hg in Hg0; inversion Hg0; subst w0.
  inversion Hcase; subst; auto; congruence.
Qed.

Lemma sem_poll_closed_total : forall e s wid wk w m,
  sem_wf s -> get_waiter s wid = Some w -> me e = Some m -> sm_closed s = true -> wt_has w = false ->
  sem_poll e s wid wk = Some (e, s, PReadyErr).
Proof.
  intros e s wid wk w m Hwf Hg Hme Hcl Hh. unfold sem_poll.
  rewrite Hg, Hme, Hh, Hcl, (wf_closed_not_queued s wid w Hwf Hcl Hg). reflexivity.
Qed.

Lemma sem_poll_fair_head : forall e s wid wk e' s' r,
  sem_poll e s wid wk = Some (e', s', r) -> sem_wf s -> fair_head s -> fair_head s'.
Proof.
  intros e s wid wk e' s' r H Hwf Hfh.
  destruct (sem_poll_inv _ _ _ _ _ _ _ H) as (w & m & Hg & Hme & Hcase).
  destruct r.
  - (* PReadyOk *)
    destruct (sem_poll_ready_ok _ _ _ _ _ _ _ H Hwf Hg) as (_ & _ & Hsame & Hacq).
    destruct (wt_has w) eqn:Hh; [rewrite (Hsame eq_refl); exact Hfh|].
    inversion Hcase as [Hh' | | |e1 s1 e2 s2 _ Hcl Hwk Hor Hap Hrm Hs Hrb| ]; subst; [congruence|].
    destruct (poll_acquired_facts _ _ _ _ _ _ _ _ Hwf Hg Hh Hor Hap Hrm)
      as (_ & _ & _ & _ & Hf2 & _ & _ & Hsub & _).
    intros Hf. ssimpl. rewrite Hf2 in Hf.
    destruct (Hacq eq_refl) as ((_ & _ & [Hqe|Hfe] & _) & _); [|congruence].
    unfold head_blocked. ssimpl. destruct (sm_queue s2) as [|h rq] eqn:Hq2; [exact I|].
    exfalso. destruct (Hsub h) as (Hin & _); [left; reflexivity|]. rewrite Hqe in Hin. destruct Hin.
  - destruct (sem_poll_ready_err _ _ _ _ _ _ _ H Hg) as (_ & -> & _). exact Hfh.
  - destruct (sem_poll_pending _ _ _ _ _ _ _ H Hwf Hg)
      as (_ & Hav & _ & Hh & Hcl & (m' & _ & Hg') & Hother & Hq & Hwhy).
    assert (Hf' : sm_fair s' = sm_fair s).
    { inversion Hcase as [ | |? ? ? ? ? ? Hs| |? ? ? ? ? ? Henq]; subst; [reflexivity|].
      destruct (wt_queued w); [subst s'; reflexivity|].
      destruct (enqueue_waiter_frame _ _ _ Henq) as (_ & _ & _ & Hf & _). exact Hf. }
    intros Hf. rewrite Hf' in Hf. specialize (Hfh Hf). unfold head_blocked in *.
    assert (Hkeep : forall h wh, get_waiter s h = Some wh -> sm_avail s < wt_n wh ->
                      exists wh', get_waiter s' h = Some wh' /\ sm_avail s' < wt_n wh').
    { intros h wh Hgh Hlt. destruct (Nat.eq_dec h wid) as [->|Hne].
      - rewrite Hg in Hgh; inversion Hgh; subst wh. eexists. split; [exact Hg'|]. unfold repoint; ssimpl. lia.
      - exists wh. rewrite (Hother h Hne). split; [exact Hgh|lia]. }
    destruct (wt_queued w) eqn:Hqw.
    + rewrite Hq. destruct (sm_queue s) as [|h rq]; [exact I|].
      destruct Hfh as (wh & Hgh & Hlt). eapply Hkeep; eauto.
    + rewrite Hq. destruct (sm_queue s) as [|h rq] eqn:Hqs; cbn [app].
      * destruct Hwhy as [(Hd & _)|Hnc]; [discriminate|].
        eexists. split; [exact Hg'|]. unfold repoint; ssimpl. rewrite Hav.
        destruct (N.lt_ge_cases (sm_avail s) (wt_n w)) as [Hlt|Hge]; [exact Hlt|].
        exfalso. apply Hnc. unfold can_acquire. repeat split; auto.
        inversion Hcase as [ | | | |? ? ? ? Hap ? ?]; subst; [congruence|].
        apply acquire_permits_spec in Hap. apply Hap.
      * destruct Hfh as (wh & Hgh & Hlt). eapply Hkeep; eauto.
Qed.

Lemma sem_poll_tasks_ok : forall e s wid wk e' s' r,
  sem_poll e s wid wk = Some (e', s', r) -> sem_wf s -> me_in_range e -> sem_tasks_ok e s -> sem_tasks_ok e' s'.
Proof.
  intros e s wid wk e' s' r H Hwf Hmr Hok.
  destruct (sem_poll_inv _ _ _ _ _ _ _ H) as (w & m & Hg & Hme & Hcase).
  pose proof (Hmr m Hme) as Hm.
  destruct r.
  - inversion Hcase as [Hh Hq He Hs| | |e1 s1 e2 s2 Hh Hcl Hwk Hor Hap Hrm Hs Hrb| ]; subst; [exact Hok|].
    destruct (poll_acquired_facts _ _ _ _ _ _ _ _ Hwf Hg Hh Hor Hap Hrm)
      as (_ & _ & _ & _ & _ & Hws & Hfr2 & Hsub & _).
    eapply tasks_ok_mono with (e := e) (s := s); [exact Hok| | |].
    + eapply eng_frame_trans; [exact Hfr2|]. eapply reblock_if_unfair_frame; eauto.
    + eapply wtab_static_trans; [exact Hws|]. eapply wtab_static_upd; [reflexivity|]. intros w0; auto.
    + intros x Hx. ssimpl. apply Hsub; exact Hx.
  - destruct (sem_poll_ready_err _ _ _ _ _ _ _ H Hg) as (-> & -> & _). exact Hok.
  - destruct (sem_poll_pending _ _ _ _ _ _ _ H Hwf Hg)
      as (-> & _ & _ & _ & _ & (m' & Hme' & Hg') & Hother & Hq & _).
    rewrite Hme in Hme'; inversion Hme'; subst m'.
    intros x wx Hin Hgx. destruct (Nat.eq_dec x wid) as [->|Hne].
    + rewrite Hg' in Hgx. inversion Hgx; subst wx. unfold repoint; ssimpl. exact Hm.
    + rewrite (Hother x Hne) in Hgx. eapply Hok; [|exact Hgx].
      destruct (wt_queued w); rewrite Hq in Hin; [exact Hin|].
      apply in_app_or in Hin. destruct Hin as [Hin|[Heq|[]]]; [exact Hin|congruence].
Qed.

(* try_acquire succeeds exactly when an acquire would complete immediately: the first poll of a
   waiter that is neither queued nor holding permits *)
Lemma sem_poll_unqueued_iff : forall e s wid wk e' s' r w,
  sem_poll e s wid wk = Some (e', s', r) -> get_waiter s wid = Some w ->
  wt_has w = false -> wt_queued w = false ->
  (r = PReadyOk <-> can_acquire s (wt_n w)) /\
  (r = PReadyErr <-> sm_closed s = true) /\
  (r = PPending <-> sm_closed s = false /\ ~ can_acquire s (wt_n w)).
Proof.
  intros e s wid wk e' s' r w H Hg Hh Hq.
  destruct (sem_poll_inv _ _ _ _ _ _ _ H) as (w0 & m & Hg0 & Hme & Hcase).
  rewrite Hg in Hg0; inversion Hg0; subst w0; clear Hg0.
  inversion Hcase as [Hh'|Hh' Hcl _ He Hs|Hh' Hcl Hq' _ _ _ _
                     |e1 s1 e2 s2 Hh' Hcl Hwk Hor Hap Hrm Hs Hrb|Hh' Hcl Hwk Hor Hap He Henq]; subst; try congruence.
  - assert (Hnc : ~ can_acquire s (wt_n w)) by (intros (_ & Hc & _); congruence).
    split; [split; [discriminate|intros Hc; contradiction]|].
    split; [split; auto|]. split; [discriminate|]. intros (Hc & _); congruence.
  - assert (Hc : can_acquire s (wt_n w)) by (eapply acquire_permits_ok_iff; [exact Hap|reflexivity]).
    split; [split; auto|]. split; [split; [discriminate|congruence]|].
    split; [discriminate|]. intros (_ & Hnc); contradiction.
  - assert (Hnc : ~ can_acquire s (wt_n w)).
    { intros Hc. apply (acquire_permits_ok_iff _ _ _ _ _ _ Hap) in Hc. discriminate. }
    split; [split; [discriminate|intros Hc; contradiction]|].
    split; [split; [discriminate|congruence]|]. split; auto.
Qed.

(* ---- drop ---- *)
Lemma sem_drop_acquire_inv : forall e s wid completed e' s' r,
  sem_drop_acquire e s wid completed = Some (e', s', r) ->
  exists w, get_waiter s wid = Some w /\
    ((wt_queued w = true /\ remove_waiter e s wid = Some (e', s') /\ r = DRemoved) \/
     (wt_queued w = false /\ wt_has w = true /\ completed = false /\ e' = e /\ s' = s /\ r = DMustRelease (wt_n w)) \/
     (wt_queued w = false /\ (wt_has w = false \/ completed = true) /\ e' = e /\ s' = s /\ r = DNothing)).
Proof.
  intros e s wid completed e' s' r H; unfold sem_drop_acquire in H.
  destruct (get_waiter s wid) as [w|] eqn:Hg; [|discriminate].
  exists w. split; [reflexivity|].
  destruct (wt_queued w) eqn:Hq.
  - left. destruct (remove_waiter e s wid) as [[e1 s1]|]; [|discriminate]. inversion H; subst. auto.
  - right. destruct (wt_has w) eqn:Hh; destruct completed; cbn in H; inversion H; subst; auto 10.
Qed.

Lemma sem_drop_acquire_wf : forall e s wid completed e' s' r,
  sem_drop_acquire e s wid completed = Some (e', s', r) -> sem_wf s -> sem_wf s'.
Proof.
  intros e s wid completed e' s' r H Hwf.
  destruct (sem_drop_acquire_inv _ _ _ _ _ _ _ H) as (w & Hg & [(Hq & Hrm & _)|[(_ & _ & _ & _ & -> & _)|(_ & _ & _ & -> & _)]]); auto.
  eapply remove_waiter_wf; eauto.
Qed.

Lemma sem_drop_acquire_conservation : forall e s wid completed e' s' r,
  sem_drop_acquire e s wid completed = Some (e', s', r) -> sem_wf s ->
  sm_avail s' + granted s' = sm_avail s + granted s.
Proof.
  intros e s wid completed e' s' r H Hwf.
  destruct (sem_drop_acquire_inv _ _ _ _ _ _ _ H) as (w & Hg & [(Hq & Hrm & _)|[(_ & _ & _ & _ & -> & _)|(_ & _ & _ & -> & _)]]); auto.
  apply (remove_waiter_frame _ _ _ _ _ Hrm Hwf).
Qed.

Lemma sem_drop_acquire_fair_head : forall e s wid completed e' s' r,
  sem_drop_acquire e s wid completed = Some (e', s', r) -> sem_wf s -> fair_head s -> fair_head s'.
Proof.
  intros e s wid completed e' s' r H Hwf Hfh.
  destruct (sem_drop_acquire_inv _ _ _ _ _ _ _ H) as (w & Hg & [(Hq & Hrm & _)|[(_ & _ & _ & _ & -> & _)|(_ & _ & _ & -> & _)]]); auto.
  eapply remove_waiter_fair_head; eauto.
Qed.

Lemma sem_drop_acquire_tasks_ok : forall e s wid completed e' s' r,
  sem_drop_acquire e s wid completed = Some (e', s', r) -> sem_wf s -> sem_tasks_ok e s -> sem_tasks_ok e' s'.
Proof.
  intros e s wid completed e' s' r H Hwf Hok.
  destruct (sem_drop_acquire_inv _ _ _ _ _ _ _ H) as (w & Hg & [(Hq & Hrm & _)|[(_ & _ & _ & -> & -> & _)|(_ & _ & -> & -> & _)]]); auto.
  eapply remove_waiter_tasks_ok; eauto.
Qed.

(* cancel safety *)
Lemma sem_drop_acquire_queued : forall e s wid completed e' s' r w,
  sem_drop_acquire e s wid completed = Some (e', s', r) -> sem_wf s ->
  get_waiter s wid = Some w -> wt_queued w = true ->
  r = DRemoved /\ ~ In wid (sm_queue s') /\ get_waiter s' wid = Some (w_set_queued w false) /\
  (forall x, In x (sm_queue s') -> In x (sm_queue s)) /\
  sm_avail s' + granted s' = sm_avail s + granted s /\ sem_wf s' /\ (fair_head s -> fair_head s').
Proof.
  intros e s wid completed e' s' r w H Hwf Hg Hq.
  destruct (sem_drop_acquire_inv _ _ _ _ _ _ _ H) as (w0 & Hg0 & Hcase).
  rewrite Hg in Hg0; inversion Hg0; subst w0.
  destruct Hcase as [(_ & Hrm & ->)|[(Hd & _)|(Hd & _)]]; try congruence.
  destruct (remove_waiter_frame _ _ _ _ _ Hrm Hwf) as (_ & _ & Hcons & _ & _ & _ & Hsub & (w1 & Hg1 & _ & _ & Hg')).
  rewrite Hg in Hg1; inversion Hg1; subst w1.
  split; [reflexivity|]. split; [intros Hin; apply Hsub in Hin; destruct Hin; congruence|].
  split; [exact Hg'|]. split; [intros x Hx; apply Hsub; exact Hx|]. split; [exact Hcons|].
  split; [eapply remove_waiter_wf; eauto|]. intros Hfh. eapply remove_waiter_fair_head; eauto.
Qed.

Lemma sem_drop_acquire_granted : forall e s wid completed w,
  get_waiter s wid = Some w -> wt_queued w = false -> wt_has w = true ->
  sem_drop_acquire e s wid completed =
    Some (e, s, if completed then DNothing else DMustRelease (wt_n w)).
Proof.
  intros e s wid completed w Hg Hq Hh. unfold sem_drop_acquire. rewrite Hg, Hq, Hh.
  destruct completed; reflexivity.
Qed.

Lemma sem_drop_acquire_idle : forall e s wid completed w,
  get_waiter s wid = Some w -> wt_queued w = false -> wt_has w = false ->
  sem_drop_acquire e s wid completed = Some (e, s, DNothing).
Proof.
  intros e s wid completed w Hg Hq Hh. unfold sem_drop_acquire. rewrite Hg, Hq, Hh. reflexivity.
Qed.

(* ------------------------------------------------------------------ *)
(* 10. no overtaking in strictly fair mode                             *)
(* ------------------------------------------------------------------ *)
Lemma acquire_permits_res_iff : forall e s k e' s' r,
  acquire_permits e s k = Some (e', s', r) ->
  (r = AOk <-> can_acquire s k) /\ (r = AClosed <-> sm_closed s = true) /\
  (r = ANoPermits <-> sm_closed s = false /\ ~ can_acquire s k).
Proof.
  intros e s k e' s' r H.
  pose proof (acquire_permits_ok_iff _ _ _ _ _ _ H) as Hok.
  apply acquire_permits_spec in H. destruct H as (_ & _ & _ & H).
  split; [exact Hok|]. destruct r.
  - destruct H as (Hcl & _). split; [split; [discriminate|congruence]|].
    split; [discriminate|]. intros (_ & Hnc). exfalso. apply Hnc. apply Hok. reflexivity.
  - destruct H as (_ & _ & Hcl & _). split; [split; [discriminate|congruence]|].
    split; [|reflexivity]. intros _. split; [exact Hcl|]. intros Hc. apply Hok in Hc. discriminate.
  - destruct H as (_ & _ & Hcl). split; [split; auto|]. split; [discriminate|]. intros (Hc & _). congruence.
Qed.

Lemma acquire_permits_no_overtake : forall e s k e' s' r,
  acquire_permits e s k = Some (e', s', r) -> sm_fair s = true -> sm_queue s <> [] ->
  r <> AOk /\ s' = s /\ e' = e.
Proof.
  intros e s k e' s' r H Hf Hq.
  pose proof (acquire_permits_ok_iff _ _ _ _ _ _ H) as Hok.
  apply acquire_permits_spec in H. destruct H as (_ & _ & _ & H). destruct r.
  - exfalso. destruct H as (_ & [Hqe|Hfe] & _); congruence.
  - destruct H as (-> & -> & _). split; [discriminate|auto].
  - destruct H as (-> & -> & _). split; [discriminate|auto].
Qed.

Lemma sem_try_acquire_no_overtake : forall e s k e' s' r,
  sem_try_acquire e s k = Some (e', s', r) -> sm_fair s = true -> sm_queue s <> [] ->
  r <> AOk /\ s' = s.
Proof.
  intros e s k e' s' r H Hf Hq. destruct (sem_try_acquire_inv _ _ _ _ _ _ H) as (e1 & Hap & _).
  destruct (acquire_permits_no_overtake _ _ _ _ _ _ Hap Hf Hq) as (A & B & _). auto.
Qed.

(* a new arrival on a strictly fair semaphore with a non-empty queue goes to the back of the queue,
   however many permits are available *)
Lemma sem_poll_no_overtake : forall e s wid wk e' s' r w,
  sem_poll e s wid wk = Some (e', s', r) -> sem_wf s -> sm_fair s = true -> sm_queue s <> [] ->
  get_waiter s wid = Some w -> wt_has w = false -> wt_queued w = false ->
  r = PPending /\ sm_queue s' = sm_queue s ++ [wid] /\ sm_avail s' = sm_avail s /\ granted s' = granted s.
Proof.
  intros e s wid wk e' s' r w H Hwf Hf Hq Hg Hh Hqd.
  destruct (sem_poll_unqueued_iff _ _ _ _ _ _ _ _ H Hg Hh Hqd) as (Hok & Herr & Hpend).
  assert (Hcl : sm_closed s = false).
  { destruct (sm_closed s) eqn:Hcl; [|reflexivity]. exfalso. apply Hq. apply (wf_closed s Hwf Hcl). }
  assert (Hnc : ~ can_acquire s (wt_n w)).
  { intros (_ & _ & [Hqe|Hfe] & _); congruence. }
  assert (Hr : r = PPending) by (apply Hpend; auto). subst r.
  destruct (sem_poll_pending _ _ _ _ _ _ _ H Hwf Hg) as (_ & Hav & Hgr & _ & _ & _ & _ & Hq' & _).
  rewrite Hqd in Hq'. auto.
Qed.

(* ------------------------------------------------------------------ *)
(* 11. sem_inv: the structural invariant together with the engine side *)
(* ------------------------------------------------------------------ *)
Lemma sem_inv_const_new : forall e n fair, sem_inv e (sem_const_new n fair).
Proof. intros e n fair. split; [apply wf_const_new|]. intros wid w []. Qed.

Lemma sem_inv_new : forall e n fair c, sem_inv e (sem_new n fair c).
Proof. intros e n fair c. split; [apply wf_new|]. intros wid w []. Qed.

Lemma sem_inv_acquire_permits : forall e s k e' s' r,
  acquire_permits e s k = Some (e', s', r) -> sem_inv e s -> sem_inv e' s'.
Proof.
  intros e s k e' s' r H (Hwf & Hok). split; [eapply acquire_permits_wf; eauto|].
  pose proof (acquire_permits_spec _ _ _ _ _ _ H) as (_ & Hfr & _ & Hr).
  eapply tasks_ok_shape; eauto. destruct r.
  - apply Hr.
  - destruct Hr as (_ & -> & _). apply same_shape_refl.
  - destruct Hr as (_ & -> & _). apply same_shape_refl.
Qed.

Lemma sem_inv_unblock_front : forall fuel e s e' s',
  unblock_front fuel e s = Some (e', s') -> sem_inv e s -> sem_inv e' s'.
Proof.
  intros fuel e s e' s' H (Hwf & Hok).
  split; [eapply unblock_front_wf; eauto|eapply unblock_front_tasks_ok; eauto].
Qed.

Lemma sem_inv_reblock_if_unfair : forall e s e',
  reblock_if_unfair e s = Some e' -> sem_inv e s -> sem_inv e' s.
Proof.
  intros e s e' H (Hwf & Hok). split; [exact Hwf|].
  eapply tasks_ok_shape; eauto; [eapply reblock_if_unfair_frame; eauto|apply same_shape_refl].
Qed.

Lemma sem_inv_enqueue_waiter : forall e s wid s' w,
  enqueue_waiter s wid = Some s' -> sem_inv e s ->
  get_waiter s wid = Some w -> wt_waker w <> None -> sm_closed s = false -> (wt_task w < length (tasks e))%nat ->
  sem_inv e s'.
Proof.
  intros e s wid s' w H (Hwf & Hok) Hg Hwk Hcl Htk. split; [eapply enqueue_waiter_wf; eauto|].
  destruct (enqueue_waiter_inv _ _ _ H) as (w0 & Hg0 & _ & _ & ->).
  rewrite Hg in Hg0; inversion Hg0; subst w0.
  intros x wx Hin Hgx. ssimpl. destruct (Nat.eq_dec wid x) as [<-|Hne].
  - rewrite get_upd_eq in Hgx. unfold get_waiter in Hgx, Hg; ssimpl. rewrite Hg in Hgx.
    cbn [option_map] in Hgx. inversion Hgx; subst. ssimpl. exact Htk.
  - rewrite get_upd_neq in Hgx by exact Hne. apply in_app_or in Hin.
    destruct Hin as [Hin|[Heq|[]]]; [|congruence]. eapply Hok; eauto.
Qed.

Lemma sem_inv_remove_waiter : forall e s wid e' s',
  remove_waiter e s wid = Some (e', s') -> sem_inv e s -> sem_inv e' s'.
Proof.
  intros e s wid e' s' H (Hwf & Hok).
  split; [eapply remove_waiter_wf; eauto|eapply remove_waiter_tasks_ok; eauto].
Qed.

Lemma sem_inv_release : forall e s k e' s',
  sem_release e s k = Some (e', s') -> sem_inv e s -> sem_inv e' s'.
Proof.
  intros e s k e' s' H (Hwf & Hok).
  split; [eapply sem_release_wf; eauto|eapply sem_release_tasks_ok; eauto].
Qed.

Lemma sem_inv_close : forall e s e' s',
  sem_close e s = Some (e', s') -> sem_inv e s -> sem_inv e' s'.
Proof.
  intros e s e' s' H (Hwf & Hok).
  destruct (sem_close_spec _ _ _ _ H Hwf) as (Hwf' & _ & Hq & _).
  split; [exact Hwf'|]. intros wid w Hin. rewrite Hq in Hin. destruct Hin.
Qed.

Lemma sem_inv_try_acquire : forall e s k e' s' r,
  sem_try_acquire e s k = Some (e', s', r) -> sem_inv e s -> sem_inv e' s'.
Proof.
  intros e s k e' s' r H (Hwf & Hok).
  split; [eapply sem_try_acquire_wf; eauto|eapply sem_try_acquire_tasks_ok; eauto].
Qed.

Lemma sem_inv_new_waiter : forall e s k s' wid,
  sem_new_waiter e s k = Some (s', wid) -> sem_inv e s -> sem_inv e s'.
Proof.
  intros e s k s' wid H (Hwf & Hok).
  split; [eapply sem_new_waiter_wf; eauto|eapply sem_new_waiter_tasks_ok; eauto].
Qed.

Lemma sem_inv_poll : forall e s wid wk e' s' r,
  sem_poll e s wid wk = Some (e', s', r) -> me_in_range e -> sem_inv e s -> sem_inv e' s'.
Proof.
  intros e s wid wk e' s' r H Hmr (Hwf & Hok).
  split; [eapply sem_poll_wf; eauto|eapply sem_poll_tasks_ok; eauto].
Qed.

Lemma sem_inv_drop_acquire : forall e s wid completed e' s' r,
  sem_drop_acquire e s wid completed = Some (e', s', r) -> sem_inv e s -> sem_inv e' s'.
Proof.
  intros e s wid completed e' s' r H (Hwf & Hok).
  split; [eapply sem_drop_acquire_wf; eauto|eapply sem_drop_acquire_tasks_ok; eauto].
Qed.

(* ------------------------------------------------------------------ *)
(* 12. try_acquire succeeds exactly when an acquire completes at once  *)
(* ------------------------------------------------------------------ *)
(* Whatever the engine states in which the three blocks run: try_acquire(k) on s, against the
   first poll of a fresh Acquire for k permits created on the same s. *)
Lemma try_iff_immediate : forall e s k e1 s1 r e2 s2 wid e3 wk e4 s4 pr,
  sem_try_acquire e s k = Some (e1, s1, r) ->
  sem_new_waiter e2 s k = Some (s2, wid) ->
  sem_poll e3 s2 wid wk = Some (e4, s4, pr) ->
  (r = AOk <-> pr = PReadyOk) /\ (r = AClosed <-> pr = PReadyErr) /\ (r = ANoPermits <-> pr = PPending).
Proof.
  intros e s k e1 s1 r e2 s2 wid e3 wk e4 s4 pr Htry Hnew Hpoll.
  destruct (sem_try_acquire_inv _ _ _ _ _ _ Htry) as (e1' & Hap & _).
  destruct (acquire_permits_res_iff _ _ _ _ _ _ Hap) as (Hok & Hcl & Hno).
  destruct (sem_new_waiter_spec _ _ _ _ _ Hnew) as (Ha & _ & Hq & Hc & Hf & _ & _ & (m & c & _ & _ & Hg) & _).
  assert (Hcan : can_acquire s2 k <-> can_acquire s k).
  { unfold can_acquire. rewrite Ha, Hq, Hc, Hf. reflexivity. }
  destruct (sem_poll_unqueued_iff _ _ _ _ _ _ _ _ Hpoll Hg eq_refl eq_refl) as (Pok & Perr & Ppend).
  cbn [wt_n] in Pok, Ppend. rewrite Hcan in Pok, Ppend. rewrite Hc in Perr, Ppend.
  split; [rewrite Hok, Pok; reflexivity|]. split; [rewrite Hcl, Perr; reflexivity|].
  rewrite Hno, Ppend; reflexivity.
Qed.

(* ------------------------------------------------------------------ *)
(* 13. corollaries in the form quoted by Props/C18.v                   *)
(* ------------------------------------------------------------------ *)
Lemma sem_inv_content : forall e s,
  sem_inv e s ->
  (forall bs, sm_batches s = Some bs -> sum_sizes bs = sm_avail s) /\
  NoDup (sm_queue s) /\
  (forall wid, In wid (sm_queue s) ->
     exists w, get_waiter s wid = Some w /\ wt_queued w = true /\ wt_has w = false /\ wt_waker w <> None /\
               (wt_task w < length (tasks e))%nat) /\
  (forall wid w, get_waiter s wid = Some w -> wt_queued w = true -> In wid (sm_queue s)) /\
  (forall wid w, get_waiter s wid = Some w -> wt_has w = true -> wt_queued w = false) /\
  (sm_closed s = true -> sm_queue s = []).
Proof.
  intros e s (Hwf & Hok).
  split; [apply (wf_batches s Hwf)|]. split; [apply (wf_nodup s Hwf)|].
  split.
  { intros wid Hin. destruct (wf_queue s Hwf wid Hin) as (w & Hg & Hq & Hh & Hw).
    exists w. repeat split; auto. eapply Hok; eauto. }
  split; [apply (wf_queued s Hwf)|]. split; [intros wid w; apply wf_has_not_queued; exact Hwf|].
  apply (wf_closed s Hwf).
Qed.

Lemma unblock_front_conservation : forall fuel e s e' s',
  unblock_front fuel e s = Some (e', s') -> sm_avail s' + granted s' = sm_avail s + granted s.
Proof. intros fuel e s e' s' H. apply (unblock_front_frame _ _ _ _ _ H). Qed.

Lemma remove_waiter_conservation : forall e s wid e' s',
  remove_waiter e s wid = Some (e', s') -> sem_wf s -> sm_avail s' + granted s' = sm_avail s + granted s.
Proof. intros e s wid e' s' H Hwf. apply (remove_waiter_frame _ _ _ _ _ H Hwf). Qed.

Lemma enqueue_waiter_conservation : forall s wid s',
  enqueue_waiter s wid = Some s' -> sm_avail s' = sm_avail s /\ granted s' = granted s.
Proof. intros s wid s' H. destruct (enqueue_waiter_frame _ _ _ H) as (A & B & _). auto. Qed.

Lemma sem_new_waiter_conservation : forall e s k s' wid,
  sem_new_waiter e s k = Some (s', wid) -> sm_avail s' = sm_avail s /\ granted s' = granted s.
Proof. intros e s k s' wid H. destruct (sem_new_waiter_spec _ _ _ _ _ H) as (A & _ & _ & _ & _ & B & _). auto. Qed.

Lemma sem_close_conservation : forall e s e' s',
  sem_close e s = Some (e', s') -> sem_wf s -> sm_avail s' = sm_avail s /\ granted s' = granted s.
Proof. intros e s e' s' H Hwf. destruct (sem_close_spec _ _ _ _ H Hwf) as (_ & _ & _ & _ & A & B & _). auto. Qed.

(* strictly fair grants, in the form: who left the queue, who got permits, who was woken *)
Lemma unblock_front_fair_order : forall fuel e s e' s',
  unblock_front fuel e s = Some (e', s') -> sem_wf s ->
  exists pre, sm_queue s = pre ++ sm_queue s' /\
    (forall wid, In wid pre -> exists w, get_waiter s wid = Some w /\
       ((ub_stale e w = true /\ get_waiter s' wid = Some (stale_upd w)) \/
        (ub_stale e w = false /\ wt_has w = false /\ wt_n w <= sm_avail s /\
         get_waiter s' wid = Some (grant_upd w) /\ runnable e' (wt_task w)))) /\
    (forall wid, ~ In wid pre -> get_waiter s' wid = get_waiter s wid) /\
    ((length (sm_queue s) <= fuel)%nat -> head_blocked s').
Proof.
  intros fuel e s e' s' H Hwf.
  destruct (unblock_front_prefix _ _ _ _ _ H Hwf) as (pre & Hpre & Hcl).
  pose proof (unblock_front_frame _ _ _ _ _ H) as (_ & _ & _ & _ & _ & _ & _ & Hout).
  exists pre. split; [exact Hpre|]. split; [exact Hcl|]. split.
  - intros wid Hni. destruct (in_dec Nat.eq_dec wid (sm_queue s)) as [Hin|Hnq].
    + rewrite Hpre in Hin. apply in_app_or in Hin. destruct Hin as [Hin|Hin]; [contradiction|].
      apply (unblock_front_still_queued _ _ _ _ _ H Hwf wid Hin).
    + apply Hout; exact Hnq.
  - intros Hlen. eapply unblock_front_head; eauto.
Qed.

(* cancelling the head of a strictly fair queue serves the waiters behind it *)
Lemma remove_waiter_head_eager : forall e s wid rest e' s',
  remove_waiter e s wid = Some (e', s') -> sm_fair s = true -> sm_queue s = wid :: rest -> head_blocked s'.
Proof.
  intros e s wid rest e' s' H Hf Hq.
  destruct (remove_waiter_inv _ _ _ _ _ H) as (w & idx & Hg & Hcl & Hh & Hqd & Hp & Hcase).
  rewrite Hq in Hp. cbn [position_nat] in Hp. rewrite Nat.eqb_refl in Hp. inversion Hp; subst idx.
  destruct Hcase as [(_ & _ & Hub)|([Hd|Hd] & _)]; try congruence.
  eapply unblock_front_head; [exact Hub|]. apply Nat.le_refl.
Qed.

Lemma sem_close_closed : forall e s e' s',
  sem_close e s = Some (e', s') -> sem_wf s ->
  sm_closed s' = true /\ sm_queue s' = [] /\ (forall wid w, get_waiter s' wid = Some w -> wt_queued w = false) /\
  (forall wid w, In wid (sm_queue s) -> get_waiter s wid = Some w -> in_cleanup e = false ->
                 task_finished e (wt_task w) = Some false -> runnable e' (wt_task w)).
Proof.
  intros e s e' s' H Hwf.
  destruct (sem_close_spec _ _ _ _ H Hwf) as (_ & A & B & C & _ & _ & _ & _ & _ & _ & D). auto.
Qed.

(* ------------------------------------------------------------------ *)
(* 14. totality: when the blocks do not panic                          *)
(* ------------------------------------------------------------------ *)
Lemma upd_task_total : forall e t f tk, get_task e t = Some tk -> exists e', upd_task e t f = Some e'.
Proof. intros e t f tk Hg. unfold upd_task. rewrite Hg. eexists; reflexivity. Qed.

Lemma e_update_clock_total : forall e m tk c clk,
  get_task e m = Some tk -> increment (t_clock tk) m = Some c -> exists e', e_update_clock e m clk = Some e'.
Proof.
  intros e m tk c clk Hg Hi. unfold e_update_clock, e_increment_clock. rewrite Hg, Hi.
  destruct (upd_task_total e m (fun tk0 => set_clock tk0 c) tk Hg) as (e1 & Hu). rewrite Hu.
  destruct (upd_task_get _ _ _ _ Hu) as (Hsame & _). rewrite Hg in Hsame. cbn [option_map] in Hsame.
  unfold e_join_clock. eapply upd_task_total; exact Hsame.
Qed.

Lemma acquire_permits_total : forall e s k,
  batches_ok s -> can_acquire s k -> clock_ok e ->
  exists e' s', acquire_permits e s k = Some (e', s', AOk).
Proof.
  intros e s k Hb (Hk & Hcl & Hq & Hle) (m & tk & c & Hme & Hg & Hi). unfold acquire_permits.
  destruct (N.eqb_spec k 0) as [Hz|_]; [lia|]. rewrite Hcl.
  assert (Hc : (match sm_queue s with [] => true | _ => false end) || negb (sm_fair s) = true).
  { destruct Hq as [->| ->]; [reflexivity|]. apply orb_true_r. }
  rewrite Hc, Hme. unfold e_clock. rewrite Hg.
  destruct (permits_acquire_fits s k (t_clock tk) Hb Hle) as (s' & clk & Hpa). rewrite Hpa.
  destruct (e_update_clock_total e m tk c clk Hg Hi) as (e' & Hu). rewrite Hu.
  eexists _, _; reflexivity.
Qed.

(* reblock_if_unfair never panics on a well-formed semaphore *)
Lemma reblock_fold_total : forall s l e,
  (forall wid, In wid l -> exists w, get_waiter s wid = Some w) ->
  exists e', fold_left (reblock_step s) l (Some e) = Some e'.
Proof.
  intros s l; induction l as [|wid r IH]; intros e Hall; cbn [fold_left].
  - eexists; reflexivity.
  - destruct (Hall wid (or_introl eq_refl)) as (w & Hg). unfold reblock_step at 2. rewrite Hg.
    assert (Hr : forall x, In x r -> exists w0, get_waiter s x = Some w0) by (intros x Hx; apply Hall; right; exact Hx).
    destruct (N.ltb (sm_avail s) (wt_n w)); cbn [andb]; [|apply IH; exact Hr].
    destruct (negb (match me e with Some m => Nat.eqb m (wt_task w) | None => false end)); cbn [andb]; [|apply IH; exact Hr].
    destruct (task_finished e (wt_task w)) as [[|]|] eqn:Hf; try (apply IH; exact Hr).
    unfold task_finished in Hf. destruct (get_task e (wt_task w)) as [tk|] eqn:Hgt; [|discriminate].
    inversion Hf as [Hfin]. unfold e_block. rewrite Hgt, Hfin.
    destruct (upd_task_total e (wt_task w) (fun tk0 => set_state tk0 (Blocked false)) tk Hgt) as (e1 & Hu).
    rewrite Hu. apply IH; exact Hr.
Qed.

Lemma reblock_if_unfair_total : forall e s, sem_wf s -> exists e', reblock_if_unfair e s = Some e'.
Proof.
  intros e s Hwf. unfold reblock_if_unfair. destruct (sm_fair s); [eexists; reflexivity|].
  apply reblock_fold_total. intros wid Hin. destruct (wf_queue s Hwf wid Hin) as (w & Hg & _). eauto.
Qed.

(* the positive direction of "try_acquire succeeds exactly when ...", with its engine side *)
Lemma sem_try_acquire_total : forall e s k,
  sem_wf s -> can_acquire s k -> clock_ok e ->
  exists e' s', sem_try_acquire e s k = Some (e', s', AOk).
Proof.
  intros e s k Hwf Hc Hck.
  destruct (acquire_permits_total e s k (wf_batches s Hwf) Hc Hck) as (e1 & s1 & Hap).
  unfold sem_try_acquire. rewrite Hap.
  destruct (reblock_if_unfair_total e1 s1 (acquire_permits_wf _ _ _ _ _ _ Hap Hwf)) as (e2 & Hrb).
  rewrite Hrb. eexists _, _; reflexivity.
Qed.

(* and of "an acquire completes immediately": the first poll of a fresh Acquire *)
Lemma sem_poll_fresh_total : forall e s wid wk w,
  sem_wf s -> get_waiter s wid = Some w -> wt_has w = false -> wt_queued w = false -> wt_waker w = None ->
  can_acquire s (wt_n w) -> clock_ok e ->
  exists e' s', sem_poll e s wid wk = Some (e', s', PReadyOk).
Proof.
  intros e s wid wk w Hwf Hg Hh Hq Hwk Hc Hck.
  destruct (acquire_permits_total e s (wt_n w) (wf_batches s Hwf) Hc Hck) as (e1 & s1 & Hap).
  destruct Hck as (m & tk & c & Hme & _).
  destruct Hc as (_ & Hcl & _).
  unfold sem_poll. rewrite Hg, Hme, Hh, Hcl, Hq, Hwk. cbn [Bool.eqb negb andb]. rewrite andb_false_r, Hap.
  pose proof (acquire_permits_wf _ _ _ _ _ _ Hap Hwf) as Hwf1.
  pose proof (acquire_permits_spec _ _ _ _ _ _ Hap) as (_ & _ & _ & (_ & _ & _ & _ & (_ & Ht & _) & _)).
  assert (Hg1 : get_waiter s1 wid = Some w) by (rewrite (get_waiter_wtab s s1 wid Ht); exact Hg).
  assert (Hwf3 : sem_wf (upd_waiter s1 wid (fun w0 => w_set_has w0 true))).
  { eapply wf_keep with (s := s1) (wid := wid) (w := w) (g := fun w0 => w_set_has w0 true); eauto.
    - intros Hd; congruence.
    - eapply batches_ok_ext; [| |apply (wf_batches s1 Hwf1)]; reflexivity. }
  destruct (reblock_if_unfair_total e1 _ Hwf3) as (e3 & Hrb). rewrite Hrb. eexists _, _; reflexivity.
Qed.
