(* C02, part B: where the scheduling points are.

   For every library operation of Lang/ThreadOps.v, Lang/SyncOps.v, Lang/SyncOps2.v, Lang/AsyncOps.v and for every
   constructor of Lang/Prog.v's `op` this file classifies the blocks that an operation executes BEFORE its first
   `Switch` node (= before the scheduler is given the chance to run another task first).

   Vocabulary (all semantic, over the functions carried by `Atomic` nodes):
     store_preserving f   the block never changes the shared objects
     tasks_local f        the block changes no task-table entry but the running task's
     quiet f              both of the above ("only inspects / updates the caller's own bookkeeping")
     readonly f           the block changes neither the store nor the execution state
     writes_store f / observes_store f / writes_other_task f / observes_other_task f
                          EXISTENTIAL witnesses (a concrete state) that the block does touch shared state
   and over code trees:
     starts_with_switch c             c = Switch _
     pre_switch Q X c                 along every path of c a `Switch` is met (or the path ends in Ret/Panic, or it
                                      leaves through a tree satisfying X) before any block that is not Q
     reaches_switch_before_store c    pre_switch quiet (fun _ => False) c

   TABLE (op of Lang/Prog.v : code : class : lemma)
     PSpawn        Switch (SpawnNow ..)                S    comp_PSpawn
     PJoin         join_code                           J    join_code_unfold, join_check_readonly, join_register_effect
     PYield        yield_code                          W    yield_code_placement
     PPark         park_code                           P    park_code_placement (whole operation quiet when it does not switch)
     PUnparkH/T    unpark_code                         S    unpark_code_switch, comp_PUnparkT
     PRand         Rand                                R    comp_PRand (a scheduler draw: no shared state; C13 makes it a scheduling point at the bound)
     PAtomic       atomic_code                         S    atomic_code_switch
     PResetSteps   atomic_u                            Q    comp_PResetSteps (quiet block, touches steps_reset_at only)
     PPanic        atomic_u; drop_guards               W    comp_PPanic, drop_guards_placement
     PSemAcq       acquire_blocking                    A    acquire_blocking_unfold, new_waiter_append_only, poll_check_readonly, unswitched_poll_blocks
     PSemTry       sem_try_code                        S    sem_try_code_switch
     PSemRel       sem_release_code                    S    sem_release_code_switch
     PSemClose     sem_close_code                      S    sem_close_code_switch
     PSemAvail     Atomic (read of the semaphore)      X    comp_PSemAvail_refuted
     PLock         mutex_lock_code                     A    mutex_lock_code_unfold, mutex_check_readonly (then Switch or acquire_blocking)
     PTryLock      mutex_try_lock_code                 S    mutex_try_lock_code_switch
     PUnlock       mutex_unlock_code                   S    mutex_unlock_code_switch
     PRwLock       rw_lock_code                        A    rw_lock_code_unfold, rw_check_readonly
     PRwTry        rw_try_code                         S    rw_try_code_switch
     PRwUnlock     rw_unlock_code                      S    rw_unlock_code_switch
     PCvWait       cv_wait_code                        S    cv_wait_code_switch
     PCvNotify     cv_notify_code                      S    cv_notify_code_switch
     PSend/PTrySend  harness liveness check; chan_send_code   W   comp_PSend, comp_PTrySend, chan_send_code_switch
     PRecv/PTryRecv  harness liveness check; chan_recv_code   W   comp_PRecv, comp_PTryRecv, chan_recv_code_switch
     PDropTx       liveness check; chan_drop_tx        X    comp_PDropTx_refuted
     PDropRx       liveness check; chan_drop_rx        X    comp_PDropRx_refuted
     PBarrier      barrier_wait_code                   B    barrier_wait_code_unfold, barrier_check_readonly, unswitched_arrival_blocks
     PCallOnce     lookup; call_once_code              X'   comp_PCallOnce, call_once_code_unfold, once_enter_writes
     PIsCompleted  Switch (..)                         S    comp_PIsCompleted
     PASpawn       Switch (SpawnNow ..)                S    comp_PASpawn
     PAwait        await_join                          X'   await_join_unfold, join_poll_writes
     PAbort        abort_code                          S    abort_code_switch
     PDetach       atomic_u detach_handle              X'   detach_writes_other_task (needs a handle: not a first operation)
     PAYield       await_yield                         W    await_yield_placement
     PBlockOn      Log; the body inline                -    comp_PBlockOn (no block of its own)
     PIsFinished   atomic_b is_finished_handle         X'   is_finished_observes_other_task (needs a handle)
     PTlsWith      Atomic on the caller's TLS map      T    comp_PTlsWith (own thread-local map: shape only)
     PThreadId     Atomic reading `me`                 Q    comp_PThreadId (readonly)
     PScope        atomic_u creating the scope object  T    comp_PScope (shape only)
     PScopeSpawn   atomic_u counter++; Switch (Spawn)  X'   comp_PScopeSpawn, scope_incr_writes

   classes:  S  starts_with_switch
             W  reaches_switch_before_store (only quiet blocks before the first Switch on every path)
             Q  the whole operation is one quiet block (no Switch, nothing shared is written)
             P/J/A/B  first block(s) quiet or append-only; a Switch is omitted only on a path on which the next block
                blocks the caller (proved: unswitched_poll_blocks, unswitched_arrival_blocks, join_register_effect) or,
                for park, consumes the caller's own token
             X  REFUTED: a block that reads or writes shared state of a primitive runs with no scheduling point since the
                caller's previous operation (the known findings: available_permits/is_closed, endpoint drops)
             X' same shape as X, exhibited here, for operations outside the C02 correspondence check or for which the
                omitted point is claimed harmless by the source (not proved here)
             T  touches an object that only the caller can reach at that time (not proved here)
   No Admitted / Axiom. *)
From Coq Require Import List NArith Bool Arith Lia.
From SV Require Import Params Clock.VClock Prim.Objects Prim.Atomic Prim.Tls Engine.Exec Engine.Inv Lang.Code
  Lang.ThreadOps Prim.Semaphore Lang.SyncOps Lang.SyncOps2 Lang.AsyncOps Lang.Prog Proofs.EngineBase.
Import ListNotations.
Local Open Scope nat_scope.

(* ================================================================== *)
(* vocabulary                                                          *)
(* ================================================================== *)
Definition afun := exec -> store -> option (exec * store * list N).

Definition starts_with_switch (c : code) : Prop := exists k, c = Switch k.

Definition store_preserving (f : afun) : Prop := forall e s e' s' a, f e s = Some (e', s', a) -> s' = s.
Definition others_same (m : nat) (e e' : exec) : Prop := forall t, t <> m -> get_task e' t = get_task e t.
Definition tasks_local (f : afun) : Prop :=
  forall e s e' s' a m, f e s = Some (e', s', a) -> me e = Some m -> others_same m e e'.
Definition quiet (f : afun) : Prop := store_preserving f /\ tasks_local f.
Definition readonly (f : afun) : Prop := forall e s e' s' a, f e s = Some (e', s', a) -> e' = e /\ s' = s.

Definition writes_store (f : afun) : Prop := exists e s e' s' a, f e s = Some (e', s', a) /\ s' <> s.
Definition observes_store (f : afun) : Prop :=
  exists e s1 s2 r1 r2, f e s1 = Some r1 /\ f e s2 = Some r2 /\ snd r1 <> snd r2.
Definition writes_other_task (f : afun) : Prop :=
  exists e s e' s' a m t, me e = Some m /\ t <> m /\ f e s = Some (e', s', a) /\ get_task e' t <> get_task e t.
Definition observes_other_task (f : afun) : Prop :=
  exists e1 e2 s m r1 r2, me e1 = Some m /\ me e2 = Some m /\ get_task e1 m = get_task e2 m
    /\ f e1 s = Some r1 /\ f e2 s = Some r2 /\ snd r1 <> snd r2.

Inductive pre_switch (Q : afun -> Prop) (X : code -> Prop) : code -> Prop :=
| ps_switch k : pre_switch Q X (Switch k)
| ps_exit c : X c -> pre_switch Q X c
| ps_ret : pre_switch Q X Ret
| ps_panic : pre_switch Q X Panic
| ps_atomic f k : Q f -> (forall a, pre_switch Q X (k a)) -> pre_switch Q X (Atomic f k)
| ps_log tag vals k : pre_switch Q X k -> pre_switch Q X (Log tag vals k).

Definition reaches_switch_before_store (c : code) : Prop := pre_switch quiet (fun _ => False) c.

(* the functions wrapped by atomic_u / atomic_b *)
Definition lift_u (f : exec -> store -> option (exec * store)) : afun :=
  fun e s => match f e s with Some (e', s') => Some (e', s', []) | None => None end.
Definition lift_b (f : exec -> store -> option (exec * store * bool)) : afun :=
  fun e s => match f e s with Some (e', s', b) => Some (e', s', [b2n b]) | None => None end.
Lemma atomic_u_lift : forall f k, atomic_u f k = Atomic (lift_u f) (fun _ => k).
Proof. reflexivity. Qed.
Lemma atomic_b_lift : forall f k, atomic_b f k = Atomic (lift_b f) (fun a => k (ans_bool a)).
Proof. reflexivity. Qed.

Lemma readonly_quiet : forall f, readonly f -> quiet f.
Proof.
  intros f H. split.
  - intros e s e' s' a Hf. exact (proj2 (H _ _ _ _ _ Hf)).
  - intros e s e' s' a m Hf _ t _. rewrite (proj1 (H _ _ _ _ _ Hf)). reflexivity.
Qed.

Lemma ps_atomic_u : forall (Q : afun -> Prop) (X : code -> Prop) f k, Q (lift_u f) -> pre_switch Q X k -> pre_switch Q X (atomic_u f k).
Proof. intros. rewrite atomic_u_lift. apply ps_atomic; auto. Qed.
Lemma ps_atomic_b : forall (Q : afun -> Prop) (X : code -> Prop) f k, Q (lift_b f) -> (forall b, pre_switch Q X (k b)) -> pre_switch Q X (atomic_b f k).
Proof. intros. rewrite atomic_b_lift. apply ps_atomic; auto. Qed.
Lemma ps_switch_if : forall (Q : afun -> Prop) (X : code -> Prop) b k, pre_switch Q X k -> pre_switch Q X (switch_if b k).
Proof. intros Q X [|] k H; cbn [switch_if]; [apply ps_switch|exact H]. Qed.
Lemma starts_pre_switch : forall (Q : afun -> Prop) (X : code -> Prop) c, starts_with_switch c -> pre_switch Q X c.
Proof. intros Q X c [k ->]. apply ps_switch. Qed.

Lemma lift_u_quiet : forall f,
  (forall e s e' s', f e s = Some (e', s') -> s' = s /\ forall m, me e = Some m -> others_same m e e') -> quiet (lift_u f).
Proof.
  intros f H. split.
  - intros e s e' s' a Hf. unfold lift_u in Hf. destruct (f e s) as [[e1 s1]|] eqn:E; [|discriminate].
    inversion Hf; subst. exact (proj1 (H _ _ _ _ E)).
  - intros e s e' s' a m Hf Hm. unfold lift_u in Hf. destruct (f e s) as [[e1 s1]|] eqn:E; [|discriminate].
    inversion Hf; subst. exact (proj2 (H _ _ _ _ E) m Hm).
Qed.
Lemma lift_b_quiet : forall f,
  (forall e s e' s' b, f e s = Some (e', s', b) -> s' = s /\ forall m, me e = Some m -> others_same m e e') -> quiet (lift_b f).
Proof.
  intros f H. split.
  - intros e s e' s' a Hf. unfold lift_b in Hf. destruct (f e s) as [[[e1 s1] b]|] eqn:E; [|discriminate].
    inversion Hf; subst. exact (proj1 (H _ _ _ _ _ E)).
  - intros e s e' s' a m Hf Hm. unfold lift_b in Hf. destruct (f e s) as [[[e1 s1] b]|] eqn:E; [|discriminate].
    inversion Hf; subst. exact (proj2 (H _ _ _ _ _ E) m Hm).
Qed.
Lemma lift_b_readonly : forall f,
  (forall e s e' s' b, f e s = Some (e', s', b) -> e' = e /\ s' = s) -> readonly (lift_b f).
Proof.
  intros f H e s e' s' a Hf. unfold lift_b in Hf. destruct (f e s) as [[[e1 s1] b]|] eqn:E; [|discriminate].
  inversion Hf; subst. exact (H _ _ _ _ _ E).
Qed.

(* ---- others_same ---- *)
Lemma os_refl : forall m e, others_same m e e.
Proof. intros m e t _; reflexivity. Qed.
Lemma os_trans : forall m a b c, others_same m a b -> others_same m b c -> others_same m a c.
Proof. intros m a b c H1 H2 t Ht. rewrite (H2 t Ht). apply H1; exact Ht. Qed.
Lemma os_tasks : forall m e e', tasks e' = tasks e -> others_same m e e'.
Proof. intros m e e' H t _. apply get_task_tasks; exact H. Qed.
Lemma os_upd : forall m e f e', upd_task e m f = Some e' -> others_same m e e'.
Proof.
  intros m e f e' H t Ht. apply upd_task_inv in H. destruct H as (tk & _ & ->).
  apply get_task_upd_neq. congruence.
Qed.
Lemma os_waker_wake : forall m e e', e_waker_wake e m = Some e' -> others_same m e e'.
Proof.
  intros m e e' H. unfold e_waker_wake in H. destruct (exec_is_finished e); [inversion H; apply os_refl|].
  destruct (get_task e m) as [tk|]; [|discriminate]. destruct (is_finished tk); [inversion H; apply os_refl|].
  eapply os_upd; eauto.
Qed.
Lemma os_sleep_unless_woken : forall m e e', e_sleep_unless_woken e m = Some e' -> others_same m e e'.
Proof.
  intros m e e' H. unfold e_sleep_unless_woken in H. destruct (get_task e m) as [tk|]; [|discriminate].
  destruct (t_woken tk); [eapply os_upd; eauto|]. destruct (is_finished tk); [discriminate|]. eapply os_upd; eauto.
Qed.
Lemma os_block : forall m e sp e', e_block e m sp = Some e' -> others_same m e e'.
Proof.
  intros m e sp e' H. unfold e_block in H. destruct (get_task e m) as [tk|]; [|discriminate].
  destruct (is_finished tk); [discriminate|]. eapply os_upd; eauto.
Qed.
Lemma os_park : forall m e e' b, e_park e m = Some (e', b) -> others_same m e e'.
Proof.
  intros m e e' b H. unfold e_park in H. destruct (get_task e m) as [tk|]; [|discriminate].
  destruct (t_inpark tk); [discriminate|]. destruct (is_blocked tk); [discriminate|].
  destruct (t_token tk).
  - destruct (upd_task e m _) as [e1|] eqn:U; [|discriminate]. inversion H; subst. eapply os_upd; eauto.
  - destruct (is_finished tk); [discriminate|].
    destruct (upd_task e m _) as [e1|] eqn:U; [|discriminate]. inversion H; subst. eapply os_upd; eauto.
Qed.

(* ================================================================== *)
(* class S: the operation begins with thread::switch()                 *)
(* ================================================================== *)
Lemma atomic_code_switch : forall a ty o k, starts_with_switch (atomic_code a ty o k).
Proof. intros; eexists; reflexivity. Qed.
Lemma unpark_code_switch : forall t k, starts_with_switch (unpark_code t k).
Proof. intros; eexists; reflexivity. Qed.
Lemma sem_try_code_switch : forall o n k, starts_with_switch (sem_try_code o n k).
Proof. intros; eexists; reflexivity. Qed.
Lemma sem_release_code_switch : forall o n k, starts_with_switch (sem_release_code o n k).
Proof. intros; eexists; reflexivity. Qed.
Lemma sem_close_code_switch : forall o k, starts_with_switch (sem_close_code o k).
Proof. intros; eexists; reflexivity. Qed.
Lemma mutex_try_lock_code_switch : forall o k, starts_with_switch (mutex_try_lock_code o k).
Proof. intros; eexists; reflexivity. Qed.
Lemma mutex_unlock_code_switch : forall o k, starts_with_switch (mutex_unlock_code o k).
Proof. intros; eexists; reflexivity. Qed.
Lemma rw_try_code_switch : forall o w k, starts_with_switch (rw_try_code o w k).
Proof. intros; eexists; reflexivity. Qed.
Lemma rw_unlock_code_switch : forall o w k, starts_with_switch (rw_unlock_code o w k).
Proof. intros; eexists; reflexivity. Qed.
Lemma cv_wait_code_switch : forall cv m k, starts_with_switch (cv_wait_code cv m k).
Proof. intros; eexists; reflexivity. Qed.
Lemma cv_notify_code_switch : forall cv all k, starts_with_switch (cv_notify_code cv all k).
Proof. intros; eexists; reflexivity. Qed.
Lemma chan_send_code_switch : forall ch v cb k, starts_with_switch (chan_send_code ch v cb k).
Proof. intros; eexists; reflexivity. Qed.
Lemma chan_recv_code_switch : forall ch cb k, starts_with_switch (chan_recv_code ch cb k).
Proof. intros; eexists; reflexivity. Qed.
Lemma abort_code_switch : forall jt t k, starts_with_switch (abort_code jt t k).
Proof. intros; eexists; reflexivity. Qed.

(* ================================================================== *)
(* yield_now, park, future::yield_now                                  *)
(* ================================================================== *)
Definition yield_block (e : exec) (s : store) : option (exec * store) :=
  match me e with
  | Some m => match e_waker_wake e m with Some e' => Some (e_request_yield e', s) | None => None end
  | None => None end.
Lemma yield_code_unfold : forall k, yield_code k = atomic_u yield_block (Switch k).
Proof. reflexivity. Qed.
Lemma yield_block_quiet : quiet (lift_u yield_block).
Proof.
  apply lift_u_quiet. intros e s e' s' H. unfold yield_block in H.
  destruct (me e) as [m|] eqn:Hm; [|discriminate].
  destruct (e_waker_wake e m) as [e1|] eqn:W; [|discriminate]. inversion H; subst. split; [reflexivity|].
  intros m0 Hm0. inversion Hm0; subst. eapply os_trans; [eapply os_waker_wake; eauto|]. apply os_tasks; reflexivity.
Qed.
Theorem yield_code_placement : forall k, reaches_switch_before_store (yield_code k).
Proof. intros k. rewrite yield_code_unfold. apply ps_atomic_u; [exact yield_block_quiet|apply ps_switch]. Qed.

Definition park_block (e : exec) (s : store) : option (exec * store * bool) :=
  match me e with
  | Some m => match e_park e m with
              | Some (e', true) => Some (e_request_yield e', s, true)
              | Some (e', false) => Some (e', s, false)
              | None => None end
  | None => None end.
Lemma park_code_unfold : forall k, park_code k = atomic_b park_block (fun sw => switch_if sw k).
Proof. reflexivity. Qed.
Lemma park_block_quiet : quiet (lift_b park_block).
Proof.
  apply lift_b_quiet. intros e s e' s' b H. unfold park_block in H.
  destruct (me e) as [m|] eqn:Hm; [|discriminate].
  destruct (e_park e m) as [[e1 [|]]|] eqn:P; [| |discriminate]; inversion H; subst; (split; [reflexivity|]);
    intros m0 Hm0; inversion Hm0; subst.
  - eapply os_trans; [eapply os_park; eauto|]. apply os_tasks; reflexivity.
  - eapply os_park; eauto.
Qed.
(* park: one quiet block, then either a Switch or (token available, consumed) the continuation *)
Theorem park_code_placement : forall k, pre_switch quiet (fun c => c = k) (park_code k).
Proof.
  intros k. rewrite park_code_unfold. apply ps_atomic_b; [exact park_block_quiet|].
  intros b. apply ps_switch_if. apply ps_exit. reflexivity.
Qed.
(* the path without a Switch is the one on which the caller's own token was available: nothing but that token changes *)
Lemma park_unswitched_consumes_token : forall e s e' s' m,
  me e = Some m -> park_block e s = Some (e', s', false) ->
  s' = s /\ exists tk, get_task e m = Some tk /\ t_token tk = true
            /\ e' = with_tasks e (list_upd (tasks e) m (fun tk => set_park tk false (t_inpark tk))).
Proof.
  intros e s e' s' m Hm H. unfold park_block in H. rewrite Hm in H.
  destruct (e_park e m) as [[e1 [|]]|] eqn:P; [discriminate| |discriminate]. inversion H; subst. split; [reflexivity|].
  unfold e_park in P. destruct (get_task e m) as [tk|] eqn:G; [|discriminate]. exists tk. split; [reflexivity|].
  destruct (t_inpark tk); [discriminate|]. destruct (is_blocked tk); [discriminate|].
  destruct (t_token tk).
  - split; [reflexivity|]. destruct (upd_task e m _) as [e1|] eqn:U; [|discriminate]. inversion P; subst.
    apply upd_task_inv in U. destruct U as (? & _ & ->). reflexivity.
  - destruct (is_finished tk); [discriminate|]. destruct (upd_task e m _); discriminate.
Qed.

Definition sleep_block (e : exec) (st : store) : option (exec * store) :=
  match me e with
  | Some m => match e_sleep_unless_woken e m with Some e' => Some (e', st) | None => None end
  | None => None end.
Lemma sleep_block_quiet : quiet (lift_u sleep_block).
Proof.
  apply lift_u_quiet. intros e s e' s' H. unfold sleep_block in H.
  destruct (me e) as [m|] eqn:Hm; [|discriminate].
  destruct (e_sleep_unless_woken e m) as [e1|] eqn:W; [|discriminate]. inversion H; subst. split; [reflexivity|].
  intros m0 Hm0. inversion Hm0; subst. eapply os_sleep_unless_woken; eauto.
Qed.
Lemma suspend_placement : forall ctx jt oa retry, reaches_switch_before_store (suspend ctx jt oa retry).
Proof.
  intros. unfold suspend. apply (ps_atomic_u quiet _ sleep_block); [exact sleep_block_quiet|apply ps_switch].
Qed.
Theorem await_yield_placement : forall ctx jt oa k, reaches_switch_before_store (await_yield ctx jt oa k).
Proof.
  intros. unfold await_yield. apply (ps_atomic_u quiet _ yield_block); [exact yield_block_quiet|apply suspend_placement].
Qed.

(* ================================================================== *)
(* JoinHandle::join                                                    *)
(* ================================================================== *)
Definition join_check (target : nat) (e : exec) (s : store) : option (exec * store * bool) :=
  match get_task e target with Some tk => Some (e, s, is_finished tk) | None => None end.
Definition join_register (target : nat) (e : exec) (s : store) : option (exec * store * bool) :=
  match me e with
  | None => None
  | Some m =>
    match e_set_waiter e target m with
    | None => None
    | Some (e', true) => match e_block e' m false with Some e'' => Some (e'', s, true) | None => None end
    | Some (e', false) => Some (e', s, false)
    end
  end.
Definition join_finish (target : nat) (e : exec) (s : store) : option (exec * store) :=
  match me e, e_clock e target, get_task e target with
  | Some m, Some c, Some tk =>
    if is_finished tk then match e_update_clock e m c with Some e' => Some (e', s) | None => None end else None
  | _, _, _ => None
  end.
Lemma join_code_unfold : forall target k,
  join_code target k =
  atomic_b (join_check target) (fun fin => switch_if fin
    (atomic_b (join_register target) (fun should_block => switch_if should_block (atomic_u (join_finish target) k)))).
Proof. reflexivity. Qed.

(* the first block only reads whether the target has finished ... *)
Lemma join_check_readonly : forall target, readonly (lift_b (join_check target)).
Proof.
  intros target. apply lift_b_readonly. intros e s e' s' b H. unfold join_check in H.
  destruct (get_task e target); [|discriminate]. inversion H; auto.
Qed.
Lemma join_check_answer : forall target e s e' s' b,
  join_check target e s = Some (e', s', b) -> exists tk, get_task e target = Some tk /\ b = is_finished tk.
Proof.
  intros target e s e' s' b H. unfold join_check in H. destruct (get_task e target) as [tk|]; [|discriminate].
  inversion H; eauto.
Qed.
(* ... and a finished target leads to a Switch before anything else *)
Lemma join_finished_path_switches : forall target k,
  exists f kk, join_code target k = Atomic f kk /\ readonly f /\ starts_with_switch (kk [1%N]).
Proof.
  intros target k. rewrite join_code_unfold, atomic_b_lift. do 2 eexists. split; [reflexivity|].
  split; [apply join_check_readonly|]. eexists; reflexivity.
Qed.

(* differ at most in the waiter field *)
Definition same_but_waiter (tk tk' : task) : Prop := tk' = set_waiter_f tk (t_waiter tk').

Lemma set_waiter_effect : forall e target w e' b,
  e_set_waiter e target w = Some (e', b) ->
  (b = false -> e' = e)
  /\ (forall t, t <> target -> get_task e' t = get_task e t)
  /\ (exists tk tk', get_task e target = Some tk /\ get_task e' target = Some tk' /\ same_but_waiter tk tk'
                     /\ (b = true -> t_waiter tk' = Some w /\ is_finished tk = false)
                     /\ (b = false -> is_finished tk = true)).
Proof.
  intros e target w e' b H. unfold e_set_waiter in H.
  destruct (get_task e target) as [tk|] eqn:G; [|discriminate].
  assert (Hsame : forall tk0 : task, same_but_waiter tk0 tk0).
  { intros [a1 a2 a3 a4 a5 a6 a7]; reflexivity. }
  assert (K : forall (P : Prop), (if is_finished tk then Some (e, false)
               else match upd_task e target (fun tk => set_waiter_f tk (Some w)) with
                    | Some e' => Some (e', true) | None => None end) = Some (e', b) ->
          (b = false -> e' = e)
          /\ (forall t, t <> target -> get_task e' t = get_task e t)
          /\ (exists tk1 tk', Some tk = Some tk1 /\ get_task e' target = Some tk' /\ same_but_waiter tk1 tk'
                     /\ (b = true -> t_waiter tk' = Some w /\ is_finished tk1 = false)
                     /\ (b = false -> is_finished tk1 = true))).
  { intros _ H0. destruct (is_finished tk) eqn:F.
    - inversion H0; subst. split; [auto|]. split; [auto|]. exists tk, tk. repeat split; auto; discriminate.
    - destruct (upd_task e target _) as [e1|] eqn:U; [|discriminate]. inversion H0; subst.
      split; [discriminate|]. split; [intros t Ht; eapply os_upd; eauto|].
      apply upd_task_inv in U. destruct U as (tk0 & G0 & ->). rewrite G in G0; inversion G0; subst tk0.
      exists tk, (set_waiter_f tk (Some w)). split; [reflexivity|]. split; [exact (get_task_upd_eq e target (fun tk => set_waiter_f tk (Some w)) tk G)|].
      split; [destruct tk; reflexivity|]. split; [auto|discriminate]. }
  destruct (t_waiter tk) as [w'|].
  - destruct (Nat.eqb w' w); [|discriminate]. exact (K True H).
  - exact (K True H).
Qed.

(* the block that is NOT preceded by a scheduling point (target unfinished): it leaves the shared objects alone, registers
   the caller in the target's waiter field, changes no other field of any other task, and blocks the caller; if it does
   not block, nothing at all has changed *)
Theorem join_register_effect : forall target e s e' s' b m,
  me e = Some m -> m <> target -> join_register target e s = Some (e', s', b) ->
  s' = s
  /\ (forall t, t <> m -> t <> target -> get_task e' t = get_task e t)
  /\ (exists tk tk', get_task e target = Some tk /\ get_task e' target = Some tk' /\ same_but_waiter tk tk')
  /\ (b = true -> exists tkm, get_task e' m = Some tkm /\ t_state tkm = Blocked false)
  /\ (b = false -> e' = e).
Proof.
  intros target e s e' s' b m Hm Hne H. unfold join_register in H. rewrite Hm in H.
  destruct (e_set_waiter e target m) as [[e1 [|]]|] eqn:W; [| |discriminate].
  - destruct (e_block e1 m false) as [e2|] eqn:B; [|discriminate]. inversion H; subst.
    destruct (set_waiter_effect _ _ _ _ _ W) as (_ & Ho & (tk & tk' & G & G' & Sw & _)).
    pose proof (os_block _ _ _ _ B) as Ob.
    split; [reflexivity|]. split.
    { intros t Htm Htt. rewrite (Ob t Htm). apply Ho; exact Htt. }
    split.
    { exists tk, tk'. split; [exact G|]. split; [|exact Sw]. rewrite (Ob target); [exact G'|congruence]. }
    split; [|discriminate]. intros _.
    unfold e_block in B. destruct (get_task e1 m) as [tkm|] eqn:Gm; [|discriminate].
    destruct (is_finished tkm); [discriminate|]. apply upd_task_inv in B. destruct B as (tk0 & G0 & ->).
    exists (set_state tk0 (Blocked false)). split; [exact (get_task_upd_eq e1 m (fun tk => set_state tk (Blocked false)) tk0 G0)|reflexivity].
  - inversion H; subst. destruct (set_waiter_effect _ _ _ _ _ W) as (He & Ho & (tk & tk' & G & G' & Sw & _)).
    split; [reflexivity|]. split; [intros; apply Ho; assumption|]. split; [eauto|]. split; [discriminate|].
    intros _. apply He; reflexivity.
Qed.

(* ================================================================== *)
(* BatchSemaphore::acquire (block_on), Mutex::lock, RwLock::read/write *)
(* ================================================================== *)
Definition new_waiter_block (oid : nat) (k : N) : afun :=
  fun e st => match on_sem oid st (fun s => sem_new_waiter e s k) with
              | Some (o, (s', wid)) => Some (e, set_obj st oid (with_sem o s'), [N.of_nat wid])
              | None => None end.
Definition poll_check (oid wid : nat) (never_polled : bool) (e : exec) (st : store) : option (exec * store * bool) :=
  match on_sem oid st (fun s => poll_needs_switch s wid never_polled) with
  | Some (_, b) => Some (e, st, b) | None => None end.
Definition poll_block (oid wid : nat) : afun :=
  fun e st =>
    match me e with
    | None => None
    | Some m =>
      match on_sem oid st (fun s => sem_poll e s wid m) with
      | Some (o, (e', s', r)) =>
        Some (e', set_obj st oid (with_sem o s'), [match r with PReadyOk => 0 | PReadyErr => 1 | PPending => 2 end]%N)
      | None => None
      end
    end.

Lemma acquire_blocking_unfold : forall oid k kont,
  acquire_blocking oid k kont =
  Atomic (new_waiter_block oid k)
    (fun a => match a with [w] => poll_loop POLL_FUEL oid (N.to_nat w) true kont | _ => Panic end).
Proof. reflexivity. Qed.
Lemma poll_loop_unfold : forall f oid wid np kont, exists retry,
  poll_loop (S f) oid wid np kont =
  atomic_b (poll_check oid wid np) (fun sw => switch_if sw (Atomic (poll_block oid wid) retry)).
Proof. intros. eexists. reflexivity. Qed.

(* Acquire::new: the execution state is untouched and, in the store, a record is appended to the table of this
   semaphore's waiters (the model's stand-in for allocating the Waiter): permits, queue, closed flag, fairness and every
   existing waiter record are unchanged *)
Theorem new_waiter_append_only : forall oid k e st e' st' a,
  new_waiter_block oid k e st = Some (e', st', a) ->
  e' = e /\ exists o s w, get_obj st oid = Some o /\ sem_of o = Some s
            /\ st' = set_obj st oid (with_sem o (set_wtab s (sm_wtab s ++ [w])))
            /\ wt_queued w = false /\ wt_has w = false /\ a = [N.of_nat (length (sm_wtab s))].
Proof.
  intros oid k e st e' st' a H. unfold new_waiter_block, on_sem in H.
  destruct (get_obj st oid) as [o|] eqn:G; [|discriminate]. destruct (sem_of o) as [s|] eqn:So; [|discriminate].
  unfold sem_new_waiter in H. destruct (me e) as [m|]; [|discriminate]. destruct (e_clock e m) as [c|]; [|discriminate].
  inversion H; subst. split; [reflexivity|]. exists o, s, (mkWaiter m k false false c None). repeat split; try reflexivity; assumption.
Qed.

Lemma poll_check_readonly : forall oid wid np, readonly (lift_b (poll_check oid wid np)).
Proof.
  intros. apply lift_b_readonly. intros e s e' s' b H. unfold poll_check in H.
  destruct (on_sem oid s _) as [[o b0]|]; [|discriminate]. inversion H; auto.
Qed.

(* THE OMITTED SCHEDULING POINT OF acquire: when the first poll is not preceded by a Switch (poll_check answered false
   with never_polled = true), that poll, run in the same state, cannot succeed: it returns Pending (the caller is
   enqueued and then suspends) or panics.  So the only poll that is not preceded by a scheduling point is a blocking one. *)
Theorem unswitched_poll_blocks : forall oid wid e st e1 st1 e2 st2 a,
  poll_check oid wid true e st = Some (e1, st1, false) ->
  poll_block oid wid e1 st1 = Some (e2, st2, a) -> a = [2%N].
Proof.
  intros oid wid e st e1 st1 e2 st2 a Hc Hp. unfold poll_check, on_sem in Hc.
  destruct (get_obj st oid) as [o|] eqn:G; [|discriminate]. destruct (sem_of o) as [s|] eqn:So; [|discriminate].
  unfold poll_needs_switch in Hc. destruct (get_waiter s wid) as [w|] eqn:Gw; [|discriminate].
  inversion Hc; subst e1 st1. clear Hc. rename H2 into Hb. cbn [andb] in Hb.
  apply orb_false_iff in Hb. destruct Hb as [Hb Hfair]. apply orb_false_iff in Hb. destruct Hb as [Hb Hav].
  apply orb_false_iff in Hb. destruct Hb as [Hhas Hcl].
  unfold poll_block, on_sem in Hp. destruct (me e) as [m|] eqn:Hm; [|discriminate]. rewrite G, So in Hp.
  unfold sem_poll in Hp. rewrite Gw, Hm, Hhas, Hcl, Hfair in Hp. cbn [andb] in Hp.
  destruct (negb (Bool.eqb (wt_queued w) _)); [discriminate|].
  unfold acquire_permits in Hp. destruct (N.eqb (wt_n w) 0) eqn:Hz; [discriminate|]. rewrite Hcl, Hfair in Hp.
  rewrite orb_true_r in Hp. rewrite Hm in Hp. destruct (e_clock e m) as [mc|]; [|discriminate].
  unfold permits_acquire in Hp. rewrite Hz, Hav in Hp.
  destruct (wt_queued w).
  - inversion Hp; reflexivity.
  - destruct (enqueue_waiter _ wid); [|discriminate]. inversion Hp; reflexivity.
Qed.

Definition mutex_check (oid : nat) (e : exec) (st : store) : option (exec * store * bool) :=
  match me e, get_obj st oid with
  | Some m, Some (OMutex h s p) =>
    if sm_closed s then Some (e, st, true)
    else match h with
         | Some h' => if Nat.eqb h' m then None else Some (e, st, false)
         | None => Some (e, st, false)
         end
  | _, _ => None
  end.
Lemma mutex_lock_code_unfold : forall oid kont,
  let finish := atomic_b (fun e st => mutex_set_holder e st oid) (fun p => kont (if p then LkPoisoned else LkOk)) in
  mutex_lock_code oid kont =
  atomic_b (mutex_check oid)
    (fun closed => if closed then Switch finish
                   else acquire_blocking oid 1 (fun ok => if ok then finish else Panic)).
Proof. reflexivity. Qed.
Lemma mutex_check_readonly : forall oid, readonly (lift_b (mutex_check oid)).
Proof.
  intros. apply lift_b_readonly. intros e s e' s' b H. unfold mutex_check in H.
  destruct (me e) as [m|]; [|discriminate]. destruct (get_obj s oid) as [[]|]; try discriminate.
  destruct (sm_closed s0); [inversion H; auto|].
  destruct holder as [h'|]; [destruct (Nat.eqb h' m); [discriminate|]|]; inversion H; auto.
Qed.

Definition rw_check (oid : nat) (e : exec) (st : store) : option (exec * store * bool) :=
  match me e, get_obj st oid with
  | Some m, Some (ORwLock w rs s p) =>
    if sm_closed s then Some (e, st, true)
    else if (match w with Some w' => Nat.eqb w' m | None => false end) || existsb (Nat.eqb m) rs then None
    else Some (e, st, false)
  | _, _ => None
  end.
Lemma rw_lock_code_unfold : forall oid write kont,
  let finish := atomic_b (fun e st => rw_take e st oid write) (fun p => kont (if p then LkPoisoned else LkOk)) in
  rw_lock_code oid write kont =
  atomic_b (rw_check oid)
    (fun closed => if closed then Switch finish
                   else acquire_blocking oid (rw_permits write) (fun ok => if ok then finish else Panic)).
Proof. reflexivity. Qed.
Lemma rw_check_readonly : forall oid, readonly (lift_b (rw_check oid)).
Proof.
  intros. apply lift_b_readonly. intros e s e' s' b H. unfold rw_check in H.
  destruct (me e) as [m|]; [|discriminate]. destruct (get_obj s oid) as [[]|]; try discriminate.
  destruct (sm_closed s0); [inversion H; auto|].
  destruct (_ || _); [discriminate|]. inversion H; auto.
Qed.

(* ================================================================== *)
(* Barrier::wait                                                       *)
(* ================================================================== *)
Definition barrier_check (b : nat) (e : exec) (st : store) : option (exec * store * bool) :=
  match barrier_will_block st b with Some wb => Some (e, st, wb) | None => None end.
Definition barrier_arrive_block (b : nat) : afun :=
  fun e st => match barrier_arrive e st b with
              | Some (e', st', ep, blocked) => Some (e', st', [N.of_nat ep; b2n blocked]) | None => None end.
Lemma barrier_wait_code_unfold : forall b kont, exists kk,
  barrier_wait_code b kont =
  atomic_b (barrier_check b) (fun wb => switch_if (negb wb) (Atomic (barrier_arrive_block b) kk)).
Proof. intros. eexists. reflexivity. Qed.
Lemma barrier_check_readonly : forall b, readonly (lift_b (barrier_check b)).
Proof.
  intros. apply lift_b_readonly. intros e s e' s' wb H. unfold barrier_check in H.
  destruct (barrier_will_block s b); [|discriminate]. inversion H; auto.
Qed.
(* THE OMITTED SCHEDULING POINT OF Barrier::wait: the arrival is not preceded by a Switch only when the check said the
   caller will block; the arrival, run in the same state, then does block the caller *)
Theorem unswitched_arrival_blocks : forall b e st e1 st1 e2 st2 a,
  barrier_check b e st = Some (e1, st1, true) ->
  barrier_arrive_block b e1 st1 = Some (e2, st2, a) -> exists ep, a = [ep; 1%N].
Proof.
  intros b e st e1 st1 e2 st2 a Hc Ha. unfold barrier_check, barrier_will_block in Hc.
  destruct (get_obj st b) as [[]|] eqn:G; try discriminate. inversion Hc; subst e1 st1. rename H2 into Hlt.
  unfold barrier_arrive_block, barrier_arrive in Ha. destruct (me e) as [m|]; [|discriminate]. rewrite G in Ha.
  destruct (e_increment_clock e m) as [e1'|]; [|discriminate]. destruct (e_clock e1' m) as [mc|]; [|discriminate].
  destruct (existsb (Nat.eqb m) waiters); [discriminate|].
  rewrite app_length in Ha. cbn [length] in Ha. rewrite Nat.add_1_r in Ha. rewrite Hlt in Ha.
  destruct (e_block e1' m false); [|discriminate]. inversion Ha. eexists; reflexivity.
Qed.

(* ================================================================== *)
(* Once::call_once, JoinHandle::poll (await), handle drop, is_finished *)
(* ================================================================== *)
Lemma call_once_code_unfold : forall o mx body kont, exists kk,
  call_once_code o mx body kont = atomic_b (fun e st => once_enter e st o) kk /\ kk false = kont.
Proof. intros. eexists. split; reflexivity. Qed.

(* a two-task execution state in which task 0 runs *)
Definition tk0 : task := mkTask Runnable false false false false None [0%N; 0%N].
Definition ex2 : exec := mkExec [tk0; tk0] (SSome 0) SNone false 0 0 [0; 1] [] false false.

(* call_once's entry block runs with no scheduling point before it and changes the Once's state *)
Lemma once_enter_writes : forall o, writes_store (lift_b (fun e st => once_enter e st o)).
Proof.
  intros o. exists ex2, (repeat (OCell [] []) o ++ [OOnce OnNone false 0]).
  assert (G : forall l, get_obj (repeat (OCell [] []) o ++ l) o = nth_error l 0).
  { intros l. unfold get_obj. rewrite nth_error_app2; rewrite repeat_length; [|lia]. rewrite Nat.sub_diag. reflexivity. }
  unfold lift_b, once_enter. cbn [me ex2 current sched_id]. rewrite G. cbn [nth_error].
  do 3 eexists. split; [reflexivity|].
  intros E. apply (f_equal (fun s => get_obj s o)) in E. rewrite G in E. cbn [nth_error] in E.
  assert (G2 : forall l x, get_obj (set_obj (repeat (OCell [] []) o ++ l) o x) o = match l with [] => None | _ => Some x end).
  { clear. induction o as [|o IH]; intros l x; cbn [repeat app].
    - destruct l; reflexivity.
    - cbn [set_obj get_obj nth_error]. apply IH. }
  rewrite G2 in E. discriminate.
Qed.
(* and it observes it: on a completed Once the whole call runs without any scheduling point *)
Lemma once_enter_observes : observes_store (lift_b (fun e st => once_enter e st 0)).
Proof.
  exists ex2, [OOnce OnNone false 1], [OOnce (OnComplete []) true 1].
  do 2 eexists. split; [vm_compute; reflexivity|]. split; [vm_compute; reflexivity|]. cbn. discriminate.
Qed.

Definition join_poll_block (jt target : nat) : afun :=
  fun e st => match join_poll e st jt target with
              | Some (e', st', Some (Some v)) => Some (e', st', [0%N; v])
              | Some (e', st', Some None) => Some (e', st', [1%N])
              | Some (e', st', None) => Some (e', st', [2%N])
              | None => None end.
Lemma await_join_unfold : forall f ctx jt target oa kont, exists kk,
  await_join (S f) ctx jt target oa kont = Atomic (join_poll_block jt target) kk.
Proof. intros. eexists. reflexivity. Qed.
(* JoinHandle::poll is not preceded by a scheduling point; it reads the result slot that the target's finish writes, and
   stores the caller's waker *)
Lemma join_poll_writes : writes_store (join_poll_block 0 1).
Proof.
  exists ex2, [OJoins [(1, mkJoin None None false)]]. do 3 eexists. split; [vm_compute; reflexivity|]. discriminate.
Qed.
Lemma join_poll_observes : observes_store (join_poll_block 0 1).
Proof.
  exists ex2, [OJoins [(1, mkJoin None None false)]], [OJoins [(1, mkJoin (Some (Some 5%N)) None false)]].
  do 2 eexists. split; [vm_compute; reflexivity|]. split; [vm_compute; reflexivity|]. cbn. discriminate.
Qed.

(* Drop for JoinHandle sets the detached flag of ANOTHER task with no scheduling point *)
Lemma detach_writes_other_task : writes_other_task (lift_u (fun e st => detach_handle e st 1)).
Proof.
  exists ex2, [], (with_tasks ex2 [tk0; set_detached tk0 true]), [], [], 0, 1.
  split; [reflexivity|]. split; [discriminate|]. split; [vm_compute; reflexivity|]. vm_compute. discriminate.
Qed.
(* JoinHandle::is_finished reads ANOTHER task's state with no scheduling point *)
Lemma is_finished_observes_other_task : observes_other_task (lift_b (fun e st => is_finished_handle e st 1)).
Proof.
  exists ex2, (with_tasks ex2 [tk0; set_state tk0 Finished]), [], 0. do 2 eexists.
  split; [reflexivity|]. split; [reflexivity|]. split; [reflexivity|].
  split; [vm_compute; reflexivity|]. split; [vm_compute; reflexivity|]. cbn. discriminate.
Qed.

(* Scope::spawn increments the scope's running-threads counter before the spawn's Switch *)
Definition scope_incr (z : nat) (e : exec) (st : store) : option (exec * store) :=
  match scope_get st z with
  | Some (rn, m, w) => Some (e, set_obj st z (OScope (S rn) m w))
  | None => None end.
Lemma scope_incr_writes : writes_store (lift_u (scope_incr 0)).
Proof.
  exists ex2, [OScope 0 0 false]. do 3 eexists. split; [vm_compute; reflexivity|]. discriminate.
Qed.

(* ================================================================== *)
(* the harness's endpoint-liveness check in front of channel operations *)
(* ================================================================== *)
Definition alive_check (ch slot : nat) (e : exec) (st : store) : option (exec * store * bool) :=
  Some (e, st, endpoint_alive st ch slot).
Lemma alive_check_readonly : forall ch slot, readonly (lift_b (alive_check ch slot)).
Proof. intros. apply lift_b_readonly. intros e s e' s' b H. inversion H; auto. Qed.

(* drop_guards: each guard is dropped by a read-only lookup followed by an unlock, which starts with a Switch *)
Lemma drop_guards_placement : forall logit gs k (X : code -> Prop), X k -> pre_switch quiet X (drop_guards logit gs k).
Proof.
  intros logit gs k X Hk. destruct gs as [|[o w] r]; cbn [drop_guards]; [apply ps_exit; exact Hk|].
  apply ps_atomic.
  - apply readonly_quiet. intros e s e' s' a H. destruct (get_obj s o) as [[]|]; try discriminate; inversion H; auto.
  - intros a. destruct a as [|[|p] [|? ?]]; try apply ps_switch.
Qed.

(* ================================================================== *)
(* the operations of Lang/Prog.v: the tree `comp` builds for o :: r     *)
(* ================================================================== *)
Section Comp.
Variables (fu jt : nat) (bodies : list (list op)) (b : nat) (ctx : pctx)
          (fin : list (nat * bool) -> list nat -> code) (outer : list (nat * bool)).
Notation CODE := (comp (S fu) jt bodies b ctx fin outer).

Lemma comp_PSpawn : forall j r, nth b bodies [] = PSpawn j :: r ->
  exists child k, CODE = Switch (SpawnNow child k).
Proof. intros j r H. cbn [comp]. rewrite H. do 2 eexists. reflexivity. Qed.
Lemma comp_PASpawn : forall j r, nth b bodies [] = PASpawn j :: r ->
  exists child k, CODE = Switch (SpawnNow child k).
Proof. intros j r H. cbn [comp]. rewrite H. do 2 eexists. reflexivity. Qed.
Lemma comp_PIsCompleted : forall o r, nth b bodies [] = PIsCompleted o :: r -> starts_with_switch CODE.
Proof. intros o r H. cbn [comp]. rewrite H. eexists. reflexivity. Qed.
Lemma comp_PYield : forall r, nth b bodies [] = PYield :: r -> exists k, CODE = yield_code k.
Proof. intros r H. cbn [comp]. rewrite H. eexists. reflexivity. Qed.
Lemma comp_PPark : forall r, nth b bodies [] = PPark :: r -> exists k, CODE = park_code k.
Proof. intros r H. cbn [comp]. rewrite H. eexists. reflexivity. Qed.
Lemma comp_PUnparkT : forall t r, nth b bodies [] = PUnparkT t :: r -> starts_with_switch CODE.
Proof. intros t r H. cbn [comp]. rewrite H. eexists. reflexivity. Qed.
Lemma comp_PRand : forall r, nth b bodies [] = PRand :: r -> exists k, CODE = Rand k.
Proof. intros r H. cbn [comp]. rewrite H. eexists. reflexivity. Qed.
Lemma comp_PAtomic : forall a o r, nth b bodies [] = PAtomic a o :: r -> starts_with_switch CODE.
Proof. intros a o r H. cbn [comp]. rewrite H. eexists. reflexivity. Qed.
Lemma comp_PResetSteps : forall r, nth b bodies [] = PResetSteps :: r ->
  exists k, CODE = atomic_u (fun e s => Some (e_reset_step_count e, s)) (Log TAG_RESET [] k)
  /\ quiet (lift_u (fun e s => Some (e_reset_step_count e, s))).
Proof.
  intros r H. cbn [comp]. rewrite H. eexists. split; [reflexivity|].
  apply lift_u_quiet. intros e s e' s' E. inversion E; subst. split; [reflexivity|]. intros m _. apply os_tasks. reflexivity.
Qed.
Lemma comp_PPanic : forall r, nth b bodies [] = PPanic :: r -> reaches_switch_before_store CODE.
Proof.
  intros r H. cbn [comp]. rewrite H. apply ps_atomic_u.
  - apply lift_u_quiet. intros e s e' s' E. inversion E; subst. split; [reflexivity|]. intros m _. apply os_tasks. reflexivity.
  - clear H. generalize ([] ++ outer : list (nat * bool)). intros gs. induction gs as [|[o w] g IH]; cbn [drop_guards]; [apply ps_panic|].
    apply ps_atomic.
    + apply readonly_quiet. intros e s e' s' a E. destruct (get_obj s o) as [[]|]; try discriminate; inversion E; auto.
    + intros a. destruct a as [|[|p] [|? ?]]; try apply ps_switch.
Qed.
Lemma comp_PSemAcq : forall o n r, nth b bodies [] = PSemAcq o n :: r -> exists k, CODE = acquire_blocking o n k.
Proof. intros o n r H. cbn [comp]. rewrite H. eexists. reflexivity. Qed.
Lemma comp_PSemTry : forall o n r, nth b bodies [] = PSemTry o n :: r -> starts_with_switch CODE.
Proof. intros o n r H. cbn [comp]. rewrite H. eexists. reflexivity. Qed.
Lemma comp_PSemRel : forall o n r, nth b bodies [] = PSemRel o n :: r -> starts_with_switch CODE.
Proof. intros o n r H. cbn [comp]. rewrite H. eexists. reflexivity. Qed.
Lemma comp_PSemClose : forall o r, nth b bodies [] = PSemClose o :: r -> starts_with_switch CODE.
Proof. intros o r H. cbn [comp]. rewrite H. eexists. reflexivity. Qed.

Definition sem_avail_block (o : nat) : afun :=
  fun e st => match get_obj st o with
              | Some ob => match sem_of ob with
                           | Some sm => Some (e, st, [sm_avail sm; b2n (sm_closed sm)])
                           | None => None end
              | None => None end.
(* REFUTED (known finding): available_permits()/is_closed() read the semaphore with no scheduling point since the
   caller's previous operation, and the value read is the operation's result *)
Theorem comp_PSemAvail_refuted : forall o r, nth b bodies [] = PSemAvail o :: r ->
  exists k, CODE = Atomic (sem_avail_block o) (fun a => Log TAG_SEMAVAIL a (k a)).
Proof. intros o r H. cbn [comp]. rewrite H. eexists (fun _ => _). reflexivity. Qed.

Lemma comp_PLock : forall o r, nth b bodies [] = PLock o :: r -> exists k, CODE = mutex_lock_code o k.
Proof. intros o r H. cbn [comp]. rewrite H. eexists. reflexivity. Qed.
Lemma comp_PTryLock : forall o r, nth b bodies [] = PTryLock o :: r -> starts_with_switch CODE.
Proof. intros o r H. cbn [comp]. rewrite H. eexists. reflexivity. Qed.
Lemma comp_PRwLock : forall o w r, nth b bodies [] = PRwLock o w :: r -> exists k, CODE = rw_lock_code o w k.
Proof. intros o w r H. cbn [comp]. rewrite H. eexists. reflexivity. Qed.
Lemma comp_PRwTry : forall o w r, nth b bodies [] = PRwTry o w :: r -> starts_with_switch CODE.
Proof. intros o w r H. cbn [comp]. rewrite H. eexists. reflexivity. Qed.
Lemma comp_PCvNotify : forall cv all r, nth b bodies [] = PCvNotify cv all :: r -> starts_with_switch CODE.
Proof. intros cv all r H. cbn [comp]. rewrite H. eexists. reflexivity. Qed.
(* PUnlock / PRwUnlock / PCvWait / PUnparkH / PAwait / PAbort / PDetach / PIsFinished on a first operation have no guard or
   handle yet (the tree is Panic); their library code is classified above (mutex_unlock_code_switch, ...) *)

Lemma comp_PSend : forall ch slot v r, nth b bodies [] = PSend ch slot v :: r ->
  reaches_switch_before_store CODE.
Proof.
  intros ch slot v r H. cbn [comp]. rewrite H. apply (ps_atomic_b quiet _ (alive_check ch slot)).
  - apply readonly_quiet, alive_check_readonly.
  - intros [|]; [apply ps_switch|apply ps_panic].
Qed.
Lemma comp_PTrySend : forall ch slot v r, nth b bodies [] = PTrySend ch slot v :: r ->
  reaches_switch_before_store CODE.
Proof.
  intros ch slot v r H. cbn [comp]. rewrite H. apply (ps_atomic_b quiet _ (alive_check ch slot)).
  - apply readonly_quiet, alive_check_readonly.
  - intros [|]; [apply ps_switch|apply ps_panic].
Qed.
Lemma comp_PRecv : forall ch r, nth b bodies [] = PRecv ch :: r -> reaches_switch_before_store CODE.
Proof.
  intros ch r H. cbn [comp]. rewrite H. apply (ps_atomic_b quiet _ (alive_check ch RX_SLOT)).
  - apply readonly_quiet, alive_check_readonly.
  - intros [|]; [apply ps_switch|apply ps_panic].
Qed.
Lemma comp_PTryRecv : forall ch r, nth b bodies [] = PTryRecv ch :: r -> reaches_switch_before_store CODE.
Proof.
  intros ch r H. cbn [comp]. rewrite H. apply (ps_atomic_b quiet _ (alive_check ch RX_SLOT)).
  - apply readonly_quiet, alive_check_readonly.
  - intros [|]; [apply ps_switch|apply ps_panic].
Qed.

(* REFUTED (known finding): the drop of a channel endpoint updates the channel (sender / receiver count, wake-ups) with no
   scheduling point since the caller's previous operation: the tree has no Switch node before that block *)
Theorem comp_PDropTx_refuted : forall ch slot r, nth b bodies [] = PDropTx ch slot :: r ->
  exists k, CODE = atomic_b (alive_check ch slot)
                     (fun alive => if alive then atomic_u (fun e st => chan_drop_tx e (endpoint_kill st ch slot) ch) k else Panic).
Proof. intros ch slot r H. cbn [comp]. rewrite H. eexists. reflexivity. Qed.
Theorem comp_PDropRx_refuted : forall ch r, nth b bodies [] = PDropRx ch :: r ->
  exists k, CODE = atomic_b (alive_check ch RX_SLOT)
                     (fun alive => if alive then atomic_u (fun e st => chan_drop_rx e (endpoint_kill st ch RX_SLOT) ch) k else Panic).
Proof. intros ch r H. cbn [comp]. rewrite H. eexists. reflexivity. Qed.

Lemma comp_PBarrier : forall o r, nth b bodies [] = PBarrier o :: r -> exists k, CODE = barrier_wait_code o k.
Proof. intros o r H. cbn [comp]. rewrite H. eexists. reflexivity. Qed.
Lemma comp_PCallOnce : forall o j r, nth b bodies [] = PCallOnce o j :: r ->
  exists f kk, CODE = Atomic f kk /\ readonly f
    /\ forall mx, exists body kont, kk [mx] = call_once_code o (N.to_nat mx) body kont.
Proof.
  intros o j r H. cbn [comp]. rewrite H. do 2 eexists. split; [reflexivity|]. split.
  - intros e s e' s' a E. destruct (once_mutex s o); [|discriminate]. inversion E; auto.
  - intros mx. do 2 eexists. reflexivity.
Qed.
Lemma comp_PAYield : forall r, nth b bodies [] = PAYield :: r -> reaches_switch_before_store CODE.
Proof. intros r H. cbn [comp]. rewrite H. apply await_yield_placement. Qed.
Lemma comp_PBlockOn : forall j r, nth b bodies [] = PBlockOn j :: r -> exists k, CODE = Log TAG_BLOCKON [N.of_nat j] k.
Proof. intros j r H. cbn [comp]. rewrite H. eexists. reflexivity. Qed.
Lemma comp_PTlsWith : forall key add r, nth b bodies [] = PTlsWith key add :: r -> exists f k, CODE = Atomic f k.
Proof. intros key add r H. cbn [comp]. rewrite H. do 2 eexists. reflexivity. Qed.
Lemma comp_PThreadId : forall r, nth b bodies [] = PThreadId :: r -> exists f k, CODE = Atomic f k /\ readonly f.
Proof.
  intros r H. cbn [comp]. rewrite H. do 2 eexists. split; [reflexivity|].
  intros e s e' s' a E. destruct (me e); [|discriminate]. inversion E; auto.
Qed.
Lemma comp_PScope : forall z j r, nth b bodies [] = PScope z j :: r -> exists f k, CODE = atomic_u f k.
Proof. intros z j r H. cbn [comp]. rewrite H. do 2 eexists. reflexivity. Qed.
Lemma comp_PScopeSpawn : forall z j r, nth b bodies [] = PScopeSpawn z j :: r ->
  exists child k, CODE = atomic_u (scope_incr z) (Switch (SpawnNow child k)).
Proof. intros z j r H. cbn [comp]. rewrite H. do 2 eexists. reflexivity. Qed.
End Comp.

(* the two refuted blocks do touch shared state *)
Lemma sem_avail_observes : observes_store (sem_avail_block 0).
Proof.
  exists ex2, [OSem (sem_const_new 1 false)], [OSem (sem_const_new 2 false)]. do 2 eexists.
  split; [vm_compute; reflexivity|]. split; [vm_compute; reflexivity|]. cbn. discriminate.
Qed.
Lemma sem_avail_readonly : forall o, readonly (sem_avail_block o).
Proof.
  intros o e s e' s' a H. unfold sem_avail_block in H. destruct (get_obj s o) as [ob|]; [|discriminate].
  destruct (sem_of ob); [|discriminate]. inversion H; auto.
Qed.
Lemma drop_tx_writes : writes_store (lift_u (fun e st => chan_drop_tx e (endpoint_kill st 0 0) 0)).
Proof.
  exists ex2, [OChan (chan_new None); OCell [1; 1; 1; 1]%N []]. do 3 eexists. split; [vm_compute; reflexivity|]. discriminate.
Qed.
Lemma drop_rx_writes : writes_store (lift_u (fun e st => chan_drop_rx e (endpoint_kill st 0 RX_SLOT) 0)).
Proof.
  exists ex2, [OChan (chan_new None); OCell [1; 1; 1; 1]%N []]. do 3 eexists. split; [vm_compute; reflexivity|]. discriminate.
Qed.
(* KNOWN FINDING F5d: the arrival at a barrier that is not preceded by a Switch (the caller will block) writes the barrier's
   waiter set, and the waiter set decides which later arrival completes the group and is the leader: with a waiter already
   registered the same arrival completes the group (result blocked = 0), without it the caller blocks (result blocked = 1).
   So a blocking arrival does not commute with the other arrivals, and the omitted scheduling point loses outcomes that
   differ in is_leader(). *)
Lemma barrier_blocking_arrival_writes : writes_store (barrier_arrive_block 0).
Proof.
  exists ex2, [OBarrier 2 0 [] [] []]. do 3 eexists. split; [vm_compute; reflexivity|]. discriminate.
Qed.
Lemma barrier_arrival_order_observable :
  (exists e' s' ep, barrier_arrive_block 0 ex2 [OBarrier 2 0 [] [] []] = Some (e', s', [ep; 1%N]))
  /\ (exists e' s' ep, barrier_arrive_block 0 ex2 [OBarrier 2 0 [1] [] []] = Some (e', s', [ep; 0%N])).
Proof. split; do 3 eexists; vm_compute; reflexivity. Qed.
(* dropping the last sender wakes a blocked receiver: another task's state changes too *)
Lemma drop_tx_writes_other_task : writes_other_task (lift_u (fun e st => chan_drop_tx e (endpoint_kill st 0 0) 0)).
Proof.
  exists (with_tasks ex2 [tk0; set_state tk0 (Blocked false)]),
         [OChan (set_wrecv (chan_new None) [1]); OCell [1; 1; 1; 1]%N []].
  do 3 eexists. exists 0, 1. split; [reflexivity|]. split; [discriminate|]. split; [vm_compute; reflexivity|].
  vm_compute. discriminate.
Qed.

(* ================================================================== *)
(* summary over `op` (first operation of a body: `go` starts with no handles and no guards, so operations that need a
   handle or a guard compile to Panic there; their library code is classified by the *_switch lemmas above)            *)
(* ================================================================== *)
Definition op_switch_first (o : op) : bool :=
  match o with
  | PSpawn _ | PASpawn _ | PIsCompleted _ | PUnparkT _ | PAtomic _ _ | PSemTry _ _ | PSemRel _ _ | PSemClose _
  | PTryLock _ | PRwTry _ _ | PCvNotify _ _ => true
  | _ => false
  end.
Definition op_quiet_until_switch (o : op) : bool :=
  op_switch_first o ||
  match o with
  | PYield | PPanic | PSend _ _ _ | PTrySend _ _ _ | PRecv _ | PTryRecv _ | PAYield => true
  | _ => false
  end.

Theorem op_switch_first_correct : forall fu jt bodies b ctx fin outer o r,
  nth b bodies [] = o :: r -> op_switch_first o = true ->
  starts_with_switch (comp (S fu) jt bodies b ctx fin outer).
Proof.
  intros fu jt bodies b ctx fin outer o r H Hc. destruct o; try discriminate Hc.
  - destruct (comp_PSpawn fu jt bodies b ctx fin outer _ _ H) as (c & k & ->). eexists; reflexivity.
  - eapply comp_PUnparkT; eauto.
  - eapply comp_PAtomic; eauto.
  - eapply comp_PSemTry; eauto.
  - eapply comp_PSemRel; eauto.
  - eapply comp_PSemClose; eauto.
  - eapply comp_PTryLock; eauto.
  - eapply comp_PRwTry; eauto.
  - eapply comp_PCvNotify; eauto.
  - eapply comp_PIsCompleted; eauto.
  - destruct (comp_PASpawn fu jt bodies b ctx fin outer _ _ H) as (c & k & ->). eexists; reflexivity.
Qed.

Theorem op_quiet_until_switch_correct : forall fu jt bodies b ctx fin outer o r,
  nth b bodies [] = o :: r -> op_quiet_until_switch o = true ->
  reaches_switch_before_store (comp (S fu) jt bodies b ctx fin outer).
Proof.
  intros fu jt bodies b ctx fin outer o r H Hc. unfold op_quiet_until_switch in Hc.
  destruct (op_switch_first o) eqn:Hs.
  { apply starts_pre_switch. eapply op_switch_first_correct; eauto. }
  cbn [orb] in Hc. destruct o; try discriminate Hc.
  - destruct (comp_PYield fu jt bodies b ctx fin outer _ H) as (k & ->). apply yield_code_placement.
  - eapply comp_PPanic; eauto.
  - eapply comp_PSend; eauto.
  - eapply comp_PTrySend; eauto.
  - eapply comp_PRecv; eauto.
  - eapply comp_PTryRecv; eauto.
  - eapply comp_PAYield; eauto.
Qed.

(* the library operations that begin with thread::switch(), in one statement *)
Theorem library_switch_first :
  (forall a ty o k, starts_with_switch (atomic_code a ty o k))
  /\ (forall t k, starts_with_switch (unpark_code t k))
  /\ (forall o n k, starts_with_switch (sem_try_code o n k))
  /\ (forall o n k, starts_with_switch (sem_release_code o n k))
  /\ (forall o k, starts_with_switch (sem_close_code o k))
  /\ (forall o k, starts_with_switch (mutex_try_lock_code o k))
  /\ (forall o k, starts_with_switch (mutex_unlock_code o k))
  /\ (forall o w k, starts_with_switch (rw_try_code o w k))
  /\ (forall o w k, starts_with_switch (rw_unlock_code o w k))
  /\ (forall cv m k, starts_with_switch (cv_wait_code cv m k))
  /\ (forall cv all k, starts_with_switch (cv_notify_code cv all k))
  /\ (forall ch v cb k, starts_with_switch (chan_send_code ch v cb k))
  /\ (forall ch cb k, starts_with_switch (chan_recv_code ch cb k))
  /\ (forall jt t k, starts_with_switch (abort_code jt t k)).
Proof.
  repeat split; intros; eexists; reflexivity.
Qed.
