(* C02, part A: the runtime never withholds a choice (schedule-tree completeness, segment level).

   A1  at every decision the offered list is exactly the runnable tasks of the ghost pre-state, without duplicates
       (offered_exact_nodup); whatever offered task the scheduler answers, `schedule` accepts it, records the decision and
       makes that task the next one to run (any_offered_accepted, decision_any_choice); the scripted scheduler of
       Lang/Prog.v can be made to answer any element of any offered list (scripted_chooser).
   A2  prefix determinism (lockstep, lockstep_scripted): a run is a function of the scheduler's answers.  Two scheduler
       states that are bisimilar for n decisions produce identical executions up to the (n+1)-th consultation, which
       happens in the same state with the same offered list.  For the scripted scheduler: two scripts with a common
       prefix of length n.  Script completeness (script_completeness): at any decision i of any run of the scripted
       scheduler, for any task t' offered there, a script that agrees with the original one on its first i entries
       yields a run with the same trace up to that decision, at which t' is chosen instead; t' then runs
       (script_completeness_runs, with C08_chosen_runs).  script_padding / script_completeness_any remove the condition
       i <= length of the script (an exhausted script behaves like one padded with `Some 0`).
   No code_ok / well-formedness hypothesis is needed for A2: it is pure determinism of run_seg / run_loop.
   No Admitted / Axiom. *)
From Coq Require Import List NArith Bool Arith Lia.
From SV Require Import Clock.VClock Prim.Objects Engine.Exec Engine.Inv Sched.Replay Engine.Stmt Lang.Prog
  Proofs.EngineBase Proofs.SchedSpec Proofs.EngineInv Proofs.EngineRun Proofs.EngineProofs Proofs.BoundProofs.
Import ListNotations.
Local Open Scope nat_scope.

(* ================================================================== *)
(* counting decisions                                                  *)
(* ================================================================== *)
Definition ndec (tr : list event) : nat := length (decisions tr).

Lemma decisions_app : forall a b, decisions (a ++ b) = decisions a ++ decisions b.
Proof. intros a b. unfold decisions. apply filter_app. Qed.
Lemma ndec_app : forall a b, ndec (a ++ b) = ndec a + ndec b.
Proof. intros a b. unfold ndec. rewrite decisions_app, app_length. reflexivity. Qed.
Lemma decisions_rev : forall l, decisions (rev l) = rev (decisions l).
Proof.
  induction l as [|ev r IH]; [reflexivity|]. cbn [rev]. rewrite decisions_app, IH.
  unfold decisions at 2 3. cbn [filter]. destruct (is_decision ev); cbn [rev app]; [reflexivity|]. rewrite app_nil_r. reflexivity.
Qed.
Lemma ndec_rev : forall l, ndec (rev l) = ndec l.
Proof. intros l. unfold ndec. rewrite decisions_rev, rev_length. reflexivity. Qed.

(* ================================================================== *)
(* A1                                                                  *)
(* ================================================================== *)
Lemma sa_nodup : forall l, strictly_ascending l -> NoDup l.
Proof.
  induction l as [|x r IH]; intros H; [constructor|]. apply sa_cons in H. destruct H as [Hlb Hr].
  constructor; [|apply IH; exact Hr]. intros Hin. specialize (Hlb x Hin). lia.
Qed.

Theorem offered_exact_nodup :
  forall SS (sch : scheduler SS) ms fuel main objs st w st' out, Run sch ms fuel main objs st w st' out ->
  forall pre off cur y ch, In (EvDecision pre off cur y ch) (w_trace w) ->
    WF pre /\ off = offered_of pre /\ offered_ok pre off /\ NoDup off
    /\ (forall t, In t off <-> exists tk, get_task pre t = Some tk /\ (is_runnable tk = true \/ can_spur tk = true)).
Proof.
  intros SS sch ms fuel main objs st w st' out HR pre off cur y ch Hin.
  destruct (offered_proof _ _ _ _ _ _ _ _ _ _ HR _ _ _ _ _ Hin) as (W & Ok & ->).
  split; [exact W|]. split; [reflexivity|]. split; [exact Ok|]. split.
  - apply sa_nodup. apply offered_ascending; exact W.
  - intros t. apply offered_in_wf; exact W.
Qed.

(* what is known of the state recorded with a decision: it is one in which `schedule` does consult the scheduler *)
Theorem decision_state :
  forall SS (sch : scheduler SS) ms fuel main objs st w st' out, Run sch ms fuel main objs st w st' out ->
  forall pre off cur y ch, In (EvDecision pre off cur y ch) (w_trace w) ->
    WF pre /\ next pre = SNone /\ below_bound ms pre /\ fin_cond pre = false
    /\ off = offered_of pre /\ cur = sched_id (current pre) /\ y = has_yielded pre.
Proof.
  intros SS sch ms fuel main objs st w st' out HR pre off cur y ch Hin.
  pose proof (run_dec _ _ _ _ _ _ _ _ _ _ HR _ Hin) as D. cbn [dec_ok] in D.
  destruct D as (W & Ho & Hy & Hn & Hc & Hb & Hf & _).
  exact (conj W (conj Hn (conj Hb (conj Hf (conj Ho (conj Hc Hy)))))).
Qed.

(* the runtime's reaction to an offered answer: accepted, the task becomes `next`, and is runnable *)
Lemma offered_choice_accepted : forall pre t, WF pre -> In t (offered_of pre) ->
  forall err e', choice_res pre (Some t) err e' ->
    err = None /\ next e' = SSome t /\ exists tk, get_task e' t = Some tk /\ is_runnable tk = true.
Proof.
  intros pre t W Hin err e' H. destruct err as [err|].
  - exfalso. destruct (choice_err _ _ _ _ H) as (-> & -> & _).
    exact (choice_bug_not_offered _ _ _ W H Hin).
  - split; [reflexivity|]. inversion H as [| t0 tk Hg Hr | t0 tk e1 Hg Hr Hs Hu |]; subst.
    + split; [reflexivity|]. exists tk. split; [exact Hg|exact Hr].
    + split; [reflexivity|]. rewrite (e_unblock_some _ _ _ Hg (can_spur_unfinished _ Hs)) in Hu. inversion Hu; subst.
      exists (unblock_task tk). split; [|apply unblock_runnable].
      exact (get_task_upd_eq pre t unblock_task tk Hg).
Qed.
Lemma offered_choice_exists : forall pre t, WF pre -> In t (offered_of pre) -> exists e', choice_res pre (Some t) None e'.
Proof.
  intros pre t W Hin. apply (offered_in_wf _ _ W) in Hin. destruct Hin as (tk & Hg & H).
  destruct (is_runnable tk) eqn:Hr.
  - eexists. eapply CR_run; eauto.
  - destruct H as [H|H]; [congruence|]. eexists. eapply CR_spur; eauto.
    apply (e_unblock_some _ _ _ Hg (can_spur_unfinished _ H)).
Qed.

(* ANY offered task can be chosen: in a state in which `schedule` consults the scheduler, whatever element of the offered
   list the scheduler (any scheduler, any state of it) answers, the call succeeds, records the decision, and the answered
   task is the one that runs next *)
Theorem any_offered_accepted : forall SS (sch : scheduler SS) ms e st t st',
  WF e -> next e = SNone -> below_bound ms e -> fin_cond e = false ->
  In t (offered_of (pre_of e)) ->
  s_next_task sch st (offered_of (pre_of e)) (sched_id (current e)) (has_yielded e) = (Some t, st') ->
  exists e', schedule sch ms e st
             = (None, e', st', [EvDecision (pre_of e) (offered_of (pre_of e)) (sched_id (current e)) (has_yielded e) (Some t)])
    /\ next e' = SSome t /\ current (advance e') = SSome t
    /\ exists tk, get_task (advance e') t = Some tk /\ is_runnable tk = true.
Proof.
  intros SS sch ms e st t st' W Hn Hb Hf Hin Hc.
  destruct (schedule sch ms e st) as [[[err e1] st1] evs] eqn:Hs. pose proof Hs as Hs'.
  apply schedule_spec in Hs'.
  inversion Hs' as [Hn' | n _ Hms Hle | n _ Hms Hle | _ _ Hf' | ch st0 err0 e0 _ _ _ Hc' R]; subst.
  - congruence.
  - exfalso. specialize (Hb n eq_refl). lia.
  - exfalso. specialize (Hb n eq_refl). lia.
  - congruence.
  - rewrite Hc in Hc'. inversion Hc'; subst ch st1.
    assert (Hin' : In t (offered_of (cons_of e))).
    { rewrite (offered_of_tasks_live (pre_of e) (cons_of e)) by reflexivity. exact Hin. }
    destruct (offered_choice_accepted _ _ (WF_cons_of _ W) Hin' _ _ R) as (-> & Hnx & tk & Hg & Hr).
    exists e1. split; [reflexivity|]. split; [exact Hnx|]. split; [rewrite advance_current; exact Hnx|].
    exists tk. split; [|exact Hr]. rewrite (get_task_tasks e1 (advance e1)); [exact Hg|apply advance_tasks].
Qed.

(* the same, at a decision recorded in a run: for every task t of the offered list, the runtime's reaction to the answer t
   in the recorded state (choice_res is what `schedule` does with the answer, SchedSpec.SR_dec) exists, is not an error,
   and makes t the next task *)
Theorem decision_any_choice :
  forall SS (sch : scheduler SS) ms fuel main objs st w st' out, Run sch ms fuel main objs st w st' out ->
  forall pre off cur y ch, In (EvDecision pre off cur y ch) (w_trace w) ->
  forall t, In t off ->
    (exists e', choice_res (with_yielded pre false) (Some t) None e')
    /\ forall err e', choice_res (with_yielded pre false) (Some t) err e' ->
         err = None /\ next e' = SSome t /\ exists tk, get_task e' t = Some tk /\ is_runnable tk = true.
Proof.
  intros SS sch ms fuel main objs st w st' out HR pre off cur y ch Hin t Ht.
  destruct (decision_state _ _ _ _ _ _ _ _ _ _ HR _ _ _ _ _ Hin) as (W & _ & _ & _ & -> & _).
  assert (W' : WF (with_yielded pre false)).
  { apply (WF_regs pre); auto; [exact (wf_reset _ W)|exact (wf_current _ W)|exact (wf_next _ W)]. }
  assert (Ht' : In t (offered_of (with_yielded pre false))).
  { rewrite (offered_of_tasks_live pre (with_yielded pre false)) by reflexivity. exact Ht. }
  split; [apply offered_choice_exists; assumption|]. intros err e'. apply offered_choice_accepted; assumption.
Qed.

(* a scheduler that answers a given offered task exists: the scripted scheduler, with the task's position as next entry *)
Theorem scripted_chooser : forall off t, In t off ->
  exists j, j < length off /\ nth_error off j = Some t /\
    forall rest rnd cur y,
      s_next_task scripted (mkScript (Some j :: rest) rnd) off cur y = (Some t, mkScript rest rnd).
Proof.
  intros off t Hin. apply In_nth_error in Hin. destruct Hin as [j Hj].
  assert (Hlt : j < length off) by (apply nth_error_Some; congruence).
  exists j. split; [exact Hlt|]. split; [exact Hj|]. intros rest rnd cur y.
  cbn [scripted s_next_task sc_script sc_rnd]. rewrite Nat.mod_small by exact Hlt. rewrite Hj. reflexivity.
Qed.

(* ================================================================== *)
(* A2: lockstep of two runs whose schedulers agree for n decisions      *)
(* ================================================================== *)
Section Lockstep.
Context {SS : Type} (sch : scheduler SS) (ms : max_steps).
(* R n a b: the scheduler states a and b give the same answers for the next n decisions (and the same random draws) *)
Variable R : nat -> SS -> SS -> Prop.
Hypothesis R_task : forall n a b off cur y, R (S n) a b ->
  fst (s_next_task sch a off cur y) = fst (s_next_task sch b off cur y)
  /\ R n (snd (s_next_task sch a off cur y)) (snd (s_next_task sch b off cur y)).
Hypothesis R_rand : forall n a b, R n a b ->
  fst (s_next_u64 sch a) = fst (s_next_u64 sch b) /\ R n (snd (s_next_u64 sch a)) (snd (s_next_u64 sch b)).

(* the two traces (newest first) share everything up to a consultation of the scheduler that happened in the same state
   with the same arguments, after exactly n common decisions since tr0; the answers may differ *)
Definition Div (n : nat) (tr0 tr1 tr2 : list event) : Prop :=
  exists common ext1 ext2 pre off cur y a1 a2,
    R 0 a1 a2
    /\ tr1 = ext1 ++ EvDecision pre off cur y (fst (s_next_task sch a1 off cur y)) :: common ++ tr0
    /\ tr2 = ext2 ++ EvDecision pre off cur y (fst (s_next_task sch a2 off cur y)) :: common ++ tr0
    /\ ndec common = n.

Definition res_sim {A} (n : nat) (tr0 : list event) (r1 r2 : world * SS * A) : Prop :=
  (fst (fst r1) = fst (fst r2) /\ snd r1 = snd r2
   /\ exists ext, w_trace (fst (fst r1)) = ext ++ tr0 /\ ndec ext <= n /\ R (n - ndec ext) (snd (fst r1)) (snd (fst r2)))
  \/ Div n tr0 (w_trace (fst (fst r1))) (w_trace (fst (fst r2))).

Lemma res_same_here : forall A n w st1 st2 (a : A), R n st1 st2 -> res_sim n (w_trace w) (w, st1, a) (w, st2, a).
Proof.
  intros A n w st1 st2 a H. left. cbn [fst snd]. split; [reflexivity|]. split; [reflexivity|].
  exists []. split; [reflexivity|]. cbn. split; [lia|]. rewrite Nat.sub_0_r. exact H.
Qed.

Lemma res_sim_shift : forall A n tr0 ext0 (r1 r2 : world * SS * A),
  ndec ext0 <= n -> res_sim (n - ndec ext0) (ext0 ++ tr0) r1 r2 -> res_sim n tr0 r1 r2.
Proof.
  intros A n tr0 ext0 r1 r2 Hle [(Hw & Ha & ext & Ht & Hn & HR)|(common & e1 & e2 & pre & off & cur & y & a1 & a2 & H0 & H1 & H2 & Hc)].
  - left. split; [exact Hw|]. split; [exact Ha|]. exists (ext ++ ext0). split; [rewrite Ht; apply app_assoc|].
    rewrite ndec_app. split; [lia|]. replace (n - (ndec ext + ndec ext0)) with (n - ndec ext0 - ndec ext) by lia. exact HR.
  - right. exists (common ++ ext0), e1, e2, pre, off, cur, y, a1, a2. split; [exact H0|].
    rewrite <- app_assoc. split; [exact H1|]. split; [exact H2|]. rewrite ndec_app. lia.
Qed.

Lemma res_div_ext : forall A n tr0 t1 t2 (r1 r2 : world * SS * A),
  Div n tr0 t1 t2 -> ext t1 (w_trace (fst (fst r1))) -> ext t2 (w_trace (fst (fst r2))) -> res_sim n tr0 r1 r2.
Proof.
  intros A n tr0 t1 t2 r1 r2 (common & e1 & e2 & pre & off & cur & y & a1 & a2 & H0 & H1 & H2 & Hc) [l1 E1] [l2 E2].
  right. exists common, (l1 ++ e1), (l2 ++ e2), pre, off, cur, y, a1, a2. split; [exact H0|].
  rewrite E1, E2, H1, H2, <- !app_assoc. repeat split; auto.
Qed.

(* ---- ExecutionState::schedule ---- *)
Lemma sched_sim : forall n e st1 st2, R n st1 st2 ->
  forall err1 e1 s1 evs1 err2 e2 s2 evs2,
  schedule sch ms e st1 = (err1, e1, s1, evs1) -> schedule sch ms e st2 = (err2, e2, s2, evs2) ->
  (err1 = err2 /\ e1 = e2 /\ evs1 = evs2 /\ ndec evs1 <= n /\ R (n - ndec evs1) s1 s2)
  \/ (n = 0 /\ exists pre off cur y,
        evs1 = [EvDecision pre off cur y (fst (s_next_task sch st1 off cur y))]
        /\ evs2 = [EvDecision pre off cur y (fst (s_next_task sch st2 off cur y))]).
Proof.
  intros n e st1 st2 HR err1 e1 s1 evs1 err2 e2 s2 evs2 H1 H2.
  assert (Triv : forall x, (x, st1, @nil event) = (err1, e1, s1, evs1) -> (x, st2, @nil event) = (err2, e2, s2, evs2) ->
            (err1 = err2 /\ e1 = e2 /\ evs1 = evs2 /\ ndec evs1 <= n /\ R (n - ndec evs1) s1 s2)).
  { intros [x0 x1] A B. inversion A; inversion B; subst. cbn. repeat split; auto; [lia|]. rewrite Nat.sub_0_r; exact HR. }
  unfold schedule in H1, H2.
  destruct (next e); try (left; eapply Triv; eassumption).
  cbv zeta in H1, H2. fold (bump e) in H1, H2.
  assert (Main : forall eb,
    sched_main sch eb st1 = (err1, e1, s1, evs1) -> sched_main sch eb st2 = (err2, e2, s2, evs2) ->
    (err1 = err2 /\ e1 = e2 /\ evs1 = evs2 /\ ndec evs1 <= n /\ R (n - ndec evs1) s1 s2)
    \/ (n = 0 /\ exists pre off cur y,
        evs1 = [EvDecision pre off cur y (fst (s_next_task sch st1 off cur y))]
        /\ evs2 = [EvDecision pre off cur y (fst (s_next_task sch st2 off cur y))])).
  { clear H1 H2. intros eb H1 H2. unfold sched_main in H1, H2.
    destruct (negb (any_runnable eb) || (negb (unfinished_attached eb) && all_runnable_detached eb)).
    { left; eapply Triv; eassumption. }
    cbv zeta in H1, H2.
    destruct n as [|n].
    - right. split; [reflexivity|].
      destruct (s_next_task sch st1 _ _ _) as [c1 s1'] eqn:E1 in H1.
      destruct (s_next_task sch st2 _ _ _) as [c2 s2'] eqn:E2 in H2.
      exists eb, (offered_of (with_yielded eb false)), (sched_id (current (with_yielded eb false))), (has_yielded eb).
      rewrite E1, E2. cbn [fst].
      split.
      + destruct c1 as [t|]; [destruct (get_task _ t) as [tk|]; [destruct (is_runnable tk); [|destruct (can_spur tk); [destruct (e_unblock _ t)|]]|]|];
          inversion H1; reflexivity.
      + destruct c2 as [t|]; [destruct (get_task _ t) as [tk|]; [destruct (is_runnable tk); [|destruct (can_spur tk); [destruct (e_unblock _ t)|]]|]|];
          inversion H2; reflexivity.
    - left.
      destruct (R_task n st1 st2 (offered_of (with_yielded eb false)) (sched_id (current (with_yielded eb false))) (has_yielded eb) HR)
        as [Hfst Hsnd].
      destruct (s_next_task sch st1 _ _ _) as [c1 s1'] eqn:E1 in H1.
      destruct (s_next_task sch st2 _ _ _) as [c2 s2'] eqn:E2 in H2.
      rewrite E1, E2 in Hfst, Hsnd. cbn [fst snd] in Hfst, Hsnd. subst c2.
      revert H1 H2.
      destruct c1 as [t|]; [destruct (get_task _ t) as [tk|]; [destruct (is_runnable tk); [|destruct (can_spur tk); [destruct (e_unblock _ t)|]]|]|];
        intros H1 H2; inversion H1; inversion H2; subst; cbn; rewrite Nat.sub_0_r; repeat split; auto; lia. }
  destruct ms as [|k|k].
  - apply (Main _ H1 H2).
  - destruct (is_step_bound_exceeded (bump e) k); cbv beta iota in H1, H2.
    + left; eapply Triv; eassumption.
    + apply (Main _ H1 H2).
  - destruct (is_step_bound_exceeded (bump e) k); cbv beta iota in H1, H2.
    + left; eapply Triv; eassumption.
    + apply (Main _ H1 H2).
Qed.

(* ---- thread::switch() ---- *)
Definition sw_st (r : switch_res (SS:=SS)) : SS := match r with SwContinue _ s | SwYield _ s | SwPanic _ s => s end.
Definition sw_tag (r : switch_res (SS:=SS)) : nat := match r with SwContinue _ _ => 0 | SwYield _ _ => 1 | SwPanic _ _ => 2 end.

Lemma do_switch_sim : forall n w st1 st2, R n st1 st2 ->
  (sw_world (do_switch sch ms w st1) = sw_world (do_switch sch ms w st2)
   /\ sw_tag (do_switch sch ms w st1) = sw_tag (do_switch sch ms w st2)
   /\ exists ext, w_trace (sw_world (do_switch sch ms w st1)) = ext ++ w_trace w /\ ndec ext <= n
                  /\ R (n - ndec ext) (sw_st (do_switch sch ms w st1)) (sw_st (do_switch sch ms w st2)))
  \/ Div n (w_trace w) (w_trace (sw_world (do_switch sch ms w st1))) (w_trace (sw_world (do_switch sch ms w st2))).
Proof.
  intros n w st1 st2 HR.
  destruct (do_switch_trace sch ms w st1) as [[Hp E1]|[Hp E1]].
  - left. unfold do_switch. cbv zeta. rewrite Hp. cbn [sw_world sw_tag sw_st].
    split; [reflexivity|]. split; [reflexivity|]. exists []. cbn. split; [reflexivity|]. split; [lia|].
    rewrite Nat.sub_0_r; exact HR.
  - destruct (do_switch_trace sch ms w st2) as [[Hp2 E2]|[_ E2]]; [congruence|].
    destruct (schedule sch ms (w_e w) st1) as [[[err1 e1] s1] evs1] eqn:S1.
    destruct (schedule sch ms (w_e w) st2) as [[[err2 e2] s2] evs2] eqn:S2.
    specialize (E1 _ _ _ _ eq_refl). specialize (E2 _ _ _ _ eq_refl).
    destruct (sched_sim n _ _ _ HR _ _ _ _ _ _ _ _ S1 S2) as [(-> & -> & -> & Hle & HR')|(-> & pre & off & cur & y & -> & ->)].
    + left. rewrite E1. unfold do_switch. cbv zeta. rewrite Hp, S1, S2.
      destruct err2 as [[|]|]; cbn [sw_world sw_tag sw_st].
      * split; [reflexivity|]. split; [reflexivity|]. exists evs2. auto.
      * split; [reflexivity|]. split; [reflexivity|]. exists evs2. auto.
      * destruct (sched_eqb (current e2) (next e2)); cbn [sw_world sw_tag sw_st];
          (split; [reflexivity|]; split; [reflexivity|]; exists evs2; auto).
    + right. rewrite E1, E2. exists [], [], [], pre, off, cur, y, st1, st2. cbn [app]. repeat split; auto.
Qed.

(* what follows a switch inside a segment only extends the trace *)
Lemma after_switch_ext : forall (F : world -> SS -> world * SS * seg_end) (G : world -> SS -> seg_end) r,
  (forall w st, ext (w_trace w) (w_trace (fst (fst (F w st))))) ->
  ext (w_trace (sw_world r))
      (w_trace (fst (fst (match r with
                          | SwContinue w' st' => F w' st'
                          | SwYield w' st' => (w', st', G w' st')
                          | SwPanic w' st' => (w', st', SegPanic) end)))).
Proof. intros F G [w' s'|w' s'|w' s'] HF; cbn [sw_world fst]; [apply HF|apply ext_refl|apply ext_refl]. Qed.

Lemma run_seg_ext' : forall c w st, ext (w_trace w) (w_trace (fst (fst (run_seg sch ms c w st)))).
Proof.
  intros c w st. destruct (run_seg sch ms c w st) as [[w' st'] r] eqn:E. apply run_seg_ext in E. exact E.
Qed.

(* one switch followed by F on both sides *)
Lemma switch_then_sim : forall (F : world -> SS -> world * SS * seg_end) (G : world -> SS -> seg_end) n w st1 st2,
  R n st1 st2 ->
  (forall w st, ext (w_trace w) (w_trace (fst (fst (F w st))))) ->
  (forall m w' a b, R m a b -> res_sim m (w_trace w') (F w' a) (F w' b)) ->
  (forall w' a b, G w' a = G w' b) ->
  res_sim n (w_trace w)
    (match do_switch sch ms w st1 with
     | SwContinue w' st' => F w' st' | SwYield w' st' => (w', st', G w' st') | SwPanic w' st' => (w', st', SegPanic) end)
    (match do_switch sch ms w st2 with
     | SwContinue w' st' => F w' st' | SwYield w' st' => (w', st', G w' st') | SwPanic w' st' => (w', st', SegPanic) end).
Proof.
  intros F G n w st1 st2 HR HF HS HG.
  destruct (do_switch_sim n w st1 st2 HR) as [(Hw & Ht & ext0 & He & Hle & HR')|D].
  - destruct (do_switch sch ms w st1) as [w1 s1|w1 s1|w1 s1], (do_switch sch ms w st2) as [w2 s2|w2 s2|w2 s2];
      cbn [sw_world sw_tag sw_st] in *; try discriminate; subst w2.
    + apply (res_sim_shift _ n (w_trace w) ext0); [exact Hle|]. rewrite <- He. apply HS; exact HR'.
    + left. cbn [fst snd]. split; [reflexivity|]. split; [rewrite (HG w1 s1 s2); reflexivity|]. exists ext0. auto.
    + left. cbn [fst snd]. split; [reflexivity|]. split; [reflexivity|]. exists ext0. auto.
  - eapply res_div_ext; [exact D| |]; apply after_switch_ext; exact HF.
Qed.

(* ---- segments ---- *)
Definition draw (k : N -> code) (w : world) (st : SS) : world * SS * seg_end :=
  let e := with_recorded (w_e w) (StRandom :: recorded (w_e w)) in
  let (v, st') := s_next_u64 sch st in
  match v with
  | None => (mkWorld e (w_s w) (w_conts w) (w_trace w), st', SegPanic)
  | Some v => run_seg sch ms (k v) (mkWorld e (w_s w) (w_conts w) (EvRandom v :: w_trace w)) st'
  end.
Lemma run_seg_rand : forall k w st,
  run_seg sch ms (Rand k) w st =
  if bound_exhausted ms (w_e w) then
    match do_switch sch ms w st with
    | SwContinue w' st' => draw k w' st'
    | SwYield w' st' => (w', st', SegYield (Rand k))
    | SwPanic w' st' => (w', st', SegPanic)
    end
  else draw k w st.
Proof. reflexivity. Qed.
Lemma draw_ext : forall k w st, ext (w_trace w) (w_trace (fst (fst (draw k w st)))).
Proof.
  intros k w st. unfold draw. cbv zeta. destruct (s_next_u64 sch st) as [[v|] st'].
  - eapply ext_trans; [apply (ext_cons (EvRandom v))|]. apply (run_seg_ext' (k v) (mkWorld _ _ _ _)).
  - apply ext_refl.
Qed.

Theorem run_seg_sim : forall c n w st1 st2, R n st1 st2 ->
  res_sim n (w_trace w) (run_seg sch ms c w st1) (run_seg sch ms c w st2).
Proof.
  induction c as [ | | f k IH | k IH | k IH | child _ k IH | tag vals k IH]; intros n w st1 st2 HR.
  - cbn [run_seg]. apply res_same_here; exact HR.
  - cbn [run_seg]. apply res_same_here; exact HR.
  - cbn [run_seg]. destruct (f (w_e w) (w_s w)) as [[[e1 s1] a]|].
    + apply (IH a n (mkWorld e1 s1 (w_conts w) (w_trace w))); exact HR.
    + apply res_same_here; exact HR.
  - cbn [run_seg].
    apply (switch_then_sim (fun w' st' => run_seg sch ms k w' st') (fun _ _ => SegYield k)); auto.
    + intros; apply run_seg_ext'.
  - rewrite !run_seg_rand.
    assert (Hdraw : forall m w' a b, R m a b -> res_sim m (w_trace w') (draw k w' a) (draw k w' b)).
    { intros m w' a b Hab. unfold draw. cbv zeta. destruct (R_rand m a b Hab) as [Hf Hs].
      destruct (s_next_u64 sch a) as [va a'], (s_next_u64 sch b) as [vb b']. cbn [fst snd] in Hf, Hs. subst vb.
      destruct va as [v|].
      - apply (res_sim_shift _ m (w_trace w') [EvRandom v]); [cbn; lia|]. cbn [ndec decisions filter is_decision length]. rewrite Nat.sub_0_r.
        apply (IH v m (mkWorld _ _ _ (EvRandom v :: w_trace w'))); exact Hs.
      - left. cbn [fst snd w_trace]. split; [reflexivity|]. split; [reflexivity|]. exists []. cbn. split; [reflexivity|].
        split; [lia|]. rewrite Nat.sub_0_r; exact Hs. }
    destruct (bound_exhausted ms (w_e w)).
    + apply (switch_then_sim (draw k) (fun _ _ => SegYield (Rand k))); auto. intros; apply draw_ext.
    + apply Hdraw; exact HR.
  - cbn [run_seg]. destruct (spawn_thread_now (w_e w)) as [[e1 tid]|].
    + apply (IH tid n (mkWorld e1 (w_s w) (w_conts w ++ [Some child]) (w_trace w))); exact HR.
    + apply res_same_here; exact HR.
  - cbn [run_seg]. destruct (me (w_e w)) as [t|].
    + match goal with |- res_sim _ _ (run_seg _ _ _ (mkWorld _ _ _ (?ev :: _)) _) _ =>
        apply (res_sim_shift _ n (w_trace w) [ev]); [cbn; lia|]; cbn [ndec decisions filter is_decision length]; rewrite Nat.sub_0_r;
        apply (IH n (mkWorld (w_e w) (w_s w) (w_conts w) (ev :: w_trace w))); exact HR end.
    + apply res_same_here; exact HR.
Qed.

(* ---- Execution::run ---- *)
Lemma run_loop_ext' : forall fuel w st, ext (w_trace w) (w_trace (fst (fst (run_loop sch ms fuel w st)))).
Proof.
  intros fuel w st. destruct (run_loop sch ms fuel w st) as [[w' st'] o] eqn:E. apply run_loop_ext in E. exact E.
Qed.

(* the part of run_loop after its `schedule` call found a task to run and ran its segment *)
Definition after_seg (fuel' : nat) (t : nat) (r : world * SS * seg_end) : world * SS * outcome :=
  match r with
  | (w2, st2, SegDone) =>
    match finish_current (w_e w2) with
    | Some e3 => run_loop sch ms fuel' (mkWorld e3 (w_s w2) (set_cont (w_conts w2) t None) (w_trace w2)) st2
    | None => (w2, st2, OSchedulerBug)
    end
  | (w2, st2, SegYield k) =>
    run_loop sch ms fuel' (mkWorld (w_e w2) (w_s w2) (set_cont (w_conts w2) t (Some k)) (w_trace w2)) st2
  | (w2, st2, SegPanic) => (w2, st2, OPanic t)
  end.
Lemma after_seg_ext : forall fuel' t r, ext (w_trace (fst (fst r))) (w_trace (fst (fst (after_seg fuel' t r)))).
Proof.
  intros fuel' t [[w2 st2] [k| |]]; cbn [after_seg fst].
  - apply (run_loop_ext' fuel' (mkWorld _ _ _ _)).
  - destruct (finish_current (w_e w2)); [apply (run_loop_ext' fuel' (mkWorld _ _ _ _))|apply ext_refl].
  - apply ext_refl.
Qed.

(* run_loop (S fuel) after a schedule call with results (err, e', st', evs) *)
Definition after_sched (fuel' : nat) (w : world) (err : option step_error) (e' : exec) (st' : SS) (evs : list event)
  : world * SS * outcome :=
  match err with
  | Some ErrStepBound => (mkWorld e' (w_s w) (w_conts w) (evs ++ w_trace w), st', OStepBound)
  | Some ErrSchedulerBug => (mkWorld e' (w_s w) (w_conts w) (evs ++ w_trace w), st', OSchedulerBug)
  | None =>
    let e' := advance e' in
    let w' := mkWorld e' (w_s w) (w_conts w) (evs ++ w_trace w) in
    match current e' with
    | SSome t =>
      match nth_error (w_conts w') t with
      | Some (Some c) => after_seg fuel' t (run_seg sch ms c w' st')
      | _ => (w', st', OSchedulerBug)
      end
    | SFinished =>
      if existsb (fun tk => negb (is_finished tk) && negb (t_detached tk)) (tasks e')
      then (w', st', ODeadlock (unfinished_ids e'))
      else (w', st', OPass)
    | SStopped => (w', st', OStopped)
    | SNone => (w', st', OSchedulerBug)
    end
  end.
Lemma run_loop_S : forall fuel' w st,
  run_loop sch ms (S fuel') w st =
  let '(err, e', st', evs) := schedule sch ms (w_e w) st in after_sched fuel' w err e' st' evs.
Proof.
  intros fuel' w st. cbn [run_loop]. destruct (schedule sch ms (w_e w) st) as [[[err e'] st'] evs].
  unfold after_sched. destruct err as [[|]|]; reflexivity.
Qed.
Lemma after_sched_ext : forall fuel' w err e' st' evs,
  ext (evs ++ w_trace w) (w_trace (fst (fst (after_sched fuel' w err e' st' evs)))).
Proof.
  intros fuel' w err e' st' evs. unfold after_sched. destruct err as [[|]|]; try apply ext_refl. cbv zeta.
  destruct (current (advance e')); try apply ext_refl.
  - cbn [w_conts]. destruct (nth_error (w_conts w) t) as [[c|]|]; try apply ext_refl.
    eapply ext_trans; [|apply after_seg_ext]. apply (run_seg_ext' c (mkWorld _ _ _ _)).
  - destruct (existsb _ _); apply ext_refl.
Qed.

Theorem run_loop_sim : forall fuel n w st1 st2, R n st1 st2 ->
  res_sim n (w_trace w) (run_loop sch ms fuel w st1) (run_loop sch ms fuel w st2).
Proof.
  induction fuel as [|fuel IH]; intros n w st1 st2 HR.
  - cbn [run_loop]. apply res_same_here; exact HR.
  - rewrite !run_loop_S.
    destruct (schedule sch ms (w_e w) st1) as [[[err1 e1] s1] evs1] eqn:S1.
    destruct (schedule sch ms (w_e w) st2) as [[[err2 e2] s2] evs2] eqn:S2.
    destruct (sched_sim n _ _ _ HR _ _ _ _ _ _ _ _ S1 S2) as [(-> & -> & -> & Hle & HR')|(-> & pre & off & cur & y & -> & ->)].
    + apply (res_sim_shift _ n (w_trace w) evs2); [exact Hle|].
      assert (Here : forall o : outcome, res_sim (n - ndec evs2) (evs2 ++ w_trace w)
                (mkWorld (advance e2) (w_s w) (w_conts w) (evs2 ++ w_trace w), s1, o)
                (mkWorld (advance e2) (w_s w) (w_conts w) (evs2 ++ w_trace w), s2, o)).
      { intros o. apply (res_same_here _ _ (mkWorld (advance e2) (w_s w) (w_conts w) (evs2 ++ w_trace w))). exact HR'. }
      unfold after_sched. destruct err2 as [[|]|].
      * apply (res_same_here _ _ (mkWorld e2 (w_s w) (w_conts w) (evs2 ++ w_trace w))). exact HR'.
      * apply (res_same_here _ _ (mkWorld e2 (w_s w) (w_conts w) (evs2 ++ w_trace w))). exact HR'.
      * cbv zeta. destruct (current (advance e2)); try apply Here.
        { cbn [w_conts]. destruct (nth_error (w_conts w) t) as [[c|]|]; try apply Here.
          pose proof (run_seg_sim c (n - ndec evs2) (mkWorld (advance e2) (w_s w) (w_conts w) (evs2 ++ w_trace w)) s1 s2 HR') as Sg.
          cbn [w_trace] in Sg.
          destruct Sg as [(Hw & Ha & ext0 & He & Hle0 & HR0)|D].
          - destruct (run_seg sch ms c _ s1) as [[w2 a2] r2], (run_seg sch ms c _ s2) as [[w2' b2] r2'].
            cbn [fst snd] in Hw, Ha, He, HR0. subst w2' r2'.
            apply (res_sim_shift _ _ (evs2 ++ w_trace w) ext0); [exact Hle0|]. rewrite <- He.
            unfold after_seg. destruct r2 as [k| |].
            + apply (IH _ (mkWorld _ _ _ (w_trace w2))); exact HR0.
            + destruct (finish_current (w_e w2)).
              * apply (IH _ (mkWorld _ _ _ (w_trace w2))); exact HR0.
              * apply res_same_here; exact HR0.
            + apply res_same_here; exact HR0.
          - eapply res_div_ext; [exact D| |]; apply after_seg_ext. }
        { destruct (existsb _ _); apply Here. }
    + eapply res_div_ext; [| apply after_sched_ext | apply after_sched_ext].
      exists [], [], [], pre, off, cur, y, st1, st2. cbn [app]. repeat split; auto.
Qed.

End Lockstep.


(* the same for whole executions, any scheduler: PREFIX DETERMINISM in general form *)
Theorem run_exec_sim : forall SS (sch : scheduler SS) ms (R : nat -> SS -> SS -> Prop),
  (forall n a b off cur y, R (S n) a b ->
     fst (s_next_task sch a off cur y) = fst (s_next_task sch b off cur y)
     /\ R n (snd (s_next_task sch a off cur y)) (snd (s_next_task sch b off cur y))) ->
  (forall n a b, R n a b ->
     fst (s_next_u64 sch a) = fst (s_next_u64 sch b) /\ R n (snd (s_next_u64 sch a)) (snd (s_next_u64 sch b))) ->
  forall fuel main objs n st1 st2, R n st1 st2 ->
  res_sim sch R n [] (run_exec sch ms fuel main objs st1) (run_exec sch ms fuel main objs st2).
Proof.
  intros SS sch ms R Ht Hr fuel main objs n st1 st2 H. unfold run_exec.
  exact (run_loop_sim sch ms R Ht Hr fuel n (init_world main objs) st1 st2 H).
Qed.

(* ================================================================== *)
(* the scripted scheduler of Lang/Prog.v                                *)
(* ================================================================== *)
(* the two states have consumed the same entries and still share a prefix of n entries, after which they go on with r1, r2 *)
Definition R_script (r1 r2 : list (option nat)) (n : nat) (a b : script_state) : Prop :=
  sc_rnd a = sc_rnd b /\ exists p, length p = n /\ sc_script a = p ++ r1 /\ sc_script b = p ++ r2.

Lemma R_script_task : forall r1 r2 n a b off cur y, R_script r1 r2 (S n) a b ->
  fst (s_next_task scripted a off cur y) = fst (s_next_task scripted b off cur y)
  /\ R_script r1 r2 n (snd (s_next_task scripted a off cur y)) (snd (s_next_task scripted b off cur y)).
Proof.
  intros r1 r2 n a b off cur y (Hr & p & Hl & Ha & Hb). destruct p as [|x p]; [discriminate|].
  cbn [scripted s_next_task]. rewrite Ha, Hb. cbn [app].
  destruct x as [i|]; cbn [fst snd]; (split; [reflexivity|]); (split; [exact Hr|]); exists p; cbn [sc_script];
    (split; [cbn in Hl; lia|split; reflexivity]).
Qed.
Lemma R_script_rand : forall r1 r2 n a b, R_script r1 r2 n a b ->
  fst (s_next_u64 scripted a) = fst (s_next_u64 scripted b)
  /\ R_script r1 r2 n (snd (s_next_u64 scripted a)) (snd (s_next_u64 scripted b)).
Proof.
  intros r1 r2 n a b (Hr & p & Hl & Ha & Hb). cbn [scripted s_next_u64 fst snd]. rewrite Hr.
  split; [reflexivity|]. split; [reflexivity|]. exists p. cbn [sc_script]. auto.
Qed.

(* PREFIX DETERMINISM for scripts: the runs under p ++ r1 and p ++ r2 (same program, objects, bound, fuel, seed) either
   are identical and take at most |p| decisions, or share their traces up to the (|p|+1)-th consultation of the scheduler,
   which happens in the same state with the same offered list; there the first answers what r1 says, the second what r2 says *)
Theorem lockstep_scripted : forall ms fuel main objs p r1 r2 seed w1 st1 o1 w2 st2 o2,
  run_exec scripted ms fuel main objs (mkScript (p ++ r1) seed) = (w1, st1, o1) ->
  run_exec scripted ms fuel main objs (mkScript (p ++ r2) seed) = (w2, st2, o2) ->
  (w1 = w2 /\ o1 = o2 /\ ndec (w_trace w1) <= length p)
  \/ exists common ext1 ext2 pre off cur y rnd,
       w_trace w1 = ext1 ++ EvDecision pre off cur y (fst (s_next_task scripted (mkScript r1 rnd) off cur y)) :: common
       /\ w_trace w2 = ext2 ++ EvDecision pre off cur y (fst (s_next_task scripted (mkScript r2 rnd) off cur y)) :: common
       /\ ndec common = length p.
Proof.
  intros ms fuel main objs p r1 r2 seed w1 st1 o1 w2 st2 o2 H1 H2. unfold run_exec in H1, H2.
  assert (HR : R_script r1 r2 (length p) (mkScript (p ++ r1) seed) (mkScript (p ++ r2) seed)).
  { split; [reflexivity|]. exists p. auto. }
  pose proof (run_loop_sim scripted ms (R_script r1 r2) (R_script_task r1 r2) (R_script_rand r1 r2)
                fuel (length p) (init_world main objs) _ _ HR) as S.
  rewrite H1, H2 in S. cbn [init_world w_trace] in S.
  destruct S as [(Hw & Ho & ext0 & He & Hle & _)|(common & e1 & e2 & pre & off & cur & y & a1 & a2 & H0 & T1 & T2 & Hc)];
    cbn [fst snd] in *.
  - left. split; [exact Hw|]. split; [exact Ho|]. rewrite He, app_nil_r. exact Hle.
  - right. destruct H0 as (Hr & p0 & Hl & Ha & Hb). destruct p0; [|discriminate]. cbn [app] in Ha, Hb.
    exists common, e1, e2, pre, off, cur, y, (sc_rnd a1).
    rewrite app_nil_r in T1, T2. rewrite T1, T2.
    replace (mkScript r1 (sc_rnd a1)) with a1 by (destruct a1; cbn in *; congruence).
    replace (mkScript r2 (sc_rnd a1)) with a2 by (destruct a2; cbn in *; congruence).
    auto.
Qed.

(* SCRIPT COMPLETENESS: at decision number i (counted from 0, oldest first) of a run of the scripted scheduler, any task
   t' of the offered list can be chosen instead: the script that keeps the first i entries and continues with the position
   of t' in the offered list (then anything) gives a run with the same events up to that decision, the same ghost state,
   offered list and arguments at that decision, and the answer t'. *)
Theorem script_completeness : forall ms fuel main objs s seed w st' out i pre off cur y ch t',
  run_exec scripted ms fuel main objs (mkScript s seed) = (w, st', out) ->
  i <= length s ->
  nth_error (decisions (chrono w)) i = Some (EvDecision pre off cur y ch) ->
  In t' off ->
  exists j, nth_error off j = Some t' /\
  forall rest', exists w' st'' out' prefix rest1 rest2,
    run_exec scripted ms fuel main objs (mkScript (firstn i s ++ Some j :: rest') seed) = (w', st'', out')
    /\ chrono w = prefix ++ EvDecision pre off cur y ch :: rest1
    /\ chrono w' = prefix ++ EvDecision pre off cur y (Some t') :: rest2
    /\ length (decisions prefix) = i.
Proof.
  intros ms fuel main objs s seed w st' out i pre off cur y ch t' Hrun Hi Hnth Hin.
  destruct (scripted_chooser off t' Hin) as (j & Hlt & Hj & Hch). exists j. split; [exact Hj|]. intros rest'.
  destruct (run_exec scripted ms fuel main objs (mkScript (firstn i s ++ Some j :: rest') seed)) as [[w' st''] out'] eqn:Hrun'.
  exists w', st'', out'.
  rewrite <- (firstn_skipn i s) in Hrun.
  destruct (lockstep_scripted _ _ _ _ _ _ _ _ _ _ _ _ _ _ Hrun Hrun')
    as [(_ & _ & Hle)|(common & e1 & e2 & pre0 & off0 & cur0 & y0 & rnd & T1 & T2 & Hc)].
  - exfalso. rewrite firstn_length_le in Hle by exact Hi.
    assert (i < length (decisions (chrono w))) by (apply nth_error_Some; congruence).
    unfold chrono in H. fold (ndec (rev (w_trace w))) in H. rewrite ndec_rev in H. lia.
  - rewrite firstn_length_le in Hc by exact Hi.
    remember (fst (s_next_task scripted (mkScript (skipn i s) rnd) off0 cur0 y0)) as c1 eqn:Ec1.
    assert (C1 : chrono w = rev common ++ EvDecision pre0 off0 cur0 y0 c1 :: rev e1).
    { unfold chrono. rewrite T1, rev_app_distr. cbn [rev]. rewrite <- app_assoc. reflexivity. }
    assert (C2 : chrono w' = rev common ++ EvDecision pre0 off0 cur0 y0 (fst (s_next_task scripted (mkScript (Some j :: rest') rnd) off0 cur0 y0)) :: rev e2).
    { unfold chrono. rewrite T2, rev_app_distr. cbn [rev]. rewrite <- app_assoc. reflexivity. }
    assert (Hlen : length (decisions (rev common)) = i) by (fold (ndec (rev common)); rewrite ndec_rev; exact Hc).
    rewrite C1, decisions_app in Hnth. rewrite nth_error_app2 in Hnth by lia. rewrite Hlen, Nat.sub_diag in Hnth.
    unfold decisions in Hnth at 1. cbn [filter is_decision nth_error] in Hnth. inversion Hnth; subst pre0 off0 cur0 y0 c1.
    exists (rev common), (rev e1), (rev e2).
    split; [reflexivity|]. split; [rewrite C1; congruence|]. split; [|exact Hlen].
    rewrite C2, Hch. reflexivity.
Qed.

(* ... and the alternative is really taken: in the alternative run every operation recorded between that decision and the
   next one is performed by t' (C08_chosen_runs on the alternative run) *)
Theorem script_completeness_runs : forall ms fuel main objs s seed w st' out pre off cur y t' prefix rest,
  code_ok main ->
  run_exec scripted ms fuel main objs (mkScript s seed) = (w, st', out) ->
  chrono w = prefix ++ EvDecision pre off cur y (Some t') :: rest ->
  ops_by_chosen rest (Some t').
Proof.
  intros ms fuel main objs s seed w st' out pre off cur y t' prefix rest Hok Hrun Hc.
  assert (HR : Run scripted ms fuel main objs (mkScript s seed) w st' out) by (split; assumption).
  pose proof (chosen_runs_proof _ _ _ _ _ _ _ _ _ _ HR) as O. rewrite Hc in O.
  apply ops_by_chosen_app in O. destruct O as [_ O]. cbn [ops_by_chosen] in O. exact O.
Qed.

(* ================================================================== *)
(* scripts shorter than the run: an exhausted script behaves like one padded with `Some 0`  *)
(* ================================================================== *)
Definition R_pad (n : nat) (a b : script_state) : Prop :=
  sc_rnd a = sc_rnd b /\ exists k, sc_script b = sc_script a ++ repeat (Some 0) k.

Lemma R_pad_task : forall n a b off cur y, R_pad (S n) a b ->
  fst (s_next_task scripted a off cur y) = fst (s_next_task scripted b off cur y)
  /\ R_pad n (snd (s_next_task scripted a off cur y)) (snd (s_next_task scripted b off cur y)).
Proof.
  intros n a b off cur y (Hr & k & Hb). cbn [scripted s_next_task]. rewrite Hb.
  destruct (sc_script a) as [|x r] eqn:Ea; cbn [app].
  - destruct k as [|k]; cbn [repeat].
    + cbn [fst snd]. split; [reflexivity|]. split; [exact Hr|]. exists 0. rewrite Hb, Ea. reflexivity.
    + cbn [fst snd]. split.
      * destruct off as [|x0 off]; [reflexivity|]. cbn [length]. rewrite Nat.mod_0_l by discriminate. reflexivity.
      * split; [exact Hr|]. exists k. cbn [sc_script]. rewrite Ea. reflexivity.
  - destruct x as [i|]; cbn [fst snd]; (split; [reflexivity|]); (split; [exact Hr|]); exists k; reflexivity.
Qed.
Lemma R_pad_rand : forall n a b, R_pad n a b ->
  fst (s_next_u64 scripted a) = fst (s_next_u64 scripted b)
  /\ R_pad n (snd (s_next_u64 scripted a)) (snd (s_next_u64 scripted b)).
Proof.
  intros n a b (Hr & k & Hb). cbn [scripted s_next_u64 fst snd]. rewrite Hr.
  split; [reflexivity|]. split; [reflexivity|]. exists k. exact Hb.
Qed.

Theorem script_padding : forall ms fuel main objs s seed k,
  fst (fst (run_exec scripted ms fuel main objs (mkScript (s ++ repeat (Some 0) k) seed)))
  = fst (fst (run_exec scripted ms fuel main objs (mkScript s seed)))
  /\ snd (run_exec scripted ms fuel main objs (mkScript (s ++ repeat (Some 0) k) seed))
     = snd (run_exec scripted ms fuel main objs (mkScript s seed)).
Proof.
  intros ms fuel main objs s seed k.
  set (r1 := run_exec scripted ms fuel main objs (mkScript s seed)).
  set (r2 := run_exec scripted ms fuel main objs (mkScript (s ++ repeat (Some 0) k) seed)).
  assert (HR : R_pad (ndec (w_trace (fst (fst r1)))) (mkScript s seed) (mkScript (s ++ repeat (Some 0) k) seed)).
  { split; [reflexivity|]. exists k. reflexivity. }
  pose proof (run_exec_sim _ scripted ms R_pad R_pad_task R_pad_rand fuel main objs _ _ _ HR) as S.
  fold r1 r2 in S.
  destruct S as [(Hw & Ho & _)|(common & e1 & e2 & pre & off & cur & y & a1 & a2 & _ & T1 & _ & Hc)].
  - split; [symmetry; exact Hw|symmetry; exact Ho].
  - exfalso. rewrite T1 in Hc. rewrite ndec_app in Hc.
    change (ndec (EvDecision pre off cur y (fst (s_next_task scripted a1 off cur y)) :: common ++ []))
      with (S (ndec (common ++ []))) in Hc.
    rewrite ndec_app in Hc. lia.
Qed.

(* SCRIPT COMPLETENESS without the length condition: pad the script with `Some 0` up to i first *)
Theorem script_completeness_any : forall ms fuel main objs s seed w st' out i pre off cur y ch t',
  run_exec scripted ms fuel main objs (mkScript s seed) = (w, st', out) ->
  nth_error (decisions (chrono w)) i = Some (EvDecision pre off cur y ch) ->
  In t' off ->
  exists j, nth_error off j = Some t' /\
  forall rest', exists w' st'' out' prefix rest1 rest2,
    run_exec scripted ms fuel main objs
      (mkScript (firstn i (s ++ repeat (Some 0) (i - length s)) ++ Some j :: rest') seed) = (w', st'', out')
    /\ chrono w = prefix ++ EvDecision pre off cur y ch :: rest1
    /\ chrono w' = prefix ++ EvDecision pre off cur y (Some t') :: rest2
    /\ length (decisions prefix) = i.
Proof.
  intros ms fuel main objs s seed w st' out i pre off cur y ch t' Hrun Hnth Hin.
  destruct (script_padding ms fuel main objs s seed (i - length s)) as [Pw Po]. rewrite Hrun in Pw, Po. cbn [fst snd] in Pw, Po.
  destruct (run_exec scripted ms fuel main objs (mkScript (s ++ repeat (Some 0) (i - length s)) seed)) as [[w0 st0] out0] eqn:Hrun0.
  cbn [fst snd] in Pw, Po. subst w0 out0.
  apply (script_completeness _ _ _ _ _ _ _ _ _ _ _ _ _ _ _ _ Hrun0); [|exact Hnth|exact Hin].
  rewrite app_length, repeat_length. lia.
Qed.
