(* First facts about the thread-local storage model (Prim/Tls.v) and the join block (Lang/ThreadOps.v).
   The full development is Proofs/TlsProofs.v / Proofs/LifecycleProofs.v. *)
From Coq Require Import List NArith Bool Arith Lia.
From SV Require Import Clock.VClock Prim.Objects Prim.Tls Engine.Exec Lang.Code Lang.ThreadOps.
Import ListNotations.

(* no resurrection: an access to a destructed slot is an error and changes nothing *)
Lemma tls_with_destroyed : forall st tls tid key add l init d,
  tls_table st tls = Some l -> get_obj st key = Some (OKey init d) ->
  tls_lookup (tls_of l tid) key = Some None ->
  tls_with st tls tid key add = Some (st, TlsDestroyed, 0%N).
Proof.
  intros st tls tid key add l init d Ht Hk Hl. unfold tls_with. rewrite Ht, Hk, Hl. reflexivity.
Qed.

(* lazy initialisation: the first access answers the key's initial value *)
Lemma tls_with_first : forall st tls tid key add l init d,
  tls_table st tls = Some l -> get_obj st key = Some (OKey init d) ->
  tls_lookup (tls_of l tid) key = None ->
  exists st', tls_with st tls tid key add = Some (st', TlsInit, init).
Proof.
  intros st tls tid key add l init d Ht Hk Hl. unfold tls_with. rewrite Ht, Hk, Hl. eexists; reflexivity.
Qed.

(* a live slot answers the stored value *)
Lemma tls_with_live : forall st tls tid key add l init d v,
  tls_table st tls = Some l -> get_obj st key = Some (OKey init d) ->
  tls_lookup (tls_of l tid) key = Some (Some v) ->
  exists st', tls_with st tls tid key add = Some (st', TlsOk, v).
Proof.
  intros st tls tid key add l init d v Ht Hk Hl. unfold tls_with. rewrite Ht, Hk, Hl. eexists; reflexivity.
Qed.

(* pop_local hands out the oldest slot still initialised *)
Lemma tls_pop_oldest : forall st tls tid l st' key v d,
  tls_table st tls = Some l -> tls_pop st tls tid = Some (st', Some (key, v, d)) ->
  exists r, tl_order (tls_of l tid) = key :: r /\ tls_lookup (tls_of l tid) key = Some (Some v).
Proof.
  intros st tls tid l st' key v d Ht H. unfold tls_pop in H. rewrite Ht in H.
  destruct (tl_order (tls_of l tid)) as [|k r] eqn:Eo; [inversion H|].
  destruct (tls_lookup (tls_of l tid) k) as [[v0|]|] eqn:El; try discriminate.
  destruct (get_obj st k) as [[]|]; try discriminate.
  inversion H; subst. exists r. split; [reflexivity|exact El].
Qed.

(* the last block of JoinHandle::join succeeds only when the target has finished *)
Definition join_last (target : nat) (e : exec) (s : store) : option (exec * store) :=
  match me e, e_clock e target, get_task e target with
  | Some m, Some c, Some tk =>
    if is_finished tk then match e_update_clock e m c with Some e' => Some (e', s) | None => None end else None
  | _, _, _ => None
  end.

Lemma join_last_finished : forall target e s e' s',
  join_last target e s = Some (e', s') ->
  exists tk, get_task e target = Some tk /\ is_finished tk = true.
Proof.
  intros target e s e' s' H. unfold join_last in H.
  destruct (me e); [|discriminate]. destruct (e_clock e target); [|discriminate].
  destruct (get_task e target) as [tk|]; [|discriminate].
  destruct (is_finished tk) eqn:Ef; [|discriminate]. exists tk; split; [reflexivity|exact Ef].
Qed.

Lemma join_code_shape : forall target k,
  join_code target k =
  atomic_b (fun e s => match get_task e target with Some tk => Some (e, s, is_finished tk) | None => None end)
    (fun fin => switch_if fin
      (atomic_b (fun e s =>
          match me e with
          | None => None
          | Some m =>
            match e_set_waiter e target m with
            | None => None
            | Some (e', true) => match e_block e' m false with Some e'' => Some (e'', s, true) | None => None end
            | Some (e', false) => Some (e', s, false)
            end
          end)
        (fun should_block => switch_if should_block (atomic_u (join_last target) k)))).
Proof. reflexivity. Qed.
