(* C06 item 6: from a reachable state no channel segment panics through a channel-specific assertion.
   The only other way a block can return None is an engine-level failure of the vector clock
   (`increment`: index out of range or u32 overflow); it is excluded by `clk_room`: the actor's own
   clock entry exists and can still be incremented twice (a segment increments it at most twice). *)
From Coq Require Import List NArith Bool Arith Lia.
From SV Require Import Clock.VClock Prim.Objects Engine.Exec Prim.Semaphore Prim.SemInv Lang.Code Lang.SyncOps Lang.SyncOps2.
From SV Require Import Proofs.VClockProofs Proofs.SemBase Proofs.ChanBase Proofs.ChanFun Proofs.ChanOps Proofs.ChanProofs.
Import ListNotations.
Open Scope nat_scope.

Definition clk_room (e : exec) (m : nat) : Prop :=
  exists cm, e_clock e m = Some cm /\ m < length cm /\ (nth m cm 0%N + 2 <= u32_max)%N.

Definition alive (e : exec) (t : nat) : Prop := exists s, sts e t = Some s /\ s <> Finished.

Lemma alive_eff_upd : forall e e' f t,
  eff e e' f -> (forall a x, f a x = Some Runnable \/ f a x = Some (Blocked false) \/ f a x = a x) ->
  alive e t -> alive e' t.
Proof.
  intros e e' f t (_ & Hs) Hf (s & Hst & Hne). unfold alive. rewrite Hs.
  destruct (Hf (sts e) t) as [->|[->| ->]]; eauto; eexists; split; eauto; discriminate.
Qed.

(* one increment of the actor's own entry *)
Lemma incr_ok : forall e m cm k,
  e_clock e m = Some cm -> m < length cm -> (nth m cm 0%N + N.of_nat (S k) <= u32_max)%N ->
  exists e1 cm1, e_increment_clock e m = Some e1 /\ e_clock e1 m = Some cm1 /\ m < length cm1 /\
                 (nth m cm1 0%N + N.of_nat k <= u32_max)%N /\ eff e e1 (fun a => a).
Proof.
  intros e m cm k Hc Hl Hb.
  destruct (proj2 (increment_Some_iff cm m)) as (cm1 & Hi); [split; [assumption|lia]|].
  destruct (e_increment_clock_ok e m cm cm1 Hc Hi) as (e1 & He1).
  destruct (e_increment_clock_spec _ _ _ He1) as (Hef & c0 & c0' & Hc0 & Hi0 & Hset & _).
  rewrite Hc in Hc0; inversion Hc0; subst c0. rewrite Hi in Hi0; inversion Hi0; subst c0'.
  destruct (increment_spec _ _ _ Hi) as (_ & Hlen & Hnth & _).
  exists e1, cm1. repeat split; auto; try (apply Hef). lia. rewrite Hnth. lia.
Qed.

Lemma update_clock_ok : forall e m cm v k,
  e_clock e m = Some cm -> m < length cm -> (nth m cm 0%N + N.of_nat (S k) <= u32_max)%N ->
  exists e1, e_update_clock e m v = Some e1 /\ eff e e1 (fun a => a).
Proof.
  intros e m cm v k Hc Hl Hb.
  destruct (proj2 (increment_Some_iff cm m)) as (cm1 & Hi); [split; [assumption|lia]|].
  destruct (e_update_clock_ok e m v cm cm1 Hc Hi) as (e1 & He1).
  exists e1. split; [assumption|]. apply (e_update_clock_spec _ _ _ _ He1).
Qed.

(* ---- chan_send_deliver ---- *)
Lemma chan_send_deliver_ok : forall e c v m,
  me e = Some m -> clk_room e m ->
  (forall t, In t (ch_wsend c ++ ch_wrecv c) -> alive e t) ->
  (ch_wsend c <> [] -> ch_bound c <> None) ->
  (is_rendezvous c = false -> ch_rclock c <> Some []) ->
  chan_send_deliver e c v <> None.
Proof.
  intros e c v m Hme (cm & Hc & Hl & Hb) Hal Hbnd Hrc. unfold chan_send_deliver. rewrite Hme.
  destruct (incr_ok e m cm 1 Hc Hl) as (e1 & cm1 & He1 & Hc1 & Hl1 & Hb1 & Hef1); [cbn; lia|].
  rewrite He1, Hc1. cbv zeta.
  set (c1 := set_msgs c (ch_msgs c ++ [(v, cm1)])).
  change (ch_wrecv c1) with (ch_wrecv c). change (ch_wsend c1) with (ch_wsend c).
  change (ch_bound c1) with (ch_bound c). change (ch_rclock c1) with (ch_rclock c).
  change (is_rendezvous c1) with (is_rendezvous c).
  assert (Hal1 : forall t, In t (ch_wsend c ++ ch_wrecv c) -> alive e1 t).
  { intros t Hin. destruct (Hal t Hin) as (s & Hs & Hne). exists s. destruct Hef1 as (_ & H). rewrite H. auto. }
  (* step 1 *)
  assert (H2 : exists e2, match ch_wrecv c with
                  | tid :: _ => match e_unblock e1 tid with
                    | Some e' => if is_rendezvous c then match e_clock e' tid with Some rc => e_update_clock e' m rc | None => None end else Some e'
                    | None => None end
                  | [] => Some e1 end = Some e2 /\
               (forall t, In t (ch_wsend c ++ ch_wrecv c) -> alive e2 t) /\
               (is_rendezvous c = false -> e_clock e2 m = Some cm1)).
  { destruct (ch_wrecv c) as [|tid wr] eqn:Hwr.
    - exists e1. auto.
    - destruct (Hal1 tid) as (s & Hs & Hne); [apply in_or_app; right; left; reflexivity|].
      destruct (e_unblock_ok e1 tid s Hs Hne) as (eu & Heu). rewrite Heu.
      destruct (e_unblock_spec _ _ _ Heu) as (Hefu & Hcu).
      assert (Halu : forall t, In t (ch_wsend c ++ tid :: wr) -> alive eu t).
      { intros t Hin. eapply alive_eff_upd; [exact Hefu| |apply Hal1; assumption].
        intros a x; unfold upd; destruct (Nat.eqb x tid); auto. }
      destruct (is_rendezvous c).
      + destruct (proj2 (e_clock_sts eu tid)) as (rc & Hrc').
        { destruct (Halu tid) as (s' & Hs' & _); [apply in_or_app; right; left; reflexivity|]. eauto. }
        rewrite Hrc'.
        destruct (update_clock_ok eu m cm1 rc 0) as (e2 & He2 & Hef2); [rewrite Hcu; assumption|assumption|assumption|].
        exists e2. split; [assumption|]. split; [|discriminate].
        intros t Hin. destruct (Halu t Hin) as (s' & Hs' & Hne'). exists s'. destruct Hef2 as (_ & H). rewrite H. auto.
      + exists eu. split; [reflexivity|]. split; [assumption|]. intros _. rewrite Hcu. assumption. }
  destruct H2 as (e2 & -> & Hal2 & Hc2).
  (* step 2 *)
  assert (H3 : exists e3, match ch_wsend c with
                  | tid :: _ => match ch_bound c with
                    | Some b => if Nat.ltb (length (ch_msgs c1)) b then e_unblock e2 tid else Some e2
                    | None => None end
                  | [] => Some e2 end = Some e3 /\
               (is_rendezvous c = false -> e_clock e3 m = Some cm1)).
  { destruct (ch_wsend c) as [|tid ws] eqn:Hws.
    - exists e2. auto.
    - destruct (ch_bound c) as [b|]; [|exfalso; apply Hbnd; [discriminate|reflexivity]].
      destruct (Nat.ltb (length (ch_msgs c1)) b).
      + destruct (Hal2 tid) as (s & Hs & Hne); [left; reflexivity|].
        destruct (e_unblock_ok e2 tid s Hs Hne) as (eu & Heu). exists eu. split; [assumption|].
        intros Hr. destruct (e_unblock_spec _ _ _ Heu) as (_ & Hcu). rewrite Hcu. auto.
      + exists e2. auto. }
  destruct H3 as (e3 & -> & Hc3).
  destruct (is_rendezvous c) eqn:Hrdv; cbn [negb]; [discriminate|].
  destruct (ch_rclock c) as [[|rc rest]|] eqn:Hrcl; [exfalso; apply Hrc; reflexivity| |discriminate].
  destruct (update_clock_ok e3 m cm1 rc 0) as (e4 & -> & _); auto. discriminate.
Qed.

(* ---- chan_recv_take ---- *)
Lemma chan_recv_take_ok : forall e c m,
  me e = Some m -> alive e m -> ch_msgs c <> [] ->
  (forall t, In t (ch_wsend c ++ ch_wrecv c) -> alive e t) ->
  (ch_wsend c <> [] -> ch_bound c <> None) ->
  match ch_rclock c, ch_bound c with
  | Some rc, Some (S b) => length rc < S b
  | Some _, None => False
  | _, _ => True end ->
  chan_recv_take e c <> None.
Proof.
  intros e c m Hme Hm Hmsgs Hal Hbnd Hrc. unfold chan_recv_take. rewrite Hme.
  destruct (ch_msgs c) as [|[v vc] rest]; [congruence|]. cbv zeta.
  set (c1 := set_msgs c rest).
  change (ch_wrecv c1) with (ch_wrecv c). change (ch_wsend c1) with (ch_wsend c).
  change (ch_bound c1) with (ch_bound c). change (ch_rclock c1) with (ch_rclock c).
  assert (H1 : exists e1, match ch_wsend c with
            | tid :: _ => match ch_bound c with
              | Some b => if Nat.ltb 0 b || negb match ch_wrecv c with [] => true | _ :: _ => false end then e_unblock e tid else Some e
              | None => None end
            | [] => Some e end = Some e1 /\ (forall t, alive e t -> alive e1 t)).
  { destruct (ch_wsend c) as [|tid ws] eqn:Hws; [eauto|].
    destruct (ch_bound c) as [b|]; [|exfalso; apply Hbnd; [discriminate|reflexivity]].
    destruct (Nat.ltb 0 b || _); [|eauto].
    destruct (Hal tid) as (s & Hs & Hne); [left; reflexivity|].
    destruct (e_unblock_ok e tid s Hs Hne) as (eu & Heu). exists eu. split; [assumption|].
    destruct (e_unblock_spec _ _ _ Heu) as (Hefu & _). intros t Ht.
    eapply alive_eff_upd; [exact Hefu| |exact Ht]. intros a x; unfold upd; destruct (Nat.eqb x tid); auto. }
  destruct H1 as (e1 & -> & Hal1).
  assert (H2 : exists e2, match ch_wrecv c with
            | tid :: _ => if negb match ch_msgs c1 with [] => true | _ :: _ => false end then e_unblock e1 tid else Some e1
            | [] => Some e1 end = Some e2 /\ (forall t, alive e t -> alive e2 t)).
  { destruct (ch_wrecv c) as [|tid wr] eqn:Hwr; [eauto|].
    destruct (negb _); [|eauto].
    destruct (Hal1 tid) as (s & Hs & Hne); [apply Hal; apply in_or_app; right; left; reflexivity|].
    destruct (e_unblock_ok e1 tid s Hs Hne) as (eu & Heu). exists eu. split; [assumption|].
    destruct (e_unblock_spec _ _ _ Heu) as (Hefu & _). intros t Ht.
    eapply alive_eff_upd; [exact Hefu| |exact (Hal1 t Ht)]. intros a x; unfold upd; destruct (Nat.eqb x tid); auto. }
  destruct H2 as (e2 & -> & Hal2).
  destruct (proj2 (e_clock_sts e2 m)) as (cm & Hcm).
  { destruct (Hal2 m Hm) as (s & Hs & _); eauto. }
  destruct (e_join_clock_ok e2 m vc cm Hcm) as (e3 & He3). rewrite He3.
  destruct (e_join_clock_spec _ _ _ _ He3) as (_ & c0 & _ & Hset & _). rewrite Hset.
  destruct (ch_rclock c) as [rc|]; [|destruct (ch_bound c); discriminate].
  destruct (ch_bound c) as [[|b]|]; [discriminate| |contradiction].
  change (Nat.ltb 0 (S b)) with true. cbv iota.
  destruct (Nat.ltb_spec (length rc) (S b)); [discriminate|lia].
Qed.

(* ---- chan_recv_pre ---- *)
Lemma chan_recv_pre_ok : forall e c cb m,
  me e = Some m -> clk_room e m -> alive e m ->
  (forall t, In t (ch_wsend c) -> alive e t) ->
  chan_recv_pre e c cb <> None.
Proof.
  intros e c cb m Hme (cm & Hc & Hl & Hb) Hm Hal. unfold chan_recv_pre. rewrite Hme.
  destruct (_ && Nat.eqb (ch_senders c) 0); [discriminate|].
  assert (Hfin : forall e1, e_clock e1 m = Some cm -> alive e1 m ->
     match e_increment_clock e1 m with
     | Some e2 => if receiver_must_block c
                  then match e_block e2 m false with Some e3 => Some (e3, set_wrecv c (ch_wrecv c ++ [m]), RvBlock) | None => None end
                  else Some (e2, c, RvOk 0)
     | None => None end <> None).
  { intros e1 Hc1 Hm1. destruct (incr_ok e1 m cm 1 Hc1 Hl) as (e2 & cm2 & -> & _ & _ & _ & (_ & Hs2)); [cbn; lia|].
    destruct (receiver_must_block c); [|discriminate].
    destruct Hm1 as (s & Hs & Hne). destruct (e_block_ok e2 m false s) as (e3 & ->); [rewrite Hs2; assumption|assumption|discriminate]. }
  destruct (is_rendezvous c && _) eqn:Hre.
  - destruct (ch_wsend c) as [|tid ws] eqn:Hws.
    + destruct (negb cb); [discriminate|]. cbn [negb andb].
      destruct (negb (is_rendezvous c) && _ && _); [discriminate|]. apply Hfin; assumption.
    + destruct (Hal tid) as (s & Hs & Hne); [left; reflexivity|].
      destruct (e_unblock_ok e tid s Hs Hne) as (eu & Heu). rewrite Heu.
      destruct (negb (is_rendezvous c) && _ && _); [discriminate|].
      destruct (e_unblock_spec _ _ _ Heu) as (Hefu & Hcu). apply Hfin; [rewrite Hcu; assumption|].
      eapply alive_eff_upd; [exact Hefu| |exact Hm]. intros a x; unfold upd; destruct (Nat.eqb x tid); auto.
  - destruct (negb (is_rendezvous c) && _ && _); [discriminate|]. apply Hfin; assumption.
Qed.

(* ------------------------------------------------------------------ *)
(* the theorem                                                         *)
(* ------------------------------------------------------------------ *)
Definition actor_of (l : lbl) : option nat :=
  match l with
  | LSend t _ _ | LSendWoken t _ | LRecv t _ | LRecvWoken t | LClone t | LDropTx t | LDropRx t => Some t
  | LEnv _ => None end.

Lemma inv_alive : forall s, Inv0 s -> forall t, In t (ch_wsend (cs_c s) ++ ch_wrecv (cs_c s)) -> alive (cs_e s) t.
Proof.
  intros s H t Hin. destruct (i_states s H t Hin) as [Hs|Hs]; eexists; split; eauto; discriminate.
Qed.

Lemma inv_bounded : forall s, Inv0 s -> ch_wsend (cs_c s) <> [] -> ch_bound (cs_c s) <> None.
Proof. intros s H Hne Hn. apply Hne. apply (i_unb s H Hn). Qed.

Lemma inv_rclock_deliver : forall s, Inv0 s -> room (cs_c s) -> is_rendezvous (cs_c s) = false -> ch_rclock (cs_c s) <> Some [].
Proof.
  intros s H Hroom Hrdv. pose proof (i_rclock s H) as Hrc. unfold room, is_rendezvous in *.
  destruct (ch_bound (cs_c s)) as [[|b]|]; [discriminate| |rewrite Hrc; discriminate].
  destruct Hrc as (rc & -> & Hl). intros Hc; inversion Hc; subst. cbn [length] in Hl. lia.
Qed.

Lemma inv_rclock_take : forall s, Inv0 s -> ch_msgs (cs_c s) <> [] ->
  match ch_rclock (cs_c s), ch_bound (cs_c s) with
  | Some rc, Some (S b) => length rc < S b
  | Some _, None => False
  | _, _ => True end.
Proof.
  intros s H Hne. pose proof (i_rclock s H) as Hrc.
  destruct (ch_bound (cs_c s)) as [[|b]|].
  - destruct (ch_rclock (cs_c s)); exact I.
  - destruct Hrc as (rc & -> & Hl). destruct (ch_msgs (cs_c s)); [congruence|cbn [length] in Hl; lia].
  - rewrite Hrc. exact I.
Qed.

Lemma alive_runnable : forall e t, sts e t = Some Runnable -> alive e t.
Proof. intros e t H; exists Runnable; split; [assumption|discriminate]. Qed.

Theorem chan_no_crash_inv : forall s l,
  Inv s -> guard s l -> (forall t, actor_of l = Some t -> clk_room (cs_e s) t) -> exec_lbl s l <> None.
Proof.
  intros [e c sent rcvd] l HI Hg Hclk.
  pose proof (i_0 _ HI) as H0. pose proof (inv_alive _ H0) as Hal. csimpl.
  destruct l as [t v cb|t v|t cb|t|t|t|t|e']; cbn [guard exec_lbl actor_of] in *; csimpl;
    try specialize (Hclk t eq_refl).
  - (* LSend *)
    destruct Hg as ((Hme & Hrun) & Hidle & Hpos).
    destruct (chan_send_pre e c cb) as [[[e1 c1] r]|] eqn:Hp;
      [|exfalso; eapply chan_send_pre_ok; [exact Hme|exact Hrun|discriminate|exact Hp]].
    pose proof (chan_send_pre_spec _ _ _ _ _ _ _ Hp Hme) as Hs.
    destruct r; try discriminate.
    destruct Hs as (Hrcv & Hsmb & -> & ->). unfold deliver_then.
    destruct (chan_send_deliver e c v) as [[e2 c2]|] eqn:Hd; [discriminate|].
    exfalso. destruct (smb_false_room c Hsmb) as (Hw & Hroom).
    eapply chan_send_deliver_ok; [exact Hme|exact Hclk|exact Hal| | |exact Hd].
    + apply (inv_bounded _ H0).
    + apply (inv_rclock_deliver _ H0); assumption.
  - (* LSendWoken *)
    destruct Hg as ((Hme & Hrun) & Hin).
    assert (Hhead : ch_receivers c <> 0 -> exists rest, ch_wsend c = t :: rest).
    { intros Hr. destruct (i_send _ HI) as (_ & H1); csimpl.
      destruct (ch_wsend c) as [|h rest] eqn:Hw; [destruct Hin|].
      destruct (H1 Hr h rest eq_refl) as (Hbl & _).
      destruct Hin as [->|Hin]; [eauto|]. rewrite (Hbl t Hin) in Hrun. discriminate. }
    destruct (chan_send_woken e c) as [[[e1 c1] r]|] eqn:Hp;
      [|exfalso; eapply chan_send_woken_ok; [exact Hme|exact Hhead|exact Hp]].
    destruct (chan_send_woken_spec _ _ _ _ _ _ Hp Hme) as (-> & Hs).
    destruct r; try discriminate.
    destruct Hs as (Hrcv & rest & Hw & ->). unfold deliver_then.
    destruct (chan_send_deliver e (set_wsend c rest) v) as [[e2 c2]|] eqn:Hd; [discriminate|].
    exfalso. destruct (i_send _ HI) as (_ & H1); csimpl. destruct (H1 Hrcv t rest Hw) as (_ & Hh).
    eapply chan_send_deliver_ok; [exact Hme|exact Hclk| | | |exact Hd]; chsimpl.
    + intros t0 Hi. apply Hal. rewrite Hw. right; assumption.
    + intros _. apply (inv_bounded _ H0); csimpl. rewrite Hw; discriminate.
    + apply (inv_rclock_deliver (mkCst e c sent rcvd) H0). apply Hh; assumption.
  - (* LRecv *)
    destruct Hg as ((Hme & Hrun) & Hidle & Hpos & Hwr).
    destruct (chan_recv_pre e c cb) as [[[e1 c1] r]|] eqn:Hp.
    2:{ exfalso. eapply chan_recv_pre_ok; [exact Hme|exact Hclk|exact (alive_runnable _ _ Hrun)| |exact Hp].
        intros t0 Hi. apply Hal. apply in_or_app; auto. }
    pose proof (chan_recv_pre_spec _ _ _ _ _ _ _ Hp Hme) as Hs.
    destruct r as [v0| | |]; try discriminate.
    destruct Hs as (_ & Hnd & _ & Hrmb & -> & (Hm1 & Hs1)). unfold take_then.
    destruct (chan_recv_take e1 c) as [[[e2 c2] v]|] eqn:Ht; [discriminate|].
    exfalso. apply receiver_must_block_false_iff in Hrmb. destruct Hrmb as (Hmsgs & _).
    eapply chan_recv_take_ok; [rewrite Hm1; exact Hme| |exact Hmsgs| | | |exact Ht].
    + exists Runnable. rewrite Hs1. split; [assumption|discriminate].
    + intros t0 Hi. destruct (Hal t0 Hi) as (s & Hs & Hne). exists s. rewrite Hs1. auto.
    + apply (inv_bounded _ H0).
    + apply (inv_rclock_take _ H0); assumption.
  - (* LRecvWoken *)
    destruct Hg as ((Hme & Hrun) & Hin).
    assert (Hw : ch_wrecv c = [t]).
    { pose proof (i_wrecv1 _ H0) as Hl; csimpl. destruct (ch_wrecv c) as [|r [|r2 wr]]; [destruct Hin| |cbn [length] in Hl; lia].
      destruct Hin as [->|[]]; reflexivity. }
    destruct (chan_recv_woken e c) as [[[e1 c1] r]|] eqn:Hp;
      [|exfalso; eapply chan_recv_woken_ok; [exact Hme| |exact Hp]; intros _; eauto].
    destruct (chan_recv_woken_spec _ _ _ _ _ _ Hp Hme) as (-> & Hs).
    destruct r as [v0| | |]; try discriminate.
    destruct Hs as (_ & Hnd & rest & Hw' & ->). unfold take_then.
    destruct (chan_recv_take e (set_wrecv c rest)) as [[[e2 c2] v]|] eqn:Ht; [discriminate|].
    exfalso.
    assert (Hmsgs : ch_msgs c <> []).
    { assert (Hor : ch_msgs c <> [] \/ ch_senders c = 0) by (apply (i_recv _ HI t); csimpl; assumption).
      destruct Hor as [H|H]; [assumption|]. intros Hc; apply Hnd; split; assumption. }
    rewrite Hw in Hw'; inversion Hw'; subst rest.
    eapply chan_recv_take_ok; [exact Hme|exact (alive_runnable _ _ Hrun)| | | | |exact Ht]; chsimpl.
    + assumption.
    + intros t0 Hi. apply Hal. rewrite app_nil_r in Hi. apply in_or_app; auto.
    + apply (inv_bounded _ H0).
    + apply (inv_rclock_take (mkCst e c sent rcvd) H0); assumption.
  - (* LClone *)
    unfold chan_clone_tx, on_chan. cbn [get_obj nth_error set_obj]. discriminate.
  - (* LDropTx *)
    destruct Hg as ((Hme & Hrun) & Hidle & Hpos & Hborrow).
    unfold chan_drop_tx. rewrite (should_stop_me e t Hme). destruct (panicking e); [discriminate|].
    unfold on_chan; cbn [get_obj nth_error]. destruct (ch_senders c) as [|n]; [lia|].
    destruct (Nat.eqb n 0); [|cbn [set_obj]; discriminate].
    change (ch_wrecv (set_senders c n)) with (ch_wrecv c).
    destruct (unblock_all_ok (ch_wrecv c) e) as (e1 & ->); [|cbn [set_obj]; discriminate].
    intros t0 Hi. apply Hal. apply in_or_app; auto.
  - (* LDropRx *)
    destruct Hg as ((Hme & Hrun) & Hidle & Hpos & Hborrow).
    unfold chan_drop_rx. rewrite (should_stop_me e t Hme). destruct (panicking e); [discriminate|].
    unfold on_chan; cbn [get_obj nth_error]. destruct (ch_receivers c) as [|n]; [lia|].
    destruct (Nat.eqb n 0); [|cbn [set_obj]; discriminate].
    change (ch_wsend (set_receivers c n)) with (ch_wsend c).
    destruct (unblock_all_ok (ch_wsend c) e) as (e1 & ->); [|cbn [set_obj]; discriminate].
    intros t0 Hi. apply Hal. apply in_or_app; auto.
  - discriminate.
Qed.

Theorem chan_no_crash : forall b s l,
  reachable b s -> guard s l -> (forall t, actor_of l = Some t -> clk_room (cs_e s) t) -> exec_lbl s l <> None.
Proof. intros b s l Hr; apply chan_no_crash_inv; exact (reachable_inv b s Hr). Qed.

(* the preconditions the transition system provides to the panicking spots, one by one *)
Theorem woken_sender_is_head : forall b s t,
  reachable b s -> In t (ch_wsend (cs_c s)) -> sts (cs_e s) t = Some Runnable -> ch_receivers (cs_c s) <> 0 ->
  exists rest, ch_wsend (cs_c s) = t :: rest.                       (* assert_eq!(head, me) in send *)
Proof.
  intros b s t Hr Hin Hrun Hrcv. destruct (i_send _ (reachable_inv b s Hr)) as (_ & H1).
  destruct (ch_wsend (cs_c s)) as [|h rest] eqn:Hw; [destruct Hin|].
  destruct (H1 Hrcv h rest eq_refl) as (Hbl & _).
  destruct Hin as [->|Hin]; [eauto|]. rewrite (Hbl t Hin) in Hrun. discriminate.
Qed.

Theorem woken_receiver_is_head_and_has_message : forall b s t,
  reachable b s -> In t (ch_wrecv (cs_c s)) -> sts (cs_e s) t = Some Runnable ->
  ch_wrecv (cs_c s) = [t] /\ (~ rv_disc (cs_c s) -> ch_msgs (cs_c s) <> []).   (* assert_eq!(head, me); messages.remove(0) *)
Proof.
  intros b s t Hr Hin Hrun. pose proof (reachable_inv b s Hr) as HI. split.
  - pose proof (i_wrecv1 _ (i_0 _ HI)) as Hl. destruct (ch_wrecv (cs_c s)) as [|r [|r2 wr]]; [destruct Hin| |cbn [length] in Hl; lia].
    destruct Hin as [->|[]]; reflexivity.
  - intros Hnd. assert (Hor : ch_msgs (cs_c s) <> [] \/ ch_senders (cs_c s) = 0) by (apply (i_recv _ HI t); assumption).
    destruct Hor as [H|H]; [assumption|]. intros Hc; apply Hnd; split; assumption.
Qed.

Theorem receiver_clock_shape : forall b s,
  reachable b s ->
  match ch_bound (cs_c s) with
  | None => ch_rclock (cs_c s) = None                                  (* no remove(0)/push on an unbounded channel *)
  | Some 0 => True
  | Some k => exists rc, ch_rclock (cs_c s) = Some rc /\ length rc + length (ch_msgs (cs_c s)) = k
              (* hence receiver_clock.remove(0) has an element when there is room, and len < bound when a message is taken *)
  end.
Proof. intros b s Hr. exact (i_rclock _ (i_0 _ (reachable_inv b s Hr))). Qed.

Theorem waiting_senders_bounded : forall b s,
  reachable b s -> ch_wsend (cs_c s) <> [] -> ch_bound (cs_c s) <> None.   (* expect("can't have waiting senders on an unbounded channel") *)
Proof. intros b s Hr. apply inv_bounded. exact (i_0 _ (reachable_inv b s Hr)). Qed.
