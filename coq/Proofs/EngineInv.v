(* The invariant of Execution::run (run_loop / run_seg) and its one-step preservation lemmas.
   No Admitted / Axiom. *)
From Coq Require Import List NArith Bool Arith Lia.
From SV Require Import Clock.VClock Prim.Objects Engine.Exec Engine.Inv Sched.Replay Engine.Stmt
  Proofs.EngineBase Proofs.SchedSpec.
Import ListNotations.

(* ------------------------------------------------------------------ *)
(* functions on traces (newest event first)                            *)
(* ------------------------------------------------------------------ *)
(* the answer of the last decision *)
Fixpoint lc (tr : list event) : option nat :=
  match tr with
  | [] => None
  | EvDecision _ _ _ _ ch :: _ => ch
  | _ :: r => lc r
  end.
Fixpoint chain_ok (tr : list event) : Prop :=
  match tr with
  | [] => True
  | EvDecision _ _ cur _ _ :: r => cur = lc r /\ chain_ok r
  | _ :: r => chain_ok r
  end.
Fixpoint ops_ok (tr : list event) : Prop :=
  match tr with
  | [] => True
  | EvOp t _ _ _ :: r => lc r = Some t /\ ops_ok r
  | _ :: r => ops_ok r
  end.

Lemma existsb_eqb_in : forall t l, existsb (Nat.eqb t) l = true <-> In t l.
Proof.
  intros t l. rewrite existsb_exists. split.
  - intros (x & Hx & E). apply Nat.eqb_eq in E; subst; exact Hx.
  - intros H. exists t; split; auto. apply Nat.eqb_refl.
Qed.

Lemma existsb_eqb_notin : forall t l, ~ In t l -> existsb (Nat.eqb t) l = false.
Proof.
  intros t l H. destruct (existsb (Nat.eqb t) l) eqn:E; [|reflexivity].
  apply existsb_eqb_in in E. contradiction.
Qed.

Lemma sched_in_range_len : forall e e' s, length (tasks e') = length (tasks e) ->
  sched_in_range e s -> sched_in_range e' s.
Proof. intros e e' s H; unfold sched_in_range; destruct s; auto. rewrite H; auto. Qed.

Lemma filter_filter' : forall A (f g : A -> bool) l,
  filter f (filter g l) = filter (fun x => g x && f x) l.
Proof.
  intros A f g l; induction l as [|x r IH]; [reflexivity|]. cbn [filter].
  destruct (g x); cbn [filter andb]; [destruct (f x)|]; rewrite IH; reflexivity.
Qed.

(* ------------------------------------------------------------------ *)
(* advance                                                             *)
(* ------------------------------------------------------------------ *)
Lemma advance_tasks : forall e, tasks (advance e) = tasks e.
Proof. intros e; unfold advance; cbn; destruct (next e); reflexivity. Qed.
Lemma advance_live : forall e, live (advance e) = live e.
Proof. intros e; unfold advance; cbn; destruct (next e); reflexivity. Qed.
Lemma advance_current : forall e, current (advance e) = next e.
Proof. intros e; unfold advance; cbn; destruct (next e); reflexivity. Qed.
Lemma advance_next : forall e, next (advance e) = SNone.
Proof. intros e; unfold advance; cbn; destruct (next e); reflexivity. Qed.
Lemma advance_reset : forall e, steps_reset_at (advance e) = steps_reset_at e.
Proof. intros e; unfold advance; cbn; destruct (next e); reflexivity. Qed.
Lemma advance_recorded_len : forall e, length (recorded e) <= length (recorded (advance e)).
Proof. intros e; unfold advance; cbn; destruct (next e); cbn; lia. Qed.
Lemma advance_recorded_nontask : forall e, (forall t, next e <> SSome t) -> recorded (advance e) = recorded e.
Proof. intros e H; unfold advance; cbn; destruct (next e); try reflexivity. exfalso; eapply H; reflexivity. Qed.
Lemma advance_rok : forall e, rok e -> rok (advance e).
Proof. intros e H; unfold rok in *. rewrite advance_reset. pose proof (advance_recorded_len e). lia. Qed.

Lemma WF_advance : forall e, WF e -> WF (advance e).
Proof.
  intros e W. apply (WF_regs e).
  - exact W.
  - apply advance_tasks.
  - apply advance_live.
  - apply advance_rok; exact (wf_reset _ W).
  - rewrite advance_current. eapply sched_in_range_len; [|exact (wf_next _ W)]. rewrite advance_tasks; reflexivity.
  - rewrite advance_next; exact I.
Qed.

(* ------------------------------------------------------------------ *)
(* the invariant                                                       *)
(* ------------------------------------------------------------------ *)
Section Invariant.
Context {SS : Type} (sch : scheduler SS) (ms : max_steps).

(* what is known about every recorded decision *)
Definition dec_ok (ev : event) : Prop :=
  match ev with
  | EvDecision pre off cur y ch =>
      WF pre /\ off = offered_of pre /\ y = has_yielded pre /\ next pre = SNone
      /\ cur = sched_id (current pre) /\ below_bound ms pre /\ fin_cond pre = false
      /\ (exists st st', s_next_task sch st off cur y = (ch, st'))
  | _ => True
  end.

Definition none_ok (e : exec) (tr : list event) : Prop :=
  forall pre off cur y, In (EvDecision pre off cur y None) tr ->
    next e = SStopped /\ hd_error tr = Some (EvDecision pre off cur y None).

Definition bk (e : exec) (tr : list event) : Prop :=
  match next e with
  | SNone => sched_id (current e) = lc tr
  | SSome t => lc tr = Some t /\ exists tk, get_task e t = Some tk /\ is_runnable tk = true
  | SStopped => True
  | SFinished => fin_cond e = true
  end.

Definition conts_inv (e : exec) (cs : list (option code)) : Prop :=
  length cs = length (tasks e)
  /\ (forall t c, nth_error cs t = Some (Some c) -> code_ok c)
  /\ (forall t tk, get_task e t = Some tk -> is_finished tk = false -> exists c, nth_error cs t = Some (Some c)).

Record LInvC (e : exec) (cs : list (option code)) (tr : list event) : Prop := mkLInv {
  li_wf : WF e;
  li_conts : conts_inv e cs;
  li_decs : Forall dec_ok tr;
  li_chain : chain_ok tr;
  li_ops : ops_ok tr;
  li_none : none_ok e tr;
  li_bk : bk e tr;
}.

Definition LInv (w : world) : Prop := LInvC (w_e w) (w_conts w) (w_trace w).

(* what still holds when a task panics or the runtime rejects the scheduler's answer *)
Record TInv (e : exec) (tr : list event) : Prop := mkTInv {
  ti_wf : WF e;
  ti_decs : Forall dec_ok tr;
  ti_chain : chain_ok tr;
  ti_ops : ops_ok tr;
  ti_none : forall pre off cur y, ~ In (EvDecision pre off cur y None) tr;
}.

(* task t is executing a segment *)
Definition running (e : exec) (tr : list event) (t : nat) : Prop :=
  current e = SSome t /\ next e = SNone /\ lc tr = Some t
  /\ exists tk, get_task e t = Some tk /\ is_finished tk = false.

Lemma none_absent : forall e tr, none_ok e tr -> next e <> SStopped ->
  forall pre off cur y, ~ In (EvDecision pre off cur y None) tr.
Proof. intros e tr H Hn pre off cur y Hin. apply H in Hin. tauto. Qed.

Lemma none_ok_absent : forall e tr, (forall pre off cur y, ~ In (EvDecision pre off cur y None) tr) -> none_ok e tr.
Proof. intros e tr H pre off cur y Hin. exfalso; eapply H; eauto. Qed.

Lemma conts_inv_tasks : forall e e' cs, tasks e' = tasks e -> conts_inv e cs -> conts_inv e' cs.
Proof.
  intros e e' cs Ht (H1 & H2 & H3). unfold conts_inv. rewrite Ht. repeat split; auto.
  intros t tk Hg Hf. rewrite (get_task_tasks _ _ _ Ht) in Hg. eauto.
Qed.

Lemma conts_inv_frame : forall e e' cs, same_frame e e' -> conts_inv e cs -> conts_inv e' cs.
Proof.
  intros e e' cs F (H1 & H2 & H3).
  pose proof F as (_ & _ & _ & _ & _ & _ & _ & A8 & A9 & _).
  unfold conts_inv. rewrite A8. repeat split; auto.
  intros t tk' Hg' Hf'.
  destruct (get_task_some e t) as [tk Hg]. { rewrite <- A8. eapply get_task_lt; eauto. }
  apply (H3 t tk Hg). rewrite <- (A9 _ _ _ Hg Hg'). exact Hf'.
Qed.

Lemma bk_regs : forall e e' tr, tasks e' = tasks e -> live e' = live e -> current e' = current e -> next e' = next e ->
  bk e tr -> bk e' tr.
Proof.
  intros e e' tr Ht Hl Hc Hn H. unfold bk in *. rewrite Hn, Hc.
  destruct (next e); auto.
  - destruct H as (A & tk & Hg & Hr). split; auto. exists tk; split; auto.
    rewrite (get_task_tasks _ _ _ Ht); exact Hg.
  - rewrite (fin_cond_tasks_live _ _ Ht Hl); exact H.
Qed.

(* only counters / flags changed *)
Lemma LInvC_regs : forall e e' cs tr,
  LInvC e cs tr -> tasks e' = tasks e -> live e' = live e -> rok e' ->
  current e' = current e -> next e' = next e -> LInvC e' cs tr.
Proof.
  intros e e' cs tr L Ht Hl Hr Hc Hn. destruct L as [W C D Ch O N B].
  assert (Hlen : length (tasks e') = length (tasks e)) by (rewrite Ht; reflexivity).
  constructor; auto.
  - apply (WF_regs e); auto.
    + rewrite Hc. eapply sched_in_range_len; [exact Hlen|exact (wf_current _ W)].
    + rewrite Hn. eapply sched_in_range_len; [exact Hlen|exact (wf_next _ W)].
  - eapply conts_inv_tasks; eauto.
  - unfold none_ok in *. rewrite Hn. exact N.
  - eapply bk_regs; eauto.
Qed.

(* library code ran *)
Lemma LInvC_frame : forall e e' cs tr, LInvC e cs tr -> next e = SNone -> same_frame e e' -> LInvC e' cs tr.
Proof.
  intros e e' cs tr L Hn F. destruct L as [W C D Ch O N B].
  pose proof F as (A1 & A2 & _).
  constructor; auto.
  - eapply same_frame_WF; eauto.
  - eapply conts_inv_frame; eauto.
  - unfold none_ok in *. rewrite A2. exact N.
  - unfold bk in *. rewrite A2, Hn in *. rewrite A1. exact B.
Qed.

Lemma running_frame : forall e e' tr t, running e tr t -> same_frame e e' -> running e' tr t.
Proof.
  intros e e' tr t (Hc & Hn & Hl & tk & Hg & Hf) F.
  pose proof F as (A1 & A2 & _ & _ & _ & _ & _ & A8 & A9 & _).
  unfold running. rewrite A1, A2. repeat split; auto.
  destruct (get_task_some e' t) as [tk' Hg']. { rewrite A8. eapply get_task_lt; eauto. }
  exists tk'; split; auto. rewrite (A9 _ _ _ Hg Hg'). exact Hf.
Qed.

(* ------------------------------------------------------------------ *)
(* one call of `schedule`                                              *)
(* ------------------------------------------------------------------ *)
Lemma WF_pre_of : forall e, WF e -> WF (pre_of e).
Proof.
  intros e W. apply (WF_regs e); auto.
  - exact (wf_reset _ W).
  - exact (wf_current _ W).
  - exact (wf_next _ W).
Qed.

Lemma WF_cons_of : forall e, WF e -> WF (cons_of e).
Proof.
  intros e W. apply (WF_regs e); auto.
  - exact (wf_reset _ W).
  - exact (wf_current _ W).
  - exact (wf_next _ W).
Qed.

Lemma unblock_runnable : forall tk, is_runnable (unblock_task tk) = true.
Proof. reflexivity. Qed.

Lemma LInv_TInv : forall e cs tr, LInvC e cs tr -> next e <> SStopped -> TInv e tr.
Proof.
  intros e cs tr L Hn. destruct L as [W C D Ch O N B]. constructor; auto.
  eapply none_absent; eauto.
Qed.

(* One call of `schedule` from a state satisfying the invariant.  Unless the runtime rejects the
   scheduler's answer the invariant holds afterwards; if it does, only the trace part survives
   (and the execution is about to end). *)
Lemma sched_linv : forall e cs tr st err e' st' evs,
  LInvC e cs tr -> sched_res sch ms e st err e' st' evs ->
  (err <> Some ErrSchedulerBug -> LInvC e' cs (evs ++ tr))
  /\ (err = Some ErrSchedulerBug -> TInv e' (evs ++ tr) /\ ~ sane sch)
  /\ current e' = current e
  /\ length (recorded e') = length (recorded e)
  /\ (err = None -> next e' <> SNone)
  /\ (err = Some ErrStepBound -> next e' = SNone /\ exists n, ms = FailAfter n /\ n <= measure e').
Proof.
  intros e cs tr st err e' st' evs L R.
  destruct R as [Hn | n Hn Hms Hm | n Hn Hms Hm | Hn Hb Hf | ch st' err e' Hn Hb Hf Hc R].
  - (* noop *)
    cbn [app]. split; [intros _; exact L|]. repeat split; auto; try discriminate.
  - (* FailAfter *)
    cbn [app]. split; [|repeat split; auto; try discriminate].
    + intros _. apply (LInvC_regs e); auto. exact (wf_reset _ (li_wf _ _ _ L)).
    + exists n; split; auto.
  - (* ContinueAfter *)
    cbn [app]. pose proof (none_absent _ _ (li_none _ _ _ L)) as Habs.
    rewrite Hn in Habs. specialize (Habs ltac:(discriminate)).
    destruct L as [W C D Ch O N B].
    split; [|repeat split; auto; try discriminate]. intros _.
    constructor; [ | | assumption | assumption | assumption | | ].
    + apply (WF_regs e); auto; [exact (wf_reset _ W)|exact (wf_current _ W)|exact I].
    + eapply conts_inv_tasks; [|exact C]. reflexivity.
    + apply none_ok_absent; exact Habs.
    + exact I.
  - (* finished *)
    cbn [app]. pose proof (none_absent _ _ (li_none _ _ _ L)) as Habs.
    rewrite Hn in Habs. specialize (Habs ltac:(discriminate)).
    destruct L as [W C D Ch O N B].
    split; [|repeat split; auto; try discriminate]. intros _.
    constructor; [ | | assumption | assumption | assumption | | ].
    + apply (WF_regs e); auto; [exact (wf_reset _ W)|exact (wf_current _ W)|exact I].
    + eapply conts_inv_tasks; [|exact C]. reflexivity.
    + apply none_ok_absent; exact Habs.
    + exact Hf.
  - (* a decision *)
    pose proof (none_absent _ _ (li_none _ _ _ L)) as Habs.
    rewrite Hn in Habs. specialize (Habs ltac:(discriminate)).
    destruct L as [W C D Ch O N B].
    pose proof (WF_pre_of _ W) as WP. pose proof (WF_cons_of _ W) as WC.
    set (dec := EvDecision (pre_of e) (offered_of (pre_of e)) (sched_id (current e)) (has_yielded e) ch) in *.
    cbn [app].
    assert (Ddec : dec_ok dec).
    { unfold dec, dec_ok. split; [exact WP|]. split; [reflexivity|]. split; [reflexivity|].
      split; [exact Hn|]. split; [reflexivity|]. split; [exact Hb|]. split; [exact Hf|]. eauto. }
    assert (D' : Forall dec_ok (dec :: tr)) by (constructor; auto).
    assert (Ch' : chain_ok (dec :: tr)).
    { unfold dec; cbn [chain_ok]. split; auto. unfold bk in B. rewrite Hn in B. exact B. }
    assert (O' : ops_ok (dec :: tr)) by exact O.
    assert (Habs' : forall t, ch = Some t -> forall pre off cur y, ~ In (EvDecision pre off cur y None) (dec :: tr)).
    { intros t Et pre off cur y [E|Hin].
      - unfold dec in E. inversion E; congruence.
      - eapply Habs; eauto. }
    inversion R as [| t tk Hg Hr | t tk e1 Hg Hr Hs Hu | t Hbug]; subst.
    + (* None *)
      split; [|repeat split; auto; try discriminate]. intros _.
      constructor; [ | | assumption | assumption | assumption | | ].
      * apply (WF_regs (cons_of e)); auto; [exact (wf_reset _ WC)|exact (wf_current _ WC)|exact I].
      * eapply conts_inv_tasks; [|exact C]. reflexivity.
      * intros pre off cur y [E|Hin]; [|exfalso; eapply Habs; eauto].
        split; [reflexivity|]. rewrite <- E. reflexivity.
      * exact I.
    + (* a runnable task *)
      split; [|repeat split; auto; try discriminate]. intros _.
      constructor; [ | | assumption | assumption | assumption | | ].
      * apply (WF_regs (cons_of e)); auto; [exact (wf_reset _ WC)|exact (wf_current _ WC)|].
        cbn. eapply get_task_lt; exact Hg.
      * eapply conts_inv_tasks; [|exact C]. reflexivity.
      * apply none_ok_absent. eapply Habs'; reflexivity.
      * unfold bk; cbn [next with_current_next]. unfold dec; cbn [lc].
        split; auto. exists tk; split; auto.
    + (* a spuriously woken task *)
      pose proof (e_unblock_frame _ _ _ (wf_reset _ WC) Hu) as F.
      pose proof (same_frame_WF _ _ WC F) as W1.
      pose proof F as (A1 & A2 & A3 & _ & _ & _ & _ & A8 & _ & _).
      assert (Hg1 : get_task e1 t = Some (unblock_task tk)).
      { pose proof Hu as Hu'. rewrite (e_unblock_some _ _ _ Hg (can_spur_unfinished _ Hs)) in Hu'.
        injection Hu' as <-. exact (get_task_upd_eq (cons_of e) t unblock_task tk Hg). }
      split; [|repeat split; auto; try discriminate].
      * intros _. constructor; [ | | assumption | assumption | assumption | | ].
        -- apply (WF_regs e1); auto; [exact (wf_reset _ W1)|exact (wf_current _ W1)|].
           cbn. eapply get_task_lt; exact Hg1.
        -- apply (conts_inv_tasks e1); [reflexivity|]. apply (conts_inv_frame (cons_of e)); [exact F|].
           apply (conts_inv_tasks e); [reflexivity|exact C].
        -- apply none_ok_absent. eapply Habs'; reflexivity.
        -- unfold bk; cbn [next with_current_next]. unfold dec; cbn [lc].
           split; auto. exists (unblock_task tk); split; auto.
      * cbn [recorded with_current_next]. rewrite A3. reflexivity.
    + (* an answer that was not offered: the runtime's assertion fails *)
      pose proof (choice_bug_not_offered _ _ _ WC R) as Hnot.
      split; [intros Hne; congruence|]. split; [|repeat split; auto; try discriminate].
      intros _. split.
      * constructor; auto. eapply Habs'; reflexivity.
      * intros Hsane. apply Hnot. eapply Hsane; exact Hc.
Qed.

(* ------------------------------------------------------------------ *)
(* entering a segment                                                  *)
(* ------------------------------------------------------------------ *)
Lemma advance_rinv : forall e cs tr t, LInvC e cs tr -> next e = SSome t ->
  LInvC (advance e) cs tr /\ running (advance e) tr t.
Proof.
  intros e cs tr t L Hn. destruct L as [W C D Ch O N B].
  unfold bk in B; rewrite Hn in B. destruct B as (B1 & tk & Hg & Hr).
  assert (Habs : forall pre off cur y, ~ In (EvDecision pre off cur y None) tr).
  { apply (none_absent e); auto. rewrite Hn; discriminate. }
  split.
  - constructor; [ | | assumption | assumption | assumption | | ].
    + apply WF_advance; exact W.
    + eapply conts_inv_tasks; [apply advance_tasks|exact C].
    + apply none_ok_absent; exact Habs.
    + unfold bk. rewrite advance_next, advance_current, Hn. cbn. congruence.
  - unfold running. rewrite advance_current, advance_next. repeat split; auto.
    exists tk; split.
    + rewrite (get_task_tasks e); [exact Hg|apply advance_tasks].
    + apply runnable_unfinished; exact Hr.
Qed.

(* ------------------------------------------------------------------ *)
(* steps inside a segment                                              *)
(* ------------------------------------------------------------------ *)
Lemma running_absent : forall e cs tr t, LInvC e cs tr -> running e tr t ->
  forall pre off cur y, ~ In (EvDecision pre off cur y None) tr.
Proof.
  intros e cs tr t L (_ & Hn & _). apply (none_absent e); [exact (li_none _ _ _ L)|].
  rewrite Hn; discriminate.
Qed.

Lemma rinv_atomic : forall e e' cs tr t, LInvC e cs tr -> running e tr t -> same_frame e e' ->
  LInvC e' cs tr /\ running e' tr t.
Proof.
  intros e e' cs tr t L R F. split.
  - eapply LInvC_frame; eauto. destruct R as (_ & Hn & _); exact Hn.
  - eapply running_frame; eauto.
Qed.

Lemma rinv_log : forall e cs tr t tag vals clk, LInvC e cs tr -> running e tr t ->
  LInvC e cs (EvOp t tag vals clk :: tr) /\ running e (EvOp t tag vals clk :: tr) t.
Proof.
  intros e cs tr t tag vals clk L R. pose proof (running_absent _ _ _ _ L R) as Habs.
  destruct L as [W C D Ch O N B]. destruct R as (Hc & Hn & Hl & Ht).
  split.
  - constructor; [assumption | assumption | | assumption | | | assumption].
    + constructor; [exact I|exact D].
    + cbn [ops_ok]. split; auto.
    + apply none_ok_absent. intros pre off cur y [E|Hin]; [discriminate|eapply Habs; eauto].
  - unfold running. repeat split; auto.
Qed.

Lemma rinv_evrandom : forall e cs tr t v, LInvC e cs tr -> running e tr t ->
  LInvC e cs (EvRandom v :: tr) /\ running e (EvRandom v :: tr) t.
Proof.
  intros e cs tr t v L R. pose proof (running_absent _ _ _ _ L R) as Habs.
  destruct L as [W C D Ch O N B]. destruct R as (Hc & Hn & Hl & Ht).
  split.
  - constructor; [assumption | assumption | | assumption | assumption | | assumption].
    + constructor; [exact I|exact D].
    + apply none_ok_absent. intros pre off cur y [E|Hin]; [discriminate|eapply Habs; eauto].
  - unfold running. repeat split; auto.
Qed.

Lemma rinv_record : forall e cs tr t s, LInvC e cs tr -> running e tr t ->
  LInvC (with_recorded e (s :: recorded e)) cs tr /\ running (with_recorded e (s :: recorded e)) tr t.
Proof.
  intros e cs tr t s L R. split.
  - apply (LInvC_regs e); auto.
    pose proof (wf_reset _ (li_wf _ _ _ L)) as H. unfold rok; cbn. lia.
  - exact R.
Qed.

(* spawn_thread_now *)
Lemma spawn_inv : forall e e' tid, rok e -> spawn_thread_now e = Some (e', tid) ->
  exists e2 c, same_frame e e2 /\ tid = length (tasks e)
    /\ e' = with_live (with_tasks e2 (tasks e2 ++ [mkTask Runnable false false false false None c])) (live e2 ++ [tid]).
Proof.
  intros e e' tid Hr H. unfold spawn_thread_now in H.
  destruct (me e) as [p|]; [|discriminate].
  destruct (e_increment_clock e p) as [e1|] eqn:H1; [|discriminate].
  destruct (e_clock e1 p) as [pc|]; [|discriminate].
  destruct (extend pc (length (tasks e))) as [c|]; [|discriminate].
  destruct (upd_task e1 p (fun tk => set_clock tk c)) as [e2|] eqn:H2; [|discriminate].
  inversion H; subst. exists e2, c.
  pose proof (e_increment_clock_frame _ _ _ Hr H1) as F1.
  assert (F2 : same_frame e1 e2).
  { eapply upd_task_frame; [|eapply same_frame_rok; exact F1|exact H2]. intros tk _; reflexivity. }
  split; [eapply same_frame_trans; eauto|]. split; reflexivity.
Qed.

Definition new_task (c : vclock) : task := mkTask Runnable false false false false None c.
Definition add_task (e2 : exec) (c : vclock) : exec :=
  with_live (with_tasks e2 (tasks e2 ++ [new_task c])) (live e2 ++ [length (tasks e2)]).

Lemma get_task_add_old : forall e2 c t, t < length (tasks e2) -> get_task (add_task e2 c) t = get_task e2 t.
Proof. intros e2 c t H. unfold get_task, add_task; cbn. apply nth_error_app1; exact H. Qed.

Lemma get_task_add_new : forall e2 c, get_task (add_task e2 c) (length (tasks e2)) = Some (new_task c).
Proof.
  intros e2 c. unfold get_task, add_task; cbn. rewrite nth_error_app2 by lia.
  rewrite Nat.sub_diag. reflexivity.
Qed.

Lemma get_task_add_inv : forall e2 c t tk, get_task (add_task e2 c) t = Some tk ->
  (t < length (tasks e2) /\ get_task e2 t = Some tk) \/ (t = length (tasks e2) /\ tk = new_task c).
Proof.
  intros e2 c t tk H. destruct (Nat.lt_ge_cases t (length (tasks e2))) as [Hlt|Hge].
  - left. rewrite get_task_add_old in H by exact Hlt. auto.
  - right. pose proof (get_task_lt _ _ _ H) as Hl. unfold add_task in Hl; cbn in Hl.
    rewrite app_length in Hl; cbn in Hl.
    assert (t = length (tasks e2)) by lia. subst t. rewrite get_task_add_new in H. inversion H; auto.
Qed.

Lemma WF_add_task : forall e2 c, WF e2 -> WF (add_task e2 c).
Proof.
  intros e2 c W. set (n := length (tasks e2)).
  assert (Hlen : length (tasks (add_task e2 c)) = S n).
  { unfold add_task; cbn. rewrite app_length; cbn. unfold n; lia. }
  constructor.
  - rewrite Hlen. rewrite seq_S. rewrite filter_app. cbn [plus filter].
    assert (Hn : unfinished (add_task e2 c) n = true).
    { unfold unfinished, n. rewrite get_task_add_new. reflexivity. }
    rewrite Hn.
    assert (Hold : filter (unfinished (add_task e2 c)) (seq 0 n) = live e2).
    { rewrite (wf_live _ W). apply filter_ext_in. intros t Ht. apply in_seq in Ht.
      unfold unfinished. rewrite get_task_add_old by (unfold n in Ht; lia). reflexivity. }
    rewrite Hold. reflexivity.
  - pose proof (wf_current _ W) as H. unfold sched_in_range in *. change (current (add_task e2 c)) with (current e2).
    destruct (current e2); auto. rewrite Hlen. unfold n; lia.
  - pose proof (wf_next _ W) as H. unfold sched_in_range in *. change (next (add_task e2 c)) with (next e2).
    destruct (next e2); auto. rewrite Hlen. unfold n; lia.
  - exact (wf_reset _ W).
Qed.

Lemma conts_inv_add : forall e2 c cs child, conts_inv e2 cs -> code_ok child ->
  conts_inv (add_task e2 c) (cs ++ [Some child]).
Proof.
  intros e2 c cs child (H1 & H2 & H3) Hc. unfold conts_inv. repeat split.
  - unfold add_task; cbn. rewrite !app_length; cbn. lia.
  - intros t k Hk. destruct (Nat.lt_ge_cases t (length cs)) as [Hlt|Hge].
    + rewrite nth_error_app1 in Hk by exact Hlt. eauto.
    + rewrite nth_error_app2 in Hk by exact Hge.
      destruct (t - length cs) as [|m]; cbn in Hk.
      * inversion Hk; subst; exact Hc.
      * destruct m; discriminate.
  - intros t tk Hg Hf. apply get_task_add_inv in Hg. destruct Hg as [[Hlt Hg]|[-> ->]].
    + destruct (H3 _ _ Hg Hf) as [k Hk]. exists k. rewrite nth_error_app1; [exact Hk|]. rewrite H1; exact Hlt.
    + exists child. rewrite nth_error_app2 by lia. rewrite H1, Nat.sub_diag. reflexivity.
Qed.

Lemma rinv_spawn : forall e e' tid cs tr t child, LInvC e cs tr -> running e tr t ->
  spawn_thread_now e = Some (e', tid) -> code_ok child ->
  LInvC e' (cs ++ [Some child]) tr /\ running e' tr t.
Proof.
  intros e e' tid cs tr t child L R H Hc.
  destruct (spawn_inv _ _ _ (wf_reset _ (li_wf _ _ _ L)) H) as (e2 & c & F & Htid & He').
  destruct (rinv_atomic _ _ _ _ _ L R F) as [L2 R2].
  assert (E : e' = add_task e2 c).
  { rewrite He'. unfold add_task, new_task. rewrite Htid.
    destruct F as (_ & _ & _ & _ & _ & _ & _ & A8 & _). rewrite A8. reflexivity. }
  rewrite E. clear E He' H.
  destruct L2 as [W C D Ch O N B]. destruct R2 as (Rc & Rn & Rl & tk & Hg & Hf).
  split.
  - constructor; [ | | assumption | assumption | assumption | exact N | ].
    + apply WF_add_task; exact W.
    + apply conts_inv_add; auto.
    + unfold bk in *. change (next (add_task e2 c)) with (next e2). rewrite Rn in *. exact B.
  - unfold running. repeat split; auto. exists tk; split; auto.
    rewrite get_task_add_old; [exact Hg|eapply get_task_lt; exact Hg].
Qed.

(* ------------------------------------------------------------------ *)
(* leaving a segment                                                   *)
(* ------------------------------------------------------------------ *)
Lemma linv_set_cont : forall e cs tr t k, LInvC e cs tr -> code_ok k -> LInvC e (set_cont cs t (Some k)) tr.
Proof.
  intros e cs tr t k L Hk. destruct L as [W C D Ch O N B].
  constructor; [assumption | | assumption | assumption | assumption | assumption | assumption].
  destruct C as (H1 & H2 & H3). unfold conts_inv, set_cont. repeat split.
  - rewrite list_upd_length; exact H1.
  - intros t' c Hc. apply nth_error_list_upd_some in Hc. destruct Hc as (y & Hy & [E|[_ E]]).
    + subst y. eauto.
    + inversion E; subst; exact Hk.
  - intros t' tk Hg Hf. destruct (H3 _ _ Hg Hf) as [c Hc].
    destruct (Nat.eq_dec t t') as [E|NE].
    + subst t'. exists k. apply (nth_error_list_upd_eq _ _ _ (fun _ => Some k) _ Hc).
    + exists c. rewrite nth_error_list_upd_neq by exact NE. exact Hc.
Qed.

Lemma rinv_finish : forall e cs tr t, LInvC e cs tr -> running e tr t ->
  exists e3, finish_current e = Some e3 /\ LInvC e3 (set_cont cs t None) tr.
Proof.
  intros e cs tr t L R. destruct L as [W C D Ch O N B]. destruct R as (Rc & Rn & Rl & tk & Hg & Hf).
  set (e1 := with_tasks e (list_upd (tasks e) t (fun tk => set_state tk Finished))).
  set (e3 := with_live e1 (filter (fun x => negb (Nat.eqb x t)) (live e1))).
  exists e3. split.
  { unfold finish_current, me. rewrite Rc; cbn [sched_id]. rewrite Hg, Hf.
    rewrite (upd_task_some _ _ _ _ Hg). reflexivity. }
  assert (Hlen : length (tasks e3) = length (tasks e)).
  { unfold e3, e1; cbn. apply list_upd_length. }
  assert (Hgt : get_task e3 t = Some (set_state tk Finished)).
  { exact (get_task_upd_eq e t (fun tk => set_state tk Finished) tk Hg). }
  assert (Hgo : forall t', t <> t' -> get_task e3 t' = get_task e t').
  { intros t' NE. exact (get_task_upd_neq e t t' (fun tk => set_state tk Finished) NE). }
  constructor; [ | | assumption | assumption | assumption | | ].
  - constructor.
    + rewrite Hlen. change (live e3) with (filter (fun x => negb (Nat.eqb x t)) (live e)).
      rewrite (wf_live _ W), filter_filter'. apply filter_ext. intros x.
      unfold unfinished. destruct (Nat.eq_dec t x) as [E|NE].
      * subst x. rewrite Hgt, Nat.eqb_refl. cbn. apply andb_false_r.
      * rewrite (Hgo _ NE). assert (Nat.eqb x t = false) as -> by (apply Nat.eqb_neq; congruence).
        cbn. apply andb_true_r.
    + eapply sched_in_range_len; [exact Hlen|exact (wf_current _ W)].
    + eapply sched_in_range_len; [exact Hlen|exact (wf_next _ W)].
    + exact (wf_reset _ W).
  - destruct C as (H1 & H2 & H3). unfold conts_inv, set_cont. repeat split.
    + rewrite list_upd_length, Hlen; exact H1.
    + intros t' c Hc. apply nth_error_list_upd_some in Hc. destruct Hc as (y & Hy & [E|[_ E]]).
      * subst y. eauto.
      * discriminate.
    + intros t' tk' Hg' Hf'. destruct (Nat.eq_dec t t') as [E|NE].
      * subst t'. rewrite Hgt in Hg'. inversion Hg'; subst. discriminate.
      * rewrite (Hgo _ NE) in Hg'. destruct (H3 _ _ Hg' Hf') as [c Hc].
        exists c. rewrite nth_error_list_upd_neq by exact NE. exact Hc.
  - unfold none_ok in *. exact N.
  - unfold bk in *. change (next e3) with (next e). rewrite Rn in *. exact B.
Qed.

End Invariant.
