(* C13, stmt_bound_total: under a step bound n no execution performs more than n steps (decisions
   plus random draws since the last reset_step_count).  The proof rests on the last conjunct of
   `same_frame`: a block of library code never moves the reset point of the step counter backwards.
   No Admitted / Axiom. *)
From Coq Require Import List NArith Bool Arith Lia.
From SV Require Import Clock.VClock Prim.Objects Engine.Exec Engine.Inv Sched.Replay Engine.Stmt
  Proofs.EngineBase Proofs.SchedSpec Proofs.EngineInv Proofs.EngineRun.
Import ListNotations.

Lemma sframe_measure : forall e e', sframe e e' -> measure e' <= measure e.
Proof.
  intros e e' [(_ & _ & A3 & _) Hr]. unfold measure. rewrite A3. lia.
Qed.

Lemma sframe_next : forall e e', sframe e e' -> next e' = next e.
Proof. intros e e' [(_ & A2 & _) _]. exact A2. Qed.

Lemma spawn_measure : forall e e' tid, rok e -> spawn_thread_now e = Some (e', tid) ->
  measure e' <= measure e /\ next e' = next e.
Proof.
  intros e e' tid Hr H. unfold spawn_thread_now in H.
  destruct (me e) as [p|]; [|discriminate].
  destruct (e_increment_clock e p) as [e1|] eqn:H1; [|discriminate].
  destruct (e_clock e1 p) as [pc|]; [|discriminate].
  destruct (extend pc (length (tasks e))) as [c|]; [|discriminate].
  destruct (upd_task e1 p (fun tk => set_clock tk c)) as [e2|] eqn:H2; [|discriminate].
  inversion H; subst.
  pose proof (e_increment_clock_sframe _ _ _ Hr H1) as F1.
  assert (F2 : sframe e1 e2).
  { eapply upd_task_sframe; [|eapply sframe_rok; exact F1|exact H2]. intros tk _; reflexivity. }
  pose proof (sframe_trans _ _ _ F1 F2) as F.
  split; [exact (sframe_measure _ _ F)|exact (sframe_next _ _ F)].
Qed.

Lemma finish_measure : forall e e3, finish_current e = Some e3 -> measure e3 = measure e /\ next e3 = next e.
Proof.
  intros e e3 H. unfold finish_current in H. destruct (me e) as [t|]; [|discriminate].
  destruct (get_task e t) as [tk|]; [|discriminate]. destruct (is_finished tk); [discriminate|].
  destruct (upd_task e t (fun tk => set_state tk Finished)) as [e4|] eqn:Hu; [|discriminate].
  inversion H; subst. apply upd_task_inv in Hu. destruct Hu as (tk' & _ & ->). split; reflexivity.
Qed.

Lemma measure_advance_task : forall e t, rok e -> next e = SSome t -> measure (advance e) = S (measure e).
Proof.
  intros e t Hr Hn. unfold measure, rok in *. rewrite advance_reset.
  assert (E : length (recorded (advance e)) = S (length (recorded e))).
  { unfold advance. cbn [current with_current_next]. rewrite Hn. reflexivity. }
  rewrite E. lia.
Qed.

Lemma measure_advance_other : forall e, (forall t, next e <> SSome t) -> measure (advance e) = measure e.
Proof. intros e H. unfold measure. rewrite advance_recorded_nontask by exact H. rewrite advance_reset. reflexivity. Qed.

Section Total.
Context {SS : Type} (sch : scheduler SS) (ms : max_steps) (n : nat) (Hbn : bound_of ms = Some n).

Notation LInv := (LInv sch ms).

(* the step counter is within the bound, and strictly below it while a chosen task waits to be resumed *)
Definition MB (e : exec) : Prop := measure e <= n /\ (forall t, next e = SSome t -> measure e < n).

Definition conts_sok (cs : list (option code)) : Prop :=
  forall t c, nth_error cs t = Some (Some c) -> code_sok c.

Lemma MB_le : forall e e', MB e -> measure e' <= measure e -> next e' = next e -> MB e'.
Proof.
  intros e e' [H1 H2] Hm Hn. split; [lia|]. intros t Ht. rewrite Hn in Ht. specialize (H2 t Ht). lia.
Qed.

Lemma exhausted_iff : forall e, bound_exhausted ms e = true <-> n <= measure e.
Proof.
  intros e. unfold bound_exhausted. destruct ms as [|m|m]; cbn in Hbn; inversion Hbn; subst;
    unfold is_step_bound_exceeded; fold (measure e); apply Nat.leb_le.
Qed.

Lemma mb_sched : forall e st err e' st' evs, WF e -> MB e -> sched_res sch ms e st err e' st' evs -> MB e'.
Proof.
  intros e st err e' st' evs W M R.
  destruct R as [Hn | m Hn Hms Hm | m Hn Hms Hm | Hn Hb Hf | ch st' err e' Hn Hb Hf Hc R].
  - exact M.
  - eapply MB_le; [exact M|reflexivity|reflexivity].
  - split; [exact (proj1 M)|]. intros t Ht; discriminate.
  - split; [exact (proj1 M)|]. intros t Ht; discriminate.
  - specialize (Hb n Hbn).
    assert (Hle : measure e' <= measure e).
    { inversion R as [| t tk Hg Hr | t tk e1 Hg Hr Hs Hu |]; subst; try (cbn; unfold measure; cbn; lia).
      pose proof (e_unblock_sframe _ _ _ (wf_reset _ (WF_cons_of _ W)) Hu) as F.
      apply sframe_measure in F. unfold measure in *. cbn in *. lia. }
    split; [lia|]. intros t _. lia.
Qed.

Lemma mb_advance : forall e t, rok e -> MB e -> next e = SSome t -> MB (advance e).
Proof.
  intros e t Hr [H1 H2] Hn. split.
  - rewrite (measure_advance_task _ _ Hr Hn). specialize (H2 t Hn). lia.
  - intros t' Ht. rewrite advance_next in Ht. discriminate.
Qed.

(* thread::switch() *)
Definition swr_world (r : switch_res (SS:=SS)) : world :=
  match r with SwContinue w _ | SwYield w _ | SwPanic w _ => w end.

Lemma do_switch_mb : forall w st t, LInv w -> running (w_e w) (w_trace w) t -> MB (w_e w) ->
  MB (w_e (swr_world (do_switch sch ms w st))) /\ w_conts (swr_world (do_switch sch ms w st)) = w_conts w.
Proof.
  intros w st t L R M. unfold do_switch. cbv zeta.
  destruct (panicking (w_e w) && negb (in_cleanup (w_e w))); [split; [exact M|reflexivity]|].
  destruct (schedule sch ms (w_e w) st) as [[[err e1] st1] evs] eqn:Hs.
  apply schedule_spec in Hs.
  pose proof (mb_sched _ _ _ _ _ _ (li_wf _ _ _ _ _ L) M Hs) as M1.
  destruct (sched_linv sch ms _ _ _ _ _ _ _ _ L Hs) as (L1 & _ & Hcur & _).
  rewrite (proj1 R) in Hcur.
  destruct err as [[|]|]; cbn [swr_world w_e w_conts]; try (split; [exact M1|reflexivity]).
  specialize (L1 ltac:(discriminate)).
  destruct (sched_eqb (current e1) (next e1)) eqn:Eq; cbn [swr_world w_e w_conts]; [|split; [exact M1|reflexivity]].
  rewrite Hcur in Eq. apply sched_eqb_some in Eq.
  split; [|reflexivity]. eapply mb_advance; [exact (wf_reset _ (li_wf _ _ _ _ _ L1))|exact M1|exact Eq].
Qed.

(* when the bound is exhausted, thread::switch() never lets the task go on *)
Lemma exhausted_no_continue : forall w st t w1 st1,
  bound_exhausted ms (w_e w) = true -> running (w_e w) (w_trace w) t ->
  do_switch sch ms w st <> SwContinue w1 st1.
Proof.
  intros w st t w1 st1 Hx (Rc & Rn & _) Hd. apply exhausted_iff in Hx.
  unfold do_switch in Hd. cbv zeta in Hd.
  destruct (panicking (w_e w) && negb (in_cleanup (w_e w))); [discriminate|].
  destruct (schedule sch ms (w_e w) st) as [[[err e1] st1'] evs] eqn:Hs.
  apply schedule_spec in Hs.
  destruct Hs as [Hn | m Hn Hms Hm | m Hn Hms Hm | Hn Hb Hf | ch st2 err e2 Hn Hb Hf Hc R].
  - congruence.
  - discriminate.
  - cbn [current next with_current_next] in Hd. rewrite Rc in Hd. cbn [sched_eqb] in Hd. discriminate.
  - specialize (Hb n Hbn). lia.
  - specialize (Hb n Hbn). lia.
Qed.

Theorem run_seg_mb : forall c, code_sok c -> forall w st w' st' r t,
  LInv w -> running (w_e w) (w_trace w) t -> MB (w_e w) -> conts_sok (w_conts w) ->
  run_seg sch ms c w st = (w', st', r) ->
  MB (w_e w') /\ conts_sok (w_conts w') /\ match r with SegYield k => code_sok k | _ => True end.
Proof.
  unfold code_sok.
  induction 1 as [ | | f k Hf Hk IH | k Hk IH | k Hk IH | child k Hc IHc Hk IH | tag vals k Hk IH];
    intros w st w' st' r t L R M C H; cbn [run_seg] in H.
  - inversion H; subst. auto.
  - inversion H; subst. auto.
  - (* Atomic *)
    destruct (f (w_e w) (w_s w)) as [[[e1 s1] a]|] eqn:Ef; [|inversion H; subst; auto].
    pose proof (Hf _ _ _ _ _ (wf_reset _ (li_wf _ _ _ _ _ L)) Ef) as F.
    destruct (rinv_atomic sch ms _ _ _ _ _ L R (sframe_same _ _ F)) as [L1 R1].
    eapply (IH a _ _ _ _ _ t); [| | | |exact H]; cbn [w_e w_conts w_trace]; try eassumption.
    eapply MB_le; [exact M|exact (sframe_measure _ _ F)|exact (sframe_next _ _ F)].
  - (* Switch *)
    pose proof (do_switch_inv sch ms w st t L R) as DS.
    pose proof (do_switch_mb w st t L R M) as [M1 C1].
    destruct (do_switch sch ms w st) as [w1 st1|w1 st1|w1 st1]; cbn [swr_world] in M1, C1.
    + destruct DS as (L1 & R1 & _). eapply IH; eauto. rewrite C1; exact C.
    + inversion H; subst. rewrite C1. auto.
    + inversion H; subst. rewrite C1. auto.
  - (* Rand *)
    cbv zeta in H.
    assert (Hdraw : forall w0 st0, LInv w0 -> running (w_e w0) (w_trace w0) t -> MB (w_e w0) ->
              measure (w_e w0) < n -> conts_sok (w_conts w0) ->
              (let (v, st1) := s_next_u64 sch st0 in
               match v with
               | None => (mkWorld (with_recorded (w_e w0) (StRandom :: recorded (w_e w0))) (w_s w0) (w_conts w0) (w_trace w0), st1, SegPanic)
               | Some v => run_seg sch ms (k v) (mkWorld (with_recorded (w_e w0) (StRandom :: recorded (w_e w0))) (w_s w0) (w_conts w0)
                                                 (EvRandom v :: w_trace w0)) st1
               end) = (w', st', r) ->
              MB (w_e w') /\ conts_sok (w_conts w') /\ match r with SegYield k => code_okP sframe k | _ => True end).
    { intros w0 st0 L0 R0 M0 Hlt C0 H0.
      destruct (rinv_record sch ms _ _ _ _ StRandom L0 R0) as [L1 R1].
      assert (M1 : MB (with_recorded (w_e w0) (StRandom :: recorded (w_e w0)))).
      { pose proof (wf_reset _ (li_wf _ _ _ _ _ L0)) as Hr. destruct R0 as (_ & Rn & _).
        split.
        - unfold measure in *.
          change (S (length (recorded (w_e w0))) - steps_reset_at (w_e w0) <= n). lia.
        - intros t' Ht. cbn in Ht. congruence. }
      destruct (s_next_u64 sch st0) as [[v|] st1].
      - destruct (rinv_evrandom sch ms _ _ _ _ v L1 R1) as [L2 R2].
        eapply (IH v _ _ _ _ _ t); [| | | |exact H0]; cbn [w_e w_conts w_trace]; assumption.
      - inversion H0; subst. auto. }
    destruct (bound_exhausted ms (w_e w)) eqn:Hx.
    + pose proof (do_switch_mb w st t L R M) as [M1 C1].
      destruct (do_switch sch ms w st) as [w1 st1|w1 st1|w1 st1] eqn:Hd; cbn [swr_world] in M1, C1.
      * exfalso. eapply exhausted_no_continue; eauto.
      * inversion H; subst. rewrite C1. split; [exact M1|]. split; [exact C|]. constructor; exact Hk.
      * inversion H; subst. rewrite C1. auto.
    + eapply Hdraw; eauto.
      destruct (Nat.lt_ge_cases (measure (w_e w)) n) as [Hlt|Hge]; [exact Hlt|].
      apply exhausted_iff in Hge. congruence.
  - (* SpawnNow *)
    destruct (spawn_thread_now (w_e w)) as [[e1 tid]|] eqn:Esp; [|inversion H; subst; auto].
    destruct (rinv_spawn sch ms _ _ _ _ _ _ _ L R Esp (code_sok_ok _ Hc)) as [L1 R1].
    destruct (spawn_measure _ _ _ (wf_reset _ (li_wf _ _ _ _ _ L)) Esp) as [Hm Hn].
    eapply (IH tid _ _ _ _ _ t); [| | | |exact H]; cbn [w_e w_conts w_trace]; try assumption.
    + eapply MB_le; eauto.
    + intros t' c' Hc'. destruct (Nat.lt_ge_cases t' (length (w_conts w))) as [Hlt|Hge].
      * rewrite nth_error_app1 in Hc' by exact Hlt. eapply C; eauto.
      * rewrite nth_error_app2 in Hc' by exact Hge.
        destruct (t' - length (w_conts w)) as [|m]; cbn in Hc'.
        -- inversion Hc'; subst; exact Hc.
        -- destruct m; discriminate.
  - (* Log *)
    unfold me in H. rewrite (proj1 R) in H. cbn [sched_id] in H.
    match type of H with run_seg _ _ _ (mkWorld _ _ _ (EvOp _ _ _ ?clk :: _)) _ = _ =>
      destruct (rinv_log sch ms _ _ _ _ tag vals clk L R) as [L1 R1] end.
    eapply (IH _ _ _ _ _ t); [| | | |exact H]; cbn [w_e w_conts w_trace]; assumption.
Qed.

Lemma conts_sok_set : forall cs t c, conts_sok cs -> (forall k, c = Some k -> code_sok k) ->
  conts_sok (set_cont cs t c).
Proof.
  intros cs t c C Hc t' k Hk. unfold set_cont in Hk.
  apply nth_error_list_upd_some in Hk. destruct Hk as (y & Hy & [E|[_ E]]).
  - subst y. eapply C; eauto.
  - apply Hc. symmetry; exact E.
Qed.

Theorem run_loop_mb : forall fuel w st w' st' out,
  LInv w -> MB (w_e w) -> conts_sok (w_conts w) ->
  run_loop sch ms fuel w st = (w', st', out) -> measure (w_e w') <= n.
Proof.
  induction fuel as [|fuel IH]; intros w st w' st' out L M C H; cbn [run_loop] in H.
  - inversion H; subst. exact (proj1 M).
  - destruct (schedule sch ms (w_e w) st) as [[[err e1] st1] evs] eqn:Hs.
    apply schedule_spec in Hs.
    pose proof (mb_sched _ _ _ _ _ _ (li_wf _ _ _ _ _ L) M Hs) as M1.
    destruct (sched_linv sch ms _ _ _ _ _ _ _ _ L Hs) as (L1 & _ & _ & _ & Hnn & _).
    destruct err as [[|]|]; try (inversion H; subst; exact (proj1 M1)).
    specialize (L1 ltac:(discriminate)). specialize (Hnn eq_refl). cbv zeta in H.
    rewrite advance_current in H. cbn [w_conts w_e w_s w_trace] in H.
    destruct (next e1) as [|t| |] eqn:Hn1; [congruence| | |].
    + destruct (advance_rinv sch ms _ _ _ _ L1 Hn1) as [L2 R2].
      pose proof (mb_advance _ _ (wf_reset _ (li_wf _ _ _ _ _ L1)) M1 Hn1) as M2.
      destruct (nth_error (w_conts w) t) as [[c|]|] eqn:Hc;
        try (inversion H; subst; exact (proj1 M2)).
      pose proof (C _ _ Hc) as Hok.
      destruct (run_seg sch ms c (mkWorld (advance e1) (w_s w) (w_conts w) (evs ++ w_trace w)) st1)
        as [[w2 st2] r] eqn:Hseg.
      destruct (run_seg_inv sch ms c (code_sok_ok _ Hok) (mkWorld (advance e1) (w_s w) (w_conts w) (evs ++ w_trace w))
                  _ _ _ _ t L2 R2 Hseg) as (Hc3 & _ & Hr).
      destruct (run_seg_mb c Hok (mkWorld (advance e1) (w_s w) (w_conts w) (evs ++ w_trace w))
                  _ _ _ _ t L2 R2 M2 C Hseg) as (M3 & C3 & Hk).
      destruct r as [k| |].
      * destruct Hr as [L3 Hk'].
        eapply IH; [| | |exact H]; cbn [w_e w_conts].
        -- unfold EngineInv.LInv; cbn [w_e w_conts w_trace]. apply linv_set_cont; assumption.
        -- exact M3.
        -- apply conts_sok_set; auto. intros k0 E; inversion E; subst; exact Hk.
      * destruct Hr as [L3 R3]. destruct (rinv_finish sch ms _ _ _ _ L3 R3) as (e3 & Hfin & L4).
        rewrite Hfin in H. destruct (finish_measure _ _ Hfin) as [Hm3 Hn3].
        eapply IH; [| | |exact H]; cbn [w_e w_conts].
        -- exact L4.
        -- eapply MB_le; [exact M3|lia|exact Hn3].
        -- apply conts_sok_set; auto. intros k0 E; discriminate.
      * inversion H; subst. exact (proj1 M3).
    + inversion H; subst. cbn [w_e]. rewrite measure_advance_other; [exact (proj1 M1)|].
      intros t; rewrite Hn1; discriminate.
    + assert (Hma : measure (advance e1) = measure e1).
      { apply measure_advance_other. intros t; rewrite Hn1; discriminate. }
      destruct (existsb _ _); inversion H; subst; cbn [w_e]; rewrite Hma; exact (proj1 M1).
Qed.

End Total.

Theorem bound_total_proof : stmt_bound_total.
Proof.
  intros SS sch ms fuel main objs st w st' out n [Hm H] Hb. unfold run_exec in H.
  apply code_ok_sok in Hm.
  eapply (run_loop_mb sch ms n Hb); [| | |exact H].
  - apply init_LInv. apply code_sok_ok; exact Hm.
  - split; [cbn; lia|]. intros t Ht; cbn in Ht; discriminate.
  - intros [|t] c Hc; cbn in Hc; [inversion Hc; subst; exact Hm|destruct t; discriminate].
Qed.
