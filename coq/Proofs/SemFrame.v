(* Every BatchSemaphore function (Prim/Semaphore.v) that returns a new execution state respects the
   strong frame `sframe`.  No Admitted / Axiom. *)
From Coq Require Import List NArith Bool Arith Lia.
From SV Require Import Clock.VClock Prim.Objects Engine.Exec Engine.Inv Prim.Semaphore Proofs.EngineBase.
Import ListNotations.

(* destruct the scrutinee of the outermost match / if of hypothesis H *)
Ltac dm H := match type of H with (match ?c with _ => _ end) = _ => destruct c eqn:? end.
Ltac done_refl H Hr := inversion H; subst; apply sframe_refl; exact Hr.

(* ------------------------------------------------------------------ *)
(* folds over an option accumulator                                    *)
(* ------------------------------------------------------------------ *)
Lemma fold_none : forall (A B : Type) (f : option B -> A -> option B),
  (forall x, f None x = None) -> forall l, fold_left f l None = None.
Proof.
  intros A B f Hn l; induction l as [|x r IH]; cbn [fold_left]; [reflexivity|].
  rewrite Hn; exact IH.
Qed.

Lemma fold_acc_sframe : forall (A : Type) (f : option exec -> A -> option exec) l e0 e',
  fold_left f l (Some e0) = Some e' -> rok e0 ->
  (forall x, f None x = None) ->
  (forall e x e1, rok e -> f (Some e) x = Some e1 -> sframe e e1) ->
  sframe e0 e'.
Proof.
  intros A f l; induction l as [|x r IH]; intros e0 e' H Hr Hn Hs; cbn [fold_left] in H.
  - inversion H; subst; apply sframe_refl; exact Hr.
  - destruct (f (Some e0) x) as [e1|] eqn:E.
    + pose proof (Hs _ _ _ Hr E) as F1.
      eapply sframe_trans; [exact F1|].
      eapply IH; [exact H|eapply sframe_rok; exact F1|exact Hn|exact Hs].
    + rewrite (fold_none _ _ f Hn) in H; discriminate.
Qed.

Lemma fold_opt_sframe : forall (A : Type) (step : exec -> A -> option exec),
  (forall e x e', rok e -> step e x = Some e' -> sframe e e') ->
  forall l e0 e', rok e0 ->
  fold_left (fun acc x => match acc with None => None | Some e => step e x end) l (Some e0) = Some e' ->
  sframe e0 e'.
Proof.
  intros A step Hs l e0 e' Hr H.
  eapply (fold_acc_sframe _ _ _ _ _ H); [exact Hr|intros x; reflexivity|].
  intros e x e1 Hr1 H1; eapply Hs; eauto.
Qed.

Lemma fold_acc2_sframe : forall (A B : Type) (f : option (exec * B) -> A -> option (exec * B)) l e0 b0 e' b',
  fold_left f l (Some (e0, b0)) = Some (e', b') -> rok e0 ->
  (forall x, f None x = None) ->
  (forall e b x e1 b1, rok e -> f (Some (e, b)) x = Some (e1, b1) -> sframe e e1) ->
  sframe e0 e'.
Proof.
  intros A B f l; induction l as [|x r IH]; intros e0 b0 e' b' H Hr Hn Hs; cbn [fold_left] in H.
  - inversion H; subst; apply sframe_refl; exact Hr.
  - destruct (f (Some (e0, b0)) x) as [[e1 b1]|] eqn:E.
    + pose proof (Hs _ _ _ _ _ Hr E) as F1.
      eapply sframe_trans; [exact F1|].
      eapply IH; [exact H|eapply sframe_rok; exact F1|exact Hn|exact Hs].
    + rewrite (fold_none _ _ f Hn) in H; discriminate.
Qed.

(* ------------------------------------------------------------------ *)
(* the functions                                                       *)
(* ------------------------------------------------------------------ *)
Lemma wake_opt_sframe : forall e w e', rok e -> wake_opt e w = Some e' -> sframe e e'.
Proof.
  intros e w e' Hr H; unfold wake_opt in H. destruct w as [t|].
  - eapply e_waker_wake_sframe; eauto.
  - done_refl H Hr.
Qed.

Lemma acquire_permits_sframe : forall e s k e' s' r, rok e -> acquire_permits e s k = Some (e', s', r) -> sframe e e'.
Proof.
  intros e s k e' s' r Hr H; unfold acquire_permits in H.
  dm H; [discriminate|].
  dm H; [done_refl H Hr|].
  dm H; [|done_refl H Hr].
  destruct (me e) as [m|]; [|discriminate].
  destruct (e_clock e m) as [mc|]; [|discriminate].
  destruct (permits_acquire s k mc) as [s1 clk| |]; [|done_refl H Hr|discriminate].
  destruct (e_update_clock e m clk) as [e1|] eqn:Hu; [|discriminate].
  inversion H; subst. eapply e_update_clock_sframe; eauto.
Qed.

Lemma unblock_front_sframe : forall fuel e s e' s', rok e -> unblock_front fuel e s = Some (e', s') -> sframe e e'.
Proof.
  induction fuel as [|f IH]; intros e s e' s' Hr H; cbn [unblock_front] in H.
  - done_refl H Hr.
  - destruct (sm_queue s) as [|wid rest]; [done_refl H Hr|].
    destruct (get_waiter s wid) as [w|]; [|discriminate].
    dm H; [eapply IH; eauto|].
    dm H; [|done_refl H Hr].
    dm H; try discriminate.
    dm H; [discriminate|].
    dm H; [discriminate|].
    destruct (task_finished e (wt_task w)) as [[|]|]; try discriminate.
    destruct (e_join_clock e (wt_task w) c) as [e1|] eqn:H1; [|discriminate].
    pose proof (e_join_clock_sframe _ _ _ _ Hr H1) as F1.
    destruct (e_unblock e1 (wt_task w)) as [e2|] eqn:H2; [|discriminate].
    pose proof (e_unblock_sframe _ _ _ (sframe_rok _ _ F1) H2) as F2.
    destruct (wake_opt e2 (wt_waker w)) as [e3|] eqn:H3; [|discriminate].
    pose proof (wake_opt_sframe _ _ _ (sframe_rok _ _ F2) H3) as F3.
    eapply sframe_trans; [exact F1|]. eapply sframe_trans; [exact F2|]. eapply sframe_trans; [exact F3|].
    eapply IH; [eapply sframe_rok; exact F3|exact H].
Qed.

Lemma reblock_if_unfair_sframe : forall e s e', rok e -> reblock_if_unfair e s = Some e' -> sframe e e'.
Proof.
  intros e s e' Hr H; unfold reblock_if_unfair in H.
  destruct (sm_fair s); [done_refl H Hr|].
  eapply (fold_acc_sframe _ _ _ _ _ H); [exact Hr|intros x; reflexivity|].
  intros e1 wid e2 Hr1 H1; unfold reblock_step in H1; cbv beta iota in H1.
  destruct (get_waiter s wid) as [w|]; [|discriminate].
  dm H1; [|done_refl H1 Hr1].
  eapply e_block_sframe; eauto.
Qed.

Lemma remove_waiter_sframe : forall e s wid e' s', rok e -> remove_waiter e s wid = Some (e', s') -> sframe e e'.
Proof.
  intros e s wid e' s' Hr H; unfold remove_waiter in H.
  destruct (sm_closed s); [discriminate|].
  destruct (get_waiter s wid) as [w|]; [|discriminate].
  destruct (wt_has w); [discriminate|].
  destruct (position_nat wid (sm_queue s)) as [idx|]; [|discriminate].
  destruct (negb (wt_queued w)); [discriminate|].
  cbv zeta in H.
  dm H; [|done_refl H Hr].
  eapply unblock_front_sframe; eauto.
Qed.

(* one round of the unfair branch of release() *)
Lemma release_step_sframe : forall s1 avail e wid e',
  rok e ->
  match get_waiter s1 wid with
  | None => None
  | Some w =>
    if N.leb (wt_n w) avail then
      match task_finished e (wt_task w) with
      | None => None
      | Some true => Some e
      | Some false =>
        match e_unblock e (wt_task w) with
        | Some e' => wake_opt e' (wt_waker w)
        | None => None end
      end
    else Some e
  end = Some e' -> sframe e e'.
Proof.
  intros s1 avail e wid e' Hr H.
  destruct (get_waiter s1 wid) as [w|]; [|discriminate].
  dm H; [|done_refl H Hr].
  destruct (task_finished e (wt_task w)) as [[|]|]; [done_refl H Hr| |discriminate].
  destruct (e_unblock e (wt_task w)) as [e1|] eqn:H1; [|discriminate].
  pose proof (e_unblock_sframe _ _ _ Hr H1) as F1.
  eapply sframe_trans; [exact F1|].
  eapply wake_opt_sframe; [eapply sframe_rok; exact F1|exact H].
Qed.

Lemma sem_release_sframe : forall e s k e' s', rok e -> sem_release e s k = Some (e', s') -> sframe e e'.
Proof.
  intros e s k e' s' Hr H; unfold sem_release in H.
  dm H; [done_refl H Hr|].
  destruct (should_stop e) as [[|]|]; [cbv zeta in H; done_refl H Hr| |discriminate].
  destruct (me e) as [m|]; [|discriminate].
  destruct (e_increment_clock e m) as [e1|] eqn:H1; [|discriminate].
  pose proof (e_increment_clock_sframe _ _ _ Hr H1) as F1.
  pose proof (sframe_rok _ _ F1) as Hr1.
  destruct (e_clock e1 m) as [mc|]; [|discriminate].
  cbv zeta in H.
  eapply sframe_trans; [exact F1|].
  dm H.
  - eapply unblock_front_sframe; eauto.
  - match type of H with (match ?c with _ => _ end) = _ => destruct c as [e2|] eqn:Hf end; [|discriminate].
    inversion H; subst.
    eapply (fold_acc_sframe _ _ _ _ _ Hf); [exact Hr1|intros x; reflexivity|].
    intros e3 wid e4 Hr3 H3; cbv beta iota in H3.
    eapply release_step_sframe; [exact Hr3|exact H3].
Qed.

Lemma sem_close_sframe : forall e s e' s', rok e -> sem_close e s = Some (e', s') -> sframe e e'.
Proof.
  intros e s e' s' Hr H; unfold sem_close in H.
  destruct (sm_closed s); [done_refl H Hr|].
  cbv zeta in H.
  match type of H with (match ?c with _ => _ end) = _ => destruct c as [[e2 s2]|] eqn:Hf end; [|discriminate].
  inversion H; subst.
  eapply (fold_acc2_sframe _ _ _ _ _ _ _ _ Hf); [exact Hr|intros x; reflexivity|].
  intros e1 b1 wid e3 b3 Hr1 H1; cbv beta iota in H1.
  destruct (get_waiter b1 wid) as [w|]; [|discriminate].
  destruct (negb (wt_queued w)); [discriminate|].
  destruct (wt_has w); [discriminate|].
  destruct (task_finished e1 (wt_task w)) as [fin|]; [|discriminate].
  assert (Hu : forall e4, (if negb (in_cleanup e1) && negb fin then e_unblock e1 (wt_task w) else Some e1) = Some e4 ->
               sframe e1 e4).
  { intros e4 H4. dm H4; [eapply e_unblock_sframe; eauto|done_refl H4 Hr1]. }
  dm H1; [|discriminate].
  pose proof (Hu _ eq_refl) as F1.
  dm H1; [|discriminate].
  inversion H1; subst.
  eapply sframe_trans; [exact F1|].
  eapply wake_opt_sframe; [eapply sframe_rok; exact F1|eassumption].
Qed.

Lemma sem_try_acquire_sframe : forall e s k e' s' r, rok e -> sem_try_acquire e s k = Some (e', s', r) -> sframe e e'.
Proof.
  intros e s k e' s' r Hr H; unfold sem_try_acquire in H.
  destruct (acquire_permits e s k) as [[[e1 s1] r1]|] eqn:Ha; [|discriminate].
  pose proof (acquire_permits_sframe _ _ _ _ _ _ Hr Ha) as F1.
  pose proof (sframe_rok _ _ F1) as Hr1.
  eapply sframe_trans; [exact F1|].
  destruct r1.
  - destruct (reblock_if_unfair e1 s1) as [e2|] eqn:H2; [|discriminate].
    inversion H; subst. eapply reblock_if_unfair_sframe; eauto.
  - destruct (me e1) as [m|]; [|discriminate].
    destruct (e_update_clock e1 m (sm_last_acquire s1)) as [e2|] eqn:H2; [|discriminate].
    inversion H; subst. eapply e_update_clock_sframe; eauto.
  - destruct (me e1) as [m|]; [|discriminate].
    destruct (e_update_clock e1 m (sm_last_acquire s1)) as [e2|] eqn:H2; [|discriminate].
    inversion H; subst. eapply e_update_clock_sframe; eauto.
Qed.

Lemma sem_poll_sframe : forall e s wid wk e' s' r, rok e -> sem_poll e s wid wk = Some (e', s', r) -> sframe e e'.
Proof.
  intros e s wid wk e' s' r Hr H; unfold sem_poll in H.
  destruct (get_waiter s wid) as [w|]; [|discriminate].
  destruct (me e) as [m|]; [|discriminate].
  destruct (wt_has w). { destruct (wt_queued w); [discriminate|done_refl H Hr]. }
  destruct (sm_closed s). { destruct (wt_queued w); [discriminate|done_refl H Hr]. }
  cbv zeta in H.
  dm H; [discriminate|].
  dm H; [done_refl H Hr|].
  destruct (acquire_permits e s (wt_n w)) as [[[e1 s1] r1]|] eqn:Ha; [|discriminate].
  pose proof (acquire_permits_sframe _ _ _ _ _ _ Hr Ha) as F1.
  pose proof (sframe_rok _ _ F1) as Hr1.
  eapply sframe_trans; [exact F1|].
  destruct r1.
  - assert (Hq : forall e2 s2, (if wt_queued w then remove_waiter e1 s1 wid else Some (e1, s1)) = Some (e2, s2) ->
                 sframe e1 e2).
    { intros e2 s2 H2. dm H2; [eapply remove_waiter_sframe; eauto|done_refl H2 Hr1]. }
    match type of H with (match ?c with _ => _ end) = _ => destruct c as [[e2 s2]|] eqn:H2 end; [|discriminate].
    pose proof (Hq _ _ eq_refl) as F2.
    eapply sframe_trans; [exact F2|].
    match type of H with (match ?c with _ => _ end) = _ => destruct c as [e3|] eqn:H3 end; [|discriminate].
    inversion H; subst.
    eapply reblock_if_unfair_sframe; [eapply sframe_rok; exact F2|exact H3].
  - dm H; [done_refl H Hr1|].
    dm H; [done_refl H Hr1|discriminate].
  - discriminate.
Qed.

Lemma sem_drop_acquire_sframe : forall e s wid c e' s' r, rok e -> sem_drop_acquire e s wid c = Some (e', s', r) -> sframe e e'.
Proof.
  intros e s wid c e' s' r Hr H; unfold sem_drop_acquire in H.
  destruct (get_waiter s wid) as [w|]; [|discriminate].
  dm H.
  - destruct (remove_waiter e s wid) as [[e1 s1]|] eqn:H1; [|discriminate].
    inversion H; subst. eapply remove_waiter_sframe; eauto.
  - dm H; done_refl H Hr.
Qed.

Print Assumptions sem_poll_sframe.
Print Assumptions sem_release_sframe.
