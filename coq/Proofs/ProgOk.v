(* Every compiled program is a tree of library code blocks that respect the frame condition.
   The only block of Lang/Prog.v that does not respect the strong frame is panic!() (it sets
   `panicking`), so the statements are parametric in a frame relation F implied by the strong
   frame: either F admits the panic block (the relaxed frame does) or the program has no PPanic.
   No Admitted / Axiom. *)
From Coq Require Import List NArith Bool Arith Lia.
From SV Require Import Params Clock.VClock Prim.Objects Prim.Atomic Prim.Tls Engine.Exec Engine.Inv Prim.Semaphore
  Lang.Code Lang.ThreadOps Lang.SyncOps Lang.SyncOps2 Lang.AsyncOps Lang.Prog
  Proofs.EngineBase Proofs.ThreadOk Proofs.SemFrame Proofs.SyncFrame Proofs.SyncOk Proofs.Sync2Ok.
Import ListNotations.

Definition is_panic_op (o : op) : bool := match o with PPanic => true | _ => false end.
Definition no_panic_op (bodies : list (list op)) : Prop := Forall (Forall (fun o => is_panic_op o = false)) bodies.
Definition panic_ok (F : exec -> exec -> Prop) : Prop := forall e, rok e -> F e (with_panicking e true).

Lemma nth_no_panic : forall bodies b,
  no_panic_op bodies -> Forall (fun o => is_panic_op o = false) (nth b bodies []).
Proof.
  intros bodies b H. unfold no_panic_op in H. rewrite Forall_forall in H.
  destruct (nth_in_or_default b bodies []) as [Hin|Heq].
  - apply H; exact Hin.
  - rewrite Heq; constructor.
Qed.

(* a block whose exec component is returned unchanged: destruct the tests it performs *)
Ltac same_e :=
  let e := fresh "e" in let s := fresh "s" in let e' := fresh "e'" in let s' := fresh "s'" in
  let a := fresh "a" in let Hr := fresh "Hr" in let H := fresh "H" in
  intros e s e' s' a Hr H; cbv beta iota in H;
  repeat match type of H with
         | match ?x with _ => _ end = _ => destruct x; cbv beta iota in H; try discriminate H
         end;
  inversion H; subst; apply sframe_refl; exact Hr.

Section ProgOk.
Variable F : exec -> exec -> Prop.
Hypothesis HF : forall e e', sframe e e' -> F e e'.

(* ------------------------------------------------------------------ *)
(* the blocks of Lang/Prog.v itself                                    *)
(* ------------------------------------------------------------------ *)
Lemma alive_okP : forall ch slot k,
  (forall b, code_okP F (k b)) ->
  code_okP F (atomic_b (fun e st => Some (e, st, endpoint_alive st ch slot)) k).
Proof.
  intros ch slot k Hk. apply (atomic_b_okP F HF); [|exact Hk]. same_e.
Qed.

Lemma detach_okP : forall t k,
  code_okP F k -> code_okP F (atomic_u (fun e st => detach_handle e st t) k).
Proof.
  intros t k Hk. apply (atomic_u_okP F HF); [|exact Hk].
  intros e s e' s' Hr H. eapply detach_handle_sframe; [exact Hr|exact H].
Qed.

Lemma finish_okP : forall jt res k,
  code_okP F k -> code_okP F (atomic_u (fun e st => wrapper_finish e st jt res) k).
Proof.
  intros jt res k Hk. apply (atomic_u_okP F HF); [|exact Hk].
  intros e s e' s' Hr H. eapply wrapper_finish_sframe; [exact Hr|exact H].
Qed.

Lemma drop_guards_okP : forall logit gs k, code_okP F k -> code_okP F (drop_guards logit gs k).
Proof.
  intros logit gs k Hk. induction gs as [|[o w] r IH]; cbn [drop_guards]; [exact Hk|].
  apply (atomic_okP_intro F HF).
  - same_e.
  - assert (H1 : code_okP F (mutex_unlock_code o
                   (if logit then Log TAG_UNLOCK [N.of_nat o] (drop_guards logit r k) else drop_guards logit r k))).
    { apply (mutex_unlock_code_okP F HF). destruct logit; [apply okP_log|]; exact IH. }
    assert (H2 : code_okP F (rw_unlock_code o w
                   (if logit then Log TAG_RWUNLOCK [b2n w; N.of_nat o] (drop_guards logit r k) else drop_guards logit r k))).
    { apply (rw_unlock_code_okP F HF). destruct logit; [apply okP_log|]; exact IH. }
    intros a. split_ans; first [exact H1 | exact H2].
Qed.

Lemma detach_all_okP : forall ahs k, code_okP F k -> code_okP F (detach_all ahs k).
Proof.
  intros ahs k Hk. induction ahs as [|t r IH]; cbn [detach_all]; [exact Hk|].
  apply detach_okP. exact IH.
Qed.

Definition dtor_okP (dtor : nat -> code -> code) : Prop := forall d k', code_okP F k' -> code_okP F (dtor d k').

Lemma recv_all_code_okP : forall n ch k, code_okP F k -> code_okP F (recv_all_code n ch k).
Proof.
  induction n as [|n IH]; intros ch k Hk; cbn [recv_all_code]; [apply okP_log; apply okP_panic|].
  apply (chan_recv_code_okP F HF). intros res.
  destruct res; try (apply okP_log; apply IH; exact Hk);
    (apply okP_log; apply (atomic_u_okP F HF); [|apply okP_log; exact Hk];
     intros e s e' s' Hr H; cbv beta in H; eapply chan_drop_rx_sframe; [exact Hr|exact H]).
Qed.

Lemma thread_fin_okP : forall tls dtor gs ahs, dtor_okP dtor -> code_okP F (thread_fin tls dtor gs ahs).
Proof.
  intros tls dtor gs ahs Hd. unfold thread_fin. apply okP_log. apply drop_guards_okP. apply detach_all_okP.
  apply (thread_epilogue_d_okP F HF). exact Hd.
Qed.

Lemma scoped_fin_okP : forall z tls dtor gs ahs, dtor_okP dtor -> code_okP F (scoped_fin z tls dtor gs ahs).
Proof.
  intros z tls dtor gs ahs Hd. unfold scoped_fin. apply okP_log. apply drop_guards_okP. apply detach_all_okP.
  apply (scoped_epilogue_d_okP F HF). exact Hd.
Qed.

Lemma scope_end_okP : forall z k, code_okP F k -> code_okP F (scope_end z k).
Proof.
  intros z k Hk. unfold scope_end. apply (atomic_b_okP F HF).
  - intros e s e' s' b Hr H.
    destruct (me e) as [m|]; [|discriminate].
    destruct (scope_get s z) as [[[r mt] w]|]; [|discriminate].
    destruct (Nat.eqb r 0).
    + inversion H; subst. apply sframe_refl; exact Hr.
    + destruct (e_block e m false) as [e1|] eqn:E1; [|discriminate].
      inversion H; subst. eapply e_block_sframe; [exact Hr|exact E1].
  - intros blk. apply (switch_if_okP F). exact Hk.
Qed.

Lemma async_fin_okP : forall tls dtor jt v gs ahs, dtor_okP dtor -> code_okP F (async_fin tls dtor jt v gs ahs).
Proof.
  intros tls dtor jt v gs ahs Hd. unfold async_fin. apply okP_log. apply drop_guards_okP. apply detach_all_okP.
  apply (tls_loop_okP F HF); [exact Hd|]. apply finish_okP. apply okP_ret.
Qed.

Lemma async_abort_okP : forall tls dtor jt gs ahs, dtor_okP dtor -> code_okP F (async_abort tls dtor jt gs ahs).
Proof.
  intros tls dtor jt gs ahs Hd. unfold async_abort. apply drop_guards_okP. apply detach_all_okP.
  apply (tls_loop_okP F HF); [exact Hd|]. apply finish_okP. apply okP_ret.
Qed.

(* ------------------------------------------------------------------ *)
(* whole programs                                                      *)
(* ------------------------------------------------------------------ *)
Lemma comp_okP : forall fuel jt bodies, (panic_ok F \/ no_panic_op bodies) ->
  forall b ctx fin outer, (forall gs ahs, code_okP F (fin gs ahs)) -> code_okP F (comp fuel jt bodies b ctx fin outer).
Proof.
  intros fuel jt bodies Hp.
  induction fuel as [|f IHf]; intros b ctx fin outer Hfin; cbn [comp]; [apply okP_ret|].
  assert (Hd : dtor_okP (fun (d : nat) (k : code) =>
                 comp f jt bodies d CtxBlockOn (fun gs' ahs' => drop_guards true gs' (detach_all ahs' k)) [])).
  { intros d k' Hk'. apply IHf. intros gs' ahs'. apply drop_guards_okP. apply detach_all_okP. exact Hk'. }
  match goal with
  | |- code_okP _ (?g _ _ _ _ _) =>
    assert (Hgo : forall ops, (panic_ok F \/ Forall (fun o => is_panic_op o = false) ops) ->
                  forall hs js gs ahs, code_okP F (g ops hs js gs ahs))
  end.
  2:{ apply Hgo. destruct Hp as [Hp|Hp]; [left; exact Hp|right; apply nth_no_panic; exact Hp]. }
  induction ops as [|o r IHr]; intros Hops hs js gs ahs.
  - cbv beta match fix. apply Hfin.
  - assert (Hops' : panic_ok F \/ Forall (fun o => is_panic_op o = false) r).
    { destruct Hops as [Hk|Hk]; [left; exact Hk|right; inversion Hk; assumption]. }
    specialize (IHr Hops').
    destruct o; cbv beta match fix.
    + (* PSpawn *)
      apply okP_switch. apply okP_spawn.
      * apply IHf. intros gs' ahs'. apply thread_fin_okP. exact Hd.
      * intros tid. apply okP_log. apply IHr.
    + (* PJoin *)
      split_ans; try apply okP_panic.
      apply (join_code_okP F HF). apply okP_log. apply IHr.
    + (* PYield *)
      apply (yield_code_okP F HF). apply okP_log. apply IHr.
    + (* PPark *)
      apply (park_code_okP F HF). apply okP_log. apply IHr.
    + (* PUnparkH *)
      split_ans; try apply okP_panic.
      apply (unpark_code_okP F HF). apply okP_log. apply IHr.
    + (* PUnparkT *)
      apply (unpark_code_okP F HF). apply okP_log. apply IHr.
    + (* PRand *)
      apply okP_rand. intros v. apply okP_log. apply IHr.
    + (* PAtomic *)
      apply (atomic_code_okP F HF). intros okf ret. apply okP_log. apply IHr.
    + (* PResetSteps *)
      apply (atomic_u_okP F HF); [|apply okP_log; apply IHr].
      intros e s e' s' Hr H. inversion H; subst. apply e_reset_step_count_sframe. exact Hr.
    + (* PPanic *)
      destruct Hops as [Hpk|Hnp].
      * unfold atomic_u. apply okP_atomic.
        -- intros e s e' s' a Hr H. cbv beta iota in H. inversion H; subst. apply Hpk. exact Hr.
        -- intros _. apply drop_guards_okP. apply okP_panic.
      * inversion Hnp as [|x l Hhd Htl]. cbn in Hhd. discriminate Hhd.
    + (* PSemAcq *)
      apply (acquire_blocking_okP F HF). intros ok. apply okP_log. apply IHr.
    + (* PSemTry *)
      apply (sem_try_code_okP F HF). intros res. apply okP_log. apply IHr.
    + (* PSemRel *)
      apply (sem_release_code_okP F HF). apply okP_log. apply IHr.
    + (* PSemClose *)
      apply (sem_close_code_okP F HF). apply okP_log. apply IHr.
    + (* PSemAvail *)
      apply (atomic_okP_intro F HF); [same_e|].
      intros a. apply okP_log. apply IHr.
    + (* PLock *)
      apply (mutex_lock_code_okP F HF). intros res. apply okP_log. apply IHr.
    + (* PTryLock *)
      apply (mutex_try_lock_code_okP F HF). intros res. apply okP_log. apply IHr.
    + (* PUnlock *)
      split_ans; try apply okP_panic.
      apply (mutex_unlock_code_okP F HF). apply okP_log. apply IHr.
    + (* PRwLock *)
      apply (rw_lock_code_okP F HF). intros res. apply okP_log. apply IHr.
    + (* PRwTry *)
      apply (rw_try_code_okP F HF). intros res. apply okP_log. apply IHr.
    + (* PRwUnlock *)
      split_ans; try apply okP_panic.
      apply (rw_unlock_code_okP F HF). apply okP_log. apply IHr.
    + (* PCvWait *)
      split_ans; try apply okP_panic.
      apply (cv_wait_code_okP F HF). intros res. apply okP_log. apply IHr.
    + (* PCvNotify *)
      apply (cv_notify_code_okP F HF). apply okP_log. apply IHr.
    + (* PSend *)
      apply alive_okP. intros alive. destruct alive; [|apply okP_panic].
      apply (chan_send_code_okP F HF). intros res. apply okP_log. apply IHr.
    + (* PTrySend *)
      apply alive_okP. intros alive. destruct alive; [|apply okP_panic].
      apply (chan_send_code_okP F HF). intros res. apply okP_log. apply IHr.
    + (* PRecv *)
      apply alive_okP. intros alive. destruct alive; [|apply okP_panic].
      apply (chan_recv_code_okP F HF). intros res. apply okP_log. apply IHr.
    + (* PTryRecv *)
      apply alive_okP. intros alive. destruct alive; [|apply okP_panic].
      apply (chan_recv_code_okP F HF). intros res. apply okP_log. apply IHr.
    + (* PDropTx *)
      apply alive_okP. intros alive. destruct alive; [|apply okP_panic].
      apply (atomic_u_okP F HF); [|apply okP_log; apply IHr].
      intros e s e' s' Hr H. cbv beta in H. eapply chan_drop_tx_sframe; [exact Hr|exact H].
    + (* PDropRx *)
      apply alive_okP. intros alive. destruct alive; [|apply okP_panic].
      apply (atomic_u_okP F HF); [|apply okP_log; apply IHr].
      intros e s e' s' Hr H. cbv beta in H. eapply chan_drop_rx_sframe; [exact Hr|exact H].
    + (* PBarrier *)
      apply (barrier_wait_code_okP F HF). intros leader. apply okP_log. apply IHr.
    + (* PCallOnce *)
      apply (atomic_okP_intro F HF); [same_e|].
      intros a. split_ans; try apply okP_panic.
      apply (call_once_code_okP F HF).
      * intros k Hk. apply okP_log. apply IHf.
        intros gs' ahs'. apply drop_guards_okP. apply detach_all_okP. exact Hk.
      * apply okP_log. apply IHr.
    + (* PIsCompleted *)
      apply okP_switch. apply (atomic_b_okP F HF).
      * intros e s e' s' c Hr H. eapply once_is_completed_sframe; [exact Hr|exact H].
      * intros c. apply okP_log. apply IHr.
    + (* PASpawn *)
      apply okP_switch. apply okP_spawn.
      * apply (atomic_b_okP F HF); [same_e|].
        intros ab. destruct ab; [apply async_abort_okP; exact Hd|].
        apply IHf. intros gs' ahs'. apply async_fin_okP. exact Hd.
      * intros tid. apply (atomic_u_okP F HF).
        -- intros e s e' s' Hr H. eapply joins_register_sframe; [exact Hr|exact H].
        -- apply okP_log. apply IHr.
    + (* PAwait *)
      split_ans; try apply okP_panic.
      apply (await_join_okP F HF); [apply async_abort_okP; exact Hd|].
      intros res. apply okP_log. apply detach_okP. apply IHr.
    + (* PAbort *)
      split_ans; try apply okP_panic.
      apply (abort_code_okP F HF). apply okP_log. apply IHr.
    + (* PDetach *)
      split_ans; try apply okP_panic.
      apply detach_okP. apply okP_log. apply IHr.
    + (* PAYield *)
      apply (await_yield_okP F HF); [apply async_abort_okP; exact Hd|].
      apply okP_log. apply IHr.
    + (* PBlockOn *)
      apply okP_log. apply IHf.
      intros gs' ahs'. apply drop_guards_okP. apply detach_all_okP. apply okP_log. apply IHr.
    + (* PIsFinished *)
      split_ans; try apply okP_panic.
      apply (atomic_b_okP F HF).
      * intros e s e' s' c Hr H. eapply is_finished_handle_sframe; [exact Hr|exact H].
      * intros c. apply okP_log. apply IHr.
    + (* PTlsWith *)
      apply (atomic_okP_intro F HF).
      * intros e s e' s' a Hr H.
        destruct (me e) as [m|]; [|discriminate].
        destruct (tls_with s (S jt) m key add) as [[[s1 status] old]|]; [|discriminate].
        inversion H; subst. apply sframe_refl; exact Hr.
      * intros a. apply okP_log. apply IHr.
    + (* PThreadId *)
      apply (atomic_okP_intro F HF); [same_e|].
      intros a. apply okP_log. apply IHr.
    + (* PScope *)
      apply (atomic_u_okP F HF).
      * intros e s e' s' Hr H.
        destruct (me e) as [m|]; [|discriminate].
        destruct (get_obj s z) as [[]|]; try discriminate.
        inversion H; subst. apply sframe_refl; exact Hr.
      * apply okP_log. apply IHf. intros gs' ahs'. apply drop_guards_okP. apply detach_all_okP.
        apply scope_end_okP. apply okP_log. apply IHr.
    + (* PScopeSpawn *)
      apply (atomic_u_okP F HF).
      * intros e s e' s' Hr H.
        destruct (scope_get s z) as [[[rn m] w]|]; [|discriminate].
        inversion H; subst. apply sframe_refl; exact Hr.
      * apply okP_switch. apply okP_spawn.
        -- apply IHf. intros gs' ahs'. apply scoped_fin_okP. exact Hd.
        -- intros tid. apply okP_log. apply IHr.
    + (* PAcqNew *)
      apply (acq_new_code_okP F HF). apply okP_log. apply IHr.
    + (* PAcqPoll *)
      apply (acq_poll_code_okP F HF). intros res. apply okP_log. apply IHr.
    + (* PAcqDrop *)
      apply (acq_drop_code_okP F HF). apply okP_log. apply IHr.
    + (* PRecvAll *)
      apply alive_okP. intros alive. destruct alive; [|apply okP_panic].
      apply recv_all_code_okP. apply IHr.
Qed.

Theorem compile_okP : forall jt bodies, (panic_ok F \/ no_panic_op bodies) -> code_okP F (compile jt bodies).
Proof.
  intros jt bodies Hp. unfold compile. apply comp_okP; [exact Hp|].
  intros gs ahs. apply thread_fin_okP.
  intros d k' Hk'. unfold top_dtor. apply comp_okP; [exact Hp|].
  intros gs' ahs'. apply drop_guards_okP. apply detach_all_okP. exact Hk'.
Qed.

End ProgOk.

(* every program of Lang/Prog.v (panic!() included: `same_frame` lets `panicking` go from false to true) *)
Theorem compile_sok : forall jt bodies, code_sok (compile jt bodies).
Proof.
  intros jt bodies. unfold code_sok. apply (compile_okP sframe (fun e e' H0 => H0)).
  left. intros e Hr. apply panic_sframe. exact Hr.
Qed.

Theorem compile_ok : forall jt bodies, code_ok (compile jt bodies).
Proof. intros jt bodies. apply code_sok_ok. apply compile_sok. Qed.

Print Assumptions compile_sok.
Print Assumptions compile_ok.
