(* C19: basic facts about the state codecs and the buffer functions of Lang/TokOps.v. *)
From Coq Require Import List NArith Bool Arith Lia.
From SV Require Import Clock.VClock Prim.Objects Engine.Exec Prim.Semaphore Lang.Code Lang.SyncOps Lang.TokOps.
Import ListNotations.

Lemma b2n_eqb1 : forall b, N.eqb (b2n b) 1 = b.
Proof. destruct b; reflexivity. Qed.

(* the cell encoding of a channel's state is lossless *)
Lemma mpsc_codec : forall m, length (mp_tx m) = 3%nat -> mpsc_dec (mpsc_enc m) = Some m.
Proof.
  intros [b s r tx msgs] H. simpl in H.
  destruct tx as [|t0 [|t1 [|t2 [|? ?]]]]; try discriminate.
  unfold mpsc_enc, mpsc_dec. simpl.
  rewrite !b2n_eqb1.
  destruct b as [k|]; simpl.
  - destruct (N.eqb (N.succ k) 0) eqn:E.
    + apply N.eqb_eq in E. lia.
    + rewrite N.pred_succ. reflexivity.
  - reflexivity.
Qed.

(* ---------------- the store ---------------- *)
Lemma get_set_same : forall (s : store) i o o0, get_obj s i = Some o0 -> get_obj (set_obj s i o) i = Some o.
Proof.
  unfold get_obj. induction s as [|x r IH]; intros i o o0 H; destruct i; simpl in *; try discriminate; auto.
  eapply IH; eassumption.
Qed.

Lemma get_set_other : forall (s : store) i j o, i <> j -> get_obj (set_obj s i o) j = get_obj s j.
Proof.
  unfold get_obj. induction s as [|x r IH]; intros i j o H; destruct i, j; simpl; auto; try congruence.
Qed.

Lemma mpsc_dec_tx3 : forall l m, mpsc_dec l = Some m -> length (mp_tx m) = 3%nat.
Proof.
  intros l m H. unfold mpsc_dec in H.
  destruct l as [|b [|s [|r [|t0 [|t1 [|t2 msgs]]]]]]; try discriminate. inversion H; reflexivity.
Qed.

Lemma mpsc_get_tx3 : forall st ch m, mpsc_get st ch = Some m -> length (mp_tx m) = 3%nat.
Proof.
  unfold mpsc_get. intros st ch m H. destruct (get_obj st (S (S ch))) as [[]|]; try discriminate.
  eapply mpsc_dec_tx3; eassumption.
Qed.

Lemma mpsc_get_put : forall st ch m m0,
  mpsc_get st ch = Some m0 -> length (mp_tx m) = 3%nat -> mpsc_get (mpsc_put st ch m) ch = Some m.
Proof.
  unfold mpsc_get, mpsc_put. intros st ch m m0 H L.
  destruct (get_obj st (S (S ch))) as [o|] eqn:G; [|discriminate]. destruct o; try discriminate.
  erewrite get_set_same by eassumption. apply mpsc_codec; assumption.
Qed.

Lemma chan_closed_put : forall st ch m, chan_closed (mpsc_put st ch m) ch = chan_closed st ch.
Proof.
  unfold chan_closed, sem_at, mpsc_put. intros st ch m.
  destruct (get_obj st (S (S ch))) as [o|]; [|reflexivity]. destruct o; try reflexivity.
  rewrite get_set_other by lia. reflexivity.
Qed.

(* ---------------- Channel::send / Channel::recv on the buffer ---------------- *)
(* a successful push appends at the back, only on an open channel, and only below the bound *)
Lemma chan_push_ok : forall st ch v st',
  chan_push st ch v = Some (st', true) ->
  exists m, mpsc_get st ch = Some m /\ chan_closed st ch = Some false /\
            mpsc_get st' ch = Some (mp_set_msgs m (mp_msgs m ++ [v])) /\
            chan_closed st' ch = Some false /\
            (forall k, mp_bound m = Some k -> (N.of_nat (length (mp_msgs m)) < k)%N).
Proof.
  unfold chan_push. intros st ch v st' H.
  destruct (chan_closed st ch) as [[|]|] eqn:C; destruct (mpsc_get st ch) as [m|] eqn:G; try discriminate.
  destruct (match mp_bound m with Some k => negb (N.of_nat (length (mp_msgs m)) <? k)%N | None => false end) eqn:F; [discriminate|].
  inversion H; subst st'; clear H. exists m. repeat split; auto.
  - eapply mpsc_get_put; [eassumption|]. simpl. eapply mpsc_get_tx3; eassumption.
  - rewrite chan_closed_put. assumption.
  - intros k Hk. rewrite Hk in F. apply negb_false_iff in F. apply N.ltb_lt in F. assumption.
Qed.

(* on a closed channel the push is refused and nothing changes *)
Lemma chan_push_closed : forall st ch v st' , chan_push st ch v = Some (st', false) -> st' = st /\ chan_closed st ch = Some true.
Proof.
  unfold chan_push. intros st ch v st' H.
  destruct (chan_closed st ch) as [[|]|] eqn:C; destruct (mpsc_get st ch) as [m|] eqn:G; try discriminate.
  - inversion H; auto.
  - destruct (match mp_bound m with Some k => negb (N.of_nat (length (mp_msgs m)) <? k)%N | None => false end); discriminate.
Qed.

(* a pop takes the front; the flag asks for recv_semaphore.close() exactly when the buffer drained with no sender left *)
Lemma chan_pop_some : forall st ch st' v cl,
  chan_pop st ch = Some (st', Some v, cl) ->
  exists m r, mpsc_get st ch = Some m /\ mp_msgs m = v :: r /\ mpsc_get st' ch = Some (mp_set_msgs m r) /\
              chan_closed st' ch = chan_closed st ch /\
              cl = (match r with [] => true | _ => false end) && N.eqb (mp_senders m) 0.
Proof.
  unfold chan_pop. intros st ch st' v cl H.
  destruct (mpsc_get st ch) as [m|] eqn:G; [|discriminate].
  destruct (mp_msgs m) as [|w r] eqn:M; [discriminate|]. inversion H; subst; clear H.
  exists m, r. repeat split; auto.
  - eapply mpsc_get_put; [eassumption|]. simpl. eapply mpsc_get_tx3; eassumption.
  - apply chan_closed_put.
Qed.

Lemma chan_pop_none : forall st ch st' cl,
  chan_pop st ch = Some (st', None, cl) -> st' = st /\ exists m, mpsc_get st ch = Some m /\ mp_msgs m = [].
Proof.
  unfold chan_pop. intros st ch st' cl H.
  destruct (mpsc_get st ch) as [m|] eqn:G; [|discriminate].
  destruct (mp_msgs m) as [|w r] eqn:M; [|discriminate]. inversion H; subst. split; auto. exists m; auto.
Qed.

(* ---------------- refinement of the buffer functions to a FIFO queue ---------------- *)
Inductive qop := QPush (v : N) | QPop.

Fixpoint qrun (st : store) (ch : nat) (ops : list qop) (out : list N) : option (store * list N) :=
  match ops with
  | [] => Some (st, out)
  | QPush v :: r => match chan_push st ch v with Some (st', _) => qrun st' ch r out | None => None end
  | QPop :: r => match chan_pop st ch with
                 | Some (st', Some v, _) => qrun st' ch r (out ++ [v])
                 | Some (st', None, _) => qrun st' ch r out
                 | None => None end
  end.

Fixpoint pushes (ops : list qop) : list N :=
  match ops with [] => [] | QPush v :: r => v :: pushes r | QPop :: r => pushes r end.

(* Over any sequence of Channel::send and Channel::recv calls on an open channel (no panic): what was received, followed
   by what is still buffered, is exactly what was sent, in order - each value delivered at most once, none lost. *)
Lemma qrun_fifo : forall ops st ch out st' out' m,
  qrun st ch ops out = Some (st', out') ->
  mpsc_get st ch = Some m -> chan_closed st ch = Some false ->
  exists m', mpsc_get st' ch = Some m' /\ out ++ mp_msgs m ++ pushes ops = out' ++ mp_msgs m' /\
             (forall k, mp_bound m = Some k -> mp_bound m' = Some k).
Proof.
  induction ops as [|o r IH]; intros st ch out st' out' m H G C; simpl in H.
  - inversion H; subst. exists m. simpl. rewrite app_nil_r. auto.
  - destruct o as [v|].
    + destruct (chan_push st ch v) as [[st1 ok]|] eqn:P; [|discriminate].
      destruct ok.
      * destruct (chan_push_ok _ _ _ _ P) as (m0 & G0 & _ & G1 & C1 & _).
        rewrite G in G0; inversion G0; subst m0.
        destruct (IH _ _ _ _ _ _ H G1 C1) as (m' & Gm & E & B).
        exists m'. split; [assumption|]. split.
        -- simpl in E. simpl. rewrite <- E. rewrite <- !app_assoc. reflexivity.
        -- intros k Hk. apply B. simpl. assumption.
      * destruct (chan_push_closed _ _ _ _ P) as [_ C2]. congruence.
    + destruct (chan_pop st ch) as [[[st1 [v|]] cl]|] eqn:P; [| |discriminate].
      * destruct (chan_pop_some _ _ _ _ _ P) as (m0 & q & G0 & M0 & G1 & C1 & _).
        rewrite G in G0; inversion G0; subst m0.
        rewrite C in C1.
        destruct (IH _ _ _ _ _ _ H G1 C1) as (m' & Gm & E & B).
        exists m'. split; [assumption|]. split.
        -- simpl in E. simpl. rewrite <- E. rewrite M0. rewrite <- !app_assoc. reflexivity.
        -- intros k Hk. apply B. simpl. assumption.
      * destruct (chan_pop_none _ _ _ _ P) as [-> _].
        destruct (IH _ _ _ _ _ _ H G C) as (m' & Gm & E & B).
        exists m'. auto.
Qed.

(* the buffer of a bounded channel never exceeds its bound: a push beyond it is the assert!, i.e. None *)
Lemma chan_push_within_bound : forall st ch v st' m k,
  chan_push st ch v = Some (st', true) -> mpsc_get st ch = Some m -> mp_bound m = Some k ->
  exists m', mpsc_get st' ch = Some m' /\ (N.of_nat (length (mp_msgs m')) <= k)%N.
Proof.
  intros st ch v st' m k P G B.
  destruct (chan_push_ok _ _ _ _ P) as (m0 & G0 & _ & G1 & _ & Hb).
  rewrite G in G0; inversion G0; subst m0.
  eexists; split; [exact G1|]. simpl. rewrite app_length. simpl. specialize (Hb k B). lia.
Qed.
