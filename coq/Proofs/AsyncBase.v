(* C17, engine level: Task.woken / TaskState::Sleeping.
   - the invariant "a sleeping task has no remembered wake" and its preservation by every engine call;
   - what Waker::wake and sleep_unless_woken do to a task (clauses (b) (c) (d) of no_lost_wake);
   - the ghost-instrumented polling loop: after a wake since the latest poll started the task is not asleep;
   - a sleeping task is neither offered to the scheduler nor counted as runnable. *)
From Coq Require Import List NArith Bool Arith Lia.
From SV Require Import Clock.VClock Prim.Objects Engine.Exec Prim.Semaphore Prim.SemInv Proofs.SemBase
  Lang.Code Lang.SyncOps Lang.SyncOps2 Lang.AsyncOps Lang.AsyncSpec.
Import ListNotations.
Local Open Scope nat_scope.

Ltac tsimpl :=
  cbn [t_state t_detached t_token t_inpark t_woken t_waiter t_clock
       set_state set_detached set_park set_woken set_waiter_f set_clock unblock_task
       is_runnable is_blocked can_spur is_sleeping is_finished] in *.

(* ------------------------------------------------------------------ *)
(* task level                                                           *)
(* ------------------------------------------------------------------ *)
Lemma wake_task_woken : forall tk, t_woken (wake_task tk) = true.
Proof. intros tk; unfold wake_task; destruct (is_sleeping tk); tsimpl; reflexivity. Qed.

Lemma wake_task_not_sleeping : forall tk, is_sleeping (wake_task tk) = false.
Proof.
  intros tk; unfold wake_task. destruct (is_sleeping tk) eqn:Hs; tsimpl; [reflexivity|exact Hs].
Qed.

Lemma wake_task_state : forall tk,
  t_state (wake_task tk) = match t_state tk with Sleeping => Runnable | s => s end.
Proof. intros tk; unfold wake_task, is_sleeping; destruct (t_state tk) eqn:Hs; tsimpl; auto. Qed.

Lemma wake_task_sleeping_runnable : forall tk, is_sleeping tk = true -> t_state (wake_task tk) = Runnable.
Proof. intros tk Hs; unfold wake_task; rewrite Hs; reflexivity. Qed.

Lemma wake_task_awake_state : forall tk, is_sleeping tk = false -> t_state (wake_task tk) = t_state tk.
Proof. intros tk Hs; unfold wake_task; rewrite Hs; reflexivity. Qed.

Lemma wake_ok_wake_task : forall tk, wake_ok (wake_task tk).
Proof. intros tk Hs; rewrite wake_task_not_sleeping in Hs; discriminate. Qed.

Lemma wake_ok_unblock_task : forall tk, wake_ok (unblock_task tk).
Proof. intros tk Hs; unfold is_sleeping in Hs; tsimpl; discriminate. Qed.

Lemma wake_ok_block : forall tk spur, wake_ok (set_state tk (Blocked spur)).
Proof. intros tk spur Hs; unfold is_sleeping in Hs; tsimpl; discriminate. Qed.

Lemma wake_ok_clear : forall tk, wake_ok tk -> wake_ok (set_woken tk false).
Proof. intros tk _ _; reflexivity. Qed.

Lemma wake_ok_sleep : forall tk, wake_ok (set_state (set_woken tk false) Sleeping).
Proof. intros tk _; reflexivity. Qed.

(* ------------------------------------------------------------------ *)
(* upd_task                                                             *)
(* ------------------------------------------------------------------ *)
Lemma upd_task_some : forall e t f tk, get_task e t = Some tk -> exists e', upd_task e t f = Some e'.
Proof. intros e t f tk Hg; unfold upd_task; rewrite Hg; eauto. Qed.

Lemma upd_task_same : forall e t f e' tk,
  upd_task e t f = Some e' -> get_task e t = Some tk -> get_task e' t = Some (f tk).
Proof.
  intros e t f e' tk Hu Hg. destruct (upd_task_get e t f e' Hu) as (Hs & _). rewrite Hs, Hg; reflexivity.
Qed.

Lemma upd_task_other : forall e t f e' t',
  upd_task e t f = Some e' -> t <> t' -> get_task e' t' = get_task e t'.
Proof. intros e t f e' t' Hu Hne. destruct (upd_task_get e t f e' Hu) as (_ & Ho & _). auto. Qed.

Lemma upd_task_fields : forall e t f e',
  upd_task e t f = Some e' ->
  current e' = current e /\ next e' = next e /\ live e' = live e /\ has_yielded e' = has_yielded e.
Proof.
  intros e t f e' Hu; unfold upd_task in Hu. destruct (get_task e t); [|discriminate].
  inversion Hu; subst; repeat split.
Qed.

Lemma upd_task_exec_finished : forall e t f e', upd_task e t f = Some e' -> exec_is_finished e' = exec_is_finished e.
Proof.
  intros e t f e' Hu. destruct (upd_task_fields e t f e' Hu) as (Hc & _). unfold exec_is_finished; rewrite Hc; reflexivity.
Qed.

Lemma upd_task_wake_inv : forall e t f e',
  upd_task e t f = Some e' -> (forall tk, get_task e t = Some tk -> wake_ok tk -> wake_ok (f tk)) ->
  wake_inv e -> wake_inv e'.
Proof.
  intros e t f e' Hu Hf Hinv t' tk' Hg'.
  destruct (Nat.eq_dec t t') as [<-|Hne].
  - destruct (get_task e t) as [tk|] eqn:Hg.
    + rewrite (upd_task_same e t f e' tk Hu Hg) in Hg'. inversion Hg'; subst. apply Hf; [reflexivity|eapply Hinv; eauto].
    + unfold upd_task in Hu; rewrite Hg in Hu; discriminate.
  - rewrite (upd_task_other e t f e' t' Hu Hne) in Hg'. eapply Hinv; eauto.
Qed.

Lemma e_set_waiter_cases : forall e x w e' b,
  e_set_waiter e x w = Some (e', b) -> e' = e \/ upd_task e x (fun tk => set_waiter_f tk (Some w)) = Some e'.
Proof.
  intros e x w e' b Ha; unfold e_set_waiter in Ha.
  destruct (get_task e x) as [tk|]; [|discriminate].
  destruct (t_waiter tk) as [w'|].
  - destruct (Nat.eqb w' w); [|discriminate].
    destruct (is_finished tk); [inversion Ha; auto|].
    destruct (upd_task e x _) as [e1|]; [|discriminate]. inversion Ha; subst; auto.
  - destruct (is_finished tk); [inversion Ha; auto|].
    destruct (upd_task e x _) as [e1|]; [|discriminate]. inversion Ha; subst; auto.
Qed.

(* ------------------------------------------------------------------ *)
(* (a) the invariant is preserved by every engine call                  *)
(* ------------------------------------------------------------------ *)
Lemma wake_inv_waker_wake : forall e t e', e_waker_wake e t = Some e' -> wake_inv e -> wake_inv e'.
Proof.
  intros e t e' Hw Hinv; unfold e_waker_wake in Hw.
  destruct (exec_is_finished e); [inversion Hw; subst; exact Hinv|].
  destruct (get_task e t) as [tk|] eqn:Hg; [|discriminate].
  destruct (is_finished tk); [inversion Hw; subst; exact Hinv|].
  eapply upd_task_wake_inv; [exact Hw| |exact Hinv]. intros; apply wake_ok_wake_task.
Qed.

Lemma wake_inv_abort : forall e t e', e_abort e t = Some e' -> wake_inv e -> wake_inv e'.
Proof.
  intros e t e' Hw Hinv; unfold e_abort in Hw.
  destruct (get_task e t) as [tk|] eqn:Hg; [|discriminate].
  destruct (is_finished tk); [inversion Hw; subst; exact Hinv|].
  eapply upd_task_wake_inv; [exact Hw| |exact Hinv]. intros; apply wake_ok_wake_task.
Qed.

Lemma wake_inv_sleep_unless_woken : forall e t e', e_sleep_unless_woken e t = Some e' -> wake_inv e -> wake_inv e'.
Proof.
  intros e t e' Hs Hinv; unfold e_sleep_unless_woken in Hs.
  destruct (get_task e t) as [tk|] eqn:Hg; [|discriminate].
  destruct (t_woken tk).
  - eapply upd_task_wake_inv; [exact Hs| |exact Hinv]. intros; apply wake_ok_clear; assumption.
  - destruct (is_finished tk); [discriminate|].
    eapply upd_task_wake_inv; [exact Hs| |exact Hinv]. intros; apply wake_ok_sleep.
Qed.

Lemma wake_inv_unblock : forall e t e', e_unblock e t = Some e' -> wake_inv e -> wake_inv e'.
Proof.
  intros e t e' Hu Hinv; unfold e_unblock in Hu.
  destruct (get_task e t) as [tk|] eqn:Hg; [|discriminate].
  destruct (is_finished tk); [discriminate|].
  eapply upd_task_wake_inv; [exact Hu| |exact Hinv]. intros; apply wake_ok_unblock_task.
Qed.

Lemma wake_inv_block : forall e t spur e', e_block e t spur = Some e' -> wake_inv e -> wake_inv e'.
Proof.
  intros e t spur e' Hb Hinv; unfold e_block in Hb.
  destruct (get_task e t) as [tk|] eqn:Hg; [|discriminate].
  destruct (is_finished tk); [discriminate|].
  eapply upd_task_wake_inv; [exact Hb| |exact Hinv]. intros; apply wake_ok_block.
Qed.

(* setters that touch neither the state nor the woken flag *)
Definition keeps_sw (f : task -> task) : Prop := forall tk, t_state (f tk) = t_state tk /\ t_woken (f tk) = t_woken tk.

Lemma keeps_sw_wake_ok : forall f tk, keeps_sw f -> wake_ok tk -> wake_ok (f tk).
Proof.
  intros f tk Hk Hok Hs. destruct (Hk tk) as (Hst & Hw). unfold is_sleeping in *. rewrite Hst in Hs. rewrite Hw. auto.
Qed.

Lemma wake_inv_keeps_sw : forall e t f e', upd_task e t f = Some e' -> keeps_sw f -> wake_inv e -> wake_inv e'.
Proof.
  intros e t f e' Hu Hk Hinv. eapply upd_task_wake_inv; [exact Hu| |exact Hinv].
  intros; apply keeps_sw_wake_ok; assumption.
Qed.

Lemma keeps_sw_detached : forall b, keeps_sw (fun tk => set_detached tk b).
Proof. intros b tk; split; reflexivity. Qed.
Lemma keeps_sw_park : forall (g h : task -> bool), keeps_sw (fun tk => set_park tk (g tk) (h tk)).
Proof. intros g h tk; split; reflexivity. Qed.
Lemma keeps_sw_waiter : forall w, keeps_sw (fun tk => set_waiter_f tk w).
Proof. intros w tk; split; reflexivity. Qed.
Lemma keeps_sw_clock : forall (g : task -> vclock), keeps_sw (fun tk => set_clock tk (g tk)).
Proof. intros g tk; split; reflexivity. Qed.

Lemma wake_inv_apply_op : forall o e e', apply_op o e = Some e' -> wake_inv e -> wake_inv e'.
Proof.
  intros o e e' Ha Hinv; destruct o as [x|x|x|x|x spur|x|x|x|x w|x|x|x c| |]; cbn [apply_op] in Ha.
  - eapply wake_inv_waker_wake; eauto.
  - eapply wake_inv_abort; eauto.
  - eapply wake_inv_sleep_unless_woken; eauto.
  - eapply wake_inv_unblock; eauto.
  - eapply wake_inv_block; eauto.
  - unfold e_detach in Ha. eapply wake_inv_keeps_sw; [exact Ha|apply keeps_sw_detached|exact Hinv].
  - unfold e_park in Ha.
    destruct (get_task e x) as [tk|] eqn:Hg; [|discriminate].
    destruct (t_inpark tk); [discriminate|]. destruct (is_blocked tk); [discriminate|].
    destruct (t_token tk).
    + destruct (upd_task e x _) as [e1|] eqn:Hu; [|discriminate]. inversion Ha; subst.
      eapply wake_inv_keeps_sw; [exact Hu|apply (keeps_sw_park (fun _ => false) t_inpark)|exact Hinv].
    + destruct (is_finished tk); [discriminate|].
      destruct (upd_task e x _) as [e1|] eqn:Hu; [|discriminate]. inversion Ha; subst.
      eapply upd_task_wake_inv; [exact Hu| |exact Hinv]. intros tk0 _ _ Hs. unfold is_sleeping in Hs; tsimpl; discriminate.
  - unfold e_unpark in Ha.
    destruct (get_task e x) as [tk|] eqn:Hg; [|discriminate].
    destruct (t_inpark tk).
    + destruct (negb (can_spur tk)); [discriminate|]. destruct (t_token tk); [discriminate|].
      eapply wake_inv_unblock; eauto.
    + eapply wake_inv_keeps_sw; [exact Ha|apply (keeps_sw_park (fun _ => true) t_inpark)|exact Hinv].
  - destruct (e_set_waiter e x w) as [[e1 b]|] eqn:Hx; [|discriminate]. inversion Ha; subst.
    destruct (e_set_waiter_cases _ _ _ _ _ Hx) as [->|Hu]; [exact Hinv|].
    eapply wake_inv_keeps_sw; [exact Hu|apply keeps_sw_waiter|exact Hinv].
  - unfold e_take_waiter in Ha.
    destruct (get_task e x) as [tk|] eqn:Hg; [|discriminate].
    destruct (upd_task e x _) as [e1|] eqn:Hu; [|discriminate]. inversion Ha; subst.
    eapply wake_inv_keeps_sw; [exact Hu|apply keeps_sw_waiter|exact Hinv].
  - unfold e_increment_clock in Ha.
    destruct (get_task e x) as [tk|] eqn:Hg; [|discriminate].
    destruct (increment (t_clock tk) x) as [c|]; [|discriminate].
    eapply wake_inv_keeps_sw; [exact Ha|apply (keeps_sw_clock (fun _ => c))|exact Hinv].
  - unfold e_join_clock in Ha.
    eapply wake_inv_keeps_sw; [exact Ha|apply (keeps_sw_clock (fun tk => update (t_clock tk) c))|exact Hinv].
  - inversion Ha; subst. exact Hinv.
  - inversion Ha; subst. exact Hinv.
Qed.

Lemma wake_inv_apply_ops : forall l e e', apply_ops l e = Some e' -> wake_inv e -> wake_inv e'.
Proof.
  intros l; induction l as [|o r IH]; intros e e' Ha Hinv; cbn [apply_ops] in Ha.
  - inversion Ha; subst; exact Hinv.
  - destruct (apply_op o e) as [e1|] eqn:Ho; [|discriminate].
    eapply IH; [exact Ha|]. eapply wake_inv_apply_op; eauto.
Qed.

(* the invariant holds initially, for a freshly spawned task and when a task finishes *)
Lemma wake_inv_init : forall main objs, wake_inv (w_e (init_world main objs)).
Proof.
  intros main objs t tk Hg; unfold init_world, get_task in Hg; cbn in Hg.
  destruct t as [|t]; cbn in Hg; [inversion Hg; subst; intros Hs; discriminate|destruct t; discriminate].
Qed.

Lemma wake_inv_with_tasks_app : forall e tk, wake_inv e -> wake_ok tk -> wake_inv (with_tasks e (tasks e ++ [tk])).
Proof.
  intros e tk Hinv Hok t tk' Hg; unfold get_task in Hg; cbn [tasks with_tasks] in Hg.
  destruct (Nat.lt_ge_cases t (length (tasks e))) as [Hlt|Hge].
  - rewrite nth_error_app1 in Hg by assumption. eapply Hinv; exact Hg.
  - rewrite nth_error_app2 in Hg by assumption.
    destruct (t - length (tasks e)) as [|n]; cbn in Hg; [inversion Hg; subst; exact Hok|destruct n; discriminate].
Qed.

Lemma wake_inv_spawn : forall e e' tid, spawn_thread_now e = Some (e', tid) -> wake_inv e -> wake_inv e'.
Proof.
  intros e e' tid Hs Hinv; unfold spawn_thread_now in Hs.
  destruct (me e) as [p|]; [|discriminate].
  destruct (e_increment_clock e p) as [e1|] eqn:H1; [|discriminate].
  destruct (e_clock e1 p) as [pc|]; [|discriminate].
  destruct (extend pc (length (tasks e))) as [c|]; [|discriminate].
  destruct (upd_task e1 p _) as [e2|] eqn:H2; [|discriminate].
  inversion Hs; subst; clear Hs.
  assert (Hinv2 : wake_inv e2).
  { eapply wake_inv_keeps_sw; [exact H2|apply (keeps_sw_clock (fun _ => c))|].
    eapply (wake_inv_apply_op (OpIncClock p)); [exact H1|exact Hinv]. }
  intros t tk Hg. unfold get_task in Hg; cbn [tasks with_live] in Hg.
  eapply (wake_inv_with_tasks_app e2 _ Hinv2); [|exact Hg]. intros Hsl; discriminate.
Qed.

Lemma wake_inv_finish_current : forall e e', finish_current e = Some e' -> wake_inv e -> wake_inv e'.
Proof.
  intros e e' Hf Hinv; unfold finish_current in Hf.
  destruct (me e) as [t|]; [|discriminate].
  destruct (get_task e t) as [tk|] eqn:Hg; [|discriminate].
  destruct (is_finished tk); [discriminate|].
  destruct (upd_task e t _) as [e1|] eqn:Hu; [|discriminate]. inversion Hf; subst; clear Hf.
  assert (Hinv1 : wake_inv e1).
  { eapply upd_task_wake_inv; [exact Hu| |exact Hinv]. intros tk0 _ _ Hs; unfold is_sleeping in Hs; tsimpl; discriminate. }
  intros t' tk' Hg'. eapply Hinv1. exact Hg'.
Qed.

(* ------------------------------------------------------------------ *)
(* (c) a wake of a sleeping task                                        *)
(* ------------------------------------------------------------------ *)
Lemma waker_wake_alive : forall e t tk,
  exec_is_finished e = false -> get_task e t = Some tk -> is_finished tk = false ->
  exists e', e_waker_wake e t = Some e' /\ get_task e' t = Some (wake_task tk) /\
             (forall t', t <> t' -> get_task e' t' = get_task e t') /\
             exec_is_finished e' = false.
Proof.
  intros e t tk Hef Hg Hfin. unfold e_waker_wake. rewrite Hef, Hg, Hfin.
  destruct (upd_task_some e t wake_task tk Hg) as (e' & Hu). exists e'. split; [exact Hu|].
  split; [eapply upd_task_same; eauto|]. split.
  - intros t' Hne; eapply upd_task_other; eauto.
  - rewrite (upd_task_exec_finished _ _ _ _ Hu); exact Hef.
Qed.

Theorem wake_sleeping_runnable : forall e t tk,
  exec_is_finished e = false -> get_task e t = Some tk -> is_sleeping tk = true ->
  exists e' tk', e_waker_wake e t = Some e' /\ get_task e' t = Some tk' /\
                 t_state tk' = Runnable /\ t_woken tk' = true.
Proof.
  intros e t tk Hef Hg Hs.
  assert (Hfin : is_finished tk = false) by (unfold is_sleeping, is_finished in *; destruct (t_state tk); congruence).
  destruct (waker_wake_alive e t tk Hef Hg Hfin) as (e' & Hw & Hg' & _).
  exists e', (wake_task tk). repeat split; auto.
  - apply wake_task_sleeping_runnable; exact Hs.
  - apply wake_task_woken.
Qed.

(* a wake of a task that is not asleep (Runnable, or Blocked inside a synchronous primitive) is only remembered *)
Theorem wake_awake_remembered : forall e t tk,
  exec_is_finished e = false -> get_task e t = Some tk -> is_finished tk = false -> is_sleeping tk = false ->
  exists e' tk', e_waker_wake e t = Some e' /\ get_task e' t = Some tk' /\
                 t_state tk' = t_state tk /\ t_woken tk' = true.
Proof.
  intros e t tk Hef Hg Hfin Hs.
  destruct (waker_wake_alive e t tk Hef Hg Hfin) as (e' & Hw & Hg' & _).
  exists e', (wake_task tk). repeat split; auto.
  - apply wake_task_awake_state; exact Hs.
  - apply wake_task_woken.
Qed.

(* the wake is the same whichever task is current *)
Lemma waker_wake_ignores_current : forall e t c n,
  exec_is_finished e = false -> exec_is_finished (with_current_next e c n) = false ->
  e_waker_wake (with_current_next e c n) t =
  option_map (fun e' => with_current_next e' c n) (e_waker_wake e t).
Proof.
  intros e t c n H1 H2. unfold e_waker_wake. rewrite H1, H2.
  unfold get_task; cbn [tasks with_current_next].
  destruct (nth_error (tasks e) t) as [tk|] eqn:Hn; [|reflexivity].
  destruct (is_finished tk); [cbn [option_map]; reflexivity|].
  unfold upd_task, get_task; cbn [tasks with_current_next]. rewrite Hn. reflexivity.
Qed.

(* ------------------------------------------------------------------ *)
(* (d) sleep_unless_woken                                               *)
(* ------------------------------------------------------------------ *)
Theorem sleep_unless_woken_spec : forall e t tk,
  get_task e t = Some tk -> is_finished tk = false ->
  exists e' tk', e_sleep_unless_woken e t = Some e' /\ get_task e' t = Some tk' /\
    t_woken tk' = false /\
    (t_woken tk = false -> t_state tk' = Sleeping) /\
    (t_woken tk = true -> t_state tk' = t_state tk) /\
    (forall t', t <> t' -> get_task e' t' = get_task e t').
Proof.
  intros e t tk Hg Hfin. unfold e_sleep_unless_woken. rewrite Hg.
  destruct (t_woken tk) eqn:Hw.
  - destruct (upd_task_some e t (fun tk => set_woken tk false) tk Hg) as (e' & Hu).
    exists e', (set_woken tk false). split; [exact Hu|]. split; [exact (upd_task_same _ _ _ _ _ Hu Hg)|].
    repeat split; try reflexivity; try discriminate. intros t' Hne; eapply upd_task_other; eauto.
  - rewrite Hfin.
    destruct (upd_task_some e t (fun tk => set_state (set_woken tk false) Sleeping) tk Hg) as (e' & Hu).
    exists e', (set_state (set_woken tk false) Sleeping). split; [exact Hu|]. split; [exact (upd_task_same _ _ _ _ _ Hu Hg)|].
    repeat split; try reflexivity; try discriminate. intros t' Hne; eapply upd_task_other; eauto.
Qed.

(* "Sleeping exactly when t_woken was false", for a task that is awake when it calls it *)
Corollary sleep_unless_woken_iff : forall e t tk,
  get_task e t = Some tk -> is_finished tk = false -> is_sleeping tk = false ->
  exists e' tk', e_sleep_unless_woken e t = Some e' /\ get_task e' t = Some tk' /\
    t_woken tk' = false /\ (is_sleeping tk' = true <-> t_woken tk = false).
Proof.
  intros e t tk Hg Hfin Hns.
  destruct (sleep_unless_woken_spec e t tk Hg Hfin) as (e' & tk' & Hs & Hg' & Hw' & Hsl & Hst & _).
  exists e', tk'. repeat split; auto.
  - intros Hs'. destruct (t_woken tk) eqn:Hw; [|reflexivity].
    unfold is_sleeping in *. rewrite (Hst eq_refl) in Hs'. congruence.
  - intros Hw. unfold is_sleeping. rewrite (Hsl Hw). reflexivity.
Qed.

(* ------------------------------------------------------------------ *)
(* (b) calls that are not t's own sleep_unless_woken keep a remembered wake *)
(* ------------------------------------------------------------------ *)
Definition woken_mono (t : nat) (e e' : exec) : Prop :=
  exec_is_finished e' = exec_is_finished e /\
  forall tk, get_task e t = Some tk -> exists tk', get_task e' t = Some tk' /\
    is_finished tk' = is_finished tk /\ (t_woken tk = true -> t_woken tk' = true) /\
    (is_sleeping tk' = true -> is_sleeping tk = true).

Lemma woken_mono_refl : forall t e, woken_mono t e e.
Proof. intros t e; split; [reflexivity|]. intros tk Hg; exists tk; auto. Qed.

Lemma woken_mono_trans : forall t e1 e2 e3, woken_mono t e1 e2 -> woken_mono t e2 e3 -> woken_mono t e1 e3.
Proof.
  intros t e1 e2 e3 (Hf1 & H1) (Hf2 & H2). split; [congruence|].
  intros tk Hg. destruct (H1 tk Hg) as (tk2 & Hg2 & Hfin2 & Hw2 & Hs2).
  destruct (H2 tk2 Hg2) as (tk3 & Hg3 & Hfin3 & Hw3 & Hs3).
  exists tk3. repeat split; auto; congruence.
Qed.

Definition task_mono (f : task -> task) : Prop :=
  forall tk, is_finished (f tk) = is_finished tk /\ (t_woken tk = true -> t_woken (f tk) = true) /\
             (is_sleeping (f tk) = true -> is_sleeping tk = true).

Lemma upd_task_mono : forall t e x f e',
  upd_task e x f = Some e' -> (x = t -> forall tk, get_task e t = Some tk ->
     is_finished (f tk) = is_finished tk /\ (t_woken tk = true -> t_woken (f tk) = true) /\
     (is_sleeping (f tk) = true -> is_sleeping tk = true)) ->
  woken_mono t e e'.
Proof.
  intros t e x f e' Hu Hf. split; [eapply upd_task_exec_finished; eauto|].
  intros tk Hg. destruct (Nat.eq_dec x t) as [Heq|Hne].
  - subst x. exists (f tk). split; [eapply upd_task_same; eauto|]. apply Hf; auto.
  - exists tk. rewrite (upd_task_other e x f e' t Hu Hne). auto.
Qed.

Lemma keeps_sw_fin : forall f tk, keeps_sw f -> is_finished (f tk) = is_finished tk /\
  (t_woken tk = true -> t_woken (f tk) = true) /\ (is_sleeping (f tk) = true -> is_sleeping tk = true).
Proof.
  intros f tk Hk. destruct (Hk tk) as (Hst & Hw). unfold is_finished, is_sleeping. rewrite Hst, Hw. auto.
Qed.

Lemma wake_task_mono : forall tk, is_finished (wake_task tk) = is_finished tk /\
  (t_woken tk = true -> t_woken (wake_task tk) = true) /\ (is_sleeping (wake_task tk) = true -> is_sleeping tk = true).
Proof.
  intros tk. split; [apply wake_task_finished|]. split; [intros _; apply wake_task_woken|].
  rewrite wake_task_not_sleeping; discriminate.
Qed.

Lemma apply_op_mono : forall t o e e', o <> OpSUW t -> apply_op o e = Some e' -> woken_mono t e e'.
Proof.
  intros t o e e' Hno Ha; destruct o as [x|x|x|x|x spur|x|x|x|x w|x|x|x c| |]; cbn [apply_op] in Ha.
  - unfold e_waker_wake in Ha.
    destruct (exec_is_finished e); [inversion Ha; subst; apply woken_mono_refl|].
    destruct (get_task e x) as [tk|] eqn:Hg; [|discriminate].
    destruct (is_finished tk); [inversion Ha; subst; apply woken_mono_refl|].
    eapply upd_task_mono; [exact Ha|]. intros _ tk0 _; apply wake_task_mono.
  - unfold e_abort in Ha.
    destruct (get_task e x) as [tk|] eqn:Hg; [|discriminate].
    destruct (is_finished tk); [inversion Ha; subst; apply woken_mono_refl|].
    eapply upd_task_mono; [exact Ha|]. intros _ tk0 _; apply wake_task_mono.
  - assert (Hne : x <> t) by (intros ->; apply Hno; reflexivity).
    unfold e_sleep_unless_woken in Ha.
    destruct (get_task e x) as [tk|] eqn:Hg; [|discriminate].
    destruct (t_woken tk).
    + eapply upd_task_mono; [exact Ha|]. intros Heq; contradiction.
    + destruct (is_finished tk); [discriminate|]. eapply upd_task_mono; [exact Ha|]. intros Heq; contradiction.
  - unfold e_unblock in Ha.
    destruct (get_task e x) as [tk|] eqn:Hg; [|discriminate].
    destruct (is_finished tk) eqn:Hfin; [discriminate|].
    eapply upd_task_mono; [exact Ha|]. intros -> tk0 Hg0. rewrite Hg in Hg0; inversion Hg0; subst tk0.
    rewrite Hfin. unfold is_finished, is_sleeping; tsimpl. repeat split; auto; discriminate.
  - unfold e_block in Ha.
    destruct (get_task e x) as [tk|] eqn:Hg; [|discriminate].
    destruct (is_finished tk) eqn:Hfin; [discriminate|].
    eapply upd_task_mono; [exact Ha|]. intros -> tk0 Hg0. rewrite Hg in Hg0; inversion Hg0; subst tk0.
    rewrite Hfin. unfold is_finished, is_sleeping; tsimpl. repeat split; auto; discriminate.
  - unfold e_detach in Ha. eapply upd_task_mono; [exact Ha|]. intros _ tk0 _.
    apply (keeps_sw_fin (fun tk => set_detached tk true)); apply keeps_sw_detached.
  - unfold e_park in Ha.
    destruct (get_task e x) as [tk|] eqn:Hg; [|discriminate].
    destruct (t_inpark tk); [discriminate|]. destruct (is_blocked tk); [discriminate|].
    destruct (t_token tk).
    + destruct (upd_task e x _) as [e1|] eqn:Hu; [|discriminate]. inversion Ha; subst.
      eapply upd_task_mono; [exact Hu|]. intros _ tk0 _.
      apply (keeps_sw_fin (fun tk => set_park tk false (t_inpark tk))). apply (keeps_sw_park (fun _ => false) t_inpark).
    + destruct (is_finished tk) eqn:Hfin; [discriminate|].
      destruct (upd_task e x _) as [e1|] eqn:Hu; [|discriminate]. inversion Ha; subst.
      eapply upd_task_mono; [exact Hu|]. intros -> tk0 Hg0. rewrite Hg in Hg0; inversion Hg0; subst tk0.
      rewrite Hfin. unfold is_finished, is_sleeping; tsimpl. repeat split; auto; discriminate.
  - unfold e_unpark in Ha.
    destruct (get_task e x) as [tk|] eqn:Hg; [|discriminate].
    destruct (t_inpark tk).
    + destruct (negb (can_spur tk)); [discriminate|]. destruct (t_token tk); [discriminate|].
      unfold e_unblock in Ha. rewrite Hg in Ha.
      destruct (is_finished tk) eqn:Hfin; [discriminate|].
      eapply upd_task_mono; [exact Ha|]. intros -> tk0 Hg0. rewrite Hg in Hg0; inversion Hg0; subst tk0.
      rewrite Hfin. unfold is_finished, is_sleeping; tsimpl. repeat split; auto; discriminate.
    + eapply upd_task_mono; [exact Ha|]. intros _ tk0 _.
      apply (keeps_sw_fin (fun tk => set_park tk true (t_inpark tk))). apply (keeps_sw_park (fun _ => true) t_inpark).
  - destruct (e_set_waiter e x w) as [[e1 b]|] eqn:Hx; [|discriminate]. inversion Ha; subst.
    destruct (e_set_waiter_cases _ _ _ _ _ Hx) as [->|Hu]; [apply woken_mono_refl|].
    eapply upd_task_mono; [exact Hu|]. intros _ tk0 _.
    apply (keeps_sw_fin (fun tk => set_waiter_f tk (Some w))); apply keeps_sw_waiter.
  - unfold e_take_waiter in Ha.
    destruct (get_task e x) as [tk|] eqn:Hg; [|discriminate].
    destruct (upd_task e x _) as [e1|] eqn:Hu; [|discriminate]. inversion Ha; subst.
    eapply upd_task_mono; [exact Hu|]. intros _ tk0 _.
    apply (keeps_sw_fin (fun tk => set_waiter_f tk None)); apply keeps_sw_waiter.
  - unfold e_increment_clock in Ha.
    destruct (get_task e x) as [tk|] eqn:Hg; [|discriminate].
    destruct (increment (t_clock tk) x) as [c|]; [|discriminate].
    eapply upd_task_mono; [exact Ha|]. intros _ tk0 _.
    apply (keeps_sw_fin (fun tk => set_clock tk c)); apply (keeps_sw_clock (fun _ => c)).
  - unfold e_join_clock in Ha. eapply upd_task_mono; [exact Ha|]. intros _ tk0 _.
    apply (keeps_sw_fin (fun tk => set_clock tk (update (t_clock tk) c))).
    apply (keeps_sw_clock (fun tk => update (t_clock tk) c)).
  - inversion Ha; subst. exact (woken_mono_refl t e).
  - inversion Ha; subst. exact (woken_mono_refl t e).
Qed.

Lemma apply_ops_mono : forall t l e e', ~ In (OpSUW t) l -> apply_ops l e = Some e' -> woken_mono t e e'.
Proof.
  intros t l; induction l as [|o r IH]; intros e e' Hni Ha; cbn [apply_ops] in Ha.
  - inversion Ha; subst; apply woken_mono_refl.
  - destruct (apply_op o e) as [e1|] eqn:Ho; [|discriminate].
    eapply woken_mono_trans.
    + eapply apply_op_mono; [|exact Ho]. intros ->; apply Hni; left; reflexivity.
    + apply IH; [|exact Ha]. intros Hin; apply Hni; right; exact Hin.
Qed.

(* (b): a wake of t - by whichever task - followed by arbitrary engine calls of any task other than t's own
   sleep_unless_woken, and then t's sleep_unless_woken: t is not put to sleep, so it polls again. *)
Theorem wake_in_poll_phase_repolls : forall t e1 tk1 ops,
  exec_is_finished e1 = false -> get_task e1 t = Some tk1 -> is_finished tk1 = false ->
  ~ In (OpSUW t) ops ->
  forall e2 e3, e_waker_wake e1 t = Some e2 -> apply_ops ops e2 = Some e3 ->
  exists tk3 e4 tk4, get_task e3 t = Some tk3 /\ e_sleep_unless_woken e3 t = Some e4 /\ get_task e4 t = Some tk4 /\
    t_state tk4 = t_state tk3 /\ is_sleeping tk4 = false /\ t_woken tk4 = false.
Proof.
  intros t e1 tk1 ops Hef Hg Hfin Hni e2 e3 Hw Hops.
  destruct (waker_wake_alive e1 t tk1 Hef Hg Hfin) as (e2' & Hw' & Hg2 & _ & Hef2).
  rewrite Hw in Hw'; inversion Hw'; subst e2'; clear Hw'.
  destruct (apply_ops_mono t ops e2 e3 Hni Hops) as (_ & Hm).
  destruct (Hm _ Hg2) as (tk3 & Hg3 & Hfin3 & Hw3 & Hs3).
  rewrite wake_task_finished, Hfin in Hfin3.
  specialize (Hw3 (wake_task_woken tk1)).
  assert (Hns3 : is_sleeping tk3 = false).
  { destruct (is_sleeping tk3) eqn:Hs; [|reflexivity]. specialize (Hs3 eq_refl). rewrite wake_task_not_sleeping in Hs3; discriminate. }
  destruct (sleep_unless_woken_spec e3 t tk3 Hg3 Hfin3) as (e4 & tk4 & Hs & Hg4 & Hw4 & _ & Hst & _).
  exists tk3, e4, tk4. repeat split; auto.
  unfold is_sleeping in *. rewrite (Hst Hw3). exact Hns3.
Qed.

(* the same for Task::abort, which is a wake of the aborted task *)
Theorem abort_in_poll_phase_repolls : forall t e1 tk1 ops,
  get_task e1 t = Some tk1 -> is_finished tk1 = false -> ~ In (OpSUW t) ops ->
  forall e2 e3, e_abort e1 t = Some e2 -> apply_ops ops e2 = Some e3 ->
  exists tk3 e4 tk4, get_task e3 t = Some tk3 /\ e_sleep_unless_woken e3 t = Some e4 /\ get_task e4 t = Some tk4 /\
    t_state tk4 = t_state tk3 /\ is_sleeping tk4 = false /\ t_woken tk4 = false.
Proof.
  intros t e1 tk1 ops Hg Hfin Hni e2 e3 Hw Hops.
  unfold e_abort in Hw. rewrite Hg, Hfin in Hw.
  pose proof (upd_task_same _ _ _ _ _ Hw Hg) as Hg2.
  destruct (apply_ops_mono t ops e2 e3 Hni Hops) as (_ & Hm).
  destruct (Hm _ Hg2) as (tk3 & Hg3 & Hfin3 & Hw3 & Hs3).
  rewrite wake_task_finished, Hfin in Hfin3.
  specialize (Hw3 (wake_task_woken tk1)).
  assert (Hns3 : is_sleeping tk3 = false).
  { destruct (is_sleeping tk3) eqn:Hs; [|reflexivity]. specialize (Hs3 eq_refl). rewrite wake_task_not_sleeping in Hs3; discriminate. }
  destruct (sleep_unless_woken_spec e3 t tk3 Hg3 Hfin3) as (e4 & tk4 & Hs & Hg4 & Hw4 & _ & Hst & _).
  exists tk3, e4, tk4. repeat split; auto.
  unfold is_sleeping in *. rewrite (Hst Hw3). exact Hns3.
Qed.

(* ------------------------------------------------------------------ *)
(* the polling loop with ghost state                                    *)
(* ------------------------------------------------------------------ *)
Lemma alive_mono : forall t e e', woken_mono t e e' -> alive e t -> alive e' t.
Proof.
  intros t e e' (Hf & Hm) (Hef & tk & Hg & Hfin). split; [congruence|].
  destruct (Hm tk Hg) as (tk' & Hg' & Hfin' & _). exists tk'; split; [exact Hg'|congruence].
Qed.

Lemma ginv_mono : forall t e e' ph pd, woken_mono t e e' -> ginv t (mkG e ph pd) -> ginv t (mkG e' ph pd).
Proof.
  intros t e e' ph pd Hm (Hal & tk & Hg & Hpd & Hpoll); cbn [g_e g_phase g_pending] in *.
  split; [eapply alive_mono; eauto|]. cbn [g_e g_phase g_pending].
  destruct Hm as (_ & Hm). destruct (Hm tk Hg) as (tk' & Hg' & _ & Hw' & Hs').
  exists tk'. split; [exact Hg'|]. split.
  - intros Hp. destruct (is_sleeping tk') eqn:Hs; [|reflexivity]. rewrite (Hs' eq_refl) in Hpd. exact (Hpd Hp).
  - intros Hph Hp. apply Hw'. exact (Hpoll Hph Hp).
Qed.

Lemma ginv_after_wake_task : forall t e e' ph pd tk,
  alive e' t -> get_task e' t = Some (wake_task tk) -> ginv t (mkG e ph pd) -> ginv t (mkG e' ph true).
Proof.
  intros t e e' ph pd tk Hal Hg' _. split; [exact Hal|]. cbn [g_e g_phase g_pending].
  exists (wake_task tk). split; [exact Hg'|]. split; intros; [apply wake_task_not_sleeping|apply wake_task_woken].
Qed.

Lemma suw_alive : forall x t e e', e_sleep_unless_woken e x = Some e' -> alive e t -> alive e' t.
Proof.
  intros x t e e' Hs (Hef & tk & Hg & Hfin). unfold e_sleep_unless_woken in Hs.
  destruct (get_task e x) as [tkx|] eqn:Hgx; [|discriminate].
  assert (Hgen : forall f, upd_task e x f = Some e' -> (forall tk0, is_finished tk0 = false -> is_finished (f tk0) = false) -> alive e' t).
  { intros f Hu Hf. split; [rewrite (upd_task_exec_finished _ _ _ _ Hu); exact Hef|].
    destruct (Nat.eq_dec x t) as [->|Hne].
    - exists (f tk). split; [exact (upd_task_same _ _ _ _ _ Hu Hg)|apply Hf; exact Hfin].
    - exists tk. rewrite (upd_task_other _ _ _ _ t Hu Hne). auto. }
  destruct (t_woken tkx).
  - eapply Hgen; [exact Hs|]. intros tk0 H0; exact H0.
  - destruct (is_finished tkx); [discriminate|]. eapply Hgen; [exact Hs|]. intros tk0 H0; reflexivity.
Qed.

Theorem gstep_ginv : forall t g g', gstep t g g' -> ginv t g -> ginv t g'.
Proof.
  intros t g g' Hstep Hinv; destruct Hstep as [o e e' ph pd Hn1 Hn2 Hn3 Ha|e e' ph pd Hw|e e' ph pd Hab|e e' pd Hs|e pd Hns].
  - eapply ginv_mono; [eapply apply_op_mono; eauto|exact Hinv].
  - destruct Hinv as (Hal & tk & Hg & Hrest); cbn [g_e] in *.
    pose proof Hal as (Hef & tk0 & Hg0 & Hfin). rewrite Hg in Hg0; inversion Hg0; subst tk0.
    destruct (waker_wake_alive e t tk Hef Hg Hfin) as (e2 & Hw2 & Hg2 & _ & Hef2).
    rewrite Hw in Hw2; inversion Hw2; subst e2.
    eapply (ginv_after_wake_task t e e' ph pd tk); [|exact Hg2|].
    + split; [exact Hef2|]. exists (wake_task tk). split; [exact Hg2|]. rewrite wake_task_finished; exact Hfin.
    + split; [exact Hal|]. exists tk; auto.
  - destruct Hinv as (Hal & tk & Hg & Hrest); cbn [g_e] in *.
    pose proof Hal as (Hef & tk0 & Hg0 & Hfin). rewrite Hg in Hg0; inversion Hg0; subst tk0.
    unfold e_abort in Hab. rewrite Hg, Hfin in Hab.
    pose proof (upd_task_same _ _ _ _ _ Hab Hg) as Hg2.
    eapply (ginv_after_wake_task t e e' ph pd tk); [|exact Hg2|].
    + split; [rewrite (upd_task_exec_finished _ _ _ _ Hab); exact Hef|].
      exists (wake_task tk). split; [exact Hg2|]. rewrite wake_task_finished; exact Hfin.
    + split; [exact Hal|]. exists tk; auto.
  - destruct Hinv as (Hal & tk & Hg & Hpd & Hpoll); cbn [g_e g_phase g_pending] in *.
    pose proof Hal as (Hef & tk0 & Hg0 & Hfin). rewrite Hg in Hg0; inversion Hg0; subst tk0.
    destruct (sleep_unless_woken_spec e t tk Hg Hfin) as (e2 & tk2 & Hs2 & Hg2 & Hw2 & _ & Hst & _).
    rewrite Hs in Hs2; inversion Hs2; subst e2.
    split; [exact (suw_alive t t e e' Hs Hal)|].
    cbn [g_e g_phase g_pending]. exists tk2. split; [exact Hg2|]. split.
    + intros Hp. specialize (Hpoll eq_refl Hp). unfold is_sleeping in *. rewrite (Hst Hpoll). exact (Hpd Hp).
    + intros Hph; discriminate.
  - destruct Hinv as (Hal & tk & Hg & _); cbn [g_e] in *.
    split; [exact Hal|]. cbn [g_e g_phase g_pending]. exists tk. split; [exact Hg|]. split; intros; discriminate.
Qed.

Theorem gsteps_ginv : forall t g g', gsteps t g g' -> ginv t g -> ginv t g'.
Proof.
  intros t g g' Hs; induction Hs as [g|g1 g2 g3 Hs IH Hst]; intros Hinv; [exact Hinv|].
  eapply gstep_ginv; [exact Hst|]. apply IH; exact Hinv.
Qed.

Lemma gstep_wake_inv : forall t g g', gstep t g g' -> wake_inv (g_e g) -> wake_inv (g_e g').
Proof.
  intros t g g' Hstep Hinv; destruct Hstep as [o e e' ph pd Hn1 Hn2 Hn3 Ha|e e' ph pd Hw|e e' ph pd Hab|e e' pd Hs|e pd Hns];
    cbn [g_e] in *.
  - eapply wake_inv_apply_op; eauto.
  - eapply wake_inv_waker_wake; eauto.
  - eapply wake_inv_abort; eauto.
  - eapply wake_inv_sleep_unless_woken; eauto.
  - exact Hinv.
Qed.

Lemma gsteps_wake_inv : forall t g g', gsteps t g g' -> wake_inv (g_e g) -> wake_inv (g_e g').
Proof.
  intros t g g' Hs; induction Hs as [g|g1 g2 g3 Hs IH Hst]; intros Hinv; [exact Hinv|].
  eapply gstep_wake_inv; [exact Hst|]. apply IH; exact Hinv.
Qed.

(* the ghost invariant holds when a poll starts *)
Lemma ginv_start : forall t e, alive e t -> ginv t (mkG e Polling false).
Proof.
  intros t e Hal. split; [exact Hal|]. destruct Hal as (_ & tk & Hg & _). cbn [g_e g_phase g_pending].
  exists tk. split; [exact Hg|]. split; intros; discriminate.
Qed.

(* no_lost_wake: along any interleaving of engine calls by any tasks, if some waker of t was invoked (or t was
   aborted) since t's latest poll started, then t is not asleep - hence it is scheduled and polls again. *)
Theorem no_lost_wake_run : forall t e g,
  alive e t -> gsteps t (mkG e Polling false) g -> g_pending g = true -> task_sleeping (g_e g) t = false.
Proof.
  intros t e g Hal Hs Hp.
  destruct (gsteps_ginv t _ g Hs (ginv_start t e Hal)) as (_ & tk & Hg & Hpd & _).
  unfold task_sleeping. rewrite Hg. exact (Hpd Hp).
Qed.

(* ------------------------------------------------------------------ *)
(* 2. a sleeping task is not offered and does not count as runnable     *)
(* ------------------------------------------------------------------ *)
Theorem sleeping_not_offered : forall e t tk,
  get_task e t = Some tk -> is_sleeping tk = true -> ~ In t (offered_of e).
Proof.
  intros e t tk Hg Hs Hin. unfold offered_of in Hin. apply filter_In in Hin. destruct Hin as (_ & Hb).
  rewrite Hg in Hb. unfold is_sleeping, is_runnable, can_spur in *. destruct (t_state tk); discriminate.
Qed.

Lemma any_runnable_witness : forall e, any_runnable e = true <->
  exists t tk, In t (live e) /\ get_task e t = Some tk /\ t_state tk = Runnable.
Proof.
  intros e; unfold any_runnable; rewrite existsb_exists. split.
  - intros (t & Hin & Hb). destruct (get_task e t) as [tk|] eqn:Hg; [|discriminate].
    exists t, tk. repeat split; auto. unfold is_runnable in Hb. destruct (t_state tk); congruence.
  - intros (t & tk & Hin & Hg & Hst). exists t. split; [exact Hin|]. rewrite Hg. unfold is_runnable; rewrite Hst; reflexivity.
Qed.

(* whoever keeps the execution alive is Runnable - never a sleeping (or blocked) task *)
Theorem sleeping_not_counted : forall e,
  (forall t tk, In t (live e) -> get_task e t = Some tk -> is_sleeping tk = true \/ is_blocked tk = true) ->
  any_runnable e = false.
Proof.
  intros e Hall. destruct (any_runnable e) eqn:Har; [|reflexivity].
  apply any_runnable_witness in Har. destruct Har as (t & tk & Hin & Hg & Hst).
  destruct (Hall t tk Hin Hg) as [H|H]; unfold is_sleeping, is_blocked in H; rewrite Hst in H; discriminate.
Qed.

(* contrast: a task blocked with allow_spurious_wakeups is offered, but does not count either *)
Theorem spurious_offered_not_counted : forall e t tk,
  In t (live e) -> get_task e t = Some tk -> t_state tk = Blocked true ->
  In t (offered_of e) /\ is_runnable tk = false.
Proof.
  intros e t tk Hin Hg Hst. split.
  - unfold offered_of. apply filter_In. split; [exact Hin|]. rewrite Hg. unfold is_runnable, can_spur; rewrite Hst; reflexivity.
  - unfold is_runnable; rewrite Hst; reflexivity.
Qed.

(* a runnable live task is offered *)
Lemma runnable_offered : forall e t tk,
  In t (live e) -> get_task e t = Some tk -> t_state tk = Runnable -> In t (offered_of e).
Proof.
  intros e t tk Hin Hg Hst. unfold offered_of. apply filter_In. split; [exact Hin|].
  rewrite Hg. unfold is_runnable; rewrite Hst; reflexivity.
Qed.

(* link to deadlock detection: when no live task is Runnable the scheduler is not consulted and the
   execution is declared finished (run_loop then reports a deadlock if an attached task is unfinished) *)
Theorem schedule_nobody_runnable : forall (SS : Type) (sch : scheduler SS) e st,
  next e = SNone -> any_runnable e = false ->
  schedule sch MSNone e st =
    (None, with_current_next (with_ctx e (S (ctx_switches e))) (current e) SFinished, st, []).
Proof.
  intros SS sch e st Hn Har. unfold schedule. rewrite Hn.
  change (any_runnable (with_ctx e (S (ctx_switches e)))) with (any_runnable e). rewrite Har. reflexivity.
Qed.
